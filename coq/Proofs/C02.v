(* C02 — headline statements assembled from Proofs/C02_Exec.v and Proofs/C02_Trans.v,
   phrased for a transaction that starts from a fresh per-transaction state [init b]
   (no account marked self-destructed, empty ETX cache), as every transaction does after
   the previous one's Finalize. *)
From Coq Require Import List ZArith NArith Bool Lia.
From GQ Require Import Lib.C02_BMap Generated.C02Sites Model.C02 Proofs.C02_Exec Proofs.C02_Trans.
Import ListNotations.
Local Open Scope Z_scope.

Definition rent_credit (e : env) (s : st) : Z := e_rent e * Z.of_nat (length (rent s)).

Lemma ledger_init e b : ledger e (init b) = bsum b.
Proof. unfold ledger, init. cbn. lia. Qed.

Lemma rent_inv_init b : rent_inv (init b).
Proof. split; cbn; [constructor|intros a []]. Qed.

Lemma ledger_expand e s : bsum (bal s) = ledger e s - etx_total (etx s) - burn s + rent_credit e s.
Proof. unfold ledger, rent_credit. lia. Qed.

(* conservation, exact *)
Theorem tx_conserves e m o top b s' used failed :
  wf top = true -> wf_msg m ->
  apply_tx e m o top (init b) = (s', RDone used failed) ->
  bsum (bal s') = bsum b - charge m (RDone used failed) - etx_total (etx s') - burn s' + rent_credit e s'.
Proof.
  intros W WM H. rewrite (ledger_expand e s'), (apply_tx_ledger e m o top _ s' used failed W WM H), ledger_init. lia.
Qed.

(* conservation between two arbitrary states of ApplyMessage (no fresh-state assumption) *)
Theorem transition_conserves_gen e m o top s s' used failed :
  wf top = true -> wf_msg m ->
  transition e m o top s = (s', RDone used failed) ->
  bsum (bal s') = bsum (bal s) - charge m (RDone used failed)
                  - (etx_total (etx s') - etx_total (etx s)) - (burn s' - burn s)
                  + (rent_credit e s' - rent_credit e s).
Proof.
  intros W WM H. rewrite (ledger_expand e s'), (ledger_expand e s), (transition_ledger e m o top s s' used failed W WM H). lia.
Qed.

Definition wf_tx (e : env) (m : msg) (o : opaque) (top : action) : Prop :=
  0 <= e_rent e /\ wf top = true /\ 0 <= m_price m /\ 0 <= m_value m /\ 0 <= m_gas m /\ wf_opq m o.

(* never creates: the only way up is the rent refund *)
Theorem tx_never_creates e m o top b s' used failed :
  wf_tx e m o top -> wf_msg m -> nonneg b ->
  apply_tx e m o top (init b) = (s', RDone used failed) ->
  bsum (bal s') <= bsum b - charge m (RDone used failed) + rent_credit e s'
  /\ 0 <= etx_total (etx s') /\ 0 <= burn s'.
Proof.
  intros (Hr & W & HP & HV & HG & WO) WM NN H.
  pose proof (tx_conserves e m o top b s' used failed W WM H) as C.
  destruct (apply_tx_grows e m o top _ s' _ Hr W HP HV HG WO H NN) as (_ & B & _ & _ & _ & X).
  cbn in B, X. lia.
Qed.

Theorem tx_no_negative_balance e m o top b s' r :
  wf_tx e m o top -> nonneg b -> apply_tx e m o top (init b) = (s', r) -> nonneg (bal s').
Proof.
  intros (Hr & W & HP & HV & HG & WO) NN H.
  now destruct (apply_tx_grows e m o top _ s' r Hr W HP HV HG WO H NN).
Qed.

Theorem etx_no_negative_balance e m o top b s' r :
  wf_tx e m o top -> nonneg b -> apply_etx e m o top (init b) = (s', r) -> nonneg (bal s').
Proof.
  intros (Hr & W & HP & HV & HG & WO) NN H.
  now destruct (apply_etx_grows e m o top _ s' r Hr W HP HV HG WO H NN).
Qed.

Theorem tx_rent_once e m o top b s' r :
  e_prefork e = false -> wf top = true ->
  apply_tx e m o top (init b) = (s', r) ->
  NoDup (rent s') /\ (forall a, In a (rent s') -> mem a (sui s') = true)
  /\ (Z.of_nat (length (rent s')) <= Z.of_nat (length (nodup N.eq_dec (sui s'))))%Z.
Proof.
  intros PF W. unfold apply_tx. destruct (transition e m o top (init b)) as [s1 r1] eqn:T.
  intros H. inversion H; subst.
  destruct (transition_rent_once e m o top _ s1 r PF W T (rent_inv_init b)) as [ND IN].
  assert (Q : NoDup (rent s1) /\ (forall a, In a (rent s1) -> mem a (sui s1) = true)
              /\ (Z.of_nat (length (rent s1)) <= Z.of_nat (length (nodup N.eq_dec (sui s1))))%Z).
  { repeat split; auto. apply Nat2Z.inj_le. apply NoDup_incl_length; [exact ND|].
    intros a Ha. apply nodup_In. apply mem_true. now apply IN. }
  destruct (is_invalid r); [exact Q|].
  destruct (finalise_fields s1) as (S & _ & Rn). now rewrite S, Rn.
Qed.

Theorem etx_conserves e m o top b s' used failed :
  wf top = true -> m_isETX m = true -> m_price m = 0 ->
  apply_etx e m o top (init b) = (s', RDone used failed) ->
  bsum (bal s') = bsum b + m_value m - etx_total (etx s') - burn s' + rent_credit e s'.
Proof.
  intros W X P H. rewrite (ledger_expand e s'), (apply_etx_ledger e m o top _ s' used failed W X P H), ledger_init. lia.
Qed.

Theorem etx_never_creates e m o top b s' used failed :
  wf_tx e m o top -> m_isETX m = true -> m_price m = 0 -> nonneg b ->
  apply_etx e m o top (init b) = (s', RDone used failed) ->
  bsum (bal s') <= bsum b + m_value m + rent_credit e s'.
Proof.
  intros (Hr & W & HP & HV & HG & WO) X P NN H.
  pose proof (etx_conserves e m o top b s' used failed W X P H) as C.
  destruct (apply_etx_grows e m o top _ s' _ Hr W HP HV HG WO H NN) as (_ & B & _ & _ & _ & XT).
  cbn in B, XT. lia.
Qed.

(* the clause is FALSE for the faithful model: a top-level creation that runs out of gas while
   storing its code fails, is not reverted, and has moved the endowment *)
Definition w_env : env := mkEnv 1 25000 false 6000000 30000000 0%N.
Definition w_msg : msg := mkMsg 1%N 5 200000 1 false KNormal true 3 0 0 0.
Definition w_opq : opaque := mkOpq true 0 0 false.
Definition w_top : action := ACreate 1%N 2%N 5 2%N [] 2%N.
Definition w_pre : bmap := [(1%N, 1000000)].

Theorem failed_only_payer_refuted :
  exists e m o top s s' used a,
    is_top top = true /\ wf top = true /\
    transition e m o top s = (s', RDone used true) /\ a <> m_from m /\ bget a (bal s') <> bget a (bal s).
Proof.
  exists w_env, w_msg, w_opq, w_top, (init w_pre).
  eexists. eexists. exists 2%N.
  split; [reflexivity|]. split; [reflexivity|]. split; [vm_compute; reflexivity|].
  split; [discriminate|]. vm_compute. discriminate.
Qed.

(* the boolean the correspondence check evaluates on every observed case implies the hypotheses of the theorems *)
Lemma hyps_ok_sound c : hyps_ok c = true ->
  wf_tx (c_env c) (c_msg c) (c_opq c) (c_top c) /\ wf_msg (c_msg c) /\ wf_shape (c_msg c)
  /\ (forall a v, In (a, v) (c_pre c) -> 0 <= v).
Proof.
  unfold hyps_ok. intros H.
  repeat (apply andb_true_iff in H; destruct H as [H ?]).
  repeat match goal with
         | X : (_ <=? _) = true |- _ => apply Z.leb_le in X
         end.
  unfold wf_tx, wf_opq, wf_msg, wf_shape. repeat split; try assumption.
  - intros X. match goal with Y : (if m_isETX _ then _ else _) = true |- _ => rewrite X in Y; now apply Z.eqb_eq in Y end.
  - intros a v HI. match goal with Y : forallb _ _ = true |- _ => rewrite forallb_forall in Y; specialize (Y _ HI); now apply Z.leb_le in Y end.
Qed.

(* generated side conditions *)
Lemma callsites_covered_true : callsites_covered = true.
Proof. vm_compute. reflexivity. Qed.
Lemma state_writers_covered_true : state_writers_covered = true.
Proof. vm_compute. reflexivity. Qed.
Lemma iface_covered_true : iface_covered = true.
Proof. vm_compute. reflexivity. Qed.

(* ---------- sequences of transactions ---------- *)
Definition wf_txn (t : txn) : Prop :=
  wf_tx (t_env t) (t_msg t) (t_opq t) (t_top t) /\ wf_msg (t_msg t) /\ m_isETX (t_msg t) = t_inbound t.

Lemma charge_of_eq m r : charge_of m r = charge m r.
Proof. reflexivity. Qed.

Lemma run_tx_spec t b acc b' acc' :
  wf_txn t -> nonneg b -> run_tx t b acc = (b', acc') ->
  nonneg b'
  /\ bsum b' = bsum b - (tot_charge acc' - tot_charge acc) - (tot_etx acc' - tot_etx acc) - (tot_burn acc' - tot_burn acc)
               + (tot_rent acc' - tot_rent acc) + (tot_inbound acc' - tot_inbound acc)
  /\ tot_charge acc <= tot_charge acc' /\ tot_etx acc <= tot_etx acc' /\ tot_burn acc <= tot_burn acc'
  /\ tot_inbound acc <= tot_inbound acc'.
Proof.
  intros (WT & WM & XI) NN. unfold run_tx.
  destruct (t_inbound t) eqn:IB.
  - destruct (apply_etx (t_env t) (t_msg t) (t_opq t) (t_top t) (init b)) as [s' r] eqn:A.
    destruct r as [|used failed]; cbn [is_invalid].
    + intros [= <- <-]. repeat split; try lia. exact NN.
    + intros [= <- <-]. cbn [tot_charge tot_etx tot_burn tot_rent tot_inbound].
      pose proof WT as (Hr & W & HP & HV & HG & WO).
      pose proof (etx_conserves _ _ _ _ _ _ _ _ W XI (WM XI) A) as C.
      destruct (apply_etx_grows _ _ _ _ _ _ _ Hr W HP HV HG WO A NN) as (N1 & B & _ & _ & _ & X).
      cbn in B, X. unfold rent_credit in C. rewrite XI.
      repeat split; try lia. exact N1.
  - destruct (apply_tx (t_env t) (t_msg t) (t_opq t) (t_top t) (init b)) as [s' r] eqn:A.
    destruct r as [|used failed]; cbn [is_invalid].
    + intros [= <- <-]. repeat split; try lia. exact NN.
    + intros [= <- <-]. cbn [tot_charge tot_etx tot_burn tot_rent tot_inbound].
      pose proof WT as (Hr & W & HP & HV & HG & WO).
      pose proof (tx_conserves _ _ _ _ _ _ _ _ W WM A) as C.
      destruct (apply_tx_grows _ _ _ _ _ _ _ Hr W HP HV HG WO A NN) as (N1 & B & _ & _ & _ & X).
      cbn in B, X. unfold rent_credit in C.
      assert (CH : 0 <= charge (t_msg t) (RDone used failed)).
      { unfold charge. rewrite XI. unfold apply_tx in A.
        destruct (transition (t_env t) (t_msg t) (t_opq t) (t_top t) (init b)) as [s1 r1] eqn:T.
        inversion A; subst.
        assert (WS : True) by exact I.
        unfold transition in T. rewrite XI in T.
        destruct (negb (o_pre_ok (t_opq t))); [discriminate|].
        destruct (m_price (t_msg t) <? e_basefee (t_env t)); [discriminate|].
        destruct (bget _ _ <? _); [discriminate|].
        destruct (e_gp (t_env t) <? m_gas (t_msg t)); [discriminate|].
        unfold after_buy in T.
        destruct (m_gas (t_msg t) <? intrinsic (t_msg t)); [discriminate|].
        destruct ((0 <? m_value (t_msg t)) && _); [discriminate|].
        destruct WO as [[G0 G1] HRf].
        assert (RQ : C02Sites.refund_quotient = 5) by reflexivity.
        destruct (m_kind (t_msg t)) as [|err|[ben|]]; inversion T; subst; try nia.
        rewrite RQ.
        assert (D : 0 <= (m_gas (t_msg t) - o_gleft (t_opq t)) / 5 <= m_gas (t_msg t) - o_gleft (t_opq t)).
        { split; [apply Z.div_pos; lia|]. apply Z.div_le_upper_bound; lia. }
        nia. }
      unfold charge in C, CH.
      repeat split; try lia. exact N1.
Qed.

Theorem block_conserves l : forall b acc b' acc',
  Forall wf_txn l -> nonneg b -> run_block l b acc = (b', acc') ->
  nonneg b'
  /\ bsum b' = bsum b - (tot_charge acc' - tot_charge acc) - (tot_etx acc' - tot_etx acc) - (tot_burn acc' - tot_burn acc)
               + (tot_rent acc' - tot_rent acc) + (tot_inbound acc' - tot_inbound acc)
  /\ tot_charge acc <= tot_charge acc' /\ tot_etx acc <= tot_etx acc' /\ tot_burn acc <= tot_burn acc'
  /\ tot_inbound acc <= tot_inbound acc'.
Proof.
  induction l as [|t l IH]; intros b acc b' acc' WF NN; cbn [run_block].
  - intros [= <- <-]. repeat split; try lia. exact NN.
  - inversion WF as [|? ? Wt Wl]; subst.
    destruct (run_tx t b acc) as [b1 acc1] eqn:R. intros H.
    destruct (run_tx_spec t b acc b1 acc1 Wt NN R) as (N1 & S1 & C1 & E1 & B1 & I1).
    destruct (IH b1 acc1 b' acc' Wl N1 H) as (N2 & S2 & C2 & E2 & B2 & I2).
    repeat split; try lia. exact N2.
Qed.

(* ---------- block-shaped cases of the correspondence check ---------- *)
Lemma txn_hyps_ok_sound t : txn_hyps_ok t = true -> wf_txn t.
Proof.
  unfold txn_hyps_ok. intros H.
  repeat (apply andb_true_iff in H; destruct H as [H ?]).
  repeat match goal with
         | X : (_ <=? _) = true |- _ => apply Z.leb_le in X
         end.
  unfold wf_txn, wf_tx, wf_opq, wf_msg. repeat split; try assumption.
  - intros X. match goal with Y : (if m_isETX _ then _ else _) = true |- _ => rewrite X in Y; now apply Z.eqb_eq in Y end.
  - match goal with Y : Bool.eqb _ _ = true |- _ => now apply Bool.eqb_prop in Y end.
Qed.

Lemma nonneg_of_forallb (b : bmap) : forallb (fun p => 0 <=? snd p) b = true -> nonneg b.
Proof.
  intros H a. induction b as [|[k v] r IH]; cbn [bget]; [lia|].
  cbn [forallb snd] in H. apply andb_true_iff in H. destruct H as [Hv Hr].
  destruct (N.eqb a k); [now apply Z.leb_le in Hv|exact (IH Hr)].
Qed.

Lemma blk_hyps_ok_sound c : blk_hyps_ok c = true -> Forall wf_txn (c_blk c) /\ nonneg (c_blkpre c).
Proof.
  unfold blk_hyps_ok. intros H. apply andb_true_iff in H. destruct H as [HT HB]. split.
  - apply Forall_forall. intros t HI. rewrite forallb_forall in HT. exact (txn_hyps_ok_sound t (HT t HI)).
  - exact (nonneg_of_forallb _ HB).
Qed.

(* what the check establishes for every observed block once its boolean is true: the model's run over the
   block conserves, and (blk_ok) that run ends at the balances the real StateDB showed *)
Theorem checked_block_conserves c b' acc' :
  blk_hyps_ok c = true -> run_block (c_blk c) (c_blkpre c) tot0 = (b', acc') ->
  nonneg b'
  /\ bsum b' = bsum (c_blkpre c) - tot_charge acc' - tot_etx acc' - tot_burn acc' + tot_rent acc' + tot_inbound acc'
  /\ bsum b' <= bsum (c_blkpre c) - tot_charge acc' - tot_etx acc' + tot_rent acc' + tot_inbound acc'
  /\ 0 <= tot_charge acc' /\ 0 <= tot_etx acc' /\ 0 <= tot_burn acc' /\ 0 <= tot_inbound acc'.
Proof.
  intros H R. destruct (blk_hyps_ok_sound c H) as [WF NN].
  destruct (block_conserves _ _ _ _ _ WF NN R) as (N1 & S & C & E & B & I).
  cbn [tot0 tot_charge tot_etx tot_burn tot_rent tot_inbound] in *.
  repeat split; try lia. exact N1.
Qed.

(* an account that a transaction leaves marked self-destructed holds nothing afterwards, whatever it was
   sent after its SELFDESTRUCT; the next transaction of the block starts from these balances ([run_tx]:
   [init (bal s')], nobody marked), so bringing the address back cannot bring the burnt value back *)
Theorem destroyed_account_restarts_empty e m o top s s' used failed a :
  apply_tx e m o top s = (s', RDone used failed) -> mem a (sui s') = true -> bget a (bal s') = 0.
Proof.
  unfold apply_tx. destruct (transition e m o top s) as [s1 r] eqn:T. intros H.
  inversion H; subst. cbn [is_invalid]. destruct (finalise_fields s1) as (S & _ & _).
  rewrite S. apply finalise_deletes.
Qed.

(* C06 — main lemmas: what Finalize's commitment (accumulator, set size) is after a block, in terms of
   the database content after the block. *)
From Coq Require Import List NArith ZArith Bool Lia Permutation Arith.
From Coq Require Import ZifyBool ZifyNat ZifyN.
From GQ Require Import Model.C06 Proofs.C06_Acc Proofs.C06_Db.
Import ListNotations.
Local Open Scope N_scope.

(* the commitment describes the content: accumulator = sum of the live elements, size = their number *)
Definition Inv (s : st) : Prop :=
  db_ok (s_db s) /\ ceq (s_acc s) (of_content (content (s_db s)))
  /\ s_size s = N.of_nat (length (s_db s)).

Definition ops_db (s : st) (ops : list op) : db := fst (fst (run_ops (s_db s) ops)).
Definition ops_created (s : st) (ops : list op) : list elem := snd (fst (run_ops (s_db s) ops)).
Definition ops_deleted (s : st) (ops : list op) : list elem := snd (run_ops (s_db s) ops).
Definition view_of (tv : trim_view) (s : st) (ops : list op) : db :=
  match tv with ParentDb => s_db s | AfterOps => ops_db s ops end.
Definition trimmed (tv : trim_view) (s : st) (ops : list op) (cands : list (list cand)) : list (key * elem) :=
  flat_map (trim_one (view_of tv s ops)) cands.
(* elements TrimBlock removes although the block's own operations already removed them *)
Definition doubled (tv : trim_view) (s : st) (ops : list op) (cands : list (list cand)) : list elem :=
  map snd (gone (ops_db s ops) (trimmed tv s ops cands)).

(* entry counts fit the uint64 set-size counter *)
Definition fits64 (tv : trim_view) (s : st) (ops : list op) (cands : list (list cand)) : Prop :=
  N.of_nat (length (s_db s)) + N.of_nat (length (ops_created s ops)) < W64
  /\ N.of_nat (length (trimmed tv s ops cands)) < W64.

Definition W64z : Z := 18446744073709551616%Z.

Lemma size_arith : forall a t : N, a < W64 -> t < W64 ->
  Z.of_N ((a + (W64 - t mod W64)) mod W64) = ((Z.of_N a - Z.of_N t) mod W64z)%Z.
Proof.
  intros a t Ha Ht. rewrite (N.mod_small t W64) by exact Ht.
  unfold W64, W64z in *.
  destruct (N.le_gt_cases t a) as [Hle|Hgt].
  - assert (E : a + (18446744073709551616 - t) = (a - t) + 1 * 18446744073709551616) by lia.
    rewrite E, N.mod_add by discriminate. rewrite N.mod_small by lia.
    rewrite Z.mod_small by lia. lia.
  - rewrite N.mod_small by lia.
    assert (E : (Z.of_N a - Z.of_N t = (Z.of_N a - Z.of_N t + 18446744073709551616) + (-1) * 18446744073709551616)%Z) by lia.
    rewrite E, Z.mod_add by discriminate. rewrite Z.mod_small by lia. lia.
Qed.

(* The general statement: whatever TrimBlock looks the candidates up in, provided every trimmed (key,element)
   is, after the block's own operations, either still live with that element or no longer live. *)
Lemma finalize_general : forall tv s ops cands,
  Inv s -> creates_fresh (s_db s) ops -> NoDup (map fst (concat cands)) ->
  (forall kv, In kv (trimmed tv s ops cands) ->
     db_get (ops_db s ops) (fst kv) = Some (snd kv) \/ db_get (ops_db s ops) (fst kv) = None) ->
  fits64 tv s ops cands ->
  exists s', finalize tv s ops cands = Some (s', map fst (trimmed tv s ops cands))
    /\ db_ok (s_db s')
    /\ s_db s' = dels (trimmed tv s ops cands) (ops_db s ops)
    /\ (forall x, count (s_acc s') x = (occ (content (s_db s')) x - occ (doubled tv s ops cands) x)%Z)
    /\ Z.of_N (s_size s')
       = ((Z.of_nat (length (s_db s')) - Z.of_nat (length (doubled tv s ops cands))) mod W64z)%Z.
Proof.
  intros tv s ops cands [Hok [Hacc Hsz]] Hfresh Hnd Hst [Hfit1 Hfit2].
  unfold finalize, doubled, trimmed, view_of, ops_db, ops_created in *.
  pose proof (run_ops_spec ops (s_db s) Hok Hfresh) as R.
  destruct (run_ops (s_db s) ops) as [[d1 cr] de] eqn:RO. cbn [fst snd] in *.
  destruct R as [Hok1 [Hocc1 Hlen1]].
  set (view := match tv with ParentDb => s_db s | AfterOps => d1 end) in *.
  set (tr := flat_map (trim_one view) cands) in *.
  assert (Hndt : NoDup (map fst tr)) by (apply trimmed_nodup, Hnd).
  destruct (dels_spec tr d1 Hok1 Hndt Hst) as [Hocc2 Hlen2].
  pose proof (len_present_gone d1 tr) as Hpg.
  assert (Hnoerr : N.ltb (s_size s + N.of_nat (length cr)) (N.of_nat (length de)) = false).
  { apply N.ltb_ge. rewrite Hsz. lia. }
  rewrite Hnoerr.
  eexists. split; [reflexivity|]. cbn [s_db s_acc s_size].
  split; [apply dels_ok, Hok1|]. split; [reflexivity|]. split.
  - intros x. rewrite count_block, Hacc, count_of_content.
    fold (dels tr d1). rewrite Hocc2, Hocc1.
    rewrite (occ_present_gone d1 tr x). lia.
  - fold (dels tr d1).
    assert (Ea : s_size s + N.of_nat (length cr) - N.of_nat (length de) = N.of_nat (length d1)).
    { rewrite Hsz. lia. }
    rewrite Ea. rewrite size_arith by lia. f_equal. rewrite map_length. lia.
Qed.

(* ---------- faithful blocks ---------- *)
(* no element is both trimmed and touched by the block's own operations *)
Definition trim_disjoint (s : st) (ops : list op) (cands : list (list cand)) : Prop :=
  forall kv, In kv (trimmed ParentDb s ops cands) -> db_get (ops_db s ops) (fst kv) = Some (snd kv).

Lemma gone_nil : forall d tr,
  (forall kv, In kv tr -> db_get d (fst kv) = Some (snd kv)) -> gone d tr = [].
Proof.
  induction tr as [|kv t IH]; intros Hp; cbn [gone filter]; [reflexivity|].
  rewrite (Hp kv (or_introl eq_refl)). cbn [is_some negb]. apply IH.
  intros kv' Hi; apply Hp; right; exact Hi.
Qed.

Lemma inv_of_general : forall tv s ops cands s',
  db_ok (s_db s') ->
  (forall x, count (s_acc s') x = (occ (content (s_db s')) x - occ (doubled tv s ops cands) x)%Z) ->
  Z.of_N (s_size s')
    = ((Z.of_nat (length (s_db s')) - Z.of_nat (length (doubled tv s ops cands))) mod W64z)%Z ->
  doubled tv s ops cands = [] ->
  N.of_nat (length (s_db s')) < W64 ->
  Inv s'.
Proof.
  intros tv s ops cands s' Hok Hc Hs Hd Hfit. rewrite Hd in *. cbn [occ length] in *.
  split; [exact Hok|]. split.
  - intros x. rewrite Hc, count_of_content. lia.
  - unfold W64, W64z in *. rewrite Z.mod_small in Hs by lia. lia.
Qed.

Lemma dels_len_le : forall tr d, (length (dels tr d) <= length d)%nat.
Proof.
  induction tr as [|kv t IH]; intros d; cbn [dels fold_left]; [lia|].
  fold (dels t (db_del (fst kv) d)). specialize (IH (db_del (fst kv) d)).
  assert (length (db_del (fst kv) d) <= length d)%nat.
  { clear. induction d as [|[k2 e2] t' IH']; cbn [db_del length]; [lia|].
    destruct (N.eqb (fst kv) k2); [lia|]. destruct (N.ltb (fst kv) k2); cbn [length]; lia. }
  lia.
Qed.

Lemma step_faithful : forall s ops cands,
  Inv s -> creates_fresh (s_db s) ops -> NoDup (map fst (concat cands)) ->
  trim_disjoint s ops cands -> fits64 ParentDb s ops cands ->
  exists s', finalize ParentDb s ops cands = Some (s', map fst (trimmed ParentDb s ops cands)) /\ Inv s'.
Proof.
  intros s ops cands HI Hf Hnd Hd Hfit.
  destruct (finalize_general ParentDb s ops cands HI Hf Hnd) as [s' [E [Hok [Hdb [Hc Hs]]]]].
  - intros kv Hi. left. apply Hd, Hi.
  - exact Hfit.
  - exists s'. split; [exact E|].
    apply (inv_of_general ParentDb s ops cands s' Hok Hc Hs).
    + unfold doubled. rewrite gone_nil; [reflexivity|exact Hd].
    + rewrite Hdb. pose proof (dels_len_le (trimmed ParentDb s ops cands) (ops_db s ops)) as L.
      destruct HI as [Hok0 _].
      pose proof (run_ops_spec ops (s_db s) Hok0 Hf) as R.
      unfold ops_db, fits64, ops_created in *.
      destruct (run_ops (s_db s) ops) as [[d1 cr] de]. cbn [fst snd] in *.
      destruct R as [_ [_ Hl]]. destruct Hfit as [Hf1 _]. lia.
Qed.

(* with the repaired TrimBlock (looks the candidates up after the block's own operations) no
   disjointness hypothesis is needed *)
Lemma step_after_ops : forall s ops cands,
  Inv s -> creates_fresh (s_db s) ops -> NoDup (map fst (concat cands)) ->
  fits64 AfterOps s ops cands ->
  exists s', finalize AfterOps s ops cands = Some (s', map fst (trimmed AfterOps s ops cands)) /\ Inv s'.
Proof.
  intros s ops cands HI Hf Hnd Hfit.
  assert (Hp : forall kv, In kv (trimmed AfterOps s ops cands) ->
                 db_get (ops_db s ops) (fst kv) = Some (snd kv)).
  { intros kv Hi. apply (trimmed_in_view _ cands), Hi. }
  destruct (finalize_general AfterOps s ops cands HI Hf Hnd) as [s' [E [Hok [Hdb [Hc Hs]]]]].
  - intros kv Hi. left. apply Hp, Hi.
  - exact Hfit.
  - exists s'. split; [exact E|].
    apply (inv_of_general AfterOps s ops cands s' Hok Hc Hs).
    + unfold doubled. rewrite gone_nil; [reflexivity|exact Hp].
    + rewrite Hdb. pose proof (dels_len_le (trimmed AfterOps s ops cands) (ops_db s ops)) as L.
      destruct HI as [Hok0 _].
      pose proof (run_ops_spec ops (s_db s) Hok0 Hf) as R.
      unfold ops_db, fits64, ops_created in *.
      destruct (run_ops (s_db s) ops) as [[d1 cr] de]. cbn [fst snd] in *.
      destruct R as [_ [_ Hl]]. destruct Hfit as [Hf1 _]. lia.
Qed.

(* ---------- chains ---------- *)
Definition delta_faithful (tv : trim_view) (s : st) (b : block) : Prop :=
  creates_fresh (s_db s) (fst b) /\ NoDup (map fst (concat (snd b)))
  /\ match tv with ParentDb => trim_disjoint s (fst b) (snd b) | AfterOps => True end
  /\ fits64 tv s (fst b) (snd b).

Fixpoint chain_faithful (tv : trim_view) (s : st) (bs : list block) : Prop :=
  match bs with
  | [] => True
  | b :: t => delta_faithful tv s b
              /\ match finalize tv s (fst b) (snd b) with
                 | Some (s', _) => chain_faithful tv s' t
                 | None => False
                 end
  end.

Lemma step_any : forall tv s b, Inv s -> delta_faithful tv s b ->
  exists s' tr, finalize tv s (fst b) (snd b) = Some (s', tr) /\ Inv s'.
Proof.
  intros [|] s [ops cands] HI [Hf [Hnd [Hd Hfit]]]; cbn [fst snd] in *.
  - destruct (step_faithful s ops cands HI Hf Hnd Hd Hfit) as [s' [E HI']]. eauto.
  - destruct (step_after_ops s ops cands HI Hf Hnd Hfit) as [s' [E HI']]. eauto.
Qed.

Lemma chain_inv : forall tv bs s, Inv s -> chain_faithful tv s bs ->
  exists s', run_chain tv s bs = Some s' /\ Inv s'.
Proof.
  induction bs as [|b t IH]; intros s HI Hc; cbn [run_chain chain_faithful] in *.
  - eauto.
  - destruct Hc as [Hd Hc].
    destruct (step_any tv s b HI Hd) as [s' [tr [E HI']]].
    rewrite E in *. apply IH; assumption.
Qed.

Lemma genesis_inv : Inv genesis.
Proof. split; [exact I|]. split; [intros e; reflexivity|reflexivity]. Qed.

(* ---------- commit_ok decides Inv's commitment part ---------- *)
Lemma commit_ok_spec : forall s, commit_ok s = true <->
  (ceq (s_acc s) (of_content (content (s_db s))) /\ s_size s = N.of_nat (length (s_db s))).
Proof.
  intros s. unfold commit_ok. rewrite andb_true_iff, acc_eqb_spec, N.eqb_eq. reflexivity.
Qed.

(* ---------- order independence ---------- *)
Lemma block_acc_perm : forall a cr cr' de de' tr tr',
  Permutation cr cr' -> Permutation de de' -> Permutation tr tr' ->
  ceq (acc_removes (acc_adds a cr) (de ++ tr)) (acc_removes (acc_adds a cr') (de' ++ tr')).
Proof.
  intros a cr cr' de de' tr tr' P1 P2 P3 e. rewrite !count_block.
  rewrite (occ_perm _ _ P1), (occ_perm _ _ P2), (occ_perm _ _ P3). reflexivity.
Qed.

(* an interleaving of the per-goroutine result lists (each goroutine appends its results in its own
   order; the mutex serialises the appends in an arbitrary global order) *)
Inductive interleave {A : Type} : list (list A) -> list A -> Prop :=
| il_done : forall ls, Forall (fun l => l = []) ls -> interleave ls []
| il_step : forall ls1 x l ls2 r,
    interleave (ls1 ++ l :: ls2) r -> interleave (ls1 ++ (x :: l) :: ls2) (x :: r).

Lemma concat_all_nil : forall (A : Type) (ls : list (list A)), Forall (fun l => l = []) ls -> concat ls = [].
Proof.
  induction ls as [|l t IH]; intros Hf; cbn [concat]; [reflexivity|].
  inversion Hf as [|? ? Hl Ht]; subst. rewrite IH by exact Ht. reflexivity.
Qed.

Lemma interleave_perm : forall (A : Type) (ls : list (list A)) r, interleave ls r -> Permutation (concat ls) r.
Proof.
  intros A ls r Hi; induction Hi as [ls Hf|ls1 x l ls2 r Hi IH].
  - rewrite concat_all_nil by exact Hf. constructor.
  - rewrite concat_app in *. cbn [concat] in *.
    rewrite <- app_comm_cons. symmetry. apply Permutation_cons_app. symmetry. exact IH.
Qed.

Lemma dels_interleave : forall trs tr' d, db_ok d -> interleave trs tr' ->
  dels (concat trs) d = dels tr' d /\ length (concat trs) = length tr'.
Proof.
  intros trs tr' d Hok Hi. pose proof (interleave_perm _ trs tr' Hi) as P.
  split; [apply dels_perm; assumption|apply Permutation_length, P].
Qed.

(* ---------- exact set-size arithmetic of a faithful block: no error, no wrap-around ---------- *)
Lemma step_faithful_size : forall s ops cands,
  Inv s -> creates_fresh (s_db s) ops -> NoDup (map fst (concat cands)) ->
  trim_disjoint s ops cands -> fits64 ParentDb s ops cands ->
  exists s' tr, finalize ParentDb s ops cands = Some (s', tr)
    /\ (Z.of_nat (length (ops_deleted s ops)) <= Z.of_N (s_size s) + Z.of_nat (length (ops_created s ops)))%Z
    /\ (Z.of_nat (length tr) <= Z.of_N (s_size s) + Z.of_nat (length (ops_created s ops)) - Z.of_nat (length (ops_deleted s ops)))%Z
    /\ Z.of_N (s_size s') = (Z.of_N (s_size s) + Z.of_nat (length (ops_created s ops))
                             - Z.of_nat (length (ops_deleted s ops)) - Z.of_nat (length tr))%Z.
Proof.
  intros s ops cands HI Hf Hnd Hd Hfit.
  destruct (step_faithful s ops cands HI Hf Hnd Hd Hfit) as [s' [E [Hok' [_ Hsz']]]].
  exists s', (map fst (trimmed ParentDb s ops cands)). split; [exact E|].
  destruct (finalize_general ParentDb s ops cands HI Hf Hnd) as [s2 [E2 [_ [Hdb _]]]].
  { intros kv Hi. left. apply Hd, Hi. }
  { exact Hfit. }
  rewrite E in E2. injection E2 as <-.
  destruct HI as [Hok [_ Hsz]].
  pose proof (run_ops_spec ops (s_db s) Hok Hf) as R.
  assert (Hndt : NoDup (map fst (trimmed ParentDb s ops cands))) by (apply trimmed_nodup, Hnd).
  unfold trim_disjoint in *. unfold ops_db, ops_created, ops_deleted in *.
  destruct (run_ops (s_db s) ops) as [[d1 cr] de] eqn:RO. cbn [fst snd] in *.
  destruct R as [Hok1 [_ Hl1]].
  set (tr := trimmed ParentDb s ops cands) in *.
  destruct (dels_spec tr d1 Hok1 Hndt) as [_ Hl2].
  { intros kv Hi. left. apply Hd, Hi. }
  pose proof (len_present_gone d1 tr) as Hpg.
  rewrite (gone_nil d1 tr Hd) in Hpg. cbn [length] in Hpg.
  rewrite Hsz', Hdb, Hsz, map_length. lia.
Qed.

(* ---------- keys written by the block's operations ---------- *)
Definition put_keys (ops : list op) : list key :=
  flat_map (fun o => match o with Create k _ => [k] | Update k _ => [k] | Spend _ => [] end) ops.

Lemma run_ops_get : forall ops d k, db_ok d -> ~ In k (put_keys ops) ->
  db_get (fst (fst (run_ops d ops))) k = db_get d k \/ db_get (fst (fst (run_ops d ops))) k = None.
Proof.
  induction ops as [|o t IH]; intros d k Hok Hn; cbn [run_ops]; [left; reflexivity|].
  cbn [put_keys flat_map] in Hn. fold (put_keys t) in Hn.
  assert (Hn2 : ~ In k (put_keys t)) by (intro Hx; apply Hn, in_or_app; right; exact Hx).
  assert (E : exists d1, fst (fst (eff d o)) = d1 /\ db_ok d1 /\ (db_get d1 k = db_get d k \/ db_get d1 k = None)).
  { destruct o as [k0 e0|k0 e0|k0]; cbn [eff].
    - exists (db_put k0 e0 d). split; [reflexivity|]. split; [apply put_ok, Hok|].
      left. rewrite get_put by exact Hok. destruct (N.eqb_spec k k0) as [->|]; [|reflexivity].
      exfalso; apply Hn, in_or_app; left; left; reflexivity.
    - assert (Hg : db_get (db_put k0 e0 d) k = db_get d k).
      { rewrite get_put by exact Hok. destruct (N.eqb_spec k k0) as [->|]; [|reflexivity].
        exfalso; apply Hn, in_or_app; left; left; reflexivity. }
      destruct (db_get d k0); cbn [fst]; exists (db_put k0 e0 d);
        (split; [reflexivity|split; [apply put_ok, Hok|left; exact Hg]]).
    - destruct (db_get d k0) eqn:G; cbn [fst].
      + exists (db_del k0 d). split; [reflexivity|]. split; [apply del_ok, Hok|].
        rewrite get_del by exact Hok. destruct (N.eqb k k0); [right|left]; reflexivity.
      + exists d. split; [reflexivity|]. split; [exact Hok|left; reflexivity]. }
  destruct E as [d1 [E1 [Hok1 Hg1]]].
  destruct (eff d o) as [[d1' c1] x1]. cbn [fst] in E1. subst d1'.
  specialize (IH d1 k Hok1 Hn2).
  destruct (run_ops d1 t) as [[d2 c2] x2]. cbn [fst] in *.
  destruct IH as [IH|IH]; [|right; exact IH].
  destruct Hg1 as [Hg1|Hg1]; [left|right]; congruence.
Qed.

(* the exact divergence caused by the code as it is: TrimBlock reads the parent state *)
Lemma step_parentdb_exact : forall s ops cands,
  Inv s -> creates_fresh (s_db s) ops -> NoDup (map fst (concat cands)) ->
  (forall c, In c (concat cands) -> ~ In (fst c) (put_keys ops)) ->
  fits64 ParentDb s ops cands ->
  exists s', finalize ParentDb s ops cands = Some (s', map fst (trimmed ParentDb s ops cands))
    /\ db_ok (s_db s')
    /\ (forall x, count (s_acc s') x = (occ (content (s_db s')) x - occ (doubled ParentDb s ops cands) x)%Z)
    /\ Z.of_N (s_size s')
       = ((Z.of_nat (length (s_db s')) - Z.of_nat (length (doubled ParentDb s ops cands))) mod W64z)%Z.
Proof.
  intros s ops cands HI Hf Hnd Hnp Hfit.
  destruct (finalize_general ParentDb s ops cands HI Hf Hnd) as [s' [E [Hok [_ [Hc Hs]]]]].
  - intros kv Hi.
    assert (Hv : db_get (s_db s) (fst kv) = Some (snd kv)) by (apply (trimmed_in_view _ cands), Hi).
    assert (Hk : ~ In (fst kv) (put_keys ops)).
    { unfold trimmed, view_of in Hi. apply in_flat_map in Hi. destruct Hi as [cs [Hcs Hi]].
      rewrite trim_one_eq in Hi. apply in_flat_map in Hi. destruct Hi as [c [Hc' Hi]].
      unfold trim_f in Hi. destruct (snd c); [|destruct Hi].
      destruct (db_get (s_db s) (fst c)); [|destruct Hi]. destruct Hi as [<-|[]]. cbn [fst].
      apply Hnp. apply in_concat. exists cs. split; assumption. }
    destruct HI as [Hok0 _].
    destruct (run_ops_get ops (s_db s) (fst kv) Hok0 Hk) as [G|G]; unfold ops_db; rewrite G; [left; exact Hv|right; reflexivity].
  - exact Hfit.
  - exists s'. repeat split; assumption.
Qed.

(* ---------- the whole Finalize result is schedule independent ---------- *)
Lemma run_ops_ok : forall ops d, db_ok d -> db_ok (fst (fst (run_ops d ops))).
Proof.
  induction ops as [|o t IH]; intros d Hok; cbn [run_ops]; [exact Hok|].
  assert (Hok1 : db_ok (fst (fst (eff d o)))).
  { destruct o as [k e|k e|k]; cbn [eff].
    - apply put_ok, Hok.
    - destruct (db_get d k); cbn [fst]; apply put_ok, Hok.
    - destruct (db_get d k); cbn [fst]; [apply del_ok, Hok|exact Hok]. }
  destruct (eff d o) as [[d1 c1] x1]. cbn [fst] in Hok1.
  specialize (IH d1 Hok1). destruct (run_ops d1 t) as [[d2 c2] x2]. exact IH.
Qed.

Lemma finalize_schedule_indep : forall s ops (trs : list (list (key * elem))) tr',
  db_ok (s_db s) -> interleave trs tr' ->
  let d1 := fst (fst (run_ops (s_db s) ops)) in
  let cr := snd (fst (run_ops (s_db s) ops)) in
  let de := snd (run_ops (s_db s) ops) in
  dels (concat trs) d1 = dels tr' d1
  /\ length (concat trs) = length tr'
  /\ ceq (acc_removes (acc_adds (s_acc s) cr) (de ++ map snd (concat trs)))
         (acc_removes (acc_adds (s_acc s) cr) (de ++ map snd tr')).
Proof.
  intros s ops trs tr' Hok Hi d1 cr de.
  pose proof (interleave_perm _ trs tr' Hi) as P.
  split; [apply dels_perm; [exact P|apply run_ops_ok, Hok]|].
  split; [apply Permutation_length, P|].
  apply block_acc_perm; [apply Permutation_refl|apply Permutation_refl|apply Permutation_map, P].
Qed.

(* C08 -- lemmas about the result caches of the PoW engines (Model/C08.v, section "the PoW engines' result caches").
   Main fact: a memoised kernel answers every history of queries exactly like the kernel itself as long as the
   cache key determines the kernel input; for the keys the engines use that holds up to a collision of the key
   hash (and, for the number = height / prime terminus number, which is not part of the key but is hashed into
   q_hash, up to two queries with one q_hash and two numbers). *)
From Coq Require Import List ZArith Bool Lia.
From GQ Require Import Generated.C08Fields Model.C08 Proofs.C08.
Import ListNotations.
Local Open Scope Z_scope.

(* ------------------------------------------------------------------ little-endian encoding *)

Lemma le_bytes_length : forall n x, length (le_bytes n x) = n.
Proof. induction n as [|n IH]; intros x; cbn [le_bytes length]; auto. Qed.

Lemma le_val_le_bytes : forall n x, le_val (le_bytes n x) = x mod 256 ^ Z.of_nat n.
Proof.
  induction n as [|n IH]; intros x.
  - cbn. rewrite Z.mod_1_r. reflexivity.
  - cbn [le_bytes]. unfold le_val in *. cbn [fold_right]. rewrite IH.
    rewrite Nat2Z.inj_succ, Z.pow_succ_r by lia.
    rewrite Z.rem_mul_r by lia. reflexivity.
Qed.

Lemma le_bytes8_inj : forall x y, 0 <= x < 2 ^ 64 -> 0 <= y < 2 ^ 64 -> le_bytes 8 x = le_bytes 8 y -> x = y.
Proof.
  intros x y Hx Hy E. apply (f_equal le_val) in E. rewrite !le_val_le_bytes in E.
  replace (256 ^ Z.of_nat 8) with (2 ^ 64) in E by reflexivity.
  rewrite !Z.mod_small in E by lia. exact E.
Qed.

Lemma bytes_eqb_refl : forall a, bytes_eqb a a = true.
Proof. intros a. apply bytes_eqb_eq. reflexivity. Qed.

Lemma bytes_eqb_neq : forall a b, bytes_eqb a b = false <-> a <> b.
Proof.
  intros a b. split.
  - intros E ->. rewrite bytes_eqb_refl in E. discriminate.
  - intros N. destruct (bytes_eqb a b) eqn:E; auto. apply bytes_eqb_eq in E. contradiction.
Qed.

(* ------------------------------------------------------------------ well-formed queries, key injectivity *)

Definition wf_query (q : pquery) : Prop :=
  length (q_hash q) = 32%nat /\ length (q_mix q) = 32%nat /\ 0 <= q_nonce q < 2 ^ 64.

Lemma key_material_inj : forall k q q', wf_query q -> wf_query q' ->
  key_material k q = key_material k q' -> q_hash q = q_hash q' /\ q_nonce q = q_nonce q'.
Proof.
  intros k q q' (Lh & Lm & Rn) (Lh' & Lm' & Rn') E. destruct k; cbn [key_material] in E.
  - apply app_inv_len in E; [|rewrite !le_bytes_length; reflexivity].
    destruct E as [E1 E2]. split; auto. apply le_bytes8_inj; auto.
  - apply app_inv_len in E; [|rewrite !app_length, !rev_length, !le_bytes_length; lia].
    destruct E as [_ E]. apply app_inv_len in E; [|rewrite !rev_length, !le_bytes_length; reflexivity].
    destruct E as [E1 E2]. split; auto.
    apply (f_equal (@rev Z)) in E2. rewrite !rev_involutive in E2. apply le_bytes8_inj; auto.
Qed.

(* ------------------------------------------------------------------ the cache *)

Lemma ec_find_evicted : forall ks key c, existsb (bytes_eqb key) ks = true -> ec_find key (ec_evict ks c) = None.
Proof.
  intros ks key c Hin. induction c as [|[k' r'] c IH]; cbn; auto.
  destruct (existsb (bytes_eqb k') ks) eqn:E; cbn [negb]; auto.
  cbn [ec_find]. destruct (bytes_eqb k' key) eqn:B; auto.
  apply bytes_eqb_eq in B. subst k'. rewrite Hin in E. discriminate.
Qed.

Lemma ec_find_evict : forall ks key c r, ec_find key (ec_evict ks c) = Some r -> ec_find key c = Some r.
Proof.
  intros ks key c r. induction c as [|[k' r'] c IH]; cbn; auto.
  destruct (existsb (bytes_eqb k') ks) eqn:E; cbn [negb].
  - intros F. destruct (bytes_eqb k' key) eqn:B; auto.
    apply bytes_eqb_eq in B. subst k'.
    change (filter (fun e : bytes * (bytes * bytes) => negb (existsb (bytes_eqb (fst e)) ks)) c) with (ec_evict ks c) in F.
    rewrite ec_find_evicted in F by exact E. discriminate.
  - cbn [ec_find]. destruct (bytes_eqb k' key); auto.
Qed.

Section Memo.
  Variable KH : bytes -> bytes.
  Variable K : bytes -> Z -> Z -> bytes * bytes.
  Variable keyf : pquery -> bytes.

  Definition same_input (q q' : pquery) : Prop :=
    q_hash q = q_hash q' /\ q_nonce q = q_nonce q' /\ q_num q = q_num q'.

  Lemma same_input_kernel : forall q q', same_input q q' -> kernel_of K q = kernel_of K q'.
  Proof. intros q q' (A & B & C). unfold kernel_of. rewrite A, B, C. reflexivity. Qed.

  (* the key determines the kernel input, on the queries of one history *)
  Definition key_ok (all : list pquery) : Prop :=
    forall q q', In q all -> In q' all -> KH (keyf q) = KH (keyf q') -> same_input q q'.

  (* every entry is the kernel's answer for a query of the history filed under that query's key *)
  Definition cache_inv (all : list pquery) (c : ecache) : Prop :=
    forall key r, ec_find key c = Some r -> exists q, In q all /\ KH (keyf q) = key /\ r = kernel_of K q.

  Lemma cache_inv_nil : forall all, cache_inv all [].
  Proof. intros all key r F. cbn in F. discriminate. Qed.

  Lemma cache_inv_evict : forall all ks c, cache_inv all c -> cache_inv all (ec_evict ks c).
  Proof. intros all ks c I key r F. apply ec_find_evict in F. apply I. exact F. Qed.

  Lemma pow_hash_step : forall all c q, key_ok all -> In q all -> cache_inv all c ->
    fst (pow_hash KH K keyf c q) = pow_hash_pure K q /\ cache_inv all (snd (pow_hash KH K keyf c q)).
  Proof.
    intros all c q OK Hq I. unfold pow_hash, pow_light, pow_hash_pure.
    destruct (ec_find (KH (keyf q)) c) as [r|] eqn:F; cbn [fst snd].
    - destruct (I _ _ F) as (q' & Hq' & Ek & ->). split; auto.
      rewrite (same_input_kernel q' q); auto.
    - split; auto. intros key r F'. cbn [ec_find] in F'.
      destruct (bytes_eqb (KH (keyf q)) key) eqn:B.
      + apply bytes_eqb_eq in B. inversion F'; subst. exists q. auto.
      + apply I. exact F'.
  Qed.

  Lemma engine_run_ev_pure : forall all evqs c, key_ok all -> (forall q, In q (map snd evqs) -> In q all) ->
    cache_inv all c -> engine_run_ev KH K keyf c evqs = map (pow_hash_pure K) (map snd evqs).
  Proof.
    intros all evqs. induction evqs as [|[ev q] t IH]; intros c OK Hin I; cbn [engine_run_ev map snd]; auto.
    pose proof (pow_hash_step all (ec_evict ev c) q OK (Hin q (or_introl eq_refl)) (cache_inv_evict all ev c I)) as [E1 E2].
    destruct (pow_hash KH K keyf (ec_evict ev c) q) as [o c'] eqn:P. cbn [fst snd] in E1, E2.
    rewrite E1. f_equal. apply IH; auto. intros q' Hq'. apply Hin. right. exact Hq'.
  Qed.

  (* deciding key_ok *)
  Definition same_input_b (q q' : pquery) : bool :=
    bytes_eqb (q_hash q) (q_hash q') && (q_nonce q =? q_nonce q') && (q_num q =? q_num q').
  Definition pair_ok_b (q q' : pquery) : bool :=
    implb (bytes_eqb (KH (keyf q)) (KH (keyf q'))) (same_input_b q q').
  Definition pairs_ok_b (all : list pquery) : bool :=
    forallb (fun q => forallb (pair_ok_b q) all) all.

  Lemma same_input_b_true : forall q q', same_input_b q q' = true -> same_input q q'.
  Proof.
    intros q q' E. unfold same_input_b in E. apply andb_prop in E. destruct E as [E E3].
    apply andb_prop in E. destruct E as [E1 E2].
    apply bytes_eqb_eq in E1. apply Z.eqb_eq in E2. apply Z.eqb_eq in E3. repeat split; auto.
  Qed.

  Lemma pairs_ok_b_true : forall all, pairs_ok_b all = true -> key_ok all.
  Proof.
    intros all E q q' Hq Hq' Ek. unfold pairs_ok_b in E.
    rewrite forallb_forall in E. specialize (E q Hq). rewrite forallb_forall in E. specialize (E q' Hq').
    unfold pair_ok_b in E. rewrite Ek, bytes_eqb_refl in E. cbn [implb] in E. apply same_input_b_true. exact E.
  Qed.

  Lemma forallb_false_ex : forall (A : Type) (f : A -> bool) l, forallb f l = false -> exists x, In x l /\ f x = false.
  Proof.
    intros A f l. induction l as [|a l IH]; cbn; intro E; [discriminate|].
    destruct (f a) eqn:Fa; cbn in E.
    - destruct (IH E) as (x & Hx & Fx). exists x. auto.
    - exists a. auto.
  Qed.

  Lemma pairs_ok_b_false : forall all, pairs_ok_b all = false ->
    exists q q', In q all /\ In q' all /\ KH (keyf q) = KH (keyf q') /\ same_input_b q q' = false.
  Proof.
    intros all E. unfold pairs_ok_b in E.
    apply forallb_false_ex in E. destruct E as (q & Hq & E).
    apply forallb_false_ex in E. destruct E as (q' & Hq' & E).
    exists q, q'. unfold pair_ok_b in E.
    destruct (bytes_eqb (KH (keyf q)) (KH (keyf q'))) eqn:B; cbn [implb] in E; [|discriminate].
    apply bytes_eqb_eq in B. auto.
  Qed.
End Memo.

(* ------------------------------------------------------------------ the engines' keys *)

Lemma engine_cache_transparent_lemma : forall (KH : bytes -> bytes) (K : bytes -> Z -> Z -> bytes * bytes) k evqs,
  (forall q, In q (map snd evqs) -> wf_query q) ->
  engine_run_ev KH K (key_material k) [] evqs = map (pow_hash_pure K) (map snd evqs)
  \/ (exists x y, x <> y /\ KH x = KH y)
  \/ (exists q q', In q (map snd evqs) /\ In q' (map snd evqs) /\ q_hash q = q_hash q' /\ q_num q <> q_num q').
Proof.
  intros KH K k evqs WF. set (all := map snd evqs) in *.
  destruct (pairs_ok_b KH (key_material k) all) eqn:P.
  - left. apply (engine_run_ev_pure KH K (key_material k) all); auto.
    + apply pairs_ok_b_true. exact P.
    + apply cache_inv_nil.
  - right. apply pairs_ok_b_false in P. destruct P as (q & q' & Hq & Hq' & Ek & NS).
    destruct (bytes_eqb (key_material k q) (key_material k q')) eqn:B.
    + right. apply bytes_eqb_eq in B.
      destruct (key_material_inj k q q' (WF q Hq) (WF q' Hq') B) as [Eh En].
      exists q, q'. repeat split; auto. intros Enum.
      unfold same_input_b in NS. rewrite Eh, En, Enum, bytes_eqb_refl, !Z.eqb_refl in NS. discriminate.
    + left. apply bytes_eqb_neq in B. exists (key_material k q), (key_material k q'). auto.
Qed.

Lemma mix_check_some : forall q r p, mix_check q r = Some p -> q_mix q = fst r /\ p = snd r.
Proof.
  intros q r p E. unfold mix_check in E. destruct (bytes_eqb (q_mix q) (fst r)) eqn:B; [|discriminate].
  apply bytes_eqb_eq in B. inversion E. auto.
Qed.

(* every answer "accepted with pow hash p" of a (warm) engine is the kernel's answer for the very (hash, nonce, number)
   of that query, and the header's mix is the kernel's mix *)
Lemma engine_answer_is_own_work_lemma : forall (KH : bytes -> bytes) (K : bytes -> Z -> Z -> bytes * bytes) k evqs,
  (forall q, In q (map snd evqs) -> wf_query q) ->
  Forall2 (fun q o => forall p, o = Some p -> q_mix q = fst (kernel_of K q) /\ p = snd (kernel_of K q))
          (map snd evqs) (engine_run_ev KH K (key_material k) [] evqs)
  \/ (exists x y, x <> y /\ KH x = KH y)
  \/ (exists q q', In q (map snd evqs) /\ In q' (map snd evqs) /\ q_hash q = q_hash q' /\ q_num q <> q_num q').
Proof.
  intros KH K k evqs WF.
  destruct (engine_cache_transparent_lemma KH K k evqs WF) as [E|R]; [left|right; exact R].
  rewrite E. clear E WF. induction (map snd evqs) as [|q l IH]; cbn [map]; constructor; auto.
  intros p E. apply mix_check_some. exact E.
Qed.

(* the premise on the key is needed: a key that leaves the nonce out (the kernel still gets it) lets the answer for
   one nonce be served for another one that carries the first one's mix hash *)
Lemma engine_key_without_nonce_refuted_lemma :
  exists (K : bytes -> Z -> Z -> bytes * bytes) qs,
    Forall wf_query qs /\
    engine_run (fun x => x) K (fun q => q_hash q) qs <> map (pow_hash_pure K) qs.
Proof.
  exists (fun _ n _ => (repeat n 32, repeat (n + 100) 32)).
  exists [mkPq (repeat 7 32) 1 5 (repeat 1 32); mkPq (repeat 7 32) 2 5 (repeat 1 32)].
  split.
  - repeat constructor; cbn; lia.
  - vm_compute. discriminate.
Qed.

(* non-vacuity: a history on the kawpow key with a hit, a miss and a refused mix *)
Definition ex_kernel : bytes -> Z -> Z -> bytes * bytes := fun _ n _ => (repeat n 32, repeat (n + 100) 32).
Definition ex_history : list (list bytes * pquery) :=
  [([], mkPq (repeat 7 32) 1 5 (repeat 1 32));
   ([], mkPq (repeat 7 32) 2 5 (repeat 1 32));
   ([repeat 7 32 ++ le_bytes 8 1], mkPq (repeat 7 32) 1 5 (repeat 1 32));
   ([], mkPq (repeat 7 32) 2 5 (repeat 2 32))].

Lemma ex_history_wf : forall q, In q (map snd ex_history) -> wf_query q.
Proof.
  intros q Hq. cbn in Hq. unfold wf_query.
  repeat (destruct Hq as [<-|Hq]; [cbn; lia|]). contradiction.
Qed.

Lemma ex_history_run :
  engine_run_ev (fun x => x) ex_kernel (key_material EKawpow) [] ex_history
  = [Some (repeat 101 32); None; Some (repeat 101 32); Some (repeat 102 32)].
Proof. vm_compute. reflexivity. Qed.

(* C11 — lemmas about the crash model (Model/C11.v).
   Specification side: [content] (what the flat key space must contain for a chain),
   [Good] (a database the node can restart and continue from), validity of blocks/scripts. *)
From Coq Require Import List NArith Bool Lia Arith PeanoNat.
From GQ Require Import Model.C11 Generated.C11Gen.
Import ListNotations.
Local Open Scope N_scope.

(* ------------------------------------------------------------------ keys *)
Lemma key_eqb_refl k : key_eqb k k = true.
Proof. destruct k; cbn; rewrite ?N.eqb_refl; reflexivity. Qed.

Lemma key_eqb_eq a b : key_eqb a b = true -> a = b.
Proof.
  destruct a, b; cbn; try discriminate; intros H;
    try (apply andb_prop in H as [H1 H2]; apply N.eqb_eq in H1, H2; subst; reflexivity);
    try (apply N.eqb_eq in H; subst; reflexivity); reflexivity.
Qed.

Lemma key_eqb_neq a b : a <> b -> key_eqb a b = false.
Proof. intros H. destruct (key_eqb a b) eqn:E; [apply key_eqb_eq in E; contradiction|reflexivity]. Qed.

Lemma upd_same d k o : upd d k o k = o.
Proof. unfold upd. rewrite key_eqb_refl. reflexivity. Qed.

Lemma upd_other d k o k' : k' <> k -> upd d k o k' = d k'.
Proof. intros H. unfold upd. rewrite key_eqb_neq by exact H. reflexivity. Qed.

(* ------------------------------------------------------------------ last operation on a key *)
Definition sop_val (o : sop) : option N := match o with SPut _ v => Some v | SDel _ => None end.

Fixpoint last_on (k : key) (l : list sop) : option (option N) :=
  match l with
  | [] => None
  | o :: l' =>
      match last_on k l' with
      | Some r => Some r
      | None => if key_eqb k (sop_key o) then Some (sop_val o) else None
      end
  end.

Lemma apply_sops_spec l : forall d k,
  apply_sops l d k = match last_on k l with Some r => r | None => d k end.
Proof.
  induction l as [|o l IH]; intros d k; [reflexivity|].
  unfold apply_sops in *. cbn [fold_left last_on]. rewrite IH.
  destruct (last_on k l); [reflexivity|].
  destruct o as [k0 v|k0]; cbn [apply_sop sop_key sop_val]; unfold upd; destruct (key_eqb k k0); reflexivity.
Qed.

Lemma last_on_app k l1 l2 :
  last_on k (l1 ++ l2) = match last_on k l2 with Some r => Some r | None => last_on k l1 end.
Proof.
  induction l1 as [|o l1 IH]; cbn [app last_on].
  - destruct (last_on k l2); reflexivity.
  - rewrite IH. destruct (last_on k l2); reflexivity.
Qed.

Lemma last_on_none k l : (forall o, In o l -> sop_key o <> k) -> last_on k l = None.
Proof.
  induction l as [|o l IH]; intros H; [reflexivity|]. cbn [last_on].
  rewrite IH by (intros o' Ho'; apply H; right; exact Ho').
  rewrite key_eqb_neq; [reflexivity|]. intros E. apply (H o); [left; reflexivity|symmetry; exact E].
Qed.

(* ------------------------------------------------------------------ flat content *)
Definition fmap := N -> option N.

Fixpoint lookup_last (u : N) (l : list (N * N)) : option N :=
  match l with
  | [] => None
  | p :: l' =>
      match lookup_last u l' with
      | Some w => Some w
      | None => if fst p =? u then Some (snd p) else None
      end
  end.

(* effect of one block on the flat key space *)
Definition apply_block (f : fmap) (b : block) : fmap :=
  fun u => if memk u (bspent b) then None
           else match lookup_last u (bcreated b) with Some v => Some v | None => f u end.

(* effect of undoing it the way the rollback loop does *)
Definition undo_block (f : fmap) (b : block) : fmap :=
  fun u => if memk u (bcreated b) then None
           else match lookup_last u (bspent b) with Some v => Some v | None => f u end.

Definition content (bs : list block) : fmap := fold_left apply_block bs (fun _ => None).

Lemma content_snoc bs b : content (bs ++ [b]) = apply_block (content bs) b.
Proof. unfold content. rewrite fold_left_app. reflexivity. Qed.

Lemma lookup_last_in u l v : lookup_last u l = Some v -> In (u, v) l.
Proof.
  induction l as [|p l IH]; cbn [lookup_last]; [discriminate|].
  destruct (lookup_last u l) eqn:E.
  - intros H. injection H as <-. right. apply IH. reflexivity.
  - destruct (fst p =? u) eqn:Eu; [|discriminate]. intros H. injection H as <-.
    apply N.eqb_eq in Eu. left. destruct p; cbn in *; subst; reflexivity.
Qed.

Lemma lookup_last_none_memk u l : lookup_last u l = None -> memk u l = false.
Proof.
  induction l as [|p l IH]; cbn [lookup_last memk existsb]; [reflexivity|].
  destruct (lookup_last u l) eqn:E; [discriminate|].
  destruct (fst p =? u); [discriminate|]. intros _. cbn. apply IH. reflexivity.
Qed.

Lemma memk_in u l : memk u l = true -> exists v, In (u, v) l.
Proof.
  unfold memk. intros H. apply existsb_exists in H as [[a v] [Hin E]]. cbn in E.
  apply N.eqb_eq in E. subst. exists v. exact Hin.
Qed.

Lemma in_memk u v l : In (u, v) l -> memk u l = true.
Proof. intros H. unfold memk. apply existsb_exists. exists (u, v). split; [exact H|cbn; apply N.eqb_refl]. Qed.

Lemma last_on_put_ops_flat u l :
  last_on (KFlat u) (put_ops l) = option_map Some (lookup_last u l).
Proof.
  induction l as [|p l IH]; [reflexivity|].
  cbn [put_ops map last_on lookup_last sop_key sop_val key_eqb]. fold (put_ops l). rewrite IH.
  destruct (lookup_last u l); cbn [option_map]; [reflexivity|].
  rewrite N.eqb_sym. destruct (fst p =? u); reflexivity.
Qed.

Lemma last_on_del_ops_flat u l :
  last_on (KFlat u) (del_ops l) = if memk u l then Some None else None.
Proof.
  induction l as [|p l IH]; [reflexivity|].
  cbn [del_ops map last_on sop_key sop_val key_eqb memk existsb]. fold (del_ops l). fold (memk u l). rewrite IH.
  destruct (memk u l); [rewrite orb_true_r; reflexivity|].
  rewrite orb_false_r. rewrite N.eqb_sym. destruct (fst p =? u); reflexivity.
Qed.

Definition is_flat (k : key) : bool := match k with KFlat _ => true | _ => false end.

Lemma last_on_put_ops_other k l : is_flat k = false -> last_on k (put_ops l) = None.
Proof.
  intros Hk. apply last_on_none. intros o Ho E. unfold put_ops in Ho. apply in_map_iff in Ho as [p [<- _]].
  cbn in E. subst k. discriminate.
Qed.

Lemma last_on_del_ops_other k l : is_flat k = false -> last_on k (del_ops l) = None.
Proof.
  intros Hk. apply last_on_none. intros o Ho E. unfold del_ops in Ho. apply in_map_iff in Ho as [p [<- _]].
  cbn in E. subst k. discriminate.
Qed.

Lemma eff_ops_flat d b u :
  apply_sops (eff_ops b) d (KFlat u) = apply_block (fun x => d (KFlat x)) b u.
Proof.
  rewrite apply_sops_spec. unfold eff_ops, apply_block. rewrite last_on_app, last_on_del_ops_flat, last_on_put_ops_flat.
  destruct (memk u (bspent b)); [reflexivity|]. destruct (lookup_last u (bcreated b)); reflexivity.
Qed.

Lemma undo_ops_flat d b u :
  apply_sops (undo_ops b) d (KFlat u) = undo_block (fun x => d (KFlat x)) b u.
Proof.
  rewrite apply_sops_spec. unfold undo_ops, undo_block. rewrite last_on_app, last_on_del_ops_flat, last_on_put_ops_flat.
  destruct (memk u (bcreated b)); [reflexivity|]. destruct (lookup_last u (bspent b)); reflexivity.
Qed.

Lemma eff_ops_other d b k : is_flat k = false -> apply_sops (eff_ops b) d k = d k.
Proof.
  intros Hk. rewrite apply_sops_spec. unfold eff_ops.
  rewrite last_on_app, last_on_del_ops_other, last_on_put_ops_other by exact Hk. reflexivity.
Qed.

Lemma undo_ops_other d b k : is_flat k = false -> apply_sops (undo_ops b) d k = d k.
Proof.
  intros Hk. rewrite apply_sops_spec. unfold undo_ops.
  rewrite last_on_app, last_on_del_ops_other, last_on_put_ops_other by exact Hk. reflexivity.
Qed.

(* a block is valid on top of flat content f: what it spends exists (or is created by the block
   itself), what it creates is new *)
Definition valid_eff (f : fmap) (b : block) : Prop :=
  (forall u v, In (u, v) (bspent b) -> f u = Some v \/ memk u (bcreated b) = true)
  /\ (forall u v, In (u, v) (bcreated b) -> f u = None).

Lemma undo_apply f b : valid_eff f b -> forall u, undo_block (apply_block f b) b u = f u.
Proof.
  intros [V1 V2] u. unfold undo_block.
  destruct (memk u (bcreated b)) eqn:Ec.
  - apply memk_in in Ec as [v Hv]. symmetry. eapply V2; eauto.
  - destruct (lookup_last u (bspent b)) eqn:Es.
    + apply lookup_last_in in Es. destruct (V1 _ _ Es) as [H|H]; [symmetry; exact H|congruence].
    + unfold apply_block. apply lookup_last_none_memk in Es. rewrite Es.
      destruct (lookup_last u (bcreated b)) eqn:El; [|reflexivity].
      apply lookup_last_in, in_memk in El. congruence.
Qed.

(* ------------------------------------------------------------------ Good databases *)
Definition last_id (bs : list block) : N := last (map bid bs) 0.

Lemma last_id_snoc bs b : last_id (bs ++ [b]) = bid b.
Proof. unfold last_id. rewrite map_app. cbn [map]. apply last_last. Qed.

Lemma last_id_in bs : last_id bs = 0 \/ exists b, In b bs /\ bid b = last_id bs.
Proof.
  destruct bs as [|b0 bs] using rev_ind; [left; reflexivity|].
  right. exists b0. split; [apply in_or_app; right; left; reflexivity|symmetry; apply last_id_snoc].
Qed.

(* what a restarted node needs: the reported head is the tip of a chain whose effects are exactly
   the content of the flat key space, and the state (tries, multiset, undo records) of every block
   of that chain is present *)
Definition Good (d : db) (bs : list block) : Prop :=
  head_id d = last_id bs
  /\ (forall u, d (KFlat u) = content bs u)
  /\ (forall b, In b bs -> present d (bid b) = true).

Definition valid_next (bs : list block) (b : block) : Prop :=
  bparent b = last_id bs /\ valid_eff (content bs) b.

Lemma good_init : Good init [].
Proof. split; [reflexivity|]. split; [reflexivity|intros b []]. Qed.

(* writes that cannot hurt: puts to keys other than head/flat, deletes of canonical hashes *)
Definition harmless_sop (o : sop) : bool :=
  match o with
  | SPut k _ => negb (is_head k) && negb (is_flat k)
  | SDel k => is_canon k
  end.
Definition wop_ops (w : wop) : list sop := match w with W1 o => [o] | WBatch l => l end.
Definition harmless (w : wop) : bool := forallb harmless_sop (wop_ops w).

Lemma apply_wop_ops d w : apply_wop d w = apply_sops (wop_ops w) d.
Proof. destruct w; reflexivity. Qed.

Lemma harmless_last_on k l :
  forallb harmless_sop l = true ->
  (is_head k || is_flat k = true -> last_on k l = None)
  /\ (is_canon k = false -> forall r, last_on k l = Some r -> r <> None).
Proof.
  intros H. split.
  - intros Hk. apply last_on_none. intros o Ho E. rewrite forallb_forall in H. specialize (H o Ho).
    destruct o as [k0 v|k0]; cbn in E, H; subst k0.
    + apply andb_prop in H as [H1 H2]. destruct (is_head k), (is_flat k); cbn in *; discriminate.
    + destruct k; cbn in *; discriminate.
  - intros Hk. induction l as [|o l IH]; intros r; cbn [last_on]; [discriminate|].
    cbn [forallb] in H. apply andb_prop in H as [Ho Hl].
    destruct (last_on k l) eqn:E.
    + intros Hr. injection Hr as <-. apply (IH Hl). reflexivity.
    + destruct (key_eqb k (sop_key o)) eqn:Ek; [|discriminate]. intros Hr. injection Hr as <-.
      apply key_eqb_eq in Ek. destruct o as [k0 v|k0]; cbn in *; [discriminate|]. subst k0. congruence.
Qed.

Lemma present_mono d d' id :
  (forall k, is_trie k || is_meta k = true -> isSome (d k) = true -> isSome (d' k) = true) ->
  present d id = true -> present d' id = true.
Proof.
  intros H. unfold present. destruct (id =? 0); [reflexivity|]. cbn [orb].
  intros P. apply andb_prop in P as [P12 P3]. apply andb_prop in P12 as [P1 P2].
  rewrite (H (KTrie id 0) eq_refl P1), (H (KTrie id 1) eq_refl P2), (H (KMeta id) eq_refl P3). reflexivity.
Qed.

Lemma harmless_good d bs w : harmless w = true -> Good d bs -> Good (apply_wop d w) bs.
Proof.
  intros Hw [G1 [G2 G3]]. rewrite apply_wop_ops. unfold harmless in Hw.
  split; [|split].
  - unfold head_id. rewrite apply_sops_spec.
    destruct (harmless_last_on KHead _ Hw) as [A _]. rewrite A by reflexivity. exact G1.
  - intros u. rewrite apply_sops_spec.
    destruct (harmless_last_on (KFlat u) _ Hw) as [A _]. rewrite A by reflexivity. apply G2.
  - intros b Hb. eapply present_mono; [|apply G3; exact Hb].
    intros k Hk Hs. rewrite apply_sops_spec.
    destruct (last_on k (wop_ops w)) as [r|] eqn:E; [|exact Hs].
    destruct (harmless_last_on k _ Hw) as [_ B].
    assert (Hc : is_canon k = false) by (destruct k; cbn in *; try discriminate; reflexivity).
    specialize (B Hc r E). destruct r; [reflexivity|contradiction].
Qed.

Lemma harmless_all_good ws : forall d bs,
  forallb harmless ws = true -> Good d bs -> Good (apply_all ws d) bs.
Proof.
  induction ws as [|w ws IH]; intros d bs H G; [exact G|].
  cbn [forallb] in H. apply andb_prop in H as [Hw Hws].
  unfold apply_all. cbn [fold_left]. apply IH; [exact Hws|]. apply harmless_good; assumption.
Qed.

Lemma forallb_firstn {A} (f : A -> bool) l k : forallb f l = true -> forallb f (firstn k l) = true.
Proof.
  revert k. induction l as [|x l IH]; intros k H; [rewrite firstn_nil; reflexivity|].
  destruct k; [reflexivity|]. cbn [firstn forallb] in *. apply andb_prop in H as [H1 H2].
  rewrite H1. cbn. apply IH. exact H2.
Qed.

Lemma harmless_crash_good ws k d bs : forallb harmless ws = true -> Good d bs -> Good (crash k ws d) bs.
Proof. intros H G. unfold crash. apply harmless_all_good; [apply forallb_firstn; exact H|exact G]. Qed.

(* ------------------------------------------------------------------ crash and concatenation *)
Lemma apply_all_app a b d : apply_all (a ++ b) d = apply_all b (apply_all a d).
Proof. unfold apply_all. apply fold_left_app. Qed.

Lemma crash_app k a b d :
  crash k (a ++ b) d =
  if (k <=? length a)%nat then crash k a d else crash (k - length a) b (apply_all a d).
Proof.
  unfold crash. rewrite firstn_app, apply_all_app.
  destruct (k <=? length a)%nat eqn:E.
  - apply Nat.leb_le in E. assert (X : (k - length a = 0)%nat) by (apply Nat.sub_0_le; exact E).
    rewrite X. reflexivity.
  - apply Nat.leb_gt in E. rewrite (firstn_all2 a (Nat.lt_le_incl _ _ E)). reflexivity.
Qed.

Lemma crash_all k ws d : (length ws <= k)%nat -> crash k ws d = apply_all ws d.
Proof. intros H. unfold crash. rewrite firstn_all2 by exact H. reflexivity. Qed.

Lemma crash_0 ws d : crash 0 ws d = d.
Proof. reflexivity. Qed.

(* ------------------------------------------------------------------ one forward step *)
Lemma store_harmless b : forallb harmless (store_writes b) = true.
Proof. reflexivity. Qed.

Lemma fwd_pre_harmless b : forallb harmless (fwd_pre b) = true.
Proof. reflexivity. Qed.

Lemma fwd_fail_harmless b : forallb harmless (fwd_fail b) = true.
Proof. reflexivity. Qed.

(* the four writes of a forward step that precede the block batch *)
Definition fwd_head4 (b : block) : list wop :=
  [ W1 (SPut (KCanon (bnum b)) (bid b)); W1 (SPut (KBloom (bid b)) 1);
    WBatch [SPut (KTrie (bid b) 0) 1]; WBatch [SPut (KTrie (bid b) 1) 1] ].

Lemma fwd_writes_split hib b :
  fwd_writes hib b = fwd_head4 b ++ [WBatch (block_batch hib b); W1 (SPut KHead (bid b))].
Proof. reflexivity. Qed.

Lemma fwd_head4_harmless b : forallb harmless (fwd_head4 b) = true.
Proof. reflexivity. Qed.

Lemma fwd_head4_tries d b :
  isSome (apply_all (fwd_head4 b) d (KTrie (bid b) 0)) = true
  /\ isSome (apply_all (fwd_head4 b) d (KTrie (bid b) 1)) = true.
Proof.
  unfold apply_all, fwd_head4. cbn [fold_left apply_wop apply_sop apply_sops]. unfold upd.
  cbn [key_eqb]. rewrite !N.eqb_refl. cbn. split; reflexivity.
Qed.

Lemma block_batch_flat hib d b u :
  apply_sops (block_batch hib b) d (KFlat u) = apply_block (fun x => d (KFlat x)) b u.
Proof.
  unfold block_batch. unfold apply_sops. rewrite fold_left_app. fold (apply_sops (eff_ops b) d).
  change (fold_left apply_sop ([SPut (KMeta (bid b)) 1] ++ (if hib then [SPut KHead (bid b)] else [])) (apply_sops (eff_ops b) d))
    with (apply_sops ([SPut (KMeta (bid b)) 1] ++ (if hib then [SPut KHead (bid b)] else [])) (apply_sops (eff_ops b) d)).
  rewrite apply_sops_spec. rewrite last_on_none; [apply eff_ops_flat|].
  intros o Ho E. destruct hib; cbn in Ho; destruct Ho as [<-|Ho]; try discriminate;
    try (destruct Ho as [<-|[]]; discriminate); try contradiction.
Qed.

Lemma block_batch_head hib d b :
  apply_sops (block_batch hib b) d KHead = if hib then Some (bid b) else d KHead.
Proof.
  unfold block_batch. unfold apply_sops. rewrite fold_left_app. fold (apply_sops (eff_ops b) d).
  destruct hib; cbn [app fold_left apply_sop]; unfold upd; cbn [key_eqb].
  - reflexivity.
  - apply eff_ops_other. reflexivity.
Qed.

Lemma block_batch_nonflat hib d b k :
  is_flat k = false -> is_head k = false ->
  apply_sops (block_batch hib b) d k = if key_eqb k (KMeta (bid b)) then Some 1 else d k.
Proof.
  intros Hf Hh. unfold block_batch. unfold apply_sops. rewrite fold_left_app. fold (apply_sops (eff_ops b) d).
  destruct hib; cbn [app fold_left apply_sop]; unfold upd.
  - replace (key_eqb k KHead) with false by (destruct k; cbn in *; congruence).
    destruct (key_eqb k (KMeta (bid b))); [reflexivity|]. apply eff_ops_other. exact Hf.
  - destruct (key_eqb k (KMeta (bid b))); [reflexivity|]. apply eff_ops_other. exact Hf.
Qed.

(* state reached by the block batch: flat space = content of the extended chain, state of the new
   block present, head moved only if the head hash is part of the batch *)
Definition AfterBatch (hib : bool) (d : db) (bs : list block) (b : block) : Prop :=
  head_id d = (if hib then bid b else last_id bs)
  /\ (forall u, d (KFlat u) = content (bs ++ [b]) u)
  /\ (forall x, In x (bs ++ [b]) -> present d (bid x) = true).

Lemma batch_step hib d bs b :
  Good d bs ->
  isSome (d (KTrie (bid b) 0)) = true -> isSome (d (KTrie (bid b) 1)) = true ->
  AfterBatch hib (apply_wop d (WBatch (block_batch hib b))) bs b.
Proof.
  intros [G1 [G2 G3]] T0 T1. cbn [apply_wop]. split; [|split].
  - unfold head_id. rewrite block_batch_head. destruct hib; [reflexivity|exact G1].
  - intros u. rewrite block_batch_flat, content_snoc. unfold apply_block.
    rewrite G2. reflexivity.
  - intros x Hx. unfold present. destruct (bid x =? 0) eqn:E0; [reflexivity|]. cbn [orb].
    rewrite !block_batch_nonflat by reflexivity. cbn [key_eqb].
    apply in_app_or in Hx as [Hx|[<-|[]]].
    + specialize (G3 x Hx). unfold present in G3. rewrite E0 in G3. cbn [orb] in G3.
      apply andb_prop in G3 as [P12 P3]. rewrite P12. destruct (bid x =? bid b); [reflexivity|exact P3].
    + rewrite T0, T1, N.eqb_refl. reflexivity.
Qed.

Lemma head_put_after hib d bs b :
  AfterBatch hib d bs b -> Good (apply_wop d (W1 (SPut KHead (bid b)))) (bs ++ [b]).
Proof.
  intros [A1 [A2 A3]]. cbn [apply_wop apply_sop]. split; [|split].
  - unfold head_id. rewrite upd_same. symmetry. apply last_id_snoc.
  - intros u. rewrite upd_other by discriminate. apply A2.
  - intros x Hx. specialize (A3 x Hx). unfold present in *. rewrite !upd_other by discriminate. exact A3.
Qed.

Lemma after_batch_fixed d bs b : AfterBatch true d bs b -> Good d (bs ++ [b]).
Proof. intros [A1 [A2 A3]]. split; [rewrite last_id_snoc; exact A1|]. split; assumption. Qed.

(* crash points of one forward step: k = 0..4 before the batch, 5 after the batch, >= 6 complete *)
Lemma fwd_crash_before hib d bs b k :
  Good d bs -> (k <= 4)%nat -> Good (crash k (fwd_writes hib b) d) bs.
Proof.
  intros G Hk. rewrite fwd_writes_split, crash_app. cbn [length fwd_head4].
  replace (k <=? 4)%nat with true by (symmetry; apply Nat.leb_le; exact Hk).
  apply harmless_crash_good; [apply fwd_head4_harmless|exact G].
Qed.

Lemma fwd_crash_window hib d bs b :
  Good d bs -> AfterBatch hib (crash 5 (fwd_writes hib b) d) bs b.
Proof.
  intros G. rewrite fwd_writes_split, crash_app. cbn [length fwd_head4 Nat.leb Nat.sub].
  unfold crash. cbn [firstn]. unfold apply_all at 1. cbn [fold_left].
  destruct (fwd_head4_tries d b) as [T0 T1].
  apply batch_step; [apply harmless_all_good; [apply fwd_head4_harmless|exact G]|exact T0|exact T1].
Qed.

Lemma fwd_complete hib d bs b :
  Good d bs -> Good (apply_all (fwd_writes hib b) d) (bs ++ [b]).
Proof.
  intros G. pose proof (fwd_crash_window hib d bs b G) as A.
  rewrite fwd_writes_split in *. rewrite crash_app in A. cbn [length fwd_head4 Nat.leb Nat.sub] in A.
  unfold crash in A. cbn [firstn] in A. unfold apply_all in A at 1. cbn [fold_left] in A.
  rewrite apply_all_app. unfold apply_all at 1. cbn [fold_left].
  eapply head_put_after. exact A.
Qed.

Lemma fwd_crash_after hib d bs b k :
  Good d bs -> (6 <= k)%nat -> Good (crash k (fwd_writes hib b) d) (bs ++ [b]).
Proof. intros G Hk. rewrite crash_all by (cbn; exact Hk). apply fwd_complete. exact G. Qed.

(* ------------------------------------------------------------------ one rollback step *)
Lemma back_batch d bs b pnum :
  Good d (bs ++ [b]) -> valid_eff (content bs) b ->
  Good (apply_all (back_writes b (last_id bs) pnum) d) bs.
Proof.
  intros [G1 [G2 G3]] V. unfold back_writes, apply_all. cbn [fold_left apply_wop].
  set (l := SDel (KCanon (bnum b)) :: undo_ops b ++ [SPut KHead (last_id bs); SPut (KCanon pnum) (last_id bs)]).
  assert (Hsplit : l = [SDel (KCanon (bnum b))] ++ undo_ops b ++ [SPut KHead (last_id bs); SPut (KCanon pnum) (last_id bs)]) by reflexivity.
  assert (Hflat : forall u, apply_sops l d (KFlat u) = undo_block (fun x => d (KFlat x)) b u).
  { intros u. rewrite Hsplit. unfold apply_sops. rewrite !fold_left_app.
    cbn [fold_left apply_sop]. rewrite !upd_other by discriminate.
    change (fold_left apply_sop (undo_ops b) (upd d (KCanon (bnum b)) None) (KFlat u))
      with (apply_sops (undo_ops b) (upd d (KCanon (bnum b)) None) (KFlat u)).
    rewrite undo_ops_flat. unfold undo_block.
    destruct (memk u (bcreated b)); [reflexivity|]. destruct (lookup_last u (bspent b)); [reflexivity|].
    apply upd_other. discriminate. }
  assert (Hother : forall k, is_flat k = false -> is_head k = false -> is_canon k = false -> apply_sops l d k = d k).
  { intros k Hf Hh Hc. rewrite Hsplit. unfold apply_sops. rewrite !fold_left_app. cbn [fold_left apply_sop].
    rewrite !upd_other by (intros ->; cbn in *; discriminate).
    change (fold_left apply_sop (undo_ops b) (upd d (KCanon (bnum b)) None) k)
      with (apply_sops (undo_ops b) (upd d (KCanon (bnum b)) None) k).
    rewrite undo_ops_other by exact Hf. apply upd_other. intros ->. cbn in *. discriminate. }
  split; [|split].
  - unfold head_id. rewrite Hsplit. unfold apply_sops. rewrite !fold_left_app. cbn [fold_left apply_sop].
    rewrite upd_other by discriminate. rewrite upd_same. reflexivity.
  - intros u. rewrite Hflat. rewrite <- (undo_apply (content bs) b V u).
    unfold undo_block. rewrite G2, content_snoc. reflexivity.
  - intros x Hx. specialize (G3 x (in_or_app _ _ _ (or_introl Hx))). unfold present in *.
    rewrite !Hother by reflexivity. exact G3.
Qed.

Lemma back_crash d bs b pnum k :
  Good d (bs ++ [b]) -> valid_eff (content bs) b ->
  Good (crash k (back_writes b (last_id bs) pnum) d) (if (k =? 0)%nat then bs ++ [b] else bs).
Proof.
  intros G V. destruct k as [|k]; [exact G|]. cbn [Nat.eqb].
  rewrite crash_all by (cbn; lia). apply back_batch; assumption.
Qed.

(* ------------------------------------------------------------------ scripts *)
Definition chain_after (bs : list block) (s : step) : list block :=
  match s with
  | SStore _ => bs
  | SFwd b => bs ++ [b]
  | SBack _ _ _ => removelast bs
  end.

Definition step_ok (bs : list block) (s : step) : Prop :=
  match s with
  | SStore _ => True
  | SFwd b => valid_next bs b
  | SBack b pid _ => exists bs0, bs = bs0 ++ [b] /\ valid_eff (content bs0) b /\ pid = last_id bs0
  end.

Fixpoint script_ok (bs : list block) (ss : list step) : Prop :=
  match ss with
  | [] => True
  | s :: ss' => step_ok bs s /\ script_ok (chain_after bs s) ss'
  end.

Fixpoint chain_end (bs : list block) (ss : list step) : list block :=
  match ss with
  | [] => bs
  | s :: ss' => chain_end (chain_after bs s) ss'
  end.

(* every chain the script passes through *)
Fixpoint chains (bs : list block) (ss : list step) : list (list block) :=
  bs :: match ss with [] => [] | s :: ss' => chains (chain_after bs s) ss' end.

(* the only crash points that are not safe: inside a forward step, after its block batch and
   before the head put, when the head is not in the batch *)
Definition in_window (hib : bool) (s : step) (k : nat) : bool :=
  match s with SFwd _ => negb hib && (k =? 5)%nat | _ => false end.

Fixpoint windowb (hib : bool) (ss : list step) (k : nat) : bool :=
  match ss with
  | [] => false
  | s :: ss' =>
      let n := length (step_writes hib s) in
      if (k <=? n)%nat then in_window hib s k else windowb hib ss' (k - n)
  end.

Lemma step_complete hib d bs s :
  Good d bs -> step_ok bs s -> Good (apply_all (step_writes hib s) d) (chain_after bs s).
Proof.
  intros G Hs. destruct s as [b|b|b pid pnum]; cbn [step_writes chain_after].
  - apply harmless_all_good; [apply store_harmless|exact G].
  - apply fwd_complete. exact G.
  - destruct Hs as [bs0 [-> [V ->]]]. rewrite removelast_last. apply back_batch; assumption.
Qed.

Lemma step_crash hib d bs s k :
  Good d bs -> step_ok bs s -> in_window hib s k = false ->
  Good (crash k (step_writes hib s) d) bs \/ Good (crash k (step_writes hib s) d) (chain_after bs s).
Proof.
  intros G Hs Hw. destruct s as [b|b|b pid pnum]; cbn [step_writes chain_after].
  - left. apply harmless_crash_good; [apply store_harmless|exact G].
  - cbn [in_window] in Hw.
    destruct (Nat.le_gt_cases k 4) as [H4|H4]; [left; apply fwd_crash_before; assumption|].
    destruct (Nat.eq_dec k 5) as [->|H5].
    + destruct hib; [|cbn in Hw; discriminate].
      right. apply after_batch_fixed. apply fwd_crash_window. exact G.
    + right. apply fwd_crash_after; [exact G|lia].
  - destruct Hs as [bs0 [-> [V ->]]]. rewrite removelast_last.
    pose proof (back_crash d bs0 b pnum k G V) as B.
    destruct (k =? 0)%nat; [left|right]; exact B.
Qed.

Lemma chains_head bs ss : In bs (chains bs ss).
Proof. destruct ss; left; reflexivity. Qed.

Lemma script_complete hib ss : forall d bs,
  Good d bs -> script_ok bs ss -> Good (apply_all (script_writes hib ss) d) (chain_end bs ss).
Proof.
  induction ss as [|s ss IH]; intros d bs G Hok; [exact G|].
  destruct Hok as [Hs Hss]. cbn [script_writes flat_map chain_end].
  fold (script_writes hib ss). rewrite apply_all_app. apply IH; [|exact Hss].
  apply step_complete; assumption.
Qed.

Lemma script_crash hib ss : forall d bs k,
  Good d bs -> script_ok bs ss -> windowb hib ss k = false ->
  exists bs', In bs' (chains bs ss) /\ Good (crash k (script_writes hib ss) d) bs'.
Proof.
  induction ss as [|s ss IH]; intros d bs k G Hok Hw.
  - exists bs. split; [left; reflexivity|]. unfold crash. cbn. rewrite firstn_nil. exact G.
  - destruct Hok as [Hs Hss]. cbn [script_writes flat_map]. fold (script_writes hib ss).
    rewrite crash_app. cbn [windowb] in Hw.
    destruct (k <=? length (step_writes hib s))%nat eqn:E.
    + destruct (step_crash hib d bs s k G Hs Hw) as [H|H].
      * exists bs. split; [left; reflexivity|exact H].
      * exists (chain_after bs s). split; [right; apply chains_head|exact H].
    + destruct (IH (apply_all (step_writes hib s) d) (chain_after bs s) (k - length (step_writes hib s))%nat)
        as [bs' [Hin Hg]]; [apply step_complete; assumption|exact Hss|exact Hw|].
      exists bs'. split; [right; exact Hin|exact Hg].
Qed.

Lemma windowb_fixed ss : forall k, windowb true ss k = false.
Proof.
  induction ss as [|s ss IH]; intros k; [reflexivity|]. cbn [windowb].
  destruct (k <=? length (step_writes true s))%nat; [|apply IH]. destruct s; reflexivity.
Qed.

(* ------------------------------------------------------------------ executing steps with the code's checks *)
Lemma check_good d bs b : Good d bs -> valid_next bs b -> check (apply_all (fwd_pre b) d) b = true.
Proof.
  intros G [Hp [V1 _]].
  pose proof (harmless_all_good _ _ _ (fwd_pre_harmless b) G) as [G1 [G2 G3]].
  unfold check. apply andb_true_intro. split.
  - rewrite Hp. destruct (last_id_in bs) as [E|[x [Hx E]]].
    + rewrite E. reflexivity.
    + rewrite <- E. apply G3. exact Hx.
  - unfold inputs_present. apply forallb_forall. intros [u v] Hin. cbn [fst].
    destruct (V1 u v Hin) as [H|H]; [|rewrite H; apply orb_true_r].
    rewrite G2, H. reflexivity.
Qed.

Lemma exec_step_apply hib d bs s :
  Good d bs -> step_ok bs s -> exec_step hib d s = apply_all (step_writes hib s) d.
Proof.
  intros G Hs. destruct s as [b|b|b pid pnum]; [reflexivity| |reflexivity].
  cbn [exec_step step_writes]. rewrite (check_good d bs b G Hs). unfold fwd_writes. rewrite apply_all_app. reflexivity.
Qed.

Lemma exec_apply hib ss : forall d bs,
  Good d bs -> script_ok bs ss -> exec hib d ss = apply_all (script_writes hib ss) d.
Proof.
  induction ss as [|s ss IH]; intros d bs G Hok; [reflexivity|].
  destruct Hok as [Hs Hss]. unfold exec. cbn [fold_left script_writes flat_map].
  fold (exec hib (exec_step hib d s) ss). fold (script_writes hib ss).
  rewrite apply_all_app. rewrite (exec_step_apply hib d bs s G Hs).
  apply (IH _ (chain_after bs s)); [apply step_complete; assumption|exact Hss].
Qed.

Lemma exec_good hib ss d bs :
  Good d bs -> script_ok bs ss -> Good (exec hib d ss) (chain_end bs ss).
Proof. intros G Hok. rewrite (exec_apply hib ss d bs G Hok). apply script_complete; assumption. Qed.

(* ------------------------------------------------------------------ the window (head not in the batch) *)
Definition append_script (b : block) : list step := [SStore b; SFwd b].

Lemma append_writes_len hib b : length (script_writes hib (append_script b)) = 11%nat.
Proof. reflexivity. Qed.

Lemma window_state d bs b :
  Good d bs ->
  AfterBatch false (crash 10 (script_writes false (append_script b)) d) bs b.
Proof.
  intros G. cbn [append_script script_writes flat_map step_writes]. rewrite app_nil_r.
  rewrite crash_app. cbn [length store_writes map Nat.leb Nat.sub].
  apply fwd_crash_window. apply harmless_all_good; [apply store_harmless|exact G].
Qed.

Lemma after_batch_frame hib d bs b ws :
  forallb harmless ws = true -> AfterBatch hib d bs b -> AfterBatch hib (apply_all ws d) bs b.
Proof.
  intros Hw [A1 [A2 A3]].
  assert (Gx : Good d (if hib then bs ++ [b] else bs) \/ True) by (right; exact I). clear Gx.
  (* reuse harmless_all_good on a synthetic Good statement *)
  set (bs' := bs ++ [b]).
  assert (G' : forall hd, head_id d = hd ->
     head_id (apply_all ws d) = hd /\ (forall u, apply_all ws d (KFlat u) = content bs' u)
     /\ (forall x, In x bs' -> present (apply_all ws d) (bid x) = true)).
  { revert d A1 A2 A3. induction ws as [|w ws IH]; intros d A1 A2 A3 hd Hhd.
    - split; [exact Hhd|split; assumption].
    - cbn [forallb] in Hw. apply andb_prop in Hw as [Hw1 Hw2].
      unfold apply_all. cbn [fold_left]. fold (apply_all ws (apply_wop d w)).
      rewrite apply_wop_ops. unfold harmless in Hw1.
      apply (IH Hw2).
      + unfold head_id. rewrite apply_sops_spec.
        destruct (harmless_last_on KHead _ Hw1) as [A _]. rewrite A by reflexivity. exact A1.
      + intros u. rewrite apply_sops_spec.
        destruct (harmless_last_on (KFlat u) _ Hw1) as [A _]. rewrite A by reflexivity. apply A2.
      + intros x Hx. eapply present_mono; [|apply A3; exact Hx].
        intros k Hk Hs. rewrite apply_sops_spec.
        destruct (last_on k (wop_ops w)) as [r|] eqn:E; [|exact Hs].
        destruct (harmless_last_on k _ Hw1) as [_ B].
        assert (Hc : is_canon k = false) by (destruct k; cbn in *; try discriminate; reflexivity).
        specialize (B Hc r E). destruct r; [reflexivity|contradiction].
      + unfold head_id. rewrite apply_sops_spec.
        destruct (harmless_last_on KHead _ Hw1) as [A _]. rewrite A by reflexivity. exact Hhd. }
  destruct (G' _ A1) as [H1 [H2 H3]]. split; [exact H1|split; assumption].
Qed.

(* re-appending the interrupted block b from the window state: rejected as soon as b spends an
   entry it does not create itself (its own inputs are already deleted); the head stays at the parent *)
Lemma window_redo_rejected d bs b u v :
  AfterBatch false d bs b -> In (u, v) (bspent b) -> memk u (bcreated b) = false ->
  check (apply_all (fwd_pre b) (apply_all (store_writes b) d)) b = false
  /\ head_id (exec false d (append_script b)) = last_id bs.
Proof.
  intros A Hin Hc.
  pose proof (after_batch_frame false d bs b (store_writes b ++ fwd_pre b) eq_refl A) as [B1 [B2 B3]].
  rewrite apply_all_app in B1, B2, B3.
  assert (Hchk : check (apply_all (fwd_pre b) (apply_all (store_writes b) d)) b = false).
  { unfold check. apply andb_false_intro2. unfold inputs_present.
    destruct (forallb _ (bspent b)) eqn:E; [|reflexivity].
    rewrite forallb_forall in E. specialize (E (u, v) Hin). cbn [fst] in E.
    rewrite B2, content_snoc in E. unfold apply_block in E. rewrite (in_memk u v _ Hin), Hc in E. discriminate. }
  split; [exact Hchk|].
  unfold exec, append_script. cbn [fold_left]. cbn [exec_step step_writes]. rewrite Hchk.
  pose proof (after_batch_frame false _ bs b (fwd_fail b) eq_refl
               (conj B1 (conj B2 B3))) as [C1 _]. exact C1.
Qed.

(* any other child s of the same parent that spends an entry b spent is rejected too *)
Lemma window_conflicting_sibling_rejected d bs b s u v w :
  AfterBatch false d bs b -> In (u, v) (bspent s) -> memk u (bcreated s) = false -> In (u, w) (bspent b) ->
  head_id (exec false d (append_script s)) = last_id bs.
Proof.
  intros A Hin Hc Hb.
  pose proof (after_batch_frame false d bs b (store_writes s ++ fwd_pre s) eq_refl A) as [B1 [B2 B3]].
  rewrite apply_all_app in B1, B2, B3.
  assert (Hchk : check (apply_all (fwd_pre s) (apply_all (store_writes s) d)) s = false).
  { unfold check. apply andb_false_intro2. unfold inputs_present.
    destruct (forallb _ (bspent s)) eqn:E; [|reflexivity].
    rewrite forallb_forall in E. specialize (E (u, v) Hin). cbn [fst] in E.
    rewrite B2, content_snoc in E. unfold apply_block in E. rewrite (in_memk u w _ Hb), Hc in E. discriminate. }
  unfold exec, append_script. cbn [fold_left]. cbn [exec_step step_writes]. rewrite Hchk.
  pose proof (after_batch_frame false _ bs b (fwd_fail s) eq_refl (conj B1 (conj B2 B3))) as [C1 _]. exact C1.
Qed.

(* ------------------------------------------------------------------ static call order (generated) *)
Fixpoint flat_mapN {A} (f : N -> list A) (l : list N) : list A :=
  match l with [] => [] | x :: l' => f x ++ flat_mapN f l' end.

(* classes of the writes issued by StateProcessor.Apply, BodyDb.Append and the extension branch
   of SetCurrentHeader, in source order of the call sites *)
Definition apply_classes : list opclass :=
  flat_mapN (fun e => if e =? 31 then [CPutBlock] else if e =? 32 then [CBatchTrie] else []) apply_calls.
Definition append_classes : list opclass :=
  flat_mapN (fun e => if e =? 36 then apply_classes else if e =? 21 then [CBatchBlock head_in_batch] else []) append_calls.
Definition static_fwd_classes (calls : list N) : list opclass :=
  flat_mapN (fun e => if e =? 1 then [CPutCanon] else if e =? 2 then append_classes
                      else if e =? 3 then [CPutHead] else []) calls.

Definition countN (x : N) (l : list N) : nat := length (filter (N.eqb x) l).
Fixpoint index_of (x : N) (l : list N) : nat :=
  match l with [] => 0 | y :: l' => if x =? y then 0 else S (index_of x l') end.

(* rollback loop: one batch per iteration; head hash and canonical hashes go to that batch and
   precede its single Write; no direct head/canonical write inside the loop *)
Definition rollback_atomic : bool :=
  (countN 20 rollback_calls =? 1)%nat && (countN 21 rollback_calls =? 1)%nat
  && (countN 1 rollback_calls =? 0)%nat && (countN 3 rollback_calls =? 0)%nat && (countN 4 rollback_calls =? 0)%nat
  && (countN 13 rollback_calls =? 1)%nat && (countN 11 rollback_calls =? 1)%nat && (countN 14 rollback_calls =? 1)%nat
  && (index_of 20 rollback_calls <? index_of 14 rollback_calls)%nat
  && (index_of 13 rollback_calls <? index_of 21 rollback_calls)%nat
  && (index_of 11 rollback_calls <? index_of 21 rollback_calls)%nat
  && (index_of 14 rollback_calls <? index_of 21 rollback_calls)%nat
  && (index_of 22 rollback_calls <? index_of 21 rollback_calls)%nat
  && (index_of 21 rollback_calls <? index_of 42 rollback_calls)%nat.

Lemma class_block_batch hib b : class_of (WBatch (block_batch hib b)) = CBatchBlock hib.
Proof.
  cbn [class_of]. unfold block_batch, has_key.
  assert (M : existsb (fun o => is_meta (sop_key o))
                (eff_ops b ++ [SPut (KMeta (bid b)) 1] ++ (if hib then [SPut KHead (bid b)] else [])) = true).
  { rewrite existsb_app. apply orb_true_intro. right. reflexivity. }
  rewrite M.
  assert (H : existsb (fun o => is_head (sop_key o))
                (eff_ops b ++ [SPut (KMeta (bid b)) 1] ++ (if hib then [SPut KHead (bid b)] else [])) = hib).
  { rewrite existsb_app.
    assert (E : existsb (fun o => is_head (sop_key o)) (eff_ops b) = false).
    { destruct (existsb _ (eff_ops b)) eqn:E; [|reflexivity].
      apply existsb_exists in E as [o [Ho Hk]]. unfold eff_ops in Ho. apply in_app_or in Ho as [Ho|Ho];
        [unfold put_ops in Ho|unfold del_ops in Ho]; apply in_map_iff in Ho as [p [<- _]]; discriminate. }
    rewrite E. destruct hib; reflexivity. }
  rewrite H. reflexivity.
Qed.

Lemma fwd_classes hib b :
  map class_of (fwd_writes hib b) = [CPutCanon; CPutBlock; CBatchTrie; CBatchTrie; CBatchBlock hib; CPutHead].
Proof.
  unfold fwd_writes, fwd_pre, fwd_post. cbn [app map]. rewrite class_block_batch. reflexivity.
Qed.

Lemma back_classes b pid pnum : map class_of (back_writes b pid pnum) = [CBatchRollback].
Proof.
  unfold back_writes. cbn [map class_of]. unfold has_key.
  set (l := SDel (KCanon (bnum b)) :: undo_ops b ++ [SPut KHead pid; SPut (KCanon pnum) pid]).
  assert (Hm : existsb (fun o => is_meta (sop_key o)) l = false).
  { destruct (existsb _ l) eqn:E; [|reflexivity].
    apply existsb_exists in E as [o [Ho Hk]]. destruct Ho as [<-|Ho]; [discriminate|].
    apply in_app_or in Ho as [Ho|[<-|[<-|[]]]]; try discriminate.
    unfold undo_ops in Ho. apply in_app_or in Ho as [Ho|Ho];
      [unfold put_ops in Ho|unfold del_ops in Ho]; apply in_map_iff in Ho as [p [<- _]]; discriminate. }
  rewrite Hm.
  assert (Hh : existsb (fun o => is_head (sop_key o)) l = true).
  { apply existsb_exists. exists (SPut KHead pid). split; [|reflexivity].
    right. apply in_or_app. right. left. reflexivity. }
  assert (Hc : existsb (fun o => is_canon (sop_key o)) l = true).
  { apply existsb_exists. exists (SDel (KCanon (bnum b))). split; [left; reflexivity|reflexivity]. }
  rewrite Hh, Hc. reflexivity.
Qed.

(* ------------------------------------------------------------------ appending one block *)
Lemma windowb_append b k : windowb false (append_script b) k = (k =? 10)%nat.
Proof.
  do 13 (destruct k as [|k]; [reflexivity|]). reflexivity.
Qed.

Lemma append_script_ok bs b : valid_next bs b -> script_ok bs (append_script b).
Proof. intros V. cbn. auto. Qed.

Lemma append_crash_partial hib d bs b k :
  Good d bs -> valid_next bs b -> windowb hib (append_script b) k = false ->
  Good (crash k (script_writes hib (append_script b)) d) bs
  \/ Good (crash k (script_writes hib (append_script b)) d) (bs ++ [b]).
Proof.
  intros G V W.
  destruct (script_crash hib (append_script b) d bs k G (append_script_ok bs b V) W) as [bs' [Hin Hg]].
  cbn in Hin. destruct Hin as [<-|[<-|[<-|[]]]]; auto.
Qed.

Lemma append_crash_early hib d bs b k :
  Good d bs -> (k <= 9)%nat -> Good (crash k (script_writes hib (append_script b)) d) bs.
Proof.
  intros G Hk. cbn [append_script script_writes flat_map step_writes]. rewrite app_nil_r.
  rewrite crash_app. cbn [length store_writes map].
  destruct (k <=? 5)%nat eqn:E.
  - apply harmless_crash_good; [apply store_harmless|exact G].
  - apply Nat.leb_gt in E. apply fwd_crash_before; [|lia].
    apply harmless_all_good; [apply store_harmless|exact G].
Qed.

Lemma no_double_apply_lemma hib d bs b k :
  Good d bs -> valid_next bs b -> (k <= 9)%nat ->
  Good (exec hib (crash k (script_writes hib (append_script b)) d) (append_script b)) (bs ++ [b]).
Proof.
  intros G V Hk.
  apply (exec_good hib (append_script b) _ bs); [apply append_crash_early; assumption|apply append_script_ok; exact V].
Qed.

Lemma window_consistent_iff d bs b :
  AfterBatch false d bs b -> (Good d bs <-> forall u, content (bs ++ [b]) u = content bs u).
Proof.
  intros [A1 [A2 A3]]. split.
  - intros [_ [G2 _]] u. rewrite <- A2. apply G2.
  - intros H. split; [exact A1|]. split.
    + intros u. rewrite A2. apply H.
    + intros x Hx. apply A3. apply in_or_app. left. exact Hx.
Qed.

(* ------------------------------------------------------------------ the concrete witness (F7) *)
Definition wb1 : block := mkB 1 0 1 [(1, 7)] [].
Definition wb2 : block := mkB 2 1 2 [(2, 8)] [(1, 7)].
Definition wd1 : db := apply_all (script_writes false (append_script wb1)) init.

Lemma wb1_valid : valid_next [] wb1.
Proof.
  split; [reflexivity|]. split.
  - intros u v [].
  - intros u v [E|[]]. injection E as <- <-. reflexivity.
Qed.

Lemma wd1_good : Good wd1 [wb1].
Proof.
  apply (script_complete false (append_script wb1) init []); [exact good_init|].
  apply append_script_ok. exact wb1_valid.
Qed.

Lemma wb2_valid : valid_next [wb1] wb2.
Proof.
  split; [reflexivity|]. split.
  - intros u v [E|[]]. injection E as <- <-. left. reflexivity.
  - intros u v [E|[]]. injection E as <- <-. reflexivity.
Qed.

Lemma witness_refutes :
  ~ (Good (crash 10 (script_writes false (append_script wb2)) wd1) [wb1]
     \/ Good (crash 10 (script_writes false (append_script wb2)) wd1) ([wb1] ++ [wb2])).
Proof.
  intros [[_ [H _]]|[H _]].
  - specialize (H 1). vm_compute in H. discriminate.
  - vm_compute in H. discriminate.
Qed.

Lemma refuted_lemma :
  exists d bs b k, Good d bs /\ valid_next bs b
    /\ ~ (Good (crash k (script_writes false (append_script b)) d) bs
          \/ Good (crash k (script_writes false (append_script b)) d) (bs ++ [b])).
Proof.
  exists wd1, [wb1], wb2, 10%nat. split; [exact wd1_good|]. split; [exact wb2_valid|exact witness_refutes].
Qed.

(* the same witness: the restarted node is stuck at the parent, it rejects the interrupted block *)
Lemma witness_stuck :
  head_id (exec false (crash 10 (script_writes false (append_script wb2)) wd1) (append_script wb2)) = 1
  /\ head_id (apply_all (script_writes false (append_script wb2)) wd1) = 2.
Proof. split; vm_compute; reflexivity. Qed.

(* with the head hash inside the block batch the same crash point is fine *)
Lemma witness_fixed :
  Good (crash 10 (script_writes true (append_script wb2)) wd1) ([wb1] ++ [wb2]).
Proof.
  destruct (append_crash_partial true wd1 [wb1] wb2 10 wd1_good wb2_valid (windowb_fixed _ _)) as [[H _]|H]; [|exact H].
  vm_compute in H. discriminate.
Qed.

(* ------------------------------------------------------------------ one commit per block *)
(* The block-owned keys (flat entries, per-block records) are touched by exactly one top-level write
   of an append: the block batch; by at most one of a rollback step: the rollback batch; by none of
   the store writes. This is the predicate of the harness' write-log monitor, as a theorem of the
   model; the static facts below tie it to the source: nobody who borrows the batch commits it. *)
Lemma has_key_owned_put_ops l : has_key is_owned (put_ops l) = negb (match l with [] => true | _ => false end).
Proof. destruct l; reflexivity. Qed.

Lemma block_batch_meta hib b : has_key is_meta (block_batch hib b) = true.
Proof.
  unfold block_batch, has_key. rewrite existsb_app. apply orb_true_intro. right. reflexivity.
Qed.

Lemma block_batch_owned hib b : has_key is_owned (block_batch hib b) = true.
Proof.
  unfold block_batch, has_key. rewrite existsb_app. apply orb_true_intro. right. reflexivity.
Qed.

Lemma owned_fwd hib b :
  filter touches_owned (store_writes b ++ fwd_writes hib b) = [WBatch (block_batch hib b)].
Proof.
  unfold store_writes, fwd_writes, fwd_pre, fwd_post.
  cbn [map app filter touches_owned sop_key is_owned is_flat is_meta orb has_key existsb].
  rewrite (block_batch_owned hib b). reflexivity.
Qed.

Lemma owned_store b : filter touches_owned (store_writes b) = [].
Proof. reflexivity. Qed.

Lemma back_batch_shape b pid pnum l :
  back_writes b pid pnum = [WBatch l] ->
  has_key is_meta l = false /\ has_key is_head l = true /\ has_key is_canon l = true.
Proof.
  unfold back_writes. intros E. injection E as <-. unfold has_key.
  cbn [existsb sop_key is_meta is_head is_canon orb].
  rewrite !existsb_app. cbn [existsb sop_key is_meta is_head is_canon orb].
  assert (M : forall f, (forall u, f (KFlat u) = false) -> existsb (fun o => f (sop_key o)) (undo_ops b) = false).
  { intros f Hf. unfold undo_ops, put_ops, del_ops. rewrite existsb_app.
    assert (A : forall l0, existsb (fun o => f (sop_key o)) (map (fun p => SPut (KFlat (fst p)) (snd p)) l0) = false).
    { induction l0 as [|x l0 IH]; [reflexivity|]. cbn [map existsb sop_key]. rewrite Hf, IH. reflexivity. }
    assert (B : forall l0, existsb (fun o => f (sop_key o)) (map (fun p : N * N => SDel (KFlat (fst p))) l0) = false).
    { induction l0 as [|x l0 IH]; [reflexivity|]. cbn [map existsb sop_key]. rewrite Hf, IH. reflexivity. }
    rewrite A, B. reflexivity. }
  rewrite ?(M is_meta (fun _ => eq_refl)), ?(M is_head (fun _ => eq_refl)), ?(M is_canon (fun _ => eq_refl)).
  repeat split; rewrite ?orb_true_r; reflexivity.
Qed.

Lemma owned_step hib s w :
  In w (step_writes hib s) -> touches_owned w = true ->
  (is_block_batch w = true /\ is_fwd_step s = true) \/ (is_rollback_batch w = true /\ is_back_step s = true).
Proof.
  intros Hin Ht. destruct s as [b|b|b pid pnum]; cbn [step_writes] in Hin.
  - exfalso. assert (F : In w (filter touches_owned (store_writes b))) by (apply filter_In; split; assumption).
    rewrite owned_store in F. exact F.
  - left. split; [|reflexivity].
    assert (F : In w (filter touches_owned (store_writes b ++ fwd_writes hib b))).
    { apply filter_In. split; [apply in_or_app; right; exact Hin|exact Ht]. }
    rewrite owned_fwd in F. destruct F as [<-|[]]. cbn [is_block_batch]. apply block_batch_meta.
  - right. split; [|reflexivity].
    destruct (back_batch_shape b pid pnum _ eq_refl) as [A [B C]].
    unfold back_writes in Hin. destruct Hin as [<-|[]].
    cbn [is_rollback_batch]. rewrite A, B, C. reflexivity.
Qed.

Lemma owned_script hib ss w :
  In w (script_writes hib ss) -> touches_owned w = true ->
  is_block_batch w = true \/ is_rollback_batch w = true.
Proof.
  unfold script_writes. rewrite in_flat_map. intros [s [_ Hin]] Ht.
  destruct (owned_step hib s w Hin Ht) as [[A _]|[A _]]; [left|right]; exact A.
Qed.

(* exactly one block batch per forward step, at most one rollback batch per rollback step, and
   nothing else touches the owned keys *)
Lemma owned_count hib ss :
  length (filter is_block_batch (script_writes hib ss)) = length (filter is_fwd_step ss)
  /\ length (filter is_rollback_batch (script_writes hib ss)) = length (filter is_back_step ss).
Proof.
  unfold script_writes. induction ss as [|s ss [IH1 IH2]]; [split; reflexivity|].
  cbn [flat_map]. rewrite !filter_app, !app_length, IH1, IH2.
  destruct s as [b|b|b pid pnum]; cbn [step_writes is_fwd_step is_back_step filter].
  - split; reflexivity.
  - unfold fwd_writes, fwd_pre, fwd_post.
    cbn [app filter is_block_batch is_rollback_batch has_key existsb sop_key is_meta is_head is_canon orb andb negb length].
    fold (has_key is_meta (block_batch hib b)). rewrite (block_batch_meta hib b).
    cbn [negb andb length]. split; reflexivity.
  - destruct (back_batch_shape b pid pnum _ eq_refl) as [A [B C]].
    unfold back_writes. cbn [filter is_block_batch is_rollback_batch].
    rewrite A, B, C. cbn [negb andb length]. split; reflexivity.
Qed.

Definition static_single_commit : bool :=
  (borrowed_batch_flush_sites =? 0) && (borrowed_batch_bypass_sites =? 0)
  && (0 <? borrowed_batch_functions) && (0 <? borrowed_batch_write_sites)
  && (countN 20 append_calls =? 1)%nat && (countN 21 append_calls =? 1)%nat
  && (countN 21 apply_calls =? 0)%nat && (countN 20 apply_calls =? 0)%nat
  && (index_of 36 append_calls <? index_of 21 append_calls)%nat.

Lemma static_single_commit_lemma :
  static_single_commit = true
  /\ forall hib b, filter touches_owned (store_writes b ++ fwd_writes hib b) = [WBatch (block_batch hib b)].
Proof. split; [vm_compute; reflexivity|exact owned_fwd]. Qed.

(* ------------------------------------------------------------------ static order obligations *)
Lemma static_ext_lemma b : static_fwd_classes ext_calls = map class_of (fwd_writes head_in_batch b).
Proof. rewrite fwd_classes. vm_compute. reflexivity. Qed.

Lemma static_fwd_lemma b : static_fwd_classes forward_calls = map class_of (fwd_writes head_in_batch b).
Proof. rewrite fwd_classes. vm_compute. reflexivity. Qed.

Lemma static_rollback_lemma :
  rollback_atomic = true /\ forall b pid pnum, map class_of (back_writes b pid pnum) = [CBatchRollback].
Proof. split; [vm_compute; reflexivity|exact back_classes]. Qed.

Lemma restart_lemma :
  hd 0 load_calls = 40 /\ processed_state_read_sites = 0
  /\ forall d d', d KHead = d' KHead -> head_id d = head_id d'.
Proof.
  split; [vm_compute; reflexivity|]. split; [vm_compute; reflexivity|].
  intros d d' H. unfold head_id. rewrite H. reflexivity.
Qed.

(* non-vacuity: a reorg script over concrete blocks *)
Definition wb3 : block := mkB 3 1 2 [(3, 9)] [(1, 7)].      (* sibling of wb2 spending the same entry *)
Definition wd2 : db := apply_all (script_writes false (append_script wb2)) wd1.
Definition wreorg : list step := [SBack wb2 1 1; SFwd wb3].

Lemma wd2_good : Good wd2 [wb1; wb2].
Proof.
  apply (script_complete false (append_script wb2) wd1 [wb1]); [exact wd1_good|].
  apply append_script_ok. exact wb2_valid.
Qed.

Lemma wb3_valid : valid_next [wb1] wb3.
Proof.
  split; [reflexivity|]. split.
  - intros u v [E|[]]. injection E as <- <-. left. reflexivity.
  - intros u v [E|[]]. injection E as <- <-. reflexivity.
Qed.

Lemma wreorg_ok : script_ok [wb1; wb2] wreorg.
Proof.
  split.
  - exists [wb1]. split; [reflexivity|]. split; [apply wb2_valid|reflexivity].
  - split; [exact wb3_valid|exact I].
Qed.

(* C01 -- block- and chain-level supply accounting of the Qi ledger (the statement's last clause:
   "Qi supply changes only through coinbase, conversion and trimming events"): the value held by the
   'ut' records after any block / any chain of blocks processed by ProcessQiTx is the value before,
   minus everything that left (fees, ETXs to other chains, conversions, wrappings), minus whatever a
   CreateUTXO overwrote -- never more.  Stated over the strict event semantics of Proofs/C01_Ledger.v,
   by induction over event lists, transaction lists and block lists. *)
From Coq Require Import List NArith Bool Lia ZifyBool ZifyN.
From GQ Require Import Lib.Key Lib.SMap Generated.C01Params Model.C01 Proofs.C01_View Proofs.C01_Sim
     Proofs.C01_Steps Proofs.C01_Ledger Proofs.C01_Den Proofs.C01_Worker Proofs.C01_Worker2 Proofs.C01.
Import ListNotations.
Local Open Scope N_scope.

Definition uval (u : utxo) : N := den_value (u_den u).
Definition oval (o : option utxo) : N := match o with Some u => uval u | None => 0 end.

Lemma value_of_cons k u (l : list (key * utxo)) : value_of ((k, u) :: l) = uval u + value_of l.
Proof. unfold value_of, uval. cbn [map snd]. apply sum_den_cons. Qed.

Lemma value_of_nil : value_of [] = 0.
Proof. reflexivity. Qed.

(* rawdb.DeleteUTXO removes exactly the value of the record it finds (no sortedness needed: get, put
   and del walk the list with the same comparisons) *)
Lemma value_del k (l : ledger) : value_of (del k l) + oval (get k l) = value_of l.
Proof.
  induction l as [|[k' u'] l IH]; cbn [del get]; [reflexivity|].
  destruct (kcmp k k'); cbn [oval].
  - rewrite value_of_cons. lia.
  - lia.
  - rewrite !value_of_cons. lia.
Qed.

(* rawdb.CreateUTXO adds the value of the record and silently drops the one it overwrites *)
Lemma value_put k u (l : ledger) : value_of (put k u l) + oval (get k l) = value_of l + uval u.
Proof.
  induction l as [|[k' u'] l IH]; cbn [put get oval].
  - rewrite value_of_cons, value_of_nil. lia.
  - destruct (kcmp k k'); cbn [oval]; rewrite !value_of_cons; lia.
Qed.

(* value consumed / created by a run, and the value destroyed by creations over a live record *)
Fixpoint ev_consumed (evs : list event) : N :=
  match evs with
  | [] => 0
  | Consume _ u :: r => uval u + ev_consumed r
  | Create _ _ :: r => ev_consumed r
  end.
Fixpoint ev_created (evs : list event) : N :=
  match evs with
  | [] => 0
  | Consume _ _ :: r => ev_created r
  | Create _ u :: r => uval u + ev_created r
  end.
Fixpoint overwritten (l : ledger) (evs : list event) : N :=
  match evs with
  | [] => 0
  | Consume k _ :: r => overwritten (del k l) r
  | Create k u :: r => oval (get k l) + overwritten (put k u l) r
  end.

Lemma ev_consumed_app a b : ev_consumed (a ++ b) = ev_consumed a + ev_consumed b.
Proof. induction a as [|[k u|k u] a IH]; cbn [app ev_consumed]; lia. Qed.
Lemma ev_created_app a b : ev_created (a ++ b) = ev_created a + ev_created b.
Proof. induction a as [|[k u|k u] a IH]; cbn [app ev_created]; lia. Qed.

Lemma ev_consumed_consumes sp : ev_consumed (consumes sp) = value_of sp.
Proof. induction sp as [|[k u] sp IH]; cbn [consumes map ev_consumed fst snd]; [reflexivity|]. fold (consumes sp). rewrite IH, value_of_cons. reflexivity. Qed.
Lemma ev_created_consumes sp : ev_created (consumes sp) = 0.
Proof. induction sp as [|[k u] sp IH]; cbn [consumes map ev_created fst snd]; [reflexivity|]. exact IH. Qed.
Lemma ev_consumed_creates cs : ev_consumed (creates cs) = 0.
Proof. induction cs as [|[k u] cs IH]; cbn [creates map ev_consumed fst snd]; [reflexivity|]. exact IH. Qed.
Lemma ev_created_creates cs : ev_created (creates cs) = value_of cs.
Proof. induction cs as [|[k u] cs IH]; cbn [creates map ev_created fst snd]; [reflexivity|]. fold (creates cs). rewrite IH, value_of_cons. reflexivity. Qed.

Lemma tx_events_consumed r : ev_consumed (tx_events r) = value_of (r_spent r).
Proof. unfold tx_events. rewrite ev_consumed_app, ev_consumed_consumes, ev_consumed_creates. lia. Qed.
Lemma tx_events_created r : ev_created (tx_events r) = value_of (r_created r).
Proof. unfold tx_events. rewrite ev_created_app, ev_created_consumes, ev_created_creates. lia. Qed.

(* the exact balance of any strict run: nothing appears that was not created, what disappears was
   consumed or overwritten *)
Lemma strict_balance l evs l' : strict l evs l' ->
  value_of l' + ev_consumed evs + overwritten l evs = value_of l + ev_created evs.
Proof.
  induction 1 as [l|l k u r l' Hg Hs IH|l k u r l' Hs IH]; cbn [ev_consumed ev_created overwritten].
  - lia.
  - pose proof (value_del k l) as Hd. rewrite Hg in Hd. cbn [oval] in Hd. lia.
  - pose proof (value_put k u l) as Hp. lia.
Qed.

Lemma strict_no_inflation l evs l' : strict l evs l' ->
  value_of l' + ev_consumed evs <= value_of l + ev_created evs.
Proof. intros H. pose proof (strict_balance _ _ _ H). lia. Qed.

(* ------------------------------------------------------------------ one block *)

(* what leaves the zone's Qi ledger with one accepted transaction: the fee (paid out through the
   coinbase) and the value carried by its ETXs (other chains, conversion, wrapping) *)
Definition tx_outflow (r : txres) : N := etxs_value (r_etxs r) + r_fee r.
Definition block_outflow (rs : list txres) : N := fold_right (fun r acc => tx_outflow r + acc) 0 rs.
Definition block_dbl (c : ctx) (txs : list tx) : N := fold_right (fun t acc => double_entry c t + acc) 0 txs.

Lemma block_events_sums c txs rs : Forall2 (tx_facts c) txs rs ->
  ev_consumed (block_events rs) + block_dbl c txs = ev_created (block_events rs) + block_outflow rs.
Proof.
  induction 1 as [|t r txs rs (_ & Hc & _) _ IH]; unfold block_events in *; cbn [map concat block_dbl block_outflow fold_right].
  - reflexivity.
  - fold (block_dbl c txs). fold (block_outflow rs).
    rewrite ev_consumed_app, ev_created_app, tx_events_consumed, tx_events_created. unfold tx_outflow. lia.
Qed.

Lemma block_dbl_after_fork c txs : qi_wrapping_change_block <= c_ptn c -> block_dbl c txs = 0.
Proof.
  intros H. induction txs as [|t r IH]; cbn [block_dbl fold_right]; [reflexivity|].
  fold (block_dbl c r). rewrite IH, double_entry_after_fork by exact H. reflexivity.
Qed.

(* an accepted block, any fork regime, exact: ledger value after + fees + outbound value + overwritten
   = ledger value before + the pre-fork wrapping double entry *)
Lemma block_supply (l : ledger) c txs rs l' : sorted l -> run_block true l c txs = (rs, true, l') ->
  value_of l' + block_outflow rs + overwritten l (block_events rs) = value_of l + block_dbl c txs.
Proof.
  intros S H. apply run_block_accepted in H as (Hst & Hf); [|exact S].
  pose proof (strict_balance _ _ _ Hst) as Hb. pose proof (block_events_sums _ _ _ Hf) as Hs. lia.
Qed.

(* a block never changes the ledger value except downwards by what it sends away (from the wrapping
   fork on); a rejected block changes nothing *)
Lemma block_no_inflation (l : ledger) c txs rs ok l' : sorted l -> run_block true l c txs = (rs, ok, l') ->
  qi_wrapping_change_block <= c_ptn c ->
  value_of l' + (if ok then block_outflow rs else 0) <= value_of l.
Proof.
  intros S H Hf. destruct ok.
  - pose proof (block_supply _ _ _ _ _ S H) as Hb. rewrite block_dbl_after_fork in Hb by exact Hf. lia.
  - apply run_block_rejected in H. subst. lia.
Qed.

(* ------------------------------------------------------------------ any chain of blocks *)

Definition outcome_outflow (o : outcome) : N := let '(rs, ok, _) := o in if ok then block_outflow rs else 0.
Definition chain_outflow (os : list outcome) : N := fold_right (fun o acc => outcome_outflow o + acc) 0 os.
Fixpoint chain_dbl (blocks : list (ctx * list tx)) (os : list outcome) : N :=
  match blocks, os with
  | (c, txs) :: br, (_, ok, _) :: or => (if ok then block_dbl c txs else 0) + chain_dbl br or
  | _, _ => 0
  end.

Lemma run_block_sorted (l : ledger) c txs rs ok l' : sorted l -> run_block true l c txs = (rs, ok, l') -> sorted l'.
Proof.
  intros S H. destruct ok.
  - apply run_block_accepted in H as (Hst & _); [|exact S]. eapply strict_sorted; eauto.
  - apply run_block_rejected in H. subst. exact S.
Qed.

Lemma chain_supply blocks : forall l : ledger, sorted l ->
  value_of (final_ledger l (run_chain true l blocks)) + chain_outflow (run_chain true l blocks)
  <= value_of l + chain_dbl blocks (run_chain true l blocks).
Proof.
  induction blocks as [|[c txs] br IH]; intros l S; cbn [run_chain].
  - cbn [final_ledger chain_outflow fold_right chain_dbl]. lia.
  - destruct (run_block true l c txs) as [[rs ok] l'] eqn:E.
    cbn [final_ledger snd chain_outflow fold_right chain_dbl outcome_outflow].
    fold (chain_outflow (run_chain true l' br)).
    pose proof (run_block_sorted _ _ _ _ _ _ S E) as S'.
    specialize (IH l' S').
    assert (value_of l' + (if ok then block_outflow rs else 0) <= value_of l + (if ok then block_dbl c txs else 0)) as Hb.
    { destruct ok.
      - pose proof (block_supply _ _ _ _ _ S E). lia.
      - apply run_block_rejected in E. subst. lia. }
    lia.
Qed.

Lemma chain_dbl_after_fork blocks : forall os,
  Forall (fun b => qi_wrapping_change_block <= c_ptn (fst b)) blocks -> chain_dbl blocks os = 0.
Proof.
  induction blocks as [|[c txs] br IH]; intros os H; [reflexivity|].
  destruct os as [|[[rs ok] l'] or]; [reflexivity|]. cbn [chain_dbl].
  inversion H as [|? ? Hc Hr]; subst. cbn [fst] in Hc. rewrite IH by exact Hr.
  rewrite block_dbl_after_fork by exact Hc. destruct ok; reflexivity.
Qed.

(* from the wrapping fork on: whatever blocks are offered (accepted or rejected, adversarial or not),
   value held by the ledger afterwards + everything that left it <= value held before *)
Lemma chain_no_inflation (l : ledger) blocks : sorted l ->
  Forall (fun b => qi_wrapping_change_block <= c_ptn (fst b)) blocks ->
  value_of (final_ledger l (run_chain true l blocks)) + chain_outflow (run_chain true l blocks) <= value_of l.
Proof.
  intros S H. pose proof (chain_supply blocks l S) as Hc. rewrite chain_dbl_after_fork in Hc by exact H. lia.
Qed.

(* a block the node assembles from its own pool (hypotheses of worker_block_accepted_view): processed by
   ProcessQiTx it is accepted and balances in the same way *)
Lemma worker_block_supply c (l : ledger) txs : sorted l ->
  Forall (fun t => pool_ok c l t /\ fresh l t /\ sig_fine t) txs ->
  exists rs l', run_block true l c (accepted_txs txs (fst (worker_txs c l true (init_wenv c) txs))) = (rs, true, l')
    /\ value_of l' + block_outflow rs + overwritten l (block_events rs)
       = value_of l + block_dbl c (accepted_txs txs (fst (worker_txs c l true (init_wenv c) txs))).
Proof.
  intros S H. destruct (worker_block_accepted_view c l txs S H) as (rs & l' & Hr & _).
  exists rs, l'. split; [exact Hr|]. eapply block_supply; eauto.
Qed.

(* the two store operations, as used in Props *)
Lemma create_delete_value (l : ledger) k u :
  value_of (del k l) + oval (get k l) = value_of l
  /\ value_of (put k u l) + oval (get k l) = value_of l + uval u.
Proof. split; [apply value_del|apply value_put]. Qed.

(* C14 - lemmas on the ownership inventories generated from the source (Generated/C14Sites.v). *)
From Coq Require Import List String Bool.
From GQ Require Import Lib.C14_Sites Generated.C14Sites.
Import ListNotations.
Local Open Scope string_scope.

Lemma pool_sites_checked : no_pooled_bytes_escape C14Sites.pool_sites = true.
Proof. vm_compute. reflexivity. Qed.

Lemma no_pooled_bytes_escape_spec : forall l, no_pooled_bytes_escape l = true ->
  forall s, In s l -> pool_escapes s = false.
Proof.
  intros l H s Hin. unfold no_pooled_bytes_escape in H.
  rewrite forallb_forall in H. specialize (H s Hin). now apply negb_true_iff in H.
Qed.

Lemma pooled_bytes_stay_inside : forall s, In s C14Sites.pool_sites -> pool_escapes s = false.
Proof. exact (no_pooled_bytes_escape_spec _ pool_sites_checked). Qed.

Lemma stores_as_reviewed : stores_eqb C14Sites.shared_stores reviewed_stores = true.
Proof. vm_compute. reflexivity. Qed.

Lemma writers_as_reviewed : writers_eqb C14Sites.inplace_writers reviewed_writers = true.
Proof. vm_compute. reflexivity. Qed.

Lemma live_shared_nil_spec : forall stores writers, live_shared stores writers = [] ->
  forall s w, In s stores -> In w writers -> conflicts s w = false.
Proof.
  intros stores writers H s w Hs Hw.
  destruct (conflicts s w) eqn:E; [|reflexivity].
  assert (Hin : In s (live_shared stores writers)).
  { unfold live_shared. apply filter_In. split; [exact Hs|].
    apply existsb_exists. exists w. split; assumption. }
  rewrite H in Hin. destruct Hin.
Qed.

Lemma nothing_live_checked : live_shared C14Sites.shared_stores C14Sites.inplace_writers = [].
Proof. vm_compute. reflexivity. Qed.

Lemma nothing_live : forall s w, In s C14Sites.shared_stores -> In w C14Sites.inplace_writers -> conflicts s w = false.
Proof. exact (live_shared_nil_spec _ _ nothing_live_checked). Qed.

(* the full-strength statement "no decoded field ever holds a package-level integer" is false on the
   current tree *)
Lemma some_field_shares_a_global : exists s, In s C14Sites.shared_stores /\ store_type s = ty_QuaiTx /\ store_field s = fd_Value.
Proof. eexists. split; [left; reflexivity|split; reflexivity]. Qed.

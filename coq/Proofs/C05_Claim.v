(* C05 -- the claim of a locked coinbase (core/vm/contracts.go:ClaimCoinbaseLockup under the lockup branch
   of core/vm/evm.go:Call): all-or-nothing at the origin.  Model: Model/C05.v claim_lockup / call_claim. *)
From Coq Require Import List NArith Bool String Lia ZifyBool ZifyN.
From GQ Require Import Generated.C05Params Model.C05 Proofs.C05.
Import ListNotations.
Local Open Scope N_scope.

(* ---------- the ledger ---------- *)
Lemma lkey_eqb_refl : forall k, lkey_eqb k k = true.
Proof. intros [[[o m] l] e]. cbn. rewrite !N.eqb_refl. reflexivity. Qed.
Lemma lkey_eqb_eq : forall a b, lkey_eqb a b = true <-> a = b.
Proof.
  intros [[[o m] l] e] [[[o' m'] l'] e']. cbn. split.
  - intros H. apply andb_prop in H. destruct H as [H He]. apply andb_prop in H. destruct H as [H Hl].
    apply andb_prop in H. destruct H as [Ho Hm]. apply N.eqb_eq in Ho, Hm, Hl, He. subst. reflexivity.
  - intros H. inversion H. subst. rewrite !N.eqb_refl. reflexivity.
Qed.
Lemma lkey_eqb_sym : forall a b, lkey_eqb a b = lkey_eqb b a.
Proof.
  intros a b. destruct (lkey_eqb a b) eqn:A.
  - apply lkey_eqb_eq in A. subst. symmetry. apply lkey_eqb_refl.
  - destruct (lkey_eqb b a) eqn:B; [|reflexivity]. apply lkey_eqb_eq in B. subst. rewrite lkey_eqb_refl in A. discriminate.
Qed.

Lemma lget_ldel_same : forall k l, lget k (ldel k l) = None.
Proof.
  intros k l. induction l as [|[k' r] l IH]; [reflexivity|]. cbn [ldel].
  destruct (lkey_eqb k' k) eqn:E; [exact IH|]. cbn [lget]. rewrite E. exact IH.
Qed.
Lemma lget_ldel_other : forall k k' l, k' <> k -> lget k' (ldel k l) = lget k' l.
Proof.
  intros k k' l Hne. induction l as [|[k0 r] l IH]; [reflexivity|]. cbn [ldel lget].
  destruct (lkey_eqb k0 k) eqn:E.
  - apply lkey_eqb_eq in E. subst k0. destruct (lkey_eqb k k') eqn:E'.
    + apply lkey_eqb_eq in E'. congruence.
    + exact IH.
  - cbn [lget]. destruct (lkey_eqb k0 k'); [reflexivity|exact IH].
Qed.

(* ---------- the statement ---------- *)
(* "either the claim reports success, the locked record is consumed (exactly its balance leaves, nothing else of the
   ledger changes), the gas limit of the ETX is deducted, exactly one outbound transaction of type CoinbaseLockup
   carrying that balance is recorded under the fresh index and the undo entry is recorded -- or it reports failure and
   neither the ledger nor the outbound list nor the undo records change" *)
Definition claim_aon (owner gas : N) (led : list (lkey * lrec)) (etxs : list etx) (miner to lb epoch gl : N)
  (res : bool * N * list (lkey * lrec) * list etx * list (lkey * lrec)) : Prop :=
  match res with
  | (ok, g, led', etxs', undo) =>
      (ok = true /\ g = gas - gl /\ gl <= gas /\
       exists r, lget (owner, miner, lb, epoch) led = Some r /\ led' = ldel (owner, miner, lb, epoch) led /\
                 undo = [((owner, miner, lb, epoch), r)] /\
       exists e, etxs' = etxs ++ [e] /\ e_value e = l_bal r /\ e_index e = lenN etxs /\ e_gas e = gl /\
                 e_to e = to /\ e_sender e = owner /\ e_type e = EtxCoinbaseLockupType)
      \/ (ok = false /\ led' = led /\ etxs' = etxs /\ undo = [])
  end.

(* the guards of ClaimCoinbaseLockup up to the deletion of the record *)
Definition claim_due (c : ctx) (height owner gas : N) (led : list (lkey * lrec)) (miner to lb epoch gl : N) : bool :=
  (gl <=? gas) && internal_quai (x_pfx c) owner && in_scope (x_pfx c) miner &&
  (epoch <? (height / CoinbaseEpochBlocks + 1) mod W32) && Bool.eqb (is_qi miner) (is_qi to) &&
  match lget (owner, miner, lb, epoch) led with
  | Some r => negb (l_unlock r =? 0) && (l_unlock r <=? height mod W32) && negb (l_elems r =? 0)
  | None => false
  end.

Ltac claim_fail_case H :=
  cbn [lr_ok lr_gas lr_led lr_emit lr_undo opt_list];
  match goal with |- context [ShaEquivalentDifficultyForkBlock <=? ?p] => destruct (ShaEquivalentDifficultyForkBlock <=? p) end;
  rewrite ?app_nil_r.

(* exact behaviour of the claim under Call, every fork regime, every length of the cache *)
Lemma call_claim_spec : forall c height owner gas led etxs miner to lb epoch gl,
  let res := call_claim c height owner gas led etxs miner to lb epoch gl in
  if claim_due c height owner gas led miner to lb epoch gl then
    exists r, lget (owner, miner, lb, epoch) led = Some r /\
    if MaxUint16 <? lenN etxs
    then res = (false, gas - gl, ldel (owner, miner, lb, epoch) led, etxs, [])
    else res = (true, gas - gl, ldel (owner, miner, lb, epoch) led,
                etxs ++ [mkEtx to owner (l_bal r) (lenN etxs) EtxCoinbaseLockupType gl], [((owner, miner, lb, epoch), r)])
  else fst (fst (fst (fst res))) = false /\ snd (fst (fst res)) = led /\ snd (fst res) = etxs /\ snd res = [].
Proof.
  intros c height owner gas led etxs miner to lb epoch gl. cbn zeta.
  unfold claim_due, call_claim, claim_lockup.
  destruct (gas <? gl) eqn:G.
  { assert (gl <=? gas = false) as -> by lia. cbn [andb]. claim_fail_case tt; cbn; auto. }
  assert (gl <=? gas = true) as -> by lia. cbn [andb].
  destruct (internal_quai (x_pfx c) owner); cbn [negb andb]; [|claim_fail_case tt; cbn; auto].
  destruct (in_scope (x_pfx c) miner); cbn [negb andb]; [|claim_fail_case tt; cbn; auto].
  destruct ((height / CoinbaseEpochBlocks + 1) mod W32 <=? epoch) eqn:E.
  { assert (epoch <? (height / CoinbaseEpochBlocks + 1) mod W32 = false) as -> by lia. cbn [andb]. claim_fail_case tt; cbn; auto. }
  assert (epoch <? (height / CoinbaseEpochBlocks + 1) mod W32 = true) as -> by lia. cbn [andb].
  destruct (Bool.eqb (is_qi miner) (is_qi to)); cbn [negb andb]; [|claim_fail_case tt; cbn; auto].
  destruct (lget (owner, miner, lb, epoch) led) as [r|]; [|claim_fail_case tt; cbn; auto].
  destruct (l_unlock r =? 0); cbn [negb andb]; [claim_fail_case tt; cbn; auto|].
  destruct (height mod W32 <? l_unlock r) eqn:U.
  { assert (l_unlock r <=? height mod W32 = false) as -> by lia. cbn [andb]. claim_fail_case tt; cbn; auto. }
  assert (l_unlock r <=? height mod W32 = true) as -> by lia. cbn [andb].
  destruct (l_elems r =? 0); cbn [negb]; [claim_fail_case tt; cbn; auto|].
  exists r. split; [reflexivity|].
  destruct (MaxUint16 <? lenN etxs); cbn [lr_ok lr_gas lr_led lr_emit lr_undo opt_list].
  - destruct (ShaEquivalentDifficultyForkBlock <=? x_ptn c); rewrite ?app_nil_r; reflexivity.
  - reflexivity.
Qed.

(* all-or-nothing holds whenever the cache has room for one more ETX (it always has within the gas of a block) *)
Lemma claim_call_aon_partial : forall c height owner gas led etxs miner to lb epoch gl,
  lenN etxs <= MaxUint16 ->
  claim_aon owner gas led etxs miner to lb epoch gl (call_claim c height owner gas led etxs miner to lb epoch gl).
Proof.
  intros c height owner gas led etxs miner to lb epoch gl Hidx.
  pose proof (call_claim_spec c height owner gas led etxs miner to lb epoch gl) as S. cbn zeta in S.
  destruct (claim_due c height owner gas led miner to lb epoch gl) eqn:D.
  - destruct S as [r [Hr S]]. assert (MaxUint16 <? lenN etxs = false) as I by lia. rewrite I in S. rewrite S.
    unfold claim_aon. left. unfold claim_due in D.
    assert (gl <=? gas = true) as Hg.
    { destruct (gl <=? gas); [reflexivity|]. cbn in D. discriminate. }
    repeat split; try lia. exists r. repeat split; auto. eexists. split; [reflexivity|]. cbn. repeat split; reflexivity.
  - destruct (call_claim c height owner gas led etxs miner to lb epoch gl) as [[[[ok g] led'] etxs'] undo].
    cbn [fst snd] in S. destruct S as [A [B [C0 D0]]]. subst. unfold claim_aon. right. auto.
Qed.

(* the defect: with a full cache the record is deleted in evm.Batch BEFORE the index check; Call's revert (any fork
   regime) does not restore the batch: the claim reports failure, the locked balance is gone, nothing is recorded *)
Lemma claim_index_overflow_destroys_lockup : forall c height owner gas led etxs miner to lb epoch gl,
  claim_due c height owner gas led miner to lb epoch gl = true -> MaxUint16 < lenN etxs ->
  let res := call_claim c height owner gas led etxs miner to lb epoch gl in
  fst (fst (fst (fst res))) = false /\
  lget (owner, miner, lb, epoch) led <> None /\ lget (owner, miner, lb, epoch) (snd (fst (fst res))) = None /\
  snd (fst res) = etxs /\ snd res = [].
Proof.
  intros c height owner gas led etxs miner to lb epoch gl D I. cbn zeta.
  pose proof (call_claim_spec c height owner gas led etxs miner to lb epoch gl) as S. cbn zeta in S. rewrite D in S.
  destruct S as [r [Hr S]]. assert (MaxUint16 <? lenN etxs = true) as I' by lia. rewrite I' in S. rewrite S. cbn [fst snd].
  repeat split; auto. - rewrite Hr. discriminate. - apply lget_ldel_same.
Qed.

Definition wit_miner : N := 0x0003b2b2b2b2b2b2b2b2b2b2b2b2b2b2b2b2b2b2.
Definition wit_claim_to : N := 0x0104565656565656565656565656565656565656.
Definition wit_ledger : list (lkey * lrec) := [((wit_self, wit_miner, 1, 2), mkLRec 7000 100000 3)].

Lemma claim_overflow_witness :
  let c := wit_ctx (SelfDestructRefundForkBlock + 5) 0 [] in
  let res := call_claim c 200000 wit_self 100000 wit_ledger (prefilled 65536) wit_miner wit_claim_to 1 2 30000 in
  claim_due c 200000 wit_self 100000 wit_ledger wit_miner wit_claim_to 1 2 30000 = true /\
  fst (fst (fst (fst res))) = false /\ snd (fst (fst res)) = [] /\ lenN (snd (fst res)) = 65536 /\ snd res = [].
Proof. vm_compute. repeat split; reflexivity. Qed.

Lemma claim_aon_refuted :
  exists c height owner gas led etxs miner to lb epoch gl,
    ~ claim_aon owner gas led etxs miner to lb epoch gl (call_claim c height owner gas led etxs miner to lb epoch gl).
Proof.
  exists (wit_ctx (SelfDestructRefundForkBlock + 5) 0 []), 200000, wit_self, 100000, wit_ledger, (prefilled 65536), wit_miner, wit_claim_to, 1, 2, 30000.
  pose proof claim_overflow_witness as W. cbv zeta in W. destruct W as [_ [A [B _]]].
  destruct (call_claim (wit_ctx (SelfDestructRefundForkBlock + 5) 0 []) 200000 wit_self 100000 wit_ledger (prefilled 65536) wit_miner wit_claim_to 1 2 30000)
    as [[[[ok g] led'] etxs'] undo].
  cbn [fst snd] in A, B. subst. unfold claim_aon.
  intros [[H _]|[_ [H _]]]; discriminate.
Qed.

Lemma claim_success_witness :
  let c := wit_ctx (SelfDestructRefundForkBlock + 5) 0 [] in
  call_claim c 200000 wit_self 100000 wit_ledger (prefilled 2) wit_miner wit_claim_to 1 2 30000 =
  (true, 70000, [], prefilled 2 ++ [mkEtx wit_claim_to wit_self 7000 2 EtxCoinbaseLockupType 30000], [((wit_self, wit_miner, 1, 2), mkLRec 7000 100000 3)]).
Proof. vm_compute. reflexivity. Qed.

(* whatever the outcome, no other record of the ledger changes *)
Lemma claim_touches_only_its_key : forall c height owner gas led etxs miner to lb epoch gl k',
  k' <> (owner, miner, lb, epoch) ->
  lget k' (snd (fst (fst (call_claim c height owner gas led etxs miner to lb epoch gl)))) = lget k' led.
Proof.
  intros c height owner gas led etxs miner to lb epoch gl k' Hne.
  pose proof (call_claim_spec c height owner gas led etxs miner to lb epoch gl) as S. cbn zeta in S.
  destruct (claim_due c height owner gas led miner to lb epoch gl).
  - destruct S as [r [_ S]]. destruct (MaxUint16 <? lenN etxs); rewrite S; cbn [fst snd]; apply lget_ldel_other; exact Hne.
  - destruct S as [_ [B _]]. rewrite B. reflexivity.
Qed.

(* an outbound transaction is recorded iff the claim reports success, and then it is exactly one *)
Lemma claim_records_iff_success : forall c height owner gas led etxs miner to lb epoch gl,
  let res := call_claim c height owner gas led etxs miner to lb epoch gl in
  (fst (fst (fst (fst res))) = true -> exists e, snd (fst res) = etxs ++ [e]) /\
  (fst (fst (fst (fst res))) = false -> snd (fst res) = etxs).
Proof.
  intros c height owner gas led etxs miner to lb epoch gl. cbn zeta.
  pose proof (call_claim_spec c height owner gas led etxs miner to lb epoch gl) as S. cbn zeta in S.
  destruct (claim_due c height owner gas led miner to lb epoch gl).
  - destruct S as [r [_ S]]. destruct (MaxUint16 <? lenN etxs); rewrite S; cbn [fst snd]; split; intros H; try discriminate; eauto.
  - destruct S as [A [_ [C0 _]]]. rewrite A, C0. split; intros H; [discriminate|reflexivity].
Qed.

(* a locked balance leaves at most once: after a paying claim the same request pays nothing, whatever else happened since to
   other keys (it fails on the ledger the first claim left and on any ledger in which the key is still absent) *)
Lemma claim_twice_pays_once : forall c c2 height height2 owner gas gas2 led etxs etxs2 miner to to2 lb epoch gl gl2,
  let res := call_claim c height owner gas led etxs miner to lb epoch gl in
  fst (fst (fst (fst res))) = true ->
  let res2 := call_claim c2 height2 owner gas2 (snd (fst (fst res))) etxs2 miner to2 lb epoch gl2 in
  fst (fst (fst (fst res2))) = false /\ snd (fst res2) = etxs2 /\ snd (fst (fst res2)) = snd (fst (fst res)).
Proof.
  intros c c2 height height2 owner gas gas2 led etxs etxs2 miner to to2 lb epoch gl gl2. cbn zeta. intros Hok.
  pose proof (call_claim_spec c height owner gas led etxs miner to lb epoch gl) as S. cbn zeta in S.
  destruct (claim_due c height owner gas led miner to lb epoch gl).
  2:{ destruct S as [A _]. congruence. }
  destruct S as [r [_ S]]. destruct (MaxUint16 <? lenN etxs); rewrite S in *; cbn [fst snd] in *; [discriminate|].
  pose proof (call_claim_spec c2 height2 owner gas2 (ldel (owner, miner, lb, epoch) led) etxs2 miner to2 lb epoch gl2) as S2. cbn zeta in S2.
  assert (claim_due c2 height2 owner gas2 (ldel (owner, miner, lb, epoch) led) miner to2 lb epoch gl2 = false) as D2.
  { unfold claim_due. rewrite lget_ldel_same. apply andb_false_r. }
  rewrite D2 in S2. destruct S2 as [A [B [C0 _]]]. auto.
Qed.

(* ---------- side conditions on generated data ---------- *)
Fixpoint strs_eqb' (a b : list string) : bool :=
  match a, b with
  | [], [] => true
  | x :: a', y :: b' => String.eqb x y && strs_eqb' a' b'
  | _, _ => false
  end.
Local Open Scope string_scope.
(* RunLockupContract dispatches on the input length in this order; ClaimCoinbaseLockup: address checks, the read of the
   record, the DELETION, then the index check on the cache, the append, the undo entry *)
Definition lockup_as_modelled : bool :=
  strs_eqb' src_RunLockupContract ["UnwrapQi"; "ClaimQiDeposit"; "ClaimCoinbaseLockup"; "GetLockupData"; "GetLatestLockupData"] &&
  strs_eqb' src_ClaimCoinbaseLockup
    ["Uint32"; "Uint64"; "InternalAndQuaiAddress"; "InternalAddress"; "Uint64"; "IsInQiLedgerScope"; "IsInQuaiLedgerScope";
     "IsInQuaiLedgerScope"; "IsInQiLedgerScope"; "ReadCoinbaseLockup"; "Uint64"; "CoinbaseLockupHash"; "DeleteCoinbaseLockup";
     "lenETXCache"; "appendETXCache"; "NewTx"; "WriteCoinbaseLockupToMap"] &&
  (0 <? CoinbaseEpochBlocks)%N && negb (EtxCoinbaseLockupType =? EtxDefaultType)%N &&
  negb (EtxCoinbaseLockupType =? EtxConversionType)%N && negb (EtxCoinbaseLockupType =? EtxUnwrapQiType)%N.
Local Close Scope string_scope.
Lemma lockup_ok : lockup_as_modelled = true. Proof. vm_compute. reflexivity. Qed.

(* C19 -- size limits the modelled operations guarantee: the hash index never exceeds
   GlobalSlots+GlobalQueue (inside the modelled domain: the pool-full branch of add is
   p_oos), and promoteExecutables caps the queue of every account it processes. *)
From Coq Require Import List NArith PeanoNat Bool Lia ZifyBool ZifyNat ZifyN.
From GQ Require Import Model.C19 Proofs.C19_Lists Proofs.C19_Struct Proofs.C19_Ops Proofs.C19_State.
Import ListNotations.
Local Open Scope N_scope.

Definition all_le (L : N) (p : pool) : Prop := len (map fst (p_all p)) <= L.

Lemma al_same L p q : p_all q = p_all p -> all_le L p -> all_le L q.
Proof. unfold all_le. intros ->. auto. Qed.
Lemma al_removed L n p : all_le L p -> all_le L (removed n p).
Proof. apply al_same. apply removed_fields. Qed.
Lemma filter_len_le {A} (f : A -> bool) (l : list A) : (length (filter f l) <= length l)%nat.
Proof. induction l as [|x r IH]; cbn; [lia|]. destruct (f x); cbn; lia. Qed.
Lemma al_all_remove L x p : all_le L p -> all_le L (all_remove x p).
Proof.
  unfold all_le, len. psimpl. intros H. rewrite map_length in *.
  pose proof (filter_len_le (fun e => negb (tx_eqb x (fst e))) (p_all p)). lia.
Qed.
Lemma al_all_remove_list L D p : all_le L p -> all_le L (all_remove_list D p).
Proof. revert p. induction D as [|x D IH]; intros p H; cbn; [exact H|]. apply IH, al_all_remove, H. Qed.
Lemma al_pn_set_if_lower L a v p : all_le L p -> all_le L (pn_set_if_lower a v p).
Proof. apply al_same. unfold pn_set_if_lower. destruct (_ <=? _); reflexivity. Qed.

Lemma al_promote_tx L c a x p : all_le L p -> all_le L (promote_tx c a x p).
Proof.
  intros H. unfold promote_tx. destruct (l_add _ _ _) as [[pl' [o|]]|].
  - apply (al_same L (removed 1 (all_remove o (set_pend a pl' p)))); [reflexivity|]. apply al_removed, al_all_remove. exact H.
  - exact H.
  - apply al_removed, al_all_remove, H.
Qed.
Lemma al_requeue L c x p : all_le L p -> all_le L (requeue c x p).
Proof.
  intros H. unfold requeue, enqueue_tx. destruct (l_add _ _ _) as [[q' [o|]]|]; cbn [fst]; [|exact H|exact H].
  apply al_removed, al_all_remove. exact H.
Qed.
Lemma al_fold {A} L (f : pool -> A -> pool) l p : (forall x q, all_le L q -> all_le L (f q x)) -> all_le L p -> all_le L (fold_left f l p).
Proof. intros Hf. revert p. induction l as [|x l IH]; intros p H; cbn; [exact H|]. apply IH, Hf, H. Qed.

Lemma al_promote_one L c a p : all_le L p -> all_le L (promote_one c a p).
Proof.
  intros H. unfold promote_one. destruct (aget a (p_queue p)) as [|q0 qr]; [exact H|].
  destruct (l_forward _ _) as [fw q1]. destruct (l_filter _ _ _ _) as [[drops inv] q2].
  destruct (l_ready _ _) as [readies q3]. destruct (l_cap _ _) as [caps q4].
  apply al_removed, al_all_remove_list. apply (al_same L (fold_left (fun s t => promote_tx c a t s) readies (set_queue a q3 (all_remove_list drops (set_queue a q2 (all_remove_list fw (set_queue a q1 p))))))); [reflexivity|].
  apply al_fold; [intros x q Hq; apply al_promote_tx; exact Hq|].
  apply (al_same L (all_remove_list drops (set_queue a q2 (all_remove_list fw (set_queue a q1 p))))); [reflexivity|].
  apply al_all_remove_list. apply (al_same L (all_remove_list fw (set_queue a q1 p))); [reflexivity|]. apply al_all_remove_list. exact H.
Qed.
Lemma al_demote_one L c a p : all_le L p -> all_le L (demote_one c a p).
Proof.
  intros H. unfold demote_one. destruct (l_forward _ _) as [olds l1]. destruct (l_filter _ _ _ _) as [[drops invalids] l2].
  assert (H4 : all_le L (fold_left (fun s t => requeue c t s) invalids (all_remove_list drops (set_pend a l2 (all_remove_list olds (set_pend a l1 p)))))).
  { apply al_fold; [intros x q Hq; apply al_requeue; exact Hq|]. apply al_all_remove_list.
    apply (al_same L (all_remove_list olds (set_pend a l1 p))); [reflexivity|]. apply al_all_remove_list. exact H. }
  destruct l2 as [|y l2']; [exact H4|]. destruct (l_get _ _); [exact H4|].
  apply al_fold; [intros x q Hq; apply al_requeue; exact Hq|]. exact H4.
Qed.
Lemma al_remove_tx L c t ob p : all_le L p -> all_le L (remove_tx c t ob p).
Proof.
  intros H. unfold remove_tx. destruct (negb _); [exact H|].
  assert (H2 : all_le L (if ob then removed 1 (all_remove t p) else all_remove t p)).
  { destruct ob; [apply al_removed|]; apply al_all_remove, H. }
  destruct (l_get _ _).
  - destruct (l_remove_strict _ _) as [invalids pl'].
    apply al_pn_set_if_lower. apply al_fold; [intros x q Hq; apply al_requeue; exact Hq|]. exact H2.
  - exact H2.
Qed.
Lemma al_drop_last L a p : all_le L p -> all_le L (drop_last a p).
Proof.
  intros H. unfold drop_last. destruct (rev _); [exact H|].
  apply al_removed, al_pn_set_if_lower, al_all_remove. exact H.
Qed.

Lemma al_locals_step L l p : all_le L p -> all_le L (let '(p'', m) := remote_to_locals (set_locals l p) in removed m p'').
Proof.
  intros H. unfold remote_to_locals. apply al_removed. unfold all_le in *. psimpl. rewrite map_map. cbn [fst]. exact H.
Qed.

Lemma al_add c t loc p : all_le (c_gslots c + c_gqueue c) p -> all_le (c_gslots c + c_gqueue c) (fst (fst (add c t loc p))).
Proof.
  intros H. unfold add. destruct (all_has t p); [exact H|]. destruct (validate p t); [exact H|].
  destruct (_ <? _) eqn:Efull; [exact H|].
  assert (Hroom : len (map fst (p_all p)) + 1 <= c_gslots c + c_gqueue c) by lia.
  destruct (l_get _ _).
  - destruct (l_add _ _ _) as [[pl' [o|]]|]; cbn [fst]; [| |exact H].
    + unfold all_le in *. rewrite (proj2 (proj2 (same_heap_put _ _ _))). psimpl. cbn [map].
      destruct (removed_fields 1 (all_remove o (set_pend (t_from t) pl' p))) as [_ [_ [C _]]]. rewrite C.
      pose proof (al_all_remove (len (map fst (p_all p))) o p (N.le_refl _)) as X. unfold all_le in X. psimpl.
      unfold len in *. cbn [length]. lia.
    + unfold all_le in *. rewrite (proj2 (proj2 (same_heap_put _ _ _))). psimpl. cbn [map]. unfold len in *. cbn [length]. lia.
  - unfold enqueue_tx. destruct (l_add _ _ _) as [[q' old]|]; [|exact H].
    match goal with |- all_le _ (fst (fst (if ?b then _ else ?p1, _, _))) => assert (H1 : all_le (c_gslots c + c_gqueue c) p1) end.
    { unfold all_le in *. rewrite (proj2 (proj2 (same_heap_put _ _ _))). psimpl. cbn [map]. destruct old as [o|].
      - destruct (removed_fields 1 (all_remove o (set_queue (t_from t) q' p))) as [_ [_ [C _]]]. rewrite C.
        pose proof (al_all_remove (len (map fst (p_all p))) o p (N.le_refl _)) as X. unfold all_le in X. psimpl.
        unfold len in *. cbn [length]. lia.
      - psimpl. unfold len in *. cbn [length]. lia. }
    cbn [fst]. destruct (_ && _); [|exact H1]. apply al_locals_step. exact H1.
Qed.

Lemma al_add_locked c txs loc p : all_le (c_gslots c + c_gqueue c) p -> all_le (c_gslots c + c_gqueue c) (fst (fst (add_locked c txs loc p))).
Proof.
  revert p. induction txs as [|t r IH]; intros p H; cbn; [exact H|].
  pose proof (al_add c t loc p H) as X. destruct (add c t loc p) as [[p1 v] rep]. cbn [fst] in X.
  specialize (IH p1 X). destruct (add_locked c r loc p1) as [[p2 vs] d]. exact IH.
Qed.

Lemma al_fix_nonces L p : all_le L p -> all_le L (fix_nonces p).
Proof.
  unfold fix_nonces. generalize (akeys (p_pend p)) as l. generalize (p_pend p) at 1 as m. intros m l. revert p.
  induction l as [|a l IH]; intros p H; cbn [fold_left]; [exact H|]. cbn beta. apply IH. destruct (rev (aget a m)); exact H.
Qed.

Lemma al_run c rs dirty qo p : all_le (c_gslots c + c_gqueue c) p -> all_le (c_gslots c + c_gqueue c) (run c rs dirty qo p).
Proof.
  intros H. unfold run. set (L := c_gslots c + c_gqueue c) in *. apply al_fix_nonces.
  apply (truncate_queue_pres (all_le L)); [intros t q Hq; apply al_remove_tx; exact Hq|].
  apply (truncate_pending_pres (all_le L)); [intros a q Hq; apply al_drop_last; exact Hq|].
  destruct rs as [r|].
  - apply (al_same L (demote_all c (promote_list c (akeys (p_queue (do_reset c r p))) (do_reset c r p)))); [reflexivity|].
    apply (fold_pres (all_le L) (fun s a => demote_one c a s)); [intros a q Hq; apply al_demote_one; exact Hq|].
    apply (fold_pres (all_le L) (fun s a => promote_one c a s)); [intros a q Hq; apply al_promote_one; exact Hq|].
    unfold do_reset. pose proof (al_add_locked c (reinject r) false (set_pn [] (set_st (r_st r) p)) H) as X.
    destruct (add_locked c (reinject r) false _) as [[p2 vs] d]. exact X.
  - apply (fold_pres (all_le L) (fun s a => promote_one c a s)); [intros a q Hq; apply al_promote_one; exact Hq|exact H].
Qed.

Lemma al_step c p o qo : all_le (c_gslots c + c_gqueue c) p -> all_le (c_gslots c + c_gqueue c) (fst (step c p o qo)).
Proof.
  intros H. destruct o as [loc txs|g|r|]; cbn.
  - unfold add_txs. pose proof (al_add_locked c (filter (fun t => negb (all_has t p)) txs) loc p H) as X.
    destruct (add_locked c _ loc p) as [[p1 vs] d]. cbn [fst] in *. apply al_run. exact X.
  - apply al_run. unfold set_gas_price. destruct (_ <? _); [|exact H]. apply al_removed.
    apply al_fold; [intros x q Hq; apply al_remove_tx; exact Hq|exact H].
  - apply al_run, H.
  - apply al_run, H.
Qed.

Lemma al_run_hist c h p : all_le (c_gslots c + c_gqueue c) p -> all_le (c_gslots c + c_gqueue c) (run_hist c p h).
Proof. revert p. induction h as [|[o qo] h IH]; intros p H; cbn; [exact H|]. apply IH, al_step, H. Qed.

Lemma al_init L pl st : all_le L (init pl st).
Proof. unfold all_le, len. cbn. lia. Qed.

(* promoteExecutables caps the queue of the account it processes *)
Lemma promote_one_queue_cap c a p : len (aget a (p_queue (promote_one c a p))) <= N.max (c_aqueue c) 0 \/ aget a (p_queue p) = [].
Proof.
  unfold promote_one. destruct (aget a (p_queue p)) as [|q0 qr] eqn:Eq; [right; reflexivity|left].
  destruct (l_forward _ _) as [fw q1]. destruct (l_filter _ _ _ _) as [[drops inv] q2].
  destruct (l_ready _ _) as [readies q3].
  pose proof (l_cap_len (c_aqueue c) q3) as Hc. destruct (l_cap (c_aqueue c) q3) as [caps q4]. cbn [snd] in Hc.
  destruct (removed_fields (len fw + len drops + len caps) (all_remove_list caps (set_queue a q4 (fold_left (fun s t => promote_tx c a t s) readies (set_queue a q3 (all_remove_list drops (set_queue a q2 (all_remove_list fw (set_queue a q1 p))))))))) as [_ [E _]].
  rewrite E. rewrite aget_queue_after_drop. lia.
Qed.

(* C08 -- lemmas about Model/C08.v.  The property theorems are restated in Props/C08.v. *)
From Coq Require Import String.
From Coq Require Import List ZArith Bool Lia.
From GQ Require Import Generated.C08Fields Model.C08.
Import ListNotations.
Local Open Scope Z_scope.

(* ------------------------------------------------------------------ generated side conditions *)

Definition mem (s : string) (l : list string) : bool := existsb (String.eqb s) l.
Definition subset (a b : list string) : bool := forallb (fun x => mem x b) a.

(* reviewed exclusion list: the PoW solution fields and the merge-mining proof itself *)
Definition seal_exclusions : list string := ["Nonce"; "MixHash"; "AuxPow"]%string.
Definition struct_caches : list string := ["PowHash"; "PowDigest"]%string.
Definition hdr_struct_caches : list string := ["Hash"; "SealHash"]%string.

(* every wire field of the work object header is either excluded by review or written by SealEncode; what the
   full encoder always writes SealEncode always writes; what it writes after the fork SealEncode writes after the
   fork; no sealed field is conditional on anything but the fork predicate; the exclusions are really excluded *)
Definition seal_covers_all_but_nonce_mix_auxpow : bool :=
  forallb (fun f => mem f seal_exclusions || mem f (seal_fields_always ++ seal_fields_postfork)) (map snd woh_proto_fields)
  && forallb (fun f => mem f seal_exclusions || mem f seal_fields_always) enc_fields_always
  && forallb (fun f => mem f seal_exclusions || mem f (seal_fields_always ++ seal_fields_postfork)) enc_fields_postfork
  && forallb (fun f => negb (mem f (seal_fields_always ++ seal_fields_postfork ++ seal_fields_other))) seal_exclusions
  && match seal_fields_other with [] => true | _ => false end
  && match enc_fields_other with [] => true | _ => false end
  && forallb (fun f => mem f struct_caches || mem f (enc_fields_always ++ enc_fields_postfork)) woh_struct_fields.

(* SealHash hashes SealEncode; the only field it clears is the primary coinbase, only after the fork, and then the
   coinbase bytes are appended to the outer hash *)
Definition seal_hash_coinbase_rebound : bool :=
  seal_hash_uses_seal_encode
  && subset seal_hash_nils ["PrimaryCoinbase"]%string
  && seal_hash_nils_guarded
  && (match seal_hash_nils with [] => true | _ => seal_hash_appends_coinbase end).

(* the body header: Hash() hashes SealEncode() and SealEncode writes every struct field *)
Definition body_header_hash_covers_all_fields : bool :=
  hdr_hash_uses_seal_encode
  && forallb (fun f => mem f hdr_struct_caches || mem f (hdr_seal_fields_always ++ hdr_seal_fields_cond)) hdr_struct_fields
  && match hdr_seal_nils with [] => true | _ => false end.

Definition params_ok : bool :=
  (big2e256 =? 2 ^ 256) && (big2e32 =? 2 ^ 32)
  && (0 <? expected_workshares_per_block)
  && (0 <? workshares_threshold_diff)
  && (0 <? kawpow_fork_block) && (0 <=? kawpow_transition_period)
  && (ravencoin_diff_cutoff_start <? ravencoin_diff_cutoff_end)
  && (ravencoin_diff_cutoff_range =? ravencoin_diff_cutoff_end - ravencoin_diff_cutoff_start)
  && (0 <? ravencoin_diff_percentage)
  && (merkle_size =? 2) && (merkle_nonce =? 0) && (hash_length =? 32)
  && (powid_progpow =? 0) && (powid_kawpow =? 1) && (powid_sha_btc =? 2) && (powid_sha_bch =? 3) && (powid_scrypt =? 4).

Lemma seal_covers_holds : seal_covers_all_but_nonce_mix_auxpow = true.
Proof. vm_compute. reflexivity. Qed.
Lemma seal_hash_coinbase_holds : seal_hash_coinbase_rebound = true.
Proof. vm_compute. reflexivity. Qed.
Lemma body_header_holds : body_header_hash_covers_all_fields = true.
Proof. vm_compute. reflexivity. Qed.
Lemma params_ok_holds : params_ok = true.
Proof. vm_compute. reflexivity. Qed.

Lemma two256_val : two256 = 2 ^ 256.
Proof. vm_compute. reflexivity. Qed.
Lemma two256_pos : 0 < two256.
Proof. rewrite two256_val. lia. Qed.
Lemma big2e32_val : big2e32 = 2 ^ 32.
Proof. vm_compute. reflexivity. Qed.
Lemma ewpb_pos : 0 < expected_workshares_per_block.
Proof. vm_compute. reflexivity. Qed.
Lemma wtd_pos : 0 < workshares_threshold_diff.
Proof. vm_compute. reflexivity. Qed.

(* ------------------------------------------------------------------ arithmetic *)

Lemma go_div_pos : forall x y, 0 < y -> go_div x y = x / y.
Proof. intros x y Hy. unfold go_div. destruct (y <? 0) eqn:E; [apply Z.ltb_lt in E; lia | reflexivity]. Qed.

Lemma le_div_iff : forall h X d, 0 < d -> (h <= X / d <-> h * d <= X).
Proof.
  intros h X d Hd. pose proof (Z.div_mod X d ltac:(lia)) as E.
  pose proof (Z.mod_pos_bound X d Hd) as B. split; intro L; nia.
Qed.

Definition bytes_ok (b : bytes) : Prop := Forall (fun x => 0 <= x < 256) b.

Lemma of_be_acc_bound : forall b acc, bytes_ok b -> 0 <= acc ->
  0 <= fold_left (fun a x => a * 256 + x) b acc < (acc + 1) * 256 ^ Z.of_nat (length b).
Proof.
  induction b as [|x b IH]; intros acc Hb Ha; cbn [fold_left length].
  - change (256 ^ Z.of_nat 0) with 1. lia.
  - inversion Hb as [|? ? Hx Hb']; subst.
    specialize (IH (acc * 256 + x) Hb' ltac:(lia)).
    rewrite Nat2Z.inj_succ, Z.pow_succ_r by lia. nia.
Qed.

Lemma of_be_bound : forall b, bytes_ok b -> 0 <= of_be b < 256 ^ Z.of_nat (length b).
Proof. intros b Hb. unfold of_be. pose proof (of_be_acc_bound b 0 Hb ltac:(lia)). lia. Qed.

Lemma of_be_32_lt_two256 : forall b, bytes_ok b -> length b = 32%nat -> 0 <= of_be b < two256.
Proof.
  intros b Hb Hl. pose proof (of_be_bound b Hb) as B. rewrite Hl in B.
  rewrite two256_val. change (256 ^ Z.of_nat 32) with (2 ^ 256) in B. exact B.
Qed.

(* the acceptance predicate of verifySeal *)
Definition seal_ok (d : Z) (hash : bytes) : Prop := 0 < d /\ of_be hash <= two256 / d.

Lemma verify_seal_ok_iff : forall e h,
  verify_seal e h = SealOk <->
  e_fake e = false /\ eng_err e h = false /\ seal_ok (h_diff h) (eng_hash e h).
Proof.
  intros e h. unfold verify_seal, seal_ok, target.
  destruct (e_fake e); [split; [discriminate | intros [F _]; discriminate]|].
  destruct (h_diff h <=? 0) eqn:D.
  - apply Z.leb_le in D. split; [discriminate | intros (_ & _ & P & _); lia].
  - apply Z.leb_gt in D. destruct (eng_err e h); [split; [discriminate | intros (_ & F & _); discriminate]|].
    rewrite go_div_pos by lia.
    destruct (of_be (eng_hash e h) >? two256 / h_diff h) eqn:G.
    + apply Z.gtb_lt in G. split; [discriminate | intros (_ & _ & _ & L); lia].
    + assert (of_be (eng_hash e h) <= two256 / h_diff h) by (rewrite Z.gtb_ltb in G; apply Z.ltb_ge in G; lia).
      split; [intros _; repeat split; auto; lia | reflexivity].
Qed.

Lemma seal_ok_mul : forall d hash, seal_ok d hash <-> 0 < d /\ of_be hash * d <= two256.
Proof. intros d hash. unfold seal_ok. split; intros [P L]; split; auto; apply (le_div_iff _ _ _ P); exact L. Qed.

Lemma verify_seal_nonpositive : forall e h, e_fake e = false -> h_diff h <= 0 -> verify_seal e h = SealBadDiff.
Proof. intros e h F D. unfold verify_seal. rewrite F. apply Z.leb_le in D. rewrite D. reflexivity. Qed.

Lemma seal_ok_difficulty_one : forall hash, bytes_ok hash -> length hash = 32%nat -> seal_ok 1 hash.
Proof. intros hash Hb Hl. unfold seal_ok. rewrite Z.div_1_r. pose proof (of_be_32_lt_two256 hash Hb Hl). lia. Qed.

Lemma seal_ok_difficulty_2e256 : forall hash, seal_ok two256 hash <-> of_be hash <= 1.
Proof. intros hash. unfold seal_ok. pose proof two256_pos. rewrite Z.div_same by lia. intuition. Qed.

Lemma seal_ok_difficulty_above_2e256 : forall d hash, two256 < d -> (seal_ok d hash <-> of_be hash <= 0).
Proof. intros d hash L. unfold seal_ok. pose proof two256_pos. rewrite Z.div_small by lia. intuition lia. Qed.

Lemma target_antitone_lemma : forall d1 d2, 0 < d1 <= d2 -> two256 / d2 <= two256 / d1.
Proof. intros d1 d2 L. pose proof two256_pos. apply Z.div_le_compat_l; lia. Qed.

Lemma seal_ok_antitone : forall d1 d2 hash, 0 < d1 <= d2 -> seal_ok d2 hash -> seal_ok d1 hash.
Proof. intros d1 d2 hash L [P Q]. split; [lia|]. pose proof (target_antitone_lemma d1 d2 L). lia. Qed.

Lemma seal_ok_monotone : forall d hash hash', of_be hash' <= of_be hash -> seal_ok d hash -> seal_ok d hash'.
Proof. intros d hash hash' L [P Q]. split; [exact P | lia]. Qed.

(* workshare thresholds *)
Definition ws_threshold (d k : Z) : Z := two256 / d * 2 ^ k.

Lemma calc_ws_threshold_spec : forall d k t,
  calc_ws_threshold d k = ThrOk t <-> 0 < k /\ d <> 0 /\ t = go_div two256 d * 2 ^ k.
Proof.
  intros d k t. unfold calc_ws_threshold.
  destruct (k <=? 0) eqn:K; [apply Z.leb_le in K; split; [discriminate | lia]|]. apply Z.leb_gt in K.
  destruct (d =? 0) eqn:D; [apply Z.eqb_eq in D; split; [discriminate | intros (_ & N & _); lia]|]. apply Z.eqb_neq in D.
  split; [intros E; inversion E; auto | intros (_ & _ & ->); reflexivity].
Qed.

Lemma ws_threshold_monotone_k : forall d k1 k2, 0 < d -> 0 <= k1 <= k2 -> ws_threshold d k1 <= ws_threshold d k2.
Proof.
  intros d k1 k2 Hd Hk. unfold ws_threshold. pose proof two256_pos.
  assert (0 <= two256 / d) by (apply Z.div_pos; lia).
  assert (2 ^ k1 <= 2 ^ k2) by (apply Z.pow_le_mono_r; lia). nia.
Qed.

Lemma ws_threshold_antitone_d : forall d1 d2 k, 0 < d1 <= d2 -> 0 <= k -> ws_threshold d2 k <= ws_threshold d1 k.
Proof.
  intros d1 d2 k Hd Hk. unfold ws_threshold. pose proof (target_antitone_lemma d1 d2 Hd).
  assert (0 < 2 ^ k) by (apply Z.pow_pos_nonneg; lia). nia.
Qed.

Lemma ws_threshold_ge_target : forall d k, 0 < d -> 0 <= k -> two256 / d <= ws_threshold d k.
Proof.
  intros d k Hd Hk. unfold ws_threshold. pose proof two256_pos.
  assert (0 <= two256 / d) by (apply Z.div_pos; lia).
  assert (1 <= 2 ^ k) by (pose proof (Z.pow_le_mono_r 2 0 k ltac:(lia) ltac:(lia)); simpl in *; lia). nia.
Qed.

Lemma check_work_threshold_panic_iff : forall e h k,
  check_work_threshold e h k = WPanic <-> 0 < k /\ h_diff h = 0.
Proof.
  intros e h k. unfold check_work_threshold, calc_ws_threshold.
  destruct (k <=? 0) eqn:K; [apply Z.leb_le in K; split; [discriminate | lia]|]. apply Z.leb_gt in K.
  destruct (h_diff h =? 0) eqn:D.
  - apply Z.eqb_eq in D. split; auto.
  - apply Z.eqb_neq in D. destruct (eng_err e h); split; try discriminate; lia.
Qed.

Lemma check_work_threshold_true_iff : forall e h k, 0 < h_diff h ->
  (check_work_threshold e h k = WBool true <->
   0 < k /\ eng_err e h = false /\ of_be (eng_hash e h) <= ws_threshold (h_diff h) k).
Proof.
  intros e h k Hd. unfold check_work_threshold, calc_ws_threshold, ws_threshold.
  destruct (k <=? 0) eqn:K; [apply Z.leb_le in K; split; [discriminate | lia]|]. apply Z.leb_gt in K.
  destruct (h_diff h =? 0) eqn:D; [apply Z.eqb_eq in D; lia|].
  rewrite go_div_pos by lia.
  destruct (eng_err e h); [split; [discriminate | intros (_ & F & _); discriminate]|].
  split.
  - intros E. inversion E as [E']. apply Z.leb_le in E'. auto.
  - intros (_ & _ & L). apply Z.leb_le in L. rewrite L. reflexivity.
Qed.

Lemma seal_implies_threshold : forall e h k, 0 < k -> verify_seal e h = SealOk -> check_work_threshold e h k = WBool true.
Proof.
  intros e h k Hk S. apply verify_seal_ok_iff in S. destruct S as (_ & Er & P & L).
  apply check_work_threshold_true_iff; [exact P|]. repeat split; auto.
  pose proof (ws_threshold_ge_target (h_diff h) k P ltac:(lia)). lia.
Qed.

(* CalculateKawpowShareDiff *)
Definition shares_nonneg (h : hdr) : Prop := 0 <= h_shaC h /\ 0 <= h_shaT h /\ 0 <= h_scrC h /\ 0 <= h_scrT h.

Lemma div_mul_bounds : forall d k n, 0 <= d -> 0 < n -> big2e32 <= k <= n * big2e32 ->
  d / n <= d * big2e32 / k <= d.
Proof.
  intros d k n Hd Hn Hk. rewrite big2e32_val in *.
  assert (P : 0 < 2 ^ 32) by lia.
  split.
  - transitivity (d * 2 ^ 32 / (n * 2 ^ 32)).
    + rewrite Z.div_mul_cancel_r by lia. lia.
    + apply Z.div_le_compat_l; nia.
  - transitivity (d * 2 ^ 32 / 2 ^ 32).
    + apply Z.div_le_compat_l; nia.
    + rewrite Z.div_mul by lia. lia.
Qed.

Lemma ksd_tail : forall d kst, 0 <= d -> kst <= (expected_workshares_per_block + 1) * big2e32 ->
  d / (expected_workshares_per_block + 1) <= (if kst <? big2e32 then d else go_div (d * big2e32) kst) <= d.
Proof.
  intros d kst Hd U. pose proof ewpb_pos as En.
  assert (Q : d / (expected_workshares_per_block + 1) <= d) by (apply Z.div_le_upper_bound; nia).
  destruct (kst <? big2e32) eqn:K; [lia|]. apply Z.ltb_ge in K.
  assert (0 < kst) by (rewrite big2e32_val in K; lia).
  rewrite go_div_pos by assumption.
  apply div_mul_bounds; [lia | lia | split; assumption].
Qed.

Lemma kawpow_share_diff_bounds : forall h,
  kawpow_fork_block <= u64 (h_ptn h) -> 0 <= h_diff h -> shares_nonneg h ->
  h_diff h / (expected_workshares_per_block + 1) <= kawpow_share_diff h <= h_diff h.
Proof.
  intros h Hf Hd (A & B & C & D). unfold kawpow_share_diff. cbv zeta.
  pose proof ewpb_pos as En.
  assert (Q : h_diff h / (expected_workshares_per_block + 1) <= h_diff h)
    by (apply Z.div_le_upper_bound; nia).
  destruct (u64 (h_ptn h) <? kawpow_fork_block) eqn:F; [apply Z.ltb_lt in F; lia|].
  remember (Z.min (h_shaC h) (h_shaT h) + Z.min (h_scrC h) (h_scrT h)) as nonk eqn:En0.
  assert (0 <= nonk) by (subst nonk; lia).
  destruct (expected_workshares_per_block * big2e32 <=? nonk) eqn:M; [lia|]. apply Z.leb_gt in M.
  destruct (h_kawD h) as [kd|]; [|lia].
  destruct (kd <=? 0); [lia|].
  apply ksd_tail; [lia|].
  destruct (ravencoin_diff_cutoff_start <=? _); lia.
Qed.

Lemma kawpow_share_diff_pos : forall h,
  kawpow_fork_block <= u64 (h_ptn h) -> expected_workshares_per_block + 1 <= h_diff h -> shares_nonneg h ->
  0 < kawpow_share_diff h.
Proof.
  intros h Hf Hd Hs. pose proof ewpb_pos.
  pose proof (kawpow_share_diff_bounds h Hf ltac:(lia) Hs) as [L _].
  assert (1 <= h_diff h / (expected_workshares_per_block + 1)) by (apply Z.div_le_lower_bound; lia). lia.
Qed.

Lemma go_div_zero_l : forall k, go_div 0 k = 0.
Proof. intro k. unfold go_div. destruct (k <? 0); rewrite Zdiv_0_l; reflexivity. Qed.

Lemma ksd_diff_zero : forall h, h_diff h = 0 -> kawpow_share_diff h = 0.
Proof.
  intros h D0. unfold kawpow_share_diff. cbv zeta. rewrite D0.
  destruct (u64 (h_ptn h) <? kawpow_fork_block); [reflexivity|].
  destruct (_ <=? _); [reflexivity|]. destruct (h_kawD h) as [kd|]; [|reflexivity].
  destruct (kd <=? 0); [reflexivity|].
  match goal with |- (if ?c then 0 else _) = 0 => destruct c end; [reflexivity|].
  rewrite Z.mul_0_l. apply go_div_zero_l.
Qed.

Lemma check_valid_ws_panic_iff : forall e h,
  check_valid_ws e h = WsPanic <->
  (u64 (h_ptn h) < kawpow_fork_block /\ h_diff h = 0) \/ (kawpow_fork_block <= u64 (h_ptn h) /\ kawpow_share_diff h = 0).
Proof.
  intros e h. unfold check_valid_ws, sub_or_invalid. pose proof wtd_pos as W.
  destruct (u64 (h_ptn h) <? kawpow_fork_block) eqn:F.
  - apply Z.ltb_lt in F.
    destruct (check_work_threshold e h workshares_threshold_diff) as [|[|]] eqn:C1.
    + apply check_work_threshold_panic_iff in C1. intuition.
    + split; [discriminate|]. intros [[_ D]|[? _]]; [|lia].
      assert (P : check_work_threshold e h workshares_threshold_diff = WPanic) by (apply check_work_threshold_panic_iff; auto).
      congruence.
    + destruct (check_work_threshold e h (e_wsthr e)) as [|[|]] eqn:C2.
      * apply check_work_threshold_panic_iff in C2. destruct C2 as [_ D].
        assert (P : check_work_threshold e h workshares_threshold_diff = WPanic) by (apply check_work_threshold_panic_iff; auto).
        congruence.
      * split; [discriminate|]. intros [[_ D]|[? _]]; [|lia].
        assert (P : check_work_threshold e h workshares_threshold_diff = WPanic) by (apply check_work_threshold_panic_iff; auto).
        congruence.
      * split; [discriminate|]. intros [[_ D]|[? _]]; [|lia].
        assert (P : check_work_threshold e h workshares_threshold_diff = WPanic) by (apply check_work_threshold_panic_iff; auto).
        congruence.
  - apply Z.ltb_ge in F.
    destruct (kawpow_share_diff h =? 0) eqn:S.
    + apply Z.eqb_eq in S. split; auto.
    + apply Z.eqb_neq in S.
      assert (ND : h_diff h <> 0) by (intro D0; apply S; apply ksd_diff_zero; exact D0).
      destruct (eng_err e h); [split; [discriminate | intros [[? _]|[_ ?]]; lia]|].
      destruct (of_be (eng_hash e h) <=? go_div two256 (kawpow_share_diff h)); [split; [discriminate | intros [[? _]|[_ ?]]; lia]|].
      destruct (check_work_threshold e h (e_wsthr e)) as [|[|]] eqn:C2.
      * apply check_work_threshold_panic_iff in C2. lia.
      * split; [discriminate | intros [[? _]|[_ ?]]; lia].
      * split; [discriminate | intros [[? _]|[_ ?]]; lia].
Qed.

Lemma check_valid_ws_valid_post : forall e h,
  kawpow_fork_block <= u64 (h_ptn h) -> check_valid_ws e h = WsValid ->
  eng_err e h = false /\ kawpow_share_diff h <> 0 /\ of_be (eng_hash e h) <= go_div two256 (kawpow_share_diff h).
Proof.
  intros e h F V. unfold check_valid_ws, sub_or_invalid in V.
  destruct (u64 (h_ptn h) <? kawpow_fork_block) eqn:E; [apply Z.ltb_lt in E; lia|].
  destruct (kawpow_share_diff h =? 0) eqn:S; [discriminate|]. apply Z.eqb_neq in S.
  destruct (eng_err e h); [discriminate|].
  destruct (of_be (eng_hash e h) <=? go_div two256 (kawpow_share_diff h)) eqn:L.
  - apply Z.leb_le in L. auto.
  - destruct (check_work_threshold e h (e_wsthr e)) as [|[|]]; discriminate.
Qed.

Lemma check_valid_ws_valid_pre : forall e h,
  u64 (h_ptn h) < kawpow_fork_block -> 0 < h_diff h -> check_valid_ws e h = WsValid ->
  eng_err e h = false /\ of_be (eng_hash e h) <= ws_threshold (h_diff h) workshares_threshold_diff.
Proof.
  intros e h F D V. unfold check_valid_ws, sub_or_invalid in V.
  apply Z.ltb_lt in F. rewrite F in V.
  destruct (check_work_threshold e h workshares_threshold_diff) as [|[|]] eqn:C; try discriminate.
  - apply check_work_threshold_true_iff in C; [|exact D]. tauto.
  - destruct (check_work_threshold e h (e_wsthr e)) as [|[|]]; discriminate.
Qed.

(* a sealed block is always at least a valid workshare *)
Lemma sealed_is_valid_ws : forall e h,
  verify_seal e h = SealOk -> shares_nonneg h ->
  (u64 (h_ptn h) < kawpow_fork_block \/ expected_workshares_per_block + 1 <= h_diff h) ->
  check_valid_ws e h = WsValid.
Proof.
  intros e h S Hs Hc. pose proof S as S0. apply verify_seal_ok_iff in S. destruct S as (_ & Er & P & L).
  unfold check_valid_ws.
  destruct (u64 (h_ptn h) <? kawpow_fork_block) eqn:F.
  - rewrite (seal_implies_threshold e h workshares_threshold_diff wtd_pos S0). reflexivity.
  - apply Z.ltb_ge in F. destruct Hc as [Hc|Hc]; [lia|].
    pose proof (kawpow_share_diff_pos h F Hc Hs) as SP.
    pose proof (kawpow_share_diff_bounds h F ltac:(lia) Hs) as [_ SU].
    destruct (kawpow_share_diff h =? 0) eqn:Z0; [apply Z.eqb_eq in Z0; lia|].
    rewrite Er. rewrite go_div_pos by lia.
    assert (two256 / h_diff h <= two256 / kawpow_share_diff h)
      by (pose proof two256_pos; apply Z.div_le_compat_l; lia).
    assert (G : of_be (eng_hash e h) <= two256 / kawpow_share_diff h) by lia.
    apply Z.leb_le in G. rewrite G. reflexivity.
Qed.

(* classification *)
Lemma classify_block_needs_seal : forall e h, classify e h = WsBlock -> seal_err (verify_seal e h) = false.
Proof.
  intros e h C. unfold classify in C.
  assert (V : forall x, check_valid_ws e h = x -> x <> WsBlock).
  { intros x Hx Hb. subst x. unfold check_valid_ws, sub_or_invalid in Hb.
    repeat match type of Hb with context [match ?c with _ => _ end] => destruct c end; discriminate. }
  assert (Dn : forall d, donor_share h d <> WsBlock).
  { intros d. unfold donor_share. destruct d; [|discriminate].
    repeat match goal with |- context [if ?c then _ else _] => destruct c end; discriminate. }
  destruct (negb (activated h) || transition_progpow h).
  - destruct (seal_err (verify_seal e h)); [exfalso; eapply V; eauto | reflexivity].
  - destruct (h_aux h) as [id|]; [|discriminate].
    destruct (id =? powid_kawpow).
    + destruct (seal_err (verify_seal e h)); [exfalso; eapply V; eauto | reflexivity].
    + destruct ((id =? powid_sha_bch) || (id =? powid_sha_btc)); [exfalso; eapply Dn; eauto|].
      destruct (id =? powid_scrypt); [exfalso; eapply Dn; eauto | discriminate].
Qed.

Lemma donor_share_valid : forall h d, donor_share h d = WsValid ->
  exists sd, d = Some sd /\ sd <> 0 /\ of_be (h_donor_pow h) < go_div two256 sd.
Proof.
  intros h d V. unfold donor_share in V. destruct d as [sd|]; [|discriminate].
  destruct (sd =? 0) eqn:Z0; [discriminate|]. apply Z.eqb_neq in Z0.
  destruct (of_be (h_donor_pow h) <? go_div two256 sd) eqn:L; [|discriminate].
  apply Z.ltb_lt in L. eauto.
Qed.

(* ------------------------------------------------------------------ byte-level parsing *)

Lemma bytes_eqb_eq : forall a b, bytes_eqb a b = true <-> a = b.
Proof.
  induction a as [|x a IH]; destruct b as [|y b]; cbn [bytes_eqb]; split; intro E; try discriminate; auto.
  - apply andb_prop in E. destruct E as [E1 E2]. apply Z.eqb_eq in E1. apply IH in E2. congruence.
  - inversion E; subst. rewrite Z.eqb_refl. cbn. apply IH. reflexivity.
Qed.

Lemma parse_push_sound : forall s d r, parse_push s = Some (d, r) ->
  exists op, s = op :: d ++ r /\ op <= 75 /\ length d = Z.to_nat op.
Proof.
  intros s d r P. unfold parse_push in P. destruct s as [|op t]; [discriminate|].
  destruct (op <=? 75) eqn:O; [|discriminate]. apply Z.leb_le in O.
  destruct (length t <? Z.to_nat op)%nat eqn:L; [discriminate|]. apply Nat.ltb_ge in L.
  inversion P; subst. exists op. rewrite firstn_skipn. repeat split; auto.
  apply firstn_length_le. exact L.
Qed.

Lemma parse_commit_sound : forall ss hd pl r2, parse_commit ss = Some (hd, pl, r2) ->
  exists op1, ss = op1 :: hd ++ 44 :: pl ++ r2 /\ (length hd <= 5)%nat /\ length hd = Z.to_nat op1 /\
              length pl = 44%nat /\ firstn 4 pl = magic.
Proof.
  intros ss hd pl r2 P. unfold parse_commit in P. destruct ss as [|b t]; [discriminate|].
  destruct (parse_push (b :: t)) as [[hd' r1]|] eqn:P1; [|discriminate].
  destruct (5 <? length hd')%nat eqn:L5; [discriminate|]. apply Nat.ltb_ge in L5.
  destruct (parse_push r1) as [[pl' r2']|] eqn:P2; [|discriminate].
  destruct (length pl' =? 44)%nat eqn:L44; cbn [negb] in P; [|discriminate]. apply Nat.eqb_eq in L44.
  destruct (bytes_eqb (firstn 4 pl') magic) eqn:M; cbn [negb] in P; [|discriminate]. apply bytes_eqb_eq in M.
  inversion P; subst.
  apply parse_push_sound in P1. destruct P1 as (op1 & E1 & _ & Len1).
  apply parse_push_sound in P2. destruct P2 as (op2 & E2 & _ & Len2).
  assert (op2 = 44) by lia. subst op2.
  exists op1. rewrite E1, E2. repeat split; auto.
Qed.

(* the seal hash reported for a scriptSig is literally present in it: right after the height push, the
   OP_PUSH44 opcode and the merged-mining magic *)
Lemma extract_seal_hash_sound : forall ss h, extract_seal_hash ss = Some h ->
  exists op1 hd sz rest, ss = op1 :: hd ++ 44 :: magic ++ h ++ sz ++ rest /\
    (length hd <= 5)%nat /\ length hd = Z.to_nat op1 /\ length h = 32%nat /\ length sz = 8%nat.
Proof.
  intros ss h E. unfold extract_seal_hash in E.
  destruct (parse_commit ss) as [[[hd pl] r2]|] eqn:P; [|discriminate].
  assert (Eh : h = firstn 32 (skipn 4 pl)) by congruence. clear E. subst h.
  apply parse_commit_sound in P. destruct P as (op1 & Es & L5 & Lh & L44 & M).
  exists op1, hd, (skipn 32 (skipn 4 pl)), r2.
  assert (Epl : pl = magic ++ firstn 32 (skipn 4 pl) ++ skipn 32 (skipn 4 pl)).
  { rewrite firstn_skipn. rewrite <- M. rewrite firstn_skipn. reflexivity. }
  split; [|split; [exact L5|split; [exact Lh|split]]].
  - rewrite Es. rewrite Epl at 1. rewrite <- !app_assoc. reflexivity.
  - rewrite firstn_length, skipn_length. lia.
  - rewrite !skipn_length. lia.
Qed.

Lemma take_le_rest : forall n bs v r, take_le n bs = Some (v, r) -> r = skipn n bs.
Proof. intros n bs v r T. unfold take_le in T. destruct (length bs <? n)%nat; inversion T; reflexivity. Qed.

Lemma read_varint_rest : forall bs v r, read_varint bs = Some (v, r) -> exists j, (1 <= j)%nat /\ r = skipn j bs.
Proof.
  intros bs v r R. unfold read_varint in R. destruct bs as [|b t]; [discriminate|].
  destruct (b =? 253); [apply take_le_rest in R; exists 3%nat; split; [lia | exact R]|].
  destruct (b =? 254); [apply take_le_rest in R; exists 5%nat; split; [lia | exact R]|].
  destruct (b =? 255); [apply take_le_rest in R; exists 9%nat; split; [lia | exact R]|].
  inversion R; subst. exists 1%nat. split; [lia | reflexivity].
Qed.

Lemma skipn_plus : forall (A : Type) (b a : nat) (l : list A), skipn a (skipn b l) = skipn (b + a) l.
Proof.
  induction b as [|b IH]; intros a l; cbn [Nat.add skipn]; [reflexivity|].
  destruct l as [|x l]; [destruct a; reflexivity | apply IH].
Qed.

(* the scriptSig reported for a coinbase transaction is a literal segment of it, at least 42 bytes in *)
Lemma extract_script_sig_sound : forall tx ss, extract_script_sig tx = Some ss ->
  exists pre post, tx = pre ++ ss ++ post /\ (ss <> [] -> (42 <= length pre)%nat).
Proof.
  intros tx ss E. unfold extract_script_sig in E.
  destruct (read_varint (skipn 4 tx)) as [[c r1]|] eqn:R1; [|discriminate].
  destruct (read_varint (skipn 36 r1)) as [[n r2]|] eqn:R2; [|discriminate].
  apply read_varint_rest in R1. destruct R1 as (j1 & J1 & E1).
  apply read_varint_rest in R2. destruct R2 as (j2 & J2 & E2).
  assert (Er2 : r2 = skipn (4 + j1 + 36 + j2) tx).
  { rewrite E2, E1. rewrite !skipn_plus. f_equal. lia. }
  destruct (n =? 0).
  - inversion E; subst ss. exists tx, []. split; [rewrite app_nil_r; reflexivity | intro N; congruence].
  - destruct (len r2 <? n) eqn:L; [discriminate|]. inversion E; subst ss.
    exists (firstn (4 + j1 + 36 + j2) tx), (skipn (Z.to_nat n) r2). split.
    + rewrite firstn_skipn. rewrite Er2 at 1. rewrite firstn_skipn. reflexivity.
    + intro NE. rewrite firstn_length.
      assert (length tx > 4 + j1 + 36 + j2 \/ length tx <= 4 + j1 + 36 + j2)%nat as [G|G] by lia; [lia|].
      exfalso. apply NE. rewrite Er2. rewrite skipn_all2 by lia. apply firstn_nil.
Qed.

Lemma coinbase_commitment_is_in_tx : forall tx ss h,
  extract_script_sig tx = Some ss -> extract_seal_hash ss = Some h ->
  exists pre post, tx = pre ++ magic ++ h ++ post /\ (44 <= length pre)%nat /\ length h = 32%nat.
Proof.
  intros tx ss h E1 E2.
  apply extract_seal_hash_sound in E2. destruct E2 as (op1 & hd & sz & rest & Es & _ & _ & Lh & _).
  apply extract_script_sig_sound in E1. destruct E1 as (pre & post & Et & Lp).
  assert (NE : ss <> []) by (rewrite Es; discriminate). specialize (Lp NE).
  exists (pre ++ op1 :: hd ++ [44]), (sz ++ rest ++ post). repeat split; auto.
  - rewrite Et, Es. cbn [app]. rewrite <- !app_assoc. cbn [app]. rewrite <- !app_assoc. reflexivity.
  - rewrite app_length. cbn [length]. rewrite app_length. cbn [length]. lia.
Qed.

Lemma validate_prevout_sound : forall tx, validate_prevout tx = true ->
  exists c r1, read_varint (skipn 4 tx) = Some (c, r1) /\ c = 1 /\ (32 <= length r1)%nat /\
               firstn 32 r1 = zeros 32.
Proof.
  intros tx V. unfold validate_prevout in V.
  destruct (read_varint (skipn 4 tx)) as [[c r1]|]; [|discriminate].
  destruct (c =? 1) eqn:C; cbn [negb] in V; [|discriminate]. apply Z.eqb_eq in C.
  destruct (length r1 <? 32)%nat eqn:L; [discriminate|]. apply Nat.ltb_ge in L.
  destruct (all_zero (firstn 32 r1)) eqn:Z0; cbn [negb] in V; [|discriminate].
  exists c, r1. repeat split; auto.
  assert (G : forall l, all_zero l = true -> l = zeros (length l)).
  { unfold all_zero, zeros. induction l as [|x l IH]; cbn [forallb length repeat]; intro A; [reflexivity|].
    apply andb_prop in A. destruct A as [A1 A2]. apply Z.eqb_eq in A1. subst x. f_equal. apply IH. exact A2. }
  apply G in Z0. rewrite firstn_length_le in Z0 by lia. exact Z0.
Qed.

(* ------------------------------------------------------------------ merkle binding *)

Definition collision (H : bytes -> bytes) : Prop := exists a b, a <> b /\ H a = H b.

Lemma norm32_length : forall b, length (norm32 b) = 32%nat.
Proof. intros b. unfold norm32, zeros. rewrite firstn_length, app_length, repeat_length. lia. Qed.

Lemma app_inv_len : forall (a b c d : bytes), length b = length d -> a ++ b = c ++ d -> a = c /\ b = d.
Proof.
  intros a b c d L E.
  assert (La : length a = length c).
  { apply (f_equal (@length Z)) in E. rewrite !app_length in E. lia. }
  revert c La E. induction a as [|x a IH]; intros [|y c] La E; cbn in *; try discriminate; auto.
  inversion E; subst. destruct (IH c ltac:(lia) H1) as [-> ->]. auto.
Qed.

Section Merkle.
  Variable H : bytes -> bytes.

  Lemma merkle_from_snoc : forall br c s, merkle_from H c (br ++ [s]) = H (merkle_from H c br ++ norm32 s).
  Proof. intros br c s. unfold merkle_from. rewrite fold_left_app. reflexivity. Qed.

  (* same length branches: equal roots force equal starts and equal (normalised) siblings, or exhibit a collision *)
  Lemma merkle_from_inj : forall br1 br2 c1 c2, length br1 = length br2 ->
    merkle_from H c1 br1 = merkle_from H c2 br2 ->
    (c1 = c2 /\ map norm32 br1 = map norm32 br2) \/ collision H.
  Proof.
    induction br1 as [|s1 br1 IH] using rev_ind; intros br2 c1 c2 L E.
    - destruct br2; [|discriminate]. left. auto.
    - destruct br2 as [|x br2'] using rev_ind; [rewrite app_length in L; cbn in L; lia|]. clear IHbr2'.
      rewrite !merkle_from_snoc in E. rewrite !app_length in L. cbn in L.
      destruct (list_eq_dec Z.eq_dec (merkle_from H c1 br1 ++ norm32 s1) (merkle_from H c2 br2' ++ norm32 x)) as [Q|Q].
      + apply app_inv_len in Q; [|rewrite !norm32_length; reflexivity]. destruct Q as [Q1 Q2].
        destruct (IH br2' c1 c2 ltac:(lia) Q1) as [[-> M]|C]; [|right; exact C].
        left. split; [reflexivity|]. rewrite !map_app. cbn [map]. rewrite M, Q2. reflexivity.
      + right. exists (merkle_from H c1 br1 ++ norm32 s1), (merkle_from H c2 br2' ++ norm32 x). auto.
  Qed.

  (* different lengths: the shorter walk's start is an inner node of the longer one *)
  Lemma merkle_from_prefix : forall br1 br2 c1 c2, (length br1 <= length br2)%nat ->
    merkle_from H c1 br1 = merkle_from H c2 br2 ->
    (exists pre, c1 = merkle_from H c2 pre /\ (length pre + length br1 = length br2)%nat) \/ collision H.
  Proof.
    induction br1 as [|s1 br1 IH] using rev_ind; intros br2 c1 c2 L E.
    - left. exists br2. cbn in *. split; [exact E | lia].
    - destruct br2 as [|x br2'] using rev_ind; [rewrite app_length in L; cbn in L; lia|]. clear IHbr2'.
      rewrite !merkle_from_snoc in E. rewrite !app_length in L. cbn in L.
      destruct (list_eq_dec Z.eq_dec (merkle_from H c1 br1 ++ norm32 s1) (merkle_from H c2 br2' ++ norm32 x)) as [Q|Q].
      + apply app_inv_len in Q; [|rewrite !norm32_length; reflexivity]. destruct Q as [Q1 _].
        destruct (IH br2' c1 c2 ltac:(lia) Q1) as [(pre & P1 & P2)|C]; [|right; exact C].
        left. exists pre. split; [exact P1|]. rewrite !app_length. cbn. lia.
      + right. exists (merkle_from H c1 br1 ++ norm32 s1), (merkle_from H c2 br2' ++ norm32 x). auto.
  Qed.

  Lemma merkle_root_binding_same_len : forall id tx1 tx2 br1 br2,
    powid_kawpow <= id <= powid_scrypt -> length br1 = length br2 ->
    merkle_root H id tx1 br1 = merkle_root H id tx2 br2 ->
    (tx1 = tx2 /\ map norm32 br1 = map norm32 br2) \/ collision H.
  Proof.
    intros id tx1 tx2 br1 br2 Hid L E. unfold merkle_root in E.
    replace ((powid_kawpow <=? id) && (id <=? powid_scrypt)) with true in E
      by (symmetry; apply andb_true_intro; split; apply Z.leb_le; lia).
    destruct (merkle_from_inj br1 br2 (H tx1) (H tx2) L E) as [[Q M]|C]; [|right; exact C].
    destruct (list_eq_dec Z.eq_dec tx1 tx2) as [T|T]; [left; auto | right; exists tx1, tx2; auto].
  Qed.

  Lemma merkle_from_is_hash : forall pre c, exists y, merkle_from H (H c) pre = H y.
  Proof.
    induction pre as [|p pre IH] using rev_ind; intro c.
    - exists c. reflexivity.
    - rewrite merkle_from_snoc. eexists. reflexivity.
  Qed.

  (* any two branches: equal roots force the same coinbase, or a collision, or one coinbase is itself an inner node
     (a hash output followed by a 32-byte sibling) *)
  Lemma merkle_root_binding : forall id tx1 tx2 br1 br2,
    powid_kawpow <= id <= powid_scrypt ->
    merkle_root H id tx1 br1 = merkle_root H id tx2 br2 ->
    tx1 = tx2 \/ collision H \/
    (exists y s, tx1 = H y ++ norm32 s) \/ (exists y s, tx2 = H y ++ norm32 s).
  Proof.
    intros id tx1 tx2 br1 br2 Hid E. unfold merkle_root in E.
    replace ((powid_kawpow <=? id) && (id <=? powid_scrypt)) with true in E
      by (symmetry; apply andb_true_intro; split; apply Z.leb_le; lia).
    assert (G : forall ta tb ba bb, (length ba <= length bb)%nat ->
      merkle_from H (H ta) ba = merkle_from H (H tb) bb ->
      ta = tb \/ collision H \/ (exists y s, ta = H y ++ norm32 s)).
    { intros ta tb ba bb L Eq.
      destruct (merkle_from_prefix ba bb (H ta) (H tb) L Eq) as [(pre & P1 & P2)|C]; [|auto].
      destruct pre as [|p pre'] using rev_ind.
      - cbn in P1. destruct (list_eq_dec Z.eq_dec ta tb) as [T|T]; [auto | right; left; exists ta, tb; auto].
      - clear IHpre'. rewrite merkle_from_snoc in P1.
        destruct (list_eq_dec Z.eq_dec ta (merkle_from H (H tb) pre' ++ norm32 p)) as [T|T].
        + right; right. destruct (merkle_from_is_hash pre' tb) as (y & Ey). rewrite Ey in T. eauto.
        + right; left. exists ta, (merkle_from H (H tb) pre' ++ norm32 p). auto. }
    destruct (Nat.le_ge_cases (length br1) (length br2)) as [L|L].
    - destruct (G tx1 tx2 br1 br2 L E) as [?|[?|?]]; auto.
    - symmetry in E. destruct (G tx2 tx1 br2 br1 L E) as [?|[?|?]]; auto.
  Qed.
End Merkle.

(* ------------------------------------------------------------------ the AuxPoW section *)

Section Aux.
  Variable H : bytes -> bytes.

  Definition script_of (a : auxpow) : bytes := match extract_script_sig (a_tx a) with Some s => s | None => [] end.

  Definition commits_to (a : auxpow) (seal : bytes) : Prop :=
    let id := a_powid a in
    ((id = powid_kawpow \/ id = powid_sha_btc \/ id = powid_sha_bch) -> extract_seal_hash (script_of a) = Some seal) /\
    (id = powid_scrypt ->
       (32 <= length (a_aux2 a))%nat /\ all_zero (firstn 32 (a_aux2 a)) = false /\
       extract_seal_hash (script_of a) = Some (aux_merkle_root H (firstn 32 (a_aux2 a)) seal) /\
       extract_size_nonce (script_of a) = Some (merkle_size, merkle_nonce)).

  Lemma auxpow_section_accept : forall se ia time seal a,
    auxpow_section H se ia time seal a = Accept ->
    (exists st, extract_sig_time (script_of a) = Some st /\ st <= a_donor_time a /\ st <= time) /\
    commits_to a seal /\
    merkle_root H (a_powid a) (a_tx a) (a_branch a) = a_donor_root a /\
    validate_prevout (a_tx a) = true /\
    (a_sig_ok a = true \/ (se = true /\ is_sha_or_scrypt (a_powid a) = true /\ ia = true)).
  Proof.
    intros se ia time seal a A. unfold auxpow_section in A. fold (script_of a) in A.
    destruct (extract_sig_time (script_of a)) as [st|] eqn:ST; [|discriminate].
    destruct (a_donor_time a <? st) eqn:T1; [discriminate|]. apply Z.ltb_ge in T1.
    destruct (time <? st) eqn:T2; [discriminate|]. apply Z.ltb_ge in T2.
    destruct (extract_seal_hash (script_of a)) as [cs|] eqn:CS; [|discriminate].
    assert (AC : forall v, (if negb (bytes_eqb (merkle_root H (a_powid a) (a_tx a) (a_branch a)) (a_donor_root a)) then Reject
                 else if negb (validate_prevout (a_tx a)) then Reject
                 else if negb (a_sig_ok a) && negb (se && is_sha_or_scrypt (a_powid a) && ia) then Reject else Accept) = v ->
                 v = Accept ->
                 merkle_root H (a_powid a) (a_tx a) (a_branch a) = a_donor_root a /\ validate_prevout (a_tx a) = true /\
                 (a_sig_ok a = true \/ (se = true /\ is_sha_or_scrypt (a_powid a) = true /\ ia = true))).
    { intros v Ev Hv. subst v.
      destruct (bytes_eqb (merkle_root H (a_powid a) (a_tx a) (a_branch a)) (a_donor_root a)) eqn:M; cbn [negb] in Hv; [|discriminate].
      apply bytes_eqb_eq in M.
      destruct (validate_prevout (a_tx a)); cbn [negb] in Hv; [|discriminate].
      destruct (a_sig_ok a); cbn [negb andb] in Hv.
      - split; [exact M | split; [reflexivity | left; reflexivity]].
      - destruct se, (is_sha_or_scrypt (a_powid a)), ia; cbn in Hv; try discriminate.
        split; [exact M | split; [reflexivity | right; auto]]. }
    split; [exists st; auto|].
    unfold commits_to.
    destruct ((a_powid a =? powid_kawpow) || (a_powid a =? powid_sha_btc) || (a_powid a =? powid_sha_bch)) eqn:K.
    - destruct (bytes_eqb seal cs) eqn:SE; cbn [negb] in A; [|discriminate]. apply bytes_eqb_eq in SE. subst cs.
      destruct (AC _ eq_refl A) as (M & V & S).
      split; [|split; [exact M | split; [exact V | exact S]]].
      split.
      + intros _. assumption || reflexivity.
      + intro Sc. exfalso. rewrite Sc in K. vm_compute in K. discriminate.
    - apply orb_false_iff in K. destruct K as [K K3]. apply orb_false_iff in K. destruct K as [K1 K2].
      apply Z.eqb_neq in K1, K2, K3.
      destruct (a_powid a =? powid_scrypt) eqn:SC.
      + destruct (length (a_aux2 a) <? 32)%nat eqn:L32; [discriminate|]. apply Nat.ltb_ge in L32.
        destruct (all_zero (firstn 32 (a_aux2 a))) eqn:AZ; [discriminate|].
        destruct (bytes_eqb (aux_merkle_root H (firstn 32 (a_aux2 a)) seal) cs) eqn:AR; cbn [negb] in A; [|discriminate].
        apply bytes_eqb_eq in AR. subst cs.
        destruct (extract_size_nonce (script_of a)) as [[sz nn]|] eqn:SN; [|discriminate].
        destruct (sz =? merkle_size) eqn:S1; cbn [negb] in A; [|discriminate]. apply Z.eqb_eq in S1.
        destruct (nn =? merkle_nonce) eqn:S2; cbn [negb] in A; [|discriminate]. apply Z.eqb_eq in S2. subst sz nn.
        destruct (AC _ eq_refl A) as (M & V & S).
        split; [|split; [exact M | split; [exact V | exact S]]].
        split.
        * intros [?|[?|?]]; lia.
        * intros _. split; [assumption || reflexivity | split; [assumption || reflexivity | split; assumption || reflexivity]].
      + apply Z.eqb_neq in SC. destruct (AC _ eq_refl A) as (M & V & S).
        split; [|split; [exact M | split; [exact V | exact S]]].
        split; [intros [?|[?|?]]; lia | intro; lia].
  Qed.

  (* Since fix commit f0c87e08 the AuxPoW section is total: a short auxpow2 is rejected, nothing panics.
     (Before the fix a Scrypt share with fewer than 32 bytes of auxpow2 made common.Hash(AuxPow2()) panic.) *)
  Lemma auxpow_section_total_lemma : forall se ia time seal a,
    auxpow_section H se ia time seal a <> Panic.
  Proof.
    intros se ia time seal a. unfold auxpow_section.
    repeat match goal with
    | |- context [match ?x with _ => _ end] => destruct x
    end; discriminate.
  Qed.

  Lemma verify_header_accept : forall i, verify_header_c08 H i = Accept ->
    v_hh i = v_bh i /\ pow_id_valid (v_ptn i) (option_map a_powid (v_aux i)) = true /\
    forall a, v_aux i = Some a -> kawpow_fork_block <= u64 (v_ptn i) ->
      a_powid a = powid_kawpow /\
      extract_seal_hash (script_of a) = Some (v_seal i) /\
      merkle_root H (a_powid a) (a_tx a) (a_branch a) = a_donor_root a /\
      validate_prevout (a_tx a) = true /\ a_sig_ok a = true /\
      (exists st, extract_sig_time (script_of a) = Some st /\ st <= a_donor_time a /\ st <= v_time i).
  Proof.
    intros i A. unfold verify_header_c08 in A.
    destruct (bytes_eqb (v_hh i) (v_bh i)) eqn:HB; cbn [negb] in A; [|discriminate]. apply bytes_eqb_eq in HB.
    destruct (pow_id_valid (v_ptn i) (option_map a_powid (v_aux i))) eqn:PV; cbn [negb] in A; [|discriminate].
    split; [exact HB | split; [reflexivity|]]. intros a Ea F. rewrite Ea in A, PV. cbn [option_map] in PV.
    apply Z.leb_le in F. rewrite F in A.
    assert (K : a_powid a = powid_kawpow).
    { unfold pow_id_valid in PV. cbn [is_some] in PV.
      destruct (u64 (v_ptn i) <? kawpow_fork_block); cbn [andb] in PV; [discriminate|].
      rewrite F in PV. cbn [andb] in PV.
      destruct (a_powid a =? powid_kawpow) eqn:Q; cbn [negb] in PV; [apply Z.eqb_eq in Q; exact Q | discriminate]. }
    apply auxpow_section_accept in A. destruct A as (T & C & M & V & S).
    destruct C as [C _].
    split; [exact K | split; [apply C; left; exact K | split; [exact M | split; [exact V | split; [|exact T]]]]].
    destruct S as [S|(S & _)]; [exact S | discriminate].
  Qed.

  Lemma verify_uncle_accept : forall e h sb ia time seal aux,
    verify_uncle_c08 H e h sb ia time seal aux = Accept ->
    (classify e h = WsValid \/ (classify e h = WsBlock /\ sb = false)) /\
    forall a, aux = Some a -> activated h = true ->
      commits_to a seal /\
      merkle_root H (a_powid a) (a_tx a) (a_branch a) = a_donor_root a /\
      validate_prevout (a_tx a) = true /\
      (a_sig_ok a = true \/ (is_sha_or_scrypt (a_powid a) = true /\ ia = true)).
  Proof.
    intros e h sb ia time seal aux A. unfold verify_uncle_c08 in A.
    destruct (classify e h) eqn:C; try discriminate.
    - split; [left; reflexivity|]. intros a Ea Ac. subst aux.
      destruct (negb (pow_id_valid_ws (h_ptn h) (h_aux h))); [discriminate|]. cbn [negb andb] in A.
      rewrite Ac in A. apply auxpow_section_accept in A. destruct A as (_ & Cm & M & V & S).
      split; [exact Cm | split; [exact M | split; [exact V|]]]. destruct S as [S|(_ & S1 & S2)]; auto.
    - destruct (negb (pow_id_valid (h_ptn h) (h_aux h))); [discriminate|]. cbn [negb andb] in A.
      destruct sb; [discriminate|]. split; [right; auto|]. intros a Ea Ac. subst aux.
      rewrite Ac in A. apply auxpow_section_accept in A. destruct A as (_ & Cm & M & V & S).
      split; [exact Cm | split; [exact M | split; [exact V|]]]. destruct S as [S|(_ & S1 & S2)]; auto.
  Qed.

  (* no accepted seal can be reused: two headers with different seal hashes cannot both be accepted against the same
     donor header (same merkle root), unless double-SHA256 collides.  [Hlen]: the hash outputs 32 bytes. *)
  Lemma accepted_tx_long : forall tx ss h, extract_script_sig tx = Some ss -> extract_seal_hash ss = Some h ->
    (76 < length tx)%nat.
  Proof.
    intros tx ss h E1 E2. destruct (coinbase_commitment_is_in_tx tx ss h E1 E2) as (pre & post & Et & Lp & Lh).
    rewrite Et. rewrite !app_length. cbn [magic length]. lia.
  Qed.

  Lemma seal_not_reusable : forall se1 se2 ia1 ia2 t1 t2 seal1 seal2 a1 a2,
    (forall x, length (H x) = 32%nat) ->
    a_powid a1 = a_powid a2 ->
    (a_powid a1 = powid_kawpow \/ a_powid a1 = powid_sha_btc \/ a_powid a1 = powid_sha_bch) ->
    a_donor_root a1 = a_donor_root a2 ->
    auxpow_section H se1 ia1 t1 seal1 a1 = Accept ->
    auxpow_section H se2 ia2 t2 seal2 a2 = Accept ->
    seal1 = seal2 \/ collision H.
  Proof.
    intros se1 se2 ia1 ia2 t1 t2 seal1 seal2 a1 a2 Hlen Eid K Er A1 A2.
    apply auxpow_section_accept in A1. apply auxpow_section_accept in A2.
    destruct A1 as (_ & [C1 _] & M1 & _ & _). destruct A2 as (_ & [C2 _] & M2 & _ & _).
    specialize (C1 K). rewrite Eid in K. specialize (C2 K).
    assert (Hid : powid_kawpow <= a_powid a2 <= powid_scrypt) by (destruct K as [-> | [-> | ->]]; vm_compute; split; discriminate).
    rewrite Eid in M1. rewrite <- Er in M2. rewrite <- M2 in M1.
    assert (Long : forall a s, extract_seal_hash (script_of a) = Some s -> (76 < length (a_tx a))%nat).
    { intros a s Es. unfold script_of in Es. destruct (extract_script_sig (a_tx a)) as [ss|] eqn:Q.
      - eapply accepted_tx_long; eauto.
      - cbn in Es. discriminate. }
    destruct (merkle_root_binding H (a_powid a2) (a_tx a1) (a_tx a2) (a_branch a1) (a_branch a2) Hid M1)
      as [T|[C|[(y & s & E)|(y & s & E)]]].
    - left. unfold script_of in C1, C2. rewrite T in C1. rewrite C1 in C2. inversion C2. reflexivity.
    - right. exact C.
    - exfalso. pose proof (Long a1 seal1 C1) as L. rewrite E in L. rewrite app_length, Hlen, norm32_length in L. lia.
    - exfalso. pose proof (Long a2 seal2 C2) as L. rewrite E in L. rewrite app_length, Hlen, norm32_length in L. lia.
  Qed.
End Aux.

(* ------------------------------------------------------------------ identity hash of a header without AuxPoW *)

Section WoHash.
  (* blake3 (trusted primitive) *)
  Variable B3 : bytes -> bytes.
  (* wo.go WoProgpowHash: blake3(mixHash | sealHash | nonce) with 32 + 32 + 8 bytes *)
  Definition wo_progpow_hash (mix seal nonce : bytes) : bytes := B3 (mix ++ seal ++ nonce).

  Lemma wo_progpow_hash_binds : forall m1 s1 n1 m2 s2 n2,
    length m1 = 32%nat -> length m2 = 32%nat -> length s1 = 32%nat -> length s2 = 32%nat ->
    wo_progpow_hash m1 s1 n1 = wo_progpow_hash m2 s2 n2 ->
    (m1 = m2 /\ s1 = s2 /\ n1 = n2) \/ collision B3.
  Proof.
    intros m1 s1 n1 m2 s2 n2 L1 L2 L3 L4 E. unfold wo_progpow_hash in E.
    destruct (list_eq_dec Z.eq_dec (m1 ++ s1 ++ n1) (m2 ++ s2 ++ n2)) as [Q|Q].
    - left.
      assert (F : forall (a b c d : bytes), length a = length c -> a ++ b = c ++ d -> a = c /\ b = d).
      { induction a as [|x a IH]; intros b [|y c] d L Eq; cbn in *; try discriminate; auto.
        inversion Eq; subst. destruct (IH b c d ltac:(lia) H1) as [-> ->]. auto. }
      destruct (F m1 (s1 ++ n1) m2 (s2 ++ n2) ltac:(lia) Q) as [-> Q2].
      destruct (F s1 n1 s2 n2 ltac:(lia) Q2) as [-> ->]. auto.
    - right. exists (m1 ++ s1 ++ n1), (m2 ++ s2 ++ n2). auto.
  Qed.
End WoHash.

(* ------------------------------------------------------------------ refutation witnesses (replayed on the real code by the harness corpus) *)

Definition env0 : env := mkEnv false 4 [1] false [1] false.

Lemma workshare_threshold_total_refuted : exists e h k, check_work_threshold e h k = WPanic.
Proof.
  exists env0, (mkHdr 10 0 None None 0 0 None 0 0 None []), workshares_threshold_diff.
  vm_compute. reflexivity.
Qed.

Lemma valid_workshare_total_refuted :
  exists e h, 0 < h_diff h /\ kawpow_fork_block <= h_ptn h /\ check_valid_ws e h = WsPanic.
Proof.
  (* difficulty 5 after the fork: the share difficulty 5*2^32/(9*2^32) rounds to 0 and 2^256 is divided by it *)
  exists env0, (mkHdr (kawpow_fork_block + 5) 5 None (Some 1) 0 0 (Some 1) 0 0 (Some (2 ^ 60)) []).
  vm_compute. repeat split; discriminate || reflexivity.
Qed.

(* an SHA share with an out-of-scope primary coinbase is accepted by the VerifyUncles rules without a valid
   template signature *)
Definition unsigned_share_tx : bytes :=
  [1;0;0;0] ++ [1] ++ zeros 32 ++ [255;255;255;255] ++ [53] ++
  ([1;7] ++ [44] ++ magic ++ repeat 171 32 ++ [1;0;0;0;0;0;0;0] ++ [0] ++ [4;9;0;0;0]) ++ [255;255;255;255] ++ [0;0;0;0;0].

Lemma uncle_signature_required_refuted :
  exists H e h time seal a,
    a_sig_ok a = false /\ verify_uncle_c08 H e h true true time seal (Some a) = Accept.
Proof.
  exists (fun _ => zeros 32), env0,
    (mkHdr (kawpow_fork_block + kawpow_transition_period + 1) 1000 (Some powid_sha_btc) (Some 1) 0 0 (Some 1) 0 0 (Some 1) [5]),
    9, (repeat 171 32),
    (mkAux powid_sha_btc unsigned_share_tx 9 (zeros 32) [] [] false).
  vm_compute. split; reflexivity.
Qed.

(* ------------------------------------------------------------------ statements in the shape used by Props/C08.v *)

Lemma seal_accept_iff_le_target_lemma : forall e h, e_fake e = false ->
  (verify_seal e h = SealOk <->
   eng_err e h = false /\ 0 < h_diff h /\ of_be (eng_hash e h) <= two256 / h_diff h).
Proof.
  intros e h F. rewrite verify_seal_ok_iff. unfold seal_ok. intuition.
Qed.

Lemma seal_accept_iff_product_lemma : forall e h, e_fake e = false ->
  (verify_seal e h = SealOk <->
   eng_err e h = false /\ 0 < h_diff h /\ of_be (eng_hash e h) * h_diff h <= two256).
Proof.
  intros e h F. rewrite verify_seal_ok_iff. rewrite seal_ok_mul. intuition.
Qed.

Lemma seal_difficulty_one_lemma : forall e h, e_fake e = false -> eng_err e h = false -> h_diff h = 1 ->
  bytes_ok (eng_hash e h) -> length (eng_hash e h) = 32%nat -> verify_seal e h = SealOk.
Proof.
  intros e h F Er D B L. apply verify_seal_ok_iff. repeat split; auto; rewrite D.
  - lia.
  - apply seal_ok_difficulty_one; assumption.
Qed.

Lemma seal_difficulty_huge_lemma : forall e h, e_fake e = false -> eng_err e h = false -> bytes_ok (eng_hash e h) ->
  (h_diff h = two256 -> (verify_seal e h = SealOk <-> of_be (eng_hash e h) <= 1)) /\
  (two256 < h_diff h -> (verify_seal e h = SealOk <-> of_be (eng_hash e h) = 0)).
Proof.
  intros e h F Er B. pose proof (of_be_bound _ B) as [N _]. split; intro D; rewrite verify_seal_ok_iff.
  - rewrite D, seal_ok_difficulty_2e256. intuition.
  - rewrite (seal_ok_difficulty_above_2e256 _ _ D). intuition lia.
Qed.

Definition with_diff (h : hdr) (d : Z) : hdr :=
  mkHdr (h_ptn h) d (h_aux h) (h_shaD h) (h_shaC h) (h_shaT h) (h_scrD h) (h_scrC h) (h_scrT h) (h_kawD h) (h_donor_pow h).
Definition with_hashes (e : env) (a b : bytes) : env := mkEnv (e_fake e) (e_wsthr e) a (e_err0 e) b (e_err1 e).

Lemma target_antitone_full : forall d1 d2, 0 < d1 <= d2 ->
  target d2 <= target d1 /\
  forall e h, verify_seal e (with_diff h d2) = SealOk -> verify_seal e (with_diff h d1) = SealOk.
Proof.
  intros d1 d2 L. split.
  - unfold target. rewrite !go_div_pos by lia. apply target_antitone_lemma. exact L.
  - intros e h S. apply verify_seal_ok_iff in S. apply verify_seal_ok_iff.
    destruct S as (F & Er & P). repeat split; auto.
    + eapply seal_ok_antitone in P; [destruct P; eassumption | exact L].
    + eapply seal_ok_antitone in P; [destruct P; eassumption | exact L].
Qed.

Lemma seal_monotone_lemma : forall e h a b a' b',
  of_be a' <= of_be a -> of_be b' <= of_be b ->
  verify_seal (with_hashes e a b) h = SealOk -> verify_seal (with_hashes e a' b') h = SealOk.
Proof.
  intros e h a b a' b' La Lb S. apply verify_seal_ok_iff in S. apply verify_seal_ok_iff.
  destruct S as (F & Er & P). repeat split; auto.
  - destruct P; assumption.
  - unfold eng_hash, with_hashes in *. cbn [e_h0 e_h1] in *. destruct P as [_ P].
    destruct (engine_is_kawpow h); lia.
Qed.

Lemma workshare_threshold_monotone_lemma : forall d d' k k', 0 < d <= d' -> 0 <= k <= k' ->
  ws_threshold d' k <= ws_threshold d k' /\
  (forall t t', calc_ws_threshold d' k = ThrOk t -> calc_ws_threshold d k' = ThrOk t' -> t <= t').
Proof.
  intros d d' k k' Ld Lk.
  assert (A : ws_threshold d' k <= ws_threshold d k').
  { transitivity (ws_threshold d k); [apply ws_threshold_antitone_d; lia | apply ws_threshold_monotone_k; lia]. }
  split; [exact A|]. intros t t' E1 E2.
  apply calc_ws_threshold_spec in E1. apply calc_ws_threshold_spec in E2.
  destruct E1 as (_ & _ & ->). destruct E2 as (_ & _ & ->).
  rewrite !go_div_pos by lia. exact A.
Qed.

Lemma valid_share_needs_work_lemma : forall e h,
  check_valid_ws e h = WsValid -> 0 < h_diff h -> shares_nonneg h ->
  eng_err e h = false /\
  (u64 (h_ptn h) < kawpow_fork_block ->
     of_be (eng_hash e h) <= two256 / h_diff h * 2 ^ workshares_threshold_diff) /\
  (kawpow_fork_block <= u64 (h_ptn h) ->
     exists sd, sd = kawpow_share_diff h /\ 0 < sd /\ h_diff h / (expected_workshares_per_block + 1) <= sd <= h_diff h /\
                of_be (eng_hash e h) <= two256 / sd).
Proof.
  intros e h V D Hs.
  destruct (Z.lt_ge_cases (u64 (h_ptn h)) kawpow_fork_block) as [F|F].
  - destruct (check_valid_ws_valid_pre e h F D V) as [Er L]. split; [exact Er|]. split; [intros _; exact L | lia].
  - destruct (check_valid_ws_valid_post e h F V) as (Er & NZ & L). split; [exact Er|]. split; [lia|].
    intros _. pose proof (kawpow_share_diff_bounds h F ltac:(lia) Hs) as B.
    assert (0 <= h_diff h / (expected_workshares_per_block + 1)) by (pose proof ewpb_pos; apply Z.div_pos; lia).
    exists (kawpow_share_diff h). split; [reflexivity|]. split; [lia|]. split; [exact B|].
    rewrite go_div_pos in L by lia. exact L.
Qed.

Lemma donor_share_class_lemma : forall e h id,
  activated h = true -> transition_progpow h = false -> h_aux h = Some id ->
  id = powid_sha_btc \/ id = powid_sha_bch \/ id = powid_scrypt ->
  classify e h = WsValid ->
  exists sd, (if id =? powid_scrypt then h_scrD h else h_shaD h) = Some sd /\ sd <> 0 /\
             of_be (h_donor_pow h) < go_div two256 sd.
Proof.
  intros e h id A T Ha Hid C. unfold classify in C. rewrite A, T, Ha in C. cbn [negb orb] in C.
  destruct Hid as [-> | [-> | ->]]; vm_compute (_ =? _) in C; cbn [orb] in C;
    apply donor_share_valid in C; vm_compute (_ =? _); exact C.
Qed.

Lemma merkle_branch_binding_lemma : forall (H : bytes -> bytes) id tx1 tx2 br,
  powid_kawpow <= id <= powid_scrypt ->
  merkle_root H id tx1 br = merkle_root H id tx2 br -> tx1 <> tx2 -> collision H.
Proof.
  intros H id tx1 tx2 br Hid E N.
  destruct (merkle_root_binding_same_len H id tx1 tx2 br br Hid eq_refl E) as [[T _]|C]; [contradiction | exact C].
Qed.

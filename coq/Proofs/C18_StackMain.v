(* C18 -- StackTrie statements exported to Props/C18.v: the streaming hasher against ANY history of the
   full trie, and DeriveSha's key sequence fed to it. *)
From Coq Require Import List NArith Bool Arith Lia ZifyBool ZifyNat ZifyN.
From GQ Require Import Lib.Key Model.C18 Proofs.C18_Base Proofs.C18_Ext Proofs.C18_Insert
  Proofs.C18_Delete Proofs.C18_History Proofs.C18_Merkle Proofs.C18_Derive Proofs.C18_Main
  Proofs.C18_Stack.
Import ListNotations.

Lemma okkv_wf_hist l : Forall okkv l -> wf_hist l.
Proof. unfold wf_hist. apply Forall_impl. intros kv [H _]. exact H. Qed.

(* the StackTrie fed an ascending list stands for the tree that ANY history with the same final content
   builds in the full trie: same root under every hash function *)
Lemma stack_vs_any_history l h :
  Forall okkv l -> chain_div (map fst l) = true -> wf_hist h ->
  (forall k, wf_bytes k -> apply_hist (fun _ => []) l k = apply_hist (fun _ => []) h k) ->
  exists s t, st_run SE l = Some s /\ run Nil h = Some t /\ to_node s = t /\
    forall (A : Type) (root : node -> A), root (to_node s) = root t.
Proof.
  intros Hok Hch Hh Hsame.
  destruct (stack_equals_trie_lemma l Hok Hch) as (s & Hs & Hl).
  destruct (history_independent_any_root l h (okkv_wf_hist l Hok) Hh Hsame)
    as (t1 & t2 & H1 & H2 & He & _).
  rewrite Hl in H1. injection H1 as <-.
  exists s, t2. repeat split; auto. intros A root. rewrite He. reflexivity.
Qed.

Local Open Scope N_scope.

(* DeriveSha: the (key, item) list it feeds its hasher *)
Definition derive_list (item : N -> list N) (n : N) : list (list N * list N) :=
  map (fun i => (rlp_uint i, item i)) (derive_order n).

Lemma derive_div_upto_bound :
  forallb (fun n => chain_div (map rlp_uint (derive_order n))) (nrange 0 (S (N.to_nat asc_bound))) = true
  /\ forallb (fun i => wf_bytesb (rlp_uint i)) (nrange 0 (S (N.to_nat asc_bound))) = true.
Proof. vm_compute. split; reflexivity. Qed.

Lemma derive_stack_lemma (item : N -> list N) n :
  n <= asc_bound -> (forall i, i < n -> item i <> []) ->
  exists s, st_run SE (derive_list item n) = Some s /\
            run Nil (derive_list item n) = Some (to_node s).
Proof.
  intros Hn Hitem. destruct derive_div_upto_bound as [Hc Hw]. rewrite forallb_forall in Hc, Hw.
  apply stack_equals_trie_lemma.
  - unfold derive_list. apply Forall_forall. intros kv Hin.
    apply in_map_iff in Hin as (i & <- & Hi). apply derive_order_in in Hi.
    split; cbn [fst snd].
    + assert (Hb : wf_bytesb (rlp_uint i) = true) by (apply Hw; apply in_nrange; lia).
      unfold wf_bytesb in Hb. rewrite forallb_forall in Hb. apply Forall_forall.
      intros b Hbin. apply N.ltb_lt. apply Hb. exact Hbin.
    + apply Hitem. exact Hi.
  - unfold derive_list. rewrite map_map. cbn [fst].
    replace (map (fun x : N => rlp_uint x) (derive_order n)) with (map rlp_uint (derive_order n)) by reflexivity.
    apply Hc. apply in_nrange. lia.
Qed.

(* C18 -- trie/stacktrie.go: the StackTrie model (Model/C18.v:st_insert) refines trie.go:insert, never
   panics on key lists whose consecutive keys diverge upwards (ascending and prefix-free), hence
   stands for exactly the trie the full implementation builds from the same list. *)
From Coq Require Import List NArith Bool Arith Lia ZifyBool ZifyNat ZifyN.
From GQ Require Import Lib.Key Model.C18 Proofs.C18_Base Proofs.C18_Ext Proofs.C18_Insert.
Import ListNotations.

(* ---------- nested induction over stack nodes ---------- *)
Section SInd.
  Variable P : snode -> Prop.
  Hypothesis HE : P SE.
  Hypothesis HL : forall k v, P (SL k v).
  Hypothesis HX : forall k c, P c -> P (SX k c).
  Hypothesis HB : forall cs, Forall P cs -> P (SB cs).
  Hypothesis HH : forall g, P (SH g).
  Fixpoint snode_ind' (s : snode) : P s :=
    match s with
    | SE => HE
    | SL k v => HL k v
    | SX k c => HX k c (snode_ind' c)
    | SB cs => HB cs ((fix go (l : list snode) : Forall P l :=
                         match l with
                         | [] => Forall_nil _
                         | x :: r => Forall_cons _ (snode_ind' x) (go r)
                         end) cs)
    | SH g => HH g
    end.
End SInd.

(* ---------- list surgery ---------- *)
Lemma schild_app_spec {A} (f : snode -> A) d cs i :
  schild_app f d cs i = match nth_error cs i with Some x => f x | None => d end.
Proof. revert i. induction cs as [|x cs IH]; intros [|i]; cbn; auto. Qed.

Lemma sset_nth_length cs i n : length (sset_nth cs i n) = length cs.
Proof. revert i. induction cs as [|x cs IH]; intros [|i]; cbn; auto. Qed.

Lemma nth_error_sset_nth_eq cs i n : i < length cs -> nth_error (sset_nth cs i n) i = Some n.
Proof. revert i. induction cs as [|x cs IH]; intros [|i] H; cbn in *; try lia; auto. apply IH. lia. Qed.

Lemma nth_error_sset_nth_neq cs i j n : i <> j -> nth_error (sset_nth cs i n) j = nth_error cs j.
Proof.
  revert i j. induction cs as [|x cs IH]; intros [|i] [|j] H; cbn; auto; try congruence.
Qed.

Lemma map_sset_nth cs i x :
  map to_node (sset_nth cs i x) = set_nth (map to_node cs) i (to_node x).
Proof. revert i. induction cs as [|y cs IH]; intros [|i]; cbn; auto. f_equal. apply IH. Qed.

Lemma set_nth_app_l (l r : list node) i x : i < length l -> set_nth (l ++ r) i x = set_nth l i x ++ r.
Proof.
  revert i. induction l as [|y l IH]; intros [|i] H; cbn in *; try lia; auto. f_equal. apply IH. lia.
Qed.

(* ---------- hashing does not change the trie a StackTrie stands for ---------- *)
Lemma to_node_st_hash s : to_node (st_hash s) = to_node s.
Proof. destruct s; reflexivity. Qed.

Lemma hash_last_spec l :
  map to_node (fst (hash_last l)) = map to_node l /\ length (fst (hash_last l)) = length l.
Proof.
  induction l as [|x r [IH1 IH2]]; cbn [hash_last]; [auto|].
  destruct (hash_last r) as [r' found]. cbn [fst] in *.
  destruct found; cbn [fst map length]; [rewrite IH1, IH2; auto|].
  destruct (is_se x); cbn [fst map length]; [auto|]. rewrite to_node_st_hash. auto.
Qed.

Lemma hash_elder_map cs i : map to_node (hash_elder cs i) = map to_node cs.
Proof.
  unfold hash_elder. rewrite map_app. rewrite (proj1 (hash_last_spec _)), <- map_app, firstn_skipn.
  reflexivity.
Qed.

Lemma hash_elder_length cs i : length (hash_elder cs i) = length cs.
Proof.
  unfold hash_elder. rewrite app_length, (proj2 (hash_last_spec _)), <- app_length, firstn_skipn.
  reflexivity.
Qed.

Lemma hash_elder_nth cs i j : i <= j -> nth_error (hash_elder cs i) j = nth_error cs j.
Proof.
  intros Hij. unfold hash_elder.
  rewrite <- (firstn_skipn i cs) at 3.
  pose proof (proj2 (hash_last_spec (firstn i cs))) as Hl.
  assert (Hf : length (firstn i cs) <= i) by (rewrite firstn_length; lia).
  rewrite !nth_error_app2 by lia. rewrite Hl. reflexivity.
Qed.

Lemma map_sempty16 : map to_node sempty16 ++ [Nil] = empty17.
Proof. reflexivity. Qed.

Lemma to_node_sbranch2 a b n o :
  (a < 16)%N -> (b < 16)%N ->
  to_node (sbranch2 a b n o) = branch2 a b (to_node n) (to_node o).
Proof.
  intros Ha Hb. unfold sbranch2, branch2. cbn [to_node]. rewrite !map_sset_nth.
  rewrite <- map_sempty16.
  rewrite <- !set_nth_app_l; [reflexivity| |].
  - cbn. lia.
  - rewrite set_nth_length. cbn. lia.
Qed.

Lemma mk_short_snoc k x c : mk_short (k ++ [x]) c = Short (k ++ [x]) c.
Proof. destruct k; reflexivity. Qed.

Lemma to_node_split p B :
  to_node (if Nat.eqb (length p) 0 then B else SX p B) = mk_short p (to_node B).
Proof. destruct p; reflexivity. Qed.

(* ---------- T: one StackTrie insertion is one trie insertion ---------- *)
Lemma st_insert_sim v : forall s key s',
  st_insert s key v = Some s' ->
  insert (to_node s) (key ++ [16%N]) (Val v) = Some (to_node s').
Proof.
  intros s. induction s as [|k v0|k c IH|cs IH|g] using snode_ind'; intros key s' Hs.
  - (* empty *) cbn in Hs. injection Hs as <-. cbn [to_node]. destruct key; reflexivity.
  - (* leaf *)
    cbn [st_insert] in Hs.
    destruct (prefix_len_spec key k) as (p & ra & rb & -> & -> & Hl & Hd). rewrite Hl in Hs.
    destruct (Nat.leb (length (p ++ rb)) (length p)) eqn:Hle; [discriminate|].
    apply Nat.leb_gt in Hle. rewrite app_length in Hle.
    destruct rb as [|y rb]; [cbn in Hle; lia|]. rewrite nth_error_app_mid in Hs.
    destruct ra as [|x ra]; [rewrite app_nil_r, (proj2 (nth_error_None p (length p))) in Hs by lia; discriminate|].
    rewrite nth_error_app_mid in Hs.
    destruct (N.ltb y 16 && N.ltb x 16) eqn:Hg; [|discriminate].
    apply andb_true_iff in Hg. destruct Hg as [Hy Hx]. apply N.ltb_lt in Hy, Hx.
    rewrite !skipn_S_app_mid, firstn_app_len in Hs. injection Hs as <-.
    cbn [to_node]. rewrite <- !app_assoc. cbn [app].
    rewrite insert_Short_split by (try lia; congruence).
    rewrite !mk_short_snoc.
    rewrite to_node_split, to_node_sbranch2 by lia. reflexivity.
  - (* extension *)
    cbn [st_insert] in Hs.
    destruct (prefix_len_spec key k) as (p & ra & rb & -> & -> & Hl & Hd). rewrite Hl in Hs.
    destruct (Nat.eqb (length p) (length (p ++ rb))) eqn:He.
    + apply Nat.eqb_eq in He. rewrite app_length in He.
      destruct rb as [|y rb]; [|cbn in He; lia]. rewrite skipn_app_len in Hs.
      destruct (st_insert c ra v) as [c'|] eqn:Hc; [|discriminate]. injection Hs as <-.
      apply IH in Hc. cbn [to_node]. rewrite app_nil_r, <- app_assoc.
      rewrite insert_Short_match
        by (intros E; apply (f_equal (@length N)) in E; rewrite !app_length in E; cbn in E; lia).
      rewrite Hc. reflexivity.
    + apply Nat.eqb_neq in He. rewrite app_length in He.
      destruct rb as [|y rb]; [cbn in He; lia|]. rewrite nth_error_app_mid in Hs.
      destruct ra as [|x ra]; [rewrite app_nil_r, (proj2 (nth_error_None p (length p))) in Hs by lia; discriminate|].
      rewrite nth_error_app_mid in Hs.
      destruct (N.ltb y 16 && N.ltb x 16) eqn:Hg; [|discriminate].
      apply andb_true_iff in Hg. destruct Hg as [Hy Hx]. apply N.ltb_lt in Hy, Hx.
      rewrite !skipn_S_app_mid, firstn_app_len in Hs. injection Hs as <-.
      cbn [to_node]. rewrite <- !app_assoc. cbn [app].
      rewrite insert_Short_split by (try lia; congruence).
      rewrite mk_short_snoc.
      assert (Hn : to_node (st_hash (if Nat.ltb (length p) (length (p ++ y :: rb) - 1) then SX rb c else c))
                   = mk_short rb (to_node c)).
      { rewrite to_node_st_hash, app_length. cbn [length].
        destruct rb as [|z rb]; cbn [length mk_short].
        - replace (Nat.ltb (length p) (length p + 1 - 1)) with false by (symmetry; apply Nat.ltb_ge; lia).
          reflexivity.
        - replace (Nat.ltb (length p) (length p + S (S (length rb)) - 1)) with true
            by (symmetry; apply Nat.ltb_lt; lia).
          reflexivity. }
      rewrite to_node_split, to_node_sbranch2 by lia. rewrite Hn. reflexivity.
  - (* branch *)
    cbn [st_insert] in Hs. destruct key as [|c rest]; [discriminate|].
    destruct (Nat.ltb (N.to_nat c) 16) eqn:Hc; [|discriminate].
    rewrite schild_app_spec in Hs.
    destruct (nth_error cs (N.to_nat c)) as [x|] eqn:Hx; [|discriminate].
    destruct (st_insert x rest v) as [nn|] eqn:Hi; [|discriminate]. injection Hs as <-.
    rewrite Forall_forall in IH. specialize (IH x (nth_error_In _ _ Hx) rest nn Hi).
    cbn [to_node app]. rewrite insert_Full.
    assert (Hlen : N.to_nat c < length (map to_node cs)).
    { rewrite map_length. apply nth_error_Some. congruence. }
    rewrite nth_error_app1 by exact Hlen. rewrite (map_nth_error to_node _ _ Hx), IH.
    rewrite map_sset_nth, hash_elder_map, set_nth_app_l by exact Hlen. reflexivity.
  - (* hashed *) discriminate.
Qed.

(* ---------- T: no panic when the new key diverges upwards from the last one ---------- *)
(* [on_spine s last]: the key inserted last runs along the rightmost open path of s: nothing on it is
   hashed and every branch on it has nothing right of it. *)
Inductive on_spine : snode -> hkey -> Prop :=
| OS_L k v : on_spine (SL k v) k
| OS_X k c rest : on_spine c rest -> on_spine (SX k c) (k ++ rest)
| OS_B cs i rest x :
    (i < 16)%N -> length cs = 16 -> nth_error cs (N.to_nat i) = Some x -> on_spine x rest ->
    (forall j y, N.to_nat i < j -> nth_error cs j = Some y -> y = SE) ->
    on_spine (SB cs) (i :: rest).

Definition nib (k : hkey) : Prop := Forall (fun x => (x < 16)%N) k.

Lemma div_lt_spec a b : div_lt a b = true ->
  exists p x ra y rb, a = p ++ x :: ra /\ b = p ++ y :: rb /\ (x < y)%N.
Proof.
  revert b. induction a as [|x a IH]; intros [|y b] H; cbn in H; try discriminate.
  destruct (N.eqb_spec x y) as [->|Hn].
  - destruct (IH b H) as (p & x' & ra & y' & rb & -> & -> & Hlt).
    exists (y :: p), x', ra, y', rb. auto.
  - apply N.ltb_lt in H. exists [], x, a, y, b. auto.
Qed.

Lemma div_lt_app_l k rest key : div_lt (k ++ rest) key = true ->
  (exists key', key = k ++ key' /\ div_lt rest key' = true) \/
  (exists p x ra y rb, k = p ++ x :: ra /\ key = p ++ y :: rb /\ (x < y)%N).
Proof.
  revert key. induction k as [|c k IH]; intros key H.
  - left. exists key. auto.
  - destruct key as [|d key]; [discriminate|]. cbn in H.
    destruct (N.eqb_spec c d) as [->|Hn].
    + destruct (IH key H) as [(key' & -> & Hd)|(p & x & ra & y & rb & -> & -> & Hlt)].
      * left. exists key'. auto.
      * right. exists (d :: p), x, ra, y, rb. auto.
    + apply N.ltb_lt in H. right. exists [], c, k, d, key. auto.
Qed.

Lemma nib_mid p x r : nib (p ++ x :: r) -> (x < 16)%N.
Proof. intros H. apply Forall_app in H. destruct H as [_ H]. inversion H. assumption. Qed.

Lemma nib_app_r p r : nib (p ++ r) -> nib r.
Proof. intros H. apply Forall_app in H. apply H. Qed.

Lemma nth_error_sempty16 j y : nth_error sempty16 j = Some y -> y = SE.
Proof.
  intros H. apply nth_error_In in H. unfold sempty16 in H. apply repeat_spec in H. exact H.
Qed.

(* the branch both split cases build has the new leaf on its spine *)
Lemma on_spine_sbranch2 x y n rb v :
  (x < y)%N -> (y < 16)%N ->
  on_spine (sbranch2 x y n (SL rb v)) (y :: rb).
Proof.
  intros Hlt Hy. unfold sbranch2.
  apply OS_B with (x := SL rb v); auto.
  - rewrite !sset_nth_length. reflexivity.
  - apply nth_error_sset_nth_eq. rewrite sset_nth_length. cbn. lia.
  - constructor.
  - intros j z Hj Hz. rewrite !nth_error_sset_nth_neq in Hz by lia.
    eapply nth_error_sempty16; eauto.
Qed.

Lemma split_result_on_spine p B y rb :
  on_spine B (y :: rb) ->
  on_spine (if Nat.eqb (length p) 0 then B else SX p B) (p ++ y :: rb).
Proof.
  intros HB. destruct p as [|c p]; cbn [length Nat.eqb app]; [exact HB|].
  change (c :: p ++ y :: rb) with ((c :: p) ++ y :: rb). constructor. exact HB.
Qed.

Lemma st_insert_ascending v : forall s last, on_spine s last ->
  forall key, div_lt last key = true -> nib last -> nib key ->
  exists s', st_insert s key v = Some s' /\ on_spine s' key.
Proof.
  intros s last Hos. induction Hos as [k v0|k c rest Hc IH|cs i rest x Hi Hlen Hx Hxs IH Hright];
    intros key Hd Hnl Hnk.
  - (* leaf *)
    destruct (div_lt_spec _ _ Hd) as (p & a & ra & b & rb & -> & -> & Hlt).
    pose proof (nib_mid _ _ _ Hnl) as Ha. pose proof (nib_mid _ _ _ Hnk) as Hb.
    cbn [st_insert].
    rewrite (prefix_len_app p (b :: rb) (a :: ra)) by (cbn; lia).
    replace (Nat.leb (length (p ++ a :: ra)) (length p)) with false
      by (symmetry; apply Nat.leb_gt; rewrite app_length; cbn; lia).
    rewrite !nth_error_app_mid.
    replace (N.ltb a 16 && N.ltb b 16) with true
      by (symmetry; apply andb_true_iff; split; apply N.ltb_lt; assumption).
    rewrite !skipn_S_app_mid, firstn_app_len.
    eexists. split; [reflexivity|].
    apply split_result_on_spine. apply on_spine_sbranch2; assumption.
  - (* extension *)
    destruct (div_lt_app_l _ _ _ Hd) as [(key' & -> & Hd')|(p & a & ra & b & rb & -> & -> & Hlt)].
    + destruct (IH key' Hd' (nib_app_r _ _ Hnl) (nib_app_r _ _ Hnk)) as (c' & Hc' & Hos').
      cbn [st_insert].
      replace (prefix_len (k ++ key') k) with (length k).
      * rewrite Nat.eqb_refl, skipn_app_len, Hc'. eexists. split; [reflexivity|].
        constructor. exact Hos'.
      * symmetry. rewrite <- (app_nil_r k) at 2. apply prefix_len_app. destruct key'; exact I.
    + rewrite <- app_assoc in Hnl. cbn [app] in Hnl.
      pose proof (nib_mid _ _ _ Hnl) as Ha. pose proof (nib_mid _ _ _ Hnk) as Hb.
      cbn [st_insert].
      rewrite (prefix_len_app p (b :: rb) (a :: ra)) by (cbn; lia).
      replace (Nat.eqb (length p) (length (p ++ a :: ra))) with false
        by (symmetry; apply Nat.eqb_neq; rewrite app_length; cbn; lia).
      rewrite !nth_error_app_mid.
      replace (N.ltb a 16 && N.ltb b 16) with true
        by (symmetry; apply andb_true_iff; split; apply N.ltb_lt; assumption).
      rewrite !skipn_S_app_mid, firstn_app_len.
      eexists. split; [reflexivity|].
      apply split_result_on_spine. apply on_spine_sbranch2; assumption.
  - (* branch *)
    destruct key as [|j key']; [cbn in Hd; discriminate|].
    assert (Hj : (j < 16)%N) by (inversion Hnk; assumption).
    assert (Hnr : nib rest) by (inversion Hnl; assumption).
    assert (Hnk' : nib key') by (inversion Hnk; assumption).
    cbn [st_insert].
    replace (Nat.ltb (N.to_nat j) 16) with true by (symmetry; apply Nat.ltb_lt; lia).
    rewrite schild_app_spec. cbn [div_lt] in Hd.
    destruct (N.eqb_spec i j) as [E|Hn].
    + subst j. rewrite Hx.
      destruct (IH key' Hd Hnr Hnk') as (x' & Hx' & Hos').
      rewrite Hx'. eexists. split; [reflexivity|].
      apply OS_B with (x := x'); auto.
      * rewrite sset_nth_length, hash_elder_length. exact Hlen.
      * apply nth_error_sset_nth_eq. rewrite hash_elder_length. lia.
      * intros j' y Hj' Hy. rewrite nth_error_sset_nth_neq, hash_elder_nth in Hy by lia.
        eapply Hright; eauto.
    + apply N.ltb_lt in Hd.
      destruct (nth_error cs (N.to_nat j)) as [y|] eqn:Hy;
        [|apply nth_error_None in Hy; lia].
      assert (y = SE) by (eapply Hright; [|exact Hy]; lia). subst y.
      cbn [st_insert]. eexists. split; [reflexivity|].
      apply OS_B with (x := SL key' v); auto.
      * rewrite sset_nth_length, hash_elder_length. exact Hlen.
      * apply nth_error_sset_nth_eq. rewrite hash_elder_length. lia.
      * constructor.
      * intros j' z Hj' Hz. rewrite nth_error_sset_nth_neq, hash_elder_nth in Hz by lia.
        eapply Hright; [|exact Hz]. lia.
Qed.

(* ---------- byte keys ---------- *)
Lemma hex_nibbles k : hex k = nibbles k ++ [16%N].
Proof. induction k as [|b k IH]; cbn [hex nibbles app]; [reflexivity|]. rewrite IH. reflexivity. Qed.

Lemma nib_nibbles k : wf_bytes k -> nib (nibbles k).
Proof.
  induction 1 as [|b k Hb _ IH]; cbn [nibbles]; [constructor|].
  constructor; [|constructor; [|exact IH]].
  - apply N.div_lt_upper_bound; lia.
  - apply N.mod_lt. lia.
Qed.

Lemma div_lt_nibbles a b :
  wf_bytes a -> wf_bytes b -> div_lt a b = true -> div_lt (nibbles a) (nibbles b) = true.
Proof.
  revert b. induction a as [|x a IH]; intros [|y b] Ha Hb H; cbn in H; try discriminate.
  inversion Ha as [|? ? Hx Ha']; inversion Hb as [|? ? Hy Hb']; subst.
  cbn [nibbles div_lt].
  destruct (N.eqb_spec x y) as [E|Hn].
  - subst y. rewrite !N.eqb_refl. auto.
  - apply N.ltb_lt in H.
    pose proof (N.div_mod x 16 ltac:(lia)) as D1. pose proof (N.div_mod y 16 ltac:(lia)) as D2.
    pose proof (N.mod_lt x 16 ltac:(lia)) as M1. pose proof (N.mod_lt y 16 ltac:(lia)) as M2.
    destruct (N.eqb_spec (x / 16) (y / 16)) as [E|E].
    + destruct (N.eqb_spec (x mod 16) (y mod 16)) as [E2|E2]; [lia|]. apply N.ltb_lt. lia.
    + apply N.ltb_lt. lia.
Qed.

(* ---------- T: a whole list ---------- *)
Definition okkv (kv : list N * list N) : Prop := wf_bytes (fst kv) /\ snd kv <> [].

Lemma st_run_from_spine : forall l s lastk,
  on_spine s (nibbles lastk) -> wf_bytes lastk -> Forall okkv l ->
  chain_div (lastk :: map fst l) = true ->
  exists s', st_run s l = Some s' /\ run (to_node s) l = Some (to_node s').
Proof.
  induction l as [|[k v] l IH]; intros s lastk Hos Hw Hok Hch.
  - exists s. split; reflexivity.
  - inversion Hok as [|? ? [Hk Hv] Hok']; subst. cbn [fst snd] in Hk, Hv.
    cbn [map fst chain_div] in Hch. apply andb_true_iff in Hch. destruct Hch as [Hd Hch].
    destruct (st_insert_ascending v s _ Hos (nibbles k) (div_lt_nibbles _ _ Hw Hk Hd)
                (nib_nibbles _ Hw) (nib_nibbles _ Hk)) as (s1 & Hs1 & Hos1).
    pose proof (st_insert_sim v s _ _ Hs1) as Hsim.
    destruct (IH s1 k Hos1 Hk Hok' Hch) as (s' & Hr & Ht).
    exists s'. cbn [st_run run]. unfold st_update, update.
    destruct v as [|b v]; [congruence|]. cbn [is_empty].
    rewrite Hs1, hex_nibbles, Hsim. auto.
Qed.

Lemma stack_equals_trie_lemma l :
  Forall okkv l -> chain_div (map fst l) = true ->
  exists s, st_run SE l = Some s /\ run Nil l = Some (to_node s).
Proof.
  destruct l as [|[k v] l]; intros Hok Hch.
  - exists SE. split; reflexivity.
  - inversion Hok as [|? ? [Hk Hv] Hok']; subst. cbn [fst snd] in Hk, Hv.
    cbn [map fst] in Hch.
    destruct (st_run_from_spine l (SL (nibbles k) v) k (OS_L _ _) Hk Hok' Hch) as (s' & Hr & Ht).
    exists s'. cbn [st_run run]. unfold st_update, update.
    destruct v as [|b v]; [congruence|]. cbn [is_empty st_insert].
    rewrite hex_nibbles. split; [exact Hr|].
    replace (insert Nil (nibbles k ++ [16%N]) (Val (b :: v)))
      with (Some (to_node (SL (nibbles k) (b :: v)))) by (cbn [to_node]; destruct (nibbles k); reflexivity).
    exact Ht.
Qed.

(* the order is needed: returning to a subtree that was left (its root is hashed by then) panics with
   "trying to insert into hash", a repeated key and a key that extends another panic too *)
Lemma stack_order_needed :
  st_run SE [([16], [1]); ([32], [1]); ([17], [2])]%N = None /\
  st_run SE [([1], [1]); ([1], [2])]%N = None /\
  st_run SE [([1], [1]); ([1; 0], [2])]%N = None.
Proof. vm_compute. repeat split; reflexivity. Qed.

(* C01 -- final lemmas: the properties of Proofs/C01_Ledger.v transported to (db, batch)
   views with pending tracking, the untracked counterexample, worker and pool statements. *)
From Coq Require Import List NArith Bool Lia ZifyBool ZifyN.
From GQ Require Import Lib.Key Lib.SMap Generated.C01Params Model.C01 Proofs.C01_View Proofs.C01_Sim
     Proofs.C01_Steps Proofs.C01_Ledger Proofs.C01_Den Proofs.C01_Worker Proofs.C01_Worker2.
Import ListNotations.
Local Open Scope N_scope.

(* ------------------------------------------------------------------ one transaction on a tracking view *)

Definition flat (b : bst (S:=view)) : bst (S:=ledger) :=
  mkB (commit (b_store b)) (b_gp b) (b_used b) (b_rlim b) (b_plim b) (b_first b).

Lemma flat_rel b : view_ok (b_store b) -> b_rel vl_rel b (flat b).
Proof. intros H. unfold b_rel, flat, vl_rel; cbn [b_store b_gp b_used b_rlim b_plim b_first]. tauto. Qed.

Lemma process_qi_view c (b b' : bst (S:=view)) t r :
  view_ok (b_store b) -> process_qi view_store c b t = Ok (b', r) ->
  process_qi ledger_store c (flat b) t = Ok (flat b', r) /\ view_ok (b_store b').
Proof.
  intros Hv H. pose proof (process_qi_sim view_store ledger_store vl_rel vl_get vl_del vl_put c t _ _ (flat_rel b Hv)) as Hs.
  rewrite H in Hs. destruct (process_qi ledger_store c (flat b) t) as [[bl rl]|]; cbn [res_rel] in Hs; [|contradiction].
  destruct Hs as ((Hst & Hg & Hu & Hr & Hp & Hf) & Hres). cbn [fst snd] in *. subst rl.
  destruct Hst as (Hok & Hc). split; [|exact Hok].
  destruct bl as [sl gl ul rll pll fl]. unfold flat. cbn [b_store b_gp b_used b_rlim b_plim b_first] in *. congruence.
Qed.

Lemma process_qi_view_spec c (b b' : bst (S:=view)) t r :
  view_ok (b_store b) -> process_qi view_store c b t = Ok (b', r) ->
  tx_facts c t r /\ view_ok (b_store b')
  /\ strict (commit (b_store b)) (tx_events r) (commit (b_store b')).
Proof.
  intros Hv H. destruct (process_qi_view _ _ _ _ _ Hv H) as (Hl & Hv').
  apply process_qi_spec in Hl; [|apply commit_sorted; exact Hv].
  destruct Hl as (F1 & F2 & F3 & F4 & F5 & F6 & F7 & _). unfold tx_facts. cbn [flat b_store] in F2. tauto.
Qed.

(* inside one transaction no outpoint is named twice *)
Lemma strict_consumes_nodup sp : forall (l l' : ledger) rest, sorted l ->
  strict l (consumes sp ++ creates rest) l' -> NoDup (map fst sp).
Proof.
  induction sp as [|[k u] sp IH]; intros l l' rest S H; cbn [map fst]; [constructor|].
  cbn [consumes map app fst snd] in H. inversion H as [| ? ? ? ? ? Hg Hs |]; subst.
  constructor.
  - intros Hin. apply in_map_iff in Hin as ([k' u'] & Hk & Hin). cbn [fst] in Hk. subst k'.
    apply in_split in Hin as (s1 & s2 & ->).
    assert (get k (del k l) = None) as Hn by (apply get_del_same; exact S).
    fold (consumes (s1 ++ (k, u') :: s2)) in Hs. unfold consumes in Hs. rewrite map_app in Hs. cbn [map fst snd] in Hs.
    rewrite <- app_assoc in Hs. cbn [app] in Hs.
    destruct (strict_absent_consume _ _ _ k Hs (del_sorted _ _ S) Hn _ _ _ eq_refl) as (u'' & Hc).
    apply in_map_iff in Hc as (x & Hx & _). discriminate.
  - eapply IH; [apply del_sorted; exact S|exact Hs].
Qed.

Lemma in_ok_keys c cs ins sp : Forall2 (in_ok c cs) ins sp -> map fst sp = map i_op ins.
Proof. induction 1 as [|i ku ins sp (Hk & _) _ IH]; cbn [map]; [reflexivity|]. rewrite Hk, IH. reflexivity. Qed.

Lemma process_qi_view_nodup c (b b' : bst (S:=view)) t r :
  view_ok (b_store b) -> process_qi view_store c b t = Ok (b', r) ->
  NoDup (map i_op (t_ins t))
  /\ Forall (fun i => exists u, v_get (b_store b) (i_op i) = Some u /\ u_owner u = i_pkaddr i /\ u_lock u <= c_height c) (t_ins t).
Proof.
  intros Hv H. destruct (process_qi_view_spec _ _ _ _ _ Hv H) as ((F1 & _) & _ & Hst).
  pose proof (in_ok_keys _ _ _ _ F1) as Hk. split.
  - rewrite <- Hk. eapply strict_consumes_nodup; [apply commit_sorted; exact Hv|exact Hst].
  - (* each input is present in the view before the transaction: first occurrence argument *)
    rewrite Forall_forall. intros i Hi.
    apply in_split in Hi as (i1 & i2 & Hsplit). rewrite Hsplit in F1.
    apply Forall2_app_inv_l in F1 as (s1 & s2' & F11 & F12 & Hsp).
    inversion F12 as [|? [k u] ? s2 (Hk1 & Ho & _ & Hl & _) F13]; subst s2'. cbn [fst snd] in *.
    unfold tx_events in Hst. rewrite Hsp in Hst. unfold consumes in Hst. rewrite map_app in Hst. cbn [map fst snd] in Hst.
    rewrite <- app_assoc in Hst. cbn [app] in Hst.
    destruct (strict_consumed_existed _ _ _ Hst (commit_sorted _ Hv) _ _ _ _ eq_refl) as [Hg|(u' & Hc)].
    + exists u. rewrite v_get_commit by exact Hv. subst k. auto.
    + apply in_map_iff in Hc as (y & Hy & _). discriminate.
Qed.

(* ------------------------------------------------------------------ blocks and chains on tracking views *)

Lemma run_block_accepted (l : ledger) c txs rs l' : sorted l -> run_block true l c txs = (rs, true, l') ->
  strict l (block_events rs) l' /\ Forall2 (tx_facts c) txs rs.
Proof. intros S H. rewrite run_block_tracked_ref in H by exact S. apply run_block_ref_accepted in H; auto. Qed.

Lemma run_block_rejected tr (l : ledger) c txs rs l' : run_block tr l c txs = (rs, false, l') -> l' = l.
Proof.
  unfold run_block. destruct (run_txs view_store c (init_bst c (view_of tr l)) txs) as [x [b|]]; intros H; inversion H; reflexivity.
Qed.

(* ------------------------------------------------------------------ the untracked view (F1) *)

Definition w_owner : list N := [0; 200; 1; 1; 1; 1; 1; 1; 1; 1; 1; 1; 1; 1; 1; 1; 1; 1; 1; 1].
Definition w_out1 : list N := [0; 201; 2; 2; 2; 2; 2; 2; 2; 2; 2; 2; 2; 2; 2; 2; 2; 2; 2; 2].
Definition w_out2 : list N := [0; 202; 3; 3; 3; 3; 3; 3; 3; 3; 3; 3; 3; 3; 3; 3; 3; 3; 3; 3].
Definition w_op : key := [7; 7; 7; 7; 7; 7; 7; 7; 7; 7; 7; 7; 7; 7; 7; 7; 7; 7; 7; 7; 7; 7; 7; 7; 7; 7; 7; 7; 7; 7; 7; 7; 0; 0].
Definition w_hash : list N := [9; 9; 9; 9; 9; 9; 9; 9; 9; 9; 9; 9; 9; 9; 9; 9; 9; 9; 9; 9; 9; 9; 9; 9; 9; 9; 9; 9; 9; 9; 9; 9].
Definition w_ledger : ledger := [(w_op, mkU 6 w_owner 0)].
Definition w_ctx : ctx :=
  mkCtx 0 0 1000 2000000 5000000 1 1000000 1 (repeat 255 32) etx_r_limit_min etx_p_limit_min.
(* one UTXO of 1000 qits named by both inputs; two outputs of 1000 and 500 qits *)
Definition w_tx : tx :=
  mkTx w_hash true [mkIn w_op w_owner true; mkIn w_op w_owner true]
       [mkOut 6 w_out1 0; mkOut 5 w_out2 0] [] 22600 false false.

Definition ledger_value (l : ledger) : N := value_of l.

Lemma untracked_witness :
  sorted w_ledger
  /\ ~ NoDup (map i_op (t_ins w_tx))
  /\ (exists rs l', run_block false w_ledger w_ctx [w_tx] = (rs, true, l')
                    /\ ledger_value w_ledger = 1000 /\ ledger_value l' = 1500
                    /\ map r_fee rs = [500])
  /\ (exists rs, run_block true w_ledger w_ctx [w_tx] = (rs, false, w_ledger)).
Proof.
  split; [apply sortedb_sorted; reflexivity|]. split.
  - intros H. inversion H as [|? ? Hn _]; subst. apply Hn. left; reflexivity.
  - split.
    + eexists; eexists. split; [vm_compute; reflexivity|]. split; [vm_compute; reflexivity|]. split; vm_compute; reflexivity.
    + eexists. vm_compute. reflexivity.
Qed.

(* ------------------------------------------------------------------ denominations actually compared *)

Definition counted (c : ctx) (t : tx) (o : txout) : bool := negb (is_conv_out c t o) && negb (is_wrap_out c t o).

Lemma out_loop_dens w c rl pl t outs : forall a a', out_loop w c rl pl t a outs = Ok a' ->
  oa_dens a' = rev (map o_den (filter (counted c t) outs)) ++ oa_dens a.
Proof.
  induction outs as [|o r IH]; intros a a' H; cbn [out_loop] in H.
  - inversion H; reflexivity.
  - destruct (out_step w c rl pl t a o) as [a1|] eqn:E; [|discriminate].
    apply IH in H. rewrite H. cbn [filter]. unfold counted at 2.
    apply out_step_inv in E as (_ & _ & _ & _ & E).
    destruct E as [(Hc & ->)|[(Hw & Hp & ->)|[(Hw & Hp & ->)|[(Hc & Hw & _ & _ & _ & Hg & _ & _ & ->)|(Hc & Hw & _ & _ & ->)]]]];
      unfold agg_acc; cbn [oa_dens]; rewrite ?Hc, ?Hw; cbn [negb andb]; rewrite ?andb_false_r; cbn [map rev];
      rewrite <- ?app_assoc; reflexivity.
Qed.

Lemma sum_den_rev l : sum_den (rev l) = sum_den l.
Proof. induction l as [|x l IH]; cbn [rev]; [reflexivity|]. rewrite sum_den_app, IH, !sum_den_cons. change (sum_den []) with 0. lia. Qed.

Lemma vge_rev d l : vge d (rev l) = vge d l.
Proof.
  unfold vge. induction l as [|x l IH]; cbn [rev filter]; [reflexivity|].
  rewrite filter_app, sum_den_app, IH. cbn [filter]. destruct (d <=? x); rewrite ?sum_den_cons; change (sum_den []) with 0; lia.
Qed.

Lemma process_qi_no_merge_up c (b b' : bst (S:=ledger)) t r :
  sorted (b_store b) -> process_qi ledger_store c b t = Ok (b', r) -> b_first b = false ->
  value_of (r_spent r) < two64 ->
  forall d, 1 <= d <= max_denomination ->
    vge d (map o_den (filter (counted c t) (t_outs t))) <= vge d (map (fun ku => u_den (snd ku)) (r_spent r)).
Proof.
  intros S H Hfirst Hbound. unfold process_qi in H.
  destruct (sanity t) eqn:Es; [discriminate|].
  destruct (b_gp b <? t_intrinsic t) eqn:Eg; [discriminate|].
  destruct (c_gaslimit c <? b_used b + t_intrinsic t) eqn:El; [discriminate|].
  destruct (in_loop ledger_store c (t_checksig t) (b_gp b - t_intrinsic t) (mkIA (b_store b) [] 0 [] []) (t_ins t)) as [ia|] eqn:Ei;
    [|discriminate].
  destruct (post_inputs false c (b_rlim b) (b_plim b) t (b_gp b - t_intrinsic t) (b_used b + t_intrinsic t)
                        (ia_addrs ia) (ia_total ia)) as [p|] eqn:Ep; [|discriminate].
  rewrite Hfirst in H. cbn [negb andb] in H.
  destruct (check_denominations (ia_dens ia) (p_outdens p)) eqn:Ed; cbn [negb] in H; [|discriminate].
  destruct (t_checksig t && negb (t_sigok t)); [discriminate|].
  inversion H; subst b' r; clear H. cbn [r_spent] in *.
  apply in_loop_spec in Ei; [|exact S]. destruct Ei as (sp & Hs & _ & _ & _ & Hd & _).
  cbn [ia_spent ia_dens app] in *. rewrite app_nil_r in Hd. rewrite Hs in *.
  apply post_inputs_inv in Ep. destruct Ep as (a & Hloop & _ & _ & _ & Hod & _).
  apply out_loop_dens in Hloop. unfold oa0 in Hloop. cbn [oa_dens] in Hloop. rewrite app_nil_r in Hloop.
  rewrite Hod, Hloop, Hd in Ed.
  assert (sum_den (rev (map (fun ku : key * utxo => u_den (snd ku)) sp)) < two64) as Hb by (rewrite sum_den_rev; exact Hbound).
  intros d Hdr. pose proof (proj1 (check_denominations_iff _ _ Hb) Ed d Hdr) as Hv.
  rewrite !vge_rev in Hv. exact Hv.
Qed.

(* ------------------------------------------------------------------ pool *)

Lemma validate_inputs_pool_ok c l t : validate_inputs c l t = true -> pool_ok c l t.
Proof.
  unfold validate_inputs, pool_ok. destruct (sanity t); [discriminate|]. intros H.
  apply andb_prop in H as (H & _). rewrite forallb_forall in H. apply Forall_forall. exact H.
Qed.

(* what the pool's check means for one input *)
Lemma validate_in_step_spec c l i : validate_in_step c l i = true ->
  exists u, get (i_op i) l = Some u /\ u_owner u = i_pkaddr i /\ is_qi (i_pkaddr i) = true
            /\ u_lock u <= c_height c /\ u_den u <= max_denomination.
Proof.
  unfold validate_in_step. destruct (get (i_op i) l) as [u|]; [|discriminate]. intros H.
  apply andb_prop in H as (H & H4). apply andb_prop in H as (H & H3). apply andb_prop in H as (H1 & H2).
  exists u. apply keqb_eq in H3. repeat split; auto; lia.
Qed.

(* ------------------------------------------------------------------ worker *)

Lemma worker_block_accepted c (l : ledger) txs : sorted l ->
  Forall (fun t => pool_ok c l t /\ fresh l t /\ sig_fine t) txs ->
  exists rs b', run_txs ledger_store c (init_bst c l) (accepted_txs txs (fst (worker_txs c l true (init_wenv c) txs))) = (rs, Some b')
    /\ Forall2 res_agree (somes (fst (worker_txs c l true (init_wenv c) txs))) rs.
Proof. intros S H. apply worker_txs_proc; [apply init_winv; exact S|exact H]. Qed.

(* ... and therefore by the block processor on any backend whose batch tracks its pending writes *)
Lemma worker_block_accepted_view c (l : ledger) txs : sorted l ->
  Forall (fun t => pool_ok c l t /\ fresh l t /\ sig_fine t) txs ->
  exists rs l', run_block true l c (accepted_txs txs (fst (worker_txs c l true (init_wenv c) txs))) = (rs, true, l')
    /\ Forall2 res_agree (somes (fst (worker_txs c l true (init_wenv c) txs))) rs.
Proof.
  intros S H. destruct (worker_block_accepted c l txs S H) as (rs & b' & Hrun & Hres).
  rewrite run_block_tracked_ref by exact S. unfold run_block_ref. rewrite Hrun. eauto.
Qed.

(* ------------------------------------------------------------------ statements in the form used by Props/C01.v *)

Lemma params_ok_all :
  denoms_ok = true
  /\ (etx_conversion_type =? etx_default_type) = false /\ (etx_wrapping_qi_type =? etx_default_type) = false.
Proof. split; [exact denoms_ok_true|exact etx_types_distinct]. Qed.

Lemma conservation_view c (b b' : bst (S:=view)) t r :
  view_ok (b_store b) -> process_qi view_store c b t = Ok (b', r) ->
  value_of (r_spent r) + double_entry c t = value_of (r_created r) + etxs_value (r_etxs r) + r_fee r.
Proof. intros Hv H. destruct (process_qi_view_spec _ _ _ _ _ Hv H) as ((_ & F & _) & _). exact F. Qed.

Lemma double_entry_after_fork c t : qi_wrapping_change_block <= c_ptn c -> double_entry c t = 0.
Proof.
  intros H. unfold double_entry. induction (t_outs t) as [|o r IH]; cbn [dbl_sum fold_right]; [reflexivity|].
  fold (dbl_sum c t r). rewrite IH. unfold dbl, prefork.
  assert (qi_wrapping_change_block <=? c_ptn c = true) as -> by lia. reflexivity.
Qed.

Lemma conservation_view_after_fork c (b b' : bst (S:=view)) t r :
  view_ok (b_store b) -> process_qi view_store c b t = Ok (b', r) -> qi_wrapping_change_block <= c_ptn c ->
  value_of (r_spent r) = value_of (r_created r) + etxs_value (r_etxs r) + r_fee r.
Proof. intros Hv H Hf. pose proof (conservation_view _ _ _ _ _ Hv H) as Hc. rewrite double_entry_after_fork in Hc by exact Hf. lia. Qed.

Lemma authorised_view c (b b' : bst (S:=view)) t r :
  view_ok (b_store b) -> process_qi view_store c b t = Ok (b', r) ->
  Forall2 (in_ok c (t_checksig t)) (t_ins t) (r_spent r)
  /\ (t_checksig t = true -> t_sigok t = true) /\ t_ins t <> [].
Proof. intros Hv H. destruct (process_qi_view_spec _ _ _ _ _ Hv H) as ((F1 & _ & F3 & F4 & _) & _). auto. Qed.

Lemma fee_floor_view c (b b' : bst (S:=view)) t r :
  view_ok (b_store b) -> process_qi view_store c b t = Ok (b', r) ->
  t_intrinsic t * c_basefee c <= c_quai_reward c * r_fee r / c_qi_reward c.
Proof. intros Hv H. destruct (process_qi_view_spec _ _ _ _ _ Hv H) as ((_ & _ & _ & _ & _ & F) & _). exact F. Qed.

Lemma created_view c (b b' : bst (S:=view)) t r :
  view_ok (b_store b) -> process_qi view_store c b t = Ok (b', r) ->
  Forall (created_by t 0 (len (t_outs t))) (r_created r).
Proof. intros Hv H. destruct (process_qi_view_spec _ _ _ _ _ Hv H) as ((_ & _ & _ & _ & F & _) & _). exact F. Qed.

Definition no_double_consume (evs : list event) : Prop :=
  forall pre k u mid u' post, evs = pre ++ Consume k u :: mid ++ Consume k u' :: post ->
  exists u'', In (Create k u'') mid.
Definition consumed_existed (l : ledger) (evs : list event) : Prop :=
  forall pre k u post, evs = pre ++ Consume k u :: post ->
  get k l = Some u \/ exists u', In (Create k u') pre.

Lemma spent_once_block (l : ledger) c txs rs l' : sorted l -> run_block true l c txs = (rs, true, l') ->
  strict l (block_events rs) l' /\ no_double_consume (block_events rs) /\ consumed_existed l (block_events rs).
Proof.
  intros S H. apply run_block_accepted in H as (Hst & _); [|exact S]. split; [exact Hst|]. split.
  - intros pre k u mid u' post E. eapply strict_no_double_consume; eauto.
  - intros pre k u post E. eapply strict_consumed_existed; eauto.
Qed.

Lemma spent_once_chain (l : ledger) blocks : sorted l ->
  strict l (chain_events (run_chain true l blocks)) (final_ledger l (run_chain true l blocks))
  /\ no_double_consume (chain_events (run_chain true l blocks))
  /\ consumed_existed l (chain_events (run_chain true l blocks)).
Proof.
  intros S. pose proof (run_chain_spec blocks l S) as Hst. split; [exact Hst|]. split.
  - intros pre k u mid u' post E. eapply strict_no_double_consume; eauto.
  - intros pre k u post E. eapply strict_consumed_existed; eauto.
Qed.

Lemma untracked_refuted :
  exists (l : ledger) c t rs l', sorted l /\ ~ NoDup (map i_op (t_ins t))
    /\ run_block false l c [t] = (rs, true, l') /\ value_of l < value_of l'
    /\ exists rs', run_block true l c [t] = (rs', false, l).
Proof.
  destruct untracked_witness as (S & Hn & (rs & l' & Hr & H1 & H2 & _) & Ht).
  exists w_ledger, w_ctx, w_tx, rs, l'. unfold ledger_value in *.
  split; [exact S|split; [exact Hn|split; [exact Hr|split; [rewrite H1, H2; lia|exact Ht]]]].
Qed.

Lemma no_merge_up_view c (b b' : bst (S:=view)) t r :
  view_ok (b_store b) -> process_qi view_store c b t = Ok (b', r) -> b_first b = false ->
  value_of (r_spent r) < two64 ->
  forall d, 1 <= d <= max_denomination ->
    vge d (map o_den (filter (counted c t) (t_outs t))) <= vge d (map (fun ku => u_den (snd ku)) (r_spent r)).
Proof.
  intros Hv H Hf Hb. destruct (process_qi_view _ _ _ _ _ Hv H) as (Hl & _).
  eapply process_qi_no_merge_up; [|exact Hl|exact Hf|exact Hb]. apply commit_sorted; exact Hv.
Qed.

Lemma pool_establishes_ownership c l t : validate_inputs c l t = true ->
  pool_ok c l t
  /\ Forall (fun i => exists u, get (i_op i) l = Some u /\ u_owner u = i_pkaddr i /\ is_qi (i_pkaddr i) = true
                                /\ u_lock u <= c_height c /\ u_den u <= max_denomination) (t_ins t).
Proof.
  intros H. pose proof (validate_inputs_pool_ok _ _ _ H) as Hp. split; [exact Hp|].
  unfold pool_ok in Hp. eapply Forall_impl; [|exact Hp]. intros i Hi. apply validate_in_step_spec; exact Hi.
Qed.

(* ------------------------------------------------------------------ concrete instances *)

Definition x_tx1 : tx :=
  mkTx w_hash true [mkIn w_op w_owner true] [mkOut 5 w_out1 0; mkOut 4 w_out2 0] [] 21800 true true.
Definition x_hash2 : list N := repeat 11 32.
Definition x_tx2 : tx :=
  mkTx x_hash2 true [mkIn w_op w_owner true] [mkOut 5 w_out1 0] [] 12800 true true.
(* spends the first output of x_tx1 (owner w_out1) inside the same block *)
Definition x_tx3 : tx :=
  mkTx x_hash2 true [mkIn (outkey w_hash 0) w_out1 true] [mkOut 4 w_out2 0; mkOut 4 w_owner 0] [] 21800 true true.

Lemma tracking_invariant :
  (forall l : ledger, sorted l -> view_ok (view_of true l))
  /\ (forall c (b b' : bst (S:=view)) t r,
        view_ok (b_store b) -> process_qi view_store c b t = Ok (b', r) -> view_ok (b_store b')).
Proof.
  split; [exact view_of_ok|]. intros c b b' t r Hv H.
  destruct (process_qi_view_spec _ _ _ _ _ Hv H) as (_ & Hv' & _). exact Hv'.
Qed.

(* C10 — lemmas: exact inversion of one block, of a branch, reorg = direct, switch-back,
   abandoned outputs, lockup undo records of AddNewLock/claims. *)
From Coq Require Import List NArith Bool Lia ZifyBool ZifyNat ZifyN.
From GQ Require Import Lib.Key Lib.SMap Generated.C10Params Model.C10.
Import ListNotations.
Local Open Scope N_scope.

(* ---------- lists of keys / records ---------- *)
Lemma kmem_In (k : key) (l : list key) : kmem k l = true <-> In k l.
Proof.
  unfold kmem. rewrite existsb_exists. split.
  - intros [x [Hin E]]. apply keqb_eq in E. subst. exact Hin.
  - intros H. exists k. split; [exact H|apply keqb_refl].
Qed.

Lemma kmem_dec (k : key) (l : list key) : In k l \/ ~ In k l.
Proof. destruct (kmem k l) eqn:E; [left; apply kmem_In; exact E|right; intros H; apply kmem_In in H; congruence]. Qed.

Lemma first_rec_app {V} k (a b : list (key * V)) :
  first_rec k (a ++ b) = match first_rec k a with Some v => Some v | None => first_rec k b end.
Proof.
  induction a as [|[k' v] a IH]; cbn; [reflexivity|]. destruct (keqb k k'); auto.
Qed.

Lemma first_rec_In {V} k v (l : list (key * V)) : first_rec k l = Some v -> In (k, v) l.
Proof.
  induction l as [|[k' w] l IH]; cbn; [discriminate|].
  destruct (keqb k k') eqn:E.
  - intros H; inversion H; subst. apply keqb_eq in E; subst. left; reflexivity.
  - intros H. right. auto.
Qed.

Lemma first_rec_None {V} k (l : list (key * V)) : first_rec k l = None <-> ~ In k (map fst l).
Proof.
  induction l as [|[k' w] l IH]; cbn; [tauto|].
  destruct (keqb k k') eqn:E.
  - apply keqb_eq in E; subst. split; [discriminate|]. intros H; exfalso; apply H; left; reflexivity.
  - apply keqb_neq in E. rewrite IH. split; [intros H [H1|H1]; [congruence|tauto]|tauto].
Qed.

Lemma first_rec_rev_In {V} k v (l : list (key * V)) : first_rec k (rev l) = Some v -> In (k, v) l.
Proof. intros H. apply first_rec_In in H. apply in_rev. exact H. Qed.

Lemma first_rec_rev_None {V} k (l : list (key * V)) : first_rec k (rev l) = None <-> ~ In k (map fst l).
Proof. rewrite first_rec_None. rewrite map_rev. rewrite <- in_rev. tauto. Qed.

Lemma last_default_irrel {A} (x : A) l d1 d2 : last (x :: l) d1 = last (x :: l) d2.
Proof. revert x; induction l as [|y l IH]; intros x; [reflexivity|]. cbn [last]. apply (IH y). Qed.

(* ---------- put_all / del_all ---------- *)
Lemma put_all_cons {V} k v (l : list (key * V)) m : put_all ((k, v) :: l) m = put_all l (put k v m).
Proof. reflexivity. Qed.
Lemma del_all_cons {V} k (l : list key) (m : smap V) : del_all (k :: l) m = del_all l (del k m).
Proof. reflexivity. Qed.

Lemma put_all_sorted {V} (l : list (key * V)) m : sorted m -> sorted (put_all l m).
Proof.
  revert m; induction l as [|[k v] l IH]; intros m S; [exact S|].
  rewrite put_all_cons. apply IH. apply put_sorted; exact S.
Qed.

Lemma del_all_sorted {V} (l : list key) (m : smap V) : sorted m -> sorted (del_all l m).
Proof.
  revert m; induction l as [|k l IH]; intros m S; [exact S|].
  rewrite del_all_cons. apply IH. apply del_sorted; exact S.
Qed.

Lemma get_put_all {V} k (l : list (key * V)) m :
  get k (put_all l m) = match first_rec k (rev l) with Some v => Some v | None => get k m end.
Proof.
  revert m; induction l as [|[k' v] l IH]; intros m; [reflexivity|].
  rewrite put_all_cons, IH. cbn [rev]. rewrite first_rec_app. cbn [first_rec].
  destruct (first_rec k (rev l)); [reflexivity|].
  destruct (keqb k k') eqn:E.
  - apply keqb_eq in E; subst. apply get_put_same.
  - apply keqb_neq in E. apply get_put_other; exact E.
Qed.

Lemma get_del_all_none {V} k (l : list key) (m : smap V) : sorted m -> get k m = None -> get k (del_all l m) = None.
Proof.
  revert m; induction l as [|k' l IH]; intros m S G; [exact G|].
  rewrite del_all_cons. apply IH; [apply del_sorted; exact S|].
  destruct (keqb k k') eqn:E.
  - apply keqb_eq in E; subst. apply get_del_same; exact S.
  - apply keqb_neq in E. rewrite get_del_other; [exact G|exact S|exact E].
Qed.

Lemma get_del_all_in {V} k (l : list key) (m : smap V) : sorted m -> In k l -> get k (del_all l m) = None.
Proof.
  revert m; induction l as [|k' l IH]; intros m S Hin; [destruct Hin|].
  rewrite del_all_cons. destruct Hin as [->|Hin].
  - apply get_del_all_none; [apply del_sorted; exact S|apply get_del_same; exact S].
  - apply IH; [apply del_sorted; exact S|exact Hin].
Qed.

Lemma get_del_all_notin {V} k (l : list key) (m : smap V) : sorted m -> ~ In k l -> get k (del_all l m) = get k m.
Proof.
  revert m; induction l as [|k' l IH]; intros m S N; [reflexivity|].
  rewrite del_all_cons. rewrite IH; [|apply del_sorted; exact S|intros X; apply N; right; exact X].
  apply get_del_other; [exact S|intros ->; apply N; left; reflexivity].
Qed.

Section Generic.
Context {L : Type}.
Notation db := (db L).
Notation effect := (effect L).

Definition db_ok (d : db) : Prop := sorted (utxo d) /\ sorted (lockups d) /\ sorted (canon d).

Definition created_keys (e : effect) : list key := map strip_den (e_created_keys e).

Definition wf_utxo (d : db) (e : effect) : Prop :=
  (forall k, In k (created_keys e) -> get k (utxo d) = None) /\
  (forall k v, In (k, v) (e_spent e ++ e_trimmed e) -> In k (created_keys e) \/ get k (utxo d) = Some v) /\
  (forall k v, In (k, v) (e_created e) -> In k (created_keys e)).

Definition wf_lk (d : db) (e : effect) : Prop :=
  (forall k, In k (e_lk_created e) -> get k (lockups d) = None) /\
  (forall k, In k (map fst (e_lk_deleted e)) ->
             In k (e_lk_created e) \/ first_rec k (e_lk_deleted e) = get k (lockups d)) /\
  (forall k w, In (k, w) (e_lk_writes e) -> In k (e_lk_created e) \/ In k (map fst (e_lk_deleted e))).

Definition wf_chain (d : db) (e : effect) : Prop :=
  0 < e_num e /\ head d = e_parent e /\
  get (nkey (e_num e - 1)) (canon d) = Some (e_parent e) /\ get (nkey (e_num e)) (canon d) = None.

Definition wf_effect (d : db) (e : effect) : Prop := wf_utxo d e /\ wf_lk d e /\ wf_chain d e.

Fixpoint wf_branch (d : db) (es : list effect) : Prop :=
  match es with
  | [] => True
  | e :: es' => wf_effect d e /\ wf_branch (apply d e) es'
  end.

(* ---------- lk_write ---------- *)
Lemma lk_writes_sorted (ws : list (key * option L)) m : sorted m -> sorted (fold_left lk_write ws m).
Proof.
  revert m; induction ws as [|[k [v|]] ws IH]; intros m S; cbn; [exact S| |]; apply IH; unfold lk_write; cbn.
  - apply put_sorted; exact S.
  - apply del_sorted; exact S.
Qed.

Lemma lk_writes_untouched k (ws : list (key * option L)) m :
  sorted m -> ~ In k (map fst ws) -> get k (fold_left lk_write ws m) = get k m.
Proof.
  revert m; induction ws as [|[k' w] ws IH]; intros m S N; cbn; [reflexivity|].
  assert (k <> k') by (intros ->; apply N; left; reflexivity).
  assert (~ In k (map fst ws)) by (intros X; apply N; right; exact X).
  destruct w as [v|]; unfold lk_write at 2; cbn.
  - rewrite IH; [apply get_put_other; assumption|apply put_sorted; exact S|assumption].
  - rewrite IH; [apply get_del_other; assumption|apply del_sorted; exact S|assumption].
Qed.

(* ---------- apply / rollback keep the maps sorted ---------- *)
Lemma apply_ok d e : db_ok d -> db_ok (apply d e).
Proof.
  intros (Su & Sl & Sc). unfold apply, db_ok; cbn. repeat split.
  - repeat apply del_all_sorted. apply put_all_sorted. exact Su.
  - apply lk_writes_sorted; exact Sl.
  - apply put_sorted; exact Sc.
Qed.

Lemma rollback_ok d e : db_ok d -> db_ok (rollback d e).
Proof.
  intros (Su & Sl & Sc). unfold rollback, db_ok; cbn. repeat split.
  - apply del_all_sorted. apply put_all_sorted. exact Su.
  - apply del_all_sorted. apply put_all_sorted. exact Sl.
  - apply put_sorted. apply del_sorted. exact Sc.
Qed.

Lemma apply_all_ok es : forall d, db_ok d -> db_ok (apply_all d es).
Proof. induction es as [|e es IH]; intros d H; cbn; [exact H|]. apply IH. apply apply_ok; exact H. Qed.

(* ---------- the three components of rollback (apply d e) e = d ---------- *)
Lemma utxo_rollback_apply d e : sorted (utxo d) -> wf_utxo d e ->
  utxo (rollback (apply d e) e) = utxo d.
Proof.
  intros S (W1 & W2 & W3). unfold rollback, apply; cbn. fold (created_keys e).
  set (X := del_all (map fst (e_trimmed e)) (del_all (map fst (e_spent e)) (put_all (e_created e) (utxo d)))).
  assert (SX : sorted X) by (unfold X; repeat apply del_all_sorted; apply put_all_sorted; exact S).
  apply sorted_ext; [apply del_all_sorted; apply put_all_sorted; exact SX|exact S|].
  intros k. destruct (kmem_dec k (created_keys e)) as [Hc|Hc].
  - rewrite get_del_all_in; [|apply put_all_sorted; exact SX|exact Hc]. symmetry. apply W1; exact Hc.
  - rewrite get_del_all_notin; [|apply put_all_sorted; exact SX|exact Hc].
    rewrite get_put_all. destruct (first_rec k (rev (e_spent e ++ e_trimmed e))) as [v|] eqn:F.
    + apply first_rec_rev_In in F. destruct (W2 _ _ F) as [H|H]; [contradiction|]. symmetry; exact H.
    + apply first_rec_rev_None in F. rewrite map_app in F.
      unfold X. rewrite get_del_all_notin;
        [|apply del_all_sorted; apply put_all_sorted; exact S|intros H; apply F; apply in_or_app; right; exact H].
      rewrite get_del_all_notin; [|apply put_all_sorted; exact S|intros H; apply F; apply in_or_app; left; exact H].
      rewrite get_put_all. destruct (first_rec k (rev (e_created e))) as [v|] eqn:F2; [|reflexivity].
      apply first_rec_rev_In in F2. apply W3 in F2. contradiction.
Qed.

Lemma lockups_rollback_apply d e : sorted (lockups d) -> wf_lk d e ->
  lockups (rollback (apply d e) e) = lockups d.
Proof.
  intros S (W1 & W2 & W3). unfold rollback, apply; cbn.
  set (X := fold_left lk_write (e_lk_writes e) (lockups d)).
  assert (SX : sorted X) by (apply lk_writes_sorted; exact S).
  apply sorted_ext; [apply del_all_sorted; apply put_all_sorted; exact SX|exact S|].
  intros k. destruct (kmem_dec k (e_lk_created e)) as [Hc|Hc].
  - rewrite get_del_all_in; [|apply put_all_sorted; exact SX|exact Hc]. symmetry. apply W1; exact Hc.
  - rewrite get_del_all_notin; [|apply put_all_sorted; exact SX|exact Hc].
    rewrite get_put_all. rewrite rev_involutive.
    destruct (first_rec k (e_lk_deleted e)) as [v|] eqn:F.
    + assert (Hk : In k (map fst (e_lk_deleted e))).
      { apply first_rec_In in F. apply (in_map fst) in F. exact F. }
      destruct (W2 _ Hk) as [H|H]; [contradiction|]. rewrite <- H. symmetry; exact F.
    + apply first_rec_None in F. unfold X. apply lk_writes_untouched; [exact S|].
      intros H. apply in_map_iff in H as [[k0 w] [E Hin]]. cbn in E; subst k0.
      destruct (W3 _ _ Hin); contradiction.
Qed.

Lemma nkey_inj a b : nkey a = nkey b -> a = b.
Proof. unfold nkey. intros H; inversion H; reflexivity. Qed.

Lemma canon_rollback_apply d e : sorted (canon d) -> wf_chain d e ->
  canon (rollback (apply d e) e) = canon d /\ head (rollback (apply d e) e) = head d.
Proof.
  intros S (Hn & Hh & Hp & Hnone). unfold rollback, apply; cbn. split; [|symmetry; exact Hh].
  assert (S1 : sorted (put (nkey (e_num e)) (e_hash e) (canon d))) by (apply put_sorted; exact S).
  apply sorted_ext; [apply put_sorted; apply del_sorted; exact S1|exact S|].
  intros k. destruct (kmem_dec k [nkey (e_num e - 1)]) as [[<-|[]]|N1].
  - rewrite get_put_same. symmetry; exact Hp.
  - rewrite get_put_other; [|intros ->; apply N1; left; reflexivity].
    destruct (kmem_dec k [nkey (e_num e)]) as [[<-|[]]|N2].
    + rewrite get_del_same; [symmetry; exact Hnone|exact S1].
    + rewrite get_del_other; [|exact S1|intros ->; apply N2; left; reflexivity].
      apply get_put_other. intros ->; apply N2; left; reflexivity.
Qed.

(* one block: rolling back what was just appended restores the state exactly *)
Lemma rollback_apply_id_lemma d e : db_ok d -> wf_effect d e -> rollback (apply d e) e = d.
Proof.
  intros (Su & Sl & Sc) (Wu & Wl & Wc).
  pose proof (utxo_rollback_apply d e Su Wu) as Hu.
  pose proof (lockups_rollback_apply d e Sl Wl) as Hl.
  destruct (canon_rollback_apply d e Sc Wc) as [Hc Hh].
  destruct d as [u l c h]. destruct (rollback (apply (mkDb u l c h) e) e) as [u' l' c' h'] eqn:E.
  cbn in *. subst. reflexivity.
Qed.

(* ---------- the two wrong rollbacks are exact on every block WITHOUT an output created and
   spent/trimmed inside the block: only intra-block chains tell them from [rollback] ---------- *)
Definition no_intra_spend (e : effect) : Prop :=
  forall k, In k (map fst (e_spent e ++ e_trimmed e)) -> ~ In k (created_keys e).

Lemma utxo_apply_sorted (d : db) (e : effect) : sorted (utxo d) -> sorted (utxo (apply d e)).
Proof. intros S. unfold apply; cbn. repeat apply del_all_sorted. apply put_all_sorted. exact S. Qed.

Lemma restore_notcreated d e k : sorted (utxo d) -> wf_utxo d e -> ~ In k (created_keys e) ->
  get k (put_all (e_spent e ++ e_trimmed e) (utxo (apply d e))) = get k (utxo d).
Proof.
  intros S (W1 & W2 & W3) Hc.
  rewrite get_put_all. destruct (first_rec k (rev (e_spent e ++ e_trimmed e))) as [v|] eqn:F.
  - apply first_rec_rev_In in F. destruct (W2 _ _ F) as [H|H]; [contradiction|]. symmetry; exact H.
  - apply first_rec_rev_None in F. rewrite map_app in F. unfold apply; cbn.
    rewrite get_del_all_notin;
      [|apply del_all_sorted; apply put_all_sorted; exact S|intros H; apply F; apply in_or_app; right; exact H].
    rewrite get_del_all_notin; [|apply put_all_sorted; exact S|intros H; apply F; apply in_or_app; left; exact H].
    rewrite get_put_all. destruct (first_rec k (rev (e_created e))) as [v|] eqn:F2; [|reflexivity].
    apply first_rec_rev_In in F2. apply W3 in F2. contradiction.
Qed.

Lemma utxo_delete_first_no_chain d e : sorted (utxo d) -> wf_utxo d e -> no_intra_spend e ->
  utxo (rollback_delete_first (apply d e) e) = utxo d.
Proof.
  intros S W N. pose proof (utxo_apply_sorted d e S) as SX. pose proof W as (W1 & W2 & W3).
  unfold rollback_delete_first; cbn [utxo]. fold (created_keys e).
  apply sorted_ext; [apply put_all_sorted; apply del_all_sorted; exact SX|exact S|].
  intros k. destruct (kmem_dec k (created_keys e)) as [Hc|Hc].
  - rewrite get_put_all. destruct (first_rec k (rev (e_spent e ++ e_trimmed e))) as [v|] eqn:F.
    + apply first_rec_rev_In in F. exfalso. apply (N k); [|exact Hc].
      apply in_map_iff. exists (k, v). split; [reflexivity|exact F].
    + rewrite get_del_all_in; [|exact SX|exact Hc]. symmetry. apply W1; exact Hc.
  - rewrite <- (restore_notcreated d e k S W Hc). rewrite !get_put_all.
    destruct (first_rec k (rev (e_spent e ++ e_trimmed e))); [reflexivity|].
    apply get_del_all_notin; [exact SX|exact Hc].
Qed.

Lemma utxo_skip_absent_no_chain d e : sorted (utxo d) -> wf_utxo d e -> no_intra_spend e ->
  utxo (rollback_skip_absent (apply d e) e) = utxo d.
Proof.
  intros S W N. pose proof (utxo_apply_sorted d e S) as SX. pose proof W as (W1 & W2 & W3).
  unfold rollback_skip_absent; cbn [utxo]. fold (created_keys e).
  set (X := utxo (apply d e)) in *.
  set (F := filter (fun k => presentb k X) (created_keys e)).
  assert (SP : sorted (put_all (e_spent e ++ e_trimmed e) X)) by (apply put_all_sorted; exact SX).
  apply sorted_ext; [apply del_all_sorted; exact SP|exact S|].
  intros k. destruct (kmem_dec k (created_keys e)) as [Hc|Hc].
  - rewrite (W1 _ Hc). destruct (presentb k X) eqn:P.
    + apply get_del_all_in; [exact SP|]. unfold F. apply filter_In. split; [exact Hc|exact P].
    + rewrite get_del_all_notin; [|exact SP|unfold F; intros H; apply filter_In in H; destruct H as [_ H]; congruence].
      rewrite get_put_all. destruct (first_rec k (rev (e_spent e ++ e_trimmed e))) as [v|] eqn:F0.
      * apply first_rec_rev_In in F0. exfalso. apply (N k); [|exact Hc].
        apply in_map_iff. exists (k, v). split; [reflexivity|exact F0].
      * unfold presentb in P. destruct (get k X); [discriminate|reflexivity].
  - rewrite get_del_all_notin; [|exact SP|unfold F; intros H; apply filter_In in H; destruct H as [H _]; contradiction].
    unfold X. apply restore_notcreated; assumption.
Qed.

Lemma wrong_rollbacks_exact_without_intra_spend d e : db_ok d -> wf_effect d e -> no_intra_spend e ->
  rollback_delete_first (apply d e) e = d /\ rollback_skip_absent (apply d e) e = d.
Proof.
  intros Hok Hwf N. pose proof (rollback_apply_id_lemma d e Hok Hwf) as R.
  destruct Hok as (Su & _). destruct Hwf as (Wu & _).
  pose proof (utxo_delete_first_no_chain d e Su Wu N) as H1.
  pose proof (utxo_skip_absent_no_chain d e Su Wu N) as H2.
  unfold rollback_delete_first, rollback_skip_absent in *. cbn [utxo] in H1, H2.
  rewrite R. rewrite H1, H2. destruct d; split; reflexivity.
Qed.

Lemma apply_all_app (d : db) a b : apply_all d (a ++ b) = apply_all (apply_all d a) b.
Proof. unfold apply_all. apply fold_left_app. Qed.
Lemma rollback_all_app (d : db) a b : rollback_all d (a ++ b) = rollback_all (rollback_all d a) b.
Proof. unfold rollback_all. apply fold_left_app. Qed.

(* a whole branch *)
Lemma rollback_branch_id es : forall d, db_ok d -> wf_branch d es ->
  rollback_all (apply_all d es) (rev es) = d.
Proof.
  induction es as [|e es IH]; intros d Hok Hwf; [reflexivity|].
  destruct Hwf as [We Wes].
  change (apply_all d (e :: es)) with (apply_all (apply d e) es).
  change (rev (e :: es)) with (rev es ++ [e]).
  rewrite rollback_all_app. rewrite IH; [|apply apply_ok; exact Hok|exact Wes].
  change (rollback_all (apply d e) [e]) with (rollback (apply d e) e).
  apply rollback_apply_id_lemma; assumption.
Qed.

Lemma reorg_equals_direct_lemma anc A B : db_ok anc -> wf_branch anc A ->
  reorg (apply_all anc A) (rev A) B = apply_all anc B.
Proof. intros Hok Hwf. unfold reorg. rewrite rollback_branch_id; auto. Qed.

Lemma reorg_back_restores_lemma anc A B : db_ok anc -> wf_branch anc A -> wf_branch anc B ->
  reorg (reorg (apply_all anc A) (rev A) B) (rev B) A = apply_all anc A.
Proof.
  intros Hok WA WB. rewrite (reorg_equals_direct_lemma anc A B Hok WA).
  apply reorg_equals_direct_lemma; assumption.
Qed.

(* ---------- re-execution: effects are a function of the state the block is executed on ---------- *)
Section Process.
Variable block : Type.
Variable process : db -> block -> effect.

Fixpoint run (d : db) (bs : list block) : db :=
  match bs with
  | [] => d
  | b :: bs' => run (apply d (process d b)) bs'
  end.
Fixpoint effects_of (d : db) (bs : list block) : list effect :=
  match bs with
  | [] => []
  | b :: bs' => process d b :: effects_of (apply d (process d b)) bs'
  end.

Lemma run_apply_all bs : forall d, run d bs = apply_all d (effects_of d bs).
Proof. induction bs as [|b bs IH]; intros d; cbn; [reflexivity|]. apply IH. Qed.

Lemma reorg_reexecution_lemma anc A B : db_ok anc -> wf_branch anc (effects_of anc A) ->
  run (rollback_all (run anc A) (rev (effects_of anc A))) B = run anc B.
Proof.
  intros Hok Hwf. rewrite (run_apply_all A anc). rewrite rollback_branch_id; auto.
Qed.
End Process.

(* ---------- what is present afterwards ---------- *)
Lemma utxo_apply_absent (d : db) (e : effect) k : sorted (utxo d) ->
  get k (utxo d) = None -> ~ In k (map fst (e_created e)) -> get k (utxo (apply d e)) = None.
Proof.
  intros S G N. unfold apply; cbn.
  assert (Sp : sorted (put_all (e_created e) (utxo d))) by (apply put_all_sorted; exact S).
  assert (G1 : get k (put_all (e_created e) (utxo d)) = None).
  { rewrite get_put_all. destruct (first_rec k (rev (e_created e))) eqn:F; [|exact G].
    apply first_rec_rev_In in F. apply (in_map fst) in F. contradiction. }
  destruct (kmem_dec k (map fst (e_trimmed e))) as [H|H].
  - apply get_del_all_in; [apply del_all_sorted; exact Sp|exact H].
  - rewrite get_del_all_notin; [|apply del_all_sorted; exact Sp|exact H].
    destruct (kmem_dec k (map fst (e_spent e))) as [H2|H2].
    + apply get_del_all_in; [exact Sp|exact H2].
    + rewrite get_del_all_notin; [exact G1|exact Sp|exact H2].
Qed.

Lemma utxo_apply_kept (d : db) (e : effect) k : sorted (utxo d) ->
  ~ In k (map fst (e_created e)) -> ~ In k (map fst (e_spent e ++ e_trimmed e)) ->
  get k (utxo (apply d e)) = get k (utxo d).
Proof.
  intros S N1 N2. unfold apply; cbn. rewrite map_app in N2.
  assert (Sp : sorted (put_all (e_created e) (utxo d))) by (apply put_all_sorted; exact S).
  rewrite get_del_all_notin; [|apply del_all_sorted; exact Sp|intros H; apply N2; apply in_or_app; right; exact H].
  rewrite get_del_all_notin; [|exact Sp|intros H; apply N2; apply in_or_app; left; exact H].
  rewrite get_put_all. destruct (first_rec k (rev (e_created e))) eqn:F; [|reflexivity].
  apply first_rec_rev_In in F. apply (in_map fst) in F. contradiction.
Qed.

Lemma utxo_apply_all_absent (es : list effect) : forall (d : db) k, db_ok d -> get k (utxo d) = None ->
  (forall e, In e es -> ~ In k (map fst (e_created e))) -> get k (utxo (apply_all d es)) = None.
Proof.
  induction es as [|e es IH]; intros d k Hok G N; cbn; [exact G|].
  apply IH; [apply apply_ok; exact Hok| |intros e' H; apply N; right; exact H].
  apply utxo_apply_absent; [apply Hok|exact G|apply N; left; reflexivity].
Qed.

Lemma utxo_apply_all_kept (es : list effect) : forall (d : db) k, db_ok d ->
  (forall e, In e es -> ~ In k (map fst (e_created e)) /\ ~ In k (map fst (e_spent e ++ e_trimmed e))) ->
  get k (utxo (apply_all d es)) = get k (utxo d).
Proof.
  induction es as [|e es IH]; intros d k Hok N; cbn; [reflexivity|].
  unfold apply_all in IH. rewrite IH; [|apply apply_ok; exact Hok|intros e' H; apply N; right; exact H].
  destruct (N e (or_introl eq_refl)). apply utxo_apply_kept; [apply Hok|assumption|assumption].
Qed.

Lemma lockups_apply_all_kept (es : list effect) : forall (d : db) k, db_ok d ->
  (forall e, In e es -> ~ In k (map fst (e_lk_writes e))) ->
  get k (lockups (apply_all d es)) = get k (lockups d).
Proof.
  induction es as [|e es IH]; intros d k Hok N; cbn; [reflexivity|].
  unfold apply_all in IH. rewrite IH; [|apply apply_ok; exact Hok|intros e' H; apply N; right; exact H].
  unfold apply; cbn. apply lk_writes_untouched; [apply Hok|apply N; left; reflexivity].
Qed.

Lemma abandoned_lemma (anc : db) (A B : list effect) k : db_ok anc -> wf_branch anc A ->
  get k (utxo anc) = None -> (forall e, In e B -> ~ In k (map fst (e_created e))) ->
  get k (utxo (reorg (apply_all anc A) (rev A) B)) = None.
Proof.
  intros Hok WA G N. rewrite reorg_equals_direct_lemma; auto. apply utxo_apply_all_absent; auto.
Qed.

Lemma spent_restored_lemma (anc : db) (A B : list effect) k : db_ok anc -> wf_branch anc A ->
  (forall e, In e B -> ~ In k (map fst (e_created e)) /\ ~ In k (map fst (e_spent e ++ e_trimmed e))) ->
  get k (utxo (reorg (apply_all anc A) (rev A) B)) = get k (utxo anc).
Proof.
  intros Hok WA N. rewrite reorg_equals_direct_lemma; auto. apply utxo_apply_all_kept; auto.
Qed.

Lemma lockups_follow_lemma (anc : db) (A B : list effect) k : db_ok anc -> wf_branch anc A ->
  (forall e, In e B -> ~ In k (map fst (e_lk_writes e))) ->
  get k (lockups (reorg (apply_all anc A) (rev A) B)) = get k (lockups anc).
Proof.
  intros Hok WA N. rewrite reorg_equals_direct_lemma; auto. apply lockups_apply_all_kept; auto.
Qed.

(* ---------- canonical map and head of a well-formed branch ---------- *)
Lemma canon_branch (es : list effect) : forall (d : db), db_ok d -> wf_branch d es ->
  (forall e, In e es -> get (nkey (e_num e)) (canon (apply_all d es)) = Some (e_hash e)) /\
  (forall n, (forall e, In e es -> e_num e <> n) -> get (nkey n) (canon (apply_all d es)) = get (nkey n) (canon d)) /\
  head (apply_all d es) = last (map (@e_hash L) es) (head d).
Proof.
  induction es as [|e es IH]; intros d Hok Hwf.
  - cbn. split; [intros e []|split; [intros; reflexivity|reflexivity]].
  - destruct Hwf as [We Wes]. cbn [apply_all fold_left].
    destruct (IH (apply d e) (apply_ok d e Hok) Wes) as (I1 & I2 & I3). unfold apply_all in *.
    repeat split.
    + intros e' [<-|Hin]; [|apply I1; exact Hin].
      (* the block itself: later blocks never write its number (their number was free) *)
      rewrite I2; [unfold apply; cbn; apply get_put_same|].
      intros e' Hin E.
      assert (G : forall es0 d0, db_ok d0 -> wf_branch d0 es0 -> In e' es0 ->
                  get (nkey (e_num e')) (canon d0) = Some (e_hash e) -> False).
      { clear. induction es0 as [|x es0 IH0]; intros d0 Hok0 W0 Hin0 G0; [destruct Hin0|].
        destruct W0 as [Wx Wr]. destruct Hin0 as [->|Hin0].
        - destruct Wx as (_ & _ & (_ & _ & _ & Hnone)). congruence.
        - apply (IH0 (apply d0 x)); [apply apply_ok; exact Hok0|exact Wr|exact Hin0|].
          unfold apply; cbn. destruct (kmem_dec (nkey (e_num e')) [nkey (e_num x)]) as [[Heq|[]]|Hne].
          + exfalso. destruct Wx as (_ & _ & (_ & _ & _ & Hnone)). rewrite Heq in Hnone. congruence.
          + rewrite get_put_other; [exact G0|intros Heq; apply Hne; left; symmetry; exact Heq]. }
      apply (G es (apply d e) (apply_ok d e Hok) Wes Hin).
      rewrite E. unfold apply; cbn. apply get_put_same.
    + intros n Hn. rewrite I2; [|intros e' Hin; apply Hn; right; exact Hin].
      unfold apply; cbn. apply get_put_other. intros Heq. apply nkey_inj in Heq.
      apply (Hn e (or_introl eq_refl)). symmetry; exact Heq.
    + rewrite I3. cbn [map]. unfold apply at 1; cbn [head].
      destruct es as [|e0 es]; [reflexivity|].
      cbn [map]. change (last (e_hash e :: e_hash e0 :: map (@e_hash L) es) (head d))
        with (last (e_hash e0 :: map (@e_hash L) es) (head d)).
      apply last_default_irrel.
Qed.

(* ---------- booleans reflect the propositions ---------- *)
Variable leqb : L -> L -> bool.
Hypothesis leqb_spec : forall a b, leqb a b = true <-> a = b.

Lemma oeqb_spec {A} (f : A -> A -> bool) (Hf : forall a b, f a b = true <-> a = b) x y :
  oeqb f x y = true <-> x = y.
Proof.
  destruct x, y; cbn; try (split; [discriminate|intros H; discriminate]); try tauto.
  rewrite Hf. split; congruence.
Qed.

Lemma wf_utxob_sound d e : wf_utxob d e = true -> wf_utxo d e.
Proof.
  unfold wf_utxob. fold (created_keys e). intros H.
  apply andb_prop in H as [H H3]. apply andb_prop in H as [H1 H2].
  rewrite forallb_forall in H1, H2, H3. repeat split.
  - intros k Hin. specialize (H1 k Hin). destruct (get k (utxo d)); [discriminate|reflexivity].
  - intros k v Hin. specialize (H2 _ Hin). cbn in H2. apply orb_prop in H2 as [H2|H2].
    + left. apply kmem_In; exact H2.
    + right. apply (oeqb_spec keqb keqb_eq) in H2. exact H2.
  - intros k v Hin. specialize (H3 _ Hin). apply kmem_In; exact H3.
Qed.

Lemma wf_lkb_sound d e : wf_lkb leqb d e = true -> wf_lk d e.
Proof.
  unfold wf_lkb. intros H.
  apply andb_prop in H as [H H3]. apply andb_prop in H as [H1 H2].
  rewrite forallb_forall in H1, H2, H3. repeat split.
  - intros k Hin. specialize (H1 k Hin). destruct (get k (lockups d)); [discriminate|reflexivity].
  - intros k Hin. apply in_map_iff in Hin as [[k0 v] [E Hin]]. cbn in E; subst k0.
    specialize (H2 _ Hin). cbn in H2. apply orb_prop in H2 as [H2|H2].
    + left. apply kmem_In; exact H2.
    + right. apply (oeqb_spec leqb leqb_spec) in H2. exact H2.
  - intros k w Hin. specialize (H3 _ Hin). cbn in H3. apply orb_prop in H3 as [H3|H3]; [left|right]; apply kmem_In; exact H3.
Qed.

Lemma wf_chainb_sound d e : wf_chainb d e = true -> wf_chain d e.
Proof.
  unfold wf_chainb. intros H.
  apply andb_prop in H as [H H4]. apply andb_prop in H as [H H3]. apply andb_prop in H as [H1 H2].
  repeat split.
  - apply N.ltb_lt; exact H1.
  - apply keqb_eq; exact H2.
  - apply (oeqb_spec keqb keqb_eq) in H3. exact H3.
  - destruct (get (nkey (e_num e)) (canon d)); [discriminate|reflexivity].
Qed.

Lemma wf_effectb_sound d e : wf_effectb leqb d e = true -> wf_effect d e.
Proof.
  unfold wf_effectb. intros H. apply andb_prop in H as [H H3]. apply andb_prop in H as [H1 H2].
  split; [apply wf_utxob_sound; assumption|split; [apply wf_lkb_sound; assumption|apply wf_chainb_sound; assumption]].
Qed.

Lemma wf_branchb_sound es : forall d, wf_branchb leqb d es = true -> wf_branch d es.
Proof.
  induction es as [|e es IH]; intros d H; cbn in *; [exact I|].
  apply andb_prop in H as [H1 H2]. split; [apply wf_effectb_sound; exact H1|apply IH; exact H2].
Qed.

End Generic.

Lemma db_sortedb_ok {L} (d : db L) : db_sortedb d = true -> db_ok d.
Proof.
  unfold db_sortedb. intros H. apply andb_prop in H as [H H3]. apply andb_prop in H as [H1 H2].
  repeat split; apply sortedb_sorted; assumption.
Qed.

(* ================= outputs created and spent inside one block ================= *)
(* whatever the state: after the rollback batch of a block none of its created keys is present *)
Lemma created_absent_after_rollback {L} (d : db L) (e : effect L) k :
  sorted (utxo d) -> In k (created_keys e) -> get k (utxo (rollback d e)) = None.
Proof.
  intros S H. unfold rollback; cbn. fold (created_keys e).
  apply get_del_all_in; [apply put_all_sorted; exact S|exact H].
Qed.

(* block 5 on [ic_db]: tx1 spends [1] and creates [7] and [8]; tx2 spends [7] (created by tx1 in the
   same block) and creates [9]; tx3 spends [9] and creates [6]; an old output [3] is trimmed *)
Definition ic_db : db val :=
  mkDb [([1], [10]); ([2], [20]); ([3], [30])] [] [([4], [44])] [44].
Definition ic_eff : effect val :=
  mkEff 5 [55] [44] [([7], [70]); ([8], [80]); ([9], [90]); ([6], [60])] [[7]; [8]; [9]; [6]]
        [([1], [10]); ([7], [70]); ([9], [90])] [([3], [30])] [] [] [].

Lemma ic_wf : db_ok ic_db /\ wf_effect ic_db ic_eff.
Proof.
  split; [apply db_sortedb_ok; vm_compute; reflexivity|].
  apply (wf_effectb_sound keqb keqb_eq). vm_compute. reflexivity.
Qed.

Lemma intra_chain_facts :
  apply ic_db ic_eff = mkDb [([2], [20]); ([6], [60]); ([8], [80])] [] [([4], [44]); ([5], [55])] [55]
  /\ rollback (apply ic_db ic_eff) ic_eff = ic_db.
Proof. vm_compute. split; reflexivity. Qed.

Lemma rollback_delete_first_refuted_lemma :
  exists (d : db val) e k, db_ok d /\ wf_effect d e /\ rollback (apply d e) e = d /\
    get k (utxo d) = None /\ get k (utxo (apply d e)) = None /\
    get k (utxo (rollback_delete_first (apply d e) e)) <> None.
Proof.
  exists ic_db, ic_eff, [7]. destruct ic_wf as [A B].
  split; [exact A|]. split; [exact B|]. split; [vm_compute; reflexivity|].
  split; [vm_compute; reflexivity|]. split; [vm_compute; reflexivity|]. vm_compute. discriminate.
Qed.

Lemma rollback_skip_absent_refuted_lemma :
  exists (d : db val) e k, db_ok d /\ wf_effect d e /\ rollback (apply d e) e = d /\
    get k (utxo d) = None /\ get k (utxo (apply d e)) = None /\
    get k (utxo (rollback_skip_absent (apply d e) e)) <> None.
Proof.
  exists ic_db, ic_eff, [9]. destruct ic_wf as [A B].
  split; [exact A|]. split; [exact B|]. split; [vm_compute; reflexivity|].
  split; [vm_compute; reflexivity|]. split; [vm_compute; reflexivity|]. vm_compute. discriminate.
Qed.

(* ================= the restore record must carry the previous bytes ================= *)
Definition f6_db : db val :=
  mkDb [] [([99;108;1], [0;7;1])] [([4], [44])] [44].
Definition f6_eff : effect val :=
  mkEff 5 [55] [44] [] [] [] [] [([99;108;1], Some [0;9;2])] [] [([99;108;1], [0;7;2])].

Lemma f6_shape_refuted :
  db_ok f6_db /\ wf_utxo f6_db f6_eff /\ wf_chain f6_db f6_eff /\
  (forall k, In k (e_lk_created f6_eff) -> get k (lockups f6_db) = None) /\
  (forall k w, In (k, w) (e_lk_writes f6_eff) -> In k (e_lk_created f6_eff) \/ In k (map fst (e_lk_deleted f6_eff))) /\
  rollback (apply f6_db f6_eff) f6_eff <> f6_db.
Proof.
  repeat split; cbn; try tauto; try (intros; contradiction); try lia.
  - intros k v [].
  - intros k v [].
  - intros k w [H|[]]. inversion H; subst. right; left; reflexivity.
  - vm_compute. discriminate.
Qed.

(* ================= AddNewLock / claims: the undo records of one block ================= *)
Definition heights_ok (m : smap lkrec) : Prop := forall k r, get k m = Some r -> lk_height r <> 0.

Definition no_add_after_claim (rs : list lkreq) : Prop :=
  forall k, In (RClaim k) rs -> forall v uh dg, ~ In (RAdd k v uh dg) rs.

Lemma lkrec_eta r : mkLk (lk_bal r) (lk_height r) (lk_elems r) (lk_deleg r) = r.
Proof. destruct r; reflexivity. Qed.

Lemma lkrec_eqb_spec a b : lkrec_eqb a b = true <-> a = b.
Proof.
  destruct a as [a1 a2 a3 a4], b as [b1 b2 b3 b4]. unfold lkrec_eqb; cbn. split.
  - intros H. apply andb_prop in H as [H H4]. apply andb_prop in H as [H H3]. apply andb_prop in H as [H1 H2].
    apply N.eqb_eq in H1, H2, H3. apply keqb_eq in H4. subst. reflexivity.
  - intros H; inversion H; subst. rewrite !N.eqb_refl, keqb_refl. reflexivity.
Qed.

(* invariant of the accumulator while Process walks over the requests of a block *)
Record lk_inv (m0 : smap lkrec) (claimed : list key) (a : lkacc) : Prop := {
  i_sorted : sorted (a_map a);
  i_map : a_map a = fold_left lk_write (a_writes a) m0;
  i_created : forall k, In k (a_created a) -> get k m0 = None;
  i_deleted : forall k, In k (map fst (a_deleted a)) -> In k (a_created a) \/ first_rec k (a_deleted a) = get k m0;
  i_writes : forall k w, In (k, w) (a_writes a) -> In k (a_created a) \/ In k (map fst (a_deleted a));
  i_heights : forall k r, ~ In k (a_created a) -> get k (a_map a) = Some r -> lk_height r <> 0;
  i_claimed : forall k, In k (map fst (a_deleted a)) -> ~ In k (a_created a) -> get k (a_map a) = None -> In k claimed
}.

Lemma lk_inv_untouched m0 cl a k : sorted m0 -> lk_inv m0 cl a ->
  ~ In k (a_created a) -> ~ In k (map fst (a_deleted a)) -> get k (a_map a) = get k m0.
Proof.
  intros S0 I Nc Nd. rewrite (i_map _ _ _ I). apply lk_writes_untouched; [exact S0|].
  intros H. apply in_map_iff in H as [[k0 w] [E Hin]]. cbn in E; subst k0.
  destruct (i_writes _ _ _ I _ _ Hin); contradiction.
Qed.

Lemma fold_lk_write_app (ws : list (key * option lkrec)) w m :
  fold_left lk_write (ws ++ [w]) m = lk_write (fold_left lk_write ws m) w.
Proof. rewrite fold_left_app. reflexivity. Qed.

Lemma lk_step_inv eb m0 cl a r : sorted m0 -> lk_inv m0 cl a ->
  (match r with RAdd k _ _ _ => ~ In k cl | RClaim k => True end) ->
  lk_inv m0 (match r with RClaim k => k :: cl | _ => cl end) (lk_step true eb a r).
Proof.
  intros S0 I Hr. destruct r as [k v uh dg|k]; cbn [lk_step].
  - (* AddNewLock *)
    unfold add_new_lock_s.
    set (old := get k (a_map a)). set (r := match old with Some r => r | None => mkLk 0 0 0 [] end).
    destruct (negb (lk_height r =? 0) && (uh <? lk_height r)) eqn:Eerr; [exact I|].
    destruct (lk_height r =? 0) eqn:Eh.
    + (* created *)
      apply N.eqb_eq in Eh.
      constructor; cbn [a_map a_writes a_created a_deleted].
      * apply put_sorted. apply (i_sorted _ _ _ I).
      * rewrite fold_lk_write_app. rewrite <- (i_map _ _ _ I). reflexivity.
      * intros k0 Hin. apply in_app_or in Hin as [Hin|[<-|[]]]; [apply (i_created _ _ _ I); exact Hin|].
        destruct (kmem_dec k (a_created a)) as [Hc|Hc]; [apply (i_created _ _ _ I); exact Hc|].
        assert (Hnone : old = None).
        { destruct old as [ro|] eqn:Eo; [|reflexivity]. exfalso.
          apply (i_heights _ _ _ I k ro Hc Eo). exact Eh. }
        destruct (kmem_dec k (map fst (a_deleted a))) as [Hd|Hd].
        -- exfalso. apply Hr. apply (i_claimed _ _ _ I k Hd Hc Hnone).
        -- rewrite <- (lk_inv_untouched m0 cl a k S0 I Hc Hd). exact Hnone.
      * intros k0 Hin. destruct (i_deleted _ _ _ I k0 Hin) as [H|H]; [left; apply in_or_app; left; exact H|right; exact H].
      * intros k0 w Hin. apply in_app_or in Hin as [Hin|[E|[]]].
        -- destruct (i_writes _ _ _ I _ _ Hin) as [H|H]; [left; apply in_or_app; left; exact H|right; exact H].
        -- inversion E; subst. left. apply in_or_app; right; left; reflexivity.
      * intros k0 r0 Nc G. assert (k0 <> k) by (intros ->; apply Nc; apply in_or_app; right; left; reflexivity).
        rewrite get_put_other in G by assumption.
        apply (i_heights _ _ _ I k0 r0); [intros X; apply Nc; apply in_or_app; left; exact X|exact G].
      * intros k0 Hd Nc G. assert (k0 <> k) by (intros ->; apply Nc; apply in_or_app; right; left; reflexivity).
        rewrite get_put_other in G by assumption.
        apply (i_claimed _ _ _ I k0 Hd); [intros X; apply Nc; apply in_or_app; left; exact X|exact G].
    + (* updated: undo record = the record that was there *)
      apply N.eqb_neq in Eh. rewrite lkrec_eta.
      assert (Eo : old = Some r).
      { unfold r in *. destruct old; [reflexivity|]. cbn in Eh. contradiction. }
      constructor; cbn [a_map a_writes a_created a_deleted].
      * apply put_sorted. apply (i_sorted _ _ _ I).
      * rewrite fold_lk_write_app. rewrite <- (i_map _ _ _ I). reflexivity.
      * apply (i_created _ _ _ I).
      * intros k0 Hin. rewrite map_app in Hin. rewrite first_rec_app.
        destruct (kmem_dec k0 (a_created a)) as [Hc|Hc]; [left; exact Hc|right].
        destruct (first_rec k0 (a_deleted a)) as [x|] eqn:F.
        -- assert (Hd : In k0 (map fst (a_deleted a))) by (apply first_rec_In in F; apply (in_map fst) in F; exact F).
           destruct (i_deleted _ _ _ I k0 Hd) as [H|H]; [contradiction|]. rewrite <- H. symmetry; exact F.
        -- apply first_rec_None in F. apply in_app_or in Hin as [Hin|[E|[]]]; [contradiction|].
           cbn in E; subst k0. cbn. rewrite keqb_refl.
           rewrite <- (lk_inv_untouched m0 cl a k S0 I Hc F). symmetry. exact Eo.
      * intros k0 w Hin. apply in_app_or in Hin as [Hin|[E|[]]].
        -- destruct (i_writes _ _ _ I _ _ Hin) as [H|H]; [left; exact H|right; rewrite map_app; apply in_or_app; left; exact H].
        -- inversion E; subst. right. rewrite map_app. apply in_or_app; right; left; reflexivity.
      * intros k0 r0 Nc G. destruct (kmem_dec k0 [k]) as [[<-|[]]|Hne].
        -- rewrite get_put_same in G. inversion G; subst; cbn. exact Eh.
        -- rewrite get_put_other in G by (intros ->; apply Hne; left; reflexivity).
           apply (i_heights _ _ _ I k0 r0 Nc G).
      * intros k0 Hd Nc G. destruct (kmem_dec k0 [k]) as [[<-|[]]|Hne].
        -- rewrite get_put_same in G. discriminate.
        -- rewrite get_put_other in G by (intros ->; apply Hne; left; reflexivity).
           rewrite map_app in Hd. apply in_app_or in Hd as [Hd|[E|[]]];
             [apply (i_claimed _ _ _ I k0 Hd Nc G)|cbn in E; subst; exfalso; apply Hne; left; reflexivity].
  - (* ClaimCoinbaseLockup *)
    destruct (get k (a_map a)) as [old|] eqn:Eo.
    + constructor; cbn [a_map a_writes a_created a_deleted].
      * apply del_sorted. apply (i_sorted _ _ _ I).
      * rewrite fold_lk_write_app. rewrite <- (i_map _ _ _ I). reflexivity.
      * apply (i_created _ _ _ I).
      * intros k0 Hin. rewrite map_app in Hin. rewrite first_rec_app.
        destruct (kmem_dec k0 (a_created a)) as [Hc|Hc]; [left; exact Hc|right].
        destruct (first_rec k0 (a_deleted a)) as [x|] eqn:F.
        -- assert (Hd : In k0 (map fst (a_deleted a))) by (apply first_rec_In in F; apply (in_map fst) in F; exact F).
           destruct (i_deleted _ _ _ I k0 Hd) as [H|H]; [contradiction|]. rewrite <- H. symmetry; exact F.
        -- apply first_rec_None in F. apply in_app_or in Hin as [Hin|[E|[]]]; [contradiction|].
           cbn in E; subst k0. cbn. rewrite keqb_refl.
           rewrite <- (lk_inv_untouched m0 cl a k S0 I Hc F). symmetry. exact Eo.
      * intros k0 w Hin. apply in_app_or in Hin as [Hin|[E|[]]].
        -- destruct (i_writes _ _ _ I _ _ Hin) as [H|H]; [left; exact H|right; rewrite map_app; apply in_or_app; left; exact H].
        -- inversion E; subst. right. rewrite map_app. apply in_or_app; right; left; reflexivity.
      * intros k0 r0 Nc G. destruct (kmem_dec k0 [k]) as [[<-|[]]|Hne].
        -- rewrite get_del_same in G by (apply (i_sorted _ _ _ I)). discriminate.
        -- rewrite get_del_other in G; [|apply (i_sorted _ _ _ I)|intros ->; apply Hne; left; reflexivity].
           apply (i_heights _ _ _ I k0 r0 Nc G).
      * intros k0 Hd Nc G. destruct (kmem_dec k0 [k]) as [[<-|[]]|Hne]; [left; reflexivity|right].
        rewrite get_del_other in G; [|apply (i_sorted _ _ _ I)|intros ->; apply Hne; left; reflexivity].
        rewrite map_app in Hd. apply in_app_or in Hd as [Hd|[E|[]]];
          [apply (i_claimed _ _ _ I k0 Hd Nc G)|cbn in E; subst; exfalso; apply Hne; left; reflexivity].
    + (* nothing to claim *)
      destruct I as [I1 I2 I3 I4 I5 I6 I7]. constructor; auto.
      intros k0 Hd Nc G. right. apply I7; assumption.
Qed.

Lemma lk_process_inv eb m0 rs : sorted m0 -> heights_ok m0 -> no_add_after_claim rs ->
  exists cl, lk_inv m0 cl (lk_process true eb m0 rs).
Proof.
  intros S0 H0 Hno. unfold lk_process.
  assert (G : forall rs1 rs2 a cl, rs = rs1 ++ rs2 -> lk_inv m0 cl a ->
              (forall k, In k cl -> In (RClaim k) rs1) ->
              exists cl', lk_inv m0 cl' (fold_left (lk_step true eb) rs2 a)).
  { intros rs1 rs2; revert rs1. induction rs2 as [|r rs2 IH]; intros rs1 a cl E I Hcl; cbn; [exists cl; exact I|].
    apply (IH (rs1 ++ [r]) _ (match r with RClaim k => k :: cl | _ => cl end)).
    - rewrite <- app_assoc. exact E.
    - apply lk_step_inv; [exact S0|exact I|].
      destruct r as [k v uh dg|k]; [|exact Logic.I]. intros Hin. apply Hcl in Hin.
      apply (Hno k) with (v := v) (uh := uh) (dg := dg); [rewrite E; apply in_or_app; left; exact Hin|].
      rewrite E. apply in_or_app; right; left; reflexivity.
    - intros k0 Hin. apply in_or_app. destruct r as [k v uh dg|k].
      + left. apply Hcl; exact Hin.
      + destruct Hin as [<-|Hin]; [right; left; reflexivity|left; apply Hcl; exact Hin]. }
  apply (G [] rs (mkAcc m0 [] [] []) []); [reflexivity| |intros k []].
  constructor; cbn; try (intros; contradiction); auto.
  intros k r _ Hg. apply (H0 k r Hg).
Qed.

Lemma lk_effect_wf eb n h p (d : db lkrec) rs :
  sorted (lockups d) -> heights_ok (lockups d) -> no_add_after_claim rs ->
  wf_lk d (lk_effect true eb n h p (lockups d) rs).
Proof.
  intros S H0 Hno. destruct (lk_process_inv eb (lockups d) rs S H0 Hno) as [cl I].
  unfold lk_effect, wf_lk; cbn. repeat split.
  - apply (i_created _ _ _ I).
  - apply (i_deleted _ _ _ I).
  - apply (i_writes _ _ _ I).
Qed.

Lemma lockup_undo_exact_fixed_lemma eb n h p (d : db lkrec) rs :
  sorted (lockups d) -> heights_ok (lockups d) -> no_add_after_claim rs ->
  let e := lk_effect true eb n h p (lockups d) rs in
  lockups (rollback (apply d e) e) = lockups d.
Proof.
  intros S H0 Hno e. apply lockups_rollback_apply; [exact S|]. apply lk_effect_wf; assumption.
Qed.

(* with the NEW delegate in the undo record: same as the fixed function as long as no update
   changes the stored delegate *)
Lemma add_new_lock_same old v uh eb dg :
  (match old with Some r => (lk_height r =? 0) || keqb (lk_deleg r) (norm_deleg dg) | None => true end) = true ->
  add_new_lock_s false old v uh eb dg = add_new_lock_s true old v uh eb dg.
Proof.
  intros H. unfold add_new_lock_s. destruct old as [r|]; cbn in *; [|reflexivity].
  destruct (negb (lk_height r =? 0) && (uh <? lk_height r)); [reflexivity|].
  destruct (lk_height r =? 0) eqn:E; [reflexivity|]. cbn in H. apply keqb_eq in H. rewrite H. reflexivity.
Qed.

Lemma lk_process_stable eb rs : forall m wr cr dl,
  delegate_stable eb m rs = true ->
  fold_left (lk_step false eb) rs (mkAcc m wr cr dl) = fold_left (lk_step true eb) rs (mkAcc m wr cr dl).
Proof.
  induction rs as [|r rs IH]; intros m wr cr dl H; cbn in *; [reflexivity|].
  apply andb_prop in H as [H1 H2].
  assert (E : lk_step false eb (mkAcc m wr cr dl) r = lk_step true eb (mkAcc m wr cr dl) r).
  { destruct r as [k v uh dg|k]; cbn; [|reflexivity]. rewrite add_new_lock_same; [reflexivity|exact H1]. }
  rewrite E.
  assert (M : a_map (lk_step true eb (mkAcc m wr cr dl) r) = a_map (lk_step true eb (mkAcc m [] [] []) r)).
  { destruct r as [k v uh dg|k]; cbn.
    - destruct (add_new_lock_s true (get k m) v uh eb dg); reflexivity.
    - destruct (get k m); reflexivity. }
  destruct (lk_step true eb (mkAcc m wr cr dl) r) as [m' wr' cr' dl'] eqn:Es. cbn in M. subst m'.
  apply IH. exact H2.
Qed.

Lemma lockup_undo_exact_partial_lemma eb n h p (d : db lkrec) rs :
  sorted (lockups d) -> heights_ok (lockups d) -> no_add_after_claim rs ->
  delegate_stable eb (lockups d) rs = true ->
  let e := lk_effect false eb n h p (lockups d) rs in
  lockups (rollback (apply d e) e) = lockups d.
Proof.
  intros S H0 Hno Hst. unfold lk_effect, lk_process.
  rewrite (lk_process_stable eb rs (lockups d) [] [] [] Hst).
  apply (lockup_undo_exact_fixed_lemma eb n h p d rs S H0 Hno).
Qed.

(* the witness: a tranche created without delegate, then topped up by a coinbase naming a delegate *)
Definition f6_key : key := [99; 108; 1].
Definition f6_map : smap lkrec := [(f6_key, mkLk 5000 8 1 [])].
Definition f6_reqs : list lkreq := [RAdd f6_key 5000 9 [58; 214]].

Lemma lockup_undo_refuted_lemma :
  sorted f6_map /\ heights_ok f6_map /\ no_add_after_claim f6_reqs /\
  let d := mkDb [] f6_map [] [] in
  let e := lk_effect false 4 7 [7] [6] f6_map f6_reqs in
  lockups (rollback (apply d e) e) <> lockups d.
Proof.
  repeat split.
  - intros k v [].
  - intros k r H. unfold f6_map in H. cbn in H. destruct (kcmp k f6_key); inversion H; subst; cbn; lia.
  - intros k [H|[]]. discriminate.
  - vm_compute. discriminate.
Qed.

(* ---------- a passed correspondence case is an instance of the theorem ---------- *)
Lemma smap_eqb_eq (a b : smap val) : smap_eqb keqb a b = true -> a = b.
Proof.
  revert b; induction a as [|[k v] a IH]; intros [|[k' v'] b] H; cbn in H; try discriminate; [reflexivity|].
  apply andb_prop in H as [H H3]. apply andb_prop in H as [H1 H2].
  apply keqb_eq in H1, H2. subst. f_equal. apply IH; exact H3.
Qed.

Lemma db_eqb_eq (x y : db val) : db_eqb keqb x y = true -> x = y.
Proof.
  destruct x as [u l c h], y as [u' l' c' h']. unfold db_eqb; cbn. intros H.
  apply andb_prop in H as [H H4]. apply andb_prop in H as [H H3]. apply andb_prop in H as [H1 H2].
  apply smap_eqb_eq in H1, H2, H3. apply keqb_eq in H4. subst. reflexivity.
Qed.

Lemma checked_case_exact_lemma id anc olds news pre post wn :
  case_ok (CReorg id anc olds news pre post true wn) = true -> post = apply_all anc news.
Proof.
  unfold case_ok. intros H.
  apply andb_prop in H as [H _]. apply andb_prop in H as [H W].
  apply andb_prop in H as [H E2]. apply andb_prop in H as [S E1].
  apply db_eqb_eq in E1, E2. apply Bool.eqb_prop in W.
  subst pre. rewrite <- E2. apply reorg_equals_direct_lemma.
  - apply db_sortedb_ok; exact S.
  - apply (wf_branchb_sound keqb keqb_eq); exact W.
Qed.

(* C19 -- invariants of the pending lists relative to the chain state: every pending
   transaction has a nonce >= the account's state nonce, a non-empty pending list holds the
   state nonce, every pending transaction is payable from the balance and fits the block
   gas limit, and pendingNonces is the nonce after the last pending transaction. *)
From Coq Require Import List NArith PeanoNat Bool Lia ZifyBool ZifyNat ZifyN.
From GQ Require Import Model.C19 Proofs.C19_Lists Proofs.C19_Struct Proofs.C19_Ops.
Import ListNotations.
Local Open Scope N_scope.

Definition payable (p : pool) (a : N) (t : tx) : Prop := unpayable (st_bal p a) (s_maxgas (p_st p)) t = false.
Definition last_next (dflt : N) (l : txl) : N := match rev l with x :: _ => t_nonce x + 1 | [] => dflt end.

Record Wa (p : pool) (a : N) : Prop := {
  w_ge : forall t, In t (aget a (p_pend p)) -> st_nonce p a <= t_nonce t;
  w_front : aget a (p_pend p) <> [] -> hasn (aget a (p_pend p)) (st_nonce p a);
  w_pay : forall t, In t (aget a (p_pend p)) -> payable p a t;
  w_pn_ge : st_nonce p a <= pn_get p a;
  w_pn_empty : aget a (p_pend p) = [] -> pn_get p a = st_nonce p a
}.
Definition W (p : pool) : Prop := forall a, Wa p a.
Definition T4 (p : pool) : Prop := forall a, pn_get p a = last_next (st_nonce p a) (aget a (p_pend p)).

(* Wa only reads the chain state, pending[a] and pendingNonces[a] *)
Lemma Wa_ext p q a : p_st q = p_st p -> aget a (p_pend q) = aget a (p_pend p) -> pn_get q a = pn_get p a -> Wa p a -> Wa q a.
Proof.
  intros E1 E2 E3 [H1 H2 H3 H4 H5]. unfold payable, st_nonce, st_bal in *.
  constructor; unfold payable, st_nonce, st_bal; rewrite ?E1, ?E2, ?E3; auto.
Qed.

Definition same_view (p q : pool) : Prop := p_st q = p_st p /\ p_pend q = p_pend p /\ p_pn q = p_pn p.
Lemma sv_pn_get p q a : same_view p q -> pn_get q a = pn_get p a.
Proof. intros [E1 [E2 E3]]. unfold pn_get, st_nonce. rewrite E1, E3. reflexivity. Qed.
Lemma sv_Wa p q a : same_view p q -> Wa p a -> Wa q a.
Proof. intros S. pose proof (sv_pn_get p q a S) as E. destruct S as [E1 [E2 E3]]. apply Wa_ext; auto. rewrite E2; reflexivity. Qed.
Lemma sv_W p q : same_view p q -> W p -> W q.
Proof. intros S H a. eapply sv_Wa; eauto. Qed.
Lemma sv_refl p : same_view p p.
Proof. repeat split. Qed.
Lemma sv_trans p q r : same_view p q -> same_view q r -> same_view p r.
Proof. intros [A1 [A2 A3]] [B1 [B2 B3]]. repeat split; congruence. Qed.
Lemma sv_removed n p : same_view p (removed n p).
Proof. destruct (removed_eq n p) as [h [s ->]]. repeat split. Qed.
Lemma sv_all_remove_list D p : same_view p (all_remove_list D p).
Proof. destruct (all_remove_list_fields D p) as [A [B [C [E _]]]]. repeat split; assumption. Qed.
Lemma sv_set_queue a l p : same_view p (set_queue a l p).
Proof. repeat split. Qed.
Lemma sv_heap_put t l p : same_view p (heap_put t l p).
Proof. unfold heap_put. destruct l; repeat split. Qed.
Lemma sv_requeue c x p : same_view p (requeue c x p).
Proof. destruct (requeue_fields c x p) as [A [B [C _]]]. repeat split; assumption. Qed.
Lemma sv_requeue_list c D p : same_view p (fold_left (fun s t => requeue c t s) D p).
Proof. destruct (requeue_list_fields c D p) as [A [B [C _]]]. repeat split; assumption. Qed.

(* pn_get through the setters *)
Lemma pn_get_pn_set a v p b : pn_get (pn_set a v p) b = if a =? b then v else pn_get p b.
Proof. unfold pn_get, pn_set, st_nonce. psimpl. cbn [nfind]. destruct (a =? b); reflexivity. Qed.
Lemma pn_get_set_pend a l p b : pn_get (set_pend a l p) b = pn_get p b.
Proof. reflexivity. Qed.
Lemma pn_get_if_lower a v p b : pn_get (pn_set_if_lower a v p) b = if a =? b then N.min (pn_get p a) v else pn_get p b.
Proof.
  unfold pn_set_if_lower. destruct (pn_get p a <=? v) eqn:E.
  - destruct (a =? b) eqn:E2; [|reflexivity]. assert (b = a) by lia. subst. lia.
  - rewrite pn_get_pn_set. destruct (a =? b); [lia|reflexivity].
Qed.

(* ---------- last_next ---------- *)
Lemma last_next_sorted d l x : sorted l -> In x l -> t_nonce x < last_next d l.
Proof.
  intros Hs Hx. unfold last_next. destruct (rev l) as [|y r] eqn:Er.
  - apply (f_equal (@rev tx)) in Er. rewrite rev_involutive in Er. cbn in Er. subst l. destruct Hx.
  - assert (El : l = rev r ++ [y]) by (rewrite <- (rev_involutive l), Er; reflexivity).
    rewrite El in Hs, Hx. apply sorted_app in Hs as [_ [_ S3]]. apply in_app_or in Hx as [Hx|[<-|[]]]; [|lia].
    specialize (S3 x y Hx (or_introl eq_refl)). lia.
Qed.
Lemma last_next_hasn d l : l <> [] -> exists x, In x l /\ last_next d l = t_nonce x + 1.
Proof.
  intros Hn. unfold last_next. destruct (rev l) as [|y r] eqn:Er.
  - apply (f_equal (@rev tx)) in Er. rewrite rev_involutive in Er. cbn in Er. subst l. congruence.
  - exists y. split; [|reflexivity]. apply in_rev. rewrite Er. left; reflexivity.
Qed.

(* ---------- add ---------- *)
Lemma validate_ok p t : validate p t = None ->
  st_nonce p (t_from t) <= t_nonce t /\ payable p (t_from t) t.
Proof.
  unfold validate, payable, unpayable.
  destruct (_ <? t_gas t) eqn:E1; [discriminate|]. destruct (_ <? s_basefee _); [discriminate|].
  destruct (_ <? p_gasprice p); [discriminate|]. destruct (t_nonce t <? _) eqn:E2; [discriminate|].
  destruct (_ <? cost t) eqn:E3; [discriminate|]. intros _. split; [lia|]. reflexivity.
Qed.

Lemma l_put_hasn t l n : sorted l -> hasn l n -> hasn (l_put t l) n.
Proof.
  intros Hs [x [Hx En]]. destruct (N.eq_dec (t_nonce x) (t_nonce t)) as [E|E].
  - exists t. split; [apply l_put_in; auto|congruence].
  - exists x. split; [apply l_put_in; auto|exact En].
Qed.

(* replacing / inserting a validated transaction in pending[a] *)
Lemma Wa_put p a t :
  Wa p a -> sorted (aget a (p_pend p)) -> st_nonce p a <= t_nonce t -> payable p a t ->
  (aget a (p_pend p) = [] -> t_nonce t = st_nonce p a) ->
  Wa (set_pend a (l_put t (aget a (p_pend p))) p) a.
Proof.
  intros [H1 H2 H3 H4 H5] Hs Hge Hpay Hfirst.
  constructor; unfold payable, st_nonce, st_bal in *; psimpl; rewrite ?aget_aset_same.
  - intros x Hx. apply l_put_in in Hx as [->|[Hx _]]; auto.
  - intros _. destruct (aget a (p_pend p)) as [|y r] eqn:E.
    + exists t. split; [cbn; auto|]. apply Hfirst. reflexivity.
    + apply l_put_hasn; auto. apply H2. discriminate.
  - intros x Hx. apply l_put_in in Hx as [->|[Hx _]]; auto.
  - exact H4.
  - intros E. exfalso. eapply l_put_nonempty; eauto.
Qed.

Lemma locals_step_view l p : same_view p (let '(p'', m) := remote_to_locals (set_locals l p) in removed m p'').
Proof. unfold remote_to_locals. eapply sv_trans; [|apply sv_removed]. repeat split. Qed.

Lemma add_view c t loc p p' v r : add c t loc p = (p', v, r) ->
  p_st p' = p_st p /\ p_pn p' = p_pn p /\
  (p_pend p' = p_pend p \/
   (validate p t = None /\ p_pend p' = aset (t_from t) (l_put t (aget (t_from t) (p_pend p))) (p_pend p) /\
    exists o, l_get (t_nonce t) (aget (t_from t) (p_pend p)) = Some o)).
Proof.
  unfold add. destruct (all_has t p); [intros [= <- _ _]; auto|].
  destruct (validate p t) eqn:Ev; [intros [= <- _ _]; auto|].
  destruct (_ <? _); [intros [= <- _ _]; auto|].
  destruct (l_get (t_nonce t) (aget (t_from t) (p_pend p))) as [o0|] eqn:Eg.
  - destruct (l_add t (c_bump c) _) as [[pl' old]|] eqn:Ea; [|intros [= <- _ _]; auto].
    destruct (l_add_some _ _ _ _ _ Ea) as [-> [-> _]]. rewrite Eg. intros [= <- _ _].
    destruct (same_heap_put t (loc || mem_n (t_from t) (p_locals p)) (all_add t (loc || mem_n (t_from t) (p_locals p)) (removed 1 (all_remove o0 (set_pend (t_from t) (l_put t (aget (t_from t) (p_pend p))) p))))) as [_ _].
    pose proof (sv_heap_put t (loc || mem_n (t_from t) (p_locals p)) (all_add t (loc || mem_n (t_from t) (p_locals p)) (removed 1 (all_remove o0 (set_pend (t_from t) (l_put t (aget (t_from t) (p_pend p))) p))))) as [S1 [S2 S3]].
    rewrite S1, S2, S3. psimpl.
    destruct (removed_fields 1 (all_remove o0 (set_pend (t_from t) (l_put t (aget (t_from t) (p_pend p))) p))) as [A [B [C [D [E _]]]]].
    rewrite A, D, E. psimpl. split; [reflexivity|]. split; [reflexivity|]. right. split; [reflexivity|]. split; [reflexivity|]. eauto.
  - unfold enqueue_tx. destruct (l_add t (c_bump c) _) as [[q' old]|]; [|intros [= <- _ _]; auto].
    intros [= <- _ _].
    match goal with |- context [if ?b then _ else ?p1] => set (p1' := p1); assert (V : same_view p p1') end.
    { unfold p1'. eapply sv_trans; [|apply sv_heap_put]. destruct old as [o|].
      - pose proof (sv_removed 1 (all_remove o (set_queue (t_from t) q' p))) as [S1 [S2 S3]]. unfold same_view. psimpl. rewrite S1, S2, S3. psimpl. repeat split.
      - repeat split. }
    destruct (loc && negb (mem_n (t_from t) (p_locals p1'))).
    + match goal with |- p_st ?Z = _ /\ _ => assert (VZ : same_view p Z) end.
      { eapply sv_trans; [exact V|]. apply locals_step_view. }
      destruct VZ as [V1 [V2 V3]]. split; [exact V1|]. split; [exact V3|]. left; exact V2.
    + destruct V as [V1 [V2 V3]]. split; [exact V1|]. split; [exact V3|]. left; exact V2.
Qed.

Lemma add_W c t loc p : Inv0 p -> W p -> W (fst (fst (add c t loc p))).
Proof.
  intros H0 HW. destruct (add c t loc p) as [[p' v] r] eqn:Ea. cbn [fst].
  destruct (add_view _ _ _ _ _ _ _ Ea) as [E1 [E2 [E3|[Ev [E3 [o Eo]]]]]].
  - apply (sv_W p); [repeat split; assumption|exact HW].
  - intros b. destruct (N.eq_dec b (t_from t)) as [->|Hb].
    + destruct (validate_ok _ _ Ev) as [Hge Hpay].
      pose proof (Wa_put p (t_from t) t (HW _) (proj1 (ir_pend _ _ _ H0 _)) Hge Hpay) as X.
      assert (Hne : aget (t_from t) (p_pend p) = [] -> t_nonce t = st_nonce p (t_from t)).
      { intros E. rewrite E in Eo. discriminate. }
      specialize (X Hne). eapply Wa_ext; [| | |exact X]; psimpl; auto.
      * rewrite E3. reflexivity.
      * unfold pn_get, st_nonce. psimpl. rewrite E1, E2. reflexivity.
    + eapply Wa_ext; [exact E1| | |apply HW].
      * rewrite E3. apply aget_aset_other. auto.
      * unfold pn_get, st_nonce. rewrite E1, E2. reflexivity.
Qed.

(* ---------- promoteTx / promoteExecutables ---------- *)
Lemma Wa_pn_set p a v : Wa p a -> st_nonce p a <= v -> aget a (p_pend p) <> [] -> Wa (pn_set a v p) a.
Proof.
  intros [H1 H2 H3 H4 H5] Hv Hne. constructor; unfold payable, st_nonce, st_bal in *; psimpl; auto.
  - rewrite pn_get_pn_set, N.eqb_refl. exact Hv.
  - intros E. congruence.
Qed.

Lemma promote_tx_other c a x p b : b <> a ->
  aget b (p_pend (promote_tx c a x p)) = aget b (p_pend p) /\ pn_get (promote_tx c a x p) b = pn_get p b /\
  p_st (promote_tx c a x p) = p_st p.
Proof.
  intros Hb. unfold promote_tx. destruct (l_add _ _ _) as [[pl' [o|]]|].
  - rewrite pn_get_pn_set. destruct (a =? b) eqn:E; [lia|].
    pose proof (sv_removed 1 (all_remove o (set_pend a pl' p))) as S. rewrite (sv_pn_get _ _ b S).
    destruct S as [S1 [S2 S3]]. psimpl. rewrite S1, S2. psimpl. rewrite aget_aset_other by auto. auto.
  - rewrite pn_get_pn_set. destruct (a =? b) eqn:E; [lia|]. psimpl. rewrite aget_aset_other by auto. auto.
  - pose proof (sv_removed 1 (all_remove x p)) as S. rewrite (sv_pn_get _ _ b S).
    destruct S as [S1 [S2 S3]]. rewrite S1, S2. auto.
Qed.

Lemma promote_list_Wa c a D R p :
  InvR a (D ++ R) p -> Wa p a ->
  (forall x, In x D -> st_nonce p a <= t_nonce x /\ payable p a x) ->
  (aget a (p_pend p) = [] -> match D with x :: _ => t_nonce x = st_nonce p a | [] => True end) ->
  Wa (fold_left (fun s t => promote_tx c a t s) D p) a.
Proof.
  revert p. induction D as [|x D IH]; intros p HI HW HD Hfirst; cbn [fold_left]; [exact HW|].
  cbn [app] in HI. pose proof (promote_tx_eq c a x _ p HI) as Eq.
  assert (HW1 : Wa (promote_tx c a x p) a).
  { rewrite Eq. destruct (HD x (or_introl eq_refl)) as [Hge Hpay].
    apply Wa_pn_set.
    - apply Wa_put; auto. apply (ir_pend _ _ _ HI a).
    - unfold st_nonce in *. psimpl. lia.
    - psimpl. rewrite aget_aset_same. apply l_put_nonempty. }
  apply IH.
  - apply invr_promote. exact HI.
  - exact HW1.
  - intros y Hy. destruct (HD y (or_intror Hy)) as [A B]. rewrite Eq. unfold payable, st_nonce, st_bal in *. psimpl. auto.
  - intros E. exfalso. rewrite Eq in E. psimpl. rewrite aget_aset_same in E. eapply l_put_nonempty; eauto.
Qed.

Lemma promote_list_other c a D p b : b <> a ->
  let p' := fold_left (fun s t => promote_tx c a t s) D p in
  aget b (p_pend p') = aget b (p_pend p) /\ pn_get p' b = pn_get p b /\ p_st p' = p_st p.
Proof.
  intros Hb. revert p. induction D as [|x D IH]; intros p; cbn; [auto|].
  destruct (IH (promote_tx c a x p)) as [A [B C]]. destruct (promote_tx_other c a x p b Hb) as [A' [B' C']].
  cbn in *. repeat split; congruence.
Qed.

(* what promote_one does to the views: account a is rebuilt by a promote_list from a pool with
   the same view as p; the other accounts keep their view *)
Lemma promote_one_W c a p : Inv0 p -> W p -> W (promote_one c a p).
Proof.
  intros H0 HW. unfold promote_one. destruct (aget a (p_queue p)) as [|q0 qr] eqn:Eq; [exact HW|].
  rewrite <- Eq. set (q := aget a (p_queue p)).
  pose proof (inv0_any a _ H0) as H.
  assert (Sq : sorted q) by apply (ir_queue _ _ _ H a).
  pose proof (l_forward_splits (st_nonce p a) q Sq) as Sf.
  pose proof (l_forward_snd (st_nonce p a) q) as Ffw.
  destruct (l_forward (st_nonce p a) q) as [fw q1] eqn:Ef. cbn [fst snd] in Sf, Ffw.
  pose proof (invr_queue_drop a p q1 fw H Sf) as H1.
  set (p1 := all_remove_list fw (set_queue a q1 p)) in *.
  assert (V1 : same_view p p1) by (eapply sv_trans; [apply sv_set_queue|apply sv_all_remove_list]).
  assert (Eq1 : aget a (p_queue p1) = q1) by apply aget_queue_after_drop.
  assert (Sq1 : sorted q1) by (destruct Sf as [_ [_ [S _]]]; exact S).
  destruct (l_filter false (st_bal p a) (s_maxgas (p_st p)) q1) as [[drops inv] q2] eqn:EF.
  destruct (l_filter_nonstrict_splits _ _ _ _ _ _ Sq1 EF) as [SF Einv].
  pose proof (l_filter_keep _ _ _ _ _ _ _ EF) as Fkeep.
  rewrite <- Eq1 in SF.
  pose proof (invr_queue_drop a p1 q2 drops H1 SF) as H2.
  set (p2 := all_remove_list drops (set_queue a q2 p1)) in *.
  assert (V2 : same_view p p2) by (eapply sv_trans; [exact V1|]; eapply sv_trans; [apply sv_set_queue|apply sv_all_remove_list]).
  assert (Eq2 : aget a (p_queue p2) = q2) by apply aget_queue_after_drop.
  assert (Sq2 : sorted q2) by (destruct SF as [_ [_ [S _]]]; exact S).
  destruct (l_ready (pn_get p2 a) q2) as [readies q3] eqn:ER.
  destruct (l_ready_split _ _ _ _ ER) as [Eapp Hready].
  assert (SR : splits (aget a (p_queue p2)) q3 readies).
  { rewrite Eq2, Eapp. apply splits_app. rewrite <- Eapp. exact Sq2. }
  pose proof (invr_queue_to_limbo a [] p2 q3 readies H2 SR) as H3.
  set (p2' := set_queue a q3 p2) in *.
  assert (V2' : same_view p p2') by (eapply sv_trans; [exact V2|apply sv_set_queue]).
  (* facts about the ready transactions *)
  assert (Hr : forall x, In x readies -> st_nonce p2' a <= t_nonce x /\ payable p2' a x).
  { intros x Hx. assert (Hq2 : In x q2) by (rewrite Eapp; apply in_or_app; auto).
    assert (Hk : In x inv \/ In x q2) by auto. apply Fkeep in Hk as [Hq1 Hp].
    apply Ffw in Hq1 as [_ Hge]. destruct V2' as [E1 _]. unfold payable, st_nonce, st_bal. rewrite E1. auto. }
  assert (Hfirst : aget a (p_pend p2') = [] -> match readies with x :: _ => t_nonce x = st_nonce p2' a | [] => True end).
  { intros E. destruct readies as [|x rs] eqn:Er; [exact I|].
    destruct Hready as [|[y [r [El [Hle _]]]]]; [discriminate|].
    assert (x = y). { rewrite El in Eapp. cbn in Eapp. inversion Eapp. reflexivity. } subst y.
    destruct (Hr x (or_introl eq_refl)) as [Hge _].
    pose proof (sv_Wa _ _ a V2' (HW a)) as Wp. pose proof (w_pn_empty _ _ Wp E) as Epn.
    assert (Epn2 : pn_get p2 a = pn_get p2' a) by reflexivity. lia. }
  pose proof (promote_list_Wa c a readies [] p2' H3 (sv_Wa _ _ a V2' (HW a)) Hr Hfirst) as HWa.
  set (p3 := fold_left (fun s t => promote_tx c a t s) readies p2') in *.
  destruct (l_cap (c_aqueue c) q3) as [caps q4] eqn:EC.
  assert (V4 : same_view p3 (removed (len fw + len drops + len caps) (all_remove_list caps (set_queue a q4 p3)))).
  { eapply sv_trans; [|apply sv_removed]. eapply sv_trans; [apply sv_set_queue|apply sv_all_remove_list]. }
  apply (sv_W _ _ V4). intros b. destruct (N.eq_dec b a) as [->|Hb]; [exact HWa|].
  destruct (promote_list_other c a readies p2' b Hb) as [A [B C]]. fold p3 in A, B, C.
  eapply Wa_ext; [exact C|exact A|exact B|]. apply (sv_Wa _ _ b V2'). apply HW.
Qed.

Lemma promote_list_IW c l p : Inv0 p /\ W p -> Inv0 (promote_list c l p) /\ W (promote_list c l p).
Proof.
  revert p. induction l as [|a l IH]; intros p [H HW]; cbn; [auto|]. apply IH. split; [apply promote_one_inv0|apply promote_one_W]; auto.
Qed.

(* ---------- removeTx ---------- *)
(* truncating pending[a] below nonce n (n held by pending[a]) with pendingNonces lowered to n *)
Lemma Wa_truncate p a n keep :
  Wa p a -> sorted (aget a (p_pend p)) -> hasn (aget a (p_pend p)) n ->
  (forall x, In x keep <-> In x (aget a (p_pend p)) /\ t_nonce x < n) ->
  Wa (pn_set_if_lower a n (set_pend a keep p)) a.
Proof.
  intros [H1 H2 H3 H4 H5] Hs [y [Hy Ey]] Hk.
  assert (Hne : aget a (p_pend p) <> []) by (intros E; rewrite E in Hy; destruct Hy).
  destruct (H2 Hne) as [s [Hs0 Es]]. pose proof (H1 _ Hy) as Hyn.
  assert (Epend : aget a (p_pend (pn_set_if_lower a n (set_pend a keep p))) = keep).
  { unfold pn_set_if_lower. destruct (_ <=? _); psimpl; apply aget_aset_same. }
  assert (Est : p_st (pn_set_if_lower a n (set_pend a keep p)) = p_st p).
  { unfold pn_set_if_lower. destruct (_ <=? _); reflexivity. }
  constructor; unfold payable, st_nonce, st_bal in *; rewrite ?Epend, ?Est, ?pn_get_if_lower, ?N.eqb_refl, ?pn_get_set_pend.
  - intros x Hx. apply Hk in Hx as [Hx _]. auto.
  - intros Hkne. destruct keep as [|z r] eqn:E; [congruence|].
    assert (Hz : In z (aget a (p_pend p)) /\ t_nonce z < n) by (apply Hk; left; reflexivity).
    exists s. split; [|exact Es]. apply Hk. split; auto. pose proof (H1 _ (proj1 Hz)). lia.
  - intros x Hx. apply Hk in Hx as [Hx _]. auto.
  - lia.
  - intros E. assert (~ (t_nonce s < n)). { intros L. assert (In s keep) by (apply Hk; auto). rewrite E in H. destruct H. }
    lia.
Qed.

Lemma remove_tx_W c t ob p : Inv0 p -> W p -> W (remove_tx c t ob p).
Proof.
  intros H0 HW. unfold remove_tx. destruct (all_has t p) eqn:Eh; cbn [negb]; [|exact HW].
  set (a := t_from t). pose proof (inv0_any a _ H0) as H.
  set (p2 := if ob then removed 1 (all_remove t p) else all_remove t p).
  assert (V2 : same_view p p2).
  { unfold p2. destruct ob; [eapply sv_trans; [|apply sv_removed]|]; repeat split. }
  assert (Ep2 : p_pend p2 = p_pend p) by apply V2. rewrite Ep2.
  destruct (l_get (t_nonce t) (aget a (p_pend p))) as [y|] eqn:Eg.
  - destruct (l_remove_strict (t_nonce t) (aget a (p_pend p))) as [invalids pl'] eqn:Er.
    set (p3 := set_pend a pl' p2).
    set (p4 := fold_left (fun s x => requeue c x s) invalids p3).
    assert (V4 : same_view p3 p4) by apply sv_requeue_list.
    intros b. destruct (N.eq_dec b a) as [->|Hb].
    + (* the account itself *)
      assert (Hk : forall x, In x pl' <-> In x (aget a (p_pend p)) /\ t_nonce x < t_nonce t).
      { intros x. unfold l_remove_strict in Er. inversion Er; subst. rewrite filter_In, l_remove_in. split.
        - intros [[A B] C]. split; auto. lia.
        - intros [A B]. repeat split; auto; lia. }
      pose proof (Wa_truncate p2 a (t_nonce t) pl' (sv_Wa _ _ a V2 (HW a))) as X. rewrite Ep2 in X.
      specialize (X (proj1 (ir_pend _ _ _ H a)) (proj1 (l_get_hasn _ _) (ex_intro _ y Eg)) Hk).
      fold p3 in X.
      (* p4 has the same view as p3, and pn_set_if_lower only reads the view *)
      destruct V4 as [E1 [E2 E3]].
      assert (Epn : forall b, pn_get p4 b = pn_get p3 b) by (intros b; unfold pn_get, st_nonce; rewrite E1, E3; reflexivity).
      eapply Wa_ext; [| | |exact X].
      * unfold pn_set_if_lower. rewrite Epn. destruct (_ <=? _); psimpl; auto.
      * unfold pn_set_if_lower. rewrite Epn. destruct (_ <=? _); psimpl; rewrite E2; reflexivity.
      * rewrite !pn_get_if_lower, N.eqb_refl, Epn. reflexivity.
    + assert (Eb : Wa p3 b).
      { eapply Wa_ext; [| | |apply (sv_Wa _ _ b V2 (HW b))]; unfold p3; psimpl; auto. apply aget_aset_other. auto. }
      apply (sv_Wa _ _ b V4) in Eb.
      eapply Wa_ext; [| | |exact Eb].
      * unfold pn_set_if_lower. destruct (_ <=? _); reflexivity.
      * unfold pn_set_if_lower. destruct (_ <=? _); reflexivity.
      * rewrite pn_get_if_lower. destruct (a =? b) eqn:E; [lia|reflexivity].
  - apply (sv_W p2); [apply sv_set_queue|]. apply (sv_W p); auto.
Qed.

(* ---------- drop_last ---------- *)
Lemma drop_last_W a p : Inv0 p -> W p -> W (drop_last a p).
Proof.
  intros H0 HW. unfold drop_last. destruct (rev (aget a (p_pend p))) as [|x r] eqn:Er; [exact HW|].
  pose proof (inv0_any a _ H0) as H. pose proof (proj1 (ir_pend _ _ _ H a)) as Hs.
  assert (El : aget a (p_pend p) = rev r ++ [x]) by (rewrite <- (rev_involutive (aget a (p_pend p))), Er; reflexivity).
  assert (E2 : removelast (aget a (p_pend p)) = rev r) by (rewrite El; apply removelast_last).
  assert (Hk : forall y, In y (rev r) <-> In y (aget a (p_pend p)) /\ t_nonce y < t_nonce x).
  { intros y. rewrite El in Hs |- *. apply sorted_app in Hs as [S1 [_ S3]]. rewrite in_app_iff. cbn [In]. split.
    - intros Hy. split; auto. apply S3; cbn; auto.
    - intros [[Hy|[<-|[]]] L]; [exact Hy|lia]. }
  assert (Hx : hasn (aget a (p_pend p)) (t_nonce x)).
  { exists x. split; [|reflexivity]. rewrite El. apply in_or_app. right. left. reflexivity. }
  pose proof (Wa_truncate p a (t_nonce x) (rev r) (HW a) Hs Hx Hk) as X.
  apply (sv_W (pn_set_if_lower a (t_nonce x) (all_remove x (set_pend a (removelast (aget a (p_pend p))) p)))); [apply sv_removed|].
  rewrite E2. intros b. destruct (N.eq_dec b a) as [->|Hb].
  - eapply Wa_ext; [| | |exact X]; unfold pn_set_if_lower; cbn [pn_get]; destruct (_ <=? _); reflexivity.
  - eapply Wa_ext; [| | |apply (HW b)].
    + unfold pn_set_if_lower. destruct (_ <=? _); reflexivity.
    + unfold pn_set_if_lower. destruct (_ <=? _); psimpl; apply aget_aset_other; auto.
    + rewrite pn_get_if_lower. destruct (a =? b) eqn:E; [lia|reflexivity].
Qed.

(* ---------- the loops of runReorg that only remove ---------- *)
Definition IW (p : pool) : Prop := Inv0 p /\ W p.

Lemma remove_tx_IW c t ob : pres IW (remove_tx c t ob).
Proof. intros p [H HW]. split; [apply remove_tx_inv0|apply remove_tx_W]; auto. Qed.
Lemma drop_last_IW a : pres IW (drop_last a).
Proof. intros p [H HW]. split; [apply drop_last_inv0|apply drop_last_W]; auto. Qed.

Lemma set_gas_price_IW c g : pres IW (set_gas_price c g).
Proof.
  intros p [H HW]. unfold set_gas_price.
  assert (I1 : IW (set_gasprice g p)).
  { split; [eapply invr_same; [|exact H]; repeat split|apply (sv_W p); [repeat split|exact HW]]. }
  destruct (_ <? _); [|exact I1].
  pose proof (fold_pres IW (fun s t => remove_tx c t false s) (filter (fun t => t_price t <? g) (remotes (set_gasprice g p)))
                (fun t => remove_tx_IW c t false) _ I1) as [A B].
  split; [eapply invr_same; [apply same_removed|exact A]|apply (sv_W _ _ (sv_removed _ _)); exact B].
Qed.

(* ---------- fix_nonces establishes T4 ---------- *)
Lemma fix_nonces_view p :
  p_st (fix_nonces p) = p_st p /\ p_pend (fix_nonces p) = p_pend p /\
  forall a, pn_get (fix_nonces p) a = match rev (aget a (p_pend p)) with x :: _ => t_nonce x + 1 | [] => pn_get p a end.
Proof.
  unfold fix_nonces.
  assert (G : forall (m : amap) l q,
    let q' := fold_left (fun s a => match rev (aget a m) with x :: _ => pn_set a (t_nonce x + 1) s | [] => s end) l q in
    p_st q' = p_st q /\ p_pend q' = p_pend q /\
    forall a, pn_get q' a = if mem_n a l then match rev (aget a m) with x :: _ => t_nonce x + 1 | [] => pn_get q a end else pn_get q a).
  { intros m l. induction l as [|b l IH]; intros q; [cbn; auto|].
    cbn [fold_left]. cbn beta.
    set (q1 := match rev (aget b m) with x :: _ => pn_set b (t_nonce x + 1) q | [] => q end).
    destruct (IH q1) as [A [B C]]. cbn zeta in *.
    assert (A1 : p_st q1 = p_st q) by (unfold q1; destruct (rev (aget b m)); reflexivity).
    assert (B1 : p_pend q1 = p_pend q) by (unfold q1; destruct (rev (aget b m)); reflexivity).
    split; [congruence|]. split; [congruence|]. intros a. rewrite C.
    change (mem_n a (b :: l)) with ((a =? b) || mem_n a l).
    destruct (a =? b) eqn:E; cbn [orb].
    - assert (a = b) by lia. subst b. unfold q1. destruct (rev (aget a m)) eqn:Er.
      + destruct (mem_n a l); reflexivity.
      + rewrite pn_get_pn_set, N.eqb_refl. destruct (mem_n a l); reflexivity.
    - assert (Eq1 : pn_get q1 a = pn_get q a).
      { unfold q1. destruct (rev (aget b m)); [reflexivity|]. rewrite pn_get_pn_set.
        assert (Eb : b =? a = false) by lia. rewrite Eb. reflexivity. }
      rewrite Eq1. reflexivity. }
  destruct (G (p_pend p) (akeys (p_pend p)) p) as [A [B C]]. cbn zeta in *. split; [exact A|]. split; [exact B|].
  intros a. rewrite C. destruct (mem_n a (akeys (p_pend p))) eqn:E; [reflexivity|].
  assert (aget a (p_pend p) = []). { apply aget_notin. intros Hin. apply mem_n_in in Hin. congruence. }
  rewrite H. reflexivity.
Qed.

Lemma fix_nonces_WT p : Inv0 p -> W p -> W (fix_nonces p) /\ T4 (fix_nonces p).
Proof.
  intros H0 HW. destruct (fix_nonces_view p) as [A [B C]]. split.
  - intros a. destruct (HW a) as [H1 H2 H3 H4 H5].
    constructor; unfold payable, st_nonce, st_bal in *; rewrite ?A, ?B, ?C; auto.
    + destruct (rev (aget a (p_pend p))) as [|x r] eqn:Er; [exact H4|].
      assert (In x (aget a (p_pend p))) by (apply in_rev; rewrite Er; left; reflexivity).
      specialize (H1 _ H). lia.
    + intros E. rewrite E. cbn. apply H5. exact E.
  - intros a. unfold last_next, st_nonce. rewrite A, B, C. destruct (rev (aget a (p_pend p))) eqn:Er; [|reflexivity].
    apply (w_pn_empty _ _ (HW a)). apply (f_equal (@rev tx)) in Er. rewrite rev_involutive in Er. exact Er.
Qed.

(* ---------- the reset phase: between the state swap and demoteUnexecutables ---------- *)
Definition WRa (p : pool) (a : N) : Prop :=
  st_nonce p a <= pn_get p a /\
  (pn_get p a = st_nonce p a \/ exists t, In t (aget a (p_pend p)) /\ t_nonce t = st_nonce p a /\ payable p a t).
Definition WR (p : pool) : Prop := forall a, WRa p a.

Lemma Wa_WRa p a : Wa p a -> WRa p a.
Proof.
  intros [H1 H2 H3 H4 H5]. split; [exact H4|].
  destruct (aget a (p_pend p)) as [|y r] eqn:E; [left; apply H5; reflexivity|].
  right. destruct H2 as [t [Ht En]]; [discriminate|]. exists t. auto.
Qed.
Lemma WRa_ext p q a : p_st q = p_st p -> aget a (p_pend q) = aget a (p_pend p) -> pn_get q a = pn_get p a -> WRa p a -> WRa q a.
Proof.
  intros E1 E2 E3 [H1 H2]. unfold WRa, payable, st_nonce, st_bal in *. rewrite E1, E2, E3. auto.
Qed.
Lemma sv_WRa p q a : same_view p q -> WRa p a -> WRa q a.
Proof. intros S. pose proof (sv_pn_get p q a S) as E. destruct S as [E1 [E2 E3]]. apply WRa_ext; auto. rewrite E2; reflexivity. Qed.
Lemma sv_WR p q : same_view p q -> WR p -> WR q.
Proof. intros S H a. eapply sv_WRa; eauto. Qed.

Lemma WR_after_swap st p : WR (set_pn [] (set_st st p)).
Proof. intros a. unfold WRa, pn_get, st_nonce. psimpl. cbn [nfind]. split; [lia|left; reflexivity]. Qed.

Lemma add_WR c t loc p : Inv0 p -> WR p -> WR (fst (fst (add c t loc p))).
Proof.
  intros H0 HW. destruct (add c t loc p) as [[p' v] r] eqn:Ea. cbn [fst].
  destruct (add_view _ _ _ _ _ _ _ Ea) as [E1 [E2 [E3|[Ev [E3 [o Eo]]]]]].
  - apply (sv_WR p); [repeat split; assumption|exact HW].
  - intros b. assert (Epn : pn_get p' b = pn_get p b) by (unfold pn_get, st_nonce; rewrite E1, E2; reflexivity).
    destruct (N.eq_dec b (t_from t)) as [->|Hb].
    + destruct (HW (t_from t)) as [G1 G2]. destruct (validate_ok _ _ Ev) as [Hge Hpay].
      pose proof (proj1 (ir_pend _ _ _ H0 (t_from t))) as Hs.
      unfold WRa, payable, st_nonce, st_bal in *. rewrite E1, E3, aget_aset_same, Epn. split; [exact G1|].
      destruct G2 as [G2|[w [Hw [En Hp]]]]; [left; exact G2|]. right.
      destruct (N.eq_dec (t_nonce w) (t_nonce t)) as [E|E].
      * exists t. split; [apply l_put_in; auto|]. split; [congruence|exact Hpay].
      * exists w. split; [apply l_put_in; auto|]. auto.
    + eapply WRa_ext; [exact E1| |exact Epn|apply HW]. rewrite E3. apply aget_aset_other. auto.
Qed.
Lemma add_locked_IWR c txs loc p : Inv0 p /\ WR p -> Inv0 (fst (fst (add_locked c txs loc p))) /\ WR (fst (fst (add_locked c txs loc p))).
Proof.
  revert p. induction txs as [|t r IH]; intros p [H HW]; cbn; [auto|].
  pose proof (add_inv0 c t loc p H) as X1. pose proof (add_WR c t loc p H HW) as X2.
  destruct (add c t loc p) as [[p1 v] rep]. cbn [fst] in *.
  specialize (IH p1 (conj X1 X2)). destruct (add_locked c r loc p1) as [[p2 vs] d]. exact IH.
Qed.

Lemma promote_list_WRa c a D R p :
  InvR a (D ++ R) p -> WRa p a ->
  (forall x, In x D -> st_nonce p a <= t_nonce x /\ payable p a x) ->
  (pn_get p a = st_nonce p a -> match D with x :: _ => t_nonce x = st_nonce p a | [] => True end) ->
  WRa (fold_left (fun s t => promote_tx c a t s) D p) a.
Proof.
  revert p. induction D as [|x D IH]; intros p HI HW HD Hfirst; cbn [fold_left]; [exact HW|].
  cbn [app] in HI. pose proof (promote_tx_eq c a x _ p HI) as Eq.
  destruct (HD x (or_introl eq_refl)) as [Hge Hpay].
  pose proof (proj1 (ir_pend _ _ _ HI a)) as Hs.
  assert (Est : p_st (promote_tx c a x p) = p_st p) by (rewrite Eq; reflexivity).
  assert (Epn : pn_get (promote_tx c a x p) a = t_nonce x + 1) by (rewrite Eq, pn_get_pn_set, N.eqb_refl; reflexivity).
  assert (Epd : aget a (p_pend (promote_tx c a x p)) = l_put x (aget a (p_pend p))) by (rewrite Eq; psimpl; apply aget_aset_same).
  assert (HW1 : WRa (promote_tx c a x p) a).
  { destruct HW as [G1 G2]. unfold WRa, payable, st_nonce, st_bal in *. rewrite Est, Epn, Epd. split; [lia|]. right.
    destruct G2 as [G2|[w [Hw [En Hp]]]].
    - exists x. split; [apply l_put_in; auto|]. split; [apply Hfirst; exact G2|exact Hpay].
    - destruct (N.eq_dec (t_nonce w) (t_nonce x)) as [E|E].
      + exists x. split; [apply l_put_in; auto|]. split; [congruence|exact Hpay].
      + exists w. split; [apply l_put_in; auto|]. auto. }
  apply IH.
  - apply invr_promote. exact HI.
  - exact HW1.
  - intros y Hy. destruct (HD y (or_intror Hy)) as [A B]. unfold payable, st_nonce, st_bal in *. rewrite Est. auto.
  - intros E. exfalso. rewrite Epn in E. unfold st_nonce in *. rewrite Est in E. lia.
Qed.

Lemma promote_one_WR c a p : Inv0 p -> WR p -> WR (promote_one c a p).
Proof.
  intros H0 HW. unfold promote_one. destruct (aget a (p_queue p)) as [|q0 qr] eqn:Eq; [exact HW|].
  rewrite <- Eq. set (q := aget a (p_queue p)).
  pose proof (inv0_any a _ H0) as H.
  assert (Sq : sorted q) by apply (ir_queue _ _ _ H a).
  pose proof (l_forward_splits (st_nonce p a) q Sq) as Sf.
  pose proof (l_forward_snd (st_nonce p a) q) as Ffw.
  destruct (l_forward (st_nonce p a) q) as [fw q1] eqn:Ef. cbn [fst snd] in Sf, Ffw.
  pose proof (invr_queue_drop a p q1 fw H Sf) as H1.
  set (p1 := all_remove_list fw (set_queue a q1 p)) in *.
  assert (V1 : same_view p p1) by (eapply sv_trans; [apply sv_set_queue|apply sv_all_remove_list]).
  assert (Eq1 : aget a (p_queue p1) = q1) by apply aget_queue_after_drop.
  assert (Sq1 : sorted q1) by (destruct Sf as [_ [_ [S _]]]; exact S).
  destruct (l_filter false (st_bal p a) (s_maxgas (p_st p)) q1) as [[drops inv] q2] eqn:EF.
  destruct (l_filter_nonstrict_splits _ _ _ _ _ _ Sq1 EF) as [SF Einv].
  pose proof (l_filter_keep _ _ _ _ _ _ _ EF) as Fkeep.
  rewrite <- Eq1 in SF.
  pose proof (invr_queue_drop a p1 q2 drops H1 SF) as H2.
  set (p2 := all_remove_list drops (set_queue a q2 p1)) in *.
  assert (V2 : same_view p p2) by (eapply sv_trans; [exact V1|]; eapply sv_trans; [apply sv_set_queue|apply sv_all_remove_list]).
  assert (Eq2 : aget a (p_queue p2) = q2) by apply aget_queue_after_drop.
  assert (Sq2 : sorted q2) by (destruct SF as [_ [_ [S _]]]; exact S).
  destruct (l_ready (pn_get p2 a) q2) as [readies q3] eqn:ER.
  destruct (l_ready_split _ _ _ _ ER) as [Eapp Hready].
  assert (SR : splits (aget a (p_queue p2)) q3 readies).
  { rewrite Eq2, Eapp. apply splits_app. rewrite <- Eapp. exact Sq2. }
  pose proof (invr_queue_to_limbo a [] p2 q3 readies H2 SR) as H3.
  set (p2' := set_queue a q3 p2) in *.
  assert (V2' : same_view p p2') by (eapply sv_trans; [exact V2|apply sv_set_queue]).
  assert (Hr : forall x, In x readies -> st_nonce p2' a <= t_nonce x /\ payable p2' a x).
  { intros x Hx. assert (Hq2 : In x q2) by (rewrite Eapp; apply in_or_app; auto).
    assert (Hk : In x inv \/ In x q2) by auto. apply Fkeep in Hk as [Hq1 Hp].
    apply Ffw in Hq1 as [_ Hge]. destruct V2' as [E1 _]. unfold payable, st_nonce, st_bal. rewrite E1. auto. }
  assert (Hfirst : pn_get p2' a = st_nonce p2' a -> match readies with x :: _ => t_nonce x = st_nonce p2' a | [] => True end).
  { intros E. destruct readies as [|x rs] eqn:Er; [exact I|].
    destruct Hready as [|[y [r [El [Hle _]]]]]; [discriminate|].
    assert (x = y). { rewrite El in Eapp. cbn in Eapp. inversion Eapp. reflexivity. } subst y.
    destruct (Hr x (or_introl eq_refl)) as [Hge _].
    assert (Epn2 : pn_get p2 a = pn_get p2' a) by reflexivity. lia. }
  pose proof (promote_list_WRa c a readies [] p2' H3 (sv_WRa _ _ a V2' (HW a)) Hr Hfirst) as HWa.
  set (p3 := fold_left (fun s t => promote_tx c a t s) readies p2') in *.
  destruct (l_cap (c_aqueue c) q3) as [caps q4] eqn:EC.
  assert (V4 : same_view p3 (removed (len fw + len drops + len caps) (all_remove_list caps (set_queue a q4 p3)))).
  { eapply sv_trans; [|apply sv_removed]. eapply sv_trans; [apply sv_set_queue|apply sv_all_remove_list]. }
  apply (sv_WR _ _ V4). intros b. destruct (N.eq_dec b a) as [->|Hb]; [exact HWa|].
  destruct (promote_list_other c a readies p2' b Hb) as [A [B C]]. fold p3 in A, B, C.
  eapply WRa_ext; [exact C|exact A|exact B|]. apply (sv_WRa _ _ b V2'). apply HW.
Qed.

Lemma promote_list_IWR c l p : Inv0 p /\ WR p -> Inv0 (promote_list c l p) /\ WR (promote_list c l p).
Proof.
  revert p. induction l as [|a l IH]; intros p [H HW]; cbn; [auto|]. apply IH. split; [apply promote_one_inv0|apply promote_one_WR]; auto.
Qed.

(* ---------- demoteUnexecutables establishes Wa ---------- *)
Lemma demote_one_view c a p :
  p_st (demote_one c a p) = p_st p /\ p_pn (demote_one c a p) = p_pn p /\
  forall b, b <> a -> aget b (p_pend (demote_one c a p)) = aget b (p_pend p).
Proof.
  unfold demote_one. destruct (l_forward _ _) as [olds l1]. destruct (l_filter _ _ _ _) as [[drops invalids] l2].
  set (p1 := all_remove_list olds (set_pend a l1 p)).
  set (p2 := all_remove_list drops (set_pend a l2 p1)).
  set (p4 := fold_left (fun s t => requeue c t s) invalids p2).
  assert (F1 : p_st p1 = p_st p /\ p_pn p1 = p_pn p /\ forall b, b <> a -> aget b (p_pend p1) = aget b (p_pend p)).
  { destruct (sv_all_remove_list olds (set_pend a l1 p)) as [A [B C]]. fold p1 in A, B, C. rewrite A, B, C. psimpl.
    repeat split. intros b Hb. apply aget_aset_other. auto. }
  assert (F2 : p_st p2 = p_st p /\ p_pn p2 = p_pn p /\ forall b, b <> a -> aget b (p_pend p2) = aget b (p_pend p)).
  { destruct (sv_all_remove_list drops (set_pend a l2 p1)) as [A [B C]]. fold p2 in A, B, C. rewrite A, B, C. psimpl.
    destruct F1 as [X [Y Z]]. rewrite X, Y. repeat split. intros b Hb. rewrite aget_aset_other by auto. auto. }
  assert (F4 : p_st p4 = p_st p /\ p_pn p4 = p_pn p /\ forall b, b <> a -> aget b (p_pend p4) = aget b (p_pend p)).
  { destruct (sv_requeue_list c invalids p2) as [A [B C]]. fold p4 in A, B, C. rewrite A, B, C. exact F2. }
  destruct l2 as [|y l2']; [exact F4|]. destruct (l_get _ _); [exact F4|].
  destruct (sv_requeue_list c (y :: l2') (set_pend a [] p4)) as [A [B C]]. rewrite A, B, C. psimpl.
  destruct F4 as [X [Y Z]]. rewrite X, Y. repeat split. intros b Hb. rewrite aget_aset_other by auto. auto.
Qed.

Lemma demote_one_Wa c a p : Inv0 p -> WRa p a -> Wa (demote_one c a p) a.
Proof.
  intros H0 [G1 G2]. destruct (demote_one_view c a p) as [Vst [Vpn _]].
  assert (Epn : pn_get (demote_one c a p) a = pn_get p a) by (unfold pn_get, st_nonce; rewrite Vst, Vpn; reflexivity).
  revert Vst Epn. unfold demote_one.
  pose proof (inv0_any a _ H0) as H. set (pl := aget a (p_pend p)).
  assert (Spl : sorted pl) by apply (ir_pend _ _ _ H a).
  pose proof (l_forward_snd (st_nonce p a) pl) as Ffw.
  pose proof (l_forward_splits (st_nonce p a) pl Spl) as Sf.
  destruct (l_forward (st_nonce p a) pl) as [olds l1] eqn:Ef. cbn [fst snd] in Ffw, Sf.
  assert (Sl1 : sorted l1) by (destruct Sf as [_ [_ [S _]]]; exact S).
  destruct (l_filter true (st_bal p a) (s_maxgas (p_st p)) l1) as [[drops invalids] l2] eqn:EF.
  pose proof (l_filter_keep _ _ _ _ _ _ _ EF) as Fkeep.
  pose proof (l_filter_rem _ _ _ _ _ _ _ EF) as Frem.
  pose proof (l_filter_strict_inv _ _ _ _ _ _ _ EF) as Finv.
  destruct (l_filter_sorted _ _ _ _ _ _ _ EF Sl1) as [_ [_ Sl2]].
  set (p1 := all_remove_list olds (set_pend a l1 p)).
  set (p2 := all_remove_list drops (set_pend a l2 p1)).
  set (p4 := fold_left (fun s t => requeue c t s) invalids p2).
  assert (E4 : aget a (p_pend p4) = l2).
  { unfold p4. destruct (requeue_list_fields c invalids p2) as [E _]. cbn in E. rewrite E. apply aget_pend_after_drop. }
  (* facts about l2 *)
  assert (L2 : forall x, In x l2 -> st_nonce p a <= t_nonce x /\ payable p a x).
  { intros x Hx. assert (Hk : In x invalids \/ In x l2) by auto. apply Fkeep in Hk as [Hl1 Hp]. apply Ffw in Hl1 as [_ Hge]. auto. }
  assert (Wit : (exists t, In t pl /\ t_nonce t = st_nonce p a /\ payable p a t) -> hasn l2 (st_nonce p a)).
  { intros [w [Hw [En Hp]]]. exists w. split; [|exact En].
    assert (Hl1 : In w l1) by (apply Ffw; split; [exact Hw|lia]).
    assert (Hk : In w invalids \/ In w l2) by (apply Fkeep; auto). destruct Hk as [Hi|Hk]; [|exact Hk].
    exfalso. destruct (Finv w eq_refl Hi) as [y [Hy Hlt]]. apply Frem in Hy as [Hy _]. apply Ffw in Hy as [_ Hy]. lia. }
  assert (Final : forall q, p_st q = p_st p -> pn_get q a = pn_get p a -> (aget a (p_pend q) = l2 /\ (l2 = [] \/ hasn l2 (st_nonce p a)) \/ aget a (p_pend q) = [] /\ ~ hasn l2 (st_nonce p a)) -> Wa q a).
  { intros q Est Epn Hq. constructor; unfold payable, st_nonce, st_bal in *; rewrite ?Est, ?Epn.
    - intros x Hx. destruct Hq as [[E _]|[E _]]; rewrite E in Hx; [apply L2; exact Hx|destruct Hx].
    - intros Hne. destruct Hq as [[E [E'|E']]|[E _]]; rewrite E in *; [congruence|exact E'|congruence].
    - intros x Hx. destruct Hq as [[E _]|[E _]]; rewrite E in Hx; [apply L2; exact Hx|destruct Hx].
    - exact G1.
    - intros Ee. destruct G2 as [G2|G2]; [exact G2|]. exfalso. apply Wit in G2.
      destruct Hq as [[E _]|[_ E]]; [|auto]. rewrite E in Ee. rewrite Ee in G2. destruct G2 as [? [[] _]]. }
  destruct l2 as [|y l2'] eqn:El2.
  - intros Vst Epn. apply Final; auto.
  - destruct (l_get (st_nonce p a) (y :: l2')) eqn:Eg.
    + intros Vst Epn. apply Final; auto. left. split; [exact E4|]. right. apply l_get_hasn. eauto.
    + intros Vst Epn. apply Final; auto. right. split.
      * destruct (requeue_list_fields c (y :: l2') (set_pend a [] p4)) as [E _]. cbn zeta in E. rewrite E. psimpl. apply aget_aset_same.
      * intros Hh. apply l_get_hasn in Hh as [z Hz]. congruence.
Qed.

Lemma demote_list_W c l p done :
  Inv0 p -> WR p -> (forall b, In b done -> Wa p b) ->
  let p' := fold_left (fun s a => demote_one c a s) l p in
  Inv0 p' /\ WR p' /\ forall b, In b (done ++ l) -> Wa p' b.
Proof.
  revert p done. induction l as [|a l IH]; intros p done H0 HR HD; cbn [fold_left].
  - cbn zeta. rewrite app_nil_r. auto.
  - destruct (demote_one_view c a p) as [Vst [Vpn Vb]].
    assert (Epn : forall b, pn_get (demote_one c a p) b = pn_get p b) by (intros b; unfold pn_get, st_nonce; rewrite Vst, Vpn; reflexivity).
    pose proof (demote_one_Wa c a p H0 (HR a)) as Wa'.
    assert (HR' : WR (demote_one c a p)).
    { intros b. destruct (N.eq_dec b a) as [->|Hb]; [apply Wa_WRa; exact Wa'|].
      eapply WRa_ext; [exact Vst|apply Vb; exact Hb|apply Epn|apply HR]. }
    assert (HD' : forall b, In b (done ++ [a]) -> Wa (demote_one c a p) b).
    { intros b Hb. destruct (N.eq_dec b a) as [->|Hne]; [exact Wa'|].
      apply in_app_or in Hb as [Hb|[<-|[]]]; [|congruence].
      eapply Wa_ext; [exact Vst|apply Vb; exact Hne|apply Epn|apply HD; exact Hb]. }
    specialize (IH (demote_one c a p) (done ++ [a]) (demote_one_inv0 c a p H0) HR' HD').
    cbn zeta in *. rewrite <- app_assoc in IH. exact IH.
Qed.

Lemma demote_all_IW c p : Inv0 p -> WR p -> IW (demote_all c p).
Proof.
  intros H0 HR. unfold demote_all.
  destruct (demote_list_W c (akeys (p_pend p)) p [] H0 HR (fun b (F : In b []) => match F with end)) as [A [B C]].
  cbn zeta in *. split; [exact A|]. intros b.
  destruct (in_dec N.eq_dec b (akeys (p_pend p))) as [Hin|Hnin]; [apply C; exact Hin|].
  (* an account without a pending entry: nothing was touched, pending stays empty *)
  assert (G : forall l q, ~ In b l -> let q' := fold_left (fun s a => demote_one c a s) l q in
              p_st q' = p_st q /\ p_pn q' = p_pn q /\ aget b (p_pend q') = aget b (p_pend q)).
  { induction l as [|a l IH]; intros q Hn; cbn [fold_left]; [auto|].
    destruct (demote_one_view c a q) as [Vst [Vpn Vb]].
    destruct (IH (demote_one c a q)) as [X [Y Z]]; [intros Hl; apply Hn; right; exact Hl|].
    cbn zeta in *. rewrite X, Y, Z. repeat split; auto. apply Vb. intros ->. apply Hn. left; reflexivity. }
  destruct (G (akeys (p_pend p)) p Hnin) as [X [Y Z]]. cbn zeta in *.
  destruct (B b) as [R1 R2]. pose proof (aget_notin b (p_pend p) Hnin) as Ee.
  set (p' := fold_left (fun s a => demote_one c a s) (akeys (p_pend p)) p) in *.
  constructor; unfold payable, st_nonce, st_bal in *; rewrite ?Z, ?Ee; try (intros ? []); try congruence; auto.
  intros _. destruct R2 as [R2|[w [Hw _]]]; [exact R2|]. rewrite Z, Ee in Hw. destruct Hw.
Qed.

(* ---------- one reorg run, one step, every history ---------- *)
Definition IWT (p : pool) : Prop := Inv0 p /\ W p /\ T4 p.

Lemma tail_IWT c qo p3 : IW p3 -> IWT (fix_nonces (truncate_queue c qo (truncate_pending c p3))).
Proof.
  intros I3.
  assert (I5 : IW (truncate_queue c qo (truncate_pending c p3))).
  { apply (truncate_queue_pres IW); [intros t; apply remove_tx_IW|].
    apply (truncate_pending_pres IW); [intros a; apply drop_last_IW|exact I3]. }
  destruct I5 as [A B]. destruct (fix_nonces_WT _ A B) as [C D].
  split; [eapply invr_same; [apply fix_nonces_same|exact A]|split; assumption].
Qed.

Lemma do_reset_IWR c r p : Inv0 p -> Inv0 (do_reset c r p) /\ WR (do_reset c r p).
Proof.
  intros H0. unfold do_reset. pose proof (add_locked_IWR c (reinject r) false (set_pn [] (set_st (r_st r) p))) as X.
  destruct (add_locked c (reinject r) false _) as [[p2 vs] d]. apply X. split; [|apply WR_after_swap].
  eapply invr_same; [|exact H0]. repeat split.
Qed.

Lemma run_IWT c rs dirty qo p : IW p -> IWT (run c rs dirty qo p).
Proof.
  intros [H0 HW]. unfold run. destruct rs as [r|]; apply tail_IWT.
  - pose proof (do_reset_IWR c r p H0) as I1.
    apply promote_list_IWR with (c := c) (l := akeys (p_queue (do_reset c r p))) in I1. destruct I1 as [A B].
    destruct (demote_all_IW c _ A B) as [A' B']. split; [eapply invr_same; [|exact A']; repeat split|].
    eapply sv_W; [|exact B']. repeat split.
  - apply promote_list_IW. split; assumption.
Qed.

Lemma step_IWT c p o qo : IWT p -> IWT (fst (step c p o qo)).
Proof.
  intros [H0 [HW _]]. destruct o as [loc txs|g|r|]; cbn.
  - assert (I1 : IW (fst (fst (add_txs c txs loc p)))).
    { unfold add_txs. set (news := filter (fun t => negb (all_has t p)) txs).
      assert (G : forall l q, IW q -> IW (fst (fst (add_locked c l loc q)))).
      { induction l as [|t l IH]; intros q [A B]; cbn; [split; assumption|].
        pose proof (add_inv0 c t loc q A) as X1. pose proof (add_W c t loc q A B) as X2.
        destruct (add c t loc q) as [[q1 v] rep]. cbn [fst] in *.
        specialize (IH q1 (conj X1 X2)). destruct (add_locked c l loc q1) as [[q2 vs] d]. exact IH. }
      specialize (G news p (conj H0 HW)). destruct (add_locked c news loc p) as [[p1 vs] d]. exact G. }
    destruct (add_txs c txs loc p) as [[p1 vs] d]. cbn [fst] in *. apply run_IWT. exact I1.
  - apply run_IWT. apply set_gas_price_IW. split; assumption.
  - apply run_IWT. split; assumption.
  - apply run_IWT. split; assumption.
Qed.

Lemma init_IWT pl st : IWT (init pl st).
Proof.
  split; [apply init_inv0|]. split.
  - intros a. constructor; cbn; try (intros ? []); try congruence; unfold pn_get; cbn; auto; lia.
  - intros a. reflexivity.
Qed.

Lemma run_hist_IWT c h p : IWT p -> IWT (run_hist c p h).
Proof.
  revert p. induction h as [|[o qo] h IH]; intros p H; cbn; [exact H|]. apply IH, step_IWT, H.
Qed.

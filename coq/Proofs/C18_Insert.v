(* C18 -- trie.go:insert : no panic, canonical form preserved, get-after-put, other keys untouched.
   Preconditions are semantic: the key is prefix-incomparable with every stored key (pf), and stored
   keys use the terminator symbol 16 only as their last symbol (okdom / tk).  Both hold for
   keybytesToHex keys (C18_History.v). *)
From Coq Require Import List NArith Bool Arith Lia ZifyBool ZifyNat ZifyN.
From GQ Require Import Lib.Key Model.C18 Proofs.C18_Base Proofs.C18_Ext.
Import ListNotations.

Definition sprefix (a b : hkey) : Prop := exists c r, b = a ++ c :: r.

(* key is neither a strict prefix nor a strict extension of a key stored in t *)
Definition pf (t : node) (key : hkey) : Prop :=
  forall q, lookup t q <> None -> ~ sprefix q key /\ ~ sprefix key q.

(* symbols are nibbles, except possibly the last one which may be the terminator *)
Fixpoint tk (q : hkey) : Prop :=
  match q with
  | [] => True
  | x :: q' => match q' with [] => (x <= 16)%N | _ => (x < 16)%N /\ tk q' end
  end.

Definition okdom (t : node) : Prop := forall q, lookup t q <> None -> tk q.

(* ---------- sprefix / tk ---------- *)
Lemma sprefix_nil q : sprefix [] q <-> q <> [].
Proof.
  split.
  - intros (c & r & ->). discriminate.
  - destruct q as [|c r]; [congruence|]. intros _. exists c, r. reflexivity.
Qed.

Lemma sprefix_app p a b : sprefix (p ++ a) (p ++ b) <-> sprefix a b.
Proof.
  split; intros (c & r & He).
  - rewrite <- app_assoc in He. apply app_inv_head in He. exists c, r. exact He.
  - exists c, r. rewrite He, app_assoc. reflexivity.
Qed.

Lemma sprefix_cons c a b : sprefix (c :: a) (c :: b) <-> sprefix a b.
Proof. apply (sprefix_app [c]). Qed.

Lemma tk_suffix p q : tk (p ++ q) -> tk q.
Proof.
  induction p as [|a p IH]; cbn [app]; auto.
  intros Ht. cbn [tk] in Ht. destruct (p ++ q) eqn:E.
  - destruct p; cbn in E; [subst; exact I | discriminate].
  - apply IH. apply Ht.
Qed.

Lemma tk_head c r : tk (c :: r) -> (c <= 16)%N.
Proof. cbn. destruct r; [auto|]. intros [H _]. lia. Qed.

Lemma tk_mid p y r : tk (p ++ y :: r) -> (y <= 16)%N.
Proof. intros Ht. apply tk_suffix in Ht. apply tk_head in Ht. exact Ht. Qed.

(* ---------- preconditions move down the tree ---------- *)
Lemma pf_short k c r : pf (Short k c) (k ++ r) -> pf c r.
Proof.
  intros Hp q Hq. specialize (Hp (k ++ q)). rewrite lookup_short_app in Hp.
  specialize (Hp Hq). rewrite !sprefix_app in Hp. exact Hp.
Qed.

Lemma pf_full cs c r x : nth_error cs (N.to_nat c) = Some x -> pf (Full cs) (c :: r) -> pf x r.
Proof.
  intros Hx Hp q Hq. specialize (Hp (c :: q)). rewrite lookup_full, Hx in Hp.
  specialize (Hp Hq). rewrite !sprefix_cons in Hp. exact Hp.
Qed.

Lemma okdom_short k c : okdom (Short k c) -> okdom c.
Proof.
  intros Ho q Hq. apply (tk_suffix k). apply Ho. rewrite lookup_short_app. exact Hq.
Qed.

Lemma okdom_full cs i x : nth_error cs i = Some x -> okdom (Full cs) -> okdom x.
Proof.
  intros Hx Ho q Hq. apply (tk_suffix [N.of_nat i]). apply Ho. cbn [app].
  rewrite lookup_full, Nat2N.id, Hx. exact Hq.
Qed.

(* with pf t [] the tree holds at most the empty key *)
Lemma pf_nil_key t q : pf t [] -> q <> [] -> lookup t q = None.
Proof.
  intros Hp Hq. destruct (lookup t q) eqn:E; auto. exfalso.
  destruct (Hp q) as [_ Hn]; [congruence|]. apply Hn. apply sprefix_nil. exact Hq.
Qed.

(* ---------- small lookups ---------- *)
Lemma keqb_app_cons_false (k : hkey) s r : keqb (k ++ s :: r) k = false.
Proof.
  apply keqb_neq. intros E. apply (f_equal (@length N)) in E. rewrite app_length in E. cbn in E. lia.
Qed.

Lemma lookup_leaf k v q : lookup (mk_short k (Val v)) q = if keqb q k then Some v else None.
Proof.
  rewrite lookup_mk_short. destruct (strip k q) as [r|] eqn:Hs.
  - apply strip_some in Hs. subst q. destruct r as [|s r].
    + rewrite app_nil_r, keqb_refl. reflexivity.
    + rewrite keqb_app_cons_false. reflexivity.
  - destruct (keqb q k) eqn:E; auto. apply keqb_eq in E. subst q.
    pose proof (strip_app k []) as Hs'. rewrite app_nil_r in Hs'. congruence.
Qed.

Lemma keqb_cons (a b : N) (x y : hkey) : keqb (a :: x) (b :: y) = N.eqb a b && keqb x y.
Proof.
  destruct (N.eqb_spec a b) as [->|Hn]; cbn [andb].
  - destruct (keqb x y) eqn:E.
    + apply keqb_eq in E. subst. apply keqb_refl.
    + apply keqb_neq in E. apply keqb_neq. congruence.
  - apply keqb_neq. congruence.
Qed.

Lemma keqb_app (p x y : hkey) : keqb (p ++ x) (p ++ y) = keqb x y.
Proof. induction p; cbn [app]; auto. rewrite keqb_cons, N.eqb_refl. exact IHp. Qed.

Lemma keqb_nil_cons (a : N) (x : hkey) : keqb [] (a :: x) = false.
Proof. apply keqb_neq. discriminate. Qed.

(* the two-way branch built by insert when a short key and the new key diverge *)
Definition branch2 (y x : N) (X Y : node) : node :=
  Full (set_nth (set_nth empty17 (N.to_nat y) X) (N.to_nat x) Y).

Lemma branch2_child y x X Y i :
  (x <= 16)%N -> (y <= 16)%N -> x <> y ->
  nth_error (set_nth (set_nth empty17 (N.to_nat y) X) (N.to_nat x) Y) i =
  if Nat.eqb i (N.to_nat x) then Some Y
  else if Nat.eqb i (N.to_nat y) then Some X
  else nth_error empty17 i.
Proof.
  intros Hx Hy Hn.
  destruct (Nat.eqb_spec i (N.to_nat x)) as [->|Hix].
  - apply nth_error_set_nth_eq. rewrite set_nth_length. change (length empty17) with 17. lia.
  - rewrite nth_error_set_nth_neq by congruence.
    destruct (Nat.eqb_spec i (N.to_nat y)) as [->|Hiy].
    + apply nth_error_set_nth_eq. change (length empty17) with 17. lia.
    + apply nth_error_set_nth_neq. congruence.
Qed.

Lemma branch2_wfn y x X Y :
  (x <= 16)%N -> (y <= 16)%N -> x <> y -> wfn X = true -> wfn Y = true ->
  wfn (branch2 y x X Y) = true.
Proof.
  intros Hx Hy Hn HX HY. apply wfn_full. repeat split.
  - rewrite !set_nth_length. reflexivity.
  - pose proof (count_set_nth empty17 (N.to_nat y) X Nil (nth_error_empty17 (N.to_nat y) ltac:(lia))) as H1.
    pose proof (count_set_nth (set_nth empty17 (N.to_nat y) X) (N.to_nat x) Y Nil) as H2.
    rewrite nth_error_set_nth_neq, nth_error_empty17 in H2 by lia. specialize (H2 eq_refl).
    apply wfn_not_nil, is_nil_false in HX, HY. rewrite HX in H1. rewrite HY in H2.
    change (count_nonnil empty17) with 0 in H1. cbn [is_nil] in H1, H2. lia.
  - intros i z Hz. rewrite branch2_child in Hz by auto.
    destruct (Nat.eqb i (N.to_nat x)); [injection Hz as <-; auto|].
    destruct (Nat.eqb i (N.to_nat y)); [injection Hz as <-; auto|].
    left. eapply nth_error_empty17_some; eauto.
Qed.

Lemma branch2_lookup y x X Y s q :
  (x <= 16)%N -> (y <= 16)%N -> x <> y ->
  lookup (branch2 y x X Y) (s :: q) =
  if N.eqb s x then lookup Y q else if N.eqb s y then lookup X q else None.
Proof.
  intros Hx Hy Hn. unfold branch2. rewrite lookup_full, branch2_child by auto.
  destruct (N.eqb_spec s x) as [->|Hsx].
  - rewrite Nat.eqb_refl. reflexivity.
  - destruct (Nat.eqb_spec (N.to_nat s) (N.to_nat x)) as [E|_]; [apply N2Nat.inj in E; congruence|].
    destruct (N.eqb_spec s y) as [->|Hsy].
    + rewrite Nat.eqb_refl. reflexivity.
    + destruct (Nat.eqb_spec (N.to_nat s) (N.to_nat y)) as [E|_]; [apply N2Nat.inj in E; congruence|].
      destruct (nth_error empty17 (N.to_nat s)) as [z|] eqn:Hz; auto.
      apply nth_error_empty17_some in Hz. subst z. reflexivity.
Qed.

(* ---------- equations of insert ---------- *)
Lemma insert_nil_key t value : insert t [] value = Some value.
Proof. destruct t; reflexivity. Qed.

Lemma insert_Nil c rest value : insert Nil (c :: rest) value = Some (Short (c :: rest) value).
Proof. reflexivity. Qed.

Lemma insert_Short_match k child ra value : k ++ ra <> [] ->
  insert (Short k child) (k ++ ra) value =
  match insert child ra value with Some nn => Some (Short k nn) | None => None end.
Proof.
  intros Hne. destruct (k ++ ra) as [|c rest] eqn:E; [congruence|].
  cbn [insert]. rewrite <- E.
  replace (prefix_len (k ++ ra) k) with (length k).
  - rewrite Nat.eqb_refl, skipn_app_len. reflexivity.
  - symmetry. rewrite <- (app_nil_r k) at 2. apply prefix_len_app. destruct ra; exact I.
Qed.

Lemma insert_Short_split p x ra y rb child value :
  x <> y -> (x <= 16)%N -> (y <= 16)%N ->
  insert (Short (p ++ y :: rb) child) (p ++ x :: ra) value =
  Some (mk_short p (branch2 y x (mk_short rb child) (mk_short ra value))).
Proof.
  intros Hn Hx Hy. destruct (p ++ x :: ra) as [|c rest] eqn:E; [destruct p; discriminate|].
  cbn [insert]. rewrite <- E.
  rewrite (prefix_len_app p (x :: ra) (y :: rb) Hn).
  replace (Nat.eqb (length p) (length (p ++ y :: rb))) with false
    by (symmetry; apply Nat.eqb_neq; rewrite app_length; cbn; lia).
  rewrite !nth_error_app_mid, !skipn_S_app_mid, firstn_app_len.
  replace (N.ltb y 17 && N.ltb x 17) with true by (symmetry; apply andb_true_iff; split; apply N.ltb_lt; lia).
  unfold branch2. destruct p; reflexivity.
Qed.

Lemma insert_Full cs c rest value :
  insert (Full cs) (c :: rest) value =
  match nth_error cs (N.to_nat c) with
  | Some x => match insert x rest value with
              | Some nn => Some (Full (set_nth cs (N.to_nat c) nn))
              | None => None
              end
  | None => None
  end.
Proof.
  cbn [insert]. rewrite child_app_spec. destruct (nth_error cs (N.to_nat c)); reflexivity.
Qed.

Lemma keqb_cons_nil (a : N) (x : hkey) : keqb (a :: x) [] = false.
Proof. apply keqb_neq. discriminate. Qed.

(* ---------- the main lemma ---------- *)
Lemma insert_empty_key v t : v <> [] -> pf t [] ->
  exists t', insert t [] (Val v) = Some t' /\ wfn t' = true /\
    (forall q, lookup t' q = if keqb q [] then Some v else lookup t q) /\
    (t <> Nil -> is_short t = false -> is_short t' = false).
Proof.
  intros Hv Hp. exists (Val v). rewrite insert_nil_key. repeat split; auto.
  - cbn. destruct v; [congruence|reflexivity].
  - intros q. destruct q as [|s q]; [reflexivity|].
    rewrite keqb_cons_nil. cbn [lookup]. symmetry. apply pf_nil_key; [exact Hp|discriminate].
Qed.

Lemma insert_correct v : v <> [] -> forall t key,
  wfo t -> okdom t -> pf t key -> tk key ->
  exists t', insert t key (Val v) = Some t' /\ wfn t' = true /\
    (forall q, lookup t' q = if keqb q key then Some v else lookup t q) /\
    (t <> Nil -> is_short t = false -> is_short t' = false).
Proof.
  intros Hv t.
  induction t as [|v0|k child IH|cs IH] using node_ind'; intros key Hw Ho Hp Hk.
  all: destruct key as [|c rest]; [exact (insert_empty_key v _ Hv Hp)|].
  - (* Nil *)
    exists (Short (c :: rest) (Val v)). rewrite insert_Nil. repeat split; auto.
    + cbn. destruct v; [congruence|reflexivity].
    + intros q. change (Short (c :: rest) (Val v)) with (mk_short (c :: rest) (Val v)).
      rewrite lookup_leaf. destruct (keqb q (c :: rest)); reflexivity.
    + congruence.
  - (* Val: the stored empty key would be a strict prefix of the new key *)
    exfalso. destruct (Hp []) as [Hn _]; [cbn; congruence|]. apply Hn. apply sprefix_nil. discriminate.
  - (* Short *)
    destruct Hw as [|Hw]; [discriminate|]. apply wfn_short in Hw as (Hkne & Hs & Hc).
    destruct (prefix_len_spec (c :: rest) k) as (p & ra & rb & Ekey & -> & _ & Hd).
    rewrite Ekey in *. clear Ekey.
    destruct rb as [|y rb].
    + (* the whole short key matches *)
      rewrite app_nil_r in *.
      destruct (IH ra) as (nn & Hi & Hwn & Hl & Hsh).
      * right; exact Hc.
      * apply (okdom_short _ _ Ho).
      * apply (pf_short _ _ _ Hp).
      * apply (tk_suffix _ _ Hk).
      * exists (Short p nn). rewrite insert_Short_match, Hi by (destruct p; [congruence|discriminate]).
        repeat split; auto.
        -- apply wfn_short. repeat split; auto. apply Hsh; auto. apply wfn_not_nil; auto.
        -- intros q. rewrite !lookup_short. destruct (strip p q) as [r|] eqn:Hst.
           ++ apply strip_some in Hst. subst q. rewrite keqb_app. apply Hl.
           ++ destruct (keqb q (p ++ ra)) eqn:E; auto. apply keqb_eq in E. subst q.
              rewrite strip_app in Hst. discriminate.
    + (* the keys diverge inside the short key *)
      destruct (wfn_nonempty _ Hc) as (q0 & v1 & Hq0).
      assert (Hdom : lookup (Short (p ++ y :: rb) child) ((p ++ y :: rb) ++ q0) <> None)
        by (rewrite lookup_short_app; congruence).
      destruct ra as [|x ra].
      { exfalso. destruct (Hp _ Hdom) as [_ Hn]. apply Hn. rewrite app_nil_r.
        rewrite <- app_assoc. exists y, (rb ++ q0). reflexivity. }
      assert (Hy : (y <= 16)%N).
      { specialize (Ho _ Hdom). rewrite <- app_assoc in Ho. apply tk_mid in Ho. exact Ho. }
      assert (Hx : (x <= 16)%N) by (apply tk_mid in Hk; exact Hk).
      exists (mk_short p (branch2 y x (mk_short rb child) (mk_short ra (Val v)))).
      rewrite insert_Short_split by auto.
      assert (HwX : wfn (mk_short rb child) = true).
      { destruct rb; cbn [mk_short]; auto. apply wfn_short. repeat split; auto. discriminate. }
      assert (HwY : wfn (mk_short ra (Val v)) = true).
      { destruct ra; cbn; destruct v; auto; congruence. }
      pose proof (branch2_wfn y x _ _ Hx Hy Hd HwX HwY) as HwB.
      repeat split; auto.
      * destruct p; cbn [mk_short]; auto.
      * intros q. rewrite lookup_mk_short, lookup_short, strip_app_l.
        destruct (strip p q) as [r|] eqn:Hst.
        -- apply strip_some in Hst. subst q. rewrite keqb_app.
           destruct r as [|s r].
           ++ rewrite keqb_nil_cons. reflexivity.
           ++ rewrite branch2_lookup, keqb_cons by auto. cbn [strip].
              destruct (N.eqb_spec s x) as [->|Hsx]; cbn [andb].
              ** rewrite lookup_leaf. destruct (keqb r ra); auto.
                 destruct (N.eqb_spec y x); [congruence|reflexivity].
              ** rewrite N.eqb_sym. destruct (N.eqb_spec y s) as [<-|Hys].
                 --- rewrite lookup_mk_short. reflexivity.
                 --- reflexivity.
        -- destruct (keqb q (p ++ x :: ra)) eqn:E; auto. apply keqb_eq in E. subst q.
           rewrite strip_app in Hst. discriminate.
      * discriminate.
  - (* Full *)
    destruct Hw as [|Hw]; [discriminate|]. pose proof Hw as Hw'.
    apply wfn_full in Hw as (Hl & Hcnt & Hf).
    pose proof (tk_head _ _ Hk) as Hc16.
    destruct (nth_error cs (N.to_nat c)) as [x|] eqn:Hx; [|apply nth_error_None in Hx; lia].
    rewrite Forall_forall in IH.
    destruct (IH x (nth_error_In _ _ Hx) rest) as (nn & Hi & Hwn & Hlk & Hsh).
    + exact (Hf _ _ Hx).
    + exact (okdom_full _ _ _ Hx Ho).
    + exact (pf_full _ _ _ _ Hx Hp).
    + exact (tk_suffix [c] _ Hk).
    + exists (Full (set_nth cs (N.to_nat c) nn)). rewrite insert_Full, Hx, Hi.
      repeat split; auto.
      * apply wfn_full. repeat split.
        -- rewrite set_nth_length. exact Hl.
        -- pose proof (count_set_nth cs _ nn x Hx) as Hcs.
           apply wfn_not_nil, is_nil_false in Hwn. rewrite Hwn in Hcs. destruct (is_nil x); lia.
        -- intros i z Hz. destruct (Nat.eq_dec (N.to_nat c) i) as [<-|Hne].
           ++ rewrite nth_error_set_nth_eq in Hz by lia. injection Hz as <-. auto.
           ++ rewrite nth_error_set_nth_neq in Hz by auto. exact (Hf _ _ Hz).
      * intros q. destruct q as [|s q].
        -- rewrite keqb_nil_cons. reflexivity.
        -- rewrite !lookup_full, keqb_cons.
           destruct (N.eqb_spec s c) as [->|Hsc]; cbn [andb].
           ++ rewrite nth_error_set_nth_eq, Hx by lia. apply Hlk.
           ++ rewrite nth_error_set_nth_neq; auto. intros E. apply N2Nat.inj in E. congruence.
Qed.

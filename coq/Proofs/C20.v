(* C20 -- lemmas about the conversion model (Model/C20.v). *)
From Coq Require Import List ZArith NArith Bool Lia Permutation.
From Coq Require String.
From GQ Require Import Generated.C20Params Model.C20.
Import ListNotations.
Local Open Scope Z_scope.

(* ---------- side conditions on the generated constants ---------- *)

Definition params_ok : bool :=
  (0 <? slip_range) && (0 <=? min_slip) && (min_slip <=? max_slip) && (max_slip <=? slip_range)
  && (0 <? kquai_mult) && (0 <=? min_cubic_bp) && (min_cubic_bp <=? min_cubic_div) && (0 <? min_cubic_div)
  && (0 <? call_value_transfer_gas) && (0 <=? max_output_index).

Lemma params_ok_true : params_ok = true.
Proof. vm_compute. reflexivity. Qed.

Ltac use_params :=
  let H := fresh "Hpar" in
  pose proof params_ok_true as H; unfold params_ok in H;
  repeat (apply andb_prop in H; let H' := fresh "Hpar" in destruct H as [H H']);
  repeat match goal with
         | H : (_ <? _) = true |- _ => apply Z.ltb_lt in H
         | H : (_ <=? _) = true |- _ => apply Z.leb_le in H
         end.

(* every denomination is positive and below 2^64, indices agree with the table, the smallest is 1 *)
Definition pair_ok (p : Z * Z) : bool :=
  (den_value (fst p) =? snd p) && (0 <? snd p) && (snd p <? two64).
Definition dens_ok : bool :=
  forallb pair_ok dens_desc && (last (map snd dens_desc) 0 =? 1)
  && (Z.of_nat (length denominations) =? max_denomination + 1)
  && (denominations_map_size =? max_denomination + 1).
Lemma dens_ok_true : dens_ok = true.
Proof. vm_compute. reflexivity. Qed.

(* ---------- integer division facts ---------- *)

Lemma quot_is_div : forall a b, 0 <= a -> 0 < b -> Z.quot a b = a / b.
Proof. intros. apply Z.quot_div_nonneg; assumption. Qed.

Lemma two64_pos : 0 < two64.
Proof. reflexivity. Qed.

Lemma quai_reward_pos : forall k l, 0 <= k -> 0 <= l -> 1 <= quai_reward k l.
Proof.
  intros k l Hk Hl. unfold quai_reward.
  assert (H : 0 <= Z.quot (k * l) two64).
  { rewrite quot_is_div; [apply Z.div_pos|idtac|]; try apply two64_pos; nia. }
  destruct (Z.eqb_spec (Z.quot (k * l) two64) 0); lia.
Qed.

Lemma qi_reward_pos : forall d q, 0 <= d -> 0 < q -> 1 <= qi_reward d q.
Proof.
  intros d q Hd Hq. unfold qi_reward.
  assert (H : 0 <= Z.quot d q) by (rewrite quot_is_div by assumption; apply Z.div_pos; assumption).
  destruct (Z.eqb_spec (Z.quot d q) 0); lia.
Qed.

Lemma qi_to_quai_div : forall a b x, 1 <= a -> 1 <= b -> 0 <= x -> qi_to_quai a b x = a * x / b.
Proof. intros. unfold qi_to_quai. apply quot_is_div; nia. Qed.
Lemma quai_to_qi_div : forall a b x, 1 <= a -> 1 <= b -> 0 <= x -> quai_to_qi a b x = b * x / a.
Proof. intros. unfold quai_to_qi. apply quot_is_div; nia. Qed.

Lemma qi_to_quai_nonneg : forall a b x, 1 <= a -> 1 <= b -> 0 <= x -> 0 <= qi_to_quai a b x.
Proof. intros. rewrite qi_to_quai_div by assumption. apply Z.div_pos; nia. Qed.
Lemma quai_to_qi_nonneg : forall a b x, 1 <= a -> 1 <= b -> 0 <= x -> 0 <= quai_to_qi a b x.
Proof. intros. rewrite quai_to_qi_div by assumption. apply Z.div_pos; nia. Qed.

Lemma qi_to_quai_mono : forall a b x y, 1 <= a -> 1 <= b -> 0 <= x -> x <= y ->
  qi_to_quai a b x <= qi_to_quai a b y.
Proof. intros. rewrite !qi_to_quai_div by lia. apply Z.div_le_mono; nia. Qed.
Lemma quai_to_qi_mono : forall a b x y, 1 <= a -> 1 <= b -> 0 <= x -> x <= y ->
  quai_to_qi a b x <= quai_to_qi a b y.
Proof. intros. rewrite !quai_to_qi_div by lia. apply Z.div_le_mono; nia. Qed.

(* Quai -> Qi -> Quai and Qi -> Quai -> Qi at fixed rewards never gain *)
Lemma roundtrip_quai : forall a b x, 1 <= a -> 1 <= b -> 0 <= x ->
  qi_to_quai a b (quai_to_qi a b x) <= x.
Proof.
  intros a b x Ha Hb Hx.
  pose proof (quai_to_qi_nonneg a b x Ha Hb Hx) as Hn.
  rewrite qi_to_quai_div by assumption. rewrite quai_to_qi_div in * by assumption.
  assert (a * (b * x / a) <= b * x) by (apply Z.mul_div_le; lia).
  apply Z.div_le_upper_bound; lia.
Qed.
Lemma roundtrip_qi : forall a b x, 1 <= a -> 1 <= b -> 0 <= x ->
  quai_to_qi a b (qi_to_quai a b x) <= x.
Proof.
  intros a b x Ha Hb Hx.
  pose proof (qi_to_quai_nonneg a b x Ha Hb Hx) as Hn.
  rewrite quai_to_qi_div by assumption. rewrite qi_to_quai_div in * by assumption.
  assert (b * (a * x / b) <= a * x) by (apply Z.mul_div_le; lia).
  apply Z.div_le_upper_bound; lia.
Qed.
(* the loss of a round trip is bounded: less than one unit of each rounding step *)
Lemma roundtrip_quai_loss : forall a b x, 1 <= a -> 1 <= b -> 0 <= x ->
  b * x - a - b < b * qi_to_quai a b (quai_to_qi a b x).
Proof.
  intros a b x Ha Hb Hx.
  pose proof (quai_to_qi_nonneg a b x Ha Hb Hx) as Hn.
  rewrite qi_to_quai_div by assumption. rewrite quai_to_qi_div in * by assumption.
  set (q := b * x / a) in *.
  assert (Hq : b * x < a * q + a).
  { pose proof (Z.mul_succ_div_gt (b * x) a ltac:(lia)). fold q in H. lia. }
  pose proof (Z.mul_succ_div_gt (a * q) b ltac:(lia)). lia.
Qed.

(* ---------- the ideal cubic discount satisfies the recorded hypothesis ---------- *)

Lemma disc_ideal_bounds : forall v m, 0 <= v -> 0 <= disc_ideal v m <= v.
Proof.
  intros v m Hv. use_params. unfold disc_ideal.
  destruct (Z.leb_spec v m) as [Hvm|Hvm].
  - split.
    + apply Z.div_pos; nia.
    + apply Z.div_le_upper_bound; nia.
  - destruct (Z.ltb_spec (10 * m) v) as [H10|H10]; [lia|].
    assert (Hm : 0 < m) by lia.
    assert (Hm3 : 0 < m * m * m) by nia.
    split; [lia|].
    apply Z.max_lub; [lia|].
    apply Z.div_le_upper_bound; [lia|].
    assert (0 <= v * v * v) by nia. nia.
Qed.

(* ---------- FindMinDenominations ---------- *)

Definition good_pair (p : Z * Z) : Prop := den_value (fst p) = snd p /\ 0 < snd p /\ snd p < two64.

Lemma fmd_loop_sum : forall dens amount,
  Forall good_pair dens -> 0 <= amount ->
  (dens = [] -> amount = 0) ->
  (dens <> [] -> last (map snd dens) 0 = 1 /\ amount < two64 * snd (hd (0, 0) dens)) ->
  denoms_sum (fmd_loop dens amount) = amount.
Proof.
  induction dens as [|[i d] rest IH]; intros amount Hgood Hamt Hnil Hne.
  - simpl. symmetry. apply Hnil. reflexivity.
  - inversion Hgood as [|p l Hp Hrest]; subst. destruct Hp as (Hden & Hdpos & Hdlt). simpl in Hden, Hdpos, Hdlt.
    destruct (Hne ltac:(discriminate)) as (Hlast & Hbound). cbn [hd snd] in Hbound.
    cbn [fmd_loop].
    assert (Hc : 0 <= amount / d) by (apply Z.div_pos; lia).
    assert (Hclt : amount / d < two64) by (apply Z.div_lt_upper_bound; lia).
    pose proof (Z.div_mod amount d ltac:(lia)) as Hdm.
    pose proof (Z.mod_pos_bound amount d Hdpos) as Hmod.
    assert (Hrest_inv : forall amt', 0 <= amt' -> amt' < d ->
              (rest = [] -> d = 1) ->
              (rest = [] -> amt' = 0) /\
              (rest <> [] -> last (map snd rest) 0 = 1 /\ amt' < two64 * snd (hd (0, 0) rest))).
    { intros amt' H0 Hlt Hd1. split.
      - intros Hr. specialize (Hd1 Hr). lia.
      - intros Hr. split.
        + destruct rest as [|p' rest']; [congruence|]. simpl in Hlast. exact Hlast.
        + destruct rest as [|[i' d'] rest']; [congruence|]. cbn [hd snd].
          inversion Hrest as [|p'' l'' Hp' _]; subst. destruct Hp' as (_ & Hd'pos & _). simpl in Hd'pos.
          pose proof two64_pos. nia. }
    assert (Hd1 : rest = [] -> d = 1).
    { intros Hr. subst rest. simpl in Hlast. exact Hlast. }
    destruct (Z.eqb_spec (amount / d) 0) as [Hz|Hz].
    + (* denomination does not fit *)
      assert (Hlt : amount < d).
      { rewrite Hz in Hdm. lia. }
      destruct (Hrest_inv amount Hamt Hlt Hd1) as (Ha & Hb).
      apply IH; assumption.
    + replace (amount - amount / d * d) with (amount mod d) by lia.
      rewrite (Z.mod_small (amount / d) two64) by lia.
      destruct (Z.ltb_spec 0 (amount mod d)) as [Hpos|Hnpos].
      * cbn [denoms_sum fold_right fst snd]. fold (denoms_sum (fmd_loop rest (amount mod d))).
        destruct (Hrest_inv (amount mod d) ltac:(lia) ltac:(lia) Hd1) as (Ha & Hb).
        rewrite IH by (try assumption; lia). rewrite Hden. lia.
      * assert (Hm0 : amount mod d = 0) by lia. rewrite Hm0. simpl. rewrite Hden. lia.
Qed.

Lemma dens_desc_good : Forall good_pair dens_desc.
Proof.
  pose proof dens_ok_true as H. unfold dens_ok in H.
  do 3 (apply andb_prop in H; destruct H as [H ?]).
  rewrite forallb_forall in H. apply Forall_forall. intros p Hp. specialize (H p Hp).
  unfold pair_ok in H. repeat (apply andb_prop in H; destruct H as [H ?]).
  unfold good_pair. repeat split; [apply Z.eqb_eq|apply Z.ltb_lt|apply Z.ltb_lt]; assumption.
Qed.

Definition top_den : Z := snd (hd (0, 0) dens_desc).

Lemma find_min_denominations_sum : forall v,
  0 <= v -> v < two64 * top_den -> denoms_sum (find_min_denominations v) = v.
Proof.
  intros v H0 Hlt. unfold find_min_denominations. apply fmd_loop_sum.
  - apply dens_desc_good.
  - assumption.
  - intros Hnil. vm_compute in Hnil. discriminate.
  - intros _. split; [|exact Hlt].
    pose proof dens_ok_true as H. unfold dens_ok in H.
    do 3 (apply andb_prop in H; destruct H as [H ?]).
    apply Z.eqb_eq. assumption.
Qed.

(* every stored count is a genuine count below 2^64 and non-negative *)
Lemma fmd_loop_counts : forall dens amount p,
  In p (fmd_loop dens amount) -> 0 <= snd p < two64.
Proof.
  induction dens as [|[i d] rest IH]; intros amount p Hin; simpl in Hin; [contradiction|].
  destruct (amount / d =? 0); [eauto|].
  assert (Hm : 0 <= (amount / d) mod two64 < two64) by (apply Z.mod_pos_bound; reflexivity).
  destruct (0 <? amount - amount / d * d).
  - destruct Hin as [<-|Hin]; [exact Hm|eauto].
  - destruct (amount - amount / d * d =? 0); [|contradiction].
    destruct Hin as [<-|[]]. exact Hm.
Qed.

(* ---------- the mint loop ---------- *)

Lemma mint_one_spec : forall count d total idx gas ok,
  0 <= count -> 0 <= d -> 0 <= gas -> 0 <= idx <= max_output_index ->
  let '(t', i', g', ok') := mint_one count d (total, idx, gas, ok) in
  total <= t' <= total + count * d /\ idx <= i' <= max_output_index /\ 0 <= g' /\
  g' = gas - (i' - idx) * call_value_transfer_gas /\
  (ok' = true -> ok = true /\ t' = total + count * d /\ i' = idx + count) /\
  (ok = true -> count * call_value_transfer_gas <= gas -> idx + count <= max_output_index -> ok' = true).
Proof.
  intros count d total idx gas ok Hc Hd Hg Hi. use_params. unfold mint_one.
  set (k := Z.min count (Z.min (gas / call_value_transfer_gas) (Z.max 0 (max_output_index - idx)))).
  assert (Hq : 0 <= gas / call_value_transfer_gas) by (apply Z.div_pos; lia).
  assert (Hqg : call_value_transfer_gas * (gas / call_value_transfer_gas) <= gas) by (apply Z.mul_div_le; lia).
  assert (Hk : 0 <= k <= count /\ k <= gas / call_value_transfer_gas /\ k <= max_output_index - idx) by (unfold k; lia).
  split; [nia|]. split; [lia|]. split; [nia|]. split; [nia|]. split.
  - intros Hok. apply andb_prop in Hok. destruct Hok as [Hok1 Hok]. apply Z.eqb_eq in Hok.
    split; [assumption|]. split; nia.
  - intros Hok Hgas Hidx. subst ok. simpl. apply Z.eqb_eq.
    assert (count <= gas / call_value_transfer_gas) by (apply Z.div_le_lower_bound; lia).
    unfold k. lia.
Qed.

Definition counts_ok (l : list (Z * Z)) : Prop :=
  Forall (fun p => 0 <= snd p /\ 0 <= den_value (fst p)) l.

Lemma mint_fold_spec : forall l total idx gas ok,
  counts_ok l -> 0 <= gas -> 0 <= idx <= max_output_index ->
  let '(t', i', g', ok') :=
    fold_left (fun st p => if snd p =? 0 then st else mint_one (snd p) (den_value (fst p)) st)
              l (total, idx, gas, ok) in
  total <= t' <= total + denoms_sum l /\ idx <= i' <= max_output_index /\ 0 <= g' /\
  g' = gas - (i' - idx) * call_value_transfer_gas /\
  (ok' = true -> ok = true /\ t' = total + denoms_sum l /\ i' = idx + denoms_count l) /\
  (ok = true -> denoms_count l * call_value_transfer_gas <= gas -> idx + denoms_count l <= max_output_index -> ok' = true).
Proof.
  induction l as [|[i c] l IH]; intros total idx gas ok Hl Hg Hi.
  - simpl. repeat split; try lia; tauto.
  - inversion Hl as [|p l' Hp Hl']; subst. simpl in Hp. destruct Hp as (Hc & Hd).
    cbn [fold_left snd fst].
    assert (Hs : denoms_sum ((i, c) :: l) = c * den_value i + denoms_sum l) by reflexivity.
    assert (Hn : denoms_count ((i, c) :: l) = c + denoms_count l) by reflexivity.
    assert (Hcnt : 0 <= denoms_count l).
    { clear -Hl'. induction Hl' as [|p l Hp _ IHl]; simpl; [lia|]. unfold denoms_count in *. simpl. lia. }
    assert (Hsum : 0 <= denoms_sum l).
    { clear -Hl'. induction Hl' as [|p l Hp _ IHl]; simpl; [lia|]. unfold denoms_sum in *. simpl. nia. }
    rewrite Hs, Hn.
    destruct (Z.eqb_spec c 0) as [Hz|Hz].
    + subst c. specialize (IH total idx gas ok Hl' Hg Hi).
      destruct (fold_left _ l (total, idx, gas, ok)) as [[[t' i'] g'] ok'].
      destruct IH as (A & B & C & D & E & F).
      split; [lia|]. split; [lia|]. split; [lia|]. split; [lia|]. split.
      * intros H. destruct (E H) as (? & ? & ?). split; [assumption|]. split; lia.
      * intros H1 H2 H3. apply F; try assumption; lia.
    + pose proof (mint_one_spec c (den_value i) total idx gas ok Hc Hd Hg Hi) as M.
      destruct (mint_one c (den_value i) (total, idx, gas, ok)) as [[[t1 i1] g1] ok1].
      destruct M as (M1 & M2 & M3 & M4 & M5 & M6).
      specialize (IH t1 i1 g1 ok1 Hl' M3 ltac:(lia)).
      destruct (fold_left _ l (t1, i1, g1, ok1)) as [[[t' i'] g'] ok'].
      destruct IH as (A & B & C & D & E & F).
      split; [lia|]. split; [lia|]. split; [lia|]. split; [lia|]. split.
      * intros H. destruct (E H) as (H1 & ? & ?). destruct (M5 H1) as (? & ? & ?).
        split; [assumption|]. split; lia.
      * intros H1 H2 H3. use_params.
        assert (Hok1 : ok1 = true) by (apply M6; try assumption; nia).
        assert (t1 = total + c * den_value i /\ i1 = idx + c) by (destruct (M5 Hok1) as (_ & ? & ?); lia).
        apply F; try assumption; nia.
Qed.

Lemma nth_nonneg : forall (l : list Z) n, Forall (fun d => 0 <= d) l -> 0 <= nth n l 0.
Proof.
  induction l as [|d l IH]; intros n Hl; destruct n; simpl; try lia.
  - inversion Hl; assumption.
  - apply IH. inversion Hl; assumption.
Qed.
Lemma denominations_nonneg : Forall (fun d => 0 <= d) denominations.
Proof.
  assert (Hall : forallb (fun d => 0 <=? d) denominations = true) by (vm_compute; reflexivity).
  rewrite forallb_forall in Hall. apply Forall_forall. intros d Hd. apply Z.leb_le. apply Hall. exact Hd.
Qed.
Lemma den_value_nonneg : forall i, 0 <= den_value i.
Proof. intros i. unfold den_value. apply nth_nonneg. exact denominations_nonneg. Qed.

Lemma fmd_loop_counts_ok : forall dens v, counts_ok (fmd_loop dens v).
Proof.
  intros dens v. unfold counts_ok. apply Forall_forall. intros p Hp. split.
  - pose proof (fmd_loop_counts _ _ _ Hp) as Hc. lia.
  - apply den_value_nonneg.
Qed.
Lemma fmd_counts_ok : forall v, counts_ok (find_min_denominations v).
Proof. intros v. exact (fmd_loop_counts_ok dens_desc v). Qed.

(* ---------- the Qi refund of a reverted conversion ---------- *)

Lemma denoms_sum_app : forall a b, denoms_sum (a ++ b) = denoms_sum a + denoms_sum b.
Proof. induction a as [|p a IH]; intros b; simpl; [reflexivity|]. unfold denoms_sum in *. simpl. rewrite IH. lia. Qed.

Lemma denoms_sum_filter_split : forall f l,
  denoms_sum (filter f l) + denoms_sum (filter (fun p => negb (f p)) l) = denoms_sum l.
Proof.
  intros f. induction l as [|p l IH]; [reflexivity|]. simpl.
  destruct (f p); simpl; unfold denoms_sum in *; simpl; lia.
Qed.

Lemma counts_ok_filter : forall f l, counts_ok l -> counts_ok (filter f l).
Proof.
  intros f l H. unfold counts_ok in *. rewrite Forall_forall in *. intros p Hp.
  apply filter_In in Hp. apply H. tauto.
Qed.

Lemma denoms_sum_nonneg : forall l, counts_ok l -> 0 <= denoms_sum l.
Proof.
  induction 1 as [|p l Hp _ IH]; [unfold denoms_sum; simpl; lia|].
  unfold denoms_sum in *. simpl. nia.
Qed.

Lemma refund_qi_spec : forall v gas,
  0 <= v -> v < two64 * top_den -> 0 <= gas ->
  let '(t, i, g, ok) := refund_qi v gas in
  0 <= dust v /\ 0 <= t <= v - dust v /\ 0 <= i <= max_output_index /\ 0 <= g /\
  g = gas - i * call_value_transfer_gas /\
  (ok = true -> t = v - dust v) /\
  (denoms_count (filter above_trim (find_min_denominations v)) * call_value_transfer_gas <= gas ->
   denoms_count (filter above_trim (find_min_denominations v)) <= max_output_index -> t = v - dust v).
Proof.
  intros v gas Hv Hg Hgas. use_params. unfold refund_qi, mint_denoms, dust.
  pose proof (counts_ok_filter above_trim _ (fmd_counts_ok v)) as Hok.
  pose proof (counts_ok_filter (fun p => negb (above_trim p)) _ (fmd_counts_ok v)) as Hok2.
  pose proof (denoms_sum_nonneg _ Hok2) as Hd.
  pose proof (denoms_sum_filter_split above_trim (find_min_denominations v)) as Hsplit.
  rewrite (find_min_denominations_sum v Hv Hg) in Hsplit.
  pose proof (mint_fold_spec (filter above_trim (find_min_denominations v)) 0 0 gas true Hok Hgas ltac:(lia)) as M.
  destruct (fold_left _ (filter above_trim (find_min_denominations v)) (0, 0, gas, true)) as [[[t i] g] ok].
  destruct M as (A & B & C & D & E & F).
  split; [lia|]. split; [lia|]. split; [lia|]. split; [lia|]. split; [lia|]. split.
  - intros H. destruct (E H) as (_ & ? & ?). lia.
  - intros H1 H2. assert (Hk : ok = true) by (apply F; [reflexivity|lia|lia]).
    destruct (E Hk) as (_ & ? & ?). lia.
Qed.

(* the full statement "a reverted conversion returns exactly the original" is false on the Qi side:
   with no ETX gas nothing is refunded, and the trim rule drops the small pieces *)
Lemma refund_qi_original_refuted :
  (exists v, 0 <= v < two64 * top_den /\ 0 < v - dust v /\ fst (fst (fst (refund_qi v 0))) = 0)
  /\ (exists v gas, 0 <= v < two64 * top_den /\
        denoms_count (filter above_trim (find_min_denominations v)) * call_value_transfer_gas <= gas /\
        fst (fst (fst (refund_qi v gas))) < v).
Proof.
  split.
  - exists 5000000. vm_compute. repeat split; discriminate || reflexivity.
  - exists 1234, 1000000. vm_compute. repeat split; discriminate || reflexivity.
Qed.

(* what the trim rule drops is less than the smallest refundable denomination *)
Lemma fmd_loop_index : forall dens amount p, In p (fmd_loop dens amount) -> In (fst p) (map fst dens).
Proof.
  induction dens as [|[i d] rest IH]; intros amount p Hin; simpl in Hin; [contradiction|].
  destruct (amount / d =? 0); [right; eauto|].
  destruct (0 <? amount - amount / d * d).
  - destruct Hin as [<-|Hin]; [left; reflexivity|right; eauto].
  - destruct (amount - amount / d * d =? 0); [|contradiction].
    destruct Hin as [<-|[]]. left; reflexivity.
Qed.

Lemma filter_all : forall (A : Type) (f : A -> bool) l, (forall x, In x l -> f x = true) -> filter f l = l.
Proof.
  induction l as [|x l IH]; intros H; [reflexivity|]. simpl. rewrite (H x (or_introl eq_refl)).
  f_equal. apply IH. intros y Hy. apply H. right; assumption.
Qed.

Lemma fmd_loop_low_sum : forall k hi lo amount,
  Forall good_pair hi -> Forall good_pair lo ->
  Forall (fun p => k < fst p) hi -> Forall (fun p => fst p <= k) lo ->
  hi <> [] -> lo <> [] -> last (map snd lo) 0 = 1 ->
  0 <= amount -> amount < two64 * snd (hd (0, 0) hi) ->
  denoms_sum (filter (fun p => negb (k <? fst p)) (fmd_loop (hi ++ lo) amount)) < snd (last hi (0, 0)).
Proof.
  intros k hi lo. induction hi as [|[i d] hi IH]; intros amount Ghi Glo Khi Klo Hne Hlo Hlast Ha Hb; [congruence|].
  inversion Ghi as [|? ? Gp Ghi']; subst. destruct Gp as (_ & Hdpos & Hdlt). simpl in Hdpos, Hdlt.
  inversion Khi as [|? ? Kp Khi']; subst. simpl in Kp. cbn [hd snd] in Hb.
  assert (Hlow_all : forall amt, filter (fun p => negb (k <? fst p)) (fmd_loop lo amt) = fmd_loop lo amt).
  { intros amt. apply filter_all. intros p Hp. apply fmd_loop_index in Hp.
    apply in_map_iff in Hp. destruct Hp as (q & Hq & Hin). rewrite Forall_forall in Klo. specialize (Klo q Hin).
    apply negb_true_iff. apply Z.ltb_ge. lia. }
  assert (Hlo_sum : forall amt, 0 <= amt -> amt < d -> denoms_sum (fmd_loop lo amt) = amt).
  { intros amt H0 H1. apply fmd_loop_sum; try assumption.
    - intros; congruence.
    - intros _. split; [assumption|]. destruct lo as [|[i' d'] lo']; [congruence|]. cbn [hd snd].
      inversion Glo as [|? ? Gp' _]; subst. destruct Gp' as (_ & Hd' & _). simpl in Hd'. pose proof two64_pos. nia. }
  pose proof (Z.mod_pos_bound amount d Hdpos) as Hmod.
  pose proof (Z.div_mod amount d ltac:(lia)) as Hdm.
  assert (Hrest : forall amt, 0 <= amt -> amt < d -> hi <> [] ->
            denoms_sum (filter (fun p => negb (k <? fst p)) (fmd_loop (hi ++ lo) amt)) < snd (last hi (0, 0))).
  { intros amt H0 H1 Hhi. apply IH; try assumption.
    destruct hi as [|[i2 d2] hi2]; [congruence|]. cbn [hd snd].
    inversion Ghi' as [|? ? Gp2 _]; subst. destruct Gp2 as (_ & Hd2 & _). simpl in Hd2. pose proof two64_pos. nia. }
  assert (Hi : (k <? i) = true) by (apply Z.ltb_lt; lia).
  cbn [app fmd_loop].
  destruct hi as [|h2 hi2].
  - (* last refundable denomination *)
    cbn [last app]. cbn [snd].
    destruct (Z.eqb_spec (amount / d) 0) as [Hz|Hz].
    + assert (amount < d) by (rewrite Hz in Hdm; lia).
      rewrite Hlow_all, Hlo_sum by lia. lia.
    + replace (amount - amount / d * d) with (amount mod d) by lia.
      destruct (Z.ltb_spec 0 (amount mod d)).
      * cbn [filter fst]. rewrite Hi. cbn [negb]. rewrite Hlow_all, Hlo_sum by lia. lia.
      * assert (Hm0 : amount mod d = 0) by lia. rewrite Hm0. cbn [Z.eqb filter fst]. rewrite Hi. cbn [negb].
        unfold denoms_sum. simpl. lia.
  - assert (Hl : last ((i, d) :: h2 :: hi2) (0, 0) = last (h2 :: hi2) (0, 0)) by reflexivity.
    rewrite Hl.
    destruct (Z.eqb_spec (amount / d) 0) as [Hz|Hz].
    + assert (amount < d) by (rewrite Hz in Hdm; lia).
      apply Hrest; [lia|lia|discriminate].
    + replace (amount - amount / d * d) with (amount mod d) by lia.
      destruct (Z.ltb_spec 0 (amount mod d)).
      * cbn [filter fst]. rewrite Hi. cbn [negb]. apply Hrest; [lia|lia|discriminate].
      * assert (Hm0 : amount mod d = 0) by lia. rewrite Hm0. cbn [Z.eqb filter fst]. rewrite Hi. cbn [negb].
        unfold denoms_sum. cbn [fold_right].
        assert (Hlast_pos : Forall good_pair (h2 :: hi2) -> 0 < snd (last (h2 :: hi2) (0, 0))).
        { clear. generalize h2. induction hi2 as [|x l IHl]; intros h G.
          - inversion G as [|? ? (_ & ? & _) _]; subst. simpl. assumption.
          - inversion G; subst. change (last (h :: x :: l) (0, 0)) with (last (x :: l) (0, 0)). apply IHl. assumption. }
        apply Hlast_pos. assumption.
Qed.

Definition dens_hi : list (Z * Z) := filter above_trim dens_desc.
Definition dens_lo : list (Z * Z) := filter (fun p => negb (above_trim p)) dens_desc.
Definition smallest_refundable : Z := snd (last dens_hi (0, 0)).

Definition trim_split_ok : bool :=
  forallb pair_ok dens_hi && forallb pair_ok dens_lo
  && forallb (fun p => max_trim_denomination <? fst p) dens_hi
  && forallb (fun p => fst p <=? max_trim_denomination) dens_lo
  && negb (Nat.eqb (length dens_hi) 0) && negb (Nat.eqb (length dens_lo) 0)
  && (last (map snd dens_lo) 0 =? 1)
  && (smallest_refundable =? den_value (max_trim_denomination + 1)).
Lemma trim_split_ok_true : trim_split_ok = true.
Proof. vm_compute. reflexivity. Qed.
Lemma dens_desc_split : dens_desc = dens_hi ++ dens_lo.
Proof. vm_compute. reflexivity. Qed.

Lemma forallb_pair_ok_good : forall l, forallb pair_ok l = true -> Forall good_pair l.
Proof.
  intros l H. rewrite forallb_forall in H. apply Forall_forall. intros p Hp. specialize (H p Hp).
  unfold pair_ok in H. do 2 (apply andb_prop in H; destruct H as [H ?]).
  unfold good_pair. repeat split; [apply Z.eqb_eq|apply Z.ltb_lt|apply Z.ltb_lt]; assumption.
Qed.

Lemma dust_lt_smallest_refundable : forall v,
  0 <= v -> v < two64 * top_den -> dust v < smallest_refundable.
Proof.
  intros v Hv Hg. unfold dust, find_min_denominations, smallest_refundable.
  pose proof trim_split_ok_true as T. unfold trim_split_ok in T.
  apply andb_prop in T; destruct T as [T _].
  apply andb_prop in T; destruct T as [T Hlast1].
  apply andb_prop in T; destruct T as [T Hlone].
  apply andb_prop in T; destruct T as [T Hhine].
  apply andb_prop in T; destruct T as [T Hlok].
  apply andb_prop in T; destruct T as [T Hhik].
  apply andb_prop in T; destruct T as [Hhigood Hlogood].
  revert Hv Hg. unfold top_den. rewrite dens_desc_split.
  generalize dens_hi dens_lo Hhigood Hlogood Hhik Hlok Hhine Hlone Hlast1. clear.
  intros hi lo Hhigood Hlogood Hhik Hlok Hhine Hlone Hlast1 Hv Hg.
  apply (fmd_loop_low_sum max_trim_denomination hi lo v).
  - apply forallb_pair_ok_good; assumption.
  - apply forallb_pair_ok_good; assumption.
  - rewrite forallb_forall in Hhik. apply Forall_forall. intros p Hp. apply Z.ltb_lt. apply Hhik; assumption.
  - rewrite forallb_forall in Hlok. apply Forall_forall. intros p Hp. apply Z.leb_le. apply Hlok; assumption.
  - intros ->. simpl in Hhine. discriminate.
  - intros ->. simpl in Hlone. discriminate.
  - apply Z.eqb_eq; assumption.
  - assumption.
  - destruct hi as [|h hi']; [simpl in Hhine; discriminate|]. exact Hg.
Qed.

(* ---------- the conversion block ---------- *)

Lemma mapM_In : forall (A B : Type) (f : A -> option B) l r y,
  mapM f l = Some r -> In y r -> exists x, In x l /\ f x = Some y.
Proof.
  induction l as [|x l IH]; intros r y Hm Hin; simpl in Hm.
  - inversion Hm; subst. contradiction.
  - destruct (f x) as [y0|] eqn:Hf; [|discriminate].
    destruct (mapM f l) as [r0|] eqn:Hr; [|discriminate].
    inversion Hm; subst. destruct Hin as [<-|Hin].
    + exists x. split; [left; reflexivity|assumption].
    + destruct (IH r0 y eq_refl Hin) as (x0 & Hx0 & Hfx0). exists x0. split; [right|]; assumption.
Qed.

Lemma mapM_map : forall (A B C : Type) (f : A -> option B) (g : B -> C) (h : A -> C) l r,
  (forall x y, f x = Some y -> g y = h x) -> mapM f l = Some r -> map g r = map h l.
Proof.
  induction l as [|x l IH]; intros r Hgh Hm; simpl in Hm.
  - inversion Hm; reflexivity.
  - destruct (f x) as [y0|] eqn:Hf; [|discriminate].
    destruct (mapM f l) as [r0|] eqn:Hr; [|discriminate].
    inversion Hm; subst. simpl. rewrite (Hgh _ _ Hf). f_equal. apply IH; [assumption|reflexivity].
Qed.

Lemma insert_desc_perm : forall x l, Permutation (insert_desc x l) (x :: l).
Proof.
  induction l as [|y l IH]; simpl; [reflexivity|].
  destruct (sort_key x <? sort_key y); [|reflexivity].
  rewrite IH. apply perm_swap.
Qed.
Lemma sort_desc_perm : forall l, Permutation (sort_desc l) l.
Proof.
  induction l as [|x l IH]; simpl; [reflexivity|].
  rewrite insert_desc_perm. constructor. exact IH.
Qed.

(* descending by slip, and stable: ETXs of equal key keep their inbound order *)
Inductive desc_sorted : list etx -> Prop :=
| ds_nil : desc_sorted []
| ds_cons : forall x l, (forall y, In y l -> sort_key y <= sort_key x) -> desc_sorted l -> desc_sorted (x :: l).

Lemma insert_desc_in : forall x l y, In y (insert_desc x l) -> y = x \/ In y l.
Proof.
  intros x l y H. apply (Permutation_in _ (insert_desc_perm x l)) in H. destruct H; [left; congruence|right; assumption].
Qed.
Lemma insert_desc_sorted : forall x l, desc_sorted l -> desc_sorted (insert_desc x l).
Proof.
  induction 1 as [|y l Hy Hs IH]; simpl.
  - constructor; [intros ? []|constructor].
  - destruct (Z.ltb_spec (sort_key x) (sort_key y)) as [Hlt|Hge].
    + constructor; [|assumption]. intros z Hz. apply insert_desc_in in Hz. destruct Hz as [->|Hz]; [lia|auto].
    + constructor; [|constructor; assumption]. intros z [<-|Hz]; [lia|]. specialize (Hy z Hz). lia.
Qed.
Lemma sort_desc_sorted : forall l, desc_sorted (sort_desc l).
Proof. induction l; simpl; [constructor|apply insert_desc_sorted; assumption]. Qed.

Definition same_key (k : Z) (e : etx) : bool := sort_key e =? k.
Lemma insert_desc_stable : forall k x l, desc_sorted l ->
  filter (same_key k) (insert_desc x l) = filter (same_key k) (x :: l).
Proof.
  induction 1 as [|y l Hy Hs IH]; [reflexivity|].
  cbn [insert_desc]. destruct (Z.ltb_spec (sort_key x) (sort_key y)) as [Hlt|Hge]; [|reflexivity].
  cbn [filter] in *. rewrite IH. unfold same_key.
  destruct (Z.eqb_spec (sort_key y) k), (Z.eqb_spec (sort_key x) k); try reflexivity. lia.
Qed.
Lemma sort_desc_stable : forall k l, filter (same_key k) (sort_desc l) = filter (same_key k) l.
Proof.
  induction l as [|x l IH]; [reflexivity|]. simpl sort_desc.
  rewrite insert_desc_stable by apply sort_desc_sorted. simpl. rewrite IH. reflexivity.
Qed.

Lemma slip_of_range : forall e, min_slip <= slip_of e <= max_slip.
Proof.
  intros e. use_params. unfold slip_of. destruct (e_slip e) as [s|]; [|lia].
  destruct (Z.ltb_spec max_slip s).
  - destruct (Z.ltb_spec max_slip min_slip); lia.
  - destruct (Z.ltb_spec s min_slip); lia.
Qed.

Lemma floor10_ge : forall o v, o * 10 / 100 <= floor10 o v.
Proof. intros. unfold floor10. destruct (Z.ltb_spec v (o * 10 / 100)); lia. Qed.
Lemma floor10_ge_v : forall o v, v <= floor10 o v.
Proof. intros. unfold floor10. destruct (Z.ltb_spec v (o * 10 / 100)); lia. Qed.
Lemma ten_percent_bounds : forall o, 0 <= o -> 0 <= o * 10 / 100 <= o.
Proof.
  intros o Ho. split; [apply Z.div_pos; lia|]. apply Z.div_le_upper_bound; lia.
Qed.
Lemma floor10_le : forall o v, 0 <= o -> v <= o -> floor10 o v <= o.
Proof.
  intros o v Ho Hv. unfold floor10. pose proof (ten_percent_bounds o Ho).
  destruct (Z.ltb_spec v (o * 10 / 100)); lia.
Qed.
Lemma floor10_nonneg : forall o v, 0 <= o -> 0 <= floor10 o v.
Proof. intros o v Ho. pose proof (floor10_ge o v). pose proof (ten_percent_bounds o Ho). lia. Qed.

Lemma apply_kq_le : forall h toqi dint value,
  0 <= h_kqd h -> 0 <= dint -> 0 <= value ->
  apply_kq h toqi dint (kq_of h dint) value <= value.
Proof.
  intros h toqi dint value Hk Hd Hv. use_params. unfold apply_kq, kq_of.
  destruct (kq_applies h toqi && negb (dint =? 0)) eqn:Hc; [|lia].
  apply andb_prop in Hc. destruct Hc as [_ Hc]. apply negb_true_iff in Hc. apply Z.eqb_neq in Hc.
  assert (Hkq : dint * (kquai_mult - h_kqd h) / kquai_mult <= dint) by (apply Z.div_le_upper_bound; nia).
  apply Z.div_le_upper_bound; nia.
Qed.

Definition rates_ok (h : hdr) : Prop := 0 <= h_k h /\ 0 <= h_logdiff h /\ 0 <= h_diff h /\ 0 < h_kqi h.
Lemma rates_ok_ra : forall h, rates_ok h -> 1 <= ra h.
Proof. intros h (A & B & _). apply quai_reward_pos; assumption. Qed.
Lemma rates_ok_rb : forall h, rates_ok h -> 1 <= rb h.
Proof. intros h (_ & _ & C & D). apply qi_reward_pos; assumption. Qed.
Lemma rates_ok_ra_new : forall h knew, rates_ok h -> 0 <= knew -> 1 <= ra_new h knew.
Proof. intros h knew (_ & B & _) Hk. apply quai_reward_pos; assumption. Qed.

Section WithDisc.
  Variable disc : Z -> Z -> Z.

  Lemma pass1_map : forall h l acc r, pass1 disc h acc l = Some r -> map s_e r = l.
  Proof.
    induction l as [|e l IH]; intros acc r H; simpl in H.
    - inversion H; reflexivity.
    - destruct (p1_step disc h acc e) as [[acc' s]|] eqn:Hs; [|discriminate].
      destruct (pass1 disc h acc' l) as [r0|] eqn:Hr; [|discriminate].
      inversion H; subst. simpl. f_equal.
      + unfold p1_step in Hs. destruct (e_conv e && (0 <? e_value e)).
        * destruct (_ =? 0); [discriminate|]. destruct (_ <? after_slip e); inversion Hs; reflexivity.
        * inversion Hs; reflexivity.
      + eapply IH; eassumption.
  Qed.

  Lemma p1_step_acc : forall h acc e acc' s,
    rates_ok h -> 0 <= e_value e -> 0 <= acc -> p1_step disc h acc e = Some (acc', s) -> 0 <= acc'.
  Proof.
    intros h acc e acc' s Hr Hv Ha H. unfold p1_step in H.
    pose proof (qi_to_quai_nonneg (ra h) (rb h) (e_value e) (rates_ok_ra h Hr) (rates_ok_rb h Hr) Hv).
    destruct (e_conv e && (0 <? e_value e)).
    - destruct (_ =? 0); [discriminate|]. destruct (_ <? after_slip e); inversion H; subst; try assumption.
      destruct (e_toqi e); lia.
    - inversion H; subst; assumption.
  Qed.

  Lemma pass1_In : forall h l acc r s,
    rates_ok h -> Forall (fun e => 0 <= e_value e) l -> 0 <= acc ->
    pass1 disc h acc l = Some r -> In s r ->
    exists acc0 acc1, 0 <= acc0 /\ In (s_e s) l /\ p1_step disc h acc0 (s_e s) = Some (acc1, s).
  Proof.
    induction l as [|e l IH]; intros acc r s Hr Hl Ha H Hin; simpl in H.
    - inversion H; subst. contradiction.
    - inversion Hl as [|e0 l0 He Hl']; subst.
      destruct (p1_step disc h acc e) as [[acc' s0]|] eqn:Hs; [|discriminate].
      destruct (pass1 disc h acc' l) as [r0|] eqn:Hr0; [|discriminate].
      inversion H; subst. destruct Hin as [<-|Hin].
      + assert (s_e s0 = e).
        { pose proof (pass1_map h [e] acc [s0]) as Hm. simpl in Hm. rewrite Hs in Hm. specialize (Hm eq_refl). inversion Hm; reflexivity. }
        exists acc, acc'. rewrite H0. split; [assumption|split; [left; reflexivity|assumption]].
      + destruct (IH acc' r0 s Hr Hl' (p1_step_acc h acc e acc' s0 Hr He Ha Hs) Hr0 Hin) as (a0 & a1 & P & Q & R).
        exists a0, a1. split; [assumption|split; [right; assumption|assumption]].
  Qed.

  (* facts about one entry of pass one *)
  Lemma p1_step_facts : forall h acc e acc' s,
    0 <= e_value e -> p1_step disc h acc e = Some (acc', s) ->
    s_e s = e /\ 0 <= s_val s /\
    ((e_conv e = true /\ 0 < e_value e /\ s_orig s = Some (e_value e) /\
      ((s_val s = 0 /\ s_p1 s < after_slip e) \/ (s_val s = e_value e /\ after_slip e <= s_p1 s)))
     \/ ((e_conv e = false \/ e_value e = 0) /\ s_orig s = None /\ s_val s = e_value e)).
  Proof.
    intros h acc e acc' s Hv H. unfold p1_step in H.
    destruct (e_conv e && (0 <? e_value e)) eqn:Hc.
    - apply andb_prop in Hc. destruct Hc as [Hc1 Hc2]. apply Z.ltb_lt in Hc2.
      destruct (_ =? 0); [discriminate|].
      match type of H with context [if ?c <? after_slip e then _ else _] => destruct (Z.ltb_spec c (after_slip e)) as [Hlt|Hge] end;
        inversion H; subst; simpl; (split; [reflexivity|split; [lia|left; repeat split; try assumption]]).
      + left. split; [reflexivity|assumption].
      + right. split; [reflexivity|assumption].
    - inversion H; subst; simpl. split; [reflexivity|split; [assumption|right]].
      split; [|split; reflexivity].
      apply andb_false_iff in Hc. destruct Hc as [Hc|Hc]; [left; assumption|right]. apply Z.ltb_ge in Hc. lia.
  Qed.

  Lemma actual_amount_nonneg : forall h l,
    rates_ok h -> (forall s, In s l -> 0 <= s_val s) -> 0 <= actual_amount h l.
  Proof.
    intros h l Hr. induction l as [|s l IH]; intros Hall; simpl; [lia|].
    assert (0 <= amount_of h s).
    { unfold amount_of. destruct (e_conv (s_e s) && negb (s_val s =? 0)); [|lia].
      pose proof (Hall s (or_introl eq_refl)).
      destruct (e_toqi (s_e s)); [assumption|].
      apply qi_to_quai_nonneg; [apply rates_ok_ra|apply rates_ok_rb|]; assumption. }
    assert (0 <= actual_amount h l) by (apply IH; intros; apply Hall; right; assumption).
    unfold actual_amount in *. lia.
  Qed.

  (* the chain of the three passes through one entry of the result *)
  Lemma reprice_entry : forall h knew etxs r o,
    rates_ok h -> Forall (fun e => 0 <= e_value e) etxs ->
    reprice disc h knew etxs = Some r -> In o (r_out r) ->
    exists acc acc' s t,
      In (o_e o) etxs /\ 0 <= acc /\ 0 <= r_actual r /\
      p1_step disc h acc (o_e o) = Some (acc', s) /\
      p2_entry h (r_actual r) (disc_at disc h (r_actual r)) s = Some t /\
      p3_entry h knew t = Some o.
  Proof.
    intros h knew etxs r o Hr Hv H Hin. unfold reprice in H.
    destruct (pass1 disc h 0 (sort_desc etxs)) as [l1|] eqn:H1; [|discriminate].
    destruct (mapM _ l1) as [l2|] eqn:H2; [|discriminate].
    destruct (mapM _ l2) as [l3|] eqn:H3; [|discriminate].
    inversion H; subst; clear H. simpl in *.
    assert (Hv' : Forall (fun e => 0 <= e_value e) (sort_desc etxs)).
    { apply Forall_forall. intros e He. rewrite Forall_forall in Hv. apply Hv.
      eapply Permutation_in; [apply sort_desc_perm|exact He]. }
    destruct (mapM_In _ _ _ _ _ _ H3 Hin) as (t & Ht & Hp3).
    destruct (mapM_In _ _ _ _ _ _ H2 Ht) as (s & Hs & Hp2).
    destruct (pass1_In h _ 0 l1 s Hr Hv' ltac:(lia) H1 Hs) as (a0 & a1 & Ha0 & Hse & Hp1).
    assert (Hoe : o_e o = s_e s).
    { assert (t_s t = s).
      { unfold p2_entry in Hp2. destruct (e_conv (s_e s) && (0 <? s_val s)).
        - destruct (s_orig s); [|discriminate]. destruct (_ =? 0); [discriminate|].
          destruct (e_toqi (s_e s)); inversion Hp2; reflexivity.
        - inversion Hp2; reflexivity. }
      unfold p3_entry in Hp3. rewrite H in Hp3.
      destruct (e_conv (s_e s)).
      - destruct (t_val t <? 0); [inversion Hp3; reflexivity|].
        destruct (t_val t =? 0).
        + destruct (s_orig s); inversion Hp3; reflexivity.
        + destruct (t_before t); inversion Hp3; reflexivity.
      - inversion Hp3; reflexivity. }
    exists a0, a1, s, t. rewrite Hoe. repeat split; try assumption.
    - eapply Permutation_in; [apply sort_desc_perm|exact Hse].
    - apply actual_amount_nonneg; [assumption|]. intros s' Hs'.
      destruct (pass1_In h _ 0 l1 s' Hr Hv' ltac:(lia) H1 Hs') as (b0 & b1 & _ & Hse' & Hp1').
      rewrite Forall_forall in Hv'.
      destruct (p1_step_facts h b0 (s_e s') b1 s' (Hv' _ Hse') Hp1') as (_ & Hnn & _). exact Hnn.
  Qed.

  (* what the second and third pass make of a pass-one entry *)
  Lemma entry_outcome : forall h knew actual e acc acc' s t o,
    rates_ok h -> 0 <= knew -> 0 <= e_value e -> o_e o = e ->
    p1_step disc h acc e = Some (acc', s) ->
    p2_entry h actual (disc_at disc h actual) s = Some t ->
    p3_entry h knew t = Some o ->
    (e_conv e = false /\ o_kind o = KOther /\ o_value o = e_value e)
    \/ (e_conv e = true /\ 0 < e_value e /\ o_kind o = KReverted /\ o_value o = e_value e)
    \/ (e_conv e = true /\ 0 < e_value e /\ o_kind o = KConverted /\ actual <> 0 /\
        after_slip e <= o_p1 o /\
        o_before o = floor10 (e_value e)
                       (apply_kq h (e_toqi e) (disc_at disc h actual) (kq_of h (disc_at disc h actual))
                                 (e_value e * disc_at disc h actual / actual)) /\
        o_value o = (if e_toqi e then quai_to_qi (ra_new h knew) (rb h) (o_before o)
                     else qi_to_quai (ra_new h knew) (rb h) (o_before o)) /\
        0 < (if e_toqi e then quai_to_qi (ra h) (rb h) (o_before o)
             else qi_to_quai (ra h) (rb h) (o_before o))).
  Proof.
    intros h knew actual e acc acc' s t o Hr Hk Hv Hoe Hp1 Hp2 Hp3.
    pose proof (rates_ok_ra h Hr) as Ha. pose proof (rates_ok_rb h Hr) as Hb.
    destruct (p1_step_facts h acc e acc' s Hv Hp1) as (Hse & Hnn & Hcases).
    unfold p2_entry in Hp2. rewrite Hse in Hp2. unfold p3_entry in Hp3.
    destruct Hcases as [(Hc & Hpos & Horig & Hacc)|(Hnc & Horig & Hval)].
    - rewrite Hc in Hp2. rewrite Horig in Hp2. simpl in Hp2.
      destruct Hacc as [(Hz & Hlt)|(Hz & Hge)].
      + (* rejected in pass one *)
        rewrite Hz in Hp2. simpl in Hp2. inversion Hp2; subst t; clear Hp2. simpl in Hp3.
        rewrite Hse, Hc, Horig in Hp3. simpl in Hp3. inversion Hp3; subst o; simpl.
        right; left. repeat split; assumption.
      + rewrite Hz in Hp2. destruct (Z.ltb_spec 0 (e_value e)) as [_|]; [|lia].
        destruct (Z.eqb_spec actual 0) as [|Hne]; [discriminate|].
        set (bf := floor10 (e_value e) _) in Hp2.
        assert (Hbf : 0 <= bf) by (apply floor10_nonneg; assumption).
        destruct (e_toqi e) eqn:Hq; inversion Hp2; subst t; clear Hp2; simpl in Hp3; rewrite Hse, Hc in Hp3.
        * pose proof (quai_to_qi_nonneg (ra h) (rb h) bf Ha Hb Hbf) as Hq0.
          destruct (Z.ltb_spec (quai_to_qi (ra h) (rb h) bf) 0) as [|_]; [lia|].
          destruct (Z.eqb_spec (quai_to_qi (ra h) (rb h) bf) 0) as [He0|Hne0].
          -- rewrite Horig in Hp3. inversion Hp3; subst o; simpl. right; left. repeat split; assumption.
          -- rewrite Hq in Hp3. inversion Hp3; subst o; simpl. right; right.
             repeat split; try assumption; try reflexivity; lia.
        * pose proof (qi_to_quai_nonneg (ra h) (rb h) bf Ha Hb Hbf) as Hq0.
          destruct (Z.ltb_spec (qi_to_quai (ra h) (rb h) bf) 0) as [|_]; [lia|].
          destruct (Z.eqb_spec (qi_to_quai (ra h) (rb h) bf) 0) as [He0|Hne0].
          -- rewrite Horig in Hp3. inversion Hp3; subst o; simpl. right; left. repeat split; assumption.
          -- rewrite Hq in Hp3. inversion Hp3; subst o; simpl. right; right.
             repeat split; try assumption; try reflexivity; lia.
    - (* not a (positive) conversion *)
      assert (Hc2 : e_conv e && (0 <? s_val s) = false).
      { destruct Hnc as [Hnc|Hnc]; [rewrite Hnc; reflexivity|]. rewrite Hval, Hnc. apply andb_false_r. }
      rewrite Hc2 in Hp2. inversion Hp2; subst t; clear Hp2. simpl in Hp3. rewrite Hse in Hp3.
      destruct (e_conv e) eqn:Hc.
      + destruct Hnc as [|Hz]; [discriminate|]. rewrite Hval, Hz, Horig in Hp3. simpl in Hp3. discriminate.
      + inversion Hp3; subst o; simpl. left. repeat split. assumption.
  Qed.
End WithDisc.

(* ---------- theorems about the whole block ---------- *)

Section Block.
  Variable disc : Z -> Z -> Z.

  Definition inputs_ok (h : hdr) (knew : Z) (etxs : list etx) : Prop :=
    rates_ok h /\ 0 <= knew /\ Forall (fun e => 0 <= e_value e) etxs.

  Definition rate_amount (h : hdr) (knew : Z) (e : etx) (x : Z) : Z :=
    if e_toqi e then quai_to_qi (ra_new h knew) (rb h) x else qi_to_quai (ra_new h knew) (rb h) x.

  Lemma rate_amount_mono : forall h knew e x y, rates_ok h -> 0 <= knew -> 0 <= x -> x <= y ->
    rate_amount h knew e x <= rate_amount h knew e y.
  Proof.
    intros h knew e x y Hr Hk Hx Hxy. unfold rate_amount.
    pose proof (rates_ok_ra_new h knew Hr Hk). pose proof (rates_ok_rb h Hr).
    destruct (e_toqi e); [apply quai_to_qi_mono|apply qi_to_quai_mono]; assumption.
  Qed.
  Lemma rate_amount_nonneg : forall h knew e x, rates_ok h -> 0 <= knew -> 0 <= x -> 0 <= rate_amount h knew e x.
  Proof.
    intros h knew e x Hr Hk Hx. unfold rate_amount.
    pose proof (rates_ok_ra_new h knew Hr Hk). pose proof (rates_ok_rb h Hr).
    destruct (e_toqi e); [apply quai_to_qi_nonneg|apply qi_to_quai_nonneg]; assumption.
  Qed.

  (* no inbound ETX is lost or duplicated; they leave in stable descending-slip order *)
  Lemma reprice_order : forall h knew etxs r,
    reprice disc h knew etxs = Some r -> map o_e (r_out r) = sort_desc etxs.
  Proof.
    intros h knew etxs r H. unfold reprice in H.
    destruct (pass1 disc h 0 (sort_desc etxs)) as [l1|] eqn:H1; [|discriminate].
    destruct (mapM _ l1) as [l2|] eqn:H2; [|discriminate].
    destruct (mapM _ l2) as [l3|] eqn:H3; [|discriminate].
    inversion H; subst; clear H. simpl.
    assert (E3 : map o_e l3 = map (fun t => s_e (t_s t)) l2).
    { apply (mapM_map _ _ _ (p3_entry h knew) o_e (fun t => s_e (t_s t)) l2 l3); [|exact H3].
      intros t o Hp. unfold p3_entry in Hp. destruct (e_conv (s_e (t_s t))).
      + destruct (t_val t <? 0); [inversion Hp; reflexivity|]. destruct (t_val t =? 0).
        * destruct (s_orig (t_s t)); inversion Hp; reflexivity.
        * destruct (t_before t); inversion Hp; reflexivity.
      + inversion Hp; reflexivity. }
    assert (E2 : map t_s l2 = map (fun s : st1 => s) l1).
    { apply (mapM_map _ _ _ (p2_entry h (actual_amount h l1) (disc_at disc h (actual_amount h l1))) t_s (fun s => s) l1 l2); [|exact H2].
      intros s t Hp. unfold p2_entry in Hp. destruct (e_conv (s_e s) && (0 <? s_val s)).
      + destruct (s_orig s); [|discriminate]. destruct (_ =? 0); [discriminate|].
        destruct (e_toqi (s_e s)); inversion Hp; reflexivity.
      + inversion Hp; reflexivity. }
    rewrite E3. rewrite <- (map_map t_s s_e). rewrite E2. rewrite map_id.
    exact (pass1_map disc h _ 0 l1 H1).
  Qed.

  Lemma reprice_permutation : forall h knew etxs r,
    reprice disc h knew etxs = Some r -> Permutation (map o_e (r_out r)) etxs.
  Proof. intros. erewrite reprice_order by eassumption. apply sort_desc_perm. Qed.

  (* exactly one outcome per ETX *)
  Lemma reprice_outcome : forall h knew etxs r o,
    inputs_ok h knew etxs -> reprice disc h knew etxs = Some r -> In o (r_out r) ->
    In (o_e o) etxs /\
    ((e_conv (o_e o) = false /\ o_kind o = KOther /\ o_value o = e_value (o_e o))
     \/ (e_conv (o_e o) = true /\ 0 < e_value (o_e o) /\ o_kind o = KReverted /\ o_value o = e_value (o_e o))
     \/ (e_conv (o_e o) = true /\ 0 < e_value (o_e o) /\ o_kind o = KConverted /\
         o_value o = rate_amount h knew (o_e o) (o_before o) /\
         e_value (o_e o) * 10 / 100 <= o_before o /\ after_slip (o_e o) <= o_p1 o)).
  Proof.
    intros h knew etxs r o (Hr & Hk & Hv) H Hin.
    destruct (reprice_entry disc h knew etxs r o Hr Hv H Hin) as (acc & acc' & s & t & Hie & Hacc & Hact & H1 & H2 & H3).
    split; [assumption|].
    assert (Hve : 0 <= e_value (o_e o)) by (rewrite Forall_forall in Hv; apply Hv; assumption).
    destruct (entry_outcome disc h knew (r_actual r) (o_e o) acc acc' s t o Hr Hk Hve eq_refl H1 H2 H3)
      as [A|[A|(A1 & A2 & A3 & A4 & A5 & A6 & A7 & A8)]]; [left; assumption|right; left; assumption|].
    right; right. repeat split; try assumption. rewrite A6. apply floor10_ge.
  Qed.

  Hypothesis disc_bounds : forall v m, 0 <= v -> 0 <= disc v m <= v.

  (* after the slip-change fork the converted amount is at most the original (discounts only reduce) *)
  Lemma reprice_before_le_original : forall h knew etxs r o,
    inputs_ok h knew etxs -> postfork h = true -> 0 <= h_kqd h ->
    reprice disc h knew etxs = Some r -> In o (r_out r) -> o_kind o = KConverted ->
    o_before o <= e_value (o_e o).
  Proof.
    intros h knew etxs r o (Hr & Hk & Hv) Hpf Hkqd H Hin Hkind.
    destruct (reprice_entry disc h knew etxs r o Hr Hv H Hin) as (acc & acc' & s & t & Hie & Hacc & Hact & H1 & H2 & H3).
    assert (Hve : 0 <= e_value (o_e o)) by (rewrite Forall_forall in Hv; apply Hv; assumption).
    destruct (entry_outcome disc h knew (r_actual r) (o_e o) acc acc' s t o Hr Hk Hve eq_refl H1 H2 H3)
      as [(_ & A & _)|[(_ & _ & A & _)|(A1 & A2 & A3 & A4 & A5 & A6 & A7 & A8)]]; try congruence.
    rewrite A6. set (actual := r_actual r) in *.
    assert (Hd : 0 <= disc_at disc h actual <= actual).
    { unfold disc_at. rewrite Hpf. apply disc_bounds. assumption. }
    set (d2 := disc_at disc h actual) in *.
    assert (Hq : 0 <= e_value (o_e o) * d2 / actual <= e_value (o_e o)).
    { split; [apply Z.div_pos; nia|]. apply Z.div_le_upper_bound; nia. }
    apply floor10_le; [assumption|].
    etransitivity; [apply apply_kq_le; lia|lia].
  Qed.

  (* credited amount <= what the new rate gives for the original amount *)
  Lemma reprice_credit_le_rate : forall h knew etxs r o,
    inputs_ok h knew etxs -> postfork h = true -> 0 <= h_kqd h ->
    reprice disc h knew etxs = Some r -> In o (r_out r) -> o_kind o = KConverted ->
    o_value o <= rate_amount h knew (o_e o) (e_value (o_e o)).
  Proof.
    intros h knew etxs r o Hin Hpf Hkqd H Ho Hkind.
    pose proof (reprice_before_le_original h knew etxs r o Hin Hpf Hkqd H Ho Hkind) as Hle.
    destruct Hin as (Hr & Hk & Hv).
    destruct (reprice_outcome h knew etxs r o (conj Hr (conj Hk Hv)) H Ho)
      as (Hie & [(_ & A & _)|[(_ & _ & A & _)|(A1 & A2 & A3 & A4 & A5 & A6)]]); try congruence.
    rewrite A4. apply rate_amount_mono; try assumption.
    pose proof (ten_percent_bounds (e_value (o_e o)) ltac:(lia)). lia.
  Qed.
End Block.

(* the 10 % floor needs no assumption on the discount oracle *)
Lemma reprice_floor_holds : forall disc h knew etxs r o,
  inputs_ok h knew etxs ->
  reprice disc h knew etxs = Some r -> In o (r_out r) -> o_kind o = KConverted ->
  rate_amount h knew (o_e o) (e_value (o_e o) * 10 / 100) <= o_value o.
Proof.
  intros disc h knew etxs r o (Hr & Hk & Hv) H Ho Hkind.
  destruct (reprice_outcome disc h knew etxs r o (conj Hr (conj Hk Hv)) H Ho)
    as (Hie & [(_ & A & _)|[(_ & _ & A & _)|(A1 & A2 & A3 & A4 & A5 & A6)]]); try congruence.
  rewrite A4. apply rate_amount_mono; try assumption.
  pose proof (ten_percent_bounds (e_value (o_e o)) ltac:(lia)). lia.
Qed.

Lemma reprice_revert_original : forall disc h knew etxs r o,
  inputs_ok h knew etxs ->
  reprice disc h knew etxs = Some r -> In o (r_out r) -> o_kind o = KReverted ->
  e_conv (o_e o) = true /\ o_value o = e_value (o_e o) /\ 0 < o_value o.
Proof.
  intros disc h knew etxs r o Hin H Ho Hkind.
  destruct (reprice_outcome disc h knew etxs r o Hin H Ho)
    as (Hie & [(_ & A & _)|[(A1 & A2 & A3 & A4)|(_ & _ & A & _)]]); try congruence.
  repeat split; try assumption. lia.
Qed.

Lemma reprice_slip_pass_one : forall disc h knew etxs r o,
  inputs_ok h knew etxs ->
  reprice disc h knew etxs = Some r -> In o (r_out r) ->
  e_conv (o_e o) = true -> 0 < e_value (o_e o) ->
  (o_kind o = KConverted -> after_slip (o_e o) <= o_p1 o) /\
  (o_p1 o < after_slip (o_e o) -> o_kind o = KReverted /\ o_value o = e_value (o_e o)).
Proof.
  intros disc h knew etxs r o Hin H Ho Hc Hpos.
  destruct (reprice_outcome disc h knew etxs r o Hin H Ho)
    as (Hie & [(A & _)|[(A1 & A2 & A3 & A4)|(A1 & A2 & A3 & A4 & A5 & A6)]]); try congruence.
  - split; [congruence|]. intros _. split; assumption.
  - split; [intros _; assumption|]. intros Hlt. lia.
Qed.

Lemma reprice_values_nonneg : forall disc h knew etxs r o,
  inputs_ok h knew etxs ->
  reprice disc h knew etxs = Some r -> In o (r_out r) -> 0 <= o_value o.
Proof.
  intros disc h knew etxs r o Hin H Ho.
  destruct (reprice_outcome disc h knew etxs r o Hin H Ho)
    as (Hie & [(_ & _ & A)|[(A1 & A2 & A3 & A4)|(A1 & A2 & A3 & A4 & A5 & A6)]]).
  - destruct Hin as (_ & _ & Hv). rewrite Forall_forall in Hv. rewrite A. apply Hv. assumption.
  - lia.
  - destruct Hin as (Hr & Hk & Hv). rewrite A4. apply rate_amount_nonneg; try assumption.
    pose proof (ten_percent_bounds (e_value (o_e o)) ltac:(lia)). lia.
Qed.

(* ---------- refutations (witnesses are replayed on the real code by the harness corpus) ---------- *)

Definition wit_slip_h : hdr := mkHdr 300000 0 0 0 1 50000 1000000 true.
Definition wit_slip_etxs : list etx :=
  [mkEtx 1%N true true 1000000 (Some 6000); mkEtx 2%N true false 6000000 (Some 5000)].

(* the sender's bound is only checked against the pass-one amount: the finally converted amount can be below it *)
Lemma final_slip_refuted :
  exists disc h knew etxs r o,
    (forall v m, 0 <= v -> 0 <= disc v m <= v) /\ inputs_ok h knew etxs /\ postfork h = true /\
    0 <= h_kqd h <= kquai_mult /\
    reprice disc h knew etxs = Some r /\ In o (r_out r) /\ o_kind o = KConverted /\
    o_before o < after_slip (o_e o).
Proof.
  exists disc_ideal, wit_slip_h, 0, wit_slip_etxs.
  destruct (reprice disc_ideal wit_slip_h 0 wit_slip_etxs) as [r|] eqn:E; [|vm_compute in E; discriminate].
  exists r. vm_compute in E. inversion E; subst r; clear E.
  eexists. split; [exact disc_ideal_bounds|]. split.
  - split; [|split]; [unfold rates_ok; simpl; lia|lia|].
    repeat constructor; simpl; lia.
  - split; [reflexivity|]. split; [vm_compute; split; discriminate|]. split; [reflexivity|].
    split; [left; reflexivity|]. split; [reflexivity|]. vm_compute. reflexivity.
Qed.

Definition wit_pre_h : hdr := mkHdr 280000 0 0 0 1 100 1000000 true.
Definition wit_pre_etxs : list etx := [mkEtx 1%N true true 500000 None].

(* before ConversionSlipChangeBlock the discount is taken of the flow amount: the credit can exceed the rate amount *)
Lemma prefork_credit_refuted :
  exists disc h knew etxs r o,
    (forall v m, 0 <= v -> 0 <= disc v m <= v) /\ inputs_ok h knew etxs /\ postfork h = false /\
    0 <= h_kqd h <= kquai_mult /\
    reprice disc h knew etxs = Some r /\ In o (r_out r) /\ o_kind o = KConverted /\
    rate_amount h knew (o_e o) (e_value (o_e o)) < o_value o.
Proof.
  exists disc_ideal, wit_pre_h, 0, wit_pre_etxs.
  destruct (reprice disc_ideal wit_pre_h 0 wit_pre_etxs) as [r|] eqn:E; [|vm_compute in E; discriminate].
  exists r. vm_compute in E. inversion E; subst r; clear E.
  eexists. split; [exact disc_ideal_bounds|]. split.
  - split; [|split]; [unfold rates_ok; simpl; lia|lia|].
    repeat constructor; simpl; lia.
  - split; [reflexivity|]. split; [vm_compute; split; discriminate|]. split; [reflexivity|].
    split; [left; reflexivity|]. split; [reflexivity|]. vm_compute. reflexivity.
Qed.

(* beyond 2^64 top denominations the stored count wraps *)
Lemma denominations_truncation_refuted :
  exists v, 0 <= v <= max_qi /\ denoms_sum (find_min_denominations v) <> v.
Proof. exists (two64 * 1000000000). vm_compute. split; [split; discriminate|discriminate]. Qed.

(* mint: statement over the real split *)
Lemma mint_spec : forall v gas,
  0 <= v -> v < two64 * top_den -> 0 <= gas ->
  let '(t, i, g, ok) := mint v gas in
  0 <= t <= v /\ 0 <= i <= max_output_index /\ 0 <= g /\ g = gas - i * call_value_transfer_gas /\
  (ok = true -> t = v /\ i = denoms_count (find_min_denominations v)) /\
  (denoms_count (find_min_denominations v) * call_value_transfer_gas <= gas ->
   denoms_count (find_min_denominations v) <= max_output_index -> ok = true).
Proof.
  intros v gas Hv Hg Hgas. use_params. unfold mint, mint_denoms.
  pose proof (mint_fold_spec (find_min_denominations v) 0 0 gas true (fmd_counts_ok v) Hgas ltac:(lia)) as M.
  rewrite (find_min_denominations_sum v Hv Hg) in M.
  destruct (fold_left _ (find_min_denominations v) (0, 0, gas, true)) as [[[t i] g] ok].
  destruct M as (A & B & C & D & E & F).
  split; [lia|]. split; [lia|]. split; [lia|]. split; [lia|]. split.
  - intros H. destruct (E H) as (_ & ? & ?). lia.
  - intros H1 H2. apply F; [reflexivity|lia|lia].
Qed.

(* ---------- packaged statements used by Props/C20.v ---------- *)

(* fingerprint of the inline block the model was written against (reviewed 2026-09-23) *)
Module ShapeDigest.
  Import String.
  Definition reviewed_shape_sha256 : string :=
    "7508d73d354a3e0277120c860960ccdbc78482944e98a314fe8f1d7d0ede4fe7"%string.
  Definition reviewed_mint_shape_sha256 : string :=
    "7899e813144370d3155d40a865b2520cecfd749c70778e2109b038591249402e"%string.
  Definition reviewed_revert_qi_shape_sha256 : string :=
    "0933c10a98b046aa283bed35e7ab20a527615b5cd31dce08fd59f8a2c7a84698"%string.
  Definition reviewed_revert_quai_shape_sha256 : string :=
    "404556dd33a8f9efe317cda5edab573b4e81c88a0ac9f8e5f101e6776e85685b"%string.
End ShapeDigest.
Definition reviewed_shape_sha256 := ShapeDigest.reviewed_shape_sha256.
Definition reviewed_mint_shape_sha256 := ShapeDigest.reviewed_mint_shape_sha256.
Definition reviewed_mint_shape_len : Z := 56.
Definition reviewed_shape_len : Z := 147.
Lemma slice_shape_reviewed :
  slice_shape_sha256 = reviewed_shape_sha256 /\ slice_shape_len = reviewed_shape_len.
Proof. split; vm_compute; reflexivity. Qed.

Lemma mint_shape_reviewed :
  mint_shape_sha256 = reviewed_mint_shape_sha256 /\ mint_shape_len = reviewed_mint_shape_len.
Proof. split; vm_compute; reflexivity. Qed.

Lemma revert_shapes_reviewed :
  revert_qi_shape_sha256 = ShapeDigest.reviewed_revert_qi_shape_sha256 /\ revert_qi_shape_len = 31 /\
  revert_quai_shape_sha256 = ShapeDigest.reviewed_revert_quai_shape_sha256 /\ revert_quai_shape_len = 11.
Proof. repeat split; vm_compute; reflexivity. Qed.

Lemma rewards_positive : forall k logdiff diff kqi,
  0 <= k -> 0 <= logdiff -> 0 <= diff -> 0 < kqi ->
  1 <= quai_reward k logdiff /\ 1 <= qi_reward diff kqi.
Proof. intros. split; [apply quai_reward_pos|apply qi_reward_pos]; assumption. Qed.

Lemma conversions_monotone : forall a b x y, 1 <= a -> 1 <= b -> 0 <= x -> x <= y ->
  qi_to_quai a b x <= qi_to_quai a b y /\ quai_to_qi a b x <= quai_to_qi a b y /\
  0 <= qi_to_quai a b x /\ 0 <= quai_to_qi a b x.
Proof.
  intros. split; [apply qi_to_quai_mono|split; [apply quai_to_qi_mono|split; [apply qi_to_quai_nonneg|apply quai_to_qi_nonneg]]]; assumption.
Qed.

Lemma sort_desc_spec : forall l,
  Permutation (sort_desc l) l /\ desc_sorted (sort_desc l) /\
  forall k, filter (same_key k) (sort_desc l) = filter (same_key k) l.
Proof. intros l. split; [apply sort_desc_perm|split; [apply sort_desc_sorted|intros k; apply sort_desc_stable]]. Qed.

Lemma reprice_no_loss : forall disc h knew etxs r,
  reprice disc h knew etxs = Some r ->
  map o_e (r_out r) = sort_desc etxs /\ Permutation (map o_e (r_out r)) etxs.
Proof. intros. split; [eapply reprice_order|eapply reprice_permutation]; eassumption. Qed.

(* C01 -- ProcessQiTx is parametric in the store: two stores related by a relation that is
   respected by lookup / delete / create produce the same verdicts and results.
   Instance: a tracking (db, batch) view and the flat ledger it would commit. *)
From Coq Require Import List NArith Bool Lia.
From GQ Require Import Lib.Key Lib.SMap Generated.C01Params Model.C01 Proofs.C01_View.
Import ListNotations.
Local Open Scope N_scope.

Definition res_rel {A1 A2} (P : A1 -> A2 -> Prop) (r1 : result A1) (r2 : result A2) : Prop :=
  match r1, r2 with
  | Ok a1, Ok a2 => P a1 a2
  | Err e g, Err e' g' => e = e' /\ g = g'
  | _, _ => False
  end.

Section Sim.
Context {S1 S2 : Type} (st1 : store S1) (st2 : store S2) (R : S1 -> S2 -> Prop).
Hypothesis R_get : forall s1 s2 k, R s1 s2 -> st_get st1 s1 k = st_get st2 s2 k.
Hypothesis R_del : forall s1 s2 k, R s1 s2 -> R (st_del st1 s1 k) (st_del st2 s2 k).
Hypothesis R_put : forall s1 s2 k u, R s1 s2 -> R (st_put st1 s1 k u) (st_put st2 s2 k u).

Definition ia_rel (a1 : iacc (S:=S1)) (a2 : iacc (S:=S2)) : Prop :=
  R (ia_store a1) (ia_store a2) /\ ia_addrs a1 = ia_addrs a2 /\ ia_total a1 = ia_total a2
  /\ ia_dens a1 = ia_dens a2 /\ ia_spent a1 = ia_spent a2.

Lemma in_step_sim c cs gp a1 a2 i : ia_rel a1 a2 ->
  res_rel ia_rel (in_step st1 c cs gp a1 i) (in_step st2 c cs gp a2 i).
Proof.
  intros (HR & Ha & Ht & Hd & Hs). unfold in_step.
  rewrite (R_get _ _ (i_op i) HR).
  destruct (st_get st2 (ia_store a2) (i_op i)) as [u|]; cbn; [|auto].
  destruct (c_height c <? u_lock u); cbn; [auto|].
  destruct (negb (is_qi (i_pkaddr i))); cbn; [auto|].
  destruct (negb (keqb (i_pkaddr i) (u_owner u))); cbn; [auto|].
  destruct (cs && negb (i_pkparse i)); cbn; [auto|].
  destruct (max_denomination <? u_den u); cbn; [auto|].
  unfold ia_rel; cbn. rewrite Ha, Ht, Hd, Hs. repeat split; auto.
Qed.

Lemma in_loop_sim c cs gp ins : forall a1 a2, ia_rel a1 a2 ->
  res_rel ia_rel (in_loop st1 c cs gp a1 ins) (in_loop st2 c cs gp a2 ins).
Proof.
  induction ins as [|i r IH]; intros a1 a2 H; cbn; [exact H|].
  pose proof (in_step_sim c cs gp a1 a2 i H) as Hs.
  destruct (in_step st1 c cs gp a1 i), (in_step st2 c cs gp a2 i); cbn in Hs; try contradiction.
  - apply IH; exact Hs.
  - exact Hs.
Qed.

Lemma put_all_sim cs : forall s1 s2, R s1 s2 -> R (put_all st1 s1 cs) (put_all st2 s2 cs).
Proof.
  unfold put_all. induction cs as [|[k u] cs IH]; cbn; intros s1 s2 H; [exact H|].
  apply IH. apply R_put. exact H.
Qed.

Definition b_rel (b1 : bst (S:=S1)) (b2 : bst (S:=S2)) : Prop :=
  R (b_store b1) (b_store b2) /\ b_gp b1 = b_gp b2 /\ b_used b1 = b_used b2
  /\ b_rlim b1 = b_rlim b2 /\ b_plim b1 = b_plim b2 /\ b_first b1 = b_first b2.

Definition out_rel (x : bst (S:=S1) * txres) (y : bst (S:=S2) * txres) : Prop :=
  b_rel (fst x) (fst y) /\ snd x = snd y.

Lemma process_qi_sim c t b1 b2 : b_rel b1 b2 ->
  res_rel out_rel (process_qi st1 c b1 t) (process_qi st2 c b2 t).
Proof.
  destruct b1 as [s1 gp1 u1 r1 p1 f1], b2 as [s2 gp2 u2 r2 p2 f2].
  intros (HR & Hg & Hu & Hr & Hp & Hf); cbn [b_store b_gp b_used b_rlim b_plim b_first] in *; subst gp2 u2 r2 p2 f2.
  unfold process_qi; cbn [b_store b_gp b_used b_rlim b_plim b_first].
  destruct (sanity t); cbn [res_rel]; [auto|].
  destruct (gp1 <? t_intrinsic t); cbn [res_rel]; [auto|].
  destruct (c_gaslimit c <? u1 + t_intrinsic t); cbn [res_rel]; [auto|].
  pose proof (in_loop_sim c (t_checksig t) (gp1 - t_intrinsic t) (t_ins t)
                (mkIA s1 [] 0 [] []) (mkIA s2 [] 0 [] [])) as HL.
  assert (ia_rel (mkIA s1 [] 0 [] []) (mkIA s2 [] 0 [] [])) as H0 by (repeat split; auto).
  specialize (HL H0).
  destruct (in_loop st1 c (t_checksig t) (gp1 - t_intrinsic t) (mkIA s1 [] 0 [] []) (t_ins t)) as [ia1|e1 g1],
           (in_loop st2 c (t_checksig t) (gp1 - t_intrinsic t) (mkIA s2 [] 0 [] []) (t_ins t)) as [ia2|e2 g2];
    cbn [res_rel] in HL; try contradiction; [|exact HL].
  destruct HL as (HR' & Ha & Ht & Hd & Hs). rewrite Ha, Ht, Hd, Hs.
  destruct (post_inputs false c r1 p1 t (gp1 - t_intrinsic t) (u1 + t_intrinsic t) (ia_addrs ia2) (ia_total ia2)) as [p|e g];
    cbn [res_rel]; [|auto].
  destruct (negb f1 && negb (check_denominations (ia_dens ia2) (p_outdens p))); cbn [res_rel]; [auto|].
  destruct (t_checksig t && negb (t_sigok t)); cbn [res_rel]; [auto|].
  unfold out_rel, b_rel; cbn [fst snd b_store b_gp b_used b_rlim b_plim b_first]. repeat split; auto. apply put_all_sim; exact HR'.
Qed.

Definition opt_rel (o1 : option (bst (S:=S1))) (o2 : option (bst (S:=S2))) : Prop :=
  match o1, o2 with
  | Some b1, Some b2 => b_rel b1 b2
  | None, None => True
  | _, _ => False
  end.

Lemma run_txs_sim c txs : forall b1 b2, b_rel b1 b2 ->
  fst (run_txs st1 c b1 txs) = fst (run_txs st2 c b2 txs)
  /\ opt_rel (snd (run_txs st1 c b1 txs)) (snd (run_txs st2 c b2 txs)).
Proof.
  induction txs as [|t r IH]; intros b1 b2 H; cbn; [split; auto|].
  pose proof (process_qi_sim c t b1 b2 H) as Hs.
  destruct (process_qi st1 c b1 t) as [[b1' x1]|], (process_qi st2 c b2 t) as [[b2' x2]|];
    cbn in Hs; try contradiction; [|split; cbn; auto].
  destruct Hs as (Hb & Hx); cbn in Hb, Hx; subst x2.
  specialize (IH b1' b2' Hb).
  destruct (run_txs st1 c b1' r) as [l1 o1], (run_txs st2 c b2' r) as [l2 o2]; cbn in *.
  destruct IH as (-> & Ho). split; auto.
Qed.

End Sim.

(* ---- instance: tracking view  ~  the ledger it commits to *)

Definition vl_rel (v : view) (l : ledger) : Prop := view_ok v /\ commit v = l.

Lemma vl_get v l k : vl_rel v l -> st_get view_store v k = st_get ledger_store l k.
Proof. intros (H & <-). cbn. apply v_get_commit; exact H. Qed.
Lemma vl_del v l k : vl_rel v l -> vl_rel (st_del view_store v k) (st_del ledger_store l k).
Proof. intros (H & <-). split; cbn; [apply v_del_ok; exact H|apply commit_del]. Qed.
Lemma vl_put v l k u : vl_rel v l -> vl_rel (st_put view_store v k u) (st_put ledger_store l k u).
Proof. intros (H & <-). split; cbn; [apply v_put_ok; exact H|apply commit_put]. Qed.

(* a block on a tracking batch = the block on the flat ledger *)
Lemma run_block_tracked_ref (l : ledger) c txs : sorted l -> run_block true l c txs = run_block_ref l c txs.
Proof.
  intros S. unfold run_block, run_block_ref.
  assert (b_rel vl_rel (init_bst c (view_of true l)) (init_bst c l)) as H0.
  { unfold b_rel, init_bst, vl_rel, view_ok; cbn. repeat split; auto. }
  destruct (run_txs_sim view_store ledger_store vl_rel vl_get vl_del vl_put c txs _ _ H0) as (Hf & Ho).
  destruct (run_txs view_store c (init_bst c (view_of true l)) txs) as [rs1 o1].
  destruct (run_txs ledger_store c (init_bst c l) txs) as [rs2 o2].
  cbn [fst snd] in Hf, Ho. subst rs2.
  destruct o1 as [b1|], o2 as [b2|]; cbn [opt_rel] in Ho; try contradiction; [|reflexivity].
  destruct Ho as ((_ & Hc) & _). rewrite Hc. reflexivity.
Qed.

(* two tracking views that would commit the same ledger are indistinguishable *)
Lemma run_txs_views_agree c txs v1 v2 : view_ok v1 -> view_ok v2 -> commit v1 = commit v2 ->
  fst (run_txs view_store c (init_bst c v1) txs) = fst (run_txs view_store c (init_bst c v2) txs)
  /\ match snd (run_txs view_store c (init_bst c v1) txs), snd (run_txs view_store c (init_bst c v2) txs) with
     | Some b1, Some b2 => commit (b_store b1) = commit (b_store b2)
     | None, None => True
     | _, _ => False
     end.
Proof.
  intros H1 H2 Hc.
  assert (b_rel vl_rel (init_bst c v1) (init_bst c (commit v1))) as A1.
  { unfold b_rel, init_bst, vl_rel; cbn [b_store b_gp b_used b_rlim b_plim b_first]. tauto. }
  assert (b_rel vl_rel (init_bst c v2) (init_bst c (commit v1))) as A2.
  { unfold b_rel, init_bst, vl_rel; cbn [b_store b_gp b_used b_rlim b_plim b_first]. rewrite Hc. tauto. }
  destruct (run_txs_sim view_store ledger_store vl_rel vl_get vl_del vl_put c txs _ _ A1) as (F1 & O1).
  destruct (run_txs_sim view_store ledger_store vl_rel vl_get vl_del vl_put c txs _ _ A2) as (F2 & O2).
  split; [congruence|].
  destruct (snd (run_txs view_store c (init_bst c v1) txs)) as [b1|],
           (snd (run_txs view_store c (init_bst c v2) txs)) as [b2|],
           (snd (run_txs ledger_store c (init_bst c (commit v1)) txs)) as [b|]; cbn [opt_rel] in *; try contradiction; auto.
  destruct O1 as ((_ & E1) & _), O2 as ((_ & E2) & _). congruence.
Qed.

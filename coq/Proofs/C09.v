(* C09 — lemmas: difficulty retarget, gas/state limit schedule, CalcOrder, entropy accumulation,
   the pinned fields of verifyHeader, the CalcOrder memo. *)
From Coq Require Import List ZArith Bool Lia Sorted.
From GQ Require Import Lib.Key Lib.SMap Generated.C09Params Model.C09 Proofs.C09_Log.
Import ListNotations.
Local Open Scope Z_scope.

(** * side conditions on the generated constants *)
Lemma log_consts_hold : log_consts_ok = true.                 Proof. vm_compute. reflexivity. Qed.
Lemma min_difficulty_ge_2_holds : min_difficulty_ge_2 = true. Proof. vm_compute. reflexivity. Qed.
Lemma duration_limits_pos_hold : duration_limits_pos = true.  Proof. vm_compute. reflexivity. Qed.
Lemma min_is_half_genesis_holds : min_is_half_genesis = true. Proof. vm_compute. reflexivity. Qed.
Lemma retarget_consts_pos_hold : retarget_consts_pos = true.  Proof. vm_compute. reflexivity. Qed.
Lemma min_gas_limit_is_const_holds : min_gas_limit_is_const = true. Proof. vm_compute. reflexivity. Qed.
Lemma one_over_kqi_samples_hold : one_over_kqi_samples_ok = true.   Proof. vm_compute. reflexivity. Qed.
Lemma limit_consts_hold : limit_consts_ok = true.             Proof. vm_compute. reflexivity. Qed.
Lemma entropy_targets_hold : entropy_targets_ok = true.       Proof. vm_compute. reflexivity. Qed.

Lemma ctx_values : ctx_prime = 0 /\ ctx_region = 1 /\ ctx_zone = 2.
Proof. repeat split; reflexivity. Qed.
Lemma daf_pos : 0 < difficulty_adjustment_factor. Proof. reflexivity. Qed.
Lemma dap_pos : 0 < difficulty_adjustment_period. Proof. reflexivity. Qed.

(** * CalcDifficulty *)
Lemma retarget_floor dl mind pd pt gpt : mind <= retarget dl mind pd pt gpt.
Proof. unfold retarget. cbv zeta. match goal with |- _ <= (if ?c <? _ then _ else _) => destruct (Z.ltb_spec c mind) end; lia. Qed.

Lemma calc_difficulty_floor dl mind pd pt gp d :
  calc_difficulty dl mind pd pt gp = Some d -> mind <= pd -> mind <= d.
Proof.
  unfold calc_difficulty. destruct gp as [| |gpt]; intros H Hp.
  - inversion H; subst; exact Hp.
  - inversion H; subst; exact Hp.
  - destruct (pd <=? 0); [discriminate|]. inversion H; subst. apply retarget_floor.
Qed.

(* nested floor divisions by positive numbers collapse *)
Lemma div_div_div x a b c : 0 < a -> 0 < b -> 0 < c -> x / a / b / c = x / (a * b * c).
Proof. intros Ha Hb Hc. rewrite !Z.div_div by lia. f_equal. ring. Qed.

Definition time_diff (pt gpt : Z) : Z :=
  if max_time_diff_between_blocks <? pt - gpt then max_time_diff_between_blocks else pt - gpt.

Lemma retarget_unfold dl mind pd pt gpt : 0 < dl ->
  retarget dl mind pd pt gpt =
  Z.max mind ((dl - time_diff pt gpt) * pd * Z.log2 pd / (dl * difficulty_adjustment_factor * difficulty_adjustment_period) + pd).
Proof.
  intros Hdl. unfold retarget, time_diff. cbv zeta.
  rewrite div_div_div by (try exact Hdl; reflexivity).
  match goal with |- (if ?c <? _ then _ else _) = _ => destruct (Z.ltb_spec c mind) end; lia.
Qed.

(* a block time not above the limit never lowers the difficulty; not below the limit never raises it above max(min, parent) *)
Lemma retarget_direction_up dl mind pd pt gpt : 0 < dl -> 0 <= pd -> pt - gpt <= dl ->
  pd <= retarget dl mind pd pt gpt.
Proof.
  intros Hdl Hpd Ht. rewrite retarget_unfold by exact Hdl.
  assert (Htd : time_diff pt gpt <= dl) by (unfold time_diff; destruct (Z.ltb_spec max_time_diff_between_blocks (pt - gpt)); lia).
  assert (0 <= (dl - time_diff pt gpt) * pd * Z.log2 pd).
  { pose proof (Z.log2_nonneg pd). apply Z.mul_nonneg_nonneg; [apply Z.mul_nonneg_nonneg|]; lia. }
  assert (0 <= (dl - time_diff pt gpt) * pd * Z.log2 pd / (dl * difficulty_adjustment_factor * difficulty_adjustment_period)).
  { apply Z.div_pos; [assumption|]. pose proof daf_pos. pose proof dap_pos. nia. }
  lia.
Qed.

Lemma retarget_direction_down dl mind pd pt gpt : 0 < dl -> 0 <= pd -> dl <= pt - gpt -> dl <= max_time_diff_between_blocks ->
  retarget dl mind pd pt gpt <= Z.max mind pd.
Proof.
  intros Hdl Hpd Ht Hcap. rewrite retarget_unfold by exact Hdl.
  assert (Htd : dl <= time_diff pt gpt) by (unfold time_diff; destruct (Z.ltb_spec max_time_diff_between_blocks (pt - gpt)); lia).
  assert ((dl - time_diff pt gpt) * pd * Z.log2 pd <= 0).
  { pose proof (Z.log2_nonneg pd). assert ((dl - time_diff pt gpt) * pd <= 0) by nia. nia. }
  assert ((dl - time_diff pt gpt) * pd * Z.log2 pd / (dl * difficulty_adjustment_factor * difficulty_adjustment_period) <= 0).
  { apply Z.div_le_upper_bound; [pose proof daf_pos; pose proof dap_pos; nia|lia]. }
  lia.
Qed.

(* bounded step: never more than parent*log2(parent)/(factor*period) up; down limited by the capped time difference *)
Lemma retarget_step_up dl mind pd pt gpt : 0 < dl -> 0 <= pd -> 0 <= pt - gpt ->
  retarget dl mind pd pt gpt <= Z.max mind (pd + pd * Z.log2 pd / (difficulty_adjustment_factor * difficulty_adjustment_period)).
Proof.
  intros Hdl Hpd Ht. rewrite retarget_unfold by exact Hdl.
  assert (Htd : 0 <= time_diff pt gpt).
  { unfold time_diff. destruct (Z.ltb_spec max_time_diff_between_blocks (pt - gpt)); [reflexivity || (vm_compute; discriminate)|lia]. }
  set (fp := difficulty_adjustment_factor * difficulty_adjustment_period).
  assert (Hfp : 0 < fp) by (subst fp; reflexivity).
  assert (Hle : (dl - time_diff pt gpt) * pd * Z.log2 pd / (dl * difficulty_adjustment_factor * difficulty_adjustment_period)
                <= pd * Z.log2 pd / fp).
  { replace (dl * difficulty_adjustment_factor * difficulty_adjustment_period) with (dl * fp) by (subst fp; ring).
    rewrite <- (Z.div_mul_cancel_l (pd * Z.log2 pd) fp dl) by lia.
    apply Z.div_le_mono; [nia|].
    pose proof (Z.log2_nonneg pd). assert (0 <= pd * Z.log2 pd) by nia. nia. }
  lia.
Qed.

Lemma retarget_step_down dl mind pd pt gpt : 0 < dl -> 0 <= pd -> dl <= max_time_diff_between_blocks ->
  pd - pd * Z.log2 pd * (max_time_diff_between_blocks - dl) / (dl * difficulty_adjustment_factor * difficulty_adjustment_period) - 1
  <= retarget dl mind pd pt gpt.
Proof.
  intros Hdl Hpd Hcap. rewrite retarget_unfold by exact Hdl.
  assert (Htd : time_diff pt gpt <= max_time_diff_between_blocks).
  { unfold time_diff. destruct (Z.ltb_spec max_time_diff_between_blocks (pt - gpt)); lia. }
  set (D := dl * difficulty_adjustment_factor * difficulty_adjustment_period).
  assert (HD : 0 < D) by (subst D; pose proof daf_pos; pose proof dap_pos; nia).
  set (w := pd * Z.log2 pd * (max_time_diff_between_blocks - dl)).
  set (v := (dl - time_diff pt gpt) * pd * Z.log2 pd).
  assert (Hvw : - w <= v).
  { subst v w. pose proof (Z.log2_nonneg pd). assert (0 <= pd * Z.log2 pd) by nia. nia. }
  assert (Hdiv : - (w / D) - 1 <= v / D).
  { pose proof (Z.div_mod w D ltac:(lia)) as Ew. pose proof (Z.mod_pos_bound w D HD) as Bw.
    pose proof (Z.div_mod v D ltac:(lia)) as Ev. pose proof (Z.mod_pos_bound v D HD) as Bv. nia. }
  lia.
Qed.

(** * CalcGasLimit / CalcStateLimit *)
Lemma calc_limit_before_start pnum plimit ceil : pnum < time_to_start_tx -> calc_limit pnum plimit ceil = 0.
Proof. intros H. unfold calc_limit. destruct (Z.ltb_spec pnum time_to_start_tx); [reflexivity|lia]. Qed.

Lemma calc_limit_first pnum ceil : time_to_start_tx <= pnum -> calc_limit pnum 0 ceil = min_gas_limit_const.
Proof. intros H. unfold calc_limit. destruct (Z.ltb_spec pnum time_to_start_tx); [lia|]. reflexivity. Qed.

Lemma two_bpm : u64 (2 * blocks_per_month) = 2 * blocks_per_month.
Proof. reflexivity. Qed.

Lemma calc_limit_after_ramp pnum plimit ceil : 2 * blocks_per_month <= pnum -> plimit <> 0 -> calc_limit pnum plimit ceil = ceil.
Proof.
  intros H Hp. unfold calc_limit. rewrite two_bpm.
  destruct (Z.ltb_spec pnum time_to_start_tx) as [Hlt|_].
  { assert (time_to_start_tx <= 2 * blocks_per_month) by (vm_compute; discriminate). lia. }
  destruct (Z.eqb_spec plimit 0); [contradiction|].
  destruct (Z.ltb_spec pnum (2 * blocks_per_month)); [lia|reflexivity].
Qed.

Lemma calc_limit_ramp pnum plimit ceil :
  time_to_start_tx <= pnum < 2 * blocks_per_month -> plimit <> 0 -> 0 <= ceil -> pnum * ceil < 2 ^ 64 ->
  calc_limit pnum plimit ceil = Z.max min_gas_limit_const (pnum * ceil / (2 * blocks_per_month)).
Proof.
  intros [H1 H2] Hp Hc Hov. unfold calc_limit, min_gas_limit. rewrite two_bpm.
  destruct (Z.ltb_spec pnum time_to_start_tx); [lia|].
  destruct (Z.eqb_spec plimit 0); [contradiction|].
  destruct (Z.ltb_spec pnum (2 * blocks_per_month)); [|lia].
  assert (Hu : u64 (pnum * ceil) = pnum * ceil).
  { unfold u64. apply Z.mod_small. assert (0 <= time_to_start_tx) by (vm_compute; discriminate). nia. }
  rewrite Hu.
  destruct (Z.ltb_spec (pnum * ceil / (2 * blocks_per_month)) min_gas_limit_const); lia.
Qed.

Lemma calc_limit_min pnum plimit ceil : time_to_start_tx <= pnum < 2 * blocks_per_month -> min_gas_limit_const <= calc_limit pnum plimit ceil.
Proof.
  intros [H1 H2]. unfold calc_limit, min_gas_limit. rewrite two_bpm.
  destruct (Z.ltb_spec pnum time_to_start_tx); [lia|].
  destruct (Z.eqb_spec plimit 0); [lia|].
  destruct (Z.ltb_spec pnum (2 * blocks_per_month)); [|lia].
  destruct (Z.ltb_spec (u64 (pnum * ceil) / (2 * blocks_per_month)) min_gas_limit_const); lia.
Qed.

(** * CalcOrder *)
Lemma calc_order_ok_inv h ie o : calc_order h = CoOk ie o -> num64 h <> 0 ->
  ie = intrinsic_entropy (h_pow h) /\ 0 < h_pow h <= big2e256 / h_diff h /\ 2 <= h_diff h /\
  (o = ctx_prime \/ o = ctx_region \/ o = ctx_zone).
Proof.
  unfold calc_order. intros H Hn.
  destruct (Z.eqb_spec (num64 h) 0); [contradiction|].
  destruct (Z.leb_spec (h_diff h) 0); [discriminate|].
  destruct (Z.ltb_spec (big2e256 / h_diff h) (h_pow h)); [discriminate|].
  destruct (Z.leb_spec (h_pow h) 0); [discriminate|].
  destruct (Z.leb_spec (crop_hash (big2e256 / h_diff h)) 0) as [Hc|Hc]; [discriminate|].
  assert (Hd : 2 <= h_diff h).
  { destruct (Z.eq_dec (h_diff h) 1) as [E|NE]; [|lia].
    rewrite E in Hc. unfold crop_hash in Hc. rewrite Z.div_1_r, Z.mod_same in Hc by (vm_compute; discriminate). lia. }
  cbv zeta in H.
  repeat match type of H with (if ?c then _ else _) = _ => destruct c end;
    inversion H; subst; (split; [reflexivity|split; [lia|split; [exact Hd|tauto]]]).
Qed.

(* an accepted seal carries at least one bit of entropy *)
Lemma calc_order_entropy_pos h ie o : calc_order h = CoOk ie o -> num64 h <> 0 -> 2 ^ mant_bits <= ie.
Proof.
  intros H Hn. destruct (calc_order_ok_inv h ie o H Hn) as (E & Hp & Hd & _). subst ie.
  apply intrinsic_entropy_lower with (d := h_diff h); lia.
Qed.

Lemma calc_order_genesis_number h : num64 h = 0 -> calc_order h = CoOk 0 ctx_prime.
Proof. intros H. unfold calc_order. rewrite H. reflexivity. Qed.

(* the order is a function of number, difficulty, seal (pow hash), recorded entropy deltas and expansion number only *)
Lemma calc_order_inputs h1 h2 :
  num64 h1 = num64 h2 -> h_diff h1 = h_diff h2 -> h_pow h1 = h_pow h2 ->
  h_pd_r h1 = h_pd_r h2 -> h_pd_z h1 = h_pd_z h2 -> h_expansion h1 = h_expansion h2 ->
  calc_order h1 = calc_order h2.
Proof. intros E1 E2 E3 E4 E5 E6. unfold calc_order. rewrite E1, E2, E3, E4, E5, E6. reflexivity. Qed.

(* prime order requires both thresholds strictly exceeded *)
Lemma calc_order_prime_inv h ie : calc_order h = CoOk ie ctx_prime -> num64 h <> 0 ->
  let zt := intrinsic_entropy (crop_hash (big2e256 / h_diff h)) in
  let pet := prime_entropy_target (h_expansion h) in
  zt + bits_to_bigbits pet < ie /\ pet * zt / big2 < h_pd_r h + h_pd_z h + ie.
Proof.
  unfold calc_order. intros H Hn.
  destruct (Z.eqb_spec (num64 h) 0); [contradiction|].
  destruct (Z.leb_spec (h_diff h) 0); [discriminate|].
  destruct (Z.ltb_spec (big2e256 / h_diff h) (h_pow h)); [discriminate|].
  destruct (Z.leb_spec (h_pow h) 0); [discriminate|].
  destruct (Z.leb_spec (crop_hash (big2e256 / h_diff h)) 0); [discriminate|].
  cbv zeta in *.
  match type of H with (if ?a && ?b then _ else _) = _ => destruct a eqn:Ea; destruct b eqn:Eb; cbn [andb] in H end;
    try (inversion H; subst; apply Z.ltb_lt in Ea; apply Z.ltb_lt in Eb; split; assumption);
    match type of H with (if ?c then _ else _) = _ => destruct c end; inversion H.
Qed.

(** * entropy sums *)
Lemma total_zone_order h ie : h_genesis h = false -> calc_order h = CoOk ie ctx_zone ->
  total_entropy ctx_zone h = h_pe_z h + ie + h_ws h.
Proof. intros Hg H. unfold total_entropy, total_entropy_of. rewrite Hg, H. cbn. lia. Qed.

Lemma delta_zone_order h ie : h_genesis h = false -> calc_order h = CoOk ie ctx_zone ->
  delta_entropy ctx_zone h = h_pd_z h + ie + h_ws h.
Proof. intros Hg H. unfold delta_entropy, delta_entropy_of. rewrite Hg, H. cbn. lia. Qed.

Lemma uncled_delta_zone_order h ie : h_genesis h = false -> calc_order h = CoOk ie ctx_zone ->
  uncled_delta_entropy h = h_pud_z h + h_uncled h.
Proof. intros Hg H. unfold uncled_delta_entropy, uncled_delta_entropy_of. rewrite Hg, H. reflexivity. Qed.

Lemma total_region_order ctx h ie : h_genesis h = false -> calc_order h = CoOk ie ctx_region ->
  total_entropy ctx h = h_pe_r h + h_pd_z h + ie + (if ctx =? ctx_zone then h_ws h else 0).
Proof. intros Hg H. unfold total_entropy, total_entropy_of. rewrite Hg, H. cbn. destruct (ctx =? ctx_zone); lia. Qed.

Lemma total_prime_order ctx h ie : h_genesis h = false -> calc_order h = CoOk ie ctx_prime ->
  total_entropy ctx h = h_pe_p h + h_pd_r h + h_pd_z h + ie + (if ctx =? ctx_zone then h_ws h else 0).
Proof. intros Hg H. unfold total_entropy, total_entropy_of. rewrite Hg, H. cbn. destruct (ctx =? ctx_zone); lia. Qed.

(** * verifyHeader: the pinned fields *)
Lemma valid_child_fast_eq e p c : valid_child_fast e p c = valid_child e p c.
Proof. reflexivity. Qed.

Lemma valid_child_rules e p c : valid_child e p c = true <->
  rule_time_future e c = true /\ rule_time_parent p c = true /\ rule_difficulty e p c = true /\
  rule_parent_order p = true /\ rule_parent_entropy p c = true /\ rule_parent_delta p c = true /\
  rule_parent_uncled_delta p c = true /\ rule_expansion e p c = true /\ rule_gas e p c = true /\
  rule_state p c = true /\ rule_base_fee e p c = true /\ rule_pt p c = true /\ rule_number p c = true.
Proof. unfold valid_child. rewrite !andb_true_iff. tauto. Qed.

Lemma opt_eqb_true a b : opt_eqb a b = true -> a = Some b.
Proof. destruct a as [x|]; cbn; [intros H; apply Z.eqb_eq in H; subst; reflexivity|discriminate]. Qed.

Section Pins.
  Variables (e : env) (p c : header).
  Hypothesis V : valid_child e p c = true.

  Let rules := proj1 (valid_child_rules e p c) V.

  Lemma pin_time : h_time p <= h_time c <= e_now e + allowed_future_block_time.
  Proof. destruct rules as (Rf & Rp & _). unfold rule_time_future in Rf. unfold rule_time_parent in Rp. lia. Qed.
  Lemma pin_difficulty : expected_difficulty e p = Some (h_diff c).
  Proof. destruct rules as (_ & _ & Rd & _). apply opt_eqb_true. exact Rd. Qed.
  Lemma pin_parent_order : exists o, parent_order p = Some o /\ o <= ctx_zone.
  Proof. destruct rules as (_ & _ & _ & Ro & _). clear rules. revert Ro.
    unfold rule_parent_order, rule_parent_order_of, parent_order.
    destruct (order_of (calc_order p)) as [o|]; intros Ro; [exists o; split; [reflexivity|lia]|discriminate]. Qed.
  Lemma pin_parent_entropy : h_pe_z c = expected_parent_entropy p.
  Proof. destruct rules as (_ & _ & _ & _ & R & _). unfold rule_parent_entropy in R. lia. Qed.
  Lemma pin_parent_delta : h_pd_z c = expected_parent_delta p.
  Proof. destruct rules as (_ & _ & _ & _ & _ & R & _). unfold rule_parent_delta in R. lia. Qed.
  Lemma pin_parent_uncled_delta : h_pud_z c = expected_parent_uncled_delta p.
  Proof. destruct rules as (_ & _ & _ & _ & _ & _ & R & _). unfold rule_parent_uncled_delta in R. lia. Qed.
  Lemma pin_expansion : expected_expansion e p = Some (h_expansion c).
  Proof. destruct rules as (_ & _ & _ & _ & _ & _ & _ & R & _). apply opt_eqb_true. exact R. Qed.
  Lemma pin_gas_limit : h_gas_limit c = expected_gas_limit e p /\ h_gas_used c <= h_gas_limit c <= 2 ^ 63 - 1.
  Proof. destruct rules as (_ & _ & _ & _ & _ & _ & _ & _ & R & _). unfold rule_gas in R. lia. Qed.
  Lemma pin_state_limit : h_state_limit c = expected_state_limit p /\ h_state_used c <= h_state_limit c.
  Proof. destruct rules as (_ & _ & _ & _ & _ & _ & _ & _ & _ & R & _). unfold rule_state in R. lia. Qed.
  Lemma pin_base_fee : h_base_fee c = expected_base_fee e p.
  Proof. destruct rules as (_ & _ & _ & _ & _ & _ & _ & _ & _ & _ & R & _). unfold rule_base_fee in R. lia. Qed.
  Lemma pin_prime_terminus : h_pt_hash c = expected_pt_hash p /\ h_pt_num c = expected_pt_num p.
  Proof. destruct rules as (_ & _ & _ & _ & _ & _ & _ & _ & _ & _ & _ & R & _). unfold rule_pt in R. lia. Qed.
  Lemma pin_number : h_num c = expected_number p.
  Proof. destruct rules as (_ & _ & _ & _ & _ & _ & _ & _ & _ & _ & _ & _ & R). unfold rule_number in R. lia. Qed.
End Pins.

(* two children accepted on the same parent in the same environment agree on every derived field *)
Lemma valid_children_agree e p c1 c2 : valid_child e p c1 = true -> valid_child e p c2 = true ->
  h_diff c1 = h_diff c2 /\ h_pe_z c1 = h_pe_z c2 /\ h_pd_z c1 = h_pd_z c2 /\ h_pud_z c1 = h_pud_z c2 /\
  h_expansion c1 = h_expansion c2 /\ h_gas_limit c1 = h_gas_limit c2 /\ h_state_limit c1 = h_state_limit c2 /\
  h_base_fee c1 = h_base_fee c2 /\ h_pt_hash c1 = h_pt_hash c2 /\ h_pt_num c1 = h_pt_num c2 /\ h_num c1 = h_num c2.
Proof.
  intros V1 V2.
  pose proof (pin_difficulty _ _ _ V1) as A1. pose proof (pin_difficulty _ _ _ V2) as A2.
  pose proof (pin_expansion _ _ _ V1) as B1. pose proof (pin_expansion _ _ _ V2) as B2.
  rewrite A1 in A2. rewrite B1 in B2. inversion A2. inversion B2.
  rewrite (pin_parent_entropy _ _ _ V1), (pin_parent_entropy _ _ _ V2).
  rewrite (pin_parent_delta _ _ _ V1), (pin_parent_delta _ _ _ V2).
  rewrite (pin_parent_uncled_delta _ _ _ V1), (pin_parent_uncled_delta _ _ _ V2).
  rewrite (proj1 (pin_gas_limit _ _ _ V1)), (proj1 (pin_gas_limit _ _ _ V2)).
  rewrite (proj1 (pin_state_limit _ _ _ V1)), (proj1 (pin_state_limit _ _ _ V2)).
  rewrite (pin_base_fee _ _ _ V1), (pin_base_fee _ _ _ V2).
  rewrite (proj1 (pin_prime_terminus _ _ _ V1)), (proj1 (pin_prime_terminus _ _ _ V2)).
  rewrite (proj2 (pin_prime_terminus _ _ _ V1)), (proj2 (pin_prime_terminus _ _ _ V2)).
  rewrite (pin_number _ _ _ V1), (pin_number _ _ _ V2).
  repeat split; reflexivity.
Qed.

(** * accumulation and strict increase *)
(* the recorded parent entropy is the accumulated entropy of the parent; for a zone-order parent it is the parent's own
   recorded parent entropy plus the parent's intrinsic entropy plus its work-share entropy *)
Lemma parent_entropy_accumulated e p c : valid_child e p c = true ->
  h_pe_z c = total_entropy ctx_zone p.
Proof. intros V. rewrite (pin_parent_entropy _ _ _ V). reflexivity. Qed.

Lemma parent_entropy_step e p c ie : valid_child e p c = true -> h_genesis p = false ->
  calc_order p = CoOk ie ctx_zone -> num64 p <> 0 ->
  h_pe_z c = h_pe_z p + intrinsic_entropy (h_pow p) + h_ws p /\
  h_pd_z c = h_pd_z p + intrinsic_entropy (h_pow p) + h_ws p /\
  h_pud_z c = h_pud_z p + h_uncled p.
Proof.
  intros V Hg Ho Hn. destruct (calc_order_ok_inv p ie _ Ho Hn) as (E & _). subst ie.
  rewrite (parent_entropy_accumulated _ _ _ V), (pin_parent_delta _ _ _ V), (pin_parent_uncled_delta _ _ _ V).
  assert (Ed : expected_parent_delta p = delta_entropy ctx_zone p).
  { unfold expected_parent_delta, expected_parent_delta_of, delta_entropy. rewrite Ho. reflexivity. }
  assert (Eu : expected_parent_uncled_delta p = uncled_delta_entropy p).
  { unfold expected_parent_uncled_delta, expected_parent_uncled_delta_of, uncled_delta_entropy. rewrite Ho. reflexivity. }
  rewrite Ed, Eu.
  rewrite (total_zone_order p _ Hg Ho), (delta_zone_order p _ Hg Ho), (uncled_delta_zone_order p _ Hg Ho).
  repeat split; reflexivity.
Qed.

(* after a dominant-order (prime / region coincident) parent the zone deltas restart at zero *)
Lemma parent_delta_after_dom e p c ie o : valid_child e p c = true -> calc_order p = CoOk ie o -> o < ctx_zone ->
  h_pd_z c = 0 /\ h_pud_z c = 0.
Proof.
  intros V Ho Hlt. rewrite (pin_parent_delta _ _ _ V), (pin_parent_uncled_delta _ _ _ V).
  unfold expected_parent_delta, expected_parent_delta_of, expected_parent_uncled_delta, expected_parent_uncled_delta_of.
  rewrite Ho. cbn [order_of]. destruct (Z.ltb_spec o ctx_zone); [split; reflexivity|lia].
Qed.

Definition own_entropy (h : header) : Z := intrinsic_entropy (h_pow h) + h_ws h.

(* a zone-order block: not genesis, positive number, CalcOrder = zone, non-negative work-share entropy *)
Definition zone_block (h : header) : bool :=
  negb (h_genesis h) && negb (num64 h =? 0) && (0 <=? h_ws h) &&
  match calc_order h with CoOk _ o => o =? ctx_zone | _ => false end.

Lemma zone_block_inv h : zone_block h = true ->
  h_genesis h = false /\ num64 h <> 0 /\ 0 <= h_ws h /\ calc_order h = CoOk (intrinsic_entropy (h_pow h)) ctx_zone.
Proof.
  unfold zone_block. intros H.
  apply andb_prop in H. destruct H as [H H4]. apply andb_prop in H. destruct H as [H H3].
  apply andb_prop in H. destruct H as [H1 H2].
  apply negb_true_iff in H1. apply negb_true_iff in H2. apply Z.eqb_neq in H2. apply Z.leb_le in H3.
  destruct (calc_order h) as [ie o| |] eqn:E; try discriminate. apply Z.eqb_eq in H4. subst o.
  destruct (calc_order_ok_inv h ie _ E H2) as (Ei & _). subst ie. repeat split; assumption || reflexivity.
Qed.

Lemma entropy_step e p c : valid_child e p c = true -> zone_block c = true ->
  total_entropy ctx_zone c = total_entropy ctx_zone p + own_entropy c /\
  total_entropy ctx_zone p < total_entropy ctx_zone c.
Proof.
  intros V Z. destruct (zone_block_inv c Z) as (Hg & Hn & Hw & Ho).
  rewrite (total_zone_order c _ Hg Ho), (parent_entropy_accumulated _ _ _ V). unfold own_entropy.
  pose proof (calc_order_entropy_pos c _ _ Ho Hn) as Hpos.
  assert (0 < 2 ^ mant_bits) by (apply pow2_gt0; pose proof mant_bits_ge1; lia).
  lia.
Qed.

(* dominant-order child: the zone node pins only the zone fields; the increase holds exactly when the dominant fields
   (validated by the region / prime nodes) are not behind the zone view by more than the block's own entropy *)
Lemma entropy_step_dom e p c ie o : valid_child e p c = true -> h_genesis c = false ->
  calc_order c = CoOk ie o -> o <> ctx_zone ->
  let base := if o =? ctx_prime then h_pe_p c + h_pd_r c + h_pd_z c else h_pe_r c + h_pd_z c in
  (o = ctx_prime \/ o = ctx_region) ->
  total_entropy ctx_zone c = base + ie + h_ws c /\
  (total_entropy ctx_zone p < total_entropy ctx_zone c <-> h_pe_z c < base + ie + h_ws c).
Proof.
  intros V Hg Ho Hnz base Hor. rewrite <- (parent_entropy_accumulated _ _ _ V).
  assert (E : total_entropy ctx_zone c = base + ie + h_ws c).
  { subst base. destruct Hor as [-> | ->].
    - rewrite (total_prime_order ctx_zone c ie Hg Ho). cbn. lia.
    - rewrite (total_region_order ctx_zone c ie Hg Ho). cbn. lia. }
  split; [exact E|]. rewrite E. tauto.
Qed.

(* chains *)
Fixpoint valid_chain (p : header) (l : list (env * header)) : bool :=
  match l with
  | [] => true
  | (e, c) :: l' => valid_child e p c && valid_chain c l'
  end.

Definition chain_last (p : header) (l : list (env * header)) : header := last (map snd l) p.
Definition chain_totals (p : header) (l : list (env * header)) : list Z :=
  map (total_entropy ctx_zone) (p :: map snd l).

Lemma last_default_irrelevant {A} : forall (l : list A) a d1 d2, last (a :: l) d1 = last (a :: l) d2.
Proof. induction l as [|b l IH]; intros a d1 d2; [reflexivity|]. cbn [last] in *. apply (IH b). Qed.
Lemma last_cons_shift {A} (l : list A) c p : last (c :: l) p = last l c.
Proof. destruct l as [|b l]; [reflexivity|]. cbn [last]. apply (last_default_irrelevant l b). Qed.

Lemma chain_sum : forall l p, valid_chain p l = true -> forallb zone_block (map snd l) = true ->
  total_entropy ctx_zone (chain_last p l) = total_entropy ctx_zone p + fold_right Z.add 0 (map own_entropy (map snd l)).
Proof.
  induction l as [|[e c] l IH]; intros p V Z.
  - cbn. lia.
  - cbn [valid_chain] in V. apply andb_prop in V. destruct V as [V1 V2].
    cbn [map snd forallb] in Z. apply andb_prop in Z. destruct Z as [Z1 Z2].
    destruct (entropy_step e p c V1 Z1) as [E _].
    specialize (IH c V2 Z2). unfold chain_last in *. cbn [map snd fold_right].
    rewrite last_cons_shift. rewrite IH, E. lia.
Qed.

Lemma chain_lower_bound : forall l p x, valid_chain p l = true -> forallb zone_block (map snd l) = true ->
  x <= total_entropy ctx_zone p -> Forall (fun t => x < t) (tl (chain_totals p l)).
Proof.
  induction l as [|[e c] l IH]; intros p x V Z Hx; [constructor|].
  cbn [valid_chain] in V. apply andb_prop in V. destruct V as [V1 V2].
  cbn [map snd forallb] in Z. apply andb_prop in Z. destruct Z as [Z1 Z2].
  destruct (entropy_step e p c V1 Z1) as [_ Hlt].
  unfold chain_totals. cbn [map snd tl]. constructor; [lia|].
  specialize (IH c x V2 Z2 ltac:(lia)). exact IH.
Qed.

Lemma chain_strictly_sorted : forall l p, valid_chain p l = true -> forallb zone_block (map snd l) = true ->
  StronglySorted Z.lt (chain_totals p l).
Proof.
  induction l as [|[e c] l IH]; intros p V Z.
  - cbn. constructor; constructor.
  - pose proof V as V0. pose proof Z as Z0.
    cbn [valid_chain] in V. apply andb_prop in V. destruct V as [V1 V2].
    cbn [map snd forallb] in Z. apply andb_prop in Z. destruct Z as [Z1 Z2].
    unfold chain_totals. cbn [map snd]. constructor.
    + exact (IH c V2 Z2).
    + exact (chain_lower_bound ((e, c) :: l) p (total_entropy ctx_zone p) V0 Z0 ltac:(lia)).
Qed.

(** * the CalcOrder memo *)
Definition cache_inv (P : header -> Prop) (c : cache) : Prop :=
  sorted c /\ forall k e o, get k c = Some (e, o) -> e <> 0 -> exists h, P h /\ hkey h = k /\ calc_order h = CoOk e o.

Lemma cache_inv_empty P : cache_inv P [].
Proof. split; [exact I|]. intros k e o H. discriminate. Qed.

Definition uncached (o : cache_op) : option co_result :=
  match o with OpCall h => Some (calc_order h) | _ => None end.

Lemma cache_step_sound (P : header -> Prop) c o :
  (forall h1 h2, P h1 -> P h2 -> hkey h1 = hkey h2 -> calc_order h1 = calc_order h2) ->
  (forall h, o = OpCall h -> P h) ->
  cache_inv P c -> snd (cache_step c o) = uncached o /\ cache_inv P (fst (cache_step c o)).
Proof.
  intros Hcoll HP [Hs Hinv]. destruct o as [h|k|]; cbn [cache_step uncached].
  - assert (Ph : P h) by (apply HP; reflexivity).
    unfold calc_order_cached, cache_lookup.
    destruct (get (hkey h) c) as [[e0 o0]|] eqn:G.
    + destruct (Z.eqb_spec e0 0) as [Ez|Ez].
      * (* zero-entropy entry ignored: recompute *)
        destruct (calc_order h) as [e1 o1| |] eqn:Eco; cbn [fst snd]; try (split; [reflexivity|split; assumption]).
        destruct (num64 h =? 0); cbn [fst snd]; [split; [reflexivity|split; assumption]|].
        split; [reflexivity|]. unfold cache_add. destruct (Z.eqb_spec e1 0); [split; assumption|].
        split; [apply put_sorted; exact Hs|].
        intros k e o Hg Hne. destruct (list_eq_dec N.eq_dec k (hkey h)) as [->|Hk].
        -- rewrite get_put_same in Hg. inversion Hg; subst. exists h. repeat split; assumption.
        -- rewrite get_put_other in Hg by exact Hk. exact (Hinv k e o Hg Hne).
      * cbn [fst snd]. destruct (Hinv _ _ _ G Ez) as (h' & Ph' & Hk & Hco).
        split; [|split; assumption]. rewrite (Hcoll h h' Ph Ph' (eq_sym Hk)). symmetry. f_equal. exact Hco.
    + destruct (calc_order h) as [e1 o1| |] eqn:Eco; cbn [fst snd]; try (split; [reflexivity|split; assumption]).
      destruct (num64 h =? 0); cbn [fst snd]; [split; [reflexivity|split; assumption]|].
      split; [reflexivity|]. unfold cache_add. destruct (Z.eqb_spec e1 0); [split; assumption|].
      split; [apply put_sorted; exact Hs|].
      intros k e o Hg Hne. destruct (list_eq_dec N.eq_dec k (hkey h)) as [->|Hk].
      * rewrite get_put_same in Hg. inversion Hg; subst. exists h. repeat split; assumption.
      * rewrite get_put_other in Hg by exact Hk. exact (Hinv k e o Hg Hne).
  - cbn [fst snd]. split; [reflexivity|]. split; [apply del_sorted; exact Hs|].
    intros k0 e o Hg Hne. destruct (list_eq_dec N.eq_dec k0 [Z.to_N k]) as [->|Hk].
    + rewrite get_del_same in Hg by exact Hs. discriminate.
    + rewrite get_del_other in Hg by assumption. exact (Hinv k0 e o Hg Hne).
  - cbn [fst snd]. split; [reflexivity|apply cache_inv_empty].
Qed.

Lemma cache_run_sound (P : header -> Prop) :
  (forall h1 h2, P h1 -> P h2 -> hkey h1 = hkey h2 -> calc_order h1 = calc_order h2) ->
  forall ops c, (forall h, In (OpCall h) ops -> P h) -> cache_inv P c ->
  cache_run c ops = map uncached ops.
Proof.
  intros Hcoll. induction ops as [|o ops IH]; intros c HP Hinv; [reflexivity|].
  cbn [cache_run map].
  destruct (cache_step_sound P c o Hcoll) as [E Hinv'].
  { intros h ->. apply HP. left. reflexivity. }
  { exact Hinv. }
  destruct (cache_step c o) as [c' r]. cbn [fst snd] in *. subst r. f_equal.
  apply IH; [|exact Hinv']. intros h Hin. apply HP. right. exact Hin.
Qed.

(* for every history of calls, evictions and restarts starting from any sound memo, every call returns the uncached
   computation — unless two DIFFERENT headers of the history share a hash and differ in their order (a hash collision) *)
Definition order_collision (ops : list cache_op) : Prop :=
  exists h1 h2, In (OpCall h1) ops /\ In (OpCall h2) ops /\ hkey h1 = hkey h2 /\ calc_order h1 <> calc_order h2.

Lemma co_result_eq_dec (a b : co_result) : {a = b} + {a <> b}.
Proof. decide equality; apply Z.eq_dec. Qed.

Lemma cache_sound ops : cache_run [] ops = map uncached ops \/ order_collision ops.
Proof.
  (* decide whether a collision exists among the finitely many called headers *)
  set (hs := flat_map (fun o => match o with OpCall h => [h] | _ => [] end) ops).
  assert (Hin : forall h, In (OpCall h) ops <-> In h hs).
  { intros h. subst hs. rewrite in_flat_map. split.
    - intros H. exists (OpCall h). split; [exact H|left; reflexivity].
    - intros (o & Ho & Hh). destruct o; cbn in Hh; try contradiction. destruct Hh as [->|[]]. exact Ho. }
  assert (Hdec : (forall h1 h2, In h1 hs -> In h2 hs -> hkey h1 = hkey h2 -> calc_order h1 = calc_order h2) \/
                 (exists h1 h2, In h1 hs /\ In h2 hs /\ hkey h1 = hkey h2 /\ calc_order h1 <> calc_order h2)).
  { clear Hin. generalize hs as l. intros l.
    assert (D : forall h1 h2 : header, {hkey h1 = hkey h2 /\ calc_order h1 <> calc_order h2} + {~ (hkey h1 = hkey h2 /\ calc_order h1 <> calc_order h2)}).
    { intros h1 h2. destruct (list_eq_dec N.eq_dec (hkey h1) (hkey h2)) as [Ek|Nk]; [|right; tauto].
      destruct (co_result_eq_dec (calc_order h1) (calc_order h2)) as [Ec|Nc]; [right; tauto|left; tauto]. }
    destruct (Exists_dec (fun h1 => Exists (fun h2 => hkey h1 = hkey h2 /\ calc_order h1 <> calc_order h2) l) l) as [Ex|Nex].
    { intros h1. apply Exists_dec. intros h2. apply D. }
    - right. apply Exists_exists in Ex. destruct Ex as (h1 & I1 & Ex). apply Exists_exists in Ex. destruct Ex as (h2 & I2 & Hk & Hc).
      exists h1, h2. tauto.
    - left. intros h1 h2 I1 I2 Hk. destruct (co_result_eq_dec (calc_order h1) (calc_order h2)) as [Ec|Nc]; [exact Ec|].
      exfalso. apply Nex. apply Exists_exists. exists h1. split; [exact I1|]. apply Exists_exists. exists h2. tauto. }
  destruct Hdec as [Hno|(h1 & h2 & I1 & I2 & Hk & Hc)].
  - left. apply cache_run_sound with (P := fun h => In h hs).
    + exact Hno.
    + intros h H. apply Hin. exact H.
    + apply cache_inv_empty.
  - right. exists h1, h2. rewrite !Hin. tauto.
Qed.

(** * verifyHeader: the number rule is exact on unbounded integers *)
Lemma wrong_number_rejected e p c : h_num c <> expected_number p -> valid_child e p c = false.
Proof.
  intros Hn. destruct (valid_child e p c) eqn:V; [|reflexivity].
  exfalso. apply Hn. exact (pin_number e p c V).
Qed.

(* no number congruent to (but different from) parent+1 modulo any width m is accepted: k*m away with k <> 0 *)
Lemma congruent_number_rejected e p c m k : 0 < m -> k <> 0 -> h_num c = expected_number p + k * m ->
  valid_child e p c = false.
Proof. intros Hm Hk E. apply wrong_number_rejected. assert (k * m <> 0) by (apply Z.neq_mul_0; lia). lia. Qed.

(** * histories of CalcOrder / Total / Delta / UncledDelta calls over the memo *)
Definition hist_cache_op (o : hist_op) : cache_op :=
  match o with HCall _ h => OpCall h | HEvict k => OpEvict k | HPurge => OpPurge end.

Lemma hist_pure_genesis ctx f h : hist_fn_sum f && h_genesis h = true ->
  hist_pure ctx f h = RZ 0.
Proof. intros H. unfold hist_pure. rewrite H. reflexivity. Qed.

Lemma hist_step_sound (P : header -> Prop) ctx c o :
  (forall h1 h2, P h1 -> P h2 -> hkey h1 = hkey h2 -> calc_order h1 = calc_order h2) ->
  (forall f h, o = HCall f h -> P h) ->
  cache_inv P c -> snd (hist_step ctx c o) = hist_uncached ctx o /\ cache_inv P (fst (hist_step ctx c o)).
Proof.
  intros Hcoll HP Hinv. destruct o as [f h|k|]; cbn [hist_step hist_uncached].
  - destruct (hist_fn_sum f && h_genesis h) eqn:G.
    + cbn [fst snd]. split; [|exact Hinv]. rewrite (hist_pure_genesis ctx f h G). reflexivity.
    + destruct (cache_step_sound P c (OpCall h) Hcoll) as [E Hinv'].
      { intros h' Eh. inversion Eh; subst. exact (HP f h' eq_refl). }
      { exact Hinv. }
      cbn [cache_step uncached] in E, Hinv'.
      destruct (calc_order_cached c h) as [c' r]. cbn [fst snd] in *.
      inversion E; subst r. split; [|exact Hinv'].
      unfold hist_pure. rewrite G. reflexivity.
  - destruct (cache_step_sound P c (OpEvict k) Hcoll) as [_ Hinv'].
    { intros h' Eh. discriminate. }
    { exact Hinv. }
    cbn [cache_step fst snd] in *. split; [reflexivity|exact Hinv'].
  - cbn [fst snd]. split; [reflexivity|apply cache_inv_empty].
Qed.

Lemma hist_run_sound (P : header -> Prop) ctx :
  (forall h1 h2, P h1 -> P h2 -> hkey h1 = hkey h2 -> calc_order h1 = calc_order h2) ->
  forall ops c, (forall f h, In (HCall f h) ops -> P h) -> cache_inv P c ->
  hist_run ctx c ops = map (hist_uncached ctx) ops.
Proof.
  intros Hcoll. induction ops as [|o ops IH]; intros c HP Hinv; [reflexivity|].
  cbn [hist_run map].
  destruct (hist_step_sound P ctx c o Hcoll) as [E Hinv'].
  { intros f h ->. apply (HP f). left. reflexivity. }
  { exact Hinv. }
  destruct (hist_step ctx c o) as [c' r]. cbn [fst snd] in *. subst r. f_equal.
  apply IH; [|exact Hinv']. intros f h Hin. apply (HP f). right. exact Hin.
Qed.

Definition hist_collision (ops : list hist_op) : Prop :=
  exists f1 h1 f2 h2, In (HCall f1 h1) ops /\ In (HCall f2 h2) ops /\ hkey h1 = hkey h2 /\ calc_order h1 <> calc_order h2.

Lemma headers_collision_dec (l : list header) :
  (forall h1 h2, In h1 l -> In h2 l -> hkey h1 = hkey h2 -> calc_order h1 = calc_order h2) \/
  (exists h1 h2, In h1 l /\ In h2 l /\ hkey h1 = hkey h2 /\ calc_order h1 <> calc_order h2).
Proof.
  assert (D : forall h1 h2 : header, {hkey h1 = hkey h2 /\ calc_order h1 <> calc_order h2} + {~ (hkey h1 = hkey h2 /\ calc_order h1 <> calc_order h2)}).
  { intros h1 h2. destruct (list_eq_dec N.eq_dec (hkey h1) (hkey h2)) as [Ek|Nk]; [|right; tauto].
    destruct (co_result_eq_dec (calc_order h1) (calc_order h2)) as [Ec|Nc]; [right; tauto|left; tauto]. }
  destruct (Exists_dec (fun h1 => Exists (fun h2 => hkey h1 = hkey h2 /\ calc_order h1 <> calc_order h2) l) l) as [Ex|Nex].
  { intros h1. apply Exists_dec. intros h2. apply D. }
  - right. apply Exists_exists in Ex. destruct Ex as (h1 & I1 & Ex). apply Exists_exists in Ex. destruct Ex as (h2 & I2 & Hk & Hc).
    exists h1, h2. tauto.
  - left. intros h1 h2 I1 I2 Hk. destruct (co_result_eq_dec (calc_order h1) (calc_order h2)) as [Ec|Nc]; [exact Ec|].
    exfalso. apply Nex. apply Exists_exists. exists h1. split; [exact I1|]. apply Exists_exists. exists h2. tauto.
Qed.

(* for EVERY history of CalcOrder / TotalLogEntropy / DeltaLogEntropy / UncledDeltaLogEntropy calls, evictions and
   restarts, in every node context, every call returns the function of the header alone — or a hash collision *)
Lemma hist_sound ctx ops : hist_run ctx [] ops = map (hist_uncached ctx) ops \/ hist_collision ops.
Proof.
  set (hs := flat_map (fun o => match o with HCall _ h => [h] | _ => [] end) ops).
  assert (Hin : forall h, (exists f, In (HCall f h) ops) <-> In h hs).
  { intros h. subst hs. rewrite in_flat_map. split.
    - intros (f & H). exists (HCall f h). split; [exact H|left; reflexivity].
    - intros (o & Ho & Hh). destruct o as [f h'| |]; cbn in Hh; try contradiction. destruct Hh as [->|[]]. exists f. exact Ho. }
  destruct (headers_collision_dec hs) as [Hno|(h1 & h2 & I1 & I2 & Hk & Hc)].
  - left. apply hist_run_sound with (P := fun h => In h hs).
    + exact Hno.
    + intros f h H. apply Hin. exists f. exact H.
    + apply cache_inv_empty.
  - right. apply Hin in I1. apply Hin in I2. destruct I1 as (f1 & I1). destruct I2 as (f2 & I2).
    exists f1, h1, f2, h2. tauto.
Qed.

(* stability: two calls of the same function on the same header anywhere in a history return the same value *)
Lemma hist_stable ctx ops i j f h :
  nth_error ops i = Some (HCall f h) -> nth_error ops j = Some (HCall f h) ->
  nth_error (hist_run ctx [] ops) i = nth_error (hist_run ctx [] ops) j \/ hist_collision ops.
Proof.
  intros Hi Hj. destruct (hist_sound ctx ops) as [E|C]; [left|right; exact C].
  rewrite E. rewrite (map_nth_error (hist_uncached ctx) _ _ Hi), (map_nth_error (hist_uncached ctx) _ _ Hj). reflexivity.
Qed.

(** * the expansion-number rule (ComputeExpansionNumber): the genesis shortcut belongs to slice [0,0] only *)
Definition matured (i : pt_info) : bool := pt_threshold i =? tree_expansion_trigger_window + tree_expansion_wait_count.

(* the whole rule, read off as a specification *)
Lemma expansion_of_spec l00 i x : expansion_of l00 i = Some x <->
  pt_found i = true /\
  ((pt_genesis i && l00 = true /\ x = pt_expansion i) \/
   (pt_genesis i && l00 = false /\ matured i = true /\ x = u8 (pt_expansion i + 1)) \/
   (pt_genesis i && l00 = false /\ matured i = false /\ ppt_found i = true /\ x = ppt_expansion i)).
Proof.
  unfold expansion_of, matured.
  destruct (pt_found i); cbn [negb].
  2:{ split; [discriminate | intros [F _]; discriminate]. }
  destruct (pt_genesis i && l00).
  { split; [intros [= <-]; split; [reflexivity | left; split; reflexivity]
           | intros [_ [[_ ->] | [[F _] | [F _]]]]; [reflexivity | discriminate | discriminate]]. }
  destruct (pt_threshold i =? tree_expansion_trigger_window + tree_expansion_wait_count).
  { split; [intros [= <-]; split; [reflexivity | right; left; repeat split]
           | intros [_ [[F _] | [[_ [_ ->]] | [_ [F _]]]]]; [discriminate | reflexivity | discriminate]]. }
  destruct (ppt_found i); cbn [negb].
  { split; [intros [= <-]; split; [reflexivity | right; right; repeat split]
           | intros [_ [[F _] | [[_ [F _]] | [_ [_ [_ ->]]]]]]; [discriminate | discriminate | reflexivity]]. }
  split; [discriminate | intros [_ [[F _] | [[_ [F _]] | [_ [_ [F _]]]]]]; discriminate].
Qed.

(* outside slice [0,0] it is irrelevant whether the terminus is a genesis block *)
Lemma expansion_of_other_slice_ignores_genesis f g e t pf pe g' :
  expansion_of false (mkPT f g e t pf pe) = expansion_of false (mkPT f g' e t pf pe).
Proof. unfold expansion_of; cbn. rewrite !andb_false_r. reflexivity. Qed.

Definition terminus_view (e : env) (p : header) : pt_info :=
  if parent_is_prime p then e_pt_self e else e_pt_ref e.

Lemma expected_expansion_view e p o ie : calc_order p = CoOk ie o ->
  expected_expansion e p = expansion_of (loc00 e) (terminus_view e p).
Proof.
  intros H. unfold expected_expansion, expected_expansion_of, terminus_view, parent_is_prime, is_prime_of.
  rewrite H. cbn. reflexivity.
Qed.

Lemma valid_child_expansion_view e p c : valid_child e p c = true ->
  expansion_of (loc00 e) (terminus_view e p) = Some (h_expansion c).
Proof.
  intros V. apply valid_child_rules in V.
  assert (O : rule_parent_order p = true) by tauto.
  assert (X : rule_expansion e p c = true) by tauto.
  unfold rule_parent_order, rule_parent_order_of, order_of in O.
  destruct (calc_order p) as [ie o | |] eqn:E; try discriminate.
  apply opt_eqb_true in X. rewrite (expected_expansion_view e p o ie E) in X. exact X.
Qed.

Lemma u8_succ_ne x : 0 <= x < 256 -> u8 (x + 1) <> x.
Proof.
  intros B. unfold u8. destruct (Z.eq_dec x 255) as [-> | N]; [vm_compute; discriminate |].
  rewrite Z.mod_small by lia. lia.
Qed.

(* a child of a block whose prime terminus matured, in any slice other than [0,0], carries the NEXT expansion number:
   the old one (what the [0,0] shortcut would hand down from a genesis terminus) is rejected, genesis or not *)
Lemma matured_terminus_other_slice e p c : valid_child e p c = true -> loc00 e = false ->
  matured (terminus_view e p) = true -> 0 <= pt_expansion (terminus_view e p) < 256 ->
  h_expansion c = u8 (pt_expansion (terminus_view e p) + 1) /\ h_expansion c <> pt_expansion (terminus_view e p).
Proof.
  intros V L M B. pose proof (valid_child_expansion_view e p c V) as X. rewrite L in X.
  apply expansion_of_spec in X. rewrite andb_false_r in X.
  destruct X as [_ [[F _] | [[_ [_ ->]] | [_ [F _]]]]]; try discriminate.
  - split; [reflexivity | apply u8_succ_ne; exact B].
  - rewrite M in F. discriminate.
Qed.

(* in slice [0,0] a genesis terminus hands its expansion number down unchanged, matured or not *)
Lemma genesis_terminus_original_slice e p c : valid_child e p c = true -> loc00 e = true ->
  pt_genesis (terminus_view e p) = true -> h_expansion c = pt_expansion (terminus_view e p).
Proof.
  intros V L G. pose proof (valid_child_expansion_view e p c V) as X. rewrite L in X.
  apply expansion_of_spec in X. rewrite G in X. cbn in X.
  destruct X as [_ [[_ ->] | [[F _] | [F _]]]]; [reflexivity | discriminate | discriminate].
Qed.

(** * VerifyHeader / AppendHeader and the block store *)
Lemma store_run_v_eq e p c : forall ops st,
  store_run_v (valid_child_fast e p c) st ops = store_run (Some (e, p)) c st ops.
Proof.
  induction ops as [| op ops IH]; intros st; [reflexivity |].
  destruct op; cbn [store_run_v store_run store_step fst snd]; rewrite IH; try reflexivity;
    destruct st; reflexivity.
Qed.
Lemma store_run_fast_eq e p c ops : store_run_fast e p c ops = store_run (Some (e, p)) c StUnknown ops.
Proof. unfold store_run_fast. cbv zeta. apply store_run_v_eq. Qed.

(* a stored candidate is verified exactly like a header never seen before *)
Lemma verify_top_ignores_candidate par c : verify_header_top StCandidate par c = verify_header_top StUnknown par c.
Proof. reflexivity. Qed.

Lemma verify_top_sound st e p c : verify_header_top st (Some (e, p)) c = true ->
  st = StAppended \/ valid_child e p c = true.
Proof. destruct st; cbn; rewrite ?valid_child_fast_eq; auto. Qed.

Definition not_commit (op : store_op) : bool := match op with SoCommit => false | _ => true end.

(* every verdict of every history of VerifyHeader / AppendHeader calls, candidate writes, purges and restarts on a
   header that is not part of the chain is the verdict of verifyHeader on (parent, child) *)
Lemma store_run_verdicts e p c : forall ops st, st <> StAppended -> forallb not_commit ops = true ->
  Forall (fun o => o = None \/ o = Some (valid_child e p c)) (store_run (Some (e, p)) c st ops).
Proof.
  induction ops as [| op ops IH]; intros st NA NC; [constructor |].
  cbn [forallb] in NC. apply andb_prop in NC as [N1 N2].
  destruct op; cbn [store_run store_step fst snd]; try discriminate; constructor;
    try (left; reflexivity); try (apply IH; assumption).
  - right. destruct st; cbn; rewrite ?valid_child_fast_eq; try reflexivity. contradiction.
  - right. destruct st; cbn; rewrite ?valid_child_fast_eq; try reflexivity. contradiction.
  - apply IH; [destruct st; try discriminate; contradiction | assumption].
Qed.

(* the node: whatever was stored as a candidate, in whatever order, a header enters the chain only as a valid child
   of the stored parent it was verified against *)
Definition accepted_by (look : header -> option (env * header)) (x : Z) : Prop :=
  exists c e p, h_hash c = x /\ look c = Some (e, p) /\ valid_child e p c = true.

Lemma existsb_eqb_in x l : existsb (Z.eqb x) l = true -> In x l.
Proof. intros H. apply existsb_exists in H as [y [I E]]. apply Z.eqb_eq in E. subst. exact I. Qed.

Lemma node_step_appended look s0 s op :
  (forall x, In x (ns_appended s) -> In x (ns_appended s0) \/ accepted_by look x) ->
  forall x, In x (ns_appended (node_step look s op)) -> In x (ns_appended s0) \/ accepted_by look x.
Proof.
  intros INV x. destruct op as [c | c |]; cbn [node_step]; try (apply INV).
  destruct (verify_header_top (status_of s c) (look c) c) eqn:V; [| apply INV].
  cbn [ns_appended]. intros [<- | I]; [| apply INV; exact I].
  unfold status_of in V. destruct (existsb (Z.eqb (h_hash c)) (ns_appended s)) eqn:A.
  { apply INV. apply existsb_eqb_in. exact A. }
  assert (V' : verify_header_top StUnknown (look c) c = true)
    by (destruct (existsb (Z.eqb (h_hash c)) (ns_candidates s)); exact V).
  cbn in V'. destruct (look c) as [[e p] |] eqn:L; [| discriminate].
  right. exists c, e, p. rewrite valid_child_fast_eq in V'. auto.
Qed.

Lemma node_run_appended look s0 : forall ops s,
  (forall x, In x (ns_appended s) -> In x (ns_appended s0) \/ accepted_by look x) ->
  forall x, In x (ns_appended (node_run look s ops)) -> In x (ns_appended s0) \/ accepted_by look x.
Proof.
  unfold node_run. induction ops as [| op ops IH]; intros s INV; [exact INV |].
  cbn [fold_left]. apply IH. apply node_step_appended. exact INV.
Qed.

Lemma node_appends_valid look s0 ops x :
  In x (ns_appended (node_run look s0 ops)) -> In x (ns_appended s0) \/ accepted_by look x.
Proof. apply node_run_appended. intros y I; left; exact I. Qed.

(* the chain the node builds does not depend on which candidates were stored, nor when *)
Definition is_write (op : node_op) : bool := match op with NWrite _ => true | _ => false end.

Lemma status_appended_only s s' c : ns_appended s = ns_appended s' ->
  verify_header_top (status_of s c) = verify_header_top (status_of s' c).
Proof.
  intros E. unfold status_of. rewrite E. destruct (existsb (Z.eqb (h_hash c)) (ns_appended s')); [reflexivity |].
  destruct (existsb _ (ns_candidates s)), (existsb _ (ns_candidates s')); reflexivity.
Qed.

Lemma node_run_ignores_writes look : forall ops s s', ns_appended s = ns_appended s' ->
  ns_appended (node_run look s ops) = ns_appended (node_run look s' (filter (fun o => negb (is_write o)) ops)).
Proof.
  unfold node_run. induction ops as [| op ops IH]; intros s s' E; [exact E |].
  destruct op as [c | c |]; cbn [filter is_write negb fold_left].
  - apply IH. cbn. exact E.
  - apply IH. cbn [node_step]. rewrite (status_appended_only s s' c E).
    destruct (verify_header_top (status_of s' c) (look c) c); cbn; [rewrite E; reflexivity | exact E].
  - apply IH. exact E.
Qed.

(* C02 — ExecutionResult.QuaiFees (what the block later pays to the miner) is covered by what the fee
   payer lost to gas: per message, and summed over the Quai part of a block. *)
From Coq Require Import List ZArith NArith Bool Lia.
From GQ Require Import Lib.C02_BMap Generated.C02Sites Model.C02 Proofs.C02_Exec Proofs.C02_Trans Proofs.C02.
Import ListNotations.
Local Open Scope Z_scope.

(* one message, any state, any outcome (refused, ETX, kQuai, Suicide, executed) *)
Theorem fees_covered e m o top s s' r :
  0 <= m_price m -> wf_opq m o -> wf_shape m ->
  transition e m o top s = (s', r) ->
  0 <= fees_of m r <= charge m r
  /\ (m_kind m = KNormal -> fees_of m r = charge m r).
Proof.
  intros HP WO WS T. destruct r as [|used failed].
  - cbn [fees_of charge]. split; [lia|reflexivity].
  - unfold fees_of, charge. destruct (m_isETX m) eqn:X.
    + split; [lia|reflexivity].
    + destruct (gas_bounds e m o top s s' used failed X HP WO WS T) as ([U0 U1] & [C0 C1] & CE & _).
      unfold charge in C0, C1, CE. rewrite X in C0, C1, CE.
      split; [split; [nia|exact C0]|].
      intros K. specialize (CE K). lia.
Qed.

Lemma apply_tx_result e m o top s s' r :
  apply_tx e m o top s = (s', r) -> exists s1, transition e m o top s = (s1, r).
Proof.
  unfold apply_tx. destruct (transition e m o top s) as [s1 r1]. intros [= _ <-]. now exists s1.
Qed.
Lemma apply_etx_result e m o top s s' r :
  apply_etx e m o top s = (s', r) -> exists s0 s1, transition e m o top s0 = (s1, r).
Proof.
  unfold apply_etx.
  destruct (apply_tx e m o top (stage (e_zero e) (m_value m) s)) as [s1 r1] eqn:A. intros [= _ <-].
  destruct (apply_tx_result _ _ _ _ _ _ _ A) as [s2 T]. now exists (stage (e_zero e) (m_value m) s), s2.
Qed.

Definition wf_txn_shape (t : txn) : Prop := wf_txn t /\ wf_shape (t_msg t).

(* a block: the fees of its results are covered by the gas charges accumulated by [run_block] *)
Theorem block_fees_covered l : forall b acc b' acc',
  Forall wf_txn_shape l -> nonneg b -> run_block l b acc = (b', acc') ->
  0 <= block_fees l b <= tot_charge acc' - tot_charge acc.
Proof.
  induction l as [|t l IH]; intros b acc b' acc' WF NN; cbn [run_block block_fees].
  - intros [= <- <-]. lia.
  - inversion WF as [|? ? [Wt Ws] Wl]; subst.
    destruct (run_tx t b acc) as [b1 acc1] eqn:R. intros H.
    destruct (run_tx_spec t b acc b1 acc1 Wt NN R) as (N1 & _).
    pose proof (IH b1 acc1 b' acc' Wl N1 H) as IHf.
    unfold run_tx in R.
    destruct ((if t_inbound t then apply_etx else apply_tx) (t_env t) (t_msg t) (t_opq t) (t_top t) (init b)) as [s' res] eqn:A.
    assert (F : 0 <= fees_of (t_msg t) res <= charge (t_msg t) res).
    { destruct Wt as ((_ & _ & HP & _ & _ & WO) & _ & _).
      destruct (t_inbound t).
      - destruct (apply_etx_result _ _ _ _ _ _ _ A) as (s0 & s1 & T).
        exact (proj1 (fees_covered _ _ _ _ _ _ _ HP WO Ws T)).
      - destruct (apply_tx_result _ _ _ _ _ _ _ A) as (s1 & T).
        exact (proj1 (fees_covered _ _ _ _ _ _ _ HP WO Ws T)). }
    destruct (is_invalid res) eqn:IV.
    + inversion R; subst. destruct res; [|discriminate]. cbn [fees_of charge] in *. lia.
    + inversion R; subst. cbn [tot_charge] in IHf. rewrite charge_of_eq in IHf. lia.
Qed.

(* with [block_conserves]: even after every QuaiFees of the block has been paid out to the miners, the sum
   of balances has not grown except by the protocol-defined credits (rent refunds, inbound values) *)
Theorem block_with_fees_paid_never_creates l b b' acc' :
  Forall wf_txn_shape l -> nonneg b -> run_block l b tot0 = (b', acc') ->
  bsum b' + block_fees l b <= bsum b - tot_etx acc' - tot_burn acc' + tot_rent acc' + tot_inbound acc'
  /\ 0 <= block_fees l b /\ 0 <= tot_etx acc' /\ 0 <= tot_burn acc'.
Proof.
  intros WF NN R.
  assert (WF' : Forall wf_txn l).
  { apply Forall_forall. intros t HI. rewrite Forall_forall in WF. exact (proj1 (WF t HI)). }
  destruct (block_conserves _ _ _ _ _ WF' NN R) as (_ & S & _ & E & B & _).
  pose proof (block_fees_covered _ _ _ _ _ WF NN R) as F.
  cbn [tot0 tot_charge tot_etx tot_burn tot_rent tot_inbound] in *. lia.
Qed.

(* the hypotheses as booleans of the correspondence check *)
Lemma shape_ok_sound m : shape_ok m = true -> wf_shape m.
Proof.
  unfold shape_ok, wf_shape. intros H.
  repeat (apply andb_true_iff in H; destruct H as [H ?]).
  repeat match goal with X : (_ <=? _) = true |- _ => apply Z.leb_le in X end.
  repeat split; assumption.
Qed.

Theorem observed_block_fees_covered c b' acc' :
  blk_hyps_ok c = true -> blk_shape_ok c = true -> run_block (c_blk c) (c_blkpre c) tot0 = (b', acc') ->
  0 <= block_fees (c_blk c) (c_blkpre c) <= tot_charge acc'
  /\ bsum b' + block_fees (c_blk c) (c_blkpre c)
     <= bsum (c_blkpre c) - tot_etx acc' - tot_burn acc' + tot_rent acc' + tot_inbound acc'.
Proof.
  intros H HS R. destruct (blk_hyps_ok_sound c H) as [WF NN].
  assert (WF' : Forall wf_txn_shape (c_blk c)).
  { apply Forall_forall. intros t HI. rewrite Forall_forall in WF. split; [exact (WF t HI)|].
    unfold blk_shape_ok in HS. rewrite forallb_forall in HS. exact (shape_ok_sound _ (HS t HI)). }
  pose proof (block_fees_covered _ _ _ _ _ WF' NN R) as F.
  destruct (block_with_fees_paid_never_creates _ _ _ _ WF' NN R) as (S & _).
  cbn [tot0 tot_charge] in F. split; [lia|exact S].
Qed.

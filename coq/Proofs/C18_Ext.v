(* C18 -- extensionality: two canonical tries with the same lookup function are the same tree. *)
From Coq Require Import List NArith Bool Arith Lia ZifyBool ZifyNat ZifyN.
From GQ Require Import Lib.Key Model.C18 Proofs.C18_Base.
Import ListNotations.

Definition wfo (n : node) : Prop := n = Nil \/ wfn n = true.

Lemma wf_wfo n : wf n = true <-> wfo n.
Proof.
  unfold wf, wfo. rewrite orb_true_iff. destruct n; cbn; intuition congruence.
Qed.

(* a canonical node that is not a short node cannot behave like a short node with a non-empty key:
   a value answers the empty key, a full node answers keys with two different first symbols *)
Lemma short_vs_other c y r c' :
  wfn c = true -> is_short c = false ->
  (forall q, lookup c q = lookup (Short (y :: r) c') q) -> False.
Proof.
  intros Hw Hs He. destruct c as [|v|k c0|cs]; try discriminate.
  - specialize (He []). cbn in He. discriminate.
  - apply wfn_full in Hw as (Hl & Hc & Hf).
    destruct (count_two_other cs (N.to_nat y) Hc) as (i & x & Hi & Hx & Hn).
    destruct (Hf _ _ Hx) as [->|Hwx]; [discriminate|].
    destruct (wfn_nonempty _ Hwx) as (q & v & Hq).
    specialize (He (N.of_nat i :: q)).
    rewrite lookup_full, Nat2N.id, Hx, Hq, lookup_short in He. cbn in He.
    destruct (N.eqb_spec y (N.of_nat i)) as [->|_]; [|discriminate].
    rewrite Nat2N.id in Hi. congruence.
Qed.

Lemma wf_ext_aux a : forall b, wfo a -> wfo b -> (forall q, lookup a q = lookup b q) -> a = b.
Proof.
  induction a as [|v|k c IH|cs IH] using node_ind'; intros b Ha Hb He.
  - (* Nil *)
    destruct Hb as [->|Hb]; auto.
    destruct (wfn_nonempty _ Hb) as (q & v & Hq). rewrite <- He in Hq. discriminate.
  - (* Val *)
    destruct b as [|w|k' c'|cs'].
    + specialize (He []). discriminate.
    + specialize (He []). cbn in He. congruence.
    + destruct Hb as [|Hb]; [discriminate|]. apply wfn_short in Hb as (Hk & _).
      specialize (He []). rewrite lookup_short, strip_nil_inv in He. destruct k'; [congruence|discriminate].
    + specialize (He []). discriminate.
  - (* Short *)
    destruct Ha as [|Ha]; [discriminate|]. pose proof Ha as Ha'.
    apply wfn_short in Ha as (Hk & Hs & Hc).
    destruct b as [|w|k' c'|cs'].
    + destruct (wfn_nonempty _ Ha') as (q & v & Hq). rewrite He in Hq. discriminate.
    + specialize (He []). rewrite lookup_short, strip_nil_inv in He. destruct k; [congruence|discriminate].
    + destruct Hb as [|Hb]; [discriminate|]. apply wfn_short in Hb as (Hk' & Hs' & Hc').
      destruct (prefix_len_spec k k') as (p & ra & rb & -> & -> & _ & Hd).
      destruct ra as [|x ra], rb as [|y rb].
      * rewrite app_nil_r in *. f_equal. apply IH; unfold wfo; auto.
        intros q. specialize (He (p ++ q)). rewrite !lookup_short_app in He. exact He.
      * exfalso. apply (short_vs_other c y rb c' Hc Hs). intros q.
        specialize (He (p ++ q)). rewrite app_nil_r, lookup_short_app in He. rewrite He.
        rewrite !lookup_short, strip_app_l, strip_app. reflexivity.
      * exfalso. apply (short_vs_other c' x ra c Hc' Hs'). intros q.
        specialize (He (p ++ q)). rewrite (app_nil_r p), (lookup_short_app p c') in He. rewrite <- He.
        rewrite !lookup_short, strip_app_l, strip_app. reflexivity.
      * exfalso. destruct (wfn_nonempty _ Hc) as (q & v & Hq).
        specialize (He ((p ++ x :: ra) ++ q)). rewrite lookup_short_app, Hq in He.
        rewrite lookup_short, <- app_assoc, strip_app_l, strip_app in He. cbn in He.
        destruct (N.eqb_spec y x); [congruence|discriminate].
    + destruct Hb as [|Hb]; [discriminate|]. exfalso.
      destruct k as [|y r]; [congruence|].
      apply (short_vs_other (Full cs') y r c Hb eq_refl). intros q. symmetry. apply He.
  - (* Full *)
    destruct Ha as [|Ha]; [discriminate|]. pose proof Ha as Ha'.
    apply wfn_full in Ha as (Hl & Hc & Hf).
    destruct b as [|w|k' c'|cs'].
    + destruct (wfn_nonempty _ Ha') as (q & v & Hq). rewrite He in Hq. discriminate.
    + specialize (He []). discriminate.
    + destruct Hb as [|Hb]; [discriminate|]. exfalso. apply wfn_short in Hb as (Hk' & _).
      destruct k' as [|y r]; [congruence|].
      apply (short_vs_other (Full cs) y r c' Ha' eq_refl). exact He.
    + destruct Hb as [|Hb]; [discriminate|]. apply wfn_full in Hb as (Hl' & Hc' & Hf').
      f_equal. apply (nth_ext _ _ Nil Nil); [congruence|]. intros i Hi.
      destruct (nth_error cs i) as [x|] eqn:Hx; [|apply nth_error_None in Hx; lia].
      destruct (nth_error cs' i) as [x'|] eqn:Hx'; [|apply nth_error_None in Hx'; lia].
      rewrite (nth_error_nth' _ _ _ Hx), (nth_error_nth' _ _ _ Hx').
      rewrite Forall_forall in IH. apply (IH x (nth_error_In _ _ Hx)).
      * exact (Hf _ _ Hx).
      * exact (Hf' _ _ Hx').
      * intros q. specialize (He (N.of_nat i :: q)).
        rewrite !lookup_full, Nat2N.id, Hx, Hx' in He. exact He.
Qed.

Theorem wf_extensional_lemma a b :
  wf a = true -> wf b = true -> (forall q, lookup a q = lookup b q) -> a = b.
Proof. rewrite !wf_wfo. apply wf_ext_aux. Qed.

(* C06 — lemmas about the storage bookkeeping of a state object (Model/C06.v, second part):
   one block's worth of GetState / SetState / CreateAccount followed by the single updateTrie of
   IntermediateRoot gives the same storage content, the same Size and the same words read whether the
   parent state is read through a snapshot layer or through the tries. *)
From Coq Require Import List NArith ZArith Bool Lia.
From GQ Require Import Model.C06.
Import ListNotations.
Local Open Scope N_scope.

Ltac sel := cbn [so_trie so_origin so_pending so_uniq so_size so_destructed fst snd].

Lemma memN_cons : forall k x l, memN k (x :: l) = N.eqb k x || memN k l.
Proof. reflexivity. Qed.

Lemma aget_cons : forall k v m k', aget ((k, v) :: m) k' = if N.eqb k' k then Some v else aget m k'.
Proof. reflexivity. Qed.

(* the run without a layer (o1) and the run with a layer (o2) stay related *)
Definition orel (o1 o2 : sobj) : Prop :=
  so_trie o1 = so_trie o2 /\ so_pending o1 = so_pending o2 /\ so_size o1 = so_size o2 /\
  so_destructed o1 = so_destructed o2 /\
  (forall k, memN k (so_uniq o1) = memN k (so_uniq o2)) /\
  (forall k, match aget (so_origin o2) k with
             | Some v => aget (so_origin o1) k = Some v
             | None => match aget (so_origin o1) k with
                       | None => True
                       | Some v => v = 0 /\ so_destructed o2 = true /\ memN k (so_uniq o2) = true
                       end
             end).

(* before the block's updateTrie: a re-created object has an empty trie, any other object's trie is the
   parent storage, which is what the snapshot layer of the parent root holds for the account *)
Definition oinv (snapv : smap) (o : sobj) : Prop :=
  (so_destructed o = true -> so_trie o = []) /\ (so_destructed o = false -> so_trie o = snapv).

Lemma orel_refl : forall o, orel o o.
Proof.
  intro o. repeat split; auto. intro k. destruct (aget (so_origin o) k); auto.
Qed.

Lemma orel_intro : forall o1 o2,
  so_trie o1 = so_trie o2 -> so_pending o1 = so_pending o2 -> so_size o1 = so_size o2 ->
  so_destructed o1 = so_destructed o2 ->
  (forall k, memN k (so_uniq o1) = memN k (so_uniq o2)) ->
  (forall k, match aget (so_origin o2) k with
             | Some v => aget (so_origin o1) k = Some v
             | None => match aget (so_origin o1) k with
                       | None => True
                       | Some v => v = 0 /\ so_destructed o2 = true /\ memN k (so_uniq o2) = true
                       end
             end) -> orel o1 o2.
Proof. intros. unfold orel. repeat (split; [assumption|]). assumption. Qed.

Lemma oinv_intro : forall snapv o,
  (so_destructed o = true -> so_trie o = []) -> (so_destructed o = false -> so_trie o = snapv) -> oinv snapv o.
Proof. intros. split; assumption. Qed.

Lemma get_committed_sim : forall src snapv o1 o2 k,
  orel o1 o2 -> oinv snapv o2 ->
  fst (get_committed NoSnap snapv o1 k) = fst (get_committed src snapv o2 k) /\
  orel (snd (get_committed NoSnap snapv o1 k)) (snd (get_committed src snapv o2 k)) /\
  oinv snapv (snd (get_committed src snapv o2 k)).
Proof.
  intros src snapv o1 o2 k R I.
  pose proof R as R0. pose proof I as I0.
  destruct R as (Ht & Hp & Hs & Hd & Hu & Ho).
  destruct I as (Id & In).
  unfold get_committed. rewrite Hp.
  destruct (db_get (so_pending o2) k) as [pv|] eqn:Epv.
  { sel. auto. }
  pose proof (Ho k) as Hok.
  destruct (aget (so_origin o2) k) as [v2|] eqn:E2.
  { rewrite Hok. sel. auto. }
  (* a relation that survives growing the unique-new-keys set of the second run by k, when k is in it already
     or is added on both sides *)
  destruct (aget (so_origin o1) k) as [v1|] eqn:E1.
  - (* cached only in the run without a layer: destructed object, zero word *)
    destruct Hok as (Hv & Hdes & Hmem). subst v1.
    assert (Htr : so_trie o2 = []) by (apply Id; exact Hdes).
    rewrite Htr. cbn [db_get].
    assert (Hmem' : forall k', memN k' (so_uniq o1) = memN k' (k :: so_uniq o2)).
    { intro k'. rewrite memN_cons, Hu. destruct (N.eqb k' k) eqn:Ek; [|reflexivity].
      apply N.eqb_eq in Ek. subst k'. rewrite Hmem. reflexivity. }
    assert (Hrel : orel o1 (mkObj [] (so_origin o2) (so_pending o2) (k :: so_uniq o2) (so_size o2) (so_destructed o2))).
    { apply orel_intro; sel; auto; try congruence.
      intro k'. pose proof (Ho k') as H'. destruct (aget (so_origin o2) k'); auto.
      destruct (aget (so_origin o1) k'); auto.
      destruct H' as (A & B & C). repeat split; auto. rewrite memN_cons, C. apply orb_true_r. }
    assert (Hinv : oinv snapv (mkObj [] (so_origin o2) (so_pending o2) (k :: so_uniq o2) (so_size o2) (so_destructed o2))).
    { apply oinv_intro; sel; auto; intro Hf; congruence. }
    destruct src; rewrite ?Hdes; sel.
    + (* no layer on either side: the second run caches the zero word now *)
      split; [reflexivity|]. split.
      * apply orel_intro; sel; auto; try congruence.
        intro k'. rewrite aget_cons. pose proof (Ho k') as H'.
        destruct (N.eqb k' k) eqn:Ek.
        -- apply N.eqb_eq in Ek. subst k'. exact E1.
        -- destruct (aget (so_origin o2) k'); auto. destruct (aget (so_origin o1) k'); auto.
           destruct H' as (A & B & C). repeat split; auto. rewrite memN_cons, C. apply orb_true_r.
      * apply oinv_intro; sel; auto; intro Hf; congruence.
    + rewrite Hdes in Hrel, Hinv. split; [reflexivity|]. split; [exact Hrel|exact Hinv].
    + rewrite Hdes in Hrel, Hinv. split; [reflexivity|]. split; [exact Hrel|exact Hinv].
  - (* cached in neither run: both probe the same trie *)
    rewrite Ht.
    set (probe := db_get (so_trie o2) k).
    set (uq1 := match probe with None => k :: so_uniq o1 | Some _ => so_uniq o1 end).
    set (uq2 := match probe with None => k :: so_uniq o2 | Some _ => so_uniq o2 end).
    assert (Huq : forall k', memN k' uq1 = memN k' uq2).
    { intro k'. unfold uq1, uq2. destruct probe; auto. rewrite !memN_cons, Hu. reflexivity. }
    assert (Hmono : forall k', memN k' (so_uniq o2) = true -> memN k' uq2 = true).
    { intros k' H. unfold uq2. destruct probe; auto. rewrite memN_cons, H. apply orb_true_r. }
    (* both sides cache the same word *)
    assert (Hboth : forall v,
      orel (mkObj (so_trie o2) ((k, v) :: so_origin o1) (so_pending o2) uq1 (so_size o1) (so_destructed o1))
           (mkObj (so_trie o2) ((k, v) :: so_origin o2) (so_pending o2) uq2 (so_size o2) (so_destructed o2))).
    { intro v. apply orel_intro; sel; auto.
      intro k'. rewrite !aget_cons. destruct (N.eqb k' k); auto.
      pose proof (Ho k') as H'. destruct (aget (so_origin o2) k'); auto.
      destruct (aget (so_origin o1) k'); auto. destruct H' as (A & B & C). repeat split; auto. }
    assert (Hinv : forall og uq, oinv snapv (mkObj (so_trie o2) og (so_pending o2) uq (so_size o2) (so_destructed o2))).
    { intros og uq. apply oinv_intro; sel; auto. }
    (* destructed object and a layer: the zero word is returned, nothing cached on that side *)
    assert (Hdestr : so_destructed o2 = true ->
      wopt probe = 0 /\
      orel (mkObj (so_trie o2) ((k, wopt probe) :: so_origin o1) (so_pending o2) uq1 (so_size o1) (so_destructed o1))
           (mkObj (so_trie o2) (so_origin o2) (so_pending o2) uq2 (so_size o2) (so_destructed o2))).
    { intro Hdes. assert (Htr : so_trie o2 = []) by (apply Id; exact Hdes).
      assert (Hpr : probe = None) by (unfold probe; rewrite Htr; reflexivity).
      split; [rewrite Hpr; reflexivity|].
      apply orel_intro; sel; auto.
      intro k'. rewrite aget_cons. destruct (N.eqb k' k) eqn:Ek.
      - apply N.eqb_eq in Ek. subst k'. rewrite E2. rewrite Hpr. cbn [wopt].
        repeat split; auto. unfold uq2. rewrite Hpr. rewrite memN_cons, N.eqb_refl. reflexivity.
      - pose proof (Ho k') as H'. destruct (aget (so_origin o2) k'); auto.
        destruct (aget (so_origin o1) k'); auto. destruct H' as (A & B & C). repeat split; auto. }
    destruct src.
    + sel. split; [reflexivity|]. split; [apply Hboth|apply Hinv].
    + destruct (so_destructed o2) eqn:Hdes.
      * destruct (Hdestr eq_refl) as (Hz & Hrel). sel. split; [exact Hz|]. split; [exact Hrel|].
        apply oinv_intro; sel; auto; intro Hf; congruence.
      * assert (Hsv : so_trie o2 = snapv) by (apply In; reflexivity).
        assert (Hv : wopt (db_get snapv k) = wopt probe) by (unfold probe; rewrite Hsv; reflexivity).
        sel. rewrite Hv. split; [reflexivity|]. split; [apply Hboth|].
        apply oinv_intro; sel; auto; intro Hf; congruence.
    + destruct (so_destructed o2) eqn:Hdes.
      * destruct (Hdestr eq_refl) as (Hz & Hrel). sel. split; [exact Hz|]. split; [exact Hrel|].
        apply oinv_intro; sel; auto; intro Hf; congruence.
      * sel. split; [reflexivity|]. split; [apply Hboth|].
        apply oinv_intro; sel; auto; intro Hf; congruence.
Qed.

Lemma set_state_sim : forall src snapv o1 o2 k v,
  orel o1 o2 -> oinv snapv o2 ->
  orel (set_state NoSnap snapv o1 k v) (set_state src snapv o2 k v) /\
  oinv snapv (set_state src snapv o2 k v).
Proof.
  intros src snapv o1 o2 k v R I.
  destruct (get_committed_sim src snapv o1 o2 k R I) as (Hv & Hr & Hi).
  unfold set_state.
  destruct (get_committed NoSnap snapv o1 k) as [p1 a1].
  destruct (get_committed src snapv o2 k) as [p2 a2].
  cbn in Hv, Hr, Hi. subst p2.
  destruct (N.eqb p1 v); [split; assumption|].
  destruct Hr as (Ht & Hp & Hs & Hd & Hu & Ho). destruct Hi as (Id & In).
  split.
  - repeat split; cbn; auto. rewrite Hp. reflexivity.
  - split; cbn; auto.
Qed.

Lemma recreate_sim : forall snapv c o1 o2, orel o1 o2 ->
  orel (recreate c o1) (recreate c o2) /\ oinv snapv (recreate c o2).
Proof.
  intros snapv c o1 o2 (Ht & Hp & Hs & Hd & Hu & Ho). unfold recreate. split.
  - repeat split; cbn; auto. rewrite Hs. reflexivity.
  - split; cbn; auto. intro Hf. congruence.
Qed.

(* updateTrie: content and Size depend on the origin cache only through the looked-up word and on the
   unique-new-keys set only through membership *)
Lemma upd_step_sim : forall uq1 uq2 tr og1 og2 sz k v,
  (forall k, memN k uq1 = memN k uq2) ->
  (forall k, wopt (aget og1 k) = wopt (aget og2 k)) ->
  exists tr' og1' og2' sz',
    upd_step uq1 (tr, og1, sz) (k, v) = (tr', og1', sz') /\
    upd_step uq2 (tr, og2, sz) (k, v) = (tr', og2', sz') /\
    (forall k', wopt (aget og1' k') = wopt (aget og2' k')).
Proof.
  intros uq1 uq2 tr og1 og2 sz k v Hu Hw. unfold upd_step. rewrite (Hw k), (Hu k).
  assert (Hw' : forall k', wopt (aget ((k, v) :: og1) k') = wopt (aget ((k, v) :: og2) k')).
  { intro k'. rewrite !aget_cons. destruct (N.eqb k' k); auto. }
  destruct (N.eqb v (wopt (aget og2 k))).
  - exists tr, og1, og2, sz. auto.
  - destruct (N.eqb v 0); do 4 eexists; (split; [reflexivity|]); (split; [reflexivity|]); exact Hw'.
Qed.

Lemma upd_fold_sim : forall uq1 uq2 pend tr og1 og2 sz,
  (forall k, memN k uq1 = memN k uq2) ->
  (forall k, wopt (aget og1 k) = wopt (aget og2 k)) ->
  fst (fst (fold_left (upd_step uq1) pend (tr, og1, sz))) = fst (fst (fold_left (upd_step uq2) pend (tr, og2, sz))) /\
  snd (fold_left (upd_step uq1) pend (tr, og1, sz)) = snd (fold_left (upd_step uq2) pend (tr, og2, sz)).
Proof.
  intros uq1 uq2 pend. induction pend as [|[k v] t IH]; intros tr og1 og2 sz Hu Hw.
  - cbn. auto.
  - cbn [fold_left].
    destruct (upd_step_sim uq1 uq2 tr og1 og2 sz k v Hu Hw) as (tr' & og1' & og2' & sz' & E1 & E2 & Hw').
    rewrite E1, E2. apply IH; auto.
Qed.

Lemma update_trie_sim : forall o1 o2, orel o1 o2 ->
  so_trie (update_trie o1) = so_trie (update_trie o2) /\ so_size (update_trie o1) = so_size (update_trie o2).
Proof.
  intros o1 o2 (Ht & Hp & Hs & Hd & Hu & Ho). unfold update_trie. rewrite Hp.
  destruct (so_pending o2) as [|kv t] eqn:Ep; [auto|].
  rewrite Ht, Hs.
  assert (Hw : forall k, wopt (aget (so_origin o1) k) = wopt (aget (so_origin o2) k)).
  { intro k. pose proof (Ho k) as H. destruct (aget (so_origin o2) k).
    - rewrite H. reflexivity.
    - destruct (aget (so_origin o1) k); auto. destruct H as (A & _). subst. reflexivity. }
  destruct (upd_fold_sim (so_uniq o1) (so_uniq o2) (kv :: t) (so_trie o2) (so_origin o1) (so_origin o2) (so_size o2) Hu Hw) as (A & B).
  destruct (fold_left (upd_step (so_uniq o1)) (kv :: t) (so_trie o2, so_origin o1, so_size o2)) as [[a1 b1] c1].
  destruct (fold_left (upd_step (so_uniq o2)) (kv :: t) (so_trie o2, so_origin o2, so_size o2)) as [[a2 b2] c2].
  cbn in *. auto.
Qed.

Definition not_root (o : sop) : bool := match o with SRoot => false | _ => true end.

Lemma run_sto_sim : forall src snapv pre o1 o2,
  forallb not_root pre = true -> orel o1 o2 -> oinv snapv o2 ->
  sto_obs (run_sto NoSnap snapv o1 (pre ++ [SRoot])) = sto_obs (run_sto src snapv o2 (pre ++ [SRoot])).
Proof.
  intros src snapv pre. induction pre as [|op t IH]; intros o1 o2 Hn R I.
  - cbn. unfold sto_obs. cbn. destruct (update_trie_sim o1 o2 R) as (A & B). rewrite A, B. reflexivity.
  - cbn in Hn. apply andb_true_iff in Hn. destruct Hn as (Hop & Hn).
    destruct op as [k|k v|c|]; cbn [app run_sto].
    + destruct (get_committed_sim src snapv o1 o2 k R I) as (Hv & Hr & Hi).
      destruct (get_committed NoSnap snapv o1 k) as [v1 a1].
      destruct (get_committed src snapv o2 k) as [v2 a2].
      cbn in Hv, Hr, Hi. subst v2.
      specialize (IH a1 a2 Hn Hr Hi).
      destruct (run_sto NoSnap snapv a1 (t ++ [SRoot])) as [x1 r1].
      destruct (run_sto src snapv a2 (t ++ [SRoot])) as [x2 r2].
      unfold sto_obs in *. cbn in *. inversion IH. reflexivity.
    + destruct (set_state_sim src snapv o1 o2 k v R I) as (Hr & Hi). apply IH; auto.
    + destruct (recreate_sim snapv c o1 o2 R) as (Hr & Hi). apply IH; auto.
    + cbn in Hop. discriminate.
Qed.

(* a block (any reads, writes and re-creations, then the one updateTrie of IntermediateRoot) on an object
   loaded from the parent state *)
Lemma sto_block_source_independent : forall src p sz pre,
  forallb not_root pre = true ->
  sto_block src p sz (pre ++ [SRoot]) = sto_block NoSnap p sz (pre ++ [SRoot]).
Proof.
  intros src p sz pre Hn. unfold sto_block. symmetry.
  apply run_sto_sim; auto.
  - apply orel_refl.
  - split; cbn; auto. intro Hf. discriminate.
Qed.

(* with a second updateTrie in the lifetime of the same StateDB the results do depend on the layer: the
   destructed early return does not cache the zero word, so the slot is probed again after uniqueNewKeysStorage
   was reset and is counted, while the run without a layer answers from originStorage and does not count it *)
Definition two_epoch_ops : list sop := [SCreate false; SGet 1; SSet 2 5; SRoot; SSet 1 7; SRoot].
Lemma sto_two_epochs_differ :
  sto_block NoSnap [] 0%Z two_epoch_ops = ([(1, 7); (2, 5)], 1%Z, [0]) /\
  sto_block SnapLayer [] 0%Z two_epoch_ops = ([(1, 7); (2, 5)], 2%Z, [0]).
Proof. split; vm_compute; reflexivity. Qed.

(* C18: "survives commit and reload" at the level of trie.Database's reference counting of roots:
   a committed root stays openable while somebody holds it. *)
From Coq Require Import List NArith Bool Arith Lia.
From GQ Require Import Model.C18.
Import ListNotations.

(* the invariant tying the implementation's counter node.parents to the holders *)
Definition db_inv (s : dbst) : Prop :=
  forall r, disk s r = true \/ (hold s r <= parents s r /\ (pres s r = false -> hold s r = 0)).

Lemma db_inv0 : db_inv db0.
Proof. intros r. right. cbn. split; [lia|reflexivity]. Qed.

Ltac fu := unfold fupd in *; cbn [pres disk parents mkids hold] in *.

Lemma db_step_inv s o : db_inv s -> db_inv (db_step true s o).
Proof.
  intros I. destruct o as [r|r|r|r| | |r b]; cbn [db_step].
  - (* insert *)
    unfold db_ins. destruct (pres s r) eqn:P; [exact I|].
    intros q. destruct (I q) as [D|[H1 H2]]; fu; [left; exact D|].
    destruct (Nat.eqb_spec q r) as [->|Hne].
    + right. specialize (H2 P). split; [lia|intros; exact H2].
    + right. split; assumption.
  - (* reference *)
    unfold db_ref. destruct (pres s r) eqn:P; cbn [negb].
    + rewrite andb_false_r. intros q. destruct (I q) as [D|[H1 H2]]; fu; [left; exact D|].
      destruct (Nat.eqb_spec q r) as [->|Hne].
      * right. split; [lia|intros E; rewrite P in E; discriminate].
      * right. split; assumption.
    + destruct (disk s r) eqn:D; [|exact I].
      intros q. destruct (Nat.eqb_spec q r) as [->|Hne].
      * left. fu. exact D.
      * destruct (I q) as [Dq|[H1 H2]]; fu; [left; exact Dq|].
        right. destruct (Nat.eqb_spec q r); [contradiction|]. split; assumption.
  - (* dereference *)
    unfold db_deref. destruct (pres s r) eqn:P; cbn [negb].
    + destruct (Nat.eqb_spec (parents s r - 1) 0) as [Z|NZ].
      * intros q. destruct (I q) as [D|[H1 H2]]; fu; [left; exact D|].
        destruct (Nat.eqb_spec q r) as [->|Hne].
        -- right. split; [lia|intros _; lia].
        -- right. split; assumption.
      * intros q. destruct (I q) as [D|[H1 H2]]; fu; [left; exact D|].
        destruct (Nat.eqb_spec q r) as [->|Hne].
        -- right. split; [lia|intros E; rewrite P in E; discriminate].
        -- right. split; assumption.
    + intros q. destruct (I q) as [D|[H1 H2]]; fu; [left; exact D|].
      destruct (Nat.eqb_spec q r) as [->|Hne].
      * right. specialize (H2 P). split; [lia|intros _; lia].
      * right. split; assumption.
  - (* flush *)
    unfold db_flush. destruct (pres s r) eqn:P; [|exact I].
    intros q. fu. destruct (Nat.eqb_spec q r) as [->|Hne]; [left; reflexivity|].
    destruct (I q) as [D|[H1 H2]]; [left; exact D|right; split; assumption].
  - (* cap *)
    intros q. unfold db_capall. fu. destruct (I q) as [D|[H1 H2]].
    + left. rewrite D. reflexivity.
    + destruct (pres s q) eqn:P; [left; apply orb_true_r|].
      right. split; [exact H1|intros _; apply H2; reflexivity].
  - (* reopen *)
    intros q. right. unfold db_reopen. fu. split; [lia|reflexivity].
  - exact I.
Qed.

Lemma db_run_inv ops : forall s, db_inv s -> db_inv (db_run true ops s).
Proof.
  unfold db_run. induction ops as [|o ops IH]; intros s I; cbn [fold_left]; [exact I|].
  apply IH. apply db_step_inv. exact I.
Qed.

(* a root with a holder can be opened: it is in the memory layer or on disk *)
Lemma db_held_openable ops r :
  0 < hold (db_run true ops db0) r -> db_openable (db_run true ops db0) r = true.
Proof.
  intros H. destruct (db_run_inv ops db0 db_inv0 r) as [D|[_ H2]]; unfold db_openable.
  - rewrite D. apply orb_true_r.
  - destruct (pres (db_run true ops db0) r); [reflexivity|]. specialize (H2 eq_refl). lia.
Qed.

(* what is on disk stays on disk *)
Lemma db_step_disk rd s o r : disk s r = true -> disk (db_step rd s o) r = true.
Proof.
  intros D. destruct o as [x|x|x|x| | |x b]; cbn [db_step]; try exact D.
  - unfold db_ins. destruct (pres s x); exact D.
  - unfold db_ref. destruct (negb (pres s x)); [destruct (disk s x); exact D|].
    destruct (Nat.ltb 0 (mkids s x) && negb rd); exact D.
  - unfold db_deref. destruct (negb (pres s x)); [exact D|].
    destruct (Nat.eqb (parents s x - 1) 0); exact D.
  - unfold db_flush. destruct (pres s x); [|exact D]. fu. destruct (Nat.eqb r x); [reflexivity|exact D].
  - unfold db_capall. fu. rewrite D. reflexivity.
Qed.

Lemma db_persisted_stays rd ops : forall s r, disk s r = true -> db_openable (db_run rd ops s) r = true.
Proof.
  unfold db_run. induction ops as [|o ops IH]; intros s r D; cbn [fold_left].
  - unfold db_openable. rewrite D. apply orb_true_r.
  - apply IH. apply db_step_disk. exact D.
Qed.

(* holders are what the callers count: while the root is openable, each Reference adds one and each
   Dereference removes one *)
Lemma db_hold_ref rd s r : db_openable s r = true -> hold (db_ref rd s r) r = S (hold s r).
Proof.
  unfold db_openable, db_ref. intros O. destruct (pres s r); cbn [negb orb] in *.
  - destruct (Nat.ltb 0 (mkids s r) && negb rd); fu; rewrite Nat.eqb_refl; reflexivity.
  - rewrite O. fu. rewrite Nat.eqb_refl. reflexivity.
Qed.

Lemma db_hold_deref s r : hold (db_deref s r) r = hold s r - 1.
Proof.
  unfold db_deref. destruct (negb (pres s r)); [fu; rewrite Nat.eqb_refl; reflexivity|].
  destruct (Nat.eqb (parents s r - 1) 0); fu; rewrite Nat.eqb_refl; reflexivity.
Qed.

(* without the meta-root exemption (`ok && parent != (common.Hash{})` -> `ok`): the same root
   committed by two histories, referenced by both, released by one -- and it is gone *)
Lemma db_root_exemption_needed :
  let ops := [DIns 0; DRef 0; DIns 0; DRef 0; DDeref 0] in
  hold (db_run false ops db0) 0 = 1 /\ db_openable (db_run false ops db0) 0 = false /\
  hold (db_run true ops db0) 0 = 1 /\ db_openable (db_run true ops db0) 0 = true.
Proof. vm_compute. repeat split; reflexivity. Qed.

(* C13 — lemmas about the redemption scan (RedeemLockedQuai) and the lockup value. *)
From Coq Require Import List NArith ZArith Bool Lia ZifyBool ZifyNat ZifyN.
From GQ Require Import Lib.Key Lib.SMap Generated.C13Params Model.C13.
Import ListNotations.
Import C13Params.
Local Open Scope N_scope.

(* ------------------------------------------------------------------ redemption scan *)

Definition is_credit (s : sel) : bool := match s with SCredit _ _ => true | _ => false end.

(* the depth at which RedeemLockedQuai credits an ETX (None: never) *)
Definition credit_depth (x : retx) : option N :=
  match e_kind x with
  | KCoinbase =>
      if is_quai (e_to x) && (e_dlen x =? plain_len) && internal (e_to x) then depth_of (e_lock x) else None
  | KConversion => if is_quai (e_to x) && internal (e_to x) then Some conversion_lock_period else None
  | KOther => None
  end.

Definition credit_amount (x : retx) (h : N) : Z :=
  match e_kind x with KCoinbase => lockup_value (e_value x) (e_lock x) h | _ => e_value x end.

Lemma select_credit d h x :
  is_credit (select d h x) = match credit_depth x with Some d' => d' =? d | None => false end.
Proof.
  unfold select, credit_depth. destruct (e_kind x).
  - destruct (is_quai (e_to x)); cbn [andb]; [|reflexivity].
    destruct (e_dlen x =? plain_len); cbn [andb]; [|reflexivity].
    destruct (internal (e_to x)); cbn [negb]; [|reflexivity].
    destruct (depth_of (e_lock x)) as [lk|]; [|reflexivity].
    destruct (lk =? d); reflexivity.
  - destruct (is_quai (e_to x)); cbn [andb]; [|reflexivity].
    destruct (internal (e_to x)); cbn [andb]; rewrite ?(N.eqb_sym conversion_lock_period d);
      destruct (d =? conversion_lock_period); reflexivity.
  - reflexivity.
Qed.

Lemma select_credit_payload d h x a v : select d h x = SCredit a v -> a = e_to x /\ v = credit_amount x h.
Proof.
  unfold select, credit_amount. destruct (e_kind x).
  - destruct (is_quai (e_to x)); [|discriminate].
    destruct (e_dlen x =? plain_len); [|discriminate].
    destruct (negb (internal (e_to x))); [discriminate|].
    destruct (depth_of (e_lock x)) as [lk|]; [|discriminate].
    destruct (lk =? d); [|discriminate]. intros H; inversion H; auto.
  - destruct (is_quai (e_to x) && (d =? conversion_lock_period)); [|discriminate].
    destruct (internal (e_to x)); [|discriminate]. intros H; inversion H; auto.
  - discriminate.
Qed.

Definition cnt (p : N * nat) (l : list (N * nat)) : nat :=
  length (filter (fun q => (fst q =? fst p) && Nat.eqb (snd q) (snd p)) l).

Lemma cnt_app p a b : cnt p (a ++ b) = (cnt p a + cnt p b)%nat.
Proof. unfold cnt. rewrite filter_app, app_length. reflexivity. Qed.

Lemma cnt_cons p q l : cnt p (q :: l) = ((if ((fst q =? fst p)%N && Nat.eqb (snd q) (snd p))%bool then 1 else 0) + cnt p l)%nat.
Proof. unfold cnt. cbn [filter]. destruct ((fst q =? fst p) && Nat.eqb (snd q) (snd p)); reflexivity. Qed.

Lemma selected_in_other_block d h b b' i xs : forall i0, b' <> b -> cnt (b', i) (selected_in d h b i0 xs) = 0%nat.
Proof.
  induction xs as [|x t IH]; intros i0 Hb; [reflexivity|]. cbn [selected_in].
  destruct (select d h x); try apply IH; try assumption.
  rewrite cnt_cons. cbn [fst snd]. assert ((b =? b') = false) as -> by lia. cbn [andb]. rewrite IH by assumption. reflexivity.
Qed.

Lemma selected_in_cnt d h b i xs : forall i0,
  cnt (b, i) (selected_in d h b i0 xs) =
    if (i0 <=? i)%nat then
      match nth_error xs (i - i0) with
      | Some x => if is_credit (select d h x) then 1%nat else 0%nat
      | None => 0%nat
      end
    else 0%nat.
Proof.
  induction xs as [|x t IH]; intros i0.
  - cbn [selected_in]. destruct (i0 <=? i)%nat; [|reflexivity]. destruct (i - i0)%nat; reflexivity.
  - cbn [selected_in].
    assert (Hrest : cnt (b, i) (selected_in d h b (S i0) t) =
                    if (i0 <? i)%nat then match nth_error t (i - S i0) with
                                          | Some x0 => if is_credit (select d h x0) then 1%nat else 0%nat
                                          | None => 0%nat end else 0%nat).
    { rewrite IH. destruct (S i0 <=? i)%nat eqn:E1; destruct (i0 <? i)%nat eqn:E2; try reflexivity; lia. }
    destruct (i0 <=? i)%nat eqn:Hle.
    + destruct (Nat.eqb i0 i) eqn:Heq.
      * apply Nat.eqb_eq in Heq; subst i0. rewrite Nat.sub_diag. cbn [nth_error].
        assert ((i <? i)%nat = false) as Hf by lia. rewrite Hf in Hrest.
        destruct (select d h x) eqn:Sx; cbn [is_credit]; try exact Hrest.
        rewrite cnt_cons. cbn [fst snd]. rewrite N.eqb_refl, Nat.eqb_refl. cbn [andb]. rewrite Hrest. reflexivity.
      * assert (Hlt : (i0 <? i)%nat = true) by lia. rewrite Hlt in Hrest.
        assert (Hs : (i - i0 = S (i - S i0))%nat) by lia. rewrite Hs. cbn [nth_error].
        destruct (select d h x) eqn:Sx; try exact Hrest.
        rewrite cnt_cons. cbn [fst snd]. rewrite Heq, andb_false_r. cbn. exact Hrest.
    + assert (Hlt : (i0 <? i)%nat = false) by lia. rewrite Hlt in Hrest.
      destruct (select d h x) eqn:Sx; try exact Hrest.
      rewrite cnt_cons. cbn [fst snd]. assert (Nat.eqb i0 i = false) as -> by lia.
      rewrite andb_false_r. cbn. exact Hrest.
Qed.

Lemma nodupb_spec l : nodupb l = true -> NoDup l.
Proof.
  induction l as [|x t IH]; cbn [nodupb]; intros H; [constructor|].
  apply andb_prop in H as [H1 H2]. constructor; [|auto].
  intros Hin. apply negb_true_iff in H1.
  assert (existsb (N.eqb x) t = true) as C; [|congruence].
  apply existsb_exists. exists x. split; [exact Hin|apply N.eqb_refl].
Qed.

Definition hit (h b d' d : N) : bool := (d <? h) && (h - d =? b) && (d' =? d).

Lemma selected_at_cnt ds ch h b xs i x :
  ch b = Some xs -> nth_error xs i = Some x ->
  cnt (b, i) (selected_at ds ch h) =
    match credit_depth x with
    | Some d' => length (filter (hit h b d') ds)
    | None => 0%nat
    end.
Proof.
  intros Hb Hx. unfold selected_at. induction ds as [|d t IH].
  - cbn. destruct (credit_depth x); reflexivity.
  - cbn [flat_map]. rewrite cnt_app, IH. clear IH.
    assert (Hd : cnt (b, i) (if h <=? d then [] else match ch (h - d) with
                                                      | Some xs0 => selected_in d h (h - d) 0 xs0
                                                      | None => [] end) =
                 match credit_depth x with Some d' => if hit h b d' d then 1%nat else 0%nat | None => 0%nat end).
    { unfold hit. destruct (h <=? d) eqn:Hle.
      - assert ((d <? h) = false) as -> by lia. cbn. destruct (credit_depth x); reflexivity.
      - assert ((d <? h) = true) as -> by lia. cbn [andb].
        destruct (h - d =? b) eqn:Hb'.
        + apply N.eqb_eq in Hb'. rewrite Hb', Hb. rewrite selected_in_cnt. cbn [Nat.leb].
          rewrite Nat.sub_0_r, Hx, select_credit. cbn [andb]. destruct (credit_depth x) as [d'|]; [|reflexivity].
          destruct (d' =? d); reflexivity.
        + cbn [andb]. assert (b <> h - d) by lia.
          destruct (ch (h - d)); [rewrite selected_in_other_block by assumption|]; destruct (credit_depth x); reflexivity. }
    rewrite Hd. destruct (credit_depth x) as [d'|]; [|reflexivity].
    cbn [filter]. destruct (hit h b d' d); reflexivity.
Qed.

Lemma hit_filter_nodup ds h b d' : NoDup ds ->
  length (filter (hit h b d') ds) = if (h =? b + d') && (1 <=? b) && existsb (N.eqb d') ds then 1%nat else 0%nat.
Proof.
  induction 1 as [|d t Hnin Hnd IH]; [cbn; rewrite andb_false_r; reflexivity|].
  cbn [filter existsb]. unfold hit at 1.
  destruct (d' =? d) eqn:Ed.
  - apply N.eqb_eq in Ed; subst d.
    assert (Ht : existsb (N.eqb d') t = false).
    { destruct (existsb (N.eqb d') t) eqn:X; [|reflexivity]. apply existsb_exists in X as (y & Hy & Ey).
      apply N.eqb_eq in Ey; subst y. contradiction. }
    rewrite Ht, andb_false_r in IH. cbn [orb]. rewrite andb_true_r.
    destruct ((d' <? h) && (h - d' =? b)) eqn:C.
    + cbn [andb length]. rewrite IH. assert ((h =? b + d') && (1 <=? b) = true) as -> by lia. reflexivity.
    + cbn [andb]. rewrite IH. assert ((h =? b + d') && (1 <=? b) = false) as -> by lia. reflexivity.
  - rewrite andb_false_r. cbn [orb]. exact IH.
Qed.

Lemma redeem_once_lemma ds ch h b xs i x d' :
  nodupb ds = true -> ch b = Some xs -> nth_error xs i = Some x -> credit_depth x = Some d' -> In d' ds ->
  cnt (b, i) (selected_at ds ch h) = if (h =? b + d') && (1 <=? b) then 1%nat else 0%nat.
Proof.
  intros Hn Hb Hx Hc Hin. rewrite (selected_at_cnt ds ch h b xs i x Hb Hx), Hc.
  rewrite hit_filter_nodup by (apply nodupb_spec; exact Hn).
  assert (existsb (N.eqb d') ds = true) as ->.
  { apply existsb_exists. exists d'. split; [exact Hin|apply N.eqb_refl]. }
  rewrite andb_true_r. reflexivity.
Qed.

Lemma redeem_never_lemma ds ch h b xs i x :
  ch b = Some xs -> nth_error xs i = Some x -> credit_depth x = None -> cnt (b, i) (selected_at ds ch h) = 0%nat.
Proof. intros Hb Hx Hc. rewrite (selected_at_cnt ds ch h b xs i x Hb Hx), Hc. reflexivity. Qed.

(* stateful pass = the candidates in scan order, then the account-creation-fee rule *)
Fixpoint candidates (d h : N) (xs : list retx) : list (addr * Z) :=
  match xs with
  | [] => []
  | x :: t => match select d h x with SCredit a v => (a, v) :: candidates d h t | _ => candidates d h t end
  end.

Fixpoint apply_credits (fee : Z) (cs : list (addr * Z)) (cr : list (addr * Z)) (st : accts) : list (addr * Z) * accts :=
  match cs with
  | [] => (cr, st)
  | (a, v) :: t =>
      match get a st with
      | Some b => apply_credits fee t (cr ++ [(a, v)]) (put a (b + v)%Z st)
      | None => if (fee <=? v)%Z then apply_credits fee t (cr ++ [(a, (v - fee)%Z)]) (put a (v - fee)%Z st)
                else apply_credits fee t cr st
      end
  end.

Definition no_fault (d h : N) (x : retx) : Prop := select d h x <> SError /\ select d h x <> SPanic.

Lemma scan_as_candidates d h fee xs : forall cr st, Forall (no_fault d h) xs ->
  scan d h fee xs cr st = let '(cr', st') := apply_credits fee (candidates d h xs) cr st in RedOk cr' st'.
Proof.
  induction xs as [|x t IH]; intros cr st F; [reflexivity|].
  inversion F as [|? ? [F1 F2] Ft]; subst. cbn [scan candidates].
  destruct (select d h x) as [a v| | |] eqn:Sx; try congruence; cbn [apply_credits].
  - destruct (get a st); [apply IH; exact Ft|]. destruct (fee <=? v)%Z; apply IH; exact Ft.
  - apply IH; exact Ft.
Qed.

Definition atotal (st : accts) : Z := fold_right (fun kv acc => (snd kv + acc)%Z) 0%Z st.
Definition csum (cr : list (addr * Z)) : Z := fold_right (fun kv acc => (snd kv + acc)%Z) 0%Z cr.

Lemma atotal_cons k v (st : accts) : atotal ((k, v) :: st) = (v + atotal st)%Z.
Proof. reflexivity. Qed.

Lemma atotal_put a v (st : accts) :
  atotal (put a v st) = (atotal st - match get a st with Some b => b | None => 0 end + v)%Z.
Proof.
  induction st as [|[k' v'] st IH]; [cbn; lia|].
  cbn [put get]. destruct (kcmp a k') eqn:Ek; rewrite !atotal_cons; try rewrite IH; cbn; lia.
Qed.

Lemma csum_cons x (a : list (addr * Z)) : csum (x :: a) = (snd x + csum a)%Z.
Proof. reflexivity. Qed.

Lemma csum_app a b : csum (a ++ b) = (csum a + csum b)%Z.
Proof.
  induction a as [|x a IH]; [reflexivity|].
  rewrite <- app_comm_cons, !csum_cons, IH. lia.
Qed.

Lemma csum_one a v : csum [(a, v)] = v.
Proof. unfold csum. cbn. lia. Qed.

Lemma scan_conserves d h fee xs : forall cr st cr' st',
  scan d h fee xs cr st = RedOk cr' st' -> (atotal st' - csum cr' = atotal st - csum cr)%Z.
Proof.
  induction xs as [|x t IH]; intros cr st cr' st' H; cbn [scan] in H.
  - inversion H; subst; lia.
  - destruct (select d h x) as [a v| | |]; try discriminate.
    + destruct (get a st) as [b|] eqn:G.
      * apply IH in H. rewrite atotal_put, G, csum_app, csum_one in H. lia.
      * destruct (fee <=? v)%Z.
        -- apply IH in H. rewrite atotal_put, G, csum_app, csum_one in H. lia.
        -- apply IH in H. exact H.
    + apply IH in H. exact H.
Qed.

Lemma redeem_depths_conserves ds ch h fee : forall cr st cr' st',
  redeem_depths ds ch h fee cr st = RedOk cr' st' -> (atotal st' - csum cr' = atotal st - csum cr)%Z.
Proof.
  induction ds as [|d t IH]; intros cr st cr' st' H; cbn [redeem_depths] in H.
  - inversion H; subst; lia.
  - destruct (h <=? d); [apply IH in H; exact H|].
    destruct (block_at ch (h - d)) as [xs|]; [|discriminate].
    destruct (scan d h fee xs cr st) as [cr1 st1| |] eqn:Sc; try discriminate.
    apply scan_conserves in Sc. apply IH in H. lia.
Qed.

Lemma redeem_conserves_lemma ch h fee st cr st' :
  redeem ch h fee st = RedOk cr st' -> (atotal st' = atotal st + csum cr)%Z.
Proof. unfold redeem. intros H. apply redeem_depths_conserves in H. change (csum []) with 0%Z in H. lia. Qed.

(* ------------------------------------------------------------------ lockup value *)

Lemma nth_in_tl {A} (l : list A) n d : (1 <= n < length l)%nat -> In (nth n l d) (tl l).
Proof.
  destruct l as [|x l]; cbn [length tl]; [lia|]. destruct n as [|n]; [lia|]. intros H. cbn [nth].
  apply nth_In. lia.
Qed.

Definition mult_of (lb : N) : N * N := nth (N.to_nat lb) multiples (0, 0).

Lemma rewards_multiple_bounds lb h : multiples_ok = true -> 1 <= lb -> lb <= max_lockup_byte ->
  (Z.of_N (snd (mult_of lb)) <= rewards_multiple lb h
   <= Z.of_N (fst (mult_of lb)))%Z /\
  (100000 <= Z.of_N (snd (mult_of lb)))%Z.
Proof.
  unfold multiples_ok. intros P H1 H2.
  apply andb_prop in P as [P Py]. apply andb_prop in P as [Pl Pf].
  rewrite forallb_forall in Pf.
  assert (Hin : In (mult_of lb) (tl multiples)) by (unfold mult_of; apply nth_in_tl; lia).
  specialize (Pf _ Hin). unfold rewards_multiple. fold (mult_of lb).
  destruct (mult_of lb) as [m0 m1]. cbn [fst snd] in *.
  split; [|lia].
  destruct (h / BPY =? 0) eqn:Y0; [lia|].
  destruct (4 <? h / BPY) eqn:Y4; [lia|].
  assert (HB : 0 < BPY) by (unfold BPY; lia).
  assert (Hlo : BPY <= h).
  { destruct (N.lt_ge_cases h BPY) as [Hlt|]; [|assumption]. rewrite (N.div_small h BPY Hlt) in Y0. discriminate. }
  assert (Hhi : h < 5 * BPY).
  { destruct (N.lt_ge_cases h (5 * BPY)) as [|Hge]; [assumption|].
    assert (5 <= h / BPY) by (apply N.div_le_lower_bound; lia). lia. }
  set (c := Z.of_N m0). set (a := (Z.of_N m1 - Z.of_N m0)%Z). set (b := Z.of_N (4 * BPY)).
  set (x := (Z.of_N h - Z.of_N BPY)%Z).
  assert (Hb : (0 < b)%Z) by (unfold b; lia).
  assert (Hx : (0 <= x < b)%Z) by (unfold x, b; lia).
  assert (Ha : (a <= 0)%Z) by (unfold a; lia).
  assert (Hnum : (b * Z.of_N m1 <= a * x + b * c <= b * c)%Z) by (unfold a, c in *; nia).
  rewrite Z.quot_div_nonneg by nia.
  split.
  - apply Z.div_le_lower_bound; lia.
  - apply Z.div_le_upper_bound; lia.
Qed.

Lemma lockup_value_bounds_lemma v lb h : multiples_ok = true -> (0 <= v)%Z -> lb <= max_lockup_byte ->
  (v <= lockup_value v lb h)%Z /\
  (lockup_value v lb h <= Z.max v (v * Z.of_N (fst (mult_of lb)) / 100000))%Z /\
  (lb = 0 -> lockup_value v lb h = v).
Proof.
  intros P Hv Hl. unfold lockup_value.
  destruct (lb =? 0) eqn:L0; cbn [orb]; [repeat split; lia|].
  destruct (h <? 2 * blocks_per_month); [repeat split; lia|].
  destruct (rewards_multiple_bounds lb h P ltac:(lia) Hl) as [[Hm1 Hm0] H1].
  repeat split; [| |lia].
  - apply Z.div_le_lower_bound; nia.
  - apply Z.le_trans with (v * Z.of_N (fst (mult_of lb)) / 100000)%Z; [|lia].
    apply Z.div_le_mono; nia.
Qed.

(* ------------------------------------------------------------------ reward split (pre-fork) *)

Lemma div_add_le a b T : (0 < T)%Z -> (a / T + b / T <= (a + b) / T)%Z.
Proof.
  intros HT. apply Z.div_le_lower_bound; [exact HT|].
  pose proof (Z.mul_div_le a T HT). pose proof (Z.mul_div_le b T HT). lia.
Qed.

Lemma zsum_cons x l : zsum (x :: l) = (x + zsum l)%Z.
Proof. reflexivity. Qed.

Lemma floor_shares_le R T es : (0 < T)%Z -> (0 <= R)%Z -> Forall (fun e => (0 <= e)%Z) es ->
  (zsum (map (fun e => R * e / T)%Z es) <= R * zsum es / T)%Z /\ (0 <= zsum es)%Z.
Proof.
  intros HT HR F. induction F as [|e t He Ft IH].
  - cbn [map]. change (zsum []) with 0%Z. rewrite Z.mul_0_r, Z.div_0_l by lia. lia.
  - cbn [map]. rewrite !zsum_cons. destruct IH as [IH1 IH2]. split; [|lia].
    pose proof (div_add_le (R * e) (R * zsum t) T HT). replace (R * (e + zsum t))%Z with (R * e + R * zsum t)%Z by lia. lia.
Qed.

Lemma share_split_bounded_lemma R es : (0 <= R)%Z -> Forall (fun e => (0 <= e)%Z) es -> (0 < zsum es)%Z ->
  (zsum (split_prefork R es) <= R + Z.of_nat (length es))%Z.
Proof.
  intros HR F HT. unfold split_prefork. set (T := zsum es) in *.
  assert (H1 : forall l, Forall (fun e => (0 <= e)%Z) l ->
               (zsum (map (share_reward R T) l) <= zsum (map (fun e => R * e / T)%Z l) + Z.of_nat (length l))%Z).
  { induction 1 as [|e t He Ft IH]; [cbn; lia|]. cbn [map length]. rewrite !zsum_cons.
    unfold share_reward at 1. cbn zeta.
    assert (0 <= R * e / T)%Z by (apply Z.div_pos; nia).
    destruct (R * e / T =? 0)%Z eqn:Z0; lia. }
  specialize (H1 es F). destruct (floor_shares_le R T es HT HR F) as [H2 _].
  fold T in H2. rewrite Z.div_mul in H2 by lia. lia.
Qed.

Lemma share_split_strict_refuted : exists R es, (0 <= R)%Z /\ Forall (fun e => (0 <= e)%Z) es /\ (0 < zsum es)%Z /\
  (R < zsum (split_prefork R es))%Z.
Proof. exists 0%Z, [5%Z]. repeat split; try (vm_compute; congruence). repeat constructor. vm_compute. discriminate. Qed.

(* ------------------------------------------------------------------ redeem = fee rule over the selected ETXs *)

Definition credited (d h : N) (x : retx) : bool := is_credit (select d h x).
Definition payload (h : N) (x : retx) : addr * Z := (e_to x, credit_amount x h).

Lemma candidates_filter d h xs : candidates d h xs = map (payload h) (filter (credited d h) xs).
Proof.
  induction xs as [|x t IH]; [reflexivity|]. cbn [candidates filter]. unfold credited at 1.
  destruct (select d h x) as [a v| | |] eqn:Sx; cbn [is_credit map]; try exact IH.
  apply select_credit_payload in Sx as [-> ->]. unfold payload at 1. rewrite IH. reflexivity.
Qed.

Definition all_selected (ds : list N) (ch : chain) (h : N) : list (addr * Z) :=
  flat_map (fun d => if h <=? d then [] else
                     match block_at ch (h - d) with
                     | Some xs => map (payload h) (filter (credited d h) xs)
                     | None => []
                     end) ds.

Definition depth_ok (ch : chain) (h d : N) : Prop :=
  h <= d \/ exists xs, block_at ch (h - d) = Some xs /\ Forall (no_fault d h) xs.

Lemma apply_credits_app fee a : forall b cr st,
  apply_credits fee (a ++ b) cr st =
    let '(cr1, st1) := apply_credits fee a cr st in apply_credits fee b cr1 st1.
Proof.
  induction a as [|[x v] a IH]; intros b cr st; [reflexivity|]. cbn [app apply_credits].
  destruct (get x st); [apply IH|]. destruct (fee <=? v)%Z; apply IH.
Qed.

Lemma redeem_depths_as_selected ds ch h fee : forall cr st, Forall (depth_ok ch h) ds ->
  redeem_depths ds ch h fee cr st =
    let '(cr', st') := apply_credits fee (all_selected ds ch h) cr st in RedOk cr' st'.
Proof.
  induction ds as [|d t IH]; intros cr st F; [reflexivity|].
  inversion F as [|? ? Fd Ft]; subst. cbn [redeem_depths all_selected flat_map].
  fold (all_selected t ch h).
  destruct (h <=? d) eqn:Hle.
  - cbn [app]. apply IH; exact Ft.
  - destruct Fd as [Fd|(xs & Hb & Fx)]; [lia|]. rewrite Hb.
    rewrite (scan_as_candidates d h fee xs cr st Fx), candidates_filter, apply_credits_app.
    destruct (apply_credits fee (map (payload h) (filter (credited d h) xs)) cr st) as [cr1 st1].
    apply IH; exact Ft.
Qed.

Lemma plain_coinbase_depth_lemma x d : e_kind x = KCoinbase -> is_quai (e_to x) = true ->
  internal (e_to x) = true -> e_dlen x = plain_len -> depth_of (e_lock x) = Some d ->
  credit_depth x = Some d /\ In d depths.
Proof.
  intros K Q I Dl Dp. unfold credit_depth. rewrite K, Q, I, Dl, N.eqb_refl. cbn [andb].
  split; [exact Dp|]. unfold depth_of in Dp. eapply nth_error_In; eauto.
Qed.

Lemma conversion_depth_lemma x : conversion_depth_once = true -> e_kind x = KConversion -> is_quai (e_to x) = true ->
  internal (e_to x) = true -> credit_depth x = Some conversion_lock_period /\ In conversion_lock_period depths.
Proof.
  intros P K Q I. unfold credit_depth. rewrite K, Q, I. cbn [andb]. split; [reflexivity|].
  unfold conversion_depth_once in P.
  destruct (filter (N.eqb conversion_lock_period) depths) as [|y t] eqn:F; [discriminate|].
  assert (Hin : In y (filter (N.eqb conversion_lock_period) depths)) by (rewrite F; left; reflexivity).
  apply filter_In in Hin as [Hin Hy]. apply N.eqb_eq in Hy. subst y. exact Hin.
Qed.

(* C04 (c): the destination filters select an ETX for its destination and for nothing else. *)
From Coq Require Import List NArith Lia ZifyBool ZifyNat ZifyN Bool.
From GQ Require Import Lib.Key Lib.SMap Lib.C04_BigEndian Lib.C04_Expr Model.C04 Proofs.C04_Queue.
Import ListNotations.
Local Open Scope N_scope.

Definition count {A : Type} (f : A -> bool) (l : list A) : nat := length (filter f l).

Definition standard_ty (ty : N) : bool := negb (ty =? ETX_COINBASE) && negb (ty =? ETX_CONVERSION).

Lemma keqb_pair a b c d : keqb [a; b] [c; d] = (a =? c) && (b =? d).
Proof.
  destruct (N.eqb_spec a c) as [->|Hac]; destruct (N.eqb_spec b d) as [->|Hbd]; cbn [andb].
  - apply keqb_refl.
  - apply keqb_neq. congruence.
  - apply keqb_neq. congruence.
  - apply keqb_neq. congruence.
Qed.

Lemma keqb_pair_len p (l : list N) : keqb (loc_of_prefix p) l = true <-> l = [p / 16; p mod 16].
Proof. unfold loc_of_prefix. rewrite keqb_eq. split; congruence. Qed.

(* prime: the test looks only at the region nibble *)
Lemma filter_prime_spec r rest order p ty :
  filter_to_sub (r :: rest) PRIME_CTX order (p, ty) = (p / 16 =? r).
Proof. reflexivity. Qed.

Lemma filter_prime_no_region order tx : filter_to_sub [] PRIME_CTX order tx = false.
Proof. destruct tx. reflexivity. Qed.

(* region: the whole location must match; coinbase and conversion ETXs only pass when the
   block is coincident with prime *)
Lemma filter_region_spec slice order p ty :
  filter_to_sub slice REGION_CTX order (p, ty) =
  keqb (loc_of_prefix p) slice && ((order =? PRIME_CTX) || standard_ty ty).
Proof.
  unfold filter_to_sub, standard_ty. change (REGION_CTX =? PRIME_CTX) with false.
  change (REGION_CTX =? REGION_CTX) with true. cbv iota.
  destruct (order =? PRIME_CTX); cbn [orb]; [rewrite andb_true_r|]; reflexivity.
Qed.

Lemma filter_zone_nothing slice ctx order tx :
  ctx <> PRIME_CTX -> ctx <> REGION_CTX -> filter_to_sub slice ctx order tx = false.
Proof.
  intros H0 H1. destruct tx as [p ty]. unfold filter_to_sub.
  destruct (N.eqb_spec ctx PRIME_CTX); [contradiction|].
  destruct (N.eqb_spec ctx REGION_CTX); [contradiction|]. reflexivity.
Qed.

(* selected => it is the destination (never delivered elsewhere) *)
Lemma filter_region_sound slice order p ty :
  filter_to_sub slice REGION_CTX order (p, ty) = true -> slice = loc_of_prefix p.
Proof.
  rewrite filter_region_spec. intros H. apply andb_prop in H as [H _].
  apply keqb_eq in H. congruence.
Qed.

Lemma filter_prime_sound slice order p ty :
  filter_to_sub slice PRIME_CTX order (p, ty) = true -> nth_error slice 0 = Some (p / 16).
Proof.
  destruct slice as [|r rest]; [rewrite filter_prime_no_region; discriminate|].
  rewrite filter_prime_spec. intros H. apply N.eqb_eq in H. subst. reflexivity.
Qed.

Lemma route_to_destination_only p ty r z :
  filter_to_sub [r; z] PRIME_CTX PRIME_CTX (p, ty) && filter_to_sub [r; z] REGION_CTX PRIME_CTX (p, ty) = true
  <-> (r = p / 16 /\ z = p mod 16).
Proof.
  rewrite filter_prime_spec, filter_region_spec. unfold loc_of_prefix. rewrite keqb_pair.
  cbn [N.eqb PRIME_CTX orb]. rewrite andb_true_r. split.
  - intros H. apply andb_prop in H as [_ H]. apply andb_prop in H as [H1 H2].
    apply N.eqb_eq in H1, H2. auto.
  - intros [-> ->]. rewrite !N.eqb_refl. reflexivity.
Qed.

(* counting *)
Lemma count_eq_nseq x len : forall s,
  count (fun r => x =? r) (nseq s len) = if (s <=? x) && (x <? s + N.of_nat len) then 1%nat else 0%nat.
Proof.
  unfold count. induction len as [|len IH]; intros s.
  - cbn. destruct ((s <=? x) && (x <? s + 0)) eqn:E; [lia|reflexivity].
  - cbn [nseq filter]. specialize (IH (s + 1)).
    destruct (N.eqb_spec x s) as [->|Hx].
    + cbn [length]. rewrite IH.
      destruct ((s + 1 <=? s) && (s <? s + 1 + N.of_nat len)) eqn:E1; [lia|].
      destruct ((s <=? s) && (s <? s + N.of_nat (S len))) eqn:E2; [reflexivity|lia].
    + rewrite IH.
      destruct ((s + 1 <=? x) && (x <? s + 1 + N.of_nat len)) eqn:E1;
        destruct ((s <=? x) && (x <? s + N.of_nat (S len))) eqn:E2; try reflexivity; lia.
Qed.

Lemma count_ext (A : Type) (f g : A -> bool) l : (forall a, f a = g a) -> count f l = count g l.
Proof.
  intros H. unfold count. induction l as [|a l IH]; cbn; [reflexivity|].
  rewrite H. destruct (g a); cbn; rewrite IH; reflexivity.
Qed.

Lemma count_false (A : Type) (l : list A) : count (fun _ => false) l = 0%nat.
Proof. unfold count. induction l; cbn; auto. Qed.

(* prime level: among the W regions exactly the destination's region selects the ETX,
   none if the address names a region outside the hierarchy *)
Lemma prime_partition W order p ty z :
  count (fun r => filter_to_sub [r; z] PRIME_CTX order (p, ty)) (nseq 0 W) =
  if p / 16 <? N.of_nat W then 1%nat else 0%nat.
Proof.
  rewrite (count_ext _ _ (fun r => p / 16 =? r)) by (intros r; apply filter_prime_spec).
  rewrite count_eq_nseq. rewrite N.add_0_l.
  destruct (p / 16 <? N.of_nat W); destruct (0 <=? p / 16) eqn:E; try reflexivity; lia.
Qed.

(* region level: among the Z zones of region r exactly the destination zone selects it *)
Lemma region_partition r Z order p ty :
  count (fun z => filter_to_sub [r; z] REGION_CTX order (p, ty)) (nseq 0 Z) =
  if (p / 16 =? r) && (p mod 16 <? N.of_nat Z) && ((order =? PRIME_CTX) || standard_ty ty)
  then 1%nat else 0%nat.
Proof.
  destruct ((p / 16 =? r) && ((order =? PRIME_CTX) || standard_ty ty)) eqn:G.
  - rewrite (count_ext _ _ (fun z => p mod 16 =? z)).
    + rewrite count_eq_nseq, N.add_0_l. apply andb_prop in G as [G1 G2]. rewrite G1, G2.
      rewrite andb_true_r. cbn [andb].
      destruct (p mod 16 <? N.of_nat Z); destruct (0 <=? p mod 16) eqn:E; try reflexivity; lia.
    + intros z. rewrite filter_region_spec. unfold loc_of_prefix. rewrite keqb_pair.
      apply andb_prop in G as [G1 G2]. rewrite G1, G2. rewrite andb_true_r. reflexivity.
  - rewrite (count_ext _ _ (fun _ => false)).
    + rewrite count_false.
      destruct (p / 16 =? r); destruct ((order =? PRIME_CTX) || standard_ty ty);
        cbn in G; try discriminate; rewrite ?andb_false_r; reflexivity.
    + intros z. rewrite filter_region_spec. unfold loc_of_prefix. rewrite keqb_pair.
      destruct (p / 16 =? r); destruct ((order =? PRIME_CTX) || standard_ty ty);
        cbn in G; try discriminate; rewrite ?andb_false_r; reflexivity.
Qed.

Lemma filter_to_location_spec l p ty : filter_to_location l (p, ty) = true <-> l = loc_of_prefix p.
Proof. unfold filter_to_location. cbn [fst]. apply keqb_eq. Qed.

(* the location of an address byte: both nibbles below 16, and the byte is recovered from it *)
Lemma loc_of_prefix_bounds p : p < 256 -> p / 16 < 16 /\ p mod 16 < 16.
Proof.
  intros H. split; [apply N.div_lt_upper_bound; lia|apply N.mod_lt; lia].
Qed.

Lemma loc_of_prefix_inj p q : loc_of_prefix p = loc_of_prefix q -> p = q.
Proof.
  unfold loc_of_prefix. intros H. inversion H as [[H1 H2]].
  rewrite (N.div_mod p 16), (N.div_mod q 16) by lia. rewrite H1, H2. reflexivity.
Qed.

(* C18 -- the statements exported to Props/C18.v, assembled from the C18_* lemma files. *)
From Coq Require Import List NArith Bool Arith Lia.
From GQ Require Import Lib.Key Model.C18 Proofs.C18_Base Proofs.C18_Ext Proofs.C18_Insert
  Proofs.C18_Delete Proofs.C18_History Proofs.C18_Merkle Proofs.C18_Derive.
Import ListNotations.

(* ---- (1)/(2) insert and delete on HEX keys ---- *)
Lemma insert_spec t key v :
  wf t = true -> okdom t -> pf t key -> tk key -> v <> [] ->
  exists t', insert t key (Val v) = Some t' /\ wf t' = true /\
    forall q, lookup t' q = if keqb q key then Some v else lookup t q.
Proof.
  intros Hw Ho Hp Hk Hv. apply wf_wfo in Hw.
  destruct (insert_correct v Hv t key Hw Ho Hp Hk) as (t' & Hi & Hw' & Hl & _).
  exists t'. split; [exact Hi|]. split; [apply wf_wfo; right; exact Hw'|exact Hl].
Qed.

Lemma delete_spec t key :
  wf t = true -> okdom t -> pf t key -> tk key ->
  exists d t', delete t key = Some (d, t') /\ wf t' = true /\
    (forall q, lookup t' q = if keqb q key then None else lookup t q) /\
    (d = false -> t' = t).
Proof.
  intros Hw Ho Hp Hk. apply wf_wfo in Hw.
  destruct (delete_correct t key Hw Ho Hp Hk) as (d & t' & Hd & Hw' & Hl & Hnd & _).
  exists d, t'. split; [exact Hd|]. split; [apply wf_wfo; exact Hw'|]. split; [exact Hl|exact Hnd].
Qed.

(* ---- API level ---- *)
Lemma update_spec t k v : Inv t -> wf_bytes k ->
  exists t', update t k v = Some t' /\ Inv t' /\ forall k', get t' k' = if keqb k' k then v else get t k'.
Proof.
  intros Hi Hk. destruct (update_correct t k v Hi Hk) as (t' & Hu & Hi' & _).
  exists t'. split; [exact Hu|]. split; [exact Hi'|]. apply (update_get t k v t' Hi Hk Hu).
Qed.

Lemma history_spec h : wf_hist h ->
  exists t, run Nil h = Some t /\ Inv t /\ forall k, get t k = apply_hist (fun _ => []) h k.
Proof.
  intros Hh. destruct (run_correct h Nil Inv_nil Hh) as (t & Hr & Hi & Hg).
  exists t. split; [exact Hr|]. split; [exact Hi|]. intros k. rewrite Hg.
  apply apply_hist_ext. reflexivity.
Qed.

Lemma inv_facts t : Inv t ->
  wf t = true /\ (forall q v, lookup t q = Some v -> v <> [] /\ exists k, wf_bytes k /\ q = hex k).
Proof.
  intros [Hw Hd]. split; [exact Hw|]. intros q v Hq. split.
  - apply (wfn_values t (proj1 (wf_wfo t) Hw) q v Hq).
  - apply Hd. congruence.
Qed.

(* ---- (3) history independence ---- *)
Lemma history_independent_any_root h1 h2 : wf_hist h1 -> wf_hist h2 ->
  (forall k, wf_bytes k -> apply_hist (fun _ => []) h1 k = apply_hist (fun _ => []) h2 k) ->
  exists t1 t2, run Nil h1 = Some t1 /\ run Nil h2 = Some t2 /\ t1 = t2 /\
    forall (A : Type) (root : node -> A), root t1 = root t2.
Proof.
  intros H1 H2 He. destruct (history_independent_lemma h1 h2 H1 H2 He) as (t & R1 & R2 & _).
  exists t, t. repeat split; auto.
Qed.

Lemma history_independent_merkle_root (H : pnode -> N) (small : pnode -> bool) h1 h2 :
  wf_hist h1 -> wf_hist h2 ->
  (forall k, wf_bytes k -> apply_hist (fun _ => []) h1 k = apply_hist (fun _ => []) h2 k) ->
  exists t1 t2, run Nil h1 = Some t1 /\ run Nil h2 = Some t2 /\
    root_hash H small t1 = root_hash H small t2.
Proof.
  intros H1 H2 He. destruct (history_independent_lemma h1 h2 H1 H2 He) as (t & R1 & R2 & _).
  exists t, t. repeat split; auto.
Qed.

(* ---- (4) Merkle proofs at the API level ---- *)
Lemma proof_sound_lemma (H : pnode -> N) (small : pnode -> bool) t k db fuel r :
  Inv t -> wf_bytes k ->
  verify H fuel (root_hash H small t) (hex k) db = Some r ->
  r = lookup t (hex k) \/ collision H.
Proof.
  intros Hi Hk Hv. apply (verify_sound_aux H small fuel t (hex k) db r (Inv_pf _ _ Hi Hk) Hv).
Qed.

Lemma proof_complete_lemma (H : pnode -> N) (small : pnode -> bool) t k fuel :
  Inv t -> t <> Nil -> wf_bytes k -> length (hex k) < fuel ->
  verify H fuel (root_hash H small t) (hex k) (prove H small t (hex k) true) = Some (lookup t (hex k))
  \/ collision H.
Proof.
  intros Hi Hn Hk Hf. pose proof Hi as [Hw _]. apply wf_wfo in Hw. destruct Hw as [|Hw]; [congruence|].
  apply verify_complete_aux; auto.
  - apply Inv_pf; auto.
  - apply hex_tk; auto.
  - apply hex_not_nil.
Qed.

Lemma proof_empty_trie_refuted (H : pnode -> N) (small : pnode -> bool) k fuel :
  prove H small Nil (hex k) true = [] /\
  verify H fuel (root_hash H small Nil) (hex k) (prove H small Nil (hex k) true) = None.
Proof.
  assert (E : prove H small Nil (hex k) true = []) by (destruct (hex k); reflexivity).
  split; [exact E|]. rewrite E. destruct fuel; reflexivity.
Qed.

(* ---- (5) DeriveSha order ---- *)
Lemma derive_order_once n : NoDup (derive_order n) /\ forall i, In i (derive_order n) <-> (i < n)%N.
Proof. split; [apply derive_order_nodup|apply derive_order_in]. Qed.

(* C12 — the three storage caches of a slot (dirtyStorage / pendingStorage / originStorage) over the
   transactions of a block refine a flat slot (visible value, committed value, trie value, journal),
   on which a failed frame is the identity; hence a failed frame in ANY transaction of a block leaves
   the visible value, the value later committed, the journal and the trie as they were at frame entry,
   whatever earlier transactions left in pendingStorage / originStorage.  Model: the l_ definitions of Model/C12.v. *)
From Coq Require Import List NArith ZArith Bool Lia.
From GQ Require Import Model.C12.
Import ListNotations.

(* what GetCommittedState / GetState return *)
Definition l_cv (s : lslot) : word :=
  match l_pending s with Some v => v | None => match l_origin s with Some o => o | None => l_trie s end end.
Definition l_vis (s : lslot) : word := match l_dirty s with Some d => d | None => l_cv s end.

Record fslot := mkF { f_v : word; f_c : word; f_t : word; f_jr : list word; f_p : bool }.
Definition alpha (s : lslot) : fslot := mkF (l_vis s) (l_cv s) (l_trie s) (l_jr s) (l_pobj s).

Definition f_set (w : word) (a : fslot) : fslot :=
  if N.eqb (f_v a) w then a else mkF w (f_c a) (f_t a) (f_v a :: f_jr a) (f_p a).
Fixpoint f_pop (k : nat) (a : fslot) : fslot :=
  match k with
  | O => a
  | S k' => match f_jr a with [] => a | p :: j => f_pop k' (mkF p (f_c a) (f_t a) j (f_p a)) end
  end.
Definition f_rewind (n : nat) (a : fslot) : fslot := f_pop (length (f_jr a) - n) a.
Fixpoint f_exec (f : lframe) (a : fslot) : fslot :=
  match f with
  | LSet w => f_set w a
  | LCall body fails =>
      let n := length (f_jr a) in
      let a1 := fold_left (fun x g => f_exec g x) body a in
      if fails then f_rewind n a1 else a1
  end.
Definition f_frames (fs : list lframe) (a : fslot) : fslot := fold_left (fun x g => f_exec g x) fs a.
Definition f_finalize (a : fslot) : fslot :=
  match f_jr a with [] => a | _ => mkF (f_v a) (f_v a) (f_t a) [] true end.
Definition f_root (a : fslot) : fslot :=
  let a1 := f_finalize a in if f_p a1 then mkF (f_v a1) (f_v a1) (f_v a1) [] false else a1.
Definition f_tx (a : fslot) (t : list lframe * bool) : fslot :=
  let a1 := f_frames (fst t) a in if snd t then f_root a1 else f_finalize a1.
Definition f_block (b : lblock) (a : fslot) : fslot := fold_left f_tx b a.

(* invariant of the caches *)
Definition LInv (s : lslot) : Prop :=
  (forall o, l_origin s = Some o -> o = l_trie s)
  /\ (l_pobj s = false -> l_pending s = None)
  /\ ((l_dirty s <> None \/ l_pending s <> None) -> l_origin s <> None)
  /\ (l_jr s <> [] -> l_dirty s <> None)
  /\ last (l_jr s) (l_vis s) = l_cv s.

Lemma LInv_fresh b : LInv (l_fresh b).
Proof. repeat split; cbn; try congruence. intros [H|H]; congruence. Qed.

Fixpoint lframe_ind' (P : lframe -> Prop) (HSet : forall w, P (LSet w))
    (HCall : forall body fails, Forall P body -> P (LCall body fails)) (f : lframe) : P f :=
  match f with
  | LSet w => HSet w
  | LCall body fails =>
      HCall body fails ((fix go (l : list lframe) : Forall P l :=
                           match l with
                           | [] => Forall_nil P
                           | g :: l' => Forall_cons g (lframe_ind' P HSet HCall g) (go l')
                           end) body)
  end.

(* ---------- the flat slot ---------- *)

Lemma f_pop_nil k a : f_jr a = [] -> f_pop k a = a.
Proof. destruct k; cbn; [auto|]. intros ->. reflexivity. Qed.

Lemma f_pop_add k1 : forall k2 a, f_pop (k1 + k2) a = f_pop k2 (f_pop k1 a).
Proof.
  induction k1 as [|k1 IH]; intros k2 a; cbn [plus f_pop]; [reflexivity|].
  destruct (f_jr a) as [|p j] eqn:E; [symmetry; apply f_pop_nil; exact E|apply IH].
Qed.

(* extends-and-rewinds *)
Definition fext (a a' : fslot) : Prop :=
  exists es, f_jr a' = es ++ f_jr a /\ f_pop (length es) a' = a.

Lemma fext_refl a : fext a a.
Proof. exists []. split; reflexivity. Qed.

Lemma fext_trans a b c : fext a b -> fext b c -> fext a c.
Proof.
  intros (e1 & J1 & P1) (e2 & J2 & P2). exists (e2 ++ e1). split.
  - rewrite J2, J1, app_assoc. reflexivity.
  - rewrite app_length, f_pop_add, P2. exact P1.
Qed.

Lemma fext_set w a : fext a (f_set w a).
Proof.
  unfold f_set. destruct (N.eqb (f_v a) w); [apply fext_refl|].
  exists [f_v a]. split; [reflexivity|]. destruct a; reflexivity.
Qed.

Lemma fext_fold (l : list lframe) :
  Forall (fun f => forall a, fext a (f_exec f a)) l ->
  forall a, fext a (fold_left (fun x g => f_exec g x) l a).
Proof.
  induction 1 as [|g l Hg _ IH]; intros a; cbn [fold_left]; [apply fext_refl|].
  eapply fext_trans; [apply Hg|apply IH].
Qed.

Lemma fext_rewind a a' : fext a a' -> f_rewind (length (f_jr a)) a' = a.
Proof.
  intros (es & J & P). unfold f_rewind. rewrite J, app_length.
  replace (length es + length (f_jr a) - length (f_jr a)) with (length es) by lia. exact P.
Qed.

Lemma fext_exec f : forall a, fext a (f_exec f a).
Proof.
  induction f as [w|body fails IHb] using lframe_ind'; intros a; cbn [f_exec].
  - apply fext_set.
  - pose proof (fext_fold body IHb a) as E. destruct fails; [|exact E].
    rewrite (fext_rewind _ _ E). apply fext_refl.
Qed.

(* a failed frame is the identity on the flat slot *)
Lemma f_failed body a : f_exec (LCall body true) a = a.
Proof.
  cbn [f_exec]. apply fext_rewind. apply fext_fold. apply Forall_forall. intros f _. apply fext_exec.
Qed.

(* the block without its failed frames *)
Fixpoint erase (f : lframe) : list lframe :=
  match f with
  | LSet w => [LSet w]
  | LCall body fails => if fails then [] else [LCall (flat_map erase body) false]
  end.
Definition erase_block (b : lblock) : lblock := map (fun t => (flat_map erase (fst t), snd t)) b.

Lemma f_frames_app l1 l2 a : f_frames (l1 ++ l2) a = f_frames l2 (f_frames l1 a).
Proof. unfold f_frames. apply fold_left_app. Qed.

Lemma f_erase_fold (l : list lframe) :
  Forall (fun f => forall a, f_frames (erase f) a = f_exec f a) l ->
  forall a, f_frames (flat_map erase l) a = f_frames l a.
Proof.
  induction 1 as [|g l Hg _ IH]; intros a; cbn [flat_map]; [reflexivity|].
  rewrite f_frames_app, Hg, IH. reflexivity.
Qed.

Lemma f_erase f : forall a, f_frames (erase f) a = f_exec f a.
Proof.
  induction f as [w|body fails IHb] using lframe_ind'; intros a.
  - reflexivity.
  - destruct fails.
    + rewrite f_failed. reflexivity.
    + cbn [erase]. unfold f_frames at 1. cbn [fold_left f_exec].
      exact (f_erase_fold body IHb a).
Qed.

Lemma f_erase_block b : forall a, f_block (erase_block b) a = f_block b a.
Proof.
  induction b as [|t b IH]; intros a; [reflexivity|].
  unfold f_block in *. cbn [erase_block map fold_left]. unfold f_tx at 2 4. cbn [fst snd].
  rewrite (f_erase_fold (fst t)); [|apply Forall_forall; intros f _; apply f_erase].
  apply IH.
Qed.

(* ---------- the caches refine the flat slot ---------- *)

Lemma last_cons {A} (l : list A) : forall x d, last (x :: l) d = last l x.
Proof.
  induction l as [|y l IH]; intros x d; [reflexivity|].
  change (last (x :: y :: l) d) with (last (y :: l) d). rewrite (IH y d), (IH y x). reflexivity.
Qed.

Ltac lsimp := unfold l_vis, l_cv, alpha in *; cbn [l_dirty l_pending l_origin l_trie l_jr l_pobj f_v f_c f_t f_jr f_p] in *.

Lemma sim_get s : LInv s ->
  fst (l_get s) = l_vis s /\ alpha (snd (l_get s)) = alpha s /\ LInv (snd (l_get s)).
Proof.
  destruct s as [d p o t j pb]. unfold LInv. lsimp. intros (I2 & I3 & I4 & I5 & I1).
  destruct d as [d|]; [cbn; repeat split; auto|].
  destruct p as [p|]; [cbn; repeat split; auto|].
  destruct o as [o|]; [cbn; repeat split; auto|].
  cbn. repeat split; auto; try congruence.
Qed.

Lemma get_origin s : LInv s -> l_origin (snd (l_get s)) <> None.
Proof.
  destruct s as [d p o t j pb]. unfold LInv. lsimp. intros (I2 & I3 & I4 & I5 & I1).
  destruct d as [d|]; [cbn; apply I4; left; congruence|].
  destruct p as [p|]; [cbn; apply I4; right; congruence|].
  destruct o as [o|]; cbn; congruence.
Qed.

Lemma sim_set w s : LInv s -> alpha (l_set w s) = f_set w (alpha s) /\ LInv (l_set w s).
Proof.
  intros I. destruct (sim_get s I) as (V & A & I'). pose proof (get_origin s I) as O1.
  unfold l_set. rewrite V. unfold f_set. cbn [alpha f_v].
  destruct (N.eqb (l_vis s) w) eqn:E; [split; [exact A|exact I']|].
  remember (snd (l_get s)) as s1 eqn:Es1. clear Es1 V.
  destruct s1 as [d1 p1 o1 t1 j1 pb1]. destruct s as [d p o t j pb].
  unfold LInv in I'. unfold alpha in A. lsimp. injection A as Av Ac At Aj Ap.
  destruct I' as (I2 & I3 & I4 & I5 & I1).
  split.
  - unfold alpha. lsimp. rewrite Ac, At, Aj, Ap. reflexivity.
  - unfold LInv. lsimp. repeat split; auto; try congruence.
    rewrite last_cons, <- Av. exact I1.
Qed.

Lemma sim_pop k : forall s, LInv s -> alpha (l_pop true k s) = f_pop k (alpha s) /\ LInv (l_pop true k s).
Proof.
  induction k as [|k IH]; intros s I; cbn [l_pop f_pop]; [split; [reflexivity|exact I]|].
  cbn [alpha f_jr]. destruct (l_jr s) as [|p j] eqn:Ej; [split; [reflexivity|exact I]|].
  set (s' := l_undo true p _).
  assert (I' : LInv s').
  { subst s'. destruct s as [d pe o t jr pb]. cbn in Ej. subst jr.
    unfold LInv in I. lsimp. destruct I as (I2 & I3 & I4 & I5 & I1).
    unfold l_undo, LInv. lsimp. repeat split; auto; try congruence.
    - intros _. apply I4. left. apply I5. congruence.
    - rewrite <- I1. symmetry. apply last_cons. }
  destruct (IH s' I') as (A & I''). split; [|exact I''].
  rewrite A. f_equal.
Qed.

Lemma sim_rewind n s : LInv s -> alpha (l_rewind true n s) = f_rewind n (alpha s) /\ LInv (l_rewind true n s).
Proof. intros I. unfold l_rewind, f_rewind. cbn [alpha f_jr]. apply sim_pop. exact I. Qed.

Lemma sim_fold (l : list lframe) :
  Forall (fun f => forall s, LInv s -> alpha (l_exec true f s) = f_exec f (alpha s) /\ LInv (l_exec true f s)) l ->
  forall s, LInv s ->
    alpha (fold_left (fun x g => l_exec true g x) l s) = fold_left (fun x g => f_exec g x) l (alpha s)
    /\ LInv (fold_left (fun x g => l_exec true g x) l s).
Proof.
  induction 1 as [|g l Hg _ IH]; intros s I; cbn [fold_left]; [split; [reflexivity|exact I]|].
  destruct (Hg s I) as (A & I'). rewrite <- A. apply IH. exact I'.
Qed.

Lemma sim_exec f : forall s, LInv s -> alpha (l_exec true f s) = f_exec f (alpha s) /\ LInv (l_exec true f s).
Proof.
  induction f as [w|body fails IHb] using lframe_ind'; intros s I; cbn [l_exec f_exec].
  - apply sim_set. exact I.
  - destruct (sim_fold body IHb s I) as (A & I'). cbn [alpha f_jr].
    destruct fails; [|split; [exact A|exact I']].
    destruct (sim_rewind (length (l_jr s)) _ I') as (A2 & I2). split; [|exact I2].
    rewrite A2, A. reflexivity.
Qed.

Lemma sim_frames fs s : LInv s -> alpha (l_frames true fs s) = f_frames fs (alpha s) /\ LInv (l_frames true fs s).
Proof. intros I. apply sim_fold; [|exact I]. apply Forall_forall. intros f _. apply sim_exec. Qed.

Lemma sim_finalize s : LInv s -> alpha (l_finalize s) = f_finalize (alpha s) /\ LInv (l_finalize s).
Proof.
  destruct s as [d p o t j pb]. unfold LInv, l_finalize, f_finalize. lsimp. intros (I2 & I3 & I4 & I5 & I1).
  destruct j as [|x j]; [split; [reflexivity|repeat split; auto]|].
  unfold alpha, LInv. lsimp. split.
  - destruct d as [d|]; [reflexivity|]. exfalso. apply I5; congruence.
  - repeat split; auto; try congruence.
    intros [H|H]; [congruence|]. apply I4. destruct d as [d|]; [left; congruence|right; exact H].
Qed.

Lemma finalize_jr s : l_jr (l_finalize s) = [].
Proof. unfold l_finalize. destruct (l_jr s) eqn:E; [exact E|reflexivity]. Qed.

Lemma sim_root s : LInv s -> alpha (l_root s) = f_root (alpha s) /\ LInv (l_root s).
Proof.
  intros I. destruct (sim_finalize s I) as (A & I'). pose proof (finalize_jr s) as J.
  unfold l_root, f_root. rewrite <- A.
  remember (l_finalize s) as s1 eqn:E1. clear E1 A I s.
  destruct s1 as [d p o t j pb]. unfold LInv in I'. lsimp. subst j. destruct I' as (I2 & I3 & I4 & I5 & I1).
  cbn [last] in I1.
  destruct pb; [|split; [reflexivity|unfold LInv; lsimp; repeat split; auto]].
  assert (V : match d with Some v => Some v | None => p end = None \/
              exists v, match d with Some v => Some v | None => p end = Some v /\ v = match d with Some x => x | None => match p with Some x => x | None => match o with Some x => x | None => t end end end
              /\ o <> None).
  { destruct d as [d|]; [right; exists d; repeat split; apply I4; left; congruence|].
    destruct p as [p|]; [right; exists p; repeat split; apply I4; right; congruence|]. left. reflexivity. }
  destruct V as [V|(v & V & Ev & Ho)]; rewrite V.
  - destruct d; [discriminate|]. subst p. unfold alpha, LInv. lsimp.
    assert (T : match o with Some x => x | None => t end = t) by (destruct o as [x|]; [apply I2; reflexivity|reflexivity]).
    split; [rewrite T; reflexivity|]. repeat split; auto; try congruence; try (intros [H|H]; congruence).
  - destruct o as [x|]; [|congruence]. pose proof (I2 x eq_refl) as Ex. subst x.
    destruct (N.eqb v t) eqn:Evt.
    + apply N.eqb_eq in Evt. unfold alpha, LInv. lsimp. rewrite <- Ev, Evt.
      split; [reflexivity|]. repeat split; auto; try congruence; try (intros [H|H]; congruence).
    + unfold alpha, LInv. lsimp. rewrite <- Ev.
      split; [reflexivity|]. repeat split; auto; try congruence; try (intros [H|H]; congruence).
Qed.

Lemma sim_tx t s : LInv s -> alpha (l_tx true s t) = f_tx (alpha s) t /\ LInv (l_tx true s t).
Proof.
  intros I. unfold l_tx, f_tx. destruct (sim_frames (fst t) s I) as (A & I'). rewrite <- A.
  destruct (snd t); [apply sim_root|apply sim_finalize]; exact I'.
Qed.

Lemma sim_block b : forall s, LInv s -> alpha (l_block true b s) = f_block b (alpha s) /\ LInv (l_block true b s).
Proof.
  induction b as [|t b IH]; intros s I; [split; [reflexivity|exact I]|].
  unfold l_block, f_block in *. cbn [fold_left]. destruct (sim_tx t s I) as (A & I'). rewrite <- A. apply IH. exact I'.
Qed.

(* ---------- consequences for the caches ---------- *)

Lemma l_failed_frame body s : LInv s ->
  alpha (l_exec true (LCall body true) s) = alpha s /\ LInv (l_exec true (LCall body true) s).
Proof.
  intros I. destruct (sim_exec (LCall body true) s I) as (A & I'). split; [|exact I'].
  rewrite A. apply f_failed.
Qed.

Lemma l_erasure b s : LInv s -> alpha (l_block true b s) = alpha (l_block true (erase_block b) s).
Proof.
  intros I. destruct (sim_block b s I) as (A & _). destruct (sim_block (erase_block b) s I) as (B & _).
  rewrite A, B. symmetry. apply f_erase_block.
Qed.

Lemma l_reachable b0 b : LInv (l_block true b (l_fresh b0)).
Proof. apply sim_block. apply LInv_fresh. Qed.

(* C19 -- the cached thresholds of txList (costcap / gascap, Model/C19.v: clist).
   Under the cache invariant (both thresholds are upper bounds over the list) the short
   circuit of txList.Filter is exact, every list operation preserves the invariant, hence
   every list that evolves from newTxList through the operations the pool uses behaves like
   the plain nonce-sorted list of the pool model.  Without the invariant Filter is unsound
   (stale_cap_witness). *)
From Coq Require Import List NArith PeanoNat Bool Lia ZifyBool ZifyNat ZifyN.
From GQ Require Import Model.C19 Proofs.C19_Lists.
Import ListNotations.
Local Open Scope N_scope.

Definition cap_ok (l : clist) : Prop :=
  forall t, In t (cl_txs l) -> cost t <= cl_costcap l /\ t_gas t <= cl_gascap l.

Lemma cap_okb_iff l : cap_okb l = true <-> cap_ok l.
Proof.
  unfold cap_okb, cap_ok. rewrite forallb_forall. split; intros H t Ht; specialize (H t Ht).
  - apply andb_true_iff in H. destruct H as [H1 H2]. apply N.leb_le in H1. apply N.leb_le in H2. split; assumption.
  - destruct H as [H1 H2]. apply andb_true_iff. split; apply N.leb_le; assumption.
Qed.

Lemma cap_ok_new : cap_ok cl_new.
Proof. intros t []. Qed.

(* a list that only shrinks keeps the invariant for the same thresholds *)
Lemma cap_ok_sub l txs' : cap_ok l -> (forall t, In t txs' -> In t (cl_txs l)) ->
  cap_ok (CL txs' (cl_costcap l) (cl_gascap l)).
Proof. intros H S t Ht. cbn in *. apply H, S, Ht. Qed.

Lemma filter_all_false {A} (f : A -> bool) (l : list A) : (forall x, In x l -> f x = false) -> filter f l = [].
Proof.
  induction l as [|x r IH]; intros H; [reflexivity|]. cbn. rewrite (H x (or_introl eq_refl)). apply IH.
  intros y Hy. apply H. right; exact Hy.
Qed.

Lemma l_put_in_weak t l x : In x (l_put t l) -> x = t \/ In x l.
Proof.
  induction l as [|y r IH]; cbn.
  - intros [<-|[]]. left; reflexivity.
  - destruct (t_nonce t <? t_nonce y).
    + intros [<-|H]; [left; reflexivity | right; exact H].
    + destruct (t_nonce t =? t_nonce y).
      * intros [<-|H]; [left; reflexivity | right; right; exact H].
      * intros [<-|H]; [right; left; reflexivity|]. destruct (IH H) as [E|E]; [left; exact E | right; right; exact E].
Qed.

Lemma l_add_in t b l l' old x : l_add t b l = Some (l', old) -> In x l' -> x = t \/ In x l.
Proof.
  unfold l_add. destruct (l_get (t_nonce t) l) as [o|].
  - destruct (t_price t <=? t_price o); [discriminate|]. destruct (t_price t <? bump_threshold b (t_price o)); [discriminate|].
    intros [= <- _]. apply l_put_in_weak.
  - intros [= <- _]. apply l_put_in_weak.
Qed.

(* ---------- Filter ---------- *)
Lemma cl_filter_exact strict bal mg l r i l' :
  cap_ok l -> cl_filter strict bal mg l = (r, i, l') -> l_filter strict bal mg (cl_txs l) = (r, i, cl_txs l').
Proof.
  intros H. unfold cl_filter. destruct ((cl_costcap l <=? bal) && (cl_gascap l <=? mg)) eqn:E.
  - intros [= <- <- <-]. apply andb_true_iff in E. destruct E as [E1 E2]. apply N.leb_le in E1. apply N.leb_le in E2.
    unfold l_filter. rewrite filter_all_false; [reflexivity|].
    intros x Hx. destruct (H x Hx) as [Hc Hg]. unfold unpayable. apply orb_false_iff. split; apply N.ltb_ge; lia.
  - destruct (l_filter strict bal mg (cl_txs l)) as [[r0 i0] k0]. intros [= <- <- <-]. reflexivity.
Qed.

Lemma cl_filter_cap strict bal mg l r i l' :
  cap_ok l -> cl_filter strict bal mg l = (r, i, l') -> cap_ok l'.
Proof.
  intros H. unfold cl_filter. destruct ((cl_costcap l <=? bal) && (cl_gascap l <=? mg)) eqn:E.
  - intros [= <- <- <-]. exact H.
  - destruct (l_filter strict bal mg (cl_txs l)) as [[r0 i0] k0] eqn:EF. intros [= <- <- <-].
    intros t Ht. cbn in *. pose proof (l_filter_keep _ _ _ _ _ _ _ EF t) as K.
    destruct K as [K _]. destruct (K (or_intror Ht)) as [_ U]. unfold unpayable in U. apply orb_false_iff in U.
    destruct U as [U1 U2]. apply N.ltb_ge in U1. apply N.ltb_ge in U2. split; assumption.
Qed.

(* what Filter is for: afterwards every transaction of the list is payable, exactly the
   unpayable ones were removed, nothing else left the list except the strict invalids *)
Lemma cl_filter_sound strict bal mg l r i l' :
  cap_ok l -> cl_filter strict bal mg l = (r, i, l') ->
  (forall t, In t (cl_txs l') -> cost t <= bal /\ t_gas t <= mg) /\
  (forall t, In t r <-> In t (cl_txs l) /\ unpayable bal mg t = true) /\
  (forall t, In t i \/ In t (cl_txs l') <-> In t (cl_txs l) /\ unpayable bal mg t = false).
Proof.
  intros H E. pose proof (cl_filter_exact _ _ _ _ _ _ _ H E) as EF. split; [|split].
  - intros t Ht. pose proof (l_filter_keep _ _ _ _ _ _ _ EF t) as [K _]. destruct (K (or_intror Ht)) as [_ U].
    unfold unpayable in U. apply orb_false_iff in U. destruct U as [U1 U2]. apply N.ltb_ge in U1. apply N.ltb_ge in U2.
    split; assumption.
  - intros t. apply (l_filter_rem _ _ _ _ _ _ _ EF t).
  - intros t. apply (l_filter_keep _ _ _ _ _ _ _ EF t).
Qed.

(* ---------- Add ---------- *)
Lemma cl_add_exact t b l l' old :
  cl_add t b l = Some (l', old) -> l_add t b (cl_txs l) = Some (cl_txs l', old).
Proof.
  unfold cl_add. destruct (l_add t b (cl_txs l)) as [[txs' o]|]; [|discriminate]. intros [= <- <-]. reflexivity.
Qed.
Lemma cl_add_none t b l : cl_add t b l = None <-> l_add t b (cl_txs l) = None.
Proof. unfold cl_add. destruct (l_add t b (cl_txs l)) as [[txs' o]|]; split; intros; congruence. Qed.

Lemma cl_add_cap t b l l' old : cap_ok l -> cl_add t b l = Some (l', old) -> cap_ok l'.
Proof.
  intros H. unfold cl_add. destruct (l_add t b (cl_txs l)) as [[txs' o]|] eqn:EA; [|discriminate].
  intros [= <- <-]. intros x Hx. cbn in *.
  destruct (l_add_in _ _ _ _ _ _ EA Hx) as [->|Hin].
  - split.
    + destruct (cl_costcap l <? cost t) eqn:E; [lia | apply N.ltb_ge in E; exact E].
    + destruct (cl_gascap l <? t_gas t) eqn:E; [lia | apply N.ltb_ge in E; exact E].
  - destruct (H x Hin) as [Hc Hg]. split.
    + destruct (cl_costcap l <? cost t) eqn:E; [apply N.ltb_lt in E; lia | exact Hc].
    + destruct (cl_gascap l <? t_gas t) eqn:E; [apply N.ltb_lt in E; lia | exact Hg].
Qed.

(* the thresholds after Add are the maxima the Go comments promise *)
Lemma cl_add_caps t b l l' old : cl_add t b l = Some (l', old) ->
  cl_costcap l' = N.max (cl_costcap l) (cost t) /\ cl_gascap l' = N.max (cl_gascap l) (t_gas t).
Proof.
  unfold cl_add. destruct (l_add t b (cl_txs l)) as [[txs' o]|]; [|discriminate]. intros [= <- _]. cbn. split.
  - destruct (cl_costcap l <? cost t) eqn:E; [apply N.ltb_lt in E | apply N.ltb_ge in E]; lia.
  - destruct (cl_gascap l <? t_gas t) eqn:E; [apply N.ltb_lt in E | apply N.ltb_ge in E]; lia.
Qed.

(* ---------- the remaining operations only shrink the list ---------- *)
Lemma firstn_in {A} k (l : list A) x : In x (firstn k l) -> In x l.
Proof.
  revert l. induction k as [|k IH]; intros [|y r]; cbn; try tauto. intros [<-|H]; [left; reflexivity | right; apply IH; exact H].
Qed.

Lemma l_step_shrinks strict b l o l' res :
  (forall t, o <> LAdd t) -> (forall x y, o <> LFilter x y) -> l_step strict b l o = (l', res) -> forall t, In t l' -> In t l.
Proof.
  intros NA NF. destruct o as [t0|x y|thr|n|k|start]; cbn.
  - exfalso. apply (NA t0). reflexivity.
  - exfalso. apply (NF x y). reflexivity.
  - intros [= <- _] t Ht. apply filter_In in Ht. apply Ht.
  - destruct (l_get n l) as [g0|]; [|intros [= <- _] t Ht; exact Ht]. destruct strict.
    + intros [= <- _] t Ht. apply filter_In in Ht. destruct Ht as [Ht _]. apply l_remove_in in Ht. apply Ht.
    + intros [= <- _] t Ht. apply l_remove_in in Ht. apply Ht.
  - intros [= <- _] t Ht. eapply firstn_in. exact Ht.
  - destruct (l_ready start l) as [r k0] eqn:ER. intros [= <- _] t Ht.
    destruct (l_ready_split _ _ _ _ ER) as [Es _]. rewrite Es. apply in_or_app. right. exact Ht.
Qed.

(* ---------- one step: same results, same list, invariant kept ---------- *)
Lemma cl_step_refines strict b l o l' res :
  cap_ok l -> cl_step strict b l o = (l', res) ->
  l_step strict b (cl_txs l) o = (cl_txs l', res) /\ cap_ok l'.
Proof.
  intros H. destruct o as [t0|x y|thr|n|k|start].
  - cbn. destruct (cl_add t0 b l) as [[l1 old]|] eqn:EA.
    + intros [= <- <-]. rewrite (cl_add_exact _ _ _ _ _ EA). split; [reflexivity | eapply cl_add_cap; eassumption].
    + intros [= <- <-]. apply cl_add_none in EA. rewrite EA. split; [reflexivity | exact H].
  - cbn. destruct (cl_filter strict x y l) as [[r i] l1] eqn:EF. intros [= <- <-].
    rewrite (cl_filter_exact _ _ _ _ _ _ _ H EF). split; [reflexivity | eapply cl_filter_cap; eassumption].
  - unfold cl_step. destruct (l_step strict b (cl_txs l) (LForward thr)) as [txs' r] eqn:ES. intros [= <- <-]. cbn [cl_txs].
    split; [reflexivity|]. apply cap_ok_sub; [exact H|]. eapply l_step_shrinks; [| |exact ES]; intros; discriminate.
  - unfold cl_step. destruct (l_step strict b (cl_txs l) (LRemove n)) as [txs' r] eqn:ES. intros [= <- <-]. cbn [cl_txs].
    split; [reflexivity|]. apply cap_ok_sub; [exact H|]. eapply l_step_shrinks; [| |exact ES]; intros; discriminate.
  - unfold cl_step. destruct (l_step strict b (cl_txs l) (LCap k)) as [txs' r] eqn:ES. intros [= <- <-]. cbn [cl_txs].
    split; [reflexivity|]. apply cap_ok_sub; [exact H|]. eapply l_step_shrinks; [| |exact ES]; intros; discriminate.
  - unfold cl_step. destruct (l_step strict b (cl_txs l) (LReady start)) as [txs' r] eqn:ES. intros [= <- <-]. cbn [cl_txs].
    split; [reflexivity|]. apply cap_ok_sub; [exact H|]. eapply l_step_shrinks; [| |exact ES]; intros; discriminate.
Qed.

(* ---------- histories ---------- *)
Lemma cl_fold_refines strict b ops l :
  cap_ok l ->
  cap_ok (fold_left (fun s o => fst (cl_step strict b s o)) ops l) /\
  cl_txs (fold_left (fun s o => fst (cl_step strict b s o)) ops l)
  = fold_left (fun s o => fst (l_step strict b s o)) ops (cl_txs l).
Proof.
  revert l. induction ops as [|o r IH]; intros l H; [split; [exact H | reflexivity]|].
  cbn [fold_left]. destruct (cl_step strict b l o) as [l1 res] eqn:ES.
  destruct (cl_step_refines _ _ _ _ _ _ H ES) as [EL H1]. cbn [fst]. rewrite EL. cbn [fst].
  apply IH. exact H1.
Qed.

(* Every list reachable from newTxList: invariant, same content as the plain list, and the
   next operation returns the same thing and leaves the same content. *)
Lemma cached_list_transparent_lemma strict b ops o :
  let l := cl_run strict b ops in
  cap_ok l /\ cl_txs l = l_run_ops strict b ops /\
  snd (cl_step strict b l o) = snd (l_step strict b (cl_txs l) o) /\
  cl_txs (fst (cl_step strict b l o)) = fst (l_step strict b (cl_txs l) o) /\
  cap_ok (fst (cl_step strict b l o)).
Proof.
  cbv zeta. unfold cl_run, l_run_ops.
  destruct (cl_fold_refines strict b ops cl_new cap_ok_new) as [H E]. split; [exact H|]. split; [exact E|].
  destruct (cl_step strict b (fold_left (fun s o0 => fst (cl_step strict b s o0)) ops cl_new) o) as [l1 res] eqn:ES.
  destruct (cl_step_refines _ _ _ _ _ _ H ES) as [EL H1]. rewrite EL. cbn [fst snd]. split; [reflexivity|]. split; [reflexivity | exact H1].
Qed.

(* The Filter of a reachable list leaves only payable transactions. *)
Lemma reachable_filter_sound_lemma strict b ops bal mg r i l' :
  cl_filter strict bal mg (cl_run strict b ops) = (r, i, l') ->
  forall t, In t (cl_txs l') -> cost t <= bal /\ t_gas t <= mg.
Proof.
  intros E. destruct (cached_list_transparent_lemma strict b ops (LFilter bal mg)) as [H _].
  apply (cl_filter_sound _ _ _ _ _ _ _ H E).
Qed.

(* ---------- the invariant is needed ---------- *)
(* a list whose cost threshold was not raised by a replacement (4210000 is the cost of the
   transaction that set it; the list now holds one costing 6420000): Filter at balance
   5790000 short-circuits and keeps the unpayable transaction *)
Definition stale_cap_witness : clist := CL [T 0 1 20 21000 6000000] 4210000 21000.

Lemma stale_cap_unsound_lemma :
  cap_okb stale_cap_witness = false /\
  exists strict bal mg r i l' t,
    cl_filter strict bal mg stale_cap_witness = (r, i, l') /\ In t (cl_txs l') /\ bal < cost t.
Proof.
  split; [vm_compute; reflexivity|].
  exists true, 5790000, 5000000, [], [], stale_cap_witness, (T 0 1 20 21000 6000000).
  split; [vm_compute; reflexivity|]. split; [left; reflexivity | vm_compute; reflexivity].
Qed.

(* the same history on the real operations: Add, Add, replacing Add raise the threshold *)
Definition cache_history : list lop :=
  [LAdd (T 0 0 10 21000 4000000); LAdd (T 0 1 10 21000 3000000); LAdd (T 0 1 20 21000 6000000)].

Lemma cache_nonvacuous_lemma :
  cl_run true 10 cache_history = CL [T 0 0 10 21000 4000000; T 0 1 20 21000 6000000] 6420000 21000
  /\ cap_okb (cl_run true 10 cache_history) = true
  /\ cl_filter true 5790000 5000000 (cl_run true 10 cache_history)
     = ([T 0 1 20 21000 6000000], [], CL [T 0 0 10 21000 4000000] 5790000 5000000)
  /\ cl_filter true 6420000 5000000 (cl_run true 10 cache_history) = ([], [], cl_run true 10 cache_history).
Proof. vm_compute. repeat split. Qed.

Lemma filter_step_lemma strict bal mg l r i l' :
  cap_ok l -> cl_filter strict bal mg l = (r, i, l') ->
  l_filter strict bal mg (cl_txs l) = (r, i, cl_txs l') /\ cap_ok l'.
Proof. intros H E. split; [eapply cl_filter_exact | eapply cl_filter_cap]; eassumption. Qed.

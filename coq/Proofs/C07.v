(* C07 — lemmas about Model/C07.v. *)
From Coq Require Import List NArith Bool Lia String.
From GQ Require Import Model.C07 Generated.C07Checks.
Import ListNotations.
Local Open Scope N_scope.

(* ---------- commitments ---------- *)

Lemma commitments_eqb_eq : forall a b, commitments_eqb a b = true <-> a = b.
Proof.
  intros [a1 a2 a3 a4 a5 a6 a7 a8 a9 a10 a11 a12 a13] [b1 b2 b3 b4 b5 b6 b7 b8 b9 b10 b11 b12 b13].
  unfold commitments_eqb, all_fields. cbn [forallb get c_uncle_hash c_tx_root c_etx_hash c_receipt_root c_evm_root
    c_utxo_root c_etxset_root c_gas_used c_state_used c_state_size c_avg_fees c_total_fees c_uncled_entropy].
  rewrite !andb_true_iff, !N.eqb_eq. split.
  - intros (H1 & H2 & H3 & H4 & H5 & H6 & H7 & H8 & H9 & H10 & H11 & H12 & H13 & _). congruence.
  - intros H. inversion H. repeat split; reflexivity.
Qed.

Lemma commitments_ext : forall a b, (forall f, get f a = get f b) -> a = b.
Proof.
  intros a b H. apply commitments_eqb_eq. unfold commitments_eqb. apply forallb_forall.
  intros f _. apply N.eqb_eq. apply H.
Qed.

Lemma commitments_eq_dec : forall a b : commitments, {a = b} + {a <> b}.
Proof.
  intros a b. destruct (commitments_eqb a b) eqn:E.
  - left. apply commitments_eqb_eq. exact E.
  - right. intros H. apply commitments_eqb_eq in H. congruence.
Qed.

Lemma get_set_same : forall f v c, get f (set f v c) = v.
Proof. intros f v [a1 a2 a3 a4 a5 a6 a7 a8 a9 a10 a11 a12 a13]. destruct f; reflexivity. Qed.

Lemma field_eq_dec : forall f g : field, {f = g} + {f <> g}.
Proof. decide equality. Qed.

Lemma get_set_other : forall f g v c, f <> g -> get g (set f v c) = get g c.
Proof.
  intros f g v [a1 a2 a3 a4 a5 a6 a7 a8 a9 a10 a11 a12 a13] H.
  destruct f, g; try reflexivity; exfalso; apply H; reflexivity.
Qed.

Lemma set_changes : forall f v c, v <> get f c -> set f v c <> c.
Proof.
  intros f v c H E. apply H. transitivity (get f (set f v c)); [symmetry; apply get_set_same | rewrite E; reflexivity].
Qed.

Lemma all_fields_complete : forall f, In f all_fields.
Proof. intros f. unfold all_fields. destruct f; simpl; tauto. Qed.

(* ---------- canonical-hash records ---------- *)

Lemma canon_remove_absent : forall n l, (forall k h, In (k, h) l -> k <> n) -> canon_remove n l = l.
Proof.
  intros n l. induction l as [|[k h] l IH]; intros H; simpl; [reflexivity|].
  destruct (k =? n) eqn:E.
  - apply N.eqb_eq in E. exfalso. apply (H k h); [left; reflexivity | exact E].
  - simpl. f_equal. apply IH. intros k' h' Hin. apply (H k' h'). right. exact Hin.
Qed.

Lemma canon_remove_write : forall n h l, canon_remove n (canon_write n h l) = canon_remove n l.
Proof.
  intros n h l. unfold canon_write. simpl. rewrite N.eqb_refl. simpl.
  unfold canon_remove. induction l as [|[k x] l IH]; simpl; [reflexivity|].
  destruct (k =? n) eqn:E; simpl; [exact IH | rewrite E; simpl; f_equal; exact IH].
Qed.

Lemma in_canon_remove : forall n l k h, In (k, h) (canon_remove n l) -> In (k, h) l /\ k <> n.
Proof.
  intros n l k h H. unfold canon_remove in H. apply filter_In in H. destruct H as [H1 H2]. split; [exact H1|].
  simpl in H2. apply negb_true_iff in H2. apply N.eqb_neq in H2. exact H2.
Qed.

Section Proofs.
  Variables tx uncle hdr state : Type.
  Variable root : list tx -> N.
  Variable uroot : list uncle -> N.
  Variable uncles_ok : state -> hdr -> list uncle -> bool.
  Variable scope_ok : list tx -> bool.
  Variable exec : state -> hdr -> list tx -> list uncle -> option (state * exec_out tx).
  Variable bhash : hdr -> commitments -> N.
  Variable h_parent : hdr -> N.
  Variable h_num : hdr -> N.

  Notation block := (block tx uncle hdr).
  Notation result := (result state).
  Notation Ok := (Ok state).
  Notation Err := (Err state).
  Notation check := (check state).
  Notation recomputed := (recomputed tx uncle root uroot).
  Notation validate_state := (validate_state tx state root).
  Notation apply := (apply tx uncle hdr state root exec).
  Notation validate_body := (validate_body tx uncle hdr state root uroot uncles_ok scope_ok).
  Notation validate := (validate tx uncle hdr state root uroot uncles_ok scope_ok exec).
  Notation assemble := (assemble tx uncle hdr state root uroot exec).
  Notation db := (db state).
  Notation hash_of := (hash_of tx uncle hdr bhash).
  Notation append := (append tx uncle hdr state root exec).
  Notation set_current_header := (set_current_header tx uncle hdr state root exec bhash h_parent h_num).
  Notation offer := (offer tx uncle hdr state root uroot uncles_ok scope_ok exec bhash h_parent h_num).
  Notation run := (run tx uncle hdr state root uroot uncles_ok scope_ok exec bhash h_parent h_num).
  Notation accepted := (accepted tx uncle hdr state root uroot uncles_ok scope_ok exec bhash h_parent h_num).
  Notation wf := (wf state).
  Notation child_numbered := (child_numbered tx uncle hdr state h_parent h_num).

  Definition with_decl (b : block) (d : commitments) : block :=
    mkBlock tx uncle hdr (b_hdr _ _ _ b) (b_txs _ _ _ b) (b_etxs _ _ _ b) (b_uncles _ _ _ b) d.
  Definition with_txs (b : block) (l : list tx) : block :=
    mkBlock tx uncle hdr (b_hdr _ _ _ b) l (b_etxs _ _ _ b) (b_uncles _ _ _ b) (b_decl _ _ _ b).
  Definition with_etxs (b : block) (l : list tx) : block :=
    mkBlock tx uncle hdr (b_hdr _ _ _ b) (b_txs _ _ _ b) l (b_uncles _ _ _ b) (b_decl _ _ _ b).
  Definition with_uncles (b : block) (l : list uncle) : block :=
    mkBlock tx uncle hdr (b_hdr _ _ _ b) (b_txs _ _ _ b) (b_etxs _ _ _ b) l (b_decl _ _ _ b).

  Lemma check_ok : forall (c : bool) v k st, check c v k = Ok st <-> c = true /\ k = Ok st.
  Proof. intros c v k st. unfold C07.check. destruct c; split; intros H; try tauto; try discriminate. destruct H; discriminate. Qed.

  Lemma result_cases : forall r : result, (exists st, r = Ok st) \/ (exists c, r = Err c).
  Proof. intros [st|c]; [left|right]; eexists; reflexivity. Qed.

  Lemma validate_state_ok : forall d st' x st,
    validate_state d st' x = Ok st <->
    st = st' /\ x_gas_used _ x = c_gas_used d /\ x_state_used _ x = c_state_used d /\ x_receipt_root _ x = c_receipt_root d
    /\ x_evm_root _ x = c_evm_root d /\ x_state_size _ x = c_state_size d /\ x_utxo_root _ x = c_utxo_root d
    /\ x_etxset_root _ x = c_etxset_root d /\ root (x_emitted _ x) = c_etx_hash d /\ x_uncled_entropy _ x = c_uncled_entropy d.
  Proof.
    intros d st' x st. unfold C07.validate_state. rewrite !check_ok, !N.eqb_eq. split.
    - intros (H1 & H2 & H3 & H4 & H5 & H6 & H7 & H8 & H9 & H10). inversion H10. tauto.
    - intros (H0 & H1 & H2 & H3 & H4 & H5 & H6 & H7 & H8 & H9). subst st. tauto.
  Qed.

  Lemma apply_ok : forall st b st',
    apply st b = Ok st' <->
    exists x, exec st (b_hdr _ _ _ b) (b_txs _ _ _ b) (b_uncles _ _ _ b) = Some (st', x)
      /\ x_avg_fees _ x = c_avg_fees (b_decl _ _ _ b) /\ x_total_fees _ x = c_total_fees (b_decl _ _ _ b)
      /\ x_gas_used _ x = c_gas_used (b_decl _ _ _ b) /\ x_state_used _ x = c_state_used (b_decl _ _ _ b)
      /\ x_receipt_root _ x = c_receipt_root (b_decl _ _ _ b) /\ x_evm_root _ x = c_evm_root (b_decl _ _ _ b)
      /\ x_state_size _ x = c_state_size (b_decl _ _ _ b) /\ x_utxo_root _ x = c_utxo_root (b_decl _ _ _ b)
      /\ x_etxset_root _ x = c_etxset_root (b_decl _ _ _ b) /\ root (x_emitted _ x) = c_etx_hash (b_decl _ _ _ b)
      /\ x_uncled_entropy _ x = c_uncled_entropy (b_decl _ _ _ b).
  Proof.
    intros st b st'. unfold C07.apply.
    destruct (exec st (b_hdr _ _ _ b) (b_txs _ _ _ b) (b_uncles _ _ _ b)) as [[s x]|] eqn:E.
    - rewrite !check_ok, !N.eqb_eq, validate_state_ok. split.
      + intros (Ha & Ht & Hs & H). subst s. exists x. tauto.
      + intros (x' & Hx & H). inversion Hx. subst s x'. tauto.
    - split; [discriminate|]. intros (x & Hx & _). discriminate.
  Qed.

  (* Full characterisation of acceptance. *)
  Lemma validate_ok_iff : forall st b st',
    validate st b = Ok st' <->
    uncles_ok st (b_hdr _ _ _ b) (b_uncles _ _ _ b) = true /\ scope_ok (b_txs _ _ _ b) = true
    /\ root (b_etxs _ _ _ b) = c_etx_hash (b_decl _ _ _ b)
    /\ exists x, exec st (b_hdr _ _ _ b) (b_txs _ _ _ b) (b_uncles _ _ _ b) = Some (st', x)
              /\ recomputed (b_txs _ _ _ b) (b_uncles _ _ _ b) x = b_decl _ _ _ b.
  Proof.
    intros st b st'. unfold C07.validate, C07.validate_body. rewrite !check_ok, !N.eqb_eq, apply_ok. split.
    - intros (Hu & Huh & Htx & Hsc & Hetx & x & Hx & H). repeat split; try assumption.
      exists x. split; [exact Hx|]. unfold C07.recomputed. destruct (b_decl _ _ _ b) eqn:Ed. simpl in *.
      destruct H as (H1 & H2 & H3 & H4 & H5 & H6 & H7 & H8 & H9 & H10 & H11). congruence.
    - intros (Hu & Hsc & Hetx & x & Hx & Hr). rewrite <- Hr in *. unfold C07.recomputed in *. simpl in *.
      repeat split; try assumption; try reflexivity. exists x. repeat split; try assumption; reflexivity.
  Qed.

  (* ---------- liveness direction ---------- *)

  Lemma assembled_validates : forall st h txs uncles b,
    assemble st h txs uncles = Some b ->
    uncles_ok st h uncles = true -> scope_ok txs = true ->
    exists st' x, exec st h txs uncles = Some (st', x) /\ validate st b = Ok st'
                  /\ b_decl _ _ _ b = recomputed txs uncles x /\ b_etxs _ _ _ b = x_emitted _ x.
  Proof.
    intros st h txs uncles b Ha Hu Hs. unfold C07.assemble in Ha.
    destruct (exec st h txs uncles) as [[st' x]|] eqn:E; [|discriminate].
    inversion Ha; subst b; clear Ha. exists st', x. split; [reflexivity|]. split; [|split; reflexivity].
    apply validate_ok_iff. simpl. repeat split; try assumption. exists x. split; [exact E | reflexivity].
  Qed.

  Lemma assemble_none_iff : forall st h txs uncles,
    assemble st h txs uncles = None <-> exec st h txs uncles = None.
  Proof.
    intros. unfold C07.assemble. destruct (exec st h txs uncles) as [[s x]|]; split; intros H; try discriminate; reflexivity.
  Qed.

  (* ---------- safety direction ---------- *)

  Lemma validate_pins : forall st b st',
    validate st b = Ok st' ->
    exists x, exec st (b_hdr _ _ _ b) (b_txs _ _ _ b) (b_uncles _ _ _ b) = Some (st', x) /\
      let d := b_decl _ _ _ b in
      c_uncle_hash d = uroot (b_uncles _ _ _ b) /\
      c_tx_root d = root (b_txs _ _ _ b) /\
      c_etx_hash d = root (b_etxs _ _ _ b) /\
      c_etx_hash d = root (x_emitted _ x) /\
      c_receipt_root d = x_receipt_root _ x /\
      c_evm_root d = x_evm_root _ x /\
      c_utxo_root d = x_utxo_root _ x /\
      c_etxset_root d = x_etxset_root _ x /\
      c_gas_used d = x_gas_used _ x /\
      c_state_used d = x_state_used _ x /\
      c_state_size d = x_state_size _ x /\
      c_avg_fees d = x_avg_fees _ x /\
      c_total_fees d = x_total_fees _ x /\
      c_uncled_entropy d = x_uncled_entropy _ x.
  Proof.
    intros st b st' H. apply validate_ok_iff in H. destruct H as (_ & _ & Hetx & x & Hx & Hr).
    exists x. split; [exact Hx|]. cbv zeta. rewrite <- Hr in *. unfold C07.recomputed in *. simpl in *.
    repeat split; try reflexivity. symmetry. exact Hetx.
  Qed.

  Lemma any_declared_deviation_rejected : forall st b st' d',
    validate st b = Ok st' -> d' <> b_decl _ _ _ b -> exists c, validate st (with_decl b d') = Err c.
  Proof.
    intros st b st' d' H Hd. destruct (result_cases (validate st (with_decl b d'))) as [[s Hs]|Hc]; [|exact Hc].
    exfalso. apply validate_ok_iff in H. apply validate_ok_iff in Hs. simpl in Hs.
    destruct H as (_ & _ & _ & x & Hx & Hr). destruct Hs as (_ & _ & _ & x' & Hx' & Hr').
    rewrite Hx in Hx'. inversion Hx'. subst x'. apply Hd. rewrite <- Hr, <- Hr'. reflexivity.
  Qed.

  Lemma single_field_mutation_rejected : forall st b st' f v,
    validate st b = Ok st' -> v <> get f (b_decl _ _ _ b) ->
    exists c, validate st (with_decl b (set f v (b_decl _ _ _ b))) = Err c.
  Proof. intros st b st' f v H Hv. apply (any_declared_deviation_rejected st b st'); [exact H|]. apply set_changes. exact Hv. Qed.

  Lemma tx_list_mutation_rejected : forall st b st' txs',
    validate st b = Ok st' -> txs' <> b_txs _ _ _ b ->
    (exists c, validate st (with_txs b txs') = Err c) \/ root txs' = root (b_txs _ _ _ b).
  Proof.
    intros st b st' txs' H Hne. destruct (result_cases (validate st (with_txs b txs'))) as [[s Hs]|Hc]; [|left; exact Hc].
    right. apply validate_pins in H. apply validate_pins in Hs. simpl in Hs.
    destruct H as (x & _ & _ & Ht & _). destruct Hs as (x' & _ & _ & Ht' & _). congruence.
  Qed.

  Lemma etx_list_mutation_rejected : forall st b st' l,
    validate st b = Ok st' -> l <> b_etxs _ _ _ b ->
    (exists c, validate st (with_etxs b l) = Err c) \/ root l = root (b_etxs _ _ _ b).
  Proof.
    intros st b st' l H Hne. destruct (result_cases (validate st (with_etxs b l))) as [[s Hs]|Hc]; [|left; exact Hc].
    right. apply validate_pins in H. apply validate_pins in Hs. simpl in Hs.
    destruct H as (x & _ & _ & _ & He & _). destruct Hs as (x' & _ & _ & _ & He' & _). congruence.
  Qed.

  Lemma uncle_list_mutation_rejected : forall st b st' l,
    validate st b = Ok st' -> l <> b_uncles _ _ _ b ->
    (exists c, validate st (with_uncles b l) = Err c) \/ uroot l = uroot (b_uncles _ _ _ b).
  Proof.
    intros st b st' l H Hne. destruct (result_cases (validate st (with_uncles b l))) as [[s Hs]|Hc]; [|left; exact Hc].
    right. apply validate_pins in H. apply validate_pins in Hs. simpl in Hs.
    destruct H as (x & _ & Hu & _). destruct Hs as (x' & _ & Hu' & _). congruence.
  Qed.

  (* A mutated transaction list whose root was re-derived is simply another candidate block:
     if it is accepted, re-execution of the mutated list yields exactly the declared results,
     so it commits to the same results as the original wherever the declarations agree. *)
  Lemma rederived_variant_accepted_only_if_equivalent : forall st b st1 b' st2,
    validate st b = Ok st1 -> validate st b' = Ok st2 ->
    exists x x', exec st (b_hdr _ _ _ b) (b_txs _ _ _ b) (b_uncles _ _ _ b) = Some (st1, x)
      /\ exec st (b_hdr _ _ _ b') (b_txs _ _ _ b') (b_uncles _ _ _ b') = Some (st2, x')
      /\ forall f, get f (b_decl _ _ _ b') = get f (b_decl _ _ _ b) ->
                   get f (recomputed (b_txs _ _ _ b') (b_uncles _ _ _ b') x') = get f (recomputed (b_txs _ _ _ b) (b_uncles _ _ _ b) x).
  Proof.
    intros st b st1 b' st2 H H'. apply validate_ok_iff in H. apply validate_ok_iff in H'.
    destruct H as (_ & _ & _ & x & Hx & Hr). destruct H' as (_ & _ & _ & x' & Hx' & Hr').
    exists x, x'. repeat split; try assumption. intros f Hf. rewrite Hr, Hr'. exact Hf.
  Qed.

  Lemma different_declaration_different_hash : forall h d d',
    d <> d' -> bhash h d <> bhash h d' \/ (bhash h d = bhash h d' /\ d <> d').
  Proof. intros h d d' Hd. destruct (N.eq_dec (bhash h d) (bhash h d')) as [E|E]; [right; split; assumption | left; exact E]. Qed.

  (* ---------- no trace ---------- *)

  Lemma db_eta : forall d : db, mkDb state (d_state _ d) (d_canon _ d) (d_head _ d) (d_headnum _ d) = d.
  Proof. intros [s c h n]. reflexivity. Qed.

  Lemma append_rejected_identity : forall d b c, snd (append d b) = Err c -> fst (append d b) = d.
  Proof. intros d b c. unfold C07.append. destruct (apply (d_state _ d) b); simpl; [discriminate | reflexivity]. Qed.

  Lemma append_accepted : forall d b st', snd (append d b) = Ok st' ->
    fst (append d b) = mkDb state st' (d_canon _ d) (d_head _ d) (d_headnum _ d) /\ apply (d_state _ d) b = Ok st'.
  Proof.
    intros d b st'. unfold C07.append. destruct (apply (d_state _ d) b) eqn:E; simpl; intros H; [|discriminate].
    inversion H. subst. split; reflexivity.
  Qed.

  Lemma sch_rejected_identity : forall d b c,
    wf d -> child_numbered d b -> snd (set_current_header d b) = SErr c -> fst (set_current_header d b) = d.
  Proof.
    intros d b c Hwf Hnum. unfold C07.set_current_header.
    destruct (hash_of b =? d_head _ d) eqn:Es; [simpl; discriminate|].
    destruct (h_parent (b_hdr _ _ _ b) =? d_head _ d) eqn:Ep; [|simpl; discriminate].
    apply N.eqb_eq in Ep. specialize (Hnum Ep).
    unfold C07.append. cbv zeta. cbn [d_state d_canon d_head d_headnum].
    destruct (apply (d_state _ d) b) eqn:Ea; cbn [fst snd d_state d_canon d_head d_headnum]; [discriminate|]. intros _.
    rewrite canon_remove_write. rewrite canon_remove_absent.
    - apply db_eta.
    - intros k h Hin Hk. apply Hwf in Hin. subst k. rewrite Hnum in Hin. lia.
  Qed.

  Lemma sch_other_identity : forall d b, snd (set_current_header d b) = SSame \/ snd (set_current_header d b) = SNotChild ->
    fst (set_current_header d b) = d.
  Proof.
    intros d b. unfold C07.set_current_header.
    destruct (hash_of b =? d_head _ d); [reflexivity|].
    destruct (h_parent (b_hdr _ _ _ b) =? d_head _ d); [|reflexivity].
    cbv zeta. destruct (append _ b) as [d2 [s|c]]; cbn [fst snd]; intros [H|H]; discriminate.
  Qed.

  Lemma sch_accepted : forall d b, snd (set_current_header d b) = SOk ->
    exists st', apply (d_state _ d) b = Ok st' /\ h_parent (b_hdr _ _ _ b) = d_head _ d /\
      fst (set_current_header d b) =
        mkDb state st' (canon_write (h_num (b_hdr _ _ _ b)) (hash_of b) (d_canon _ d)) (hash_of b) (h_num (b_hdr _ _ _ b)).
  Proof.
    intros d b. unfold C07.set_current_header.
    destruct (hash_of b =? d_head _ d); [simpl; discriminate|].
    destruct (h_parent (b_hdr _ _ _ b) =? d_head _ d) eqn:Ep; [|simpl; discriminate].
    apply N.eqb_eq in Ep. unfold C07.append. cbv zeta. cbn [d_state d_canon d_head d_headnum].
    destruct (apply (d_state _ d) b) eqn:Ea; cbn [fst snd d_state d_canon d_head d_headnum]; [|discriminate]. intros _.
    exists st. split; [reflexivity|]. split; [exact Ep | reflexivity].
  Qed.

  Lemma sch_wf : forall d b, wf d -> child_numbered d b -> wf (fst (set_current_header d b)).
  Proof.
    intros d b Hwf Hnum. destruct (snd (set_current_header d b)) eqn:E.
    - apply sch_accepted in E. destruct E as (st' & _ & Hp & Hd). rewrite Hd. specialize (Hnum Hp).
      intros n h Hin. simpl in *. destruct Hin as [Hin|Hin].
      + inversion Hin. subst. lia.
      + apply in_canon_remove in Hin. destruct Hin as [Hin _]. apply Hwf in Hin. lia.
    - rewrite sch_other_identity; [exact Hwf | left; exact E].
    - rewrite (sch_rejected_identity d b c Hwf Hnum E). exact Hwf.
    - rewrite sch_other_identity; [exact Hwf | right; exact E].
  Qed.

  Lemma offer_cases : forall d b,
    (exists c, validate_body (d_state _ d) b (Ok (d_state _ d)) = Err c /\ offer d b = (d, SErr c))
    \/ ((exists s, validate_body (d_state _ d) b (Ok (d_state _ d)) = Ok s) /\ offer d b = set_current_header d b).
  Proof.
    intros d b. unfold C07.offer. destruct (validate_body (d_state _ d) b (Ok (d_state _ d))) eqn:E.
    - right. split; [eexists; reflexivity | reflexivity].
    - left. exists c. split; reflexivity.
  Qed.

  Lemma offer_rejected_identity : forall d b,
    wf d -> child_numbered d b -> snd (offer d b) <> SOk -> fst (offer d b) = d.
  Proof.
    intros d b Hwf Hnum H. destruct (offer_cases d b) as [(c & _ & Ho)|[_ Ho]]; rewrite Ho in *; [reflexivity|].
    destruct (snd (set_current_header d b)) eqn:E.
    - exfalso. apply H. reflexivity.
    - apply sch_other_identity. left. exact E.
    - apply (sch_rejected_identity d b c Hwf Hnum E).
    - apply sch_other_identity. right. exact E.
  Qed.

  Lemma offer_wf : forall d b, wf d -> child_numbered d b -> wf (fst (offer d b)).
  Proof.
    intros d b Hwf Hnum. destruct (offer_cases d b) as [(c & _ & Ho)|[_ Ho]]; rewrite Ho; [exact Hwf|].
    apply sch_wf; assumption.
  Qed.

  (* The body checks commute with the continuation: validate = body checks then apply. *)
  Lemma validate_body_ok_split : forall st b k s,
    validate_body st b k = Ok s <-> (exists s0, validate_body st b (Ok st) = Ok s0) /\ k = Ok s.
  Proof.
    intros st b k s. unfold C07.validate_body. rewrite !check_ok. split.
    - intros (H1 & H2 & H3 & H4 & H5 & H6). split; [|exact H6]. exists st. rewrite !check_ok. tauto.
    - intros ((s0 & H) & Hk). rewrite !check_ok in H. tauto.
  Qed.

  (* An accepted offer is exactly an accepted validation. *)
  Lemma offer_ok_iff_validate : forall d b,
    hash_of b <> d_head _ d -> h_parent (b_hdr _ _ _ b) = d_head _ d ->
    (snd (offer d b) = SOk <-> exists st', validate (d_state _ d) b = Ok st').
  Proof.
    intros d b Hh Hp. split.
    - intros H. destruct (offer_cases d b) as [(c & _ & Ho)|[[s Hb] Ho]]; rewrite Ho in H; [discriminate|].
      apply sch_accepted in H. destruct H as (st' & Ha & _). exists st'.
      unfold C07.validate. apply validate_body_ok_split. split; [exists s; exact Hb | exact Ha].
    - intros [st' Hv]. unfold C07.validate in Hv. apply validate_body_ok_split in Hv. destruct Hv as [[s0 Hb] Ha].
      unfold C07.offer. rewrite Hb. unfold C07.set_current_header.
      apply N.eqb_neq in Hh. rewrite Hh. apply N.eqb_eq in Hp. rewrite Hp. unfold C07.append. simpl. rewrite Ha. reflexivity.
  Qed.

  (* ---------- histories ---------- *)
  Variable numof : N -> N.     (* rawdb header-number index: the number recorded for a block hash *)

  Definition inv (d : db) : Prop := wf d /\ d_headnum _ d = numof (d_head _ d).
  Definition numbered (b : block) : Prop :=
    h_num (b_hdr _ _ _ b) = numof (h_parent (b_hdr _ _ _ b)) + 1 /\ numof (hash_of b) = h_num (b_hdr _ _ _ b).

  Lemma numbered_child : forall d b, inv d -> numbered b -> child_numbered d b.
  Proof. intros d b [_ Hn] [Hb _] Hp. rewrite Hb, Hp, Hn. reflexivity. Qed.

  Lemma offer_inv : forall d b, inv d -> numbered b -> inv (fst (offer d b)).
  Proof.
    intros d b Hi Hb. split; [apply offer_wf; [apply Hi | apply numbered_child; assumption]|].
    destruct (snd (offer d b)) eqn:E.
    - destruct (offer_cases d b) as [(c & _ & Ho)|[_ Ho]]; rewrite Ho in *; [discriminate|].
      apply sch_accepted in E. destruct E as (st' & _ & _ & Hd). rewrite Hd. simpl. symmetry. apply Hb.
    - rewrite offer_rejected_identity; [apply Hi | apply Hi | apply numbered_child; assumption | rewrite E; discriminate].
    - rewrite offer_rejected_identity; [apply Hi | apply Hi | apply numbered_child; assumption | rewrite E; discriminate].
    - rewrite offer_rejected_identity; [apply Hi | apply Hi | apply numbered_child; assumption | rewrite E; discriminate].
  Qed.

  Lemma run_cons : forall d b bs, run d (b :: bs) = run (fst (offer d b)) bs.
  Proof. reflexivity. Qed.

  Lemma accepted_cons : forall d b bs,
    accepted d (b :: bs) = match offer d b with
                           | (d', SOk) => b :: accepted d' bs
                           | (d', _) => accepted d' bs
                           end.
  Proof. reflexivity. Qed.

  Lemma run_ignores_rejected : forall bs d, inv d -> Forall numbered bs ->
    run d bs = run d (accepted d bs) /\ inv (run d bs).
  Proof.
    induction bs as [|b bs IH]; intros d Hi Hf.
    - split; [reflexivity | exact Hi].
    - inversion Hf as [|b0 bs0 Hb Hbs]; subst. rewrite run_cons, accepted_cons.
      assert (Hi' : inv (fst (offer d b))) by (apply offer_inv; assumption).
      assert (Hrej : snd (offer d b) <> SOk -> fst (offer d b) = d).
      { intros Hne. apply offer_rejected_identity; [apply Hi | apply numbered_child; assumption | exact Hne]. }
      destruct (offer d b) as [d' r] eqn:Eo. cbn [fst snd] in *.
      destruct r.
      + destruct (IH d' Hi' Hbs) as [IH1 IH2]. split; [|exact IH2]. rewrite run_cons, Eo. cbn [fst]. exact IH1.
      + rewrite Hrej by discriminate. apply IH; assumption.
      + rewrite Hrej by discriminate. apply IH; assumption.
      + rewrite Hrej by discriminate. apply IH; assumption.
  Qed.

  (* The node's own block extends its chain by one. *)
  Lemma own_block_appends : forall d h txs uncles b,
    assemble (d_state _ d) h txs uncles = Some b ->
    uncles_ok (d_state _ d) h uncles = true -> scope_ok txs = true ->
    h_parent h = d_head _ d -> hash_of b <> d_head _ d ->
    exists st', snd (offer d b) = SOk /\ d_state _ (fst (offer d b)) = st' /\ d_head _ (fst (offer d b)) = hash_of b
                /\ d_headnum _ (fst (offer d b)) = h_num h
                /\ exists x, exec (d_state _ d) h txs uncles = Some (st', x).
  Proof.
    intros d h txs uncles b Ha Hu Hs Hp Hh.
    destruct (assembled_validates _ _ _ _ _ Ha Hu Hs) as (st' & x & Hx & Hv & Hd & He).
    assert (Hb : b_hdr _ _ _ b = h).
    { unfold C07.assemble in Ha. rewrite Hx in Ha. inversion Ha. reflexivity. }
    assert (Hok : snd (offer d b) = SOk).
    { apply offer_ok_iff_validate; [exact Hh | rewrite Hb; exact Hp | exists st'; exact Hv]. }
    exists st'. split; [exact Hok|].
    destruct (offer_cases d b) as [(c & _ & Ho)|[_ Ho]]; rewrite Ho in *; [discriminate|].
    apply sch_accepted in Hok. destruct Hok as (s2 & Ha2 & _ & Hd2). rewrite Hd2. simpl. rewrite Hb.
    unfold C07.validate in Hv. apply validate_body_ok_split in Hv. destruct Hv as [_ Hv]. rewrite Hv in Ha2. inversion Ha2. subst s2.
    repeat split. exists x. exact Hx.
  Qed.
End Proofs.

(* ---------- a witness that the well-formedness precondition is necessary ---------- *)

(* hdr = (parent hash, number); every block fails execution. *)
Definition w_exec : unit -> (N * N) -> list N -> list N -> option (unit * exec_out N) := fun _ _ _ _ => None.
Definition w_db : db unit := mkDb unit tt [(1, 99)] 7 0.
Definition w_block : block N N (N * N) := mkBlock N N (N * N) (7, 1) [] [] [] (mkC 0 0 0 0 0 0 0 0 0 0 0 0 0).
Definition w_sch := set_current_header N N (N * N) unit (fun _ => 0) w_exec (fun h _ => fst h + 100) fst snd.

Lemma stale_canonical_record_erased :
  ~ wf unit w_db /\ snd (w_sch w_db w_block) = SErr VExec /\ fst (w_sch w_db w_block) <> w_db
  /\ canon_get 1 (d_canon _ w_db) = Some 99 /\ canon_get 1 (d_canon _ (fst (w_sch w_db w_block))) = None.
Proof.
  split; [|split; [|split; [|split]]].
  - intros H. specialize (H 1 99 (or_introl eq_refl)). simpl in H. lia.
  - vm_compute. reflexivity.
  - vm_compute. discriminate.
  - vm_compute. reflexivity.
  - vm_compute. reflexivity.
Qed.

(* ---------- generated side conditions (current source text) ---------- *)

Local Open Scope string_scope.

(* The reviewed comparison sites, in model order (ValidateBody, Process, ValidateState). *)
Definition reviewed_sites : list (string * string * string * string) := [
  ("ValidateBody", "uncle root hash mismatch", "hash", "header.UncleHash()");
  ("ValidateBody", "transaction root hash mismatch", "hash", "header.TxHash()");
  ("ValidateBody", "Qi TXO emitted to an inactive chain", "!found", "");
  ("ValidateBody", "outbound etx hash mismatch", "hash", "header.OutboundEtxHash()");
  ("Process", "invalid external transaction", "etx.Hash()", "tx.Hash()");
  ("Process", "invalid avgTxFees used", "expectedAvgFees", "block.AvgTxFees()");
  ("Process", "invalid totalFees used", "expectedTotalFees", "block.TotalFees()");
  ("ValidateState", "invalid gas used", "block.GasUsed()", "usedGas");
  ("ValidateState", "invalid state used", "block.StateUsed()", "usedState");
  ("ValidateState", "invalid receipt root hash", "receiptSha", "header.ReceiptHash()");
  ("ValidateState", "invalid merkle root", "header.EVMRoot()", "root");
  ("ValidateState", "invalid quai trie size", "header.QuaiStateSize()", "stateSize");
  ("ValidateState", "invalid utxo root", "header.UTXORoot()", "root");
  ("ValidateState", "invalid etx root", "header.EtxSetRoot()", "root");
  ("ValidateState", "invalid outbound etx hash", "etxHash", "header.OutboundEtxHash()");
  ("ValidateState", "invalid uncledEntropy", "expectedUncledEntropy", "header.UncledEntropy()")
].

(* which site pins which commitment field *)
Definition field_site (f : field) : string * string :=
  match f with
  | FUncleHash => ("ValidateBody", "uncle root hash mismatch")
  | FTxRoot => ("ValidateBody", "transaction root hash mismatch")
  | FEtxHash => ("ValidateState", "invalid outbound etx hash")
  | FReceiptRoot => ("ValidateState", "invalid receipt root hash")
  | FEvmRoot => ("ValidateState", "invalid merkle root")
  | FUtxoRoot => ("ValidateState", "invalid utxo root")
  | FEtxSetRoot => ("ValidateState", "invalid etx root")
  | FGasUsed => ("ValidateState", "invalid gas used")
  | FStateUsed => ("ValidateState", "invalid state used")
  | FStateSize => ("ValidateState", "invalid quai trie size")
  | FAvgFees => ("Process", "invalid avgTxFees used")
  | FTotalFees => ("Process", "invalid totalFees used")
  | FUncledEntropy => ("ValidateState", "invalid uncledEntropy")
  end.

Definition str_eqb (a b : string) : bool := if string_dec a b then true else false.
Definition site_eqb (a b : string * string * string * string) : bool :=
  let '(a1, a2, a3, a4) := a in let '(b1, b2, b3, b4) := b in
  str_eqb a1 b1 && str_eqb a2 b2 && str_eqb a3 b3 && str_eqb a4 b4.
Fixpoint sites_eqb (a b : list (string * string * string * string)) : bool :=
  match a, b with
  | [], [] => true
  | x :: a', y :: b' => site_eqb x y && sites_eqb a' b'
  | _, _ => false
  end.
Fixpoint strs_eqb (a b : list string) : bool :=
  match a, b with
  | [], [] => true
  | x :: a', y :: b' => str_eqb x y && strs_eqb a' b'
  | _, _ => false
  end.

(* every commitment field has a comparison site in the current source *)
Definition all_commitments_compared : bool :=
  forallb (fun f => existsb (fun s => let '(fn, msg, _, _) := s in str_eqb fn (fst (field_site f)) && str_eqb msg (snd (field_site f))) compare_sites) all_fields.

(* the reviewed comparison sites all occur in the source, in the model's order, comparing the reviewed
   operands (further comparison sites may exist between them: a subsequence test) *)
Fixpoint sites_subseq (a b : list (string * string * string * string)) : bool :=
  match b with
  | [] => match a with [] => true | _ => false end
  | y :: b' => match a with
               | [] => true
               | x :: a' => if site_eqb x y then sites_subseq a' b' else sites_subseq a b'
               end
  end.
Definition comparisons_as_reviewed : bool := sites_subseq reviewed_sites compare_sites.

(* helpers on skeletons *)
Fixpoint index_of (x : string) (l : list string) (i : nat) : option nat :=
  match l with
  | [] => None
  | y :: l' => if str_eqb x y then Some i else index_of x l' (S i)
  end.
Fixpoint drop_until (x : string) (l : list string) : list string :=
  match l with
  | [] => []
  | y :: l' => if str_eqb x y then l' else drop_until x l'
  end.
Fixpoint take_until (x : string) (l : list string) : list string :=
  match l with
  | [] => []
  | y :: l' => if str_eqb x y then [] else y :: take_until x l'
  end.
Definition ends_with (suf s : string) : bool :=
  let n := String.length s in let k := String.length suf in
  Nat.leb k n && str_eqb (substring (n - k) k s) suf.
Definition count_str (x : string) (l : list string) : nat := List.length (filter (str_eqb x) l).
Definition starts_with_tokens (pre l : list string) : bool := strs_eqb pre (firstn (List.length pre) l).
Definition is_db_write_token (s : string) : bool :=
  prefix "rawdb.Write" s || prefix "rawdb.Delete" s || prefix "rawdb.Create" s || str_eqb s "batch.Write".

(* BodyDb.Append: nothing is written before Apply; Apply is followed by an error return; every rawdb write
   goes to the batch; the batch is written exactly once, after that error return *)
Definition append_writes_batch_only_after_apply : bool :=
  negb (existsb is_db_write_token (take_until "Apply(batch)" skeleton_bodydb_append)) &&
  starts_with_tokens ["if-err{"; "return-err"; "}"] (drop_until "Apply(batch)" skeleton_bodydb_append) &&
  forallb (fun t => negb (prefix "rawdb." t) || ends_with "(batch)" t) skeleton_bodydb_append &&
  Nat.eqb (count_str "batch.Write" skeleton_bodydb_append) 1 &&
  Nat.eqb (count_str "batch.Write" (drop_until "Apply(batch)" skeleton_bodydb_append)) 1.

(* SetCurrentHeader: the canonical hash is the only write before AppendBlock; on error it is deleted again and
   the error returned; head pointers are written only afterwards *)
Definition canonical_hash_deleted_on_error : bool :=
  strs_eqb (filter is_db_write_token (take_until "AppendBlock" skeleton_set_current_header)) ["rawdb.WriteCanonicalHash"] &&
  starts_with_tokens ["if-err{"; "rawdb.DeleteCanonicalHash"; "return-err"; "}"] (drop_until "AppendBlock" skeleton_set_current_header) &&
  negb (existsb (str_eqb "currentHeader.Store") (take_until "AppendBlock" skeleton_set_current_header)) &&
  existsb (str_eqb "currentHeader.Store") (drop_until "AppendBlock" skeleton_set_current_header).

(* Apply: Process and ValidateState come first, each followed by an error return; every write / trie commit comes after *)
Definition is_write (s : string) : bool :=
  existsb (fun p => prefix p s) ["rawdb.Write"; "rawdb.Delete"; "rawdb.Create"; "AddBloom"] ||
  existsb (fun p => str_eqb p s) ["statedb.Commit"; "statedb.CommitEtxs"; "p.stateCache.TrieDB().Commit"; "p.etxCache.TrieDB().Commit"].
Definition apply_validates_before_any_write : bool :=
  negb (existsb is_write (take_until "ValidateState" skeleton_apply)) &&
  match drop_until "Process" skeleton_apply with
  | a :: b :: c :: _ => str_eqb a "if-err{" && str_eqb b "return-err" && str_eqb c "}"
  | _ => false
  end &&
  match drop_until "ValidateState" skeleton_apply with
  | a :: b :: c :: _ => str_eqb a "if-err{" && str_eqb b "return-err" && str_eqb c "}"
  | _ => false
  end &&
  existsb is_write (drop_until "ValidateState" skeleton_apply).

(* the only database write on the validation path that bypasses the block batch is the (empty) address-outpoint
   index initialisation of the first block after genesis *)
Fixpoint pairs_eqb (a b : list (string * string)) : bool :=
  match a, b with
  | [], [] => true
  | (x1, x2) :: a', (y1, y2) :: b' => str_eqb x1 y1 && str_eqb x2 y2 && pairs_eqb a' b'
  | _, _ => false
  end.
Definition no_direct_write_on_validation_path : bool :=
  pairs_eqb direct_writes [("Finalize", "hc.WriteAddressOutpoints")].

(* C20, Qi->Quai destination: the Quai of a conversion is credited by RedeemLockedQuai exactly
   once, by the block at inclusion height + ConversionLockPeriod, with at most the value the ETX
   carries.  Model: C20.eligible / C20.redeem_at / C20.redeem_scan. *)
From Coq Require Import List ZArith NArith Bool Lia Arith.
From Coq Require String.
From GQ Require Import Generated.C20Params Model.C20.
Import ListNotations.
Local Open Scope Z_scope.

Definition convs (c : qchain) (n : Z) : list qetx := filter q_conv (block_at c n).

Lemma filter_false : forall (A : Type) (l : list A), filter (fun _ => false) l = [].
Proof. induction l; cbn; auto. Qed.

(* only the depth equal to the conversion lock period contributes *)
Lemma eligible_filter : forall depths c h,
  eligible depths c h =
  flat_map (fun d => if h <=? d then [] else convs c (h - d))
           (filter (fun d => d =? conversion_lock_period) depths).
Proof.
  induction depths as [|d ds IH]; intros c h; [reflexivity|].
  unfold eligible in *. cbn [flat_map filter]. rewrite IH.
  unfold eligible_at at 1. destruct (d =? conversion_lock_period) eqn:E.
  - cbn [flat_map]. f_equal. destruct (h <=? d); [reflexivity|].
    unfold convs. apply filter_ext. intros e. apply andb_true_r.
  - destruct (h <=? d); [reflexivity|].
    rewrite (filter_ext _ (fun _ => false)); [rewrite filter_false; reflexivity|].
    intros e. apply andb_false_r.
Qed.

Definition period_once (depths : list Z) : Prop :=
  filter (fun d => d =? conversion_lock_period) depths = [conversion_lock_period].

Lemma eligible_spec : forall depths c h, period_once depths ->
  eligible depths c h = if h <=? conversion_lock_period then [] else convs c (h - conversion_lock_period).
Proof.
  intros depths c h Hp. rewrite eligible_filter. rewrite Hp. cbn [flat_map]. apply app_nil_r.
Qed.

(* timing: whatever is paid at height h was included, as a conversion to the Quai ledger, exactly
   ConversionLockPeriod blocks earlier *)
Lemma eligible_timing : forall depths c h e, period_once depths ->
  In e (eligible depths c h) ->
  conversion_lock_period < h /\ In e (block_at c (h - conversion_lock_period)) /\ q_conv e = true.
Proof.
  intros depths c h e Hp Hin. rewrite (eligible_spec _ _ _ Hp) in Hin.
  destruct (h <=? conversion_lock_period) eqn:E; [destruct Hin|].
  apply Z.leb_gt in E. unfold convs in Hin. apply filter_In in Hin. tauto.
Qed.

(* ---------- the scan over all heights ---------- *)

Definition heights (H : nat) : list Z := map Z.of_nat (seq 1 H).

Lemma seq_shift_k : forall k n a, seq (a + k) n = map (fun x => (x + k)%nat) (seq a n).
Proof.
  induction n as [|n IH]; intros a; [reflexivity|].
  cbn [seq map]. f_equal. replace (S (a + k)) with (S a + k)%nat by lia. apply IH.
Qed.

Lemma concat_map_nil : forall (A B : Type) (f : A -> list B) l,
  (forall x, In x l -> f x = []) -> concat (map f l) = [].
Proof.
  induction l as [|x l IH]; intros H; [reflexivity|].
  cbn [map concat]. rewrite (H x) by (left; reflexivity). cbn [app]. apply IH.
  intros y Hy. apply H. right. exact Hy.
Qed.

(* running the step at every height 1..H pays the conversions of the blocks 1..H-period, each
   block once and in order: nothing is paid twice, nothing early, nothing else *)
Lemma scan_pays_each_block_once : forall depths c (H : nat), period_once depths ->
  0 <= conversion_lock_period ->
  concat (map (eligible depths c) (heights H)) =
  concat (map (convs c) (heights (H - Z.to_nat conversion_lock_period))).
Proof.
  intros depths c H Hp Hpos. set (P := conversion_lock_period) in *. set (Pn := Z.to_nat P).
  assert (HP : Z.of_nat Pn = P) by (apply Z2Nat.id; exact Hpos).
  unfold heights. rewrite !map_map.
  destruct (le_lt_dec H Pn) as [Hle|Hgt].
  - replace (H - Pn)%nat with 0%nat by lia. cbn [seq map concat].
    apply concat_map_nil. intros x Hx. apply in_seq in Hx.
    rewrite (eligible_spec _ _ _ Hp). fold P.
    destruct (Z.of_nat x <=? P) eqn:E; [reflexivity|]. apply Z.leb_gt in E. lia.
  - replace H with (Pn + (H - Pn))%nat at 1 by lia. rewrite seq_app, map_app, concat_app.
    rewrite concat_map_nil.
    2:{ intros x Hx. apply in_seq in Hx. rewrite (eligible_spec _ _ _ Hp). fold P.
        destruct (Z.of_nat x <=? P) eqn:E; [reflexivity|]. apply Z.leb_gt in E. lia. }
    cbn [app]. rewrite seq_shift_k, map_map. f_equal. apply map_ext_in. intros x Hx.
    apply in_seq in Hx. rewrite (eligible_spec _ _ _ Hp). fold P.
    destruct (Z.of_nat (x + Pn) <=? P) eqn:E.
    + apply Z.leb_le in E. lia.
    + f_equal. lia.
Qed.

(* ---------- amounts ---------- *)

Definition credit_sum (l : list (N * N * Z)) : Z := fold_right (fun t acc => snd t + acc) 0 l.
Definition value_sum (l : list qetx) : Z := fold_right (fun e acc => q_value e + acc) 0 l.

Lemma credit_sum_app : forall a b, credit_sum (a ++ b) = credit_sum a + credit_sum b.
Proof.
  induction a as [|x a IH]; intros b; cbn [app credit_sum fold_right]; [reflexivity|].
  fold (credit_sum (a ++ b)). fold (credit_sum a). rewrite IH. lia.
Qed.

Lemma pay_sum_le : forall fee l ex out, 0 <= fee -> (forall e, In e l -> 0 <= q_value e) ->
  credit_sum (snd (fold_left (pay_one fee) l (ex, out))) <= credit_sum out + value_sum l.
Proof.
  intros fee l. induction l as [|e l IH]; intros ex out Hf Hv; cbn [fold_left value_sum fold_right].
  - cbn [snd]. lia.
  - fold (value_sum l). assert (He : 0 <= q_value e) by (apply Hv; left; reflexivity).
    assert (Hl : forall e', In e' l -> 0 <= q_value e') by (intros e' H'; apply Hv; right; exact H').
    unfold pay_one at 2. destruct (n_mem (q_to e) ex).
    + specialize (IH ex (out ++ [(q_id e, q_to e, q_value e)]) Hf Hl).
      rewrite credit_sum_app in IH. cbn [credit_sum fold_right snd] in IH. lia.
    + destruct (q_value e <? fee) eqn:E.
      * specialize (IH ex out Hf Hl). lia.
      * specialize (IH (q_to e :: ex) (out ++ [(q_id e, q_to e, q_value e - fee)]) Hf Hl).
        rewrite credit_sum_app in IH. cbn [credit_sum fold_right snd] in IH. lia.
Qed.

Lemma n_mem_mono : forall a x ex, n_mem a ex = true -> n_mem a (x :: ex) = true.
Proof. intros a x ex H. cbn [n_mem]. rewrite H. apply orb_true_r. Qed.

(* existing recipients are credited exactly the value carried by the ETX *)
Lemma pay_exact : forall fee l ex out,
  (forall e, In e l -> n_mem (q_to e) ex = true) ->
  fold_left (pay_one fee) l (ex, out) = (ex, out ++ map (fun e => (q_id e, q_to e, q_value e)) l).
Proof.
  intros fee l. induction l as [|e l IH]; intros ex out H; cbn [fold_left map].
  - rewrite app_nil_r. reflexivity.
  - unfold pay_one at 2. rewrite (H e) by (left; reflexivity).
    rewrite IH by (intros e' H'; apply H; right; exact H').
    rewrite <- app_assoc. reflexivity.
Qed.

(* one height: at most the value of what expires there; exactly that for existing recipients *)
Lemma redeem_at_le : forall depths fee c ex h, period_once depths -> 0 <= fee ->
  (forall e, In e (convs c (h - conversion_lock_period)) -> 0 <= q_value e) ->
  credit_sum (snd (redeem_at depths fee c ex h)) <=
  (if h <=? conversion_lock_period then 0 else value_sum (convs c (h - conversion_lock_period))).
Proof.
  intros depths fee c ex h Hp Hf Hv. unfold redeem_at. rewrite (eligible_spec _ _ _ Hp).
  destruct (h <=? conversion_lock_period).
  - cbn. lia.
  - pose proof (pay_sum_le fee _ ex [] Hf Hv) as H. cbn [credit_sum fold_right] in H. lia.
Qed.

Lemma redeem_at_exact : forall depths fee c ex h, period_once depths ->
  (forall e, In e (convs c (h - conversion_lock_period)) -> n_mem (q_to e) ex = true) ->
  redeem_at depths fee c ex h =
  (ex, if h <=? conversion_lock_period then []
       else map (fun e => (q_id e, q_to e, q_value e)) (convs c (h - conversion_lock_period))).
Proof.
  intros depths fee c ex h Hp He. unfold redeem_at. rewrite (eligible_spec _ _ _ Hp).
  destruct (h <=? conversion_lock_period); [reflexivity|].
  rewrite pay_exact by exact He. reflexivity.
Qed.

(* ---------- what a guard "at least the lock period" would do ---------- *)

Definition eligible_ge (depths : list Z) (c : qchain) (h : Z) : list qetx :=
  flat_map (fun d => if h <=? d then []
                     else filter (fun e => q_conv e && (conversion_lock_period <=? d)) (block_at c (h - d))) depths.
Definition witness_chain : qchain := [(10, [mkQetx 1%N true 1%N 123000000000000000000])].

Lemma at_least_guard_pays_at_every_depth :
  map (fun d => length (eligible_ge lockup_depths witness_chain (10 + d))) lockup_depths = [1; 1; 1; 1]%nat
  /\ map (fun d => length (eligible lockup_depths witness_chain (10 + d))) lockup_depths = [1; 0; 0; 0]%nat.
Proof. vm_compute. split; reflexivity. Qed.

(* ---------- generated data ---------- *)

Definition depths_ok : bool :=
  match filter (fun d => d =? conversion_lock_period) lockup_depths with
  | [p] => (p =? conversion_lock_period)
  | _ => false
  end && (0 <? conversion_lock_period) && forallb (fun d => 0 <? d) lockup_depths
  && (lockup_byte0_depth =? conversion_lock_period) && Nat.eqb (length lockup_depths) 4.
Lemma depths_ok_true : depths_ok = true.
Proof. vm_compute. reflexivity. Qed.

Lemma lockup_depths_period_once : period_once lockup_depths.
Proof. vm_compute. reflexivity. Qed.
Lemma lock_period_pos : 0 <= conversion_lock_period.
Proof. vm_compute. discriminate. Qed.

Module RedeemDigest.
  Import String.
  (* RedeemLockedQuai as reviewed when the model was written (statement shape, see Generated/C20Params.v) *)
  Definition reviewed_redeem_shape_sha256 : string :=
    "d4312b38be608fcf652d63a3a16564c047c51ff95d2b6d8e04c459b96e486e0e"%string.
End RedeemDigest.
Lemma redeem_shape_reviewed :
  redeem_shape_sha256 = RedeemDigest.reviewed_redeem_shape_sha256 /\ redeem_shape_len = 53.
Proof. vm_compute. split; reflexivity. Qed.

Definition nonvac_chain : qchain :=
  [(10, [mkQetx 1%N true 1%N 123000000000000000000; mkQetx 2%N false 2%N 5; mkQetx 3%N true 3%N 1000]);
   (11, [mkQetx 4%N true 1%N 7])].
Lemma redeem_nonvacuous_l :
  redeem_scan lockup_depths 420000000000000 nonvac_chain [1%N]
    [241929; 241930; 241931; 1555210; 3110410; 6307210]
  = [[]; [(1%N, 1%N, 123000000000000000000)]; [(4%N, 1%N, 7)]; []; []; []].
Proof. vm_compute. reflexivity. Qed.

(* C19 -- every transaction the pool holds (pending AND queued) is payable from its sender's
   balance and fits the block gas limit, in every reachable state.
   Between head events the chain state is fixed and the hash index only shrinks except for
   validated additions (sub_all chain); a head event swaps the state, after which
   promoteExecutables filters every queue and demoteUnexecutables every pending list, and
   only re-queues transactions that passed the filter. *)
From Coq Require Import List NArith PeanoNat Bool Lia ZifyBool ZifyNat ZifyN.
From GQ Require Import Model.C19 Proofs.C19_Lists Proofs.C19_Struct Proofs.C19_Ops Proofs.C19_State
  Proofs.C19_Contig Proofs.C19_Cache.
Import ListNotations.
Local Open Scope N_scope.

(* payable relative to a fixed chain state *)
Definition pay_in (S : chainst) (t : tx) : Prop := unpayable (nget (t_from t) (s_bal S)) (s_maxgas S) t = false.
Definition APs (S : chainst) (p : pool) : Prop := forall t, in_all t p -> pay_in S t.
Definition all_pay (p : pool) : Prop := APs (p_st p) p.

(* the hash index of q is included in the one of p *)
Definition sub_all (p q : pool) : Prop := forall t, in_all t q -> in_all t p.

Lemma sa_refl p : sub_all p p.
Proof. intros t H; exact H. Qed.
Lemma sa_trans p q r : sub_all p q -> sub_all q r -> sub_all p r.
Proof. intros A B t H. apply A, B, H. Qed.
Lemma sa_same_map p q : map fst (p_all q) = map fst (p_all p) -> sub_all p q.
Proof. intros E t. unfold in_all. rewrite E. auto. Qed.
Lemma sa_same p q : p_all q = p_all p -> sub_all p q.
Proof. intros E. apply sa_same_map. rewrite E. reflexivity. Qed.
Lemma aps_sub S p q : sub_all p q -> APs S p -> APs S q.
Proof. intros A H t Ht. apply H, A, Ht. Qed.

Definition shrinks (f : pool -> pool) : Prop := forall p, sub_all p (f p).
Lemma shrinks_pres p0 f : shrinks f -> pres (sub_all p0) f.
Proof. intros H p Hp. eapply sa_trans; [exact Hp | apply H]. Qed.

Lemma sa_removed n : shrinks (removed n).
Proof. intros p. apply sa_same. apply removed_fields. Qed.
Lemma sa_all_remove x : shrinks (all_remove x).
Proof. intros p t H. apply in_all_remove in H. apply H. Qed.
Lemma sa_all_remove_list D : shrinks (all_remove_list D).
Proof.
  induction D as [|x D IH]; intros p; cbn; [apply sa_refl|].
  eapply sa_trans; [apply (sa_all_remove x p) | apply IH].
Qed.
Lemma sa_pn_set_if_lower a v : shrinks (pn_set_if_lower a v).
Proof. intros p. apply sa_same. unfold pn_set_if_lower. destruct (_ <=? _); reflexivity. Qed.

Lemma sa_promote_tx c a x : shrinks (promote_tx c a x).
Proof.
  intros p. unfold promote_tx. destruct (l_add _ _ _) as [[pl' [o|]]|].
  - apply (sa_trans _ (removed 1 (all_remove o (set_pend a pl' p)))); [|apply sa_same; reflexivity].
    eapply sa_trans; [|apply sa_removed]. eapply sa_trans; [|apply sa_all_remove]. apply sa_same. reflexivity.
  - apply sa_same. reflexivity.
  - eapply sa_trans; [|apply sa_removed]. apply sa_all_remove.
Qed.
Lemma sa_requeue c x : shrinks (fun p => requeue c x p).
Proof.
  intros p. unfold requeue, enqueue_tx. destruct (l_add _ _ _) as [[q' [o|]]|]; cbn [fst].
  - eapply sa_trans; [|apply sa_removed]. eapply sa_trans; [|apply sa_all_remove]. apply sa_same. reflexivity.
  - apply sa_same. reflexivity.
  - apply sa_refl.
Qed.
Lemma sa_fold {A} (f : pool -> A -> pool) l : (forall x, shrinks (fun p => f p x)) -> shrinks (fun p => fold_left f l p).
Proof.
  intros Hf. induction l as [|x l IH]; intros p; cbn; [apply sa_refl|].
  eapply sa_trans; [apply (Hf x p) | apply IH].
Qed.

Lemma sa_promote_one c a : shrinks (promote_one c a).
Proof.
  intros p. unfold promote_one. destruct (aget a (p_queue p)) as [|q0 qr]; [apply sa_refl|].
  destruct (l_forward _ _) as [fw q1]. destruct (l_filter _ _ _ _) as [[drops inv] q2].
  destruct (l_ready _ _) as [readies q3]. destruct (l_cap _ _) as [caps q4].
  eapply sa_trans; [|apply sa_removed]. eapply sa_trans; [|apply sa_all_remove_list].
  eapply sa_trans; [|apply sa_same; reflexivity].
  eapply sa_trans; [|apply (sa_fold (fun s t => promote_tx c a t s) readies); intros x; apply sa_promote_tx].
  eapply sa_trans; [|apply sa_same; reflexivity].
  eapply sa_trans; [|apply sa_all_remove_list]. eapply sa_trans; [|apply sa_same; reflexivity].
  eapply sa_trans; [|apply sa_all_remove_list]. apply sa_same. reflexivity.
Qed.
Lemma sa_demote_one c a : shrinks (demote_one c a).
Proof.
  intros p. unfold demote_one. destruct (l_forward _ _) as [olds l1]. destruct (l_filter _ _ _ _) as [[drops invalids] l2].
  assert (H4 : sub_all p (fold_left (fun s t => requeue c t s) invalids (all_remove_list drops (set_pend a l2 (all_remove_list olds (set_pend a l1 p)))))).
  { eapply sa_trans; [|apply (sa_fold (fun s t => requeue c t s) invalids); intros x; apply sa_requeue].
    eapply sa_trans; [|apply sa_all_remove_list]. eapply sa_trans; [|apply sa_same; reflexivity].
    eapply sa_trans; [|apply sa_all_remove_list]. apply sa_same. reflexivity. }
  destruct l2 as [|y l2']; [exact H4|]. destruct (l_get _ _); [exact H4|].
  eapply sa_trans; [|apply (sa_fold (fun s t => requeue c t s) (y :: l2')); intros x; apply sa_requeue].
  eapply sa_trans; [exact H4|]. apply sa_same. reflexivity.
Qed.
Lemma sa_remove_tx c t ob : shrinks (remove_tx c t ob).
Proof.
  intros p. unfold remove_tx. destruct (negb _); [apply sa_refl|].
  assert (H2 : sub_all p (if ob then removed 1 (all_remove t p) else all_remove t p)).
  { destruct ob; [eapply sa_trans; [|apply sa_removed]|]; apply sa_all_remove. }
  destruct (l_get _ _).
  - destruct (l_remove_strict _ _) as [invalids pl'].
    eapply sa_trans; [|apply sa_pn_set_if_lower].
    eapply sa_trans; [|apply (sa_fold (fun s x => requeue c x s) invalids); intros x; apply sa_requeue].
    eapply sa_trans; [exact H2|]. apply sa_same. reflexivity.
  - eapply sa_trans; [exact H2|]. apply sa_same. reflexivity.
Qed.
Lemma sa_drop_last a : shrinks (drop_last a).
Proof.
  intros p. unfold drop_last. destruct (rev _); [apply sa_refl|].
  eapply sa_trans; [|apply sa_removed]. eapply sa_trans; [|apply sa_pn_set_if_lower].
  eapply sa_trans; [|apply sa_all_remove]. apply sa_same. reflexivity.
Qed.
Lemma sa_fix_nonces : shrinks fix_nonces.
Proof. intros p. apply sa_same_map. apply (fix_nonces_same p). Qed.

Lemma sa_tail c qo : shrinks (fun p => fix_nonces (truncate_queue c qo (truncate_pending c p))).
Proof.
  intros p. eapply sa_trans; [|apply sa_fix_nonces].
  apply (truncate_queue_pres (sub_all p)); [intros t; apply shrinks_pres, sa_remove_tx|].
  apply (truncate_pending_pres (sub_all p)); [intros a; apply shrinks_pres, sa_drop_last|apply sa_refl].
Qed.
Lemma sa_promote_list c l : shrinks (promote_list c l).
Proof. apply (sa_fold (fun s a => promote_one c a s) l). intros a. apply sa_promote_one. Qed.
Lemma sa_set_gas_price c g : shrinks (set_gas_price c g).
Proof.
  intros p. unfold set_gas_price. destruct (_ <? _); [|apply sa_same; reflexivity].
  eapply sa_trans; [|apply sa_removed].
  eapply sa_trans; [|apply (sa_fold (fun s t => remove_tx c t false s)); intros x; apply sa_remove_tx].
  apply sa_same. reflexivity.
Qed.

(* ---------- add: the only growth is a validated transaction ---------- *)
Lemma in_all_same p q t : map fst (p_all q) = map fst (p_all p) -> in_all t q -> in_all t p.
Proof. unfold in_all. intros ->. auto. Qed.

Lemma locals_step_all l p t :
  in_all t (let '(p'', m) := remote_to_locals (set_locals l p) in removed m p'') -> in_all t p.
Proof.
  unfold remote_to_locals. intros H. apply (sa_removed _ _) in H. unfold in_all in *. psimpl.
  rewrite map_map in H. cbn [fst] in H. exact H.
Qed.

Lemma add_all c t loc p x :
  in_all x (fst (fst (add c t loc p))) -> in_all x p \/ (x = t /\ validate p t = None).
Proof.
  unfold add. destruct (all_has t p); [auto|]. destruct (validate p t) eqn:Ev; [auto|].
  destruct (_ <? _); [cbn; unfold in_all; psimpl; auto|].
  destruct (l_get _ _).
  - destruct (l_add _ _ _) as [[pl' [o|]]|]; cbn [fst]; [| |auto].
    + intros H. apply (in_all_same _ _ _ (proj2 (proj2 (same_heap_put _ _ _)))) in H.
      apply in_all_add in H. destruct H as [->|H]; [right; auto|left].
      apply (sa_removed _ _) in H. apply (sa_all_remove _ _) in H. exact H.
    + intros H. apply (in_all_same _ _ _ (proj2 (proj2 (same_heap_put _ _ _)))) in H.
      apply in_all_add in H. destruct H as [->|H]; [right; auto|left]. exact H.
  - unfold enqueue_tx. destruct (l_add _ _ _) as [[q' old]|]; [|auto].
    match goal with |- in_all _ (fst (fst (if ?b then _ else ?p1, _, _))) -> _ =>
      assert (H1 : in_all x p1 -> in_all x p \/ (x = t /\ @None verdict = None)) end.
    { intros H. apply (in_all_same _ _ _ (proj2 (proj2 (same_heap_put _ _ _)))) in H.
      apply in_all_add in H. destruct H as [->|H]; [right; auto|left]. destruct old as [o|].
      - apply (sa_removed _ _) in H. apply (sa_all_remove _ _) in H. exact H.
      - exact H. }
    cbn [fst]. destruct (_ && _); [|exact H1]. intros H. apply locals_step_all in H. apply H1. exact H.
Qed.

Lemma add_view_st c t loc p : p_st (fst (fst (add c t loc p))) = p_st p.
Proof. destruct (add c t loc p) as [[p1 v] r] eqn:Ea. destruct (add_view _ _ _ _ _ _ _ Ea) as [E _]. exact E. Qed.

Lemma add_ap c t loc p : all_pay p -> all_pay (fst (fst (add c t loc p))).
Proof.
  unfold all_pay. rewrite add_view_st. intros H x Hx. destruct (add_all _ _ _ _ _ Hx) as [Hin|[-> Ev]].
  - apply H, Hin.
  - apply validate_ok in Ev. destruct Ev as [_ Ev]. exact Ev.
Qed.
Lemma add_locked_ap c txs loc p : all_pay p -> all_pay (fst (fst (add_locked c txs loc p))).
Proof.
  revert p. induction txs as [|t r IH]; intros p H; cbn; [exact H|].
  pose proof (add_ap c t loc p H) as X. destruct (add c t loc p) as [[p1 v] rep]. cbn [fst] in X.
  specialize (IH p1 X). destruct (add_locked c r loc p1) as [[p2 vs] d]. exact IH.
Qed.

(* an operation that keeps the chain state and shrinks the index keeps all_pay *)
Lemma shrink_ap f p : shrinks f -> p_st (f p) = p_st p -> all_pay p -> all_pay (f p).
Proof. unfold all_pay. intros A E H. rewrite E. eapply aps_sub; [apply A | exact H]. Qed.

(* ---------- all_pay and the lists ---------- *)
Definition QP (p : pool) : Prop := forall a t, In t (aget a (p_queue p)) -> payable p a t.
Definition PP (p : pool) : Prop := forall a t, In t (aget a (p_pend p)) -> payable p a t.

Lemma lists_all_pay p : Inv0 p -> QP p -> PP p -> all_pay p.
Proof.
  intros H0 HQ HP t Ht. apply (ir_all _ _ _ H0) in Ht. destruct Ht as [Ht|[Ht|[]]].
  - apply (HP _ _ Ht).
  - apply (HQ _ _ Ht).
Qed.
Lemma all_pay_lists p : Inv0 p -> all_pay p -> QP p /\ PP p.
Proof.
  intros H0 H. split; intros a t Ht.
  - destruct (ir_queue _ _ _ H0 a) as [_ Ow]. pose proof (Ow t Ht) as E. subst a.
    apply (H t). apply (ir_all _ _ _ H0). right; left; exact Ht.
  - destruct (ir_pend _ _ _ H0 a) as [_ Ow]. pose proof (Ow t Ht) as E. subst a.
    apply (H t). apply (ir_all _ _ _ H0). left; exact Ht.
Qed.

(* ---------- the reset phase: promoteExecutables filters every queue ---------- *)
Lemma payable_st p q a t : p_st q = p_st p -> payable p a t -> payable q a t.
Proof. unfold payable, st_bal. intros ->. auto. Qed.

Lemma firstn_in' {A} k (l : list A) x : In x (firstn k l) -> In x l.
Proof. apply firstn_in. Qed.

(* the queue of the processed account afterwards: a part of what Filter kept *)
Lemma promote_one_queue_self c a p t :
  In t (aget a (p_queue (promote_one c a p))) -> aget a (p_queue p) <> [] -> payable p a t.
Proof.
  unfold promote_one. destruct (aget a (p_queue p)) as [|q0 qr] eqn:Eq; [intros _ F; exfalso; apply F; reflexivity|].
  intros H _. revert H.
  destruct (l_forward (st_nonce p a) (q0 :: qr)) as [fw q1].
  destruct (l_filter false (st_bal p a) (s_maxgas (p_st p)) q1) as [[drops inv] q2] eqn:EF.
  destruct (l_ready _ _) as [readies q3] eqn:ER. destruct (l_cap _ _) as [caps q4] eqn:EC.
  destruct (removed_fields (len fw + len drops + len caps) (all_remove_list caps (set_queue a q4 (fold_left (fun s t => promote_tx c a t s) readies (set_queue a q3 (all_remove_list drops (set_queue a q2 (all_remove_list fw (set_queue a q1 p))))))))) as [_ [E _]].
  rewrite E. rewrite aget_queue_after_drop. intros H.
  assert (H3 : In t q3).
  { unfold l_cap in EC. inversion EC; subst. eapply firstn_in. exact H. }
  assert (H2 : In t q2).
  { destruct (l_ready_split _ _ _ _ ER) as [Es _]. rewrite Es. apply in_or_app. right. exact H3. }
  pose proof (l_filter_keep _ _ _ _ _ _ _ EF t) as [K _]. destruct (K (or_intror H2)) as [_ U]. exact U.
Qed.

Lemma promote_one_queue_other c a b p : b <> a -> aget b (p_queue (promote_one c a p)) = aget b (p_queue p).
Proof.
  intros Hb. unfold promote_one. destruct (aget a (p_queue p)) as [|q0 qr]; [reflexivity|].
  destruct (l_forward _ _) as [fw q1]. destruct (l_filter _ _ _ _) as [[drops inv] q2].
  destruct (l_ready _ _) as [readies q3]. destruct (l_cap _ _) as [caps q4].
  destruct (removed_fields (len fw + len drops + len caps) (all_remove_list caps (set_queue a q4 (fold_left (fun s t => promote_tx c a t s) readies (set_queue a q3 (all_remove_list drops (set_queue a q2 (all_remove_list fw (set_queue a q1 p))))))))) as [_ [E _]].
  rewrite E. destruct (all_remove_list_fields caps (set_queue a q4 (fold_left (fun s t => promote_tx c a t s) readies (set_queue a q3 (all_remove_list drops (set_queue a q2 (all_remove_list fw (set_queue a q1 p)))))))) as [_ [E1 _]].
  rewrite E1. psimpl. rewrite aget_aset_other by auto.
  destruct (promote_list_fields c a readies (set_queue a q3 (all_remove_list drops (set_queue a q2 (all_remove_list fw (set_queue a q1 p)))))) as [E2 _].
  cbn zeta in E2. rewrite E2. psimpl. rewrite aget_aset_other by auto.
  destruct (all_remove_list_fields drops (set_queue a q2 (all_remove_list fw (set_queue a q1 p)))) as [_ [E3 _]]. rewrite E3. psimpl.
  rewrite aget_aset_other by auto.
  destruct (all_remove_list_fields fw (set_queue a q1 p)) as [_ [E4 _]]. rewrite E4. psimpl. apply aget_aset_other. auto.
Qed.

(* the queue of an account is payable: kept by every promote_one, established by its own *)
Definition QPa (p : pool) (a : N) : Prop := forall t, In t (aget a (p_queue p)) -> payable p a t.

Lemma promote_one_QPa_keep c a b p : QPa p b -> QPa (promote_one c a p) b.
Proof.
  intros H t Ht. apply (payable_st p); [apply promote_one_st|].
  destruct (N.eq_dec b a) as [->|Hne].
  - destruct (aget a (p_queue p)) as [|q0 qr] eqn:Eq.
    + unfold promote_one in Ht. rewrite Eq in Ht. rewrite Eq in Ht. destruct Ht.
    + apply (promote_one_queue_self c a p t Ht). rewrite Eq. discriminate.
  - rewrite promote_one_queue_other in Ht by exact Hne. apply H, Ht.
Qed.
Lemma promote_one_QPa_self c a p : QPa (promote_one c a p) a.
Proof.
  intros t Ht. apply (payable_st p); [apply promote_one_st|].
  destruct (aget a (p_queue p)) as [|q0 qr] eqn:Eq.
  - unfold promote_one in Ht. rewrite Eq in Ht. rewrite Eq in Ht. destruct Ht.
  - apply (promote_one_queue_self c a p t Ht). rewrite Eq. discriminate.
Qed.

Lemma promote_list_QPa_keep c l b p : QPa p b -> QPa (promote_list c l p) b.
Proof.
  unfold promote_list. revert p. induction l as [|a l IH]; intros p H; cbn; [exact H|].
  apply IH. apply promote_one_QPa_keep. exact H.
Qed.
Lemma promote_list_QPa_in c l b p : In b l -> QPa (promote_list c l p) b.
Proof.
  unfold promote_list. revert p. induction l as [|a l IH]; intros p Hin; [destruct Hin|]. cbn.
  destruct Hin as [->|Hin].
  - apply (promote_list_QPa_keep c l b). apply promote_one_QPa_self.
  - apply IH. exact Hin.
Qed.

Lemma promote_all_QP c p : QP (promote_list c (akeys (p_queue p)) p).
Proof.
  intros b. destruct (in_dec N.eq_dec b (akeys (p_queue p))) as [Hin|Hnin].
  - apply promote_list_QPa_in. exact Hin.
  - apply promote_list_QPa_keep. intros t Ht. rewrite (aget_notin b _ Hnin) in Ht. destruct Ht.
Qed.

(* ---------- demoteUnexecutables re-queues only what passed the filter ---------- *)
Lemma requeue_QP c x p : QP p -> payable p (t_from x) x -> QP (requeue c x p).
Proof.
  intros H Hx b t. destruct (requeue_fields c x p) as [_ [Est _]].
  intros Ht. apply (payable_st p); [exact Est|]. revert Ht.
  unfold requeue, enqueue_tx. destruct (l_add x (c_bump c) (aget (t_from x) (p_queue p))) as [[q' old]|] eqn:EA; cbn [fst].
  - assert (Eq : p_queue (match old with Some o => removed 1 (all_remove o (set_queue (t_from x) q' p)) | None => set_queue (t_from x) q' p end)
                = aset (t_from x) q' (p_queue p)).
    { destruct old as [o|]; [|reflexivity]. destruct (removed_fields 1 (all_remove o (set_queue (t_from x) q' p))) as [_ [B _]]. rewrite B. reflexivity. }
    rewrite Eq. rewrite aget_aset. destruct (t_from x =? b) eqn:E.
    + assert (b = t_from x) by lia. subst b. intros Ht. destruct (l_add_in _ _ _ _ _ _ EA Ht) as [->|Hin]; [exact Hx | apply H, Hin].
    + apply H.
  - apply H.
Qed.
Lemma requeue_list_QP c D p : QP p -> (forall x, In x D -> payable p (t_from x) x) ->
  QP (fold_left (fun s t => requeue c t s) D p).
Proof.
  revert p. induction D as [|x D IH]; intros p H HD; cbn; [exact H|].
  apply IH.
  - apply requeue_QP; [exact H | apply HD; left; reflexivity].
  - intros y Hy. apply (payable_st p); [apply requeue_fields|]. apply HD. right; exact Hy.
Qed.

Lemma QP_same p q : p_queue q = p_queue p -> p_st q = p_st p -> QP p -> QP q.
Proof. intros E1 E2 H a t. unfold payable, st_bal. rewrite E1, E2. apply H. Qed.

Lemma demote_one_QP c a p : Inv0 p -> QP p -> QP (demote_one c a p).
Proof.
  intros H0 H. unfold demote_one.
  destruct (l_forward (st_nonce p a) (aget a (p_pend p))) as [olds l1] eqn:EFw.
  set (p1 := all_remove_list olds (set_pend a l1 p)).
  assert (E1 : p_queue p1 = p_queue p /\ p_st p1 = p_st p).
  { destruct (all_remove_list_fields olds (set_pend a l1 p)) as [_ [A [_ [B _]]]]. fold p1 in A, B. rewrite A, B. split; reflexivity. }
  destruct E1 as [E1q E1s].
  destruct (l_filter true (st_bal p a) (s_maxgas (p_st p)) l1) as [[drops invalids] l2] eqn:EF.
  set (p2 := all_remove_list drops (set_pend a l2 p1)).
  assert (E2 : p_queue p2 = p_queue p /\ p_st p2 = p_st p).
  { destruct (all_remove_list_fields drops (set_pend a l2 p1)) as [_ [A [_ [B _]]]]. fold p2 in A, B. rewrite A, B. psimpl. split; assumption. }
  destruct E2 as [E2q E2s].
  assert (Q2 : QP p2) by (apply (QP_same p); assumption).
  (* what Filter kept (invalids and l2) belongs to account a and is payable *)
  assert (Hl1 : forall x, In x l1 -> In x (aget a (p_pend p))).
  { intros x Hx. assert (E : l1 = snd (l_forward (st_nonce p a) (aget a (p_pend p)))) by (rewrite EFw; reflexivity).
    rewrite E in Hx. apply l_forward_snd in Hx. apply Hx. }
  assert (Hk : forall x, In x invalids \/ In x l2 -> payable p2 (t_from x) x).
  { intros x Hx. pose proof (l_filter_keep _ _ _ _ _ _ _ EF x) as [K _]. destruct (K Hx) as [Hin U].
    destruct (ir_pend _ _ _ H0 a) as [_ Ow]. rewrite (Ow x (Hl1 x Hin)).
    unfold payable, st_bal. rewrite E2s. exact U. }
  set (p4 := fold_left (fun s t => requeue c t s) invalids p2).
  assert (Q4 : QP p4).
  { apply requeue_list_QP; [exact Q2|]. intros x Hx. apply Hk. left; exact Hx. }
  destruct l2 as [|y l2'] eqn:El2; [exact Q4|]. destruct (l_get _ _); [exact Q4|].
  assert (E4s : p_st p4 = p_st p2) by (apply requeue_list_fields).
  apply requeue_list_QP.
  - apply (QP_same p4); [reflexivity | reflexivity | exact Q4].
  - intros x Hx. apply (payable_st p2); [psimpl; exact E4s|]. apply Hk. right. exact Hx.
Qed.

Lemma demote_all_QP c p : Inv0 p -> QP p -> QP (demote_all c p).
Proof.
  unfold demote_all. generalize (akeys (p_pend p)) as l. intros l. revert p.
  induction l as [|a l IH]; intros p H0 H; cbn; [exact H|].
  apply IH; [apply demote_one_inv0; exact H0 | apply demote_one_QP; assumption].
Qed.

(* ---------- one run, one step, every history ---------- *)
Lemma W_PP p : W p -> PP p.
Proof. intros H a t Ht. apply (w_pay _ _ (H a)). exact Ht. Qed.

Lemma tail_ap c qo p : all_pay p -> all_pay (fix_nonces (truncate_queue c qo (truncate_pending c p))).
Proof. intros H. apply (shrink_ap (fun q => fix_nonces (truncate_queue c qo (truncate_pending c q)))); [apply sa_tail | apply tail_st | exact H]. Qed.

Lemma promote_list_st c l p : p_st (promote_list c l p) = p_st p.
Proof.
  unfold promote_list. revert p. induction l as [|a l IH]; intros p; cbn; [reflexivity|]. rewrite IH. apply promote_one_st.
Qed.

Lemma run_ap c rs dirty qo p : IW p -> all_pay p -> all_pay (run c rs dirty qo p).
Proof.
  intros [H0 HW] HA. unfold run. destruct rs as [r|]; apply tail_ap.
  - pose proof (do_reset_IWR c r p H0) as I1.
    apply promote_list_IWR with (c := c) (l := akeys (p_queue (do_reset c r p))) in I1. destruct I1 as [A B].
    pose proof (promote_all_QP c (do_reset c r p)) as Q2.
    destruct (demote_all_IW c _ A B) as [A' B'].
    pose proof (demote_all_QP c _ A Q2) as Q3.
    apply lists_all_pay.
    + eapply invr_same; [|exact A']. repeat split.
    + apply (QP_same (demote_all c (promote_list c (akeys (p_queue (do_reset c r p))) (do_reset c r p)))); [reflexivity | reflexivity | exact Q3].
    + apply W_PP. eapply sv_W; [|exact B']. repeat split.
  - apply (shrink_ap (promote_list c dirty)); [apply sa_promote_list | apply promote_list_st | exact HA].
Qed.

Lemma set_gas_price_st c g p : p_st (set_gas_price c g p) = p_st p.
Proof.
  pose proof (step_st c p (OSetGasPrice g) []) as E. cbn in E.
  rewrite run_st in E. exact E.
Qed.

Definition IWTA (p : pool) : Prop := IWT p /\ all_pay p.

Lemma step_IWTA c p o qo : IWTA p -> IWTA (fst (step c p o qo)).
Proof.
  intros [HI HA]. split; [apply step_IWT; exact HI|].
  destruct HI as [H0 [HW _]]. destruct o as [loc txs|g|r|]; cbn.
  - assert (I1 : IW (fst (fst (add_txs c txs loc p))) /\ all_pay (fst (fst (add_txs c txs loc p)))).
    { unfold add_txs. set (news := filter (fun t => negb (all_has t p)) txs).
      assert (G : forall l q, IW q -> IW (fst (fst (add_locked c l loc q)))).
      { induction l as [|t l IH]; intros q [A B]; cbn; [split; assumption|].
        pose proof (add_inv0 c t loc q A) as X1. pose proof (add_W c t loc q A B) as X2.
        destruct (add c t loc q) as [[q1 v] rep]. cbn [fst] in *.
        specialize (IH q1 (conj X1 X2)). destruct (add_locked c l loc q1) as [[q2 vs] d]. exact IH. }
      specialize (G news p (conj H0 HW)). pose proof (add_locked_ap c news loc p HA) as G2.
      destruct (add_locked c news loc p) as [[p1 vs] d]. split; [exact G | exact G2]. }
    destruct (add_txs c txs loc p) as [[p1 vs] d]. cbn [fst] in *. destruct I1 as [I1 I2]. apply run_ap; assumption.
  - apply run_ap; [apply set_gas_price_IW; split; assumption|].
    apply (shrink_ap (set_gas_price c g)); [apply sa_set_gas_price | apply set_gas_price_st | exact HA].
  - apply run_ap; [split; assumption | exact HA].
  - apply run_ap; [split; assumption | exact HA].
Qed.

Lemma init_IWTA pl st : IWTA (init pl st).
Proof. split; [apply init_IWT|]. intros t Ht. destruct Ht. Qed.

Lemma run_hist_IWTA c h p : IWTA p -> IWTA (run_hist c p h).
Proof. revert p. induction h as [|[o qo] h IH]; intros p H; cbn; [exact H|]. apply IH, step_IWTA, H. Qed.

(* every queued and every pending transaction of a reachable state is payable *)
Lemma reachable_lists_payable c pl st h a t :
  let p := run_hist c (init pl st) h in
  In t (aget a (p_pend p)) \/ In t (aget a (p_queue p)) ->
  cost t <= st_bal p a /\ t_gas t <= s_maxgas (p_st p).
Proof.
  cbv zeta. intros Ht. destruct (run_hist_IWTA c h (init pl st) (init_IWTA pl st)) as [[H0 _] HA].
  destruct (all_pay_lists _ H0 HA) as [HQ HP].
  assert (U : payable (run_hist c (init pl st) h) a t) by (destruct Ht as [Ht|Ht]; [apply HP | apply HQ]; exact Ht).
  unfold payable, unpayable in U. apply orb_false_iff in U. destruct U as [U1 U2].
  apply N.ltb_ge in U1. apply N.ltb_ge in U2. split; assumption.
Qed.

(* inductive form *)
Lemma lists_payable_preserved c p o qo : IWTA p -> IWTA (fst (step c p o qo)).
Proof. apply step_IWTA. Qed.

(* non-vacuity: a queued replacement that costs more than anything queued before is dropped
   by the head event whose balance is one below its cost (and kept at exactly its cost) *)
Definition qp_cfg := Cfg 10 16 64 16 256.
Definition qp_hist (bal : N) : list (op * list N) :=
  [(OAdd false [T 0 2 10 21000 1000; T 0 3 10 21000 500], []);
   (OAdd false [T 0 3 20 21000 500], []);
   (OHead (Reset (St [] [(0, bal)] 1 5000000) [] []), [])].
Lemma qp_nonvacuous_lemma :
  aget 0 (p_queue (run_hist qp_cfg (init 1 (St [] [(0,10000000)] 1 5000000)) (qp_hist 420500))) = [T 0 2 10 21000 1000; T 0 3 20 21000 500]
  /\ aget 0 (p_queue (run_hist qp_cfg (init 1 (St [] [(0,10000000)] 1 5000000)) (qp_hist 420499))) = [T 0 2 10 21000 1000].
Proof. vm_compute. split; reflexivity. Qed.

(* C15 (B) — lemmas about the metered machine of Model/C15.v *)
From Coq Require Import List NArith Bool String Lia ZifyBool ZifyN.
From GQ Require Import Lib.C15_Row Generated.C15JumpTable Model.C15.
Import ListNotations.
Local Open Scope N_scope.

(* ------------------------------------------------------------------ *)
(* arithmetic of the fee                                               *)

Lemma mem_gas_monotone : forall a b, a <= b -> mem_gas a <= mem_gas b.
Proof.
  intros a b Hab. unfold mem_gas.
  apply N.add_le_mono.
  - apply N.mul_le_mono_l; exact Hab.
  - apply N.div_le_mono; [discriminate|]. apply N.mul_le_mono; exact Hab.
Qed.

Lemma mem_gas_0 : mem_gas 0 = 0.
Proof. reflexivity. Qed.

Lemma mem_gas_linear : forall w, 3 * w <= mem_gas w.
Proof. intros w. unfold mem_gas. lia. Qed.

Lemma mem_gas_quadratic : forall w, w * w <= 512 * mem_gas w + 511.
Proof.
  intros w. unfold mem_gas.
  pose proof (N.div_mod (w * w) 512 ltac:(discriminate)) as Hdm.
  pose proof (N.mod_upper_bound (w * w) 512 ltac:(discriminate)) as Hub.
  lia.
Qed.

(* what a budget of G gas can buy: w words with w <= sqrt(512 G + 511) and 3 w <= G *)
Lemma mem_gas_bound_words : forall w G, mem_gas w <= G -> w <= N.sqrt (512 * G + 511) /\ 3 * w <= G.
Proof.
  intros w G H. split.
  - apply N.sqrt_le_square. pose proof (mem_gas_quadratic w). lia.
  - pose proof (mem_gas_linear w). lia.
Qed.

Lemma mem_gas_fits_u64 : forall w, w * 32 <= MAXMEM -> mem_gas w < U64.
Proof.
  intros w H. assert (Hw : w <= 4294967295) by (unfold MAXMEM in H; lia).
  pose proof (mem_gas_monotone _ _ Hw) as Hm.
  assert (Hc : mem_gas 4294967295 < U64) by (vm_compute; reflexivity).
  lia.
Qed.

Lemma to_words_mul32 : forall w, to_words (w * 32) = w.
Proof.
  intros w. unfold to_words. symmetry.
  apply (N.div_unique (w * 32 + 31) 32 w 31); lia.
Qed.

Lemma to_words_ge : forall b, b <= to_words b * 32.
Proof.
  intros b. unfold to_words.
  pose proof (N.div_mod (b + 31) 32 ltac:(discriminate)) as Hdm.
  pose proof (N.mod_upper_bound (b + 31) 32 ltac:(discriminate)) as Hub.
  lia.
Qed.

(* ------------------------------------------------------------------ *)
(* shape of the requested size                                          *)

Lemma mem_size_of_shape : forall r req ms,
  mem_size_of r req = Some ms -> exists w0, ms = w0 * 32 /\ ms < U64.
Proof.
  intros r req ms. unfold mem_size_of.
  destruct (r_has_mem r).
  - destruct req as [m|]; [|discriminate].
    destruct (U64 <=? to_words m * 32) eqn:E; [discriminate|].
    intros H; inversion H; subst. exists (to_words m). split; [reflexivity|]. apply N.leb_gt in E. exact E.
  - intros H; inversion H; subst. exists 0. split; [reflexivity|]. reflexivity.
Qed.

Lemma mem_size_of_nomem : forall r req, r_has_mem r = false -> mem_size_of r req = Some 0.
Proof. intros r req H. unfold mem_size_of. rewrite H. reflexivity. Qed.

(* ------------------------------------------------------------------ *)
(* the invariant of a frame                                             *)

(* k = number of words whose fee has been charged so far (lastGasCost = mem_gas k).
   Memory holds at least those words, and at most max(those, U) where U bounds what
   unmetered rows were asked for. *)
Definition inv_k (U : N) (s : mstate) (k : N) : Prop :=
  m_last s = mem_gas k /\ 32 * k <= m_mem s /\ m_mem s <= N.max (32 * k) U.

Lemma inv_k_init : forall U G, inv_k U (init G) 0.
Proof. intros U G. unfold inv_k, init; cbn. repeat split; lia. Qed.

Lemma resize_ge : forall mem ms, mem <= resize mem ms.
Proof. intros mem ms. unfold resize. destruct (0 <? ms); lia. Qed.

Lemma resize_le_max : forall mem ms, resize mem ms <= N.max mem ms.
Proof. intros mem ms. unfold resize. destruct (0 <? ms); lia. Qed.

Lemma resize_0 : forall mem, resize mem 0 = mem.
Proof. intros mem. reflexivity. Qed.

(* memoryGasCost: the fee is exactly the difference of the totals and never wraps *)
Lemma memory_gas_cost_spec : forall U s k w0 fee l',
  inv_k U s k ->
  memory_gas_cost s (w0 * 32) = Some (fee, l') ->
  exists k', l' = mem_gas k' /\ k <= k' /\ fee + mem_gas k = mem_gas k' /\
             32 * k' <= resize (m_mem s) (w0 * 32) /\
             resize (m_mem s) (w0 * 32) <= N.max (32 * k') U.
Proof.
  intros U s k w0 fee l' (Hl & Hlo & Hhi) H.
  unfold memory_gas_cost in H.
  destruct (w0 * 32 =? 0) eqn:E0.
  - apply N.eqb_eq in E0. inversion H; subst. exists k. rewrite E0, resize_0.
    split; [exact Hl|]. repeat split; lia.
  - apply N.eqb_neq in E0.
    destruct (MAXMEM <? w0 * 32) eqn:Emax; [discriminate|]. apply N.ltb_ge in Emax.
    rewrite to_words_mul32 in H.
    destruct (m_mem s <? w0 * 32) eqn:Egrow.
    + apply N.ltb_lt in Egrow.
      assert (Hk : k <= w0) by lia.
      pose proof (mem_gas_monotone _ _ Hk) as Hmono.
      pose proof (mem_gas_fits_u64 _ Emax) as Hfit.
      inversion H; subst; clear H.
      exists w0. split; [reflexivity|]. split; [exact Hk|].
      assert (Hres : resize (m_mem s) (w0 * 32) = w0 * 32).
      { unfold resize. destruct (0 <? w0 * 32) eqn:Ez; [lia|]. apply N.ltb_ge in Ez. lia. }
      rewrite Hres. rewrite Hl.
      replace (mem_gas w0 + U64 - mem_gas k) with ((mem_gas w0 - mem_gas k) + 1 * U64) by lia.
      rewrite N.mod_add by discriminate.
      rewrite N.mod_small by lia.
      repeat split; lia.
    + apply N.ltb_ge in Egrow. inversion H; subst; clear H.
      exists k. split; [exact Hl|]. split; [lia|]. split; [lia|].
      assert (Hres : resize (m_mem s) (w0 * 32) = m_mem s).
      { unfold resize. destruct (0 <? w0 * 32); lia. }
      rewrite Hres. split; lia.
Qed.

(* the non-memory part of the dynamic gas actually charged by a row *)
Definition other_of (r : row) (a : args) : N :=
  if r_has_dyn r then match a_other a with Some o => o | None => 0 end else 0.

(* the request of this step is admissible w.r.t. the bound U on unmetered growth *)
Definition step_req_ok (T : table) (U : N) (op : N) (a : args) : bool :=
  match lookup T op with
  | None => true
  | Some r =>
    if row_metered r then true
    else match mem_size_of r (a_req a) with Some ms => ms <=? U | None => true end
  end.

Definition req_bounded (T : table) (U : N) (p : prog) : bool :=
  forallb (fun oa => step_req_ok T U (fst oa) (snd oa)) p.

(* The accounting of one step, for any table. *)
Lemma step_acct : forall T U op a s k v s',
  inv_k U s k ->
  step_req_ok T U op a = true ->
  step T op a s = (v, s') ->
  match v with
  | VOk => exists r k', lookup T op = Some r /\ inv_k U s' k' /\ k <= k' /\
                        m_gas s' + a_cgas a + other_of r a + mem_gas k' <= m_gas s + mem_gas k
  | _ => m_mem s' = m_mem s /\ m_gas s' <= m_gas s
  end.
Proof.
  intros T U op a s k v s' Hinv Hreq Hstep.
  unfold step in Hstep. unfold step_req_ok in Hreq.
  destruct (lookup T op) as [r|] eqn:Hlk.
  2:{ inversion Hstep; subst. split; [reflexivity|lia]. }
  destruct (a_stack a <? r_min r). { inversion Hstep; subst. split; [reflexivity|lia]. }
  destruct (r_max r <? a_stack a). { inversion Hstep; subst. split; [reflexivity|lia]. }
  destruct (m_gas s <? a_cgas a) eqn:Ecg. { inversion Hstep; subst. split; [reflexivity|lia]. }
  apply N.ltb_ge in Ecg.
  set (s1 := mkM (m_gas s - a_cgas a) (m_mem s) (m_last s)) in *.
  assert (Hinv1 : inv_k U s1 k) by (destruct Hinv as (A & B & C); unfold inv_k, s1; cbn; auto).
  destruct (mem_size_of r (a_req a)) as [ms|] eqn:Hms.
  2:{ inversion Hstep; subst. cbn. split; [reflexivity|lia]. }
  destruct (mem_size_of_shape _ _ _ Hms) as (w0 & Hw0 & Hlt64).
  (* the effect of the dynamic part, in a uniform shape *)
  assert (Hdyn : forall d l',
            (if r_has_dyn r then dyn_gas r a s1 ms else Some (0, m_last s1)) = Some (d, l') ->
            exists k', l' = mem_gas k' /\ k <= k' /\ other_of r a + mem_gas k' <= d + mem_gas k /\
                       32 * k' <= resize (m_mem s1) ms /\ resize (m_mem s1) ms <= N.max (32 * k') U).
  { intros d l' Hd.
    destruct Hinv1 as (Hl1 & Hlo1 & Hhi1).
    assert (Hunm : forall (Hc : (r_has_dyn r && r_charges r) = false),
              32 * k <= resize (m_mem s1) ms /\ resize (m_mem s1) ms <= N.max (32 * k) U).
    { intros Hc. split; [pose proof (resize_ge (m_mem s1) ms); lia|].
      pose proof (resize_le_max (m_mem s1) ms) as Hr.
      unfold row_metered in Hreq. rewrite Hc in Hreq.
      destruct (r_has_mem r) eqn:Ehm; cbn in Hreq.
      - apply N.leb_le in Hreq. lia.
      - rewrite (mem_size_of_nomem r (a_req a) Ehm) in Hms. inversion Hms; subst ms.
        rewrite resize_0. lia. }
    unfold other_of.
    destruct (r_has_dyn r) eqn:Ehd.
    - unfold dyn_gas in Hd. destruct (a_other a) as [o|]; [|discriminate].
      destruct (r_charges r) eqn:Ech.
      + subst ms.
        destruct (memory_gas_cost s1 (w0 * 32)) as [[fee l0]|] eqn:Emgc; [|discriminate].
        destruct (U64 <=? fee + o); [discriminate|]. inversion Hd; subst d l'.
        destruct (memory_gas_cost_spec U s1 k w0 fee l0 (conj Hl1 (conj Hlo1 Hhi1)) Emgc)
          as (k' & Hl' & Hkk & Hfee & Hlo' & Hhi').
        exists k'. repeat split; try assumption; lia.
      + inversion Hd; subst d l'. exists k. destruct (Hunm eq_refl) as (Ha & Hb).
        repeat split; try assumption; lia.
    - inversion Hd; subst d l'. exists k. destruct (Hunm eq_refl) as (Ha & Hb).
      repeat split; try assumption; lia. }
  destruct (if r_has_dyn r then dyn_gas r a s1 ms else Some (0, m_last s1)) as [[d l']|] eqn:Hd.
  2:{ inversion Hstep; subst. cbn. split; [reflexivity|lia]. }
  destruct (m_gas s1 <? d) eqn:Egd.
  { inversion Hstep; subst. cbn. split; [reflexivity|lia]. }
  apply N.ltb_ge in Egd.
  inversion Hstep; subst v s'; clear Hstep.
  destruct (Hdyn d l' eq_refl) as (k' & Hl' & Hkk & Hacc & Hlo' & Hhi').
  exists r, k'. split; [reflexivity|]. split.
  - unfold inv_k; cbn. repeat split; assumption.
  - split; [exact Hkk|]. cbn. unfold s1 in Egd; cbn in Egd. lia.
Qed.

(* ------------------------------------------------------------------ *)
(* whole programs, any table                                            *)

Ltac fin := repeat match goal with |- _ /\ _ => split end;
  try assumption; try lia; try (intros; assumption); try (intros; discriminate).

Lemma run_acct : forall T U p s k v s',
  inv_k U s k ->
  req_bounded T U p = true ->
  run T p s = (v, s') ->
  exists k', k <= k' /\ 32 * k' <= m_mem s' /\ m_mem s' <= N.max (32 * k') U /\
             m_gas s' + mem_gas k' <= m_gas s + mem_gas k /\
             (v = VOk -> m_last s' = mem_gas k').
Proof.
  intros T U p. induction p as [|[op a] p IH]; intros s k v s' Hinv Hreq Hrun.
  - cbn in Hrun. inversion Hrun; subst. destruct Hinv as (A & B & C).
    exists k. fin.
  - cbn in Hreq. apply andb_true_iff in Hreq. destruct Hreq as (Hreq1 & Hreqs). cbn in Hreq1.
    cbn [run] in Hrun.
    destruct (step T op a s) as [v1 s1] eqn:Hstep.
    pose proof (step_acct T U op a s k v1 s1 Hinv Hreq1 Hstep) as Hacct.
    destruct v1.
    + destruct Hacct as (r & k1 & _ & Hinv1 & Hk1 & Hg1).
      destruct (IH s1 k1 v s' Hinv1 Hreqs Hrun) as (k' & Hk' & Hlo & Hhi & Hg & Hl).
      exists k'. fin.
    + inversion Hrun; subst. destruct Hacct as (Hm & Hg). destruct Hinv as (A & B & C).
      exists k. rewrite Hm. fin.
    + inversion Hrun; subst. destruct Hacct as (Hm & Hg). destruct Hinv as (A & B & C).
      exists k. rewrite Hm. fin.
    + inversion Hrun; subst. destruct Hacct as (Hm & Hg). destruct Hinv as (A & B & C).
      exists k. rewrite Hm. fin.
    + inversion Hrun; subst. destruct Hacct as (Hm & Hg). destruct Hinv as (A & B & C).
      exists k. rewrite Hm. fin.
    + inversion Hrun; subst. destruct Hacct as (Hm & Hg). destruct Hinv as (A & B & C).
      exists k. rewrite Hm. fin.
Qed.

(* Any table: memory is bounded by what the gas can buy, or by what was asked of unmetered rows. *)
Lemma general_memory_bound : forall T U G p v s,
  req_bounded T U p = true ->
  run T p (init G) = (v, s) ->
  m_mem s <= N.max (32 * N.sqrt (512 * G + 511)) U /\ m_gas s <= G.
Proof.
  intros T U G p v s Hreq Hrun.
  destruct (run_acct T U p (init G) 0 v s (inv_k_init U G) Hreq Hrun) as (k & _ & Hlo & Hhi & Hg & _).
  cbn [init m_gas m_mem m_last] in Hg. rewrite mem_gas_0 in Hg.
  assert (Hk : mem_gas k <= G) by lia.
  destruct (mem_gas_bound_words k G Hk) as (Hsq & _).
  split; lia.
Qed.

(* ------------------------------------------------------------------ *)
(* metered tables                                                       *)

Lemma metered_lookup : forall T op r, jumptable_metered T = true -> lookup T op = Some r -> row_metered r = true.
Proof.
  induction T as [|r0 T IH]; intros op r Hm Hl; [discriminate|].
  cbn in Hm. apply andb_true_iff in Hm. destruct Hm as (H0 & HT).
  cbn in Hl. destruct (r_op r0 =? op).
  - inversion Hl; subst; exact H0.
  - eapply IH; eassumption.
Qed.

Lemma metered_req_bounded : forall T p, jumptable_metered T = true -> req_bounded T 0 p = true.
Proof.
  intros T p Hm. unfold req_bounded. apply forallb_forall. intros [op a] _. cbn.
  unfold step_req_ok. destruct (lookup T op) as [r|] eqn:Hl; [|reflexivity].
  rewrite (metered_lookup T op r Hm Hl). reflexivity.
Qed.

Lemma words_of_32 : forall s k, m_mem s = 32 * k -> words_of s = k.
Proof.
  intros s k H. unfold words_of. rewrite H. rewrite N.mul_comm. apply N.div_mul. discriminate.
Qed.

Lemma metered_memory_bound_lemma : forall T, jumptable_metered T = true ->
  forall G p v s, run T p (init G) = (v, s) ->
    mem_gas (words_of s) + m_gas s <= G /\
    m_mem s = 32 * words_of s /\
    words_of s * words_of s <= 512 * G + 511 /\
    3 * words_of s <= G /\
    m_mem s <= 32 * N.sqrt (512 * G + 511) /\
    (v = VOk -> m_last s = mem_gas (words_of s)).
Proof.
  intros T Hm G p v s Hrun.
  destruct (run_acct T 0 p (init G) 0 v s (inv_k_init 0 G) (metered_req_bounded T p Hm) Hrun)
    as (k & _ & Hlo & Hhi & Hg & Hl).
  cbn [init m_gas m_mem m_last] in Hg. rewrite mem_gas_0 in Hg.
  assert (Hmem : m_mem s = 32 * k) by lia.
  rewrite (words_of_32 s k Hmem).
  assert (Hk : mem_gas k <= G) by lia.
  destruct (mem_gas_bound_words k G Hk) as (Hsq & Hlin).
  pose proof (mem_gas_quadratic k).
  repeat split; try assumption; try lia.
Qed.

Lemma gas_never_increases_lemma : forall T G p v s, run T p (init G) = (v, s) -> m_gas s <= G.
Proof.
  intros T G p. revert G.
  assert (Hgen : forall s0 v s, run T p s0 = (v, s) -> m_gas s <= m_gas s0).
  { induction p as [|[op a] p IH]; intros s0 v s Hrun.
    - cbn in Hrun. inversion Hrun; subst. lia.
    - cbn [run] in Hrun. destruct (step T op a s0) as [v1 s1] eqn:Hstep.
      assert (Hs1 : m_gas s1 <= m_gas s0).
      { unfold step in Hstep.
        destruct (lookup T op) as [r|]; [|inversion Hstep; subst; lia].
        destruct (a_stack a <? r_min r); [inversion Hstep; subst; lia|].
        destruct (r_max r <? a_stack a); [inversion Hstep; subst; lia|].
        destruct (m_gas s0 <? a_cgas a); [inversion Hstep; subst; lia|].
        destruct (mem_size_of r (a_req a)); [|inversion Hstep; subst; cbn; lia].
        destruct (if r_has_dyn r then _ else _) as [[d l']|]; [|inversion Hstep; subst; cbn; lia].
        destruct (_ <? d); inversion Hstep; subst; cbn; lia. }
      destruct v1; try (inversion Hrun; subst; exact Hs1).
      pose proof (IH s1 v s Hrun). lia. }
  intros G v s Hrun. apply (Hgen (init G) v s Hrun).
Qed.

(* ------------------------------------------------------------------ *)
(* unmetered rows: unbounded memory for constant gas                    *)

Lemma unmetered_row_unbounded_lemma : forall T op r,
  lookup T op = Some r -> r_has_mem r = true -> row_metered r = false ->
  forall n stk c o G,
    r_min r <= stk -> stk <= r_max r ->
    32 * n < U64 -> c + o <= G ->
    exists s', step T op (mkA stk c (Some (32 * n)) (Some o)) (init G) = (VOk, s') /\
               m_mem s' = 32 * n /\ G <= m_gas s' + c + o.
Proof.
  intros T op r Hl Hhm Hum n stk c o G Hmin Hmax Hn HG.
  unfold row_metered in Hum. rewrite Hhm in Hum. cbn in Hum.
  unfold step. rewrite Hl. cbn [a_stack a_cgas a_req a_other init m_gas m_mem m_last].
  destruct (stk <? r_min r) eqn:E1; [apply N.ltb_lt in E1; lia|].
  destruct (r_max r <? stk) eqn:E2; [apply N.ltb_lt in E2; lia|].
  destruct (G <? c) eqn:E3; [apply N.ltb_lt in E3; lia|].
  unfold mem_size_of. rewrite Hhm.
  replace (32 * n) with (n * 32) by lia. rewrite to_words_mul32.
  destruct (U64 <=? n * 32) eqn:E4; [apply N.leb_le in E4; lia|].
  assert (Hres : resize 0 (n * 32) = n * 32).
  { unfold resize. destruct (0 <? n * 32) eqn:Ez; [lia|]. apply N.ltb_ge in Ez. lia. }
  destruct (r_has_dyn r) eqn:Ehd.
  - cbn in Hum. unfold dyn_gas. cbn [a_other]. rewrite Hum. cbn [m_gas m_mem m_last].
    destruct (G - c <? o) eqn:E5; [apply N.ltb_lt in E5; lia|].
    eexists. split; [reflexivity|]. cbn. rewrite Hres. split; lia.
  - cbn [m_gas m_mem m_last].
    destruct (G - c <? 0) eqn:E5; [apply N.ltb_lt in E5; lia|].
    eexists. split; [reflexivity|]. cbn. rewrite Hres. split; lia.
Qed.

(* ------------------------------------------------------------------ *)
(* call frames                                                          *)

Definition frame_ok (s : mstate) : Prop := exists k, m_mem s = 32 * k /\ m_last s = mem_gas k.

Definition finv (G : N) (fs : list mstate) : Prop :=
  Forall frame_ok fs /\ total_mem_gas fs + total_gas fs <= G.

Lemma frame_ok_inv_k : forall s, frame_ok s -> inv_k 0 s (words_of s).
Proof.
  intros s (k & Hm & Hl). rewrite (words_of_32 s k Hm). unfold inv_k. repeat split; try assumption; lia.
Qed.

Lemma inv_k0_frame_ok : forall s k, inv_k 0 s k -> frame_ok s /\ words_of s = k.
Proof.
  intros s k (Hl & Hlo & Hhi). assert (Hm : m_mem s = 32 * k) by lia.
  split; [exists k; split; assumption|]. apply words_of_32; exact Hm.
Qed.

Lemma metered_step_req_ok : forall T op a, jumptable_metered T = true -> step_req_ok T 0 op a = true.
Proof.
  intros T op a Hm. unfold step_req_ok. destruct (lookup T op) as [r|] eqn:Hl; [|reflexivity].
  rewrite (metered_lookup T op r Hm Hl). reflexivity.
Qed.

Lemma fstep_inv : forall T, jumptable_metered T = true ->
  forall G f fs fs', finv G fs -> fstep T f fs = Some fs' -> finv G fs'.
Proof.
  intros T Hm G f fs fs' (Hall & Hsum) Hf.
  destruct f as [op a|op a g1 g2|refund]; cbn in Hf.
  - destruct fs as [|s rest]; [discriminate|].
    destruct (step T op a s) as [v s1] eqn:Hstep. destruct v; try discriminate.
    inversion Hf; subst fs'; clear Hf.
    inversion Hall as [|x l Hs Hrest]; subst.
    pose proof (step_acct T 0 op a s (words_of s) VOk s1 (frame_ok_inv_k s Hs) (metered_step_req_ok T op a Hm) Hstep)
      as (r & k1 & _ & Hinv1 & _ & Hacc).
    destruct (inv_k0_frame_ok s1 k1 Hinv1) as (Hok1 & Hw1).
    split; [constructor; assumption|].
    unfold total_mem_gas, total_gas, sumN in *. cbn [map fold_right] in *. rewrite Hw1. lia.
  - destruct fs as [|s rest]; [discriminate|].
    destruct (lookup T op) as [r0|] eqn:Hl0; [|discriminate].
    destruct (step T op a s) as [v s1] eqn:Hstep. destruct v; try discriminate.
    destruct (a_other a) as [o|] eqn:Ho; [|discriminate].
    destruct (r_has_dyn r0 && (g1 <=? o) && (g2 <=? m_gas s1)) eqn:Ec; [|discriminate].
    apply andb_true_iff in Ec. destruct Ec as (Ec & Eg2). apply andb_true_iff in Ec. destruct Ec as (Ehd & Eg1).
    apply N.leb_le in Eg1. apply N.leb_le in Eg2.
    inversion Hf; subst fs'; clear Hf.
    inversion Hall as [|x l Hs Hrest]; subst.
    pose proof (step_acct T 0 op a s (words_of s) VOk s1 (frame_ok_inv_k s Hs) (metered_step_req_ok T op a Hm) Hstep)
      as (r & k1 & Hl & Hinv1 & _ & Hacc).
    rewrite Hl0 in Hl. inversion Hl; subst r.
    unfold other_of in Hacc. rewrite Ehd, Ho in Hacc.
    destruct (inv_k0_frame_ok s1 k1 Hinv1) as ((kk & Hmem1 & Hlast1) & Hw1).
    split.
    + constructor; [exists 0; cbn; split; reflexivity|].
      constructor; [exists kk; cbn; split; assumption|assumption].
    + unfold total_mem_gas, total_gas, sumN in *. cbn [map fold_right m_gas] in *.
      assert (Hwc : words_of (mkM (g1 + g2) 0 0) = 0) by reflexivity.
      assert (Hwp : words_of (mkM (m_gas s1 - g2) (m_mem s1) (m_last s1)) = words_of s1) by reflexivity.
      rewrite Hwc, Hwp, Hw1, mem_gas_0. lia.
  - destruct fs as [|c [|p rest]]; try discriminate.
    destruct (refund <=? m_gas c) eqn:Er; [|discriminate]. apply N.leb_le in Er.
    inversion Hf; subst fs'; clear Hf.
    inversion Hall as [|x l Hc Hrest]; subst. inversion Hrest as [|x l Hp Hrest']; subst.
    split.
    + constructor; [|assumption]. destruct Hp as (k & A & B). exists k. cbn. split; assumption.
    + unfold total_mem_gas, total_gas, sumN in *. cbn [map fold_right m_gas] in *.
      assert (Hwp : words_of (mkM (m_gas p + refund) (m_mem p) (m_last p)) = words_of p) by reflexivity.
      rewrite Hwp. lia.
Qed.

Lemma finv_init : forall G, finv G [init G].
Proof.
  intros G. split.
  - constructor; [exists 0; split; reflexivity|constructor].
  - unfold total_mem_gas, total_gas, sumN. cbn [map fold_right]. change (words_of (init G)) with 0.
    rewrite mem_gas_0. cbn [init m_gas]. lia.
Qed.

Lemma frun_inv : forall T, jumptable_metered T = true ->
  forall G fp fs fs', finv G fs -> frun T fp fs = Some fs' -> finv G fs'.
Proof.
  intros T Hm G fp. induction fp as [|f fp IH]; intros fs fs' Hinv Hrun.
  - cbn in Hrun. inversion Hrun; subst. exact Hinv.
  - cbn in Hrun. destruct (fstep T f fs) as [fs1|] eqn:Hf; [|discriminate].
    apply (IH fs1 fs' (fstep_inv T Hm G f fs fs1 Hinv Hf) Hrun).
Qed.

Lemma total_words_linear : forall fs, 3 * total_words fs <= total_mem_gas fs.
Proof.
  induction fs as [|s fs IH]; unfold total_words, total_mem_gas, sumN in *; cbn [map fold_right]; [lia|].
  pose proof (mem_gas_linear (words_of s)). lia.
Qed.

Lemma frames_memory_bound_lemma : forall T, jumptable_metered T = true ->
  forall G fp fs, frun T fp [init G] = Some fs ->
    total_mem_gas fs + total_gas fs <= G /\ 3 * total_words fs <= G /\
    Forall (fun s => m_mem s = 32 * words_of s) fs.
Proof.
  intros T Hm G fp fs Hrun.
  destruct (frun_inv T Hm G fp [init G] fs (finv_init G) Hrun) as (Hall & Hsum).
  pose proof (total_words_linear fs). repeat split; try lia.
  eapply Forall_impl; [|exact Hall].
  intros s (k & Hmem & _). rewrite (words_of_32 s k Hmem). exact Hmem.
Qed.

(* ------------------------------------------------------------------ *)
(* single steps                                                         *)

(* a step that does not pass its charge phase never grows memory (any table, any state) *)
Lemma step_fail_mem_lemma : forall T op a s v s',
  step T op a s = (v, s') -> v <> VOk -> m_mem s' = m_mem s.
Proof.
  intros T op a s v s' Hstep Hv. unfold step in Hstep.
  destruct (lookup T op) as [r|]; [|inversion Hstep; subst; reflexivity].
  destruct (a_stack a <? r_min r); [inversion Hstep; subst; reflexivity|].
  destruct (r_max r <? a_stack a); [inversion Hstep; subst; reflexivity|].
  destruct (m_gas s <? a_cgas a); [inversion Hstep; subst; reflexivity|].
  destruct (mem_size_of r (a_req a)); [|inversion Hstep; subst; reflexivity].
  destruct (if r_has_dyn r then _ else _) as [[d l']|]; [|inversion Hstep; subst; reflexivity].
  destruct (_ <? d); inversion Hstep; subst; [reflexivity|]. exfalso; apply Hv; reflexivity.
Qed.

(* in a metered table a successful step pays at least the fee difference of the growth *)
Lemma metered_step_pays_growth_lemma : forall T, jumptable_metered T = true ->
  forall op a s s', frame_ok s -> step T op a s = (VOk, s') ->
    frame_ok s' /\ words_of s <= words_of s' /\
    m_gas s' + a_cgas a + mem_gas (words_of s') <= m_gas s + mem_gas (words_of s).
Proof.
  intros T Hm op a s s' Hs Hstep.
  pose proof (step_acct T 0 op a s (words_of s) VOk s' (frame_ok_inv_k s Hs) (metered_step_req_ok T op a Hm) Hstep)
    as (r & k1 & _ & Hinv1 & Hk & Hacc).
  destruct (inv_k0_frame_ok s' k1 Hinv1) as (Hok & Hw). rewrite Hw. fin.
Qed.

(* ------------------------------------------------------------------ *)
(* tables metered up to a list of excepted opcodes                      *)

Definition ex_req_bounded (ex : list N) (U : N) (p : prog) : bool :=
  forallb (fun oa => negb (existsb (N.eqb (fst oa)) ex) ||
                     match a_req (snd oa) with Some m => to_words m * 32 <=? U | None => true end) p.

Lemma lookup_spec : forall T op r, lookup T op = Some r -> In r T /\ r_op r = op.
Proof.
  induction T as [|r0 T IH]; intros op r H; [discriminate|].
  cbn in H. destruct (r_op r0 =? op) eqn:E.
  - inversion H; subst. apply N.eqb_eq in E. split; [left; reflexivity|exact E].
  - destruct (IH op r H) as (A & B). split; [right; exact A|exact B].
Qed.

Lemma except_req_bounded : forall ex T U p,
  jumptable_metered_except ex T = true -> ex_req_bounded ex U p = true -> req_bounded T U p = true.
Proof.
  intros ex T U p Hex Hp. unfold req_bounded. apply forallb_forall. intros [op a] Hin. cbn.
  unfold ex_req_bounded in Hp. rewrite forallb_forall in Hp. specialize (Hp (op, a) Hin). cbn in Hp.
  unfold step_req_ok. destruct (lookup T op) as [r|] eqn:Hl; [|reflexivity].
  destruct (lookup_spec T op r Hl) as (HinT & Hop).
  unfold jumptable_metered_except in Hex. rewrite forallb_forall in Hex. specialize (Hex r HinT).
  destruct (row_metered r) eqn:Erm; [reflexivity|]. cbn in Hex. rewrite Hop in Hex. rewrite Hex in Hp. cbn in Hp.
  unfold mem_size_of. destruct (r_has_mem r).
  - destruct (a_req a) as [m|]; [|reflexivity].
    destruct (U64 <=? to_words m * 32); [reflexivity|exact Hp].
  - apply N.leb_le. lia.
Qed.

Lemma known_exception_memory_bound_lemma : forall ex T U G p v s,
  jumptable_metered_except ex T = true ->
  ex_req_bounded ex U p = true ->
  run T p (init G) = (v, s) ->
  m_mem s <= N.max (32 * N.sqrt (512 * G + 511)) U /\ m_gas s <= G.
Proof.
  intros ex T U G p v s Hex Hp Hrun.
  apply (general_memory_bound T U G p v s (except_req_bounded ex T U p Hex Hp) Hrun).
Qed.

(* C03 — the signing payload determines the signed fields: injectivity of the
   ProtoEncodeTxSigningData bytes (Quai and Qi) and of the full ProtoEncode bytes. *)
From Coq Require Import List NArith ZArith Bool Lia.
From GQ Require Import Lib.C03_TLV Lib.C03_TLVFacts Generated.C03Params Model.C03.
Import ListNotations.
Local Open Scope N_scope.

Lemma map_inj : forall (A B : Type) (f : A -> B), (forall x y, f x = f y -> x = y) ->
  forall l1 l2, map f l1 = map f l2 -> l1 = l2.
Proof.
  intros A B f Hf. induction l1 as [|x l1 IH]; intros l2 He; destruct l2 as [|y l2]; cbn in He; try discriminate.
  - reflexivity.
  - apply cons_inj in He. destruct He as [Hx Ht]. f_equal; [apply Hf; exact Hx|apply IH; exact Ht].
Qed.

Lemma opt_bytes_field_inj0 : forall t b1 b2, opt_bytes_field t b1 = opt_bytes_field t b2 -> b1 = b2.
Proof.
  intros t b1 b2 He.
  destruct (opt_bytes_field_inj t b1 b2 [] [] ) as [Hb _].
  - intros x [].
  - intros x [].
  - rewrite !app_nil_r. exact He.
  - exact Hb.
Qed.

Lemma opt_field_tag : forall t o x, In x (opt_field t o) -> fst x = t.
Proof. intros t [v|] x Hx; cbn in Hx; [destruct Hx as [Hx|[]]; subst; reflexivity|destruct Hx]. Qed.

Lemma opt_field_inj0 : forall t o1 o2, opt_field t o1 = opt_field t o2 -> o1 = o2.
Proof.
  intros t o1 o2 He. destruct o1, o2; cbn in He; try discriminate; try reflexivity.
  apply cons_inj in He. destruct He as [He _]. congruence.
Qed.

Lemma option_map_inj : forall (A B : Type) (f : A -> B), (forall x y, f x = f y -> x = y) ->
  forall o1 o2, option_map f o1 = option_map f o2 -> o1 = o2.
Proof.
  intros A B f Hf [x|] [y|] He; cbn in He; try discriminate; try reflexivity.
  injection He as He. f_equal. apply Hf. exact He.
Qed.

Lemma field_inj : forall (t1 t2 : N) (v1 v2 : fval), (t1, v1) = (t2, v2) -> t1 = t2 /\ v1 = v2.
Proof. intros t1 t2 v1 v2 He. split; [exact (f_equal fst He)|exact (f_equal snd He)]. Qed.

Lemma VBytes_inj : forall a b, VBytes a = VBytes b -> a = b.
Proof. intros a b He. injection He as He. exact He. Qed.
Lemma VInt_inj : forall a b, VInt a = VInt b -> a = b.
Proof. intros a b He. injection He as He. exact He. Qed.

(* ---------- nested messages ---------- *)

Lemma enc_hash_inj : forall h1 h2, enc_hash h1 = enc_hash h2 -> h1 = h2.
Proof.
  intros h1 h2 He. unfold enc_hash in He. apply encode_msg_inj in He.
  exact (opt_bytes_field_inj0 _ _ _ He).
Qed.

Definition key_field (k : bytes) : field := (2, VBytes (enc_hash k)).
Lemma key_field_inj : forall a b, key_field a = key_field b -> a = b.
Proof. intros a b He. unfold key_field in He. injection He as He. apply enc_hash_inj. exact He. Qed.

Lemma enc_tuple_inj : forall t1 t2, enc_tuple t1 = enc_tuple t2 -> t1 = t2.
Proof.
  intros [a1 k1] [a2 k2] He. unfold enc_tuple in He. cbn [fst snd] in He.
  apply encode_msg_inj in He.
  change (fun k : list N => (2, VBytes (enc_hash k))) with key_field in He.
  apply opt_bytes_field_inj in He.
  - destruct He as [Ha Hk]. apply (map_inj _ _ _ key_field_inj) in Hk. subst. reflexivity.
  - intros x Hx. apply in_map_iff in Hx. destruct Hx as [k [Hk _]]. subst x. discriminate.
  - intros x Hx. apply in_map_iff in Hx. destruct Hx as [k [Hk _]]. subst x. discriminate.
Qed.

Definition tuple_field (t : access_tuple) : field := (1, VBytes (enc_tuple t)).
Lemma tuple_field_inj : forall a b, tuple_field a = tuple_field b -> a = b.
Proof. intros a b He. unfold tuple_field in He. injection He as He. apply enc_tuple_inj. exact He. Qed.

Lemma enc_al_inj : forall a b, enc_al a = enc_al b -> a = b.
Proof.
  intros a b He. unfold enc_al in He. apply encode_msg_inj in He.
  exact (map_inj _ _ _ tuple_field_inj _ _ He).
Qed.

(* ---------- Quai signing payload ---------- *)

Definition fixed7 (f : sfields) : list field :=
  [ (3, VInt (s_nonce f)); (4, VBytes (be_bytes (s_value f))); (5, VInt (s_gas f));
    (6, VBytes (s_data f)); (7, VBytes (be_bytes (s_chain f)));
    (8, VBytes (be_bytes (s_gasprice f))); (9, VBytes (enc_al (s_al f))) ].

Lemma fixed7_tags : forall f x, In x (fixed7 f) -> 3 <= fst x <= 9.
Proof.
  intros f x Hx. unfold fixed7 in Hx. cbn [In] in Hx.
  repeat (destruct Hx as [Hx|Hx]; [subst x; cbn [fst]; lia|]). destruct Hx.
Qed.

Lemma fixed7_inj : forall f1 f2 r1 r2, fixed7 f1 ++ r1 = fixed7 f2 ++ r2 ->
  s_nonce f1 = s_nonce f2 /\ s_value f1 = s_value f2 /\ s_gas f1 = s_gas f2 /\ s_data f1 = s_data f2
  /\ s_chain f1 = s_chain f2 /\ s_gasprice f1 = s_gasprice f2 /\ s_al f1 = s_al f2 /\ r1 = r2.
Proof.
  intros f1 f2 r1 r2 He. unfold fixed7 in He. cbn [app] in He.
  injection He as H3 H4 H5 H6 H7 H8 H9 Hr.
  apply be_bytes_inj in H4. apply be_bytes_inj in H7. apply be_bytes_inj in H8. apply enc_al_inj in H9.
  repeat split; assumption.
Qed.

Lemma signing_msg_shape : forall f,
  signing_msg f = (1, VInt C03Params.quai_tx_type) :: opt_field 2 (option_map VBytes (s_to f)) ++ fixed7 f.
Proof. reflexivity. Qed.

Lemma signing_msg_app_inj : forall f1 f2 r1 r2,
  (forall x, In x r1 -> 3 <= fst x) -> (forall x, In x r2 -> 3 <= fst x) ->
  signing_msg f1 ++ r1 = signing_msg f2 ++ r2 -> f1 = f2 /\ r1 = r2.
Proof.
  intros f1 f2 r1 r2 Hr1 Hr2 He. rewrite !signing_msg_shape in He.
  cbn [app] in He. apply cons_inj in He. destruct He as [_ He].
  rewrite <- !app_assoc in He.
  apply opt_field_inj in He.
  - destruct He as [Hto He].
    apply (option_map_inj _ _ _ VBytes_inj) in Hto.
    apply fixed7_inj in He. destruct He as (Hn & Hv & Hg & Hd & Hc & Hp & Ha & Hr).
    split; [|exact Hr].
    destruct f1, f2. cbn in *. subst. reflexivity.
  - intros x Hx. apply in_app_iff in Hx. destruct Hx as [Hx|Hx].
    + apply fixed7_tags in Hx. lia.
    + apply Hr1 in Hx. lia.
  - intros x Hx. apply in_app_iff in Hx. destruct Hx as [Hx|Hx].
    + apply fixed7_tags in Hx. lia.
    + apply Hr2 in Hx. lia.
Qed.

Lemma signing_msg_inj : forall f1 f2, signing_msg f1 = signing_msg f2 -> f1 = f2.
Proof.
  intros f1 f2 He.
  destruct (signing_msg_app_inj f1 f2 [] []) as [Hf _].
  - intros x [].
  - intros x [].
  - rewrite !app_nil_r. exact He.
  - exact Hf.
Qed.

Lemma signing_bytes_inj : forall f1 f2, signing_bytes f1 = signing_bytes f2 -> f1 = f2.
Proof. intros f1 f2 He. apply signing_msg_inj. apply encode_msg_inj. exact He. Qed.

(* ---------- full encoding (tx.Hash preimage) ---------- *)

Definition hash_val (h : bytes) : fval := VBytes (enc_hash h).
Lemma hash_val_inj : forall a b, hash_val a = hash_val b -> a = b.
Proof. intros a b He. unfold hash_val in He. injection He as He. apply enc_hash_inj. exact He. Qed.

Lemma full_msg_inj : forall t1 t2, full_msg t1 = full_msg t2 ->
  q_f t1 = q_f t2 /\ Z.abs (q_v t1) = Z.abs (q_v t2) /\ Z.abs (q_r t1) = Z.abs (q_r t2)
  /\ Z.abs (q_s t1) = Z.abs (q_s t2)
  /\ q_parent t1 = q_parent t2 /\ q_mix t1 = q_mix t2 /\ q_wnonce t1 = q_wnonce t2.
Proof.
  intros t1 t2 He. unfold full_msg in He.
  change (fun h : list N => VBytes (enc_hash h)) with hash_val in He.
  apply signing_msg_app_inj in He.
  - destruct He as [Hf He]. cbn [app] in He.
    injection He as Hv Hr Hs He.
    apply be_bytes_inj in Hv. apply be_bytes_inj in Hr. apply be_bytes_inj in Hs.
    apply opt_field_inj in He.
    + destruct He as [Hp He]. apply (option_map_inj _ _ _ hash_val_inj) in Hp.
      apply opt_field_inj in He.
      * destruct He as [Hm He]. apply (option_map_inj _ _ _ hash_val_inj) in Hm.
        apply opt_field_inj0 in He. apply (option_map_inj _ _ _ VInt_inj) in He.
        repeat split; try assumption; lia.
      * intros x Hx. apply opt_field_tag in Hx. lia.
      * intros x Hx. apply opt_field_tag in Hx. lia.
    + intros x Hx. apply in_app_iff in Hx. destruct Hx as [Hx|Hx]; apply opt_field_tag in Hx; lia.
    + intros x Hx. apply in_app_iff in Hx. destruct Hx as [Hx|Hx]; apply opt_field_tag in Hx; lia.
  - intros x Hx. cbn [app In] in Hx.
    repeat (destruct Hx as [Hx|Hx]; [subst x; cbn [fst]; lia|]).
    apply in_app_iff in Hx. destruct Hx as [Hx|Hx]; [apply opt_field_tag in Hx; lia|].
    apply in_app_iff in Hx. destruct Hx as [Hx|Hx]; apply opt_field_tag in Hx; lia.
  - intros x Hx. cbn [app In] in Hx.
    repeat (destruct Hx as [Hx|Hx]; [subst x; cbn [fst]; lia|]).
    apply in_app_iff in Hx. destruct Hx as [Hx|Hx]; [apply opt_field_tag in Hx; lia|].
    apply in_app_iff in Hx. destruct Hx as [Hx|Hx]; apply opt_field_tag in Hx; lia.
Qed.

Lemma full_bytes_inj : forall t1 t2, full_bytes t1 = full_bytes t2 ->
  q_f t1 = q_f t2 /\ Z.abs (q_v t1) = Z.abs (q_v t2) /\ Z.abs (q_r t1) = Z.abs (q_r t2)
  /\ Z.abs (q_s t1) = Z.abs (q_s t2)
  /\ q_parent t1 = q_parent t2 /\ q_mix t1 = q_mix t2 /\ q_wnonce t1 = q_wnonce t2.
Proof. intros t1 t2 He. apply full_msg_inj. apply encode_msg_inj. exact He. Qed.

(* ---------- Qi signing payload ---------- *)

Lemma enc_outpoint_inj : forall h1 i1 h2 i2, enc_outpoint h1 i1 = enc_outpoint h2 i2 -> h1 = h2 /\ i1 = i2.
Proof.
  intros h1 i1 h2 i2 He. unfold enc_outpoint in He. apply encode_msg_inj in He.
  injection He as Hh Hi. apply enc_hash_inj in Hh. split; assumption.
Qed.

Lemma enc_in_inj : forall a b, enc_in a = enc_in b -> a = b.
Proof.
  intros [[h1 i1] p1] [[h2 i2] p2] He. unfold enc_in in He. cbv beta iota zeta in He.
  apply encode_msg_inj in He.
  apply cons_inj in He. destruct He as [Ho He]. apply cons_inj in He. destruct He as [Hp _].
  apply field_inj in Ho. destruct Ho as [_ Ho]. apply VBytes_inj in Ho.
  apply field_inj in Hp. destruct Hp as [_ Hp]. apply VBytes_inj in Hp.
  apply enc_outpoint_inj in Ho. destruct Ho as [Hh Hi]. subst. reflexivity.
Qed.

Definition in_field (i : qi_in) : field := (1, VBytes (enc_in i)).
Lemma in_field_inj : forall a b, in_field a = in_field b -> a = b.
Proof. intros a b He. unfold in_field in He. injection He as He. apply enc_in_inj. exact He. Qed.

Lemma enc_ins_inj : forall a b, enc_ins a = enc_ins b -> a = b.
Proof.
  intros a b He. unfold enc_ins in He. apply encode_msg_inj in He.
  exact (map_inj _ _ _ in_field_inj _ _ He).
Qed.

Lemma enc_out_inj : forall a b, enc_out a = enc_out b -> a = b.
Proof.
  intros [[d1 a1] l1] [[d2 a2] l2] He. unfold enc_out in He. cbv beta iota zeta in He.
  apply encode_msg_inj in He.
  apply cons_inj in He. destruct He as [Hd He].
  apply opt_field_inj in He.
  - destruct He as [Ha He]. apply (option_map_inj _ _ _ VBytes_inj) in Ha.
    injection He as Hl. apply be_bytes_inj in Hl. injection Hd as Hd. subst. reflexivity.
  - intros x [Hx|[]]. subst x. discriminate.
  - intros x [Hx|[]]. subst x. discriminate.
Qed.

Definition out_field (o : qi_out) : field := (1, VBytes (enc_out o)).
Lemma out_field_inj : forall a b, out_field a = out_field b -> a = b.
Proof. intros a b He. unfold out_field in He. injection He as He. apply enc_out_inj. exact He. Qed.

Lemma enc_outs_inj : forall a b, enc_outs a = enc_outs b -> a = b.
Proof.
  intros a b He. unfold enc_outs in He. apply encode_msg_inj in He.
  exact (map_inj _ _ _ out_field_inj _ _ He).
Qed.

Lemma qi_signing_bytes_inj : forall f1 f2, qi_signing_bytes f1 = qi_signing_bytes f2 -> f1 = f2.
Proof.
  intros f1 f2 He. unfold qi_signing_bytes in He. apply encode_msg_inj in He.
  unfold qi_signing_msg in He. injection He as Hd Hc Hi Ho.
  apply be_bytes_inj in Hc. apply enc_ins_inj in Hi. apply enc_outs_inj in Ho.
  destruct f1, f2. cbn in *. subst. reflexivity.
Qed.

(* obligations on the generated data *)
Lemma params_half : half_n_is_half = true.
Proof. vm_compute. reflexivity. Qed.
Lemma params_schema : schema_matches = true.
Proof. vm_compute. reflexivity. Qed.
Lemma params_signing : signing_covers_all_fields = true.
Proof. vm_compute. reflexivity. Qed.

(* C04 (d): the hand-down of ETXs inside a region (CollectNewlyConfirmedEtxs / CollectSubRollup and
   the glue of Slice.Append): the walk over the block store computes the list-level hand-down on a
   tree-shaped store, and along any chain every ETX owed to a zone of the region is handed to that
   zone exactly once, by the first region-order block of that zone at or after the block that owes it. *)
From Coq Require Import List NArith Bool Lia Permutation.
From GQ Require Import Lib.Key Lib.SMap Lib.C04_BigEndian Lib.C04_Expr Model.C04.
Import ListNotations.
Local Open Scope N_scope.

(* ------------------------------------------------------------------ the store and a chain in it *)

(* anc = the ancestors of cur in the store, nearest first, down to (excluding) a genesis block *)
Fixpoint anc_chain (w : rworld) (cur : rblock) (anc : list rblock) : Prop :=
  match anc with
  | [] => (exists g, lookup_block w (rb_parent cur) = Some g) /\ is_genesis w (rb_parent cur) = true
  | p :: anc' => lookup_block w (rb_parent cur) = Some p /\ is_genesis w (rb_parent cur) = false
                 /\ anc_chain w p anc'
  end.

(* the region holds the pending ETXs of every zone block the chain refers to *)
Definition complete (w : rworld) (c : list rblock) : Prop :=
  Forall (fun p => sub_rollup w (rb_manifest p) <> None) c.

Lemma complete_roll w p : sub_rollup w (rb_manifest p) <> None ->
  sub_rollup w (rb_manifest p) = Some (roll_of w p).
Proof. unfold roll_of. destruct (sub_rollup w (rb_manifest p)); congruence. Qed.

Lemma nc_walk_refines w ctx loc border : forall anc cur acc fuel,
  anc_chain w cur anc -> complete w anc -> (length anc < fuel)%nat ->
  nc_walk fuel w ctx loc border cur acc = ROk (acc ++ collect_list w ctx loc border anc).
Proof.
  induction anc as [|p anc IH]; intros cur acc fuel Hc Hcomp Hf; destruct fuel as [|f]; try (simpl in Hf; lia).
  - destruct Hc as [[g Hg] Hgen]. cbn [nc_walk collect_list]. rewrite Hg, Hgen, app_nil_r. reflexivity.
  - destruct Hc as [Hp [Hgen Hrest]]. cbn [nc_walk collect_list]. rewrite Hp, Hgen.
    destruct (walk_stops ctx loc p).
    + rewrite app_nil_r. reflexivity.
    + inversion Hcomp as [|? ? Hr Hcomp']; subst.
      rewrite (complete_roll w p Hr).
      rewrite (IH p _ f Hrest Hcomp') by (simpl in Hf; lia).
      unfold contrib. rewrite <- !app_assoc. reflexivity.
Qed.

Lemma lookup_block_in w h p : lookup_block w h = Some p -> In p (rw_blocks w).
Proof. unfold lookup_block. intro H. apply find_some in H. tauto. Qed.

Lemma anc_chain_in w : forall anc cur, anc_chain w cur anc -> incl anc (rw_blocks w).
Proof.
  induction anc as [|p anc IH]; intros cur Hc.
  - intros x [].
  - destruct Hc as [Hp [_ Hrest]]. intros x [Hx|Hx].
    + subst. eapply lookup_block_in; eauto.
    + eapply IH; eauto.
Qed.

(* the real entry point on a tree-shaped store: no block occurs twice among the ancestors *)
Lemma newly_confirmed_refines w ctx b anc border :
  anc_chain w b anc -> complete w (b :: anc) -> NoDup anc ->
  newly_confirmed w ctx b border
  = ROk (sel ctx (rb_loc b) border (roll_of w b) ++ collect_list w ctx (rb_loc b) border anc).
Proof.
  intros Hc Hcomp Hnd. inversion Hcomp as [|? ? Hb Hanc]; subst.
  unfold newly_confirmed. rewrite (complete_roll w b Hb).
  apply nc_walk_refines; auto.
  pose proof (NoDup_incl_length Hnd (anc_chain_in w anc b Hc)). lia.
Qed.

Lemma handed_down_refines w ctx b anc :
  anc_chain w b anc -> complete w (b :: anc) -> NoDup anc ->
  handed_down w ctx b = ROk (handed_list w ctx b anc).
Proof.
  intros Hc Hcomp Hnd. unfold handed_down, handed_list.
  destruct (rb_order b <? ctx); [reflexivity|].
  apply newly_confirmed_refines; auto.
Qed.

(* an incomplete store is reported, never papered over: if the pending ETXs of the block itself are
   missing the answer is the error value *)
Lemma newly_confirmed_incomplete w ctx b border :
  sub_rollup w (rb_manifest b) = None -> newly_confirmed w ctx b border = RErrPending.
Proof. intro H. unfold newly_confirmed. rewrite H. reflexivity. Qed.

(* ------------------------------------------------------------------ only to the destination zone *)

Lemma sel_in ctx loc order l e : In e (sel ctx loc order l) ->
  In e l /\ filter_to_sub loc ctx order (retx_tx e) = true.
Proof. unfold sel. intro H. apply filter_In in H. exact H. Qed.

Lemma filter_region_dest loc order tx : filter_to_sub loc REGION_CTX order tx = true ->
  loc_of_prefix (fst tx) = loc.
Proof.
  destruct tx as [p ty]. unfold filter_to_sub. cbn [fst].
  change (REGION_CTX =? PRIME_CTX) with false. change (REGION_CTX =? REGION_CTX) with true. cbn iota.
  destruct (order =? PRIME_CTX); intro H.
  - apply keqb_eq in H. exact H.
  - apply andb_true_iff in H. destruct H as [H _]. apply keqb_eq in H. exact H.
Qed.

Lemma filter_region_standard loc order tx : filter_to_sub loc REGION_CTX order tx = true ->
  order <> PRIME_CTX -> snd tx <> ETX_COINBASE /\ snd tx <> ETX_CONVERSION.
Proof.
  destruct tx as [p ty]. unfold filter_to_sub. cbn [snd].
  change (REGION_CTX =? PRIME_CTX) with false. change (REGION_CTX =? REGION_CTX) with true. cbn iota.
  intros H Ho. apply N.eqb_neq in Ho. rewrite Ho in H.
  apply andb_true_iff in H. destruct H as [_ H]. apply andb_true_iff in H. destruct H as [H1 H2].
  apply negb_true_iff in H1, H2. apply N.eqb_neq in H1, H2. tauto.
Qed.

Lemma rolldown_in loc p e : In e (rolldown REGION_CTX loc p) ->
  In e (rb_inbound p) /\ loc_of_prefix (fst (retx_tx e)) = loc.
Proof.
  unfold rolldown. destruct ((REGION_CTX =? REGION_CTX) && (rb_order p <? REGION_CTX) && negb (keqb loc (rb_loc p))); [|intros []].
  intro H. apply sel_in in H. destruct H as [H1 H2]. split; auto. eapply filter_region_dest; eauto.
Qed.

Lemma collect_list_dest w loc border : forall anc e,
  In e (collect_list w REGION_CTX loc border anc) -> loc_of_prefix (fst (retx_tx e)) = loc.
Proof.
  induction anc as [|p anc IH]; intros e H; [destruct H|].
  cbn [collect_list] in H. destruct (walk_stops REGION_CTX loc p); [destruct H|].
  unfold contrib in H. rewrite !in_app_iff in H. destruct H as [[H|H]|H].
  - apply rolldown_in in H. tauto.
  - apply sel_in in H. destruct H as [_ H]. eapply filter_region_dest; eauto.
  - auto.
Qed.

Lemma handed_list_dest w b anc e :
  In e (handed_list w REGION_CTX b anc) -> loc_of_prefix (fst (retx_tx e)) = rb_loc b.
Proof.
  unfold handed_list. destruct (rb_order b <? REGION_CTX); intro H.
  - apply sel_in in H. destruct H as [_ H]. eapply filter_region_dest; eauto.
  - apply in_app_iff in H. destruct H as [H|H].
    + apply sel_in in H. destruct H as [_ H]. eapply filter_region_dest; eauto.
    + eapply collect_list_dest; eauto.
Qed.

(* ------------------------------------------------------------------ exactly once *)

(* a chain of a region R in which zone Z is active: every block is produced by a zone [R; z] of the
   region, has prime or region order, and no prime-order block predates the activation of Z *)
Definition in_region (R : N) (loc : list N) : Prop := exists z, loc = [R; z].
Definition wf_block (R : N) (Z : list N) (b : rblock) : Prop :=
  in_region R (rb_loc b) /\ (rb_order b = PRIME_CTX \/ rb_order b = REGION_CTX)
  /\ (rb_order b = PRIME_CTX -> not_active (rb_exp b) Z = false).

Definition retx_dec : forall a b : retx, {a = b} + {a <> b}.
Proof. repeat decide equality. Defined.
Definition cnt (e : retx) (l : list retx) : nat := count_occ retx_dec l e.
Lemma cnt_app e l1 l2 : cnt e (l1 ++ l2) = (cnt e l1 + cnt e l2)%nat.
Proof. apply count_occ_app. Qed.

Lemma same_sub_region R z z0 : same_sub REGION_CTX [R; z] [R; z0] = keqb [R; z] [R; z0].
Proof.
  unfold same_sub. change (REGION_CTX =? PRIME_CTX) with false. change (REGION_CTX =? REGION_CTX) with true.
  cbn [nth_error opt_eq_int].
  destruct (N.eqb_spec z z0) as [->|Hn].
  - symmetry. apply keqb_refl.
  - symmetry. apply keqb_neq. congruence.
Qed.

Lemma keqb_sym a b : keqb a b = keqb b a.
Proof.
  destruct (keqb b a) eqn:E.
  - apply keqb_eq in E. subst. apply keqb_refl.
  - apply keqb_neq. apply keqb_neq in E. congruence.
Qed.

Lemma walk_stops_wf R Z b : in_region R Z -> wf_block R Z b ->
  walk_stops REGION_CTX Z b = keqb (rb_loc b) Z && (rb_order b =? REGION_CTX).
Proof.
  intros [z0 ->] [[z Hl] [Ho Ha]]. unfold walk_stops. rewrite Hl, same_sub_region.
  destruct Ho as [Ho|Ho]; rewrite Ho in *.
  - rewrite (Ha eq_refl). change (PRIME_CTX =? PRIME_CTX) with true. change (PRIME_CTX =? REGION_CTX) with false.
    rewrite andb_false_r. reflexivity.
  - change (REGION_CTX =? PRIME_CTX) with false. reflexivity.
Qed.

(* conservation: along any chain, counted with multiplicity,
   handed to zone Z so far + still pending for Z = owed to Z so far *)
Lemma hier_conservation_count w R Z : in_region R Z -> forall c, Forall (wf_block R Z) c ->
  forall e, (cnt e (delivered w Z c) + cnt e (pending_for w Z c) = cnt e (owed w Z c))%nat.
Proof.
  intros HZ. induction c as [|b anc IH]; intros Hwf e; [reflexivity|].
  inversion Hwf as [|? ? Hb Hanc]; subst. specialize (IH Hanc e).
  unfold pending_for in *. cbn [delivered owed collect_list].
  rewrite (walk_stops_wf R Z b HZ Hb). rewrite !cnt_app.
  destruct Hb as [Hl [Ho Ha]].
  unfold owed_by, handed_list, contrib, rolldown. change (REGION_CTX =? REGION_CTX) with true. cbn [andb].
  destruct (keqb (rb_loc b) Z) eqn:Ek.
  - apply keqb_eq in Ek. rewrite Ek. rewrite keqb_refl.
    destruct Ho as [Ho|Ho]; rewrite Ho.
    + change (PRIME_CTX <? REGION_CTX) with true. change (PRIME_CTX =? REGION_CTX) with false.
      cbn [andb negb app]. rewrite !cnt_app. cbn [cnt count_occ]. lia.
    + change (REGION_CTX <? REGION_CTX) with false. change (REGION_CTX =? REGION_CTX) with true.
      cbn [andb app]. rewrite !cnt_app. cbn [cnt count_occ]. lia.
  - rewrite (keqb_sym Z (rb_loc b)), Ek. cbn [andb negb].
    destruct (rb_order b <? REGION_CTX); cbn [andb app]; rewrite !cnt_app; cbn [cnt count_occ]; lia.
Qed.

Lemma hier_conservation w R Z c : in_region R Z -> Forall (wf_block R Z) c ->
  Permutation (delivered w Z c ++ pending_for w Z c) (owed w Z c).
Proof.
  intros HZ Hwf. apply (Permutation_count_occ retx_dec). intro e.
  rewrite count_occ_app. apply (hier_conservation_count w R Z HZ c Hwf e).
Qed.

(* a region-order block of zone Z leaves nothing pending for Z *)
Lemma region_block_clears_pending w R Z b anc : in_region R Z -> wf_block R Z b ->
  rb_loc b = Z -> rb_order b = REGION_CTX -> pending_for w Z (b :: anc) = [].
Proof.
  intros HZ Hb Hl Ho. unfold pending_for. cbn [collect_list].
  rewrite (walk_stops_wf R Z b HZ Hb), Hl, keqb_refl, Ho. reflexivity.
Qed.

(* timing: whatever block p owes to zone Z (and did not hand down itself) is handed down by the first
   region-order block b of zone Z after p: no block of the chain between them stops the walk *)
Definition not_region_block_of (Z : list N) (p : rblock) : Prop :=
  keqb (rb_loc p) Z && (rb_order p =? REGION_CTX) = false.

Lemma collect_through w R Z border : in_region R Z -> forall mid rest,
  Forall (wf_block R Z) mid -> Forall (not_region_block_of Z) mid ->
  collect_list w REGION_CTX Z border (mid ++ rest)
  = flat_map (contrib w REGION_CTX Z border) mid ++ collect_list w REGION_CTX Z border rest.
Proof.
  intros HZ. induction mid as [|m mid IH]; intros rest Hwf Hn; [reflexivity|].
  inversion Hwf; inversion Hn; subst. cbn [app collect_list flat_map].
  rewrite (walk_stops_wf R Z m HZ) by assumption.
  match goal with H : not_region_block_of Z m |- _ => unfold not_region_block_of in H; rewrite H end.
  rewrite IH by assumption. rewrite app_assoc. reflexivity.
Qed.

Lemma first_region_block_delivers w R b mid p rest :
  in_region R (rb_loc b) -> rb_order b = REGION_CTX ->
  Forall (wf_block R (rb_loc b)) (mid ++ [p]) -> Forall (not_region_block_of (rb_loc b)) (mid ++ [p]) ->
  incl (contrib w REGION_CTX (rb_loc b) REGION_CTX p) (handed_list w REGION_CTX b (mid ++ p :: rest)).
Proof.
  intros HZ Ho Hwf Hn e He. unfold handed_list. rewrite Ho. change (REGION_CTX <? REGION_CTX) with false. cbn iota.
  apply in_or_app. right.
  replace (mid ++ p :: rest) with ((mid ++ [p]) ++ rest) by (rewrite <- app_assoc; reflexivity).
  rewrite (collect_through w R (rb_loc b) REGION_CTX HZ (mid ++ [p]) rest Hwf Hn).
  apply in_or_app. left. rewrite flat_map_app. apply in_or_app. right. cbn [flat_map]. rewrite app_nil_r. exact He.
Qed.

(* ------------------------------------------------------------------ the prime node: exactly once per region *)

(* a chain of prime blocks in which the region named by Z (and the slice of every block) is active *)
Definition wf_chain_p (Z : list N) (c : list rblock) : Prop :=
  Forall (fun b => rb_order b = PRIME_CTX /\ not_active (rb_exp b) Z = false) c
  /\ (forall b p, In b c -> In p c -> not_active (rb_exp p) (rb_loc b) = false).

Lemma opt_eq_int_trans x a b : opt_eq_int a b = true -> opt_eq_int x a = opt_eq_int x b.
Proof.
  destruct a as [a|], b as [b|], x as [x|]; cbn; intro H; try discriminate; try reflexivity.
  apply N.eqb_eq in H. subst. reflexivity.
Qed.

Lemma same_sub_prime_trans x a b : same_sub PRIME_CTX a b = true -> same_sub PRIME_CTX x a = same_sub PRIME_CTX x b.
Proof. unfold same_sub. change (PRIME_CTX =? PRIME_CTX) with true. cbn iota. apply opt_eq_int_trans. Qed.

Lemma filter_prime_same_sub a b order tx : same_sub PRIME_CTX a b = true ->
  filter_to_sub a PRIME_CTX order tx = filter_to_sub b PRIME_CTX order tx.
Proof.
  unfold same_sub, filter_to_sub. change (PRIME_CTX =? PRIME_CTX) with true. cbn iota. destruct tx as [p ty].
  destruct (nth_error a 0) as [x|], (nth_error b 0) as [y|]; cbn; intro H; try discriminate.
  - apply N.eqb_eq in H. subst. reflexivity.
  - destruct (nth_error (loc_of_prefix p) 0); reflexivity.
Qed.

Lemma sel_prime_same_sub a b order l : same_sub PRIME_CTX a b = true -> sel PRIME_CTX a order l = sel PRIME_CTX b order l.
Proof. intro H. unfold sel. apply filter_ext. intro e. apply filter_prime_same_sub. exact H. Qed.

Lemma rolldown_prime loc p : rolldown PRIME_CTX loc p = [].
Proof. reflexivity. Qed.

Lemma walk_stops_prime loc p : rb_order p = PRIME_CTX -> not_active (rb_exp p) loc = false ->
  walk_stops PRIME_CTX loc p = same_sub PRIME_CTX (rb_loc p) loc.
Proof.
  intros Ho Ha. unfold walk_stops. rewrite Ho, Ha. change (PRIME_CTX =? PRIME_CTX) with true.
  rewrite andb_false_r, andb_true_r. reflexivity.
Qed.

Lemma collect_list_prime_indep w a b border : same_sub PRIME_CTX a b = true -> forall anc,
  Forall (fun p => rb_order p = PRIME_CTX /\ not_active (rb_exp p) a = false /\ not_active (rb_exp p) b = false) anc ->
  collect_list w PRIME_CTX a border anc = collect_list w PRIME_CTX b border anc.
Proof.
  intros Hab. induction anc as [|p anc IH]; intro H; [reflexivity|].
  inversion H as [|? ? [Ho [Ha Hb]] Hrest]; subst. cbn [collect_list].
  rewrite (walk_stops_prime a p Ho Ha), (walk_stops_prime b p Ho Hb), (same_sub_prime_trans (rb_loc p) a b Hab).
  destruct (same_sub PRIME_CTX (rb_loc p) b); [reflexivity|].
  unfold contrib. rewrite !rolldown_prime, (sel_prime_same_sub a b border _ Hab), (IH Hrest). reflexivity.
Qed.

Lemma prime_conservation_count w Z : forall c, wf_chain_p Z c ->
  forall e, (cnt e (delivered_p w Z c) + cnt e (pending_for_p w Z c) = cnt e (owed_p w Z c))%nat.
Proof.
  induction c as [|b anc IH]; intros [Hwf Hact] e; [reflexivity|].
  inversion Hwf as [|? ? [Ho Ha] Hanc]; subst.
  assert (Hwf' : wf_chain_p Z anc).
  { split; [exact Hanc|]. intros x y Hx Hy. apply Hact; right; assumption. }
  specialize (IH Hwf' e).
  unfold pending_for_p in *. cbn [delivered_p owed_p collect_list].
  rewrite (walk_stops_prime Z b Ho Ha). rewrite !cnt_app.
  unfold owed_by_p, handed_list, contrib. rewrite rolldown_prime, Ho. change (PRIME_CTX <? PRIME_CTX) with false. cbn iota.
  destruct (same_sub PRIME_CTX (rb_loc b) Z) eqn:Es.
  - rewrite (sel_prime_same_sub (rb_loc b) Z PRIME_CTX _ Es).
    rewrite (collect_list_prime_indep w (rb_loc b) Z PRIME_CTX Es anc).
    + rewrite !cnt_app. cbn [cnt count_occ]. lia.
    + apply Forall_forall. intros p Hp. rewrite Forall_forall in Hanc. destruct (Hanc p Hp) as [Hpo Hpa].
      repeat split; auto. apply Hact; [left; reflexivity | right; exact Hp].
  - cbn [app]. rewrite !cnt_app. cbn [cnt count_occ]. lia.
Qed.


(* ------------------------------------------------------------------ either inside the region or up to prime *)

Lemma loc_of_prefix_region p : nth_error (loc_of_prefix p) 0 = Some (p / 16).
Proof. reflexivity. Qed.

(* an ETX of a sub rollup whose destination is a zone of this region is routed to that zone by the
   region-order filter exactly when it is not sent up to prime *)
Lemma region_or_prime_exclusive R e :
  fst (retx_tx e) / 16 = R ->
  filter_to_sub (loc_of_prefix (fst (retx_tx e))) REGION_CTX REGION_CTX (retx_tx e) = negb (goes_to_prime R e).
Proof.
  destruct e as [[i p] ty]. cbn [retx_tx fst snd]. intro HR.
  unfold filter_to_sub, goes_to_prime. cbn [retx_tx fst snd].
  change (REGION_CTX =? PRIME_CTX) with false. change (REGION_CTX =? REGION_CTX) with true. cbn iota.
  rewrite keqb_refl. rewrite HR, N.eqb_refl. cbn [negb orb andb].
  destruct (ty =? ETX_COINBASE), (ty =? ETX_CONVERSION); reflexivity.
Qed.

(* an ETX that leaves the region is sent up and selected by no zone of the region, at any order *)
Lemma leaves_region_only_up R z order e :
  fst (retx_tx e) / 16 <> R ->
  goes_to_prime R e = true /\ filter_to_sub [R; z] REGION_CTX order (retx_tx e) = false.
Proof.
  destruct e as [[i p] ty]. cbn [retx_tx fst snd]. intro HR. split.
  - unfold goes_to_prime. cbn [retx_tx fst snd]. apply N.eqb_neq in HR. rewrite HR. reflexivity.
  - change (retx_tx (i, p, ty)) with (p, ty).
    destruct (filter_to_sub [R; z] REGION_CTX order (p, ty)) eqn:E; [|reflexivity].
    apply filter_region_dest in E. cbn [fst] in E. unfold loc_of_prefix in E. congruence.
Qed.

(* ------------------------------------------------------------------ the headline statement *)

Definition chain_in_store (w : rworld) (c : list rblock) : Prop :=
  match c with [] => True | b :: anc => anc_chain w b anc end.

Lemma chain_suffix w : forall pre b anc, chain_in_store w (pre ++ b :: anc) -> anc_chain w b anc.
Proof.
  induction pre as [|x pre IH]; intros b anc H; [exact H|].
  apply IH. cbn [app chain_in_store] in H. destruct pre as [|y pre']; cbn [app] in *.
  - destruct H as [_ [_ H]]. exact H.
  - destruct H as [_ [_ H]]. exact H.
Qed.

Lemma Forall_suffix {A} (P : A -> Prop) pre l : Forall P (pre ++ l) -> Forall P l.
Proof. intro H. apply Forall_app in H. tauto. Qed.

Lemma NoDup_suffix {A} (pre l : list A) : NoDup (pre ++ l) -> NoDup l.
Proof. induction pre; cbn [app]; intro H; [exact H|]. inversion H; auto. Qed.

Lemma delivered_exactly_once_lem w R Z c :
  in_region R Z -> Forall (wf_block R Z) c -> chain_in_store w c -> complete w c -> NoDup c ->
  (forall pre b anc, c = pre ++ b :: anc -> handed_down w REGION_CTX b = ROk (handed_list w REGION_CTX b anc))
  /\ (forall b anc e, In e (handed_list w REGION_CTX b anc) -> loc_of_prefix (fst (retx_tx e)) = rb_loc b)
  /\ Permutation (delivered w Z c ++ pending_for w Z c) (owed w Z c)
  /\ (forall e, (cnt e (delivered w Z c) + cnt e (pending_for w Z c) = cnt e (owed w Z c))%nat)
  /\ (NoDup (owed w Z c) -> NoDup (delivered w Z c ++ pending_for w Z c)).
Proof.
  intros HZ Hwf Hch Hcomp Hnd. repeat split.
  - intros pre b anc ->. apply handed_down_refines.
    + eapply chain_suffix; eauto.
    + eapply Forall_suffix; eauto.
    + apply NoDup_suffix in Hnd. inversion Hnd; auto.
  - intros b anc e. apply handed_list_dest.
  - eapply hier_conservation; eauto.
  - eapply hier_conservation_count; eauto.
  - intro H. eapply Permutation_NoDup; [|exact H]. apply Permutation_sym. eapply hier_conservation; eauto.
Qed.

Lemma prime_delivered_exactly_once_lem w Z c :
  wf_chain_p Z c -> chain_in_store w c -> complete w c -> NoDup c ->
  (forall pre b anc, c = pre ++ b :: anc -> handed_down w PRIME_CTX b = ROk (handed_list w PRIME_CTX b anc))
  /\ Permutation (delivered_p w Z c ++ pending_for_p w Z c) (owed_p w Z c)
  /\ (forall e, (cnt e (delivered_p w Z c) + cnt e (pending_for_p w Z c) = cnt e (owed_p w Z c))%nat)
  /\ (NoDup (owed_p w Z c) -> NoDup (delivered_p w Z c ++ pending_for_p w Z c)).
Proof.
  intros Hwf Hch Hcomp Hnd.
  assert (HP : Permutation (delivered_p w Z c ++ pending_for_p w Z c) (owed_p w Z c)).
  { apply (Permutation_count_occ retx_dec). intro e. rewrite count_occ_app. apply (prime_conservation_count w Z c Hwf e). }
  repeat split.
  - intros pre b anc ->. apply handed_down_refines.
    + eapply chain_suffix; eauto.
    + eapply Forall_suffix; eauto.
    + apply NoDup_suffix in Hnd. inversion Hnd; auto.
  - exact HP.
  - apply prime_conservation_count. exact Hwf.
  - intro H. eapply Permutation_NoDup; [|exact H]. apply Permutation_sym. exact HP.
Qed.

(* a prime block of the region leaves nothing pending for it *)
Lemma prime_block_clears_pending w Z b anc :
  rb_order b = PRIME_CTX -> not_active (rb_exp b) Z = false -> same_sub PRIME_CTX (rb_loc b) Z = true ->
  pending_for_p w Z (b :: anc) = [].
Proof.
  intros Ho Ha Hs. unfold pending_for_p. cbn [collect_list]. rewrite (walk_stops_prime Z b Ho Ha), Hs. reflexivity.
Qed.

(* CollectSubRollup is the concatenation, in manifest order, of what the zone blocks emitted *)
Lemma sub_rollup_concat w : forall m ls,
  Forall2 (fun h l => lookup_pending w h = Some l) m ls -> sub_rollup w m = Some (concat ls).
Proof.
  induction m as [|h m IH]; intros ls H; inversion H; subst; [reflexivity|].
  cbn [sub_rollup concat]. match goal with H1 : lookup_pending w h = Some _ |- _ => rewrite H1 end.
  rewrite (IH _ ltac:(eassumption)). reflexivity.
Qed.
Lemma sub_rollup_missing w : forall m h, In h m -> lookup_pending w h = None -> sub_rollup w m = None.
Proof.
  induction m as [|x m IH]; intros h Hm Hn; [destruct Hm|].
  destruct Hm as [->|Hin]; cbn [sub_rollup].
  - rewrite Hn. reflexivity.
  - destruct (lookup_pending w x); [|reflexivity]. rewrite (IH h Hin Hn). reflexivity.
Qed.

(* ------------------------------------------------------------------ a concrete chain (the shape of seeded C04_2) *)
(* region 0, zones 0..2.  r1 (zone 1), r2 (zone 0: its zone block 102 emitted a -> zone 1, b -> zone 2,
   x -> region 1), r3 (zone 1, PRIME order, prime hands down p1 -> zone 1 and the conversion p2 -> zone 2),
   r4 (zone 2), r5 (zone 1) *)
Definition ex_world : rworld :=
  mkRW [1]
    [mkRB 1 0 [] 0 0 [] [];
     mkRB 11 1 [0;1] 1 4 [101] [];
     mkRB 12 11 [0;0] 1 4 [102] [];
     mkRB 13 12 [0;1] 0 4 [103] [(7,1,0); (8,2,2)];
     mkRB 14 13 [0;2] 1 4 [104] [];
     mkRB 15 14 [0;1] 1 4 [105] []]
    [(101, []); (102, [(1,1,0); (2,2,0); (3,17,0)]); (103, [(4,0,0)]); (104, [(5,1,0)]); (105, [(6,2,0)])].
Definition ex_b (h : N) : rblock := match lookup_block ex_world h with Some b => b | None => mkRB 0 0 [] 0 0 [] [] end.
Definition ex_chain : list rblock := map ex_b [15; 14; 13; 12; 11].

Lemma ex_chain_ok :
  in_region 0 [0;1] /\ Forall (wf_block 0 [0;1]) ex_chain /\ chain_in_store ex_world ex_chain
  /\ complete ex_world ex_chain /\ NoDup ex_chain.
Proof.
  split; [exists 1; reflexivity|]. split.
  - repeat constructor; try (eexists; reflexivity); try (left; reflexivity); try (right; reflexivity);
      intros; try discriminate; vm_compute; reflexivity.
  - split; [|split].
    + cbn. repeat split; try reflexivity; eexists; reflexivity.
    + repeat constructor; vm_compute; discriminate.
    + repeat constructor; cbn; intuition discriminate.
Qed.

(* C19 -- lifetime eviction (tx_pool.go:loop, case <-evict.C) as part of the histories:
   exact effect of evicting one account's queue / pending list (what goes, and everything
   that must not change), preservation of every invariant of the property by an eviction
   tick for ANY set of expired accounts (the expiry test is wall clock: parameters), and
   the reachable-state theorems over histories extended by eviction ticks. *)
From Coq Require Import List NArith PeanoNat Bool Lia ZifyBool ZifyNat ZifyN.
From GQ Require Import Model.C19 Proofs.C19_Lists Proofs.C19_Struct Proofs.C19_Ops Proofs.C19_Heap
  Proofs.C19_State Proofs.C19_Limits Proofs.C19_QPay Proofs.C19.
Import ListNotations.
Local Open Scope N_scope.


(* removeTx(hash, true) over a list of transactions *)
Definition evict_list (c : cfg) (L : list tx) (p : pool) : pool :=
  fold_left (fun s t => remove_tx c t true s) L p.

(* ---------- two sorted lists with the same elements are equal ---------- *)
Lemma sorted_ext (l1 l2 : txl) : sorted l1 -> sorted l2 -> (forall x, In x l1 <-> In x l2) -> l1 = l2.
Proof.
  revert l2. induction l1 as [|x r IH]; intros l2 S1 S2 E.
  - destruct l2 as [|y r2]; [reflexivity|]. exfalso. apply (proj2 (E y)). left; reflexivity.
  - destruct l2 as [|y r2]; [exfalso; apply (proj1 (E x)); left; reflexivity|].
    destruct S1 as [A1 S1]. destruct S2 as [A2 S2].
    assert (Exy : x = y).
    { assert (Hx : In x (y :: r2)) by (apply E; left; reflexivity).
      assert (Hy : In y (x :: r)) by (apply E; left; reflexivity).
      destruct Hx as [Hx|Hx]; [auto|]. destruct Hy as [Hy|Hy]; [auto|].
      specialize (A1 _ Hy). specialize (A2 _ Hx). lia. }
    subst y. f_equal. apply IH; auto. intros z. split; intros Hz.
    + assert (Hz' : In z (x :: r2)) by (apply E; right; exact Hz).
      destruct Hz' as [<-|Hz']; [|exact Hz']. specialize (A1 _ Hz). lia.
    + assert (Hz' : In z (x :: r)) by (apply E; right; exact Hz).
      destruct Hz' as [<-|Hz']; [|exact Hz']. specialize (A2 _ Hz). lia.
Qed.

(* ---------- removeTx: what it leaves alone (no invariant needed) ---------- *)
Lemma remove_tx_view c t ob p :
  p_st (remove_tx c t ob p) = p_st p /\
  (forall b x, In x (aget b (p_pend (remove_tx c t ob p))) -> In x (aget b (p_pend p))) /\
  (forall b, b <> t_from t ->
     aget b (p_pend (remove_tx c t ob p)) = aget b (p_pend p) /\ pn_get (remove_tx c t ob p) b = pn_get p b).
Proof.
  unfold remove_tx. destruct (all_has t p) eqn:Eh; cbn [negb]; [|repeat split; auto].
  set (a := t_from t).
  set (p2 := if ob then removed 1 (all_remove t p) else all_remove t p).
  assert (V2 : same_view p p2).
  { unfold p2. destruct ob; [eapply sv_trans; [|apply sv_removed]|]; repeat split. }
  destruct V2 as [S1 [S2 S3]]. rewrite S2.
  destruct (l_get (t_nonce t) (aget a (p_pend p))) as [y|] eqn:Eg.
  - destruct (l_remove_strict (t_nonce t) (aget a (p_pend p))) as [invalids pl'] eqn:Er.
    set (p3 := set_pend a pl' p2).
    set (p4 := fold_left (fun s x => requeue c x s) invalids p3).
    destruct (requeue_list_fields c invalids p3) as [F1 [F2 [F3 _]]]. fold p4 in F1, F2, F3.
    assert (G1 : p_st (pn_set_if_lower a (t_nonce t) p4) = p_st p).
    { unfold pn_set_if_lower. destruct (_ <=? _); psimpl; rewrite F2; unfold p3; psimpl; exact S1. }
    assert (G2 : p_pend (pn_set_if_lower a (t_nonce t) p4) = aset a pl' (p_pend p)).
    { unfold pn_set_if_lower. destruct (_ <=? _); psimpl; rewrite F1; unfold p3; psimpl; rewrite S2; reflexivity. }
    split; [exact G1|]. split.
    + intros b x. rewrite G2, aget_aset. destruct (a =? b) eqn:E; [|auto].
      assert (b = a) by lia. subst b. unfold l_remove_strict in Er. inversion Er; subst.
      rewrite filter_In, l_remove_in. tauto.
    + intros b Hb. rewrite G2. split; [apply aget_aset_other; auto|].
      rewrite pn_get_if_lower. assert (E : a =? b = false) by lia. rewrite E.
      unfold pn_get, st_nonce. rewrite F2, F3. unfold p3. psimpl. rewrite S1, S3. reflexivity.
  - psimpl. rewrite S2. split; [exact S1|]. split; [auto|]. intros b _. split; [reflexivity|].
    unfold pn_get, st_nonce. psimpl. rewrite S1, S3. reflexivity.
Qed.

(* ---------- removeTx removes exactly its transaction from the hash index ---------- *)
Lemma requeue_list_all c a D R p : InvR a (D ++ R) p ->
  p_all (fold_left (fun s t => requeue c t s) D p) = p_all p.
Proof.
  revert p. induction D as [|x D IH]; intros p H; cbn [fold_left]; [reflexivity|].
  cbn [app] in H. rewrite IH by (apply invr_requeue; exact H).
  rewrite (requeue_eq _ _ _ _ _ H). reflexivity.
Qed.

Lemma remove_tx_in_all c t ob p x : Inv0 p ->
  (in_all x (remove_tx c t ob p) <-> in_all x p /\ x <> t).
Proof.
  intros H0. unfold remove_tx. destruct (all_has t p) eqn:Eh; cbn [negb].
  2:{ apply all_has_false in Eh. split; [intros Hx; split; [exact Hx|intros ->; auto]|tauto]. }
  apply all_has_in in Eh. set (a := t_from t).
  pose proof (inv0_any a _ H0) as H.
  set (p2 := if ob then removed 1 (all_remove t p) else all_remove t p).
  assert (F2 : p_pend p2 = p_pend p /\ p_queue p2 = p_queue p /\ p_all p2 = p_all (all_remove t p)).
  { unfold p2. destruct ob; [|repeat split]. destruct (removed_fields 1 (all_remove t p)) as [A [B [C _]]]. rewrite A, B, C. repeat split. }
  destruct F2 as [Fp [Fq Fa]]. rewrite Fp.
  apply (ir_all _ _ _ H) in Eh. fold a in Eh. cbn [In] in Eh.
  assert (Spl : sorted (aget a (p_pend p))) by apply (ir_pend _ _ _ H a).
  destruct (l_get (t_nonce t) (aget a (p_pend p))) as [y|] eqn:Eg.
  - apply l_get_in in Eg as [Hy Ey].
    assert (Ht : In t (aget a (p_pend p))).
    { destruct Eh as [Eh|[Eh|[]]]; [exact Eh|]. exfalso. apply (ir_disj _ _ _ H a y t); auto. }
    pose proof (l_remove_strict_splits (t_nonce t) _ t Spl Ht eq_refl) as S.
    destruct (l_remove_strict (t_nonce t) (aget a (p_pend p))) as [invalids pl'] eqn:Er. cbn [fst snd] in S.
    pose proof (invr_pend_to_limbo a [] p pl' (t :: invalids) H S) as H1. rewrite app_nil_r in H1.
    apply invr_drop_one in H1. rewrite <- (app_nil_r invalids) in H1.
    assert (SL : same_lists (fold_left (fun s x => requeue c x s) invalids (all_remove t (set_pend a pl' p)))
                            (fold_left (fun s x => requeue c x s) invalids (set_pend a pl' p2))).
    { apply requeue_list_same. unfold same_lists. psimpl. rewrite Fp, Fq, Fa. psimpl. repeat split. }
    destruct SL as [_ [_ E3]].
    assert (EA : p_all (pn_set_if_lower a (t_nonce t) (fold_left (fun s x => requeue c x s) invalids (set_pend a pl' p2)))
                 = p_all (fold_left (fun s x => requeue c x s) invalids (set_pend a pl' p2))).
    { unfold pn_set_if_lower. destruct (_ <=? _); reflexivity. }
    unfold in_all. rewrite EA, E3, (requeue_list_all _ _ _ _ _ H1).
    apply (in_all_remove t x (set_pend a pl' p)).
  - unfold in_all. psimpl. rewrite Fa. apply (in_all_remove t x p).
Qed.

(* removeTx of a queued transaction only touches its account's queue *)
Lemma remove_tx_queued c t ob p : Inv0 p -> In t (aget (t_from t) (p_queue p)) ->
  p_pend (remove_tx c t ob p) = p_pend p /\ p_pn (remove_tx c t ob p) = p_pn p /\
  forall b, aget b (p_queue (remove_tx c t ob p)) =
            if t_from t =? b then l_remove (t_nonce t) (aget b (p_queue p)) else aget b (p_queue p).
Proof.
  intros H0 Ht. unfold remove_tx.
  assert (Eh : all_has t p = true). { apply all_has_in. apply (ir_all _ _ _ H0). auto. }
  rewrite Eh; cbn [negb]. set (a := t_from t). fold a in Ht.
  set (p2 := if ob then removed 1 (all_remove t p) else all_remove t p).
  assert (F2 : p_pend p2 = p_pend p /\ p_queue p2 = p_queue p /\ p_pn p2 = p_pn p).
  { unfold p2. destruct ob; [|repeat split]. destruct (removed_fields 1 (all_remove t p)) as [A [B [_ [D _]]]]. rewrite A, B, D. repeat split. }
  destruct F2 as [Fp [Fq Fn]]. rewrite Fp.
  assert (Eg : l_get (t_nonce t) (aget a (p_pend p)) = None).
  { apply l_get_none. intros y Hy E. apply (ir_disj _ _ _ H0 a y t); auto. }
  rewrite Eg. psimpl. rewrite Fp, Fq, Fn. split; [reflexivity|]. split; [reflexivity|].
  intros b. rewrite aget_aset. destruct (a =? b) eqn:E; [|reflexivity]. assert (b = a) by lia. subst b. reflexivity.
Qed.

(* ---------- the eviction loops ---------- *)
Lemma evict_list_inv0 c L p : Inv0 p -> Inv0 (evict_list c L p).
Proof. apply (fold_pres Inv0 (fun s t => remove_tx c t true s) L). intros t q. apply remove_tx_inv0. Qed.

Lemma evict_list_IW c L p : IW p -> IW (evict_list c L p).
Proof. apply (fold_pres IW (fun s t => remove_tx c t true s) L). intros t. apply remove_tx_IW. Qed.

Lemma evict_list_in_all c L p x : Inv0 p ->
  (in_all x (evict_list c L p) <-> in_all x p /\ ~ In x L).
Proof.
  revert p. induction L as [|t L IH]; intros p H0; cbn [evict_list fold_left In]; [tauto|].
  change (fold_left (fun s u => remove_tx c u true s) L (remove_tx c t true p)) with (evict_list c L (remove_tx c t true p)).
  rewrite IH by (apply remove_tx_inv0; exact H0). rewrite remove_tx_in_all by exact H0.
  split; [intros [[A B] C]; split; [exact A|intros [E|E]; [congruence|auto]]|].
  intros [A B]. split; [split; [exact A|]|]; intuition congruence.
Qed.

Lemma evict_list_view c L p :
  p_st (evict_list c L p) = p_st p /\
  (forall b x, In x (aget b (p_pend (evict_list c L p))) -> In x (aget b (p_pend p))) /\
  (forall b, (forall t, In t L -> t_from t <> b) ->
     aget b (p_pend (evict_list c L p)) = aget b (p_pend p) /\ pn_get (evict_list c L p) b = pn_get p b).
Proof.
  revert p. induction L as [|t L IH]; intros p; cbn [evict_list fold_left]; [repeat split; auto|].
  change (fold_left (fun s u => remove_tx c u true s) L (remove_tx c t true p)) with (evict_list c L (remove_tx c t true p)).
  destruct (IH (remove_tx c t true p)) as [A [B C]]. destruct (remove_tx_view c t true p) as [A' [B' C']].
  split; [congruence|]. split; [intros b x Hx; apply B', B, Hx|].
  intros b Hb. destruct (C b) as [C1 C2]; [intros u Hu; apply Hb; right; exact Hu|].
  destruct (C' b) as [C1' C2']; [intros E; apply (Hb t); [left; reflexivity|auto]|].
  split; congruence.
Qed.

(* ---------- exact effect of evicting one account's pending list ---------- *)
Lemma evict_pending_spec c a p : Inv0 p ->
  aget a (p_pend (evict_pending c a p)) = [] /\
  (forall b, b <> a -> aget b (p_pend (evict_pending c a p)) = aget b (p_pend p) /\ pn_get (evict_pending c a p) b = pn_get p b) /\
  (forall b, aget b (p_queue (evict_pending c a p)) = aget b (p_queue p)) /\
  (forall x, in_all x (evict_pending c a p) <-> in_all x p /\ ~ In x (aget a (p_pend p))) /\
  p_st (evict_pending c a p) = p_st p.
Proof.
  intros H0. change (evict_pending c a p) with (evict_list c (aget a (p_pend p)) p).
  set (L := aget a (p_pend p)). set (p' := evict_list c L p).
  assert (H' : Inv0 p') by (apply evict_list_inv0; exact H0).
  assert (HA : forall x, in_all x p' <-> in_all x p /\ ~ In x L) by (intros x; apply evict_list_in_all; exact H0).
  destruct (evict_list_view c L p) as [Vst [Vsub Vfr]]. fold p' in Vst, Vsub, Vfr.
  assert (Lown : forall t, In t L -> t_from t = a) by (apply (proj2 (ir_pend _ _ _ H0 a))).
  assert (E1 : aget a (p_pend p') = []).
  { destruct (aget a (p_pend p')) as [|x r] eqn:E; [reflexivity|exfalso].
    assert (Hx : In x (aget a (p_pend p'))) by (rewrite E; left; reflexivity).
    assert (Fx : t_from x = a) by (apply (proj2 (ir_pend _ _ _ H' a)); exact Hx).
    assert (Ix : in_all x p') by (apply (ir_all _ _ _ H'); rewrite Fx; auto).
    apply HA in Ix. apply (proj2 Ix). apply Vsub. exact Hx. }
  assert (E2 : forall b, b <> a -> aget b (p_pend p') = aget b (p_pend p) /\ pn_get p' b = pn_get p b).
  { intros b Hb. apply Vfr. intros t Ht E. apply Hb. rewrite <- E. apply Lown. exact Ht. }
  split; [exact E1|]. split; [exact E2|]. split; [|split; [exact HA|exact Vst]].
  intros b. apply sorted_ext; [apply (ir_queue _ _ _ H' b)|apply (ir_queue _ _ _ H0 b)|].
  intros x. split; intros Hx.
  - assert (Fx : t_from x = b) by (apply (proj2 (ir_queue _ _ _ H' b)); exact Hx).
    assert (Ix : in_all x p') by (apply (ir_all _ _ _ H'); rewrite Fx; auto).
    apply HA in Ix as [Ix Nx]. apply (ir_all _ _ _ H0) in Ix. rewrite Fx in Ix. cbn [In] in Ix.
    destruct Ix as [Ix|[Ix|[]]]; [exfalso|exact Ix].
    destruct (N.eq_dec b a) as [->|Hb]; [apply Nx; exact Ix|].
    destruct (E2 b Hb) as [Eb _]. rewrite <- Eb in Ix. apply (ir_disj _ _ _ H' b x x Ix Hx). reflexivity.
  - assert (Fx : t_from x = b) by (apply (proj2 (ir_queue _ _ _ H0 b)); exact Hx).
    assert (Nx : ~ In x L).
    { intros Hl. pose proof (Lown _ Hl) as Fa. assert (Eb : b = a) by congruence.
      rewrite Eb in Hx. apply (ir_disj _ _ _ H0 a x x Hl Hx). reflexivity. }
    assert (Ix : in_all x p') by (apply HA; split; [apply (ir_all _ _ _ H0); rewrite Fx; auto|exact Nx]).
    apply (ir_all _ _ _ H') in Ix. rewrite Fx in Ix. cbn [In] in Ix.
    destruct Ix as [Ix|[Ix|[]]]; [exfalso|exact Ix].
    apply Vsub in Ix. apply (ir_disj _ _ _ H0 b x x Ix Hx). reflexivity.
Qed.

(* ---------- exact effect of evicting one account's queue ---------- *)
Lemma evict_queued_list c a L p : Inv0 p -> sorted L -> (forall t, In t L -> In t (aget a (p_queue p))) ->
  p_pend (evict_list c L p) = p_pend p /\ p_pn (evict_list c L p) = p_pn p /\
  (forall b, b <> a -> aget b (p_queue (evict_list c L p)) = aget b (p_queue p)) /\
  (forall x, In x (aget a (p_queue (evict_list c L p))) -> In x (aget a (p_queue p))).
Proof.
  revert p. induction L as [|t L IH]; intros p H0 SL HL; cbn [evict_list fold_left]; [repeat split; auto|].
  change (fold_left (fun s u => remove_tx c u true s) L (remove_tx c t true p)) with (evict_list c L (remove_tx c t true p)).
  assert (Ft : t_from t = a) by (apply (proj2 (ir_queue _ _ _ H0 a)); apply HL; left; reflexivity).
  assert (Ht : In t (aget (t_from t) (p_queue p))) by (rewrite Ft; apply HL; left; reflexivity).
  destruct (remove_tx_queued c t true p H0 Ht) as [R1 [R2 R3]]. rewrite Ft in R3.
  destruct SL as [SA SL].
  destruct (IH (remove_tx c t true p)) as [I1 [I2 [I3 I4]]].
  - apply remove_tx_inv0; exact H0.
  - exact SL.
  - intros u Hu. rewrite R3, N.eqb_refl. apply l_remove_in. split; [apply HL; right; exact Hu|].
    specialize (SA _ Hu). lia.
  - split; [congruence|]. split; [congruence|]. split.
    + intros b Hb. rewrite (I3 b Hb), R3. assert (E : a =? b = false) by lia. rewrite E. reflexivity.
    + intros x Hx. apply I4 in Hx. rewrite R3, N.eqb_refl in Hx. apply l_remove_in in Hx. tauto.
Qed.

Lemma evict_queue_spec c a p : Inv0 p ->
  aget a (p_queue (evict_queue c a p)) = [] /\
  (forall b, b <> a -> aget b (p_queue (evict_queue c a p)) = aget b (p_queue p)) /\
  p_pend (evict_queue c a p) = p_pend p /\ p_pn (evict_queue c a p) = p_pn p /\
  p_st (evict_queue c a p) = p_st p /\
  (forall x, in_all x (evict_queue c a p) <-> in_all x p /\ ~ In x (aget a (p_queue p))).
Proof.
  intros H0. change (evict_queue c a p) with (evict_list c (aget a (p_queue p)) p).
  set (L := aget a (p_queue p)). set (p' := evict_list c L p).
  assert (H' : Inv0 p') by (apply evict_list_inv0; exact H0).
  assert (HA : forall x, in_all x p' <-> in_all x p /\ ~ In x L) by (intros x; apply evict_list_in_all; exact H0).
  destruct (evict_queued_list c a L p H0 (proj1 (ir_queue _ _ _ H0 a)) (fun t Ht => Ht)) as [Q1 [Q2 [Q3 Q4]]].
  fold p' in Q1, Q2, Q3, Q4.
  destruct (evict_list_view c L p) as [Vst _]. fold p' in Vst.
  split; [|split; [exact Q3|split; [exact Q1|split; [exact Q2|split; [exact Vst|exact HA]]]]].
  destruct (aget a (p_queue p')) as [|x r] eqn:E; [reflexivity|exfalso].
  assert (Hx : In x (aget a (p_queue p'))) by (rewrite E; left; reflexivity).
  assert (Fx : t_from x = a) by (apply (proj2 (ir_queue _ _ _ H' a)); exact Hx).
  assert (Ix : in_all x p') by (apply (ir_all _ _ _ H'); rewrite Fx; auto).
  apply HA in Ix. apply (proj2 Ix). apply Q4. left; reflexivity.
Qed.

(* ---------- every invariant of the property survives an eviction ---------- *)
Lemma last_next_nil d : last_next d [] = d.
Proof. reflexivity. Qed.

Lemma evict_queue_IWT c a p : IWT p -> IWT (evict_queue c a p).
Proof.
  intros [H0 [HW HT]].
  destruct (evict_list_IW c (aget a (p_queue p)) p (conj H0 HW)) as [H' W'].
  change (evict_list c (aget a (p_queue p)) p) with (evict_queue c a p) in H', W'.
  split; [exact H'|]. split; [exact W'|].
  destruct (evict_queue_spec c a p H0) as [_ [_ [E1 [E2 [E3 _]]]]].
  intros b. unfold pn_get, st_nonce. rewrite E1, E2, E3. apply (HT b).
Qed.

Lemma evict_pending_IWT c a p : IWT p -> IWT (evict_pending c a p).
Proof.
  intros [H0 [HW HT]].
  destruct (evict_list_IW c (aget a (p_pend p)) p (conj H0 HW)) as [H' W'].
  change (evict_list c (aget a (p_pend p)) p) with (evict_pending c a p) in H', W'.
  split; [exact H'|]. split; [exact W'|].
  destruct (evict_pending_spec c a p H0) as [E1 [E2 [_ [_ E3]]]].
  intros b. destruct (N.eq_dec b a) as [->|Hb].
  - rewrite E1, last_next_nil. apply (w_pn_empty _ _ (W' a)). exact E1.
  - destruct (E2 b Hb) as [A B]. rewrite A, B. unfold st_nonce. rewrite E3. apply (HT b).
Qed.

Lemma evict_list_hk c L p : heap_ok p -> heap_ok (evict_list c L p).
Proof. apply hk_fold. intros t q. apply hk_remove_tx. Qed.
Lemma evict_list_al M c L p : all_le M p -> all_le M (evict_list c L p).
Proof. apply al_fold. intros t q. apply al_remove_tx. Qed.
Lemma evict_list_ap c L p : all_pay p -> all_pay (evict_list c L p).
Proof.
  apply (shrink_ap (fun q => evict_list c L q)).
  - apply (sa_fold (fun s t => remove_tx c t true s) L). intros t. apply sa_remove_tx.
  - apply (evict_list_view c L p).
Qed.

(* the bundle of invariants behind the theorems of Props/C19.v *)
Definition XI (M : N) (p : pool) : Prop :=
  IWT p /\ heap_ok p /\ all_pay p /\ all_le M p.

Lemma evict_queue_XI M c a p : XI M p -> XI M (evict_queue c a p).
Proof.
  intros [A [B [C D]]]. split; [apply evict_queue_IWT; exact A|].
  split; [apply evict_list_hk; exact B|]. split; [apply evict_list_ap; exact C|apply evict_list_al; exact D].
Qed.
Lemma evict_pending_XI M c a p : XI M p -> XI M (evict_pending c a p).
Proof.
  intros [A [B [C D]]]. split; [apply evict_pending_IWT; exact A|].
  split; [apply evict_list_hk; exact B|]. split; [apply evict_list_ap; exact C|apply evict_list_al; exact D].
Qed.

Lemma evict_tick_XI M c qexp pexp p : XI M p -> XI M (evict_tick c qexp pexp p).
Proof.
  intros H. unfold evict_tick.
  apply (fold_pres (XI M) (fun s a => evict_pending c a s) pexp); [intros a q; apply evict_pending_XI|].
  apply (fold_pres (XI M) (fun s a => evict_queue c a s) qexp); [intros a q; apply evict_queue_XI|exact H].
Qed.

Lemma step_XI c p o qo : XI (c_gslots c + c_gqueue c) p -> XI (c_gslots c + c_gqueue c) (fst (step c p o qo)).
Proof.
  intros [A [B [C D]]]. split; [apply step_IWT; exact A|]. split; [apply hk_step; exact B|].
  split; [apply (step_IWTA c p o qo (conj A C))|apply al_step; exact D].
Qed.

Lemma xstep_XI c p x : XI (c_gslots c + c_gqueue c) p -> XI (c_gslots c + c_gqueue c) (xstep c p x).
Proof. destruct x as [o qo|q e]; cbn [xstep]; [apply step_XI|apply evict_tick_XI]. Qed.

Lemma init_XI M pl st : XI M (init pl st).
Proof.
  split; [apply init_IWT|]. split; [apply hk_init|]. split; [apply (init_IWTA pl st)|apply al_init].
Qed.

Lemma run_xhist_XI c h p : XI (c_gslots c + c_gqueue c) p -> XI (c_gslots c + c_gqueue c) (run_xhist c p h).
Proof. revert p. induction h as [|x h IH]; intros p H; cbn; [exact H|]. apply IH, xstep_XI, H. Qed.

(* ---------- statements used by Props/C19.v ---------- *)
Lemma xreachable_invariant c pl st h :
  let p := run_xhist c (init pl st) h in
  pool_invariant p /\
  (forall a t, In t (aget a (p_pend p)) \/ In t (aget a (p_queue p)) -> cost t <= st_bal p a /\ t_gas t <= s_maxgas (p_st p)) /\
  len (map fst (p_all p)) <= c_gslots c + c_gqueue c.
Proof.
  cbv zeta. destruct (run_xhist_XI c h (init pl st) (init_XI _ pl st)) as [A [B [C D]]].
  split; [apply invariant_of; assumption|]. split; [|exact D].
  intros a t Ht. destruct A as [H0 _]. destruct (all_pay_lists _ H0 C) as [HQ HP].
  assert (U : payable (run_xhist c (init pl st) h) a t) by (destruct Ht as [Ht|Ht]; [apply HP | apply HQ]; exact Ht).
  unfold payable, unpayable in U. apply orb_false_iff in U. destruct U as [U1 U2].
  apply N.ltb_ge in U1. apply N.ltb_ge in U2. split; assumption.
Qed.

Lemma evict_tick_preserved c qexp pexp p :
  IWT p -> heap_ok p -> all_pay p ->
  let p' := evict_tick c qexp pexp p in
  IWT p' /\ heap_ok p' /\ all_pay p' /\ pool_invariant p' /\ len (map fst (p_all p')) <= len (map fst (p_all p)).
Proof.
  cbv zeta. intros A B C.
  assert (X : XI (len (map fst (p_all p))) p).
  { split; [exact A|]. split; [exact B|]. split; [exact C|]. unfold all_le. lia. }
  destruct (evict_tick_XI _ c qexp pexp p X) as [A' [B' [C' D']]].
  split; [exact A'|]. split; [exact B'|]. split; [exact C'|]. split; [apply invariant_of; assumption|exact D'].
Qed.

(* non-vacuity: account 0 with pending [0;1] and queued [3], account 1 with queued [2] *)
Lemma nv_evict :
  let p1 := evict_tick w_cfg [] [0] nv_pool in
  let p2 := evict_tick w_cfg [1] [] nv_pool in
  aget 0 (p_pend nv_pool) <> [] /\ aget 0 (p_pend p1) = [] /\ map t_nonce (aget 0 (p_queue p1)) = [3] /\ pn_get p1 0 = 0 /\
  len (map fst (p_all p1)) = 2 /\ aget 1 (p_queue p2) = [] /\ map t_nonce (aget 0 (p_pend p2)) = [0; 1] /\ len (map fst (p_all p2)) = 3.
Proof. vm_compute. repeat split. discriminate. Qed.

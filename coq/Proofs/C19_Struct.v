(* C19 -- structural invariant of the pool model (sorted per-account lists, pending and
   queue disjoint per nonce, hash index = union of the lists, price heap covers the remote
   transactions) and its preservation by every primitive of Model/C19.v.

   The invariant is generalised by a "limbo" list R of transactions of one account that
   are in the hash index but momentarily in neither list (taken out of the queue by
   Ready and not yet promoted, invalidated by a removal and not yet re-queued ...):
   the real code passes through such states while it holds pool.mu. *)
From Coq Require Import List NArith PeanoNat Bool Lia ZifyBool ZifyNat ZifyN.
From GQ Require Import Model.C19 Proofs.C19_Lists.
Import ListNotations.
Local Open Scope N_scope.

Definition in_all (t : tx) (p : pool) : Prop := In t (map fst (p_all p)).

Record InvR (a : N) (R : list tx) (p : pool) : Prop := {
  ir_pend : forall b, sorted (aget b (p_pend p)) /\ owned b (aget b (p_pend p));
  ir_queue : forall b, sorted (aget b (p_queue p)) /\ owned b (aget b (p_queue p));
  ir_disj : forall b x y, In x (aget b (p_pend p)) -> In y (aget b (p_queue p)) -> t_nonce x <> t_nonce y;
  ir_nodup : NoDup (map fst (p_all p));
  ir_all : forall t, in_all t p <-> In t (aget (t_from t) (p_pend p)) \/ In t (aget (t_from t) (p_queue p)) \/ In t R;
  ir_R_owned : forall t, In t R -> t_from t = a;
  ir_R_nodup : NoDup (map t_nonce R);
  ir_R_fresh : forall t x, In t R -> In x (aget a (p_pend p)) \/ In x (aget a (p_queue p)) -> t_nonce t <> t_nonce x
}.

Definition Inv0 (p : pool) : Prop := InvR 0 [] p.
Definition heap_ok (p : pool) : Prop := forall t, In (t, false) (p_all p) -> In t (p_heap p).

Lemma inv0_any a p : Inv0 p -> InvR a [] p.
Proof. intros [H1 H2 H3 H4 H5 H6 H7 H8]. constructor; auto; try (intros ? []); try (intros ? ? []). Qed.
Lemma invr_nil a p : InvR a [] p -> Inv0 p.
Proof. intros [H1 H2 H3 H4 H5 H6 H7 H8]. constructor; auto; try (intros ? []); try (intros ? ? []). Qed.

(* ---------- all_has / in_all ---------- *)
Lemma all_has_in t p : all_has t p = true <-> in_all t p.
Proof.
  unfold all_has, in_all. rewrite existsb_exists, in_map_iff. split.
  - intros [e [He E]]. apply tx_eqb_eq in E. exists e. auto.
  - intros [e [E He]]. exists e. split; auto. apply tx_eqb_eq. auto.
Qed.
Lemma all_has_false t p : all_has t p = false <-> ~ in_all t p.
Proof. rewrite <- all_has_in. destruct (all_has t p); split; congruence. Qed.

Lemma in_all_remove x t p : in_all t (all_remove x p) <-> in_all t p /\ t <> x.
Proof.
  unfold in_all, all_remove. cbn. rewrite !in_map_iff. split.
  - intros [e [E He]]. apply filter_In in He as [He Hn]. split; [eauto|].
    intros Etx. rewrite E, Etx, tx_eqb_refl in Hn. discriminate.
  - intros [[e [E He]] Hn]. exists e. split; auto. apply filter_In. split; auto.
    destruct (tx_eqb x (fst e)) eqn:Ex; auto. apply tx_eqb_eq in Ex. congruence.
Qed.
Lemma in_all_add x loc t p : in_all t (all_add x loc p) <-> t = x \/ in_all t p.
Proof. unfold in_all, all_add. cbn. intuition. Qed.

Lemma nodup_filter_fst (f : tx * bool -> bool) (l : list (tx * bool)) : NoDup (map fst l) -> NoDup (map fst (filter f l)).
Proof.
  induction l as [|e r IH]; cbn; [auto|]. intros H. inversion H as [|? ? Hn Hd]; subst.
  destruct (f e); cbn; auto. constructor; auto. intros Hin. apply Hn.
  apply in_map_iff in Hin as [e' [E He']]. apply filter_In in He' as [He' _]. apply in_map_iff. eauto.
Qed.

(* field access through the bookkeeping of the price heap *)
Lemma removed_eq n p : exists h s, removed n p = set_priced h s p.
Proof. unfold removed, reheap. destruct (_ <=? _); eauto. Qed.

Ltac psimpl :=
  cbn [p_pend p_queue p_all p_heap p_stales p_pn p_locals p_gasprice p_st p_oos
       set_pend set_queue set_all set_priced set_pn set_locals set_gasprice set_st set_oos
       all_add all_remove pn_set heap_put reheap] in *.

(* InvR does not look at heap, stales, pn, locals, gas price, state, oos *)
Definition same_lists (p q : pool) : Prop :=
  (forall b, aget b (p_pend q) = aget b (p_pend p)) /\ (forall b, aget b (p_queue q) = aget b (p_queue p)) /\
  map fst (p_all q) = map fst (p_all p).

Lemma invr_same a R p q : same_lists p q -> InvR a R p -> InvR a R q.
Proof.
  intros [E1 [E2 E3]] [H1 H2 H3 H4 H5 H6 H7 H8]. unfold in_all in *.
  constructor; unfold in_all; try (intros; rewrite ?E1, ?E2, ?E3); auto.
  - rewrite E1 in H. rewrite E2 in H0. eapply H3; eauto.
  - rewrite E1, E2 in H0. eapply H8; eauto.
Qed.

Lemma same_removed n p : same_lists p (removed n p).
Proof. destruct (removed_eq n p) as [h [s ->]]. repeat split. Qed.
Lemma same_pn_set a v p : same_lists p (pn_set a v p).
Proof. repeat split. Qed.
Lemma same_pn_set_if_lower a v p : same_lists p (pn_set_if_lower a v p).
Proof. unfold pn_set_if_lower. destruct (_ <=? _); repeat split. Qed.
Lemma same_heap_put t l p : same_lists p (heap_put t l p).
Proof. unfold heap_put. destruct l; repeat split. Qed.
Lemma same_trans p q r : same_lists p q -> same_lists q r -> same_lists p r.
Proof. intros [A1 [A2 A3]] [B1 [B2 B3]]. split; [|split]; intros; congruence. Qed.
Lemma same_refl p : same_lists p p.
Proof. repeat split. Qed.
Lemma same_sym p q : same_lists p q -> same_lists q p.
Proof. intros [A1 [A2 A3]]. split; [|split]; intros; congruence. Qed.
Lemma same_eq p q : p_pend q = p_pend p -> p_queue q = p_queue p -> p_all q = p_all p -> same_lists p q.
Proof. intros A B C. unfold same_lists. rewrite A, B, C. repeat split. Qed.

(* ---------- S-a: dropping limbo transactions from the hash index ---------- *)
Lemma invr_drop_one a x R p : InvR a (x :: R) p -> InvR a R (all_remove x p).
Proof.
  intros [H1 H2 H3 H4 H5 H6 H7 H8]. constructor; psimpl; auto.
  - apply nodup_filter_fst. exact H4.
  - intros t. rewrite in_all_remove, H5. cbn [In]. split.
    + intros [[H|[H|[H|H]]] Hn]; auto. congruence.
    + assert (Hx : t_from x = a) by (apply H6; left; reflexivity).
      intros [H|[H|H]]; (split; [tauto|]); intros ->.
      * rewrite Hx in H. apply (H8 x x); cbn; auto.
      * rewrite Hx in H. apply (H8 x x); cbn; auto.
      * inversion H7 as [|? ? Hn _]; subst. apply Hn. apply in_map. exact H.
  - intros t Ht. apply H6. right; exact Ht.
  - inversion H7; auto.
  - intros t y Ht. apply H8. right; exact Ht.
Qed.

Lemma invr_drop_list a D R p : InvR a (D ++ R) p -> InvR a R (all_remove_list D p).
Proof.
  revert p. induction D as [|x D IH]; intros p H; cbn; [exact H|].
  apply IH. apply invr_drop_one. exact H.
Qed.

(* all_remove_list only touches the hash index *)
Lemma all_remove_list_fields D p :
  p_pend (all_remove_list D p) = p_pend p /\ p_queue (all_remove_list D p) = p_queue p /\
  p_pn (all_remove_list D p) = p_pn p /\ p_st (all_remove_list D p) = p_st p /\
  p_heap (all_remove_list D p) = p_heap p /\ p_stales (all_remove_list D p) = p_stales p /\
  p_locals (all_remove_list D p) = p_locals p /\ p_gasprice (all_remove_list D p) = p_gasprice p /\
  p_oos (all_remove_list D p) = p_oos p.
Proof.
  revert p. induction D as [|x D IH]; intros p; cbn; [repeat split|].
  destruct (IH (all_remove x p)) as [A [B [C [E [F [G [H [I J]]]]]]]]. psimpl. repeat split; assumption.
Qed.

(* ---------- S-b / S-c: moving transactions of one list to limbo ---------- *)
Definition splits (l keep out : txl) : Prop :=
  (forall x, In x l <-> In x keep \/ In x out) /\ (forall x, In x keep -> In x out -> False) /\ sorted keep /\ NoDup (map t_nonce out).

Lemma sorted_nodup_nonce l : sorted l -> NoDup (map t_nonce l).
Proof.
  induction l as [|x r IH]; cbn; [constructor|]. intros [Hlt Hs]. constructor; auto.
  intros Hin. apply in_map_iff in Hin as [y [E Hy]]. specialize (Hlt _ Hy). lia.
Qed.
Lemma nodup_nonce_sub (l out : txl) : sorted l -> NoDup out -> (forall x, In x out -> In x l) -> NoDup (map t_nonce out).
Proof.
  intros Hs Hnd Hsub. induction out as [|x r IH]; cbn; [constructor|].
  inversion Hnd as [|? ? Hn Hd]; subst. constructor.
  - intros Hin. apply in_map_iff in Hin as [y [E Hy]]. assert (y = x).
    { eapply sorted_nonce_inj; eauto. apply Hsub; right; exact Hy. apply Hsub; left; reflexivity. }
    subst y. auto.
  - apply IH; auto. intros y Hy. apply Hsub. right; exact Hy.
Qed.
Lemma sorted_nodup l : sorted l -> NoDup l.
Proof.
  induction l as [|x r IH]; cbn; [constructor|]. intros [Hlt Hs]. constructor; auto.
  intros Hin. specialize (Hlt _ Hin). lia.
Qed.
Lemma nodup_filter {A} (f : A -> bool) (l : list A) : NoDup l -> NoDup (filter f l).
Proof.
  induction l as [|x r IH]; cbn; [auto|]. intros H. inversion H; subst. destruct (f x); auto.
  constructor; auto. intros Hin. apply filter_In in Hin. tauto.
Qed.

Lemma splits_filter f l : sorted l -> splits l (filter (fun x => negb (f x)) l) (filter f l).
Proof.
  intros Hs. repeat split.
  - intros Hx. destruct (f x) eqn:E; [right|left]; apply filter_In; rewrite ?E; auto.
  - intros [H|H]; apply filter_In in H; tauto.
  - intros x H1 H2. apply filter_In in H1 as [_ H1]. apply filter_In in H2 as [_ H2]. rewrite H2 in H1. discriminate.
  - apply filter_sorted; exact Hs.
  - apply nodup_nonce_sub with (l := l); auto.
    + apply nodup_filter. apply sorted_nodup; exact Hs.
    + intros x Hx. apply filter_In in Hx. tauto.
Qed.
Lemma splits_filter' f l : sorted l -> splits l (filter f l) (filter (fun x => negb (f x)) l).
Proof.
  intros Hs. pose proof (splits_filter (fun x => negb (f x)) l Hs) as H.
  assert (E : filter (fun x => negb (negb (f x))) l = filter f l).
  { apply filter_ext. intros x. apply negb_involutive. }
  cbn beta in H. rewrite E in H. exact H.
Qed.
Lemma splits_app l1 l2 : sorted (l1 ++ l2) -> splits (l1 ++ l2) l2 l1 /\ splits (l1 ++ l2) l1 l2.
Proof.
  intros Hs. pose proof Hs as Hs'. apply sorted_app in Hs' as [S1 [S2 S3]].
  split.
  - split; [intros u; rewrite in_app_iff; tauto|]. split; [|split; [exact S2|apply sorted_nodup_nonce; exact S1]].
    intros u H2 H1. specialize (S3 _ _ H1 H2). lia.
  - split; [intros u; rewrite in_app_iff; tauto|]. split; [|split; [exact S1|apply sorted_nodup_nonce; exact S2]].
    intros u H1 H2. specialize (S3 _ _ H1 H2). lia.
Qed.

Lemma nodup_nonce_app (D R : txl) :
  NoDup (map t_nonce D) -> NoDup (map t_nonce R) -> (forall x y, In x D -> In y R -> t_nonce x <> t_nonce y) ->
  NoDup (map t_nonce (D ++ R)).
Proof.
  intros H1 H2 H3. induction D as [|x D IH]; cbn; [exact H2|].
  inversion H1 as [|? ? Hn Hd]; subst. constructor.
  - rewrite map_app, in_app_iff. intros [H|H]; [auto|].
    apply in_map_iff in H as [y [E Hy]]. apply (H3 x y); cbn; auto.
  - apply IH; auto. intros u v Hu Hv. apply H3; cbn; auto.
Qed.

Lemma invr_queue_to_limbo a R p keep out :
  InvR a R p -> splits (aget a (p_queue p)) keep out -> InvR a (out ++ R) (set_queue a keep p).
Proof.
  intros [H1 H2 H3 H4 H5 H6 H7 H8] [P1 [P2 [P3 P4]]]. constructor; psimpl; auto.
  - intros b. rewrite aget_aset. destruct (a =? b) eqn:E; [|apply H2].
    assert (b = a) by lia. subst b. split; auto. intros t Ht. apply (proj2 (H2 a)). apply P1; auto.
  - intros b x y Hx. rewrite aget_aset. destruct (a =? b) eqn:E; [|apply H3; auto].
    assert (b = a) by lia. subst b. intros Hy. apply (H3 a); auto. apply P1; auto.
  - intros t. unfold in_all in *. psimpl. rewrite H5. rewrite aget_aset, in_app_iff.
    destruct (a =? t_from t) eqn:E.
    + assert (t_from t = a) by lia. rewrite H. rewrite (P1 t). tauto.
    + split; [tauto|]. intros [H|[H|[H|H]]]; auto.
      exfalso. assert (In t (aget a (p_queue p))) by (apply P1; auto).
      apply (proj2 (H2 a)) in H0. lia.
  - intros t Ht. apply in_app_or in Ht as [Ht|Ht]; auto.
    apply (proj2 (H2 a)). apply P1; auto.
  - apply nodup_nonce_app; auto. intros x y Hx Hy. intros E. apply (H8 y x Hy); auto. right. apply P1; auto.
  - intros t x Ht. rewrite aget_aset_same. apply in_app_or in Ht as [Ht|Ht].
    + intros [Hx|Hx].
      * intros E. apply (H3 a x t); auto. apply P1; auto.
      * intros E. assert (t = x).
        { apply (sorted_nonce_inj (aget a (p_queue p))); auto; [apply H2|apply P1; auto|apply P1; auto]. }
        subst. eapply P2; eauto.
    + intros [Hx|Hx]; apply H8; auto. right. apply P1; auto.
Qed.

Lemma invr_pend_to_limbo a R p keep out :
  InvR a R p -> splits (aget a (p_pend p)) keep out -> InvR a (out ++ R) (set_pend a keep p).
Proof.
  intros [H1 H2 H3 H4 H5 H6 H7 H8] [P1 [P2 [P3 P4]]]. constructor; psimpl; auto.
  - intros b. rewrite aget_aset. destruct (a =? b) eqn:E; [|apply H1].
    assert (b = a) by lia. subst b. split; auto. intros t Ht. apply (proj2 (H1 a)). apply P1; auto.
  - intros b x y. rewrite aget_aset. destruct (a =? b) eqn:E; [|apply H3; auto].
    assert (b = a) by lia. subst b. intros Hx Hy. apply (H3 a); auto. apply P1; auto.
  - intros t. unfold in_all in *. psimpl. rewrite H5. rewrite aget_aset, in_app_iff.
    destruct (a =? t_from t) eqn:E.
    + assert (t_from t = a) by lia. rewrite H. rewrite (P1 t). tauto.
    + split; [tauto|]. intros [H|[H|[H|H]]]; auto.
      exfalso. assert (In t (aget a (p_pend p))) by (apply P1; auto).
      apply (proj2 (H1 a)) in H0. lia.
  - intros t Ht. apply in_app_or in Ht as [Ht|Ht]; auto.
    apply (proj2 (H1 a)). apply P1; auto.
  - apply nodup_nonce_app; auto. intros x y Hx Hy. intros E. apply (H8 y x Hy); auto. left. apply P1; auto.
  - intros t x Ht. rewrite aget_aset_same. apply in_app_or in Ht as [Ht|Ht].
    + intros [Hx|Hx].
      * intros E. assert (t = x).
        { apply (sorted_nonce_inj (aget a (p_pend p))); auto; [apply H1|apply P1; auto|apply P1; auto]. }
        subst. eapply P2; eauto.
      * intros E. apply (H3 a t x); auto. apply P1; auto.
    + intros [Hx|Hx]; apply H8; auto. left. apply P1; auto.
Qed.

(* ---------- S-d / S-e: placing a limbo transaction ---------- *)
Lemma invr_place_pend a x R p :
  InvR a (x :: R) p -> InvR a R (set_pend a (l_put x (aget a (p_pend p))) p).
Proof.
  intros [H1 H2 H3 H4 H5 H6 H7 H8].
  assert (Hx : t_from x = a) by (apply H6; left; reflexivity).
  assert (Hfresh : forall y, In y (aget a (p_pend p)) -> t_nonce y <> t_nonce x).
  { intros y Hy E. apply (H8 x y); cbn; auto. }
  constructor; psimpl; auto.
  - intros b. rewrite aget_aset. destruct (a =? b) eqn:E; [|apply H1].
    assert (b = a) by lia. subst b. destruct (H1 a) as [S O]. split; [apply l_put_sorted; auto|apply l_put_owned; auto].
  - intros b u v. rewrite aget_aset. destruct (a =? b) eqn:E; [|apply H3].
    assert (b = a) by lia. subst b. intros Hu Hv. apply l_put_in in Hu as [->|[Hu _]]; [|apply (H3 a); auto|apply H1].
    apply (H8 x v); cbn; auto.
  - intros t. unfold in_all in *. psimpl. rewrite H5. rewrite aget_aset. cbn [In].
    destruct (a =? t_from t) eqn:E.
    + assert (Ht : t_from t = a) by lia. rewrite Ht. rewrite (l_put_in x _ t (proj1 (H1 a))). split.
      * intros [H|[H|[H|H]]].
        -- left. right. split; [exact H|apply Hfresh; exact H].
        -- right; left; exact H.
        -- left; left; symmetry; exact H.
        -- right; right; exact H.
      * intros [[H|[H _]]|[H|H]].
        -- right; right; left; symmetry; exact H.
        -- left; exact H.
        -- right; left; exact H.
        -- right; right; right; exact H.
    + split; [intros [H|[H|[H|H]]]; auto; subst; lia | tauto].
  - intros t Ht. apply H6. right; exact Ht.
  - inversion H7; auto.
  - intros t y Ht. rewrite aget_aset_same. intros [Hy|Hy].
    + apply l_put_in in Hy as [->|[Hy _]]; [|apply H8; cbn; auto|apply H1].
      inversion H7 as [|? ? Hn _]; subst. intros E. apply Hn. rewrite <- E. apply in_map. exact Ht.
    + apply H8; cbn; auto.
Qed.

Lemma invr_place_queue a x R p :
  InvR a (x :: R) p -> InvR a R (set_queue a (l_put x (aget a (p_queue p))) p).
Proof.
  intros [H1 H2 H3 H4 H5 H6 H7 H8].
  assert (Hx : t_from x = a) by (apply H6; left; reflexivity).
  constructor; psimpl; auto.
  - intros b. rewrite aget_aset. destruct (a =? b) eqn:E; [|apply H2].
    assert (b = a) by lia. subst b. destruct (H2 a) as [S O]. split; [apply l_put_sorted; auto|apply l_put_owned; auto].
  - intros b u v Hu. rewrite aget_aset. destruct (a =? b) eqn:E; [|apply H3; auto].
    assert (b = a) by lia. subst b. intros Hv. apply l_put_in in Hv as [->|[Hv _]]; [|apply (H3 a); auto|apply H2].
    intros E'. apply (H8 x u); cbn; auto.
  - intros t. unfold in_all in *. psimpl. rewrite H5. rewrite aget_aset. cbn [In].
    destruct (a =? t_from t) eqn:E.
    + assert (Ht : t_from t = a) by lia. rewrite Ht. rewrite (l_put_in x _ t (proj1 (H2 a))). split.
      * intros [H|[H|[H|H]]].
        -- left; exact H.
        -- right. left. right. split; [exact H|]. intros E'. apply (H8 x t); cbn; auto.
        -- right; left; left; symmetry; exact H.
        -- right; right; exact H.
      * intros [H|[[H|[H _]]|H]].
        -- left; exact H.
        -- right; right; left; symmetry; exact H.
        -- right; left; exact H.
        -- right; right; right; exact H.
    + split; [intros [H|[H|[H|H]]]; auto; subst; lia | tauto].
  - intros t Ht. apply H6. right; exact Ht.
  - inversion H7; auto.
  - intros t y Ht. rewrite aget_aset_same. intros [Hy|Hy].
    + apply H8; cbn; auto.
    + apply l_put_in in Hy as [->|[Hy _]]; [|apply H8; cbn; auto|apply H2].
      inversion H7 as [|? ? Hn _]; subst. intros E. apply Hn. rewrite <- E. apply in_map. exact Ht.
Qed.

Lemma limbo_not_in_pend a x R p : InvR a (x :: R) p -> l_get (t_nonce x) (aget a (p_pend p)) = None.
Proof.
  intros H. apply l_get_none. intros y Hy E. apply (ir_R_fresh _ _ _ H x y); cbn; auto.
Qed.
Lemma limbo_not_in_queue a x R p : InvR a (x :: R) p -> l_get (t_nonce x) (aget a (p_queue p)) = None.
Proof.
  intros H. apply l_get_none. intros y Hy E. apply (ir_R_fresh _ _ _ H x y); cbn; auto.
Qed.

(* promoteTx on a limbo transaction *)
Lemma promote_tx_eq c a x R p : InvR a (x :: R) p ->
  promote_tx c a x p = pn_set a (t_nonce x + 1) (set_pend a (l_put x (aget a (p_pend p))) p).
Proof.
  intros H. unfold promote_tx. rewrite (l_add_none_old _ _ _ (limbo_not_in_pend _ _ _ _ H)). reflexivity.
Qed.
Lemma invr_promote c a x R p : InvR a (x :: R) p -> InvR a R (promote_tx c a x p).
Proof.
  intros H. rewrite (promote_tx_eq _ _ _ _ _ H). eapply invr_same; [apply same_pn_set|]. apply invr_place_pend. exact H.
Qed.

(* enqueueTx(.., addAll=false) on a limbo transaction *)
Lemma requeue_eq c a x R p : InvR a (x :: R) p ->
  requeue c x p = set_queue a (l_put x (aget a (p_queue p))) p.
Proof.
  intros H. unfold requeue, enqueue_tx. rewrite (ir_R_owned _ _ _ H x) by (left; reflexivity).
  rewrite (l_add_none_old _ _ _ (limbo_not_in_queue _ _ _ _ H)). reflexivity.
Qed.
Lemma invr_requeue c a x R p : InvR a (x :: R) p -> InvR a R (requeue c x p).
Proof. intros H. rewrite (requeue_eq _ _ _ _ _ H). apply invr_place_queue. exact H. Qed.

Lemma invr_requeue_list c a D R p : InvR a (D ++ R) p -> InvR a R (fold_left (fun s t => requeue c t s) D p).
Proof.
  revert p. induction D as [|x D IH]; intros p H; cbn; [exact H|]. apply IH. apply invr_requeue. exact H.
Qed.
Lemma invr_promote_list c a D R p : InvR a (D ++ R) p -> InvR a R (fold_left (fun s t => promote_tx c a t s) D p).
Proof.
  revert p. induction D as [|x D IH]; intros p H; cbn; [exact H|]. apply IH. apply invr_promote. exact H.
Qed.

(* a new transaction enters limbo *)
Lemma invr_all_add a x loc p :
  InvR a [] p -> ~ in_all x p -> t_from x = a ->
  (forall y, In y (aget a (p_pend p)) \/ In y (aget a (p_queue p)) -> t_nonce x <> t_nonce y) ->
  InvR a [x] (all_add x loc p).
Proof.
  intros [H1 H2 H3 H4 H5 H6 H7 H8] Hn Hx Hf. constructor; psimpl; auto.
  - constructor; auto.
  - intros t. rewrite in_all_add. unfold in_all in *. rewrite H5. cbn [In]. intuition.
  - intros t [<-|[]]; auto.
  - cbn. constructor; [intros []|constructor].
  - intros t y [<-|[]] Hy. apply Hf. exact Hy.
Qed.

(* C14 — Transaction.ProtoEncode / ProtoDecode model: round trip at tree level, identity stability, injectivity. *)
From Coq Require Import List Arith NArith Lia Bool ZifyBool ZifyNat ZifyN.
From GQ Require Import Lib.Key Lib.C14_Varint Lib.C14_BigEndian Lib.C14_ProtoWire Lib.C14_ProtoWireFacts
  Lib.C14_ProtoWireNF Lib.C14_RLP Generated.C14Schemas Model.C14 Proofs.C14 Proofs.C14_Tx.
Import ListNotations.
Local Open Scope N_scope.

Local Arguments N.mul : simpl never.
Local Arguments N.add : simpl never.
Local Arguments N.sub : simpl never.
Local Arguments N.div : simpl never.
Local Arguments N.modulo : simpl never.
Local Arguments N.pow : simpl never.
Local Arguments N.ltb : simpl never.
Local Arguments N.leb : simpl never.

Definition ohash_nf (o : option bytes) : Prop := match o with Some h => hash_nf h | None => True end.
Definition work_nf (w : workf) : Prop :=
  ohash_nf (w_parent w) /\ ohash_nf (w_mix w) /\ match w_nonce w with Some n => n < u64 | None => True end.
(* unsigned (all zero) or passing crypto.ValidateSignatureValues *)
Definition sig_nf (v r s : N) : Prop := (v = 0 /\ r = 0 /\ s = 0) \/ ecdsa_sane v r s = true.
Definition quai_nf (q : quaitx) : Prop :=
  match q_to q with Some a => addr_nf a | None => True end /\ q_nonce q < u64 /\ q_gas q < u64 /\ wf_bytes (q_data q)
  /\ Forall at_nf (q_al q) /\ sig_nf (q_v q) (q_r q) (q_s q) /\ work_nf (q_work q).
Definition ext_nf (e : exttx) : Prop :=
  addr_nf (e_to e) /\ e_gas e < u64 /\ wf_bytes (e_data e) /\ Forall at_nf (e_al e) /\ hash_nf (e_orig e)
  /\ e_index e < 65536 /\ addr_nf (e_sender e) /\ e_type e < u64.

Lemma ohash_roundtrip o : ohash_nf o ->
  option_map (fun v => hash_of_msg (as_msg v)) (option_map (fun h => FMsg (hash_msg h)) o) = o.
Proof. destruct o as [h|]; [|reflexivity]. intros [Hl _]. cbn [option_map as_msg]. rewrite hash_msg_roundtrip by exact Hl. reflexivity. Qed.

Lemma lookup_some_none (o : option fval) : match o with Some v => Some v | None => None end = o.
Proof. destruct o; reflexivity. Qed.

Ltac lk := cbn [lookup app work_entries N.eqb Pos.eqb].

Definition quai_entries (q : quaitx) : list (N * option fval) :=
  [(1, Some (FInt QuaiTxType)); (2, option_map FBytes (q_to q)); (3, Some (FInt (q_nonce q)));
   (4, Some (FBytes (big_bytes (q_value q)))); (5, Some (FInt (q_gas q))); (6, Some (FBytes (q_data q)));
   (7, Some (FBytes (big_bytes (q_chain q)))); (8, Some (FBytes (big_bytes (q_price q))));
   (9, Some (FMsg (al_encode (q_al q)))); (10, Some (FBytes (big_bytes (q_v q))));
   (11, Some (FBytes (big_bytes (q_r q)))); (12, Some (FBytes (big_bytes (q_s q))))] ++ work_entries (q_work q).
Lemma tx_encode_quai c q : tx_encode c (TQuai q) = Some (build (quai_entries q)).
Proof. reflexivity. Qed.

Lemma quai_tree_roundtrip q d : quai_nf q -> tx_decode d (build (quai_entries q)) = DOk (TQuai q).
Proof.
  intros (Hto & Hn & Hg & Hd & Hal & Hsig & Hpa & Hmi & Hwn).
  unfold tx_decode. rewrite !has_build, !get_int_build, !get_bytes_build, !get_msg_build.
  unfold work_decode. rewrite !get_field_build. unfold quai_entries. lk. rewrite !lookup_some_none.
  cbn [as_int as_bytes as_msg negb]. unfold QuaiTxType. cbn [N.eqb].
  unfold big_of_bytes, big_bytes. rewrite !be_dec_enc. rewrite al_roundtrip by exact Hal.
  rewrite !ohash_roundtrip by assumption.
  assert (Esig : (negb (q_v q =? 0) || negb (q_r q =? 0) || negb (q_s q =? 0)) && negb (ecdsa_sane (q_v q) (q_r q) (q_s q)) = false).
  { destruct Hsig as [(-> & -> & ->) | ->]; [reflexivity|]. cbn [negb]. apply andb_false_r. }
  rewrite Esig.
  assert (Eto : option_map (fun x => addr_of_bytes (as_bytes x)) (option_map FBytes (q_to q)) = q_to q).
  { destruct (q_to q) as [a|]; [|reflexivity]. cbn [option_map as_bytes]. rewrite addr_roundtrip by exact (proj1 Hto). reflexivity. }
  rewrite Eto.
  assert (Ewn : option_map as_int (option_map FInt (w_nonce (q_work q))) = w_nonce (q_work q)) by (destruct (w_nonce (q_work q)); reflexivity).
  rewrite Ewn. destruct q as [? ? ? ? ? ? ? ? ? ? ? [? ? ?]]. reflexivity.
Qed.

Definition ext_entries (e : exttx) : list (N * option fval) :=
  [(1, Some (FInt ExternalTxType)); (2, Some (FBytes (e_to e))); (4, Some (FBytes (big_bytes (e_value e))));
   (5, Some (FInt (e_gas e))); (6, Some (FBytes (e_data e))); (9, Some (FMsg (al_encode (e_al e))));
   (13, Some (FMsg (hash_msg (e_orig e)))); (14, Some (FInt (e_index e mod 65536)));
   (18, Some (FBytes (e_sender e))); (22, Some (FInt (e_type e)))].
Lemma tx_encode_ext c e : tx_encode c (TExt e) = Some (build (ext_entries e)).
Proof. reflexivity. Qed.

Lemma ext_tree_roundtrip e d : ext_nf e -> tx_decode d (build (ext_entries e)) = DOk (TExt e).
Proof.
  intros (Hto & Hg & Hd & Hal & Ho & Hi & Hs & Ht).
  unfold tx_decode. rewrite !has_build, !get_int_build, !get_bytes_build, !get_msg_build.
  unfold ext_entries. lk. cbn [as_int as_bytes as_msg negb]. unfold QuaiTxType, ExternalTxType. cbn [N.eqb Pos.eqb].
  unfold big_of_bytes, big_bytes. rewrite !be_dec_enc. rewrite al_roundtrip by exact Hal.
  rewrite hash_msg_roundtrip by exact (proj1 Ho). rewrite !addr_roundtrip by (first [exact (proj1 Hto)|exact (proj1 Hs)]).
  rewrite N.mod_mod by lia. rewrite N.mod_small by exact Hi. destruct e. reflexivity.
Qed.

(* --- Qi --- *)
Section Qi.
  Variable c d : bytes -> option bytes.

  (* in memory: an uncompressed key that the curve code compresses to 33 bytes and decompresses back *)
  Definition txin_nf (i : txin) : Prop :=
    hash_nf (op_hash (in_prev i)) /\ op_index (in_prev i) < 65536 /\ length (in_pub i) = 65%nat /\
    exists w, c (in_pub i) = Some w /\ length w = 33%nat /\ wf_bytes w /\ d w = Some (in_pub i).
  Definition qi_nf (i : qitx) : Prop :=
    i_ins i <> [] /\ Forall txin_nf (i_ins i) /\ Forall txout_nf (i_outs i) /\ schnorr_ok (i_sig i) = true
    /\ wf_bytes (i_sig i) /\ wf_bytes (i_data i) /\ work_nf (i_work i).
  Definition qi_norm (i : qitx) : qitx :=
    mkQi (i_chain i) (i_ins i) (map txout_norm (i_outs i)) (i_sig i) (i_data i) (i_work i).

  Definition qi_entries (i : qitx) (ins : list msg) : list (N * option fval) :=
    [(1, Some (FInt QiTxType)); (6, Some (FBytes (i_data i))); (7, Some (FBytes (big_bytes (i_chain i))));
     (15, Some (FMsg (map (fun m => (1, FMsg m)) ins)));
     (16, Some (FMsg (map (fun o => (1, FMsg (txout_encode o))) (i_outs i))));
     (17, Some (FBytes (i_sig i)))] ++ work_entries (i_work i).
  Lemma tx_encode_qi i : tx_encode c (TQi i) =
    match all_some (map (txin_encode c) (i_ins i)) with Some ins => Some (build (qi_entries i ins)) | None => None end.
  Proof. reflexivity. Qed.

  Lemma txin_tree_roundtrip i : txin_nf i -> exists m, txin_encode c i = Some m /\ txin_decode d m = DOk i.
  Proof.
    intros (Hh & Hi & Hl & w & Hc & Hw & _ & Hd). unfold txin_encode, pub_to_wire. rewrite Hl. cbn [Nat.eqb]. rewrite Hc.
    eexists. split; [reflexivity|]. unfold txin_decode, get_bytes. cbn [get_field fst snd N.eqb Pos.eqb as_msg as_bytes].
    rewrite outpoint_tree_roundtrip by (first [exact (proj1 Hh)|exact Hi]). unfold pub_of_wire. rewrite Hw. cbn [Nat.eqb].
    rewrite Hd. destruct i. reflexivity.
  Qed.

  Lemma txins_tree_roundtrip ins : Forall txin_nf ins ->
    exists ms, all_some (map (txin_encode c) ins) = Some ms /\ length ms = length ins /\
               all_ok (map (fun v => txin_decode d (as_msg v)) (map FMsg ms)) = DOk ins.
  Proof.
    induction 1 as [|i ins Hi _ (ms & E & L & D)]; [exists []; repeat split|].
    destruct (txin_tree_roundtrip i Hi) as (m & Em & Dm). exists (m :: ms). cbn [map all_some all_ok as_msg length].
    rewrite Em, E, Dm, D, L. repeat split.
  Qed.

  Lemma txouts_tree_roundtrip outs : Forall txout_nf outs ->
    all_ok (map (fun v => txout_decode (as_msg v)) (map FMsg (map txout_encode outs))) = DOk (map txout_norm outs).
  Proof.
    induction 1 as [|o outs Ho _ IH]; [reflexivity|]. cbn [map all_ok as_msg].
    rewrite txout_tree_roundtrip by exact (proj1 Ho). rewrite IH. reflexivity.
  Qed.

  Lemma qi_tree_roundtrip i : qi_nf i ->
    exists ms, all_some (map (txin_encode c) (i_ins i)) = Some ms /\ length ms = length (i_ins i) /\
               tx_decode d (build (qi_entries i ms)) = DOk (TQi (qi_norm i)).
  Proof.
    intros (Hne & Hins & Houts & Hsig & _ & _ & Hpa & Hmi & Hwn).
    destruct (txins_tree_roundtrip _ Hins) as (ms & E & L & D). exists ms. split; [exact E|]. split; [exact L|].
    unfold tx_decode. rewrite !has_build, !get_int_build, !get_bytes_build, !get_msg_build.
    unfold work_decode. rewrite !get_field_build. unfold qi_entries. lk. rewrite !lookup_some_none.
    cbn [as_int as_bytes as_msg negb]. unfold QuaiTxType, ExternalTxType, QiTxType. cbn [N.eqb Pos.eqb].
    rewrite <- (map_map FMsg (fun v => (1, v)) ms), get_all_same, D.
    rewrite <- (map_map (fun o => FMsg (txout_encode o)) (fun v => (1, v))), get_all_same.
    rewrite <- (map_map txout_encode FMsg), txouts_tree_roundtrip by exact Houts.
    rewrite Hsig. cbn [negb]. unfold big_of_bytes, big_bytes. rewrite be_dec_enc.
    rewrite !ohash_roundtrip by assumption.
    assert (Ewn : option_map as_int (option_map FInt (w_nonce (i_work i))) = w_nonce (i_work i)) by (destruct (w_nonce (i_work i)); reflexivity).
    rewrite Ewn. destruct (i_ins i) as [|x xs] eqn:Ei; [contradiction|].
    unfold qi_norm. rewrite Ei. destruct (i_work i). reflexivity.
  Qed.
End Qi.

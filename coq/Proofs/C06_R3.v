(* C06 — lemmas for the third strengthening round:
     (a) head switch: one iteration of the rollback loop of SetCurrentHeader restores the parent's UTXO set, also
         for outputs created and spent inside the rolled-back block; the order of the two loops matters;
     (b) the block batch shared by the TrimBlock goroutines: under the trim lock every Delete is recorded, whatever
         the order in which the goroutines get the lock; without it a Delete can be lost. *)
From Coq Require Import List NArith ZArith Bool Lia Permutation Arith.
From Coq Require Import ZifyBool ZifyNat ZifyN.
From GQ Require Import Model.C06 Proofs.C06_Acc Proofs.C06_Db.
Import ListNotations.
Local Open Scope N_scope.

(* ---------- (a) rollback ---------- *)

Lemma puts_ok : forall l d, db_ok d -> db_ok (puts l d).
Proof.
  induction l as [|[k e] t IH]; intros d Hok; cbn [puts fold_left]; [exact Hok|].
  apply IH, put_ok, Hok.
Qed.
Lemma delks_ok : forall l d, db_ok d -> db_ok (delks l d).
Proof.
  induction l as [|k t IH]; intros d Hok; cbn [delks fold_left]; [exact Hok|].
  apply IH, del_ok, Hok.
Qed.

(* the binding that wins in [puts]: the last one *)
Fixpoint last_bind (l : list (key * elem)) (k : key) (acc : option elem) : option elem :=
  match l with
  | [] => acc
  | (k', e) :: t => last_bind t k (if N.eqb k k' then Some e else acc)
  end.

Lemma get_puts_gen : forall l d k, db_ok d ->
  db_get (puts l d) k = last_bind l k (db_get d k).
Proof.
  induction l as [|[k' e] t IH]; intros d k Hok; cbn [puts fold_left last_bind fst snd]; [reflexivity|].
  change (db_get (puts t (db_put k' e d)) k = last_bind t k (if N.eqb k k' then Some e else db_get d k)).
  rewrite IH by (apply put_ok, Hok). rewrite get_put by exact Hok. reflexivity.
Qed.

Lemma get_delks : forall l d k, db_ok d ->
  db_get (delks l d) k = if memN k l then None else db_get d k.
Proof.
  induction l as [|k' t IH]; intros d k Hok; cbn [delks fold_left]; [reflexivity|].
  change (db_get (delks t (db_del k' d)) k = if memN k (k' :: t) then None else db_get d k).
  rewrite IH by (apply del_ok, Hok). rewrite get_del by exact Hok.
  unfold memN. cbn [existsb]. destruct (N.eqb k k'); cbn [orb]; [destruct (existsb (N.eqb k) t); reflexivity|reflexivity].
Qed.

Lemma last_bind_cases : forall l k acc,
  (~ In k (map fst l) /\ last_bind l k acc = acc) \/ (exists e, In (k, e) l /\ last_bind l k acc = Some e).
Proof.
  induction l as [|[k' e] t IH]; intros k acc; cbn [last_bind map fst In].
  - left. split; [tauto|reflexivity].
  - destruct (IH k (if N.eqb k k' then Some e else acc)) as [[Hn Hl]|[e' [Hi Hl]]].
    + destruct (N.eqb_spec k k') as [->|Hne].
      * right. exists e. split; [left; reflexivity|exact Hl].
      * left. split; [intros [H|H]; [apply Hne; symmetry; exact H|exact (Hn H)]|exact Hl].
    + right. exists e'. split; [right; exact Hi|exact Hl].
Qed.

Lemma last_bind_none : forall l k acc, ~ In k (map fst l) -> last_bind l k acc = acc.
Proof.
  induction l as [|[k' e] t IH]; intros k acc Hn; cbn [last_bind]; [reflexivity|].
  cbn [map fst In] in Hn. rewrite IH by tauto.
  destruct (N.eqb_spec k k') as [->|]; [exfalso; apply Hn; left; reflexivity|reflexivity].
Qed.

Lemma memN_In : forall x l, memN x l = true <-> In x l.
Proof.
  intros x l. unfold memN. rewrite existsb_exists. split.
  - intros [y [Hi He]]. apply N.eqb_eq in He. subst. exact Hi.
  - intros Hi. exists x. split; [exact Hi|apply N.eqb_refl].
Qed.

(* the keys of the outputs a block creates are new: not in the parent's set (transaction hashes are fresh) *)
Definition creates_new (d0 : db) (ops : list op) : Prop :=
  forall k e, In (Create k e) ops -> db_get d0 k = None.

(* invariant of the transaction loop with respect to the undo records, for a key the block does not create:
   every SpentUTXOs record of the key carries the value the key had when the loop started, and a key without a
   record is untouched *)
Lemma undo_records_spec : forall ops d k, db_ok d -> forallb is_ut ops = true ->
  let '(d1, _, _) := run_ops d ops in
  let '(sp, cr) := undo_records d ops in
  db_ok d1 /\
  (forall k' e, In (Create k' e) ops -> In k' cr) /\
  (~ In k cr -> (forall e, In (k, e) sp -> db_get d k = Some e)
                /\ (~ In k (map fst sp) -> db_get d1 k = db_get d k)).
Proof.
  induction ops as [|o t IH]; intros d k Hok Hut; cbn [run_ops undo_records].
  - split; [exact Hok|]. split; [intros ? ? []|]. intros _. split; [intros ? []|reflexivity].
  - cbn [forallb] in Hut. apply andb_true_iff in Hut. destruct Hut as [Ho Hut].
    destruct o as [k0 e0|k0 e0|k0]; [| discriminate Ho |]; cbn [eff].
    + (* Create *)
      specialize (IH (db_put k0 e0 d) k (put_ok d k0 e0 Hok) Hut).
      destruct (run_ops (db_put k0 e0 d) t) as [[d2 c2] x2].
      destruct (undo_records (db_put k0 e0 d) t) as [sp cr].
      destruct IH as [Hok2 [Hcr IH]].
      split; [exact Hok2|]. split.
      * intros k' e [Heq|Hi]; [inversion Heq; left; reflexivity|right; eapply Hcr, Hi].
      * intros Hn. cbn [In] in Hn.
        assert (Hk : k <> k0) by (intros ->; apply Hn; left; reflexivity).
        destruct (IH (fun H => Hn (or_intror H))) as [A B].
        assert (G : db_get (db_put k0 e0 d) k = db_get d k).
        { rewrite get_put by exact Hok. destruct (N.eqb_spec k k0); [contradiction|reflexivity]. }
        split.
        -- intros e Hi. rewrite <- G. apply A, Hi.
        -- intros Hns. rewrite <- G. apply B, Hns.
    + (* Spend *)
      destruct (db_get d k0) as [old|] eqn:G0.
      * specialize (IH (db_del k0 d) k (del_ok d k0 Hok) Hut).
        destruct (run_ops (db_del k0 d) t) as [[d2 c2] x2].
        destruct (undo_records (db_del k0 d) t) as [sp cr].
        destruct IH as [Hok2 [Hcr IH]].
        split; [exact Hok2|]. split.
        -- intros k' e [Heq|Hi]; [discriminate Heq|eapply Hcr, Hi].
        -- intros Hn. destruct (IH Hn) as [A B].
           assert (G : forall kk, kk <> k0 -> db_get (db_del k0 d) kk = db_get d kk).
           { intros kk Hkk. rewrite get_del by exact Hok. destruct (N.eqb_spec kk k0); [contradiction|reflexivity]. }
           assert (G1 : db_get (db_del k0 d) k0 = None).
           { rewrite get_del by exact Hok. rewrite N.eqb_refl. reflexivity. }
           split.
           ++ intros e [Heq|Hi].
              ** inversion Heq; subst. exact G0.
              ** destruct (N.eq_dec k k0) as [->|Hk].
                 --- apply A in Hi. rewrite G1 in Hi. discriminate Hi.
                 --- rewrite <- (G k Hk). apply A, Hi.
           ++ intros Hns. cbn [map fst In] in Hns.
              assert (Hk : k <> k0) by (intros ->; apply Hns; left; reflexivity).
              rewrite <- (G k Hk). apply B. intros H; apply Hns; right; exact H.
      * specialize (IH d k Hok Hut).
        destruct (run_ops d t) as [[d2 c2] x2].
        destruct (undo_records d t) as [sp cr].
        destruct IH as [Hok2 [Hcr IH]].
        split; [exact Hok2|]. split.
        -- intros k' e [Heq|Hi]; [discriminate Heq|eapply Hcr, Hi].
        -- exact IH.
Qed.

Lemma created_keys_only : forall ops d k, In k (snd (undo_records d ops)) -> exists e, In (Create k e) ops.
Proof.
  induction ops as [|o t IH]; intros d k Hi; cbn [undo_records] in Hi; [destruct Hi|].
  destruct (eff d o) as [[d1 c1] x1] eqn:E.
  specialize (IH d1 k).
  destruct (undo_records d1 t) as [sp cr] eqn:U. cbn [snd] in IH.
  destruct o as [k0 e0|k0 e0|k0].
  - cbn [snd] in Hi. destruct Hi as [<-|Hi]; [exists e0; left; reflexivity|].
    destruct (IH Hi) as [e He]. exists e. right. exact He.
  - cbn [snd] in Hi. destruct (IH Hi) as [e He]. exists e. right. exact He.
  - destruct (db_get d k0) as [old|]; cbn [snd] in Hi; destruct (IH Hi) as [e He]; exists e; right; exact He.
Qed.

Lemma dels_delks : forall tr d, dels tr d = delks (map fst tr) d.
Proof.
  induction tr as [|kv t IH]; intros d; cbn [dels delks fold_left map]; [reflexivity|].
  apply (IH (db_del (fst kv) d)).
Qed.

(* SetCurrentHeader's rollback iteration, order as in the source: the parent's set is restored exactly.
   [tr] = the block's TrimmedUTXOs record: entries of the parent's set (what TrimBlock read from the database). *)
Lemma rollback_restores : forall d ops tr, db_ok d -> forallb is_ut ops = true -> creates_new d ops ->
  (forall kv, In kv tr -> db_get d (fst kv) = Some (snd kv)) ->
  let '(d1, _, _) := run_ops d ops in
  let '(sp, cr) := undo_records d ops in
  undo RestoreThenDelete (sp ++ tr) cr (dels tr d1) = d.
Proof.
  intros d ops tr Hok Hut Hnew Htr.
  pose proof (fun k => undo_records_spec ops d k Hok Hut) as S.
  pose proof (created_keys_only ops d) as C.
  destruct (run_ops d ops) as [[d1 c1] x1].
  destruct (undo_records d ops) as [sp cr]. cbn [snd] in C.
  assert (Hok1 : db_ok d1) by (destruct (S 0) as [H _]; exact H).
  cbn [undo].
  apply db_ext; [apply delks_ok, puts_ok, dels_ok, Hok1|exact Hok|].
  intros k. rewrite get_delks by (apply puts_ok, dels_ok, Hok1).
  destruct (memN k cr) eqn:M.
  - apply memN_In in M. destruct (C k M) as [e He]. symmetry. eapply Hnew, He.
  - assert (Hn : ~ In k cr) by (intros H; apply memN_In in H; congruence).
    destruct (S k) as [_ [_ Sk]]. destruct (Sk Hn) as [A B].
    rewrite get_puts_gen by (apply dels_ok, Hok1).
    destruct (last_bind_cases (sp ++ tr) k (db_get (dels tr d1) k)) as [[Hnk Hl]|[e [Hi Hl]]]; rewrite Hl.
    + rewrite map_app in Hnk.
      assert (Hs : ~ In k (map fst sp)) by (intros H; apply Hnk, in_or_app; left; exact H).
      assert (Ht : ~ In k (map fst tr)) by (intros H; apply Hnk, in_or_app; right; exact H).
      rewrite dels_delks, get_delks by exact Hok1.
      destruct (memN k (map fst tr)) eqn:Mt; [apply memN_In in Mt; contradiction|].
      apply B, Hs.
    + apply in_app_or in Hi. destruct Hi as [Hi|Hi].
      * symmetry. apply A, Hi.
      * symmetry. apply (Htr (k, e) Hi).
Qed.

(* without a key in both records the order of the two loops is irrelevant: the swapped order is only wrong for
   outputs created and spent (or trimmed) inside the rolled-back block *)
Lemma undo_orders_agree : forall sp cr d, db_ok d ->
  (forall k, In k cr -> ~ In k (map fst sp)) ->
  undo DeleteThenRestore sp cr d = undo RestoreThenDelete sp cr d.
Proof.
  intros sp cr d Hok Hdis. cbn [undo].
  apply db_ext; [apply puts_ok, delks_ok, Hok|apply delks_ok, puts_ok, Hok|].
  intros k. rewrite get_puts_gen by (apply delks_ok, Hok).
  rewrite !get_delks by (try apply puts_ok; exact Hok).
  rewrite get_puts_gen by exact Hok.
  destruct (memN k cr) eqn:M; [|reflexivity].
  apply memN_In in M. apply last_bind_none, Hdis, M.
Qed.

Lemma rollback_block_restores : forall s ops cands d',
  db_ok (s_db s) -> forallb is_ut ops = true -> creates_new (s_db s) ops ->
  rollback_block RestoreThenDelete ParentDb s ops cands = Some d' -> d' = s_db s.
Proof.
  intros s ops cands d' Hok Hut Hnew H.
  unfold rollback_block, finalize in H.
  pose proof (rollback_restores (s_db s) ops (flat_map (trim_one (s_db s)) cands) Hok Hut Hnew
                (trimmed_in_view (s_db s) cands)) as R.
  destruct (run_ops (s_db s) ops) as [[d1 cr] de].
  destruct (N.ltb (s_size s + N.of_nat (length cr)) (N.of_nat (length de))); [discriminate H|].
  destruct (undo_records (s_db s) ops) as [sp crk].
  cbn [s_db] in H. unfold dels in R. inversion H. exact R.
Qed.

(* ---------- (b) the shared block batch ---------- *)

Lemma set_nth_end : forall l k, set_nth (length l) k l = l ++ [k].
Proof.
  intros l k. unfold set_nth. rewrite firstn_all. rewrite skipn_all2 by lia. reflexivity.
Qed.

Lemma locked_written : forall ks log regs,
  written (run_sched (mkBuf log (length log)) regs (locked_sched ks)) = log ++ map snd ks.
Proof.
  induction ks as [|[g k] t IH]; intros log regs.
  - cbn [locked_sched flat_map run_sched map]. unfold written. cbn [rb_n rb_log].
    rewrite firstn_all, app_nil_r. reflexivity.
  - change (locked_sched ((g, k) :: t)) with (ERead g :: EWrite g k :: locked_sched t).
    cbn [run_sched rb_n rb_log reg]. rewrite N.eqb_refl. rewrite set_nth_end.
    replace (S (length log)) with (length (log ++ [k])) by (rewrite app_length; cbn [length]; lia).
    rewrite IH. rewrite <- app_assoc. reflexivity.
Qed.

Lemma delks_perm : forall l l', Permutation l l' -> forall d, db_ok d -> delks l d = delks l' d.
Proof.
  intros l l' P; induction P; intros d Hok; cbn [delks fold_left].
  - reflexivity.
  - apply IHP, del_ok, Hok.
  - rewrite del_comm by exact Hok. reflexivity.
  - rewrite IHP1 by exact Hok. apply IHP2, Hok.
Qed.

(* TrimBlock as it is (every batch.Delete under the trim lock): whatever goroutine issues which delete and in
   whatever order the goroutines get the lock, the batch hands exactly the trimmed keys to the database *)
Lemma locked_trim_deletes : forall d tr ks, db_ok d -> Permutation (map snd ks) (map fst tr) ->
  delks (written (run_sched empty_buf [] (locked_sched ks))) d = dels tr d.
Proof.
  intros d tr ks Hok P. unfold empty_buf.
  change (mkBuf [] 0) with (mkBuf [] (length (@nil key))).
  rewrite (locked_written ks [] []). cbn [app]. rewrite dels_delks. apply delks_perm; assumption.
Qed.

Lemma locked_sched_wf : forall ks, sched_wf [] (locked_sched ks) = true.
Proof.
  induction ks as [|[g k] t IH]; [reflexivity|].
  change (locked_sched ((g, k) :: t)) with (ERead g :: EWrite g k :: locked_sched t).
  cbn [sched_wf memN existsb negb andb filter]. rewrite N.eqb_refl. cbn [orb negb andb]. exact IH.
Qed.

(* two goroutines inside batch.Delete at once: both read the same length, the second record overwrites the first *)
Definition racy_sched : list ev := [ERead 0; ERead 1; EWrite 0 1; EWrite 1 2].

Lemma unlocked_loses_delete :
  exists s ops cands sched s' trk,
    commit_ok s = true /\ finalize ParentDb s ops cands = Some (s', trk) /\ commit_ok s' = true /\
    sched_wf [] sched = true /\ ewrites sched = trk /\
    let d1 := fst (fst (run_ops (s_db s) ops)) in
    commit_ok (mkSt (delks (written (run_sched empty_buf [] sched)) d1) (s_acc s') (s_size s')) = false.
Proof.
  exists (mkSt [(1, 10); (2, 20)] (of_content [10; 20]) 2), [], [[(1, true)]; [(2, true)]], racy_sched.
  eexists. eexists. repeat split; vm_compute; reflexivity.
Qed.

(* C18 -- Merkle proofs (trie/proof.go Prove / VerifyProof) over an arbitrary hash function H and an
   arbitrary embedding policy [small]: a verified proof yields exactly the stored value or absence,
   unless two different collapsed nodes with the same hash exist (a collision of H);
   the proof produced by Prove verifies. *)
From Coq Require Import List NArith Bool Arith Lia ZifyBool ZifyNat ZifyN.
From GQ Require Import Lib.Key Model.C18 Proofs.C18_Base Proofs.C18_Ext Proofs.C18_Insert.
Import ListNotations.

(* ---------- decidable equality of collapsed nodes ---------- *)
Section PNodeInd.
  Variable P : pnode -> Prop.
  Hypothesis hNil : P PNil.
  Hypothesis hVal : forall v, P (PVal v).
  Hypothesis hShort : forall k n, P n -> P (PShort k n).
  Hypothesis hFull : forall cs, Forall P cs -> P (PFull cs).
  Hypothesis hHash : forall h, P (PHash h).
  Fixpoint pnode_ind' (n : pnode) : P n :=
    match n with
    | PNil => hNil
    | PVal v => hVal v
    | PShort k c => hShort k c (pnode_ind' c)
    | PFull cs =>
        hFull cs ((fix go (l : list pnode) : Forall P l :=
                     match l with
                     | [] => Forall_nil P
                     | x :: r => Forall_cons x (pnode_ind' x) (go r)
                     end) cs)
    | PHash h => hHash h
    end.
End PNodeInd.

Lemma list_N_eq_dec (a b : list N) : {a = b} + {a <> b}.
Proof. apply list_eq_dec. apply N.eq_dec. Qed.

Lemma pnode_eq_dec_prop (a : pnode) : forall b, a = b \/ a <> b.
Proof.
  induction a as [|v|k c IH|cs IH|h] using pnode_ind'; intros b; destruct b as [|w|k' c'|cs'|h'];
    try (right; discriminate).
  - left; reflexivity.
  - destruct (list_N_eq_dec v w) as [->|Hn]; [left; reflexivity|right; congruence].
  - destruct (list_N_eq_dec k k') as [->|Hn]; [|right; congruence].
    destruct (IH c') as [->|Hn]; [left; reflexivity|right; congruence].
  - assert (Hl : cs = cs' \/ cs <> cs').
    { revert cs'. induction IH as [|x r Hx Hr IHr]; intros [|y r'].
      - left; reflexivity.
      - right; discriminate.
      - right; discriminate.
      - destruct (Hx y) as [->|Hn]; [|right; congruence].
        destruct (IHr r') as [->|Hn]; [left; reflexivity|right; congruence]. }
    destruct Hl as [->|Hn]; [left; reflexivity|right; congruence].
  - destruct (N.eq_dec h h') as [->|Hn]; [left; reflexivity|right; congruence].
Qed.

Lemma find_In {A} (f : A -> bool) l x : In x l -> f x = true -> exists y, find f l = Some y.
Proof.
  induction l as [|a l IH]; intros Hin Hf; [destruct Hin|]. cbn.
  destruct (f a) eqn:E; [eauto|]. destruct Hin as [->|Hin]; [congruence|auto].
Qed.

Section Merkle.
  Variable H : pnode -> N.
  Variable small : pnode -> bool.

  Definition collision : Prop := exists a b : pnode, a <> b /\ H a = H b.

  Notation collapse := (collapse H small).
  Notation refer := (refer H small).
  Notation prove := (prove H small).
  Notation verify := (verify H).
  Notation root_hash := (root_hash H small).

  (* the database answers with the node that was hashed, or H collides *)
  Lemma db_get_hit db p : In p db ->
    (exists q, db_get H db (H p) = Some q /\ (q = p \/ collision)).
  Proof.
    intros Hin. destruct (find_In (fun q => N.eqb (H q) (H p)) db p Hin (N.eqb_refl _)) as (q & Hq).
    exists q. split; [exact Hq|]. apply find_some in Hq as [_ Hh]. apply N.eqb_eq in Hh.
    destruct (pnode_eq_dec_prop q p) as [->|Hn]; [left; reflexivity|].
    right. exists q, p. auto.
  Qed.

  Lemma db_get_some db h q : db_get H db h = Some q -> H q = h.
  Proof. intros Hq. apply find_some in Hq as [_ Hh]. apply N.eqb_eq in Hh. exact Hh. Qed.

  Lemma refer_cases p : refer p = p \/ refer p = PHash (H p).
  Proof. destruct p; cbn; auto; destruct (small _); auto. Qed.

  Lemma collapse_short k c : collapse (Short k c) = PShort k (refer (collapse c)).
  Proof. reflexivity. Qed.

  Lemma collapse_full cs : collapse (Full cs) = PFull (map (fun x => refer (collapse x)) cs).
  Proof. reflexivity. Qed.

  Lemma walk_full cs c rest :
    walk (PFull cs) (c :: rest) =
    match nth_error cs (N.to_nat c) with Some x => walk x rest | None => WPanic end.
  Proof. cbn [walk]. apply pchild_app_spec. Qed.

  (* ================= soundness ================= *)
  (* what one step of VerifyProof inside a genuine stored node tells about the trie *)
  Definition good (w : walk_res) (n : node) (key : hkey) : Prop :=
    match w with
    | WAbsent => lookup n key = None
    | WValue v => lookup n key = Some v
    | WHash h rest => exists c, h = H (collapse c) /\ lookup n key = lookup c rest /\ pf c rest
    | WPanic => True
    end.

  Lemma good_refer n key : pf n key ->
    good (walk (collapse n) key) n key -> good (walk (refer (collapse n)) key) n key.
  Proof.
    intros Hp Hg. destruct (refer_cases (collapse n)) as [->| ->]; auto.
    cbn [walk good]. exists n. auto.
  Qed.

  Lemma good_transfer w c r n key : lookup n key = lookup c r -> good w c r -> good w n key.
  Proof.
    intros He. destruct w as [|v|h rest|]; cbn [good].
    - congruence.
    - congruence.
    - intros (c0 & H1 & H2 & H3). exists c0. split; [exact H1|]. split; [congruence|exact H3].
    - auto.
  Qed.

  Lemma walk_good n : forall key, pf n key -> good (walk (collapse n) key) n key.
  Proof.
    induction n as [|v|k c IH|cs IH] using node_ind'; intros key Hp.
    - reflexivity.
    - cbn [C18.collapse walk good]. destruct key as [|s r]; [reflexivity|].
      exfalso. destruct (Hp []) as [Hn _]; [cbn; congruence|]. apply Hn. apply sprefix_nil. discriminate.
    - rewrite collapse_short. cbn [walk].
      destruct (strip k key) as [r|] eqn:Hs; [|cbn [good]; rewrite lookup_short, Hs; reflexivity].
      apply strip_some in Hs. subst key.
      apply (good_transfer _ c r); [apply lookup_short_app|].
      apply good_refer; [exact (pf_short _ _ _ Hp)|]. apply IH. exact (pf_short _ _ _ Hp).
    - rewrite collapse_full. destruct key as [|s r]; [exact I|].
      rewrite walk_full, nth_error_map.
      destruct (nth_error cs (N.to_nat s)) as [x|] eqn:Hx; [|exact I]. cbn [option_map].
      rewrite Forall_forall in IH. pose proof (pf_full _ _ _ _ Hx Hp) as Hpx.
      apply (good_transfer _ x r); [rewrite lookup_full, Hx; reflexivity|].
      apply good_refer; auto. apply (IH x (nth_error_In _ _ Hx)). exact Hpx.
  Qed.

  Lemma verify_sound_aux fuel : forall n key db r, pf n key ->
    verify fuel (H (collapse n)) key db = Some r -> r = lookup n key \/ collision.
  Proof.
    induction fuel as [|f IH]; intros n key db r Hp Hv; [discriminate|].
    cbn [C18.verify] in Hv. destruct (db_get H db (H (collapse n))) as [p|] eqn:Hg; [|discriminate].
    pose proof (db_get_some _ _ _ Hg) as Hh.
    destruct (pnode_eq_dec_prop p (collapse n)) as [->|Hn]; [|right; exists p, (collapse n); auto].
    pose proof (walk_good n key Hp) as Hw.
    destruct (walk (collapse n) key) as [|v|h rest|]; cbn [good] in Hw.
    - injection Hv as <-. left. congruence.
    - injection Hv as <-. left. congruence.
    - destruct Hw as (c & -> & Hl & Hpc). rewrite Hl. apply (IH c rest db r Hpc Hv).
    - discriminate.
  Qed.

  (* ================= completeness ================= *)
  Lemma prove_nil_key n top : prove n [] top = [].
  Proof. destruct n; reflexivity. Qed.

  Definition emit (n : node) (top : bool) : list pnode :=
    if top then [collapse n]
    else match refer (collapse n) with PHash _ => [collapse n] | _ => [] end.

  Lemma prove_short k child s r top :
    prove (Short k child) (s :: r) top =
    match strip k (s :: r) with
    | Some rest => emit (Short k child) top ++ prove child rest false
    | None => emit (Short k child) top
    end.
  Proof. reflexivity. Qed.

  Lemma prove_full cs s r top :
    prove (Full cs) (s :: r) top =
    emit (Full cs) top ++
    match nth_error cs (N.to_nat s) with Some x => prove x r false | None => [] end.
  Proof.
    cbn [C18.prove]. unfold emit. f_equal. rewrite child_app_spec. reflexivity.
  Qed.

  Lemma emit_incl n : incl (emit n false) (emit n true).
  Proof.
    unfold emit. destruct (refer (collapse n)); intros x Hx; auto; destruct Hx.
  Qed.

  Lemma prove_false_incl_true n key : incl (prove n key false) (prove n key true).
  Proof.
    destruct key as [|s r]; [rewrite !prove_nil_key; apply incl_refl|].
    destruct n as [|v|k c|cs]; try apply incl_refl.
    - rewrite !prove_short. destruct (strip k (s :: r)).
      + apply incl_app; [apply incl_appl, emit_incl | apply incl_appr, incl_refl].
      + apply emit_incl.
    - rewrite !prove_full. apply incl_app; [apply incl_appl, emit_incl | apply incl_appr, incl_refl].
  Qed.

  (* what the verifier sees when it follows the honest proof *)
  Definition cgood (w : walk_res) (n : node) (key : hkey) (db : list pnode) (strict : bool) : Prop :=
    match w with
    | WAbsent => lookup n key = None
    | WValue v => lookup n key = Some v
    | WHash h rest =>
        (if strict then length rest < length key else length rest <= length key) /\
        forall fuel, length rest < fuel -> verify fuel h rest db = Some (lookup n key) \/ collision
    | WPanic => False
    end.

  Lemma cgood_transfer w c r n key db b :
    lookup n key = lookup c r -> length r < length key -> cgood w c r db false -> cgood w n key db b.
  Proof.
    intros He Hl. destruct w as [|v|h rest|]; cbn [cgood].
    - congruence.
    - congruence.
    - intros [Hle Hf]. split; [destruct b; lia|]. rewrite He. exact Hf.
    - auto.
  Qed.

  Definition is_branching (n : node) : bool :=
    match n with Short _ _ | Full _ => true | _ => false end.

  (* a canonical short/full node never sits at the end of a stored-key-compatible key *)
  Lemma pf_nil_key_not_branching n : wfn n = true -> pf n [] -> is_branching n = false.
  Proof.
    intros Hw Hp. destruct (wfn_nonempty _ Hw) as (q & v & Hq).
    assert (q = []).
    { destruct q as [|a q]; auto. exfalso. destruct (Hp (a :: q)) as [_ Hn]; [congruence|].
      apply Hn. apply sprefix_nil. discriminate. }
    subst q. destruct n as [|v0|k c|cs]; auto.
    - apply wfn_short in Hw as (Hk & _). rewrite lookup_short, strip_nil_inv in Hq.
      destruct k; [congruence|discriminate].
    - discriminate.
  Qed.

  Lemma complete_walk n : forall key db,
    wfo n -> pf n key -> tk key -> incl (prove n key false) db ->
    cgood (walk (collapse n) key) n key db true /\
    cgood (walk (refer (collapse n)) key) n key db false.
  Proof.
    induction n as [|v|k c IH|cs IH] using node_ind'; intros key db Hw Hp Hk Hin.
    - split; reflexivity.
    - assert (key = []).
      { destruct key as [|s r]; auto. exfalso.
        destruct (Hp []) as [Hn _]; [cbn; congruence|]. apply Hn. apply sprefix_nil. discriminate. }
      subst key. split; reflexivity.
    - (* Short *)
      destruct Hw as [|Hw]; [discriminate|]. pose proof Hw as Hw'.
      apply wfn_short in Hw as (Hkne & Hs & Hc).
      destruct key as [|s r].
      { pose proof (pf_nil_key_not_branching _ Hw' Hp). discriminate. }
      assert (Hstrict : cgood (walk (collapse (Short k c)) (s :: r)) (Short k c) (s :: r) db true).
      { rewrite collapse_short. cbn [walk]. rewrite prove_short in Hin.
        destruct (strip k (s :: r)) as [rest|] eqn:Hst;
          [|cbn [cgood]; rewrite lookup_short, Hst; reflexivity].
        pose proof (strip_some _ _ _ Hst) as Ekey.
        assert (Hlen : length rest < length (s :: r)).
        { rewrite Ekey, app_length. destruct k; [congruence|cbn; lia]. }
        assert (Hl : lookup (Short k c) (s :: r) = lookup c rest) by (rewrite lookup_short, Hst; reflexivity).
        rewrite Ekey in Hp, Hk.
        destruct (IH rest db (or_intror Hc) (pf_short _ _ _ Hp) (tk_suffix _ _ Hk)) as [_ IHr].
        { intros x Hx. apply Hin. apply in_or_app. right. exact Hx. }
        exact (cgood_transfer _ c rest _ _ db true Hl Hlen IHr). }
      split; [exact Hstrict|].
      destruct (refer_cases (collapse (Short k c))) as [E|E]; rewrite E.
      + destruct (walk (collapse (Short k c)) (s :: r)); cbn [cgood] in *; auto.
        destruct Hstrict as [Hl Hf]. split; [lia|exact Hf].
      + (* referenced by hash: the verifier fetches the node from the proof *)
        cbn [walk cgood]. split; [lia|]. intros fuel Hfuel.
        destruct fuel as [|f]; [lia|]. cbn [C18.verify].
        assert (Hmem : In (collapse (Short k c)) db).
        { apply Hin. rewrite prove_short. unfold emit. rewrite E.
          destruct (strip k (s :: r)); [apply in_or_app; left|]; left; reflexivity. }
        destruct (db_get_hit db _ Hmem) as (q & Hq & [->|Hcol]); [|right; exact Hcol].
        rewrite Hq.
        destruct (walk (collapse (Short k c)) (s :: r)) as [|v0|h rest'|]; cbn [cgood] in Hstrict.
        * left. congruence.
        * left. congruence.
        * destruct Hstrict as [Hl Hf]. apply Hf. lia.
        * destruct Hstrict.
    - (* Full *)
      destruct Hw as [|Hw]; [discriminate|]. pose proof Hw as Hw'.
      apply wfn_full in Hw as (Hl17 & Hcnt & Hf).
      destruct key as [|s r].
      { pose proof (pf_nil_key_not_branching _ Hw' Hp). discriminate. }
      pose proof (tk_head _ _ Hk) as Hs16.
      destruct (nth_error cs (N.to_nat s)) as [x|] eqn:Hx; [|apply nth_error_None in Hx; lia].
      rewrite Forall_forall in IH.
      assert (Hstrict : cgood (walk (collapse (Full cs)) (s :: r)) (Full cs) (s :: r) db true).
      { rewrite collapse_full, walk_full, nth_error_map, Hx. cbn [option_map].
        rewrite prove_full, Hx in Hin.
        assert (Hl : lookup (Full cs) (s :: r) = lookup x r) by (rewrite lookup_full, Hx; reflexivity).
        destruct (IH x (nth_error_In _ _ Hx) r db (Hf _ _ Hx) (pf_full _ _ _ _ Hx Hp) (tk_suffix [s] _ Hk)) as [_ IHr].
        { intros y Hy. apply Hin. apply in_or_app. right. exact Hy. }
        apply (cgood_transfer _ x r _ _ db true Hl); [cbn; lia|exact IHr]. }
      split; [exact Hstrict|].
      destruct (refer_cases (collapse (Full cs))) as [E|E]; rewrite E.
      + destruct (walk (collapse (Full cs)) (s :: r)); cbn [cgood] in *; auto.
        destruct Hstrict as [Hl Hff]. split; [lia|exact Hff].
      + cbn [walk cgood]. split; [lia|]. intros fuel Hfuel.
        destruct fuel as [|f]; [lia|]. cbn [C18.verify].
        assert (Hmem : In (collapse (Full cs)) db).
        { apply Hin. rewrite prove_full. unfold emit. rewrite E. apply in_or_app; left; left; reflexivity. }
        destruct (db_get_hit db _ Hmem) as (q & Hq & [->|Hcol]); [|right; exact Hcol].
        rewrite Hq.
        destruct (walk (collapse (Full cs)) (s :: r)) as [|v0|h rest'|]; cbn [cgood] in Hstrict.
        * left. congruence.
        * left. congruence.
        * destruct Hstrict as [Hl Hff]. apply Hff. lia.
        * destruct Hstrict.
  Qed.

  Lemma verify_complete_aux t key fuel :
    wfn t = true -> pf t key -> tk key -> key <> [] -> length key < fuel ->
    verify fuel (root_hash t) key (prove t key true) = Some (lookup t key) \/ collision.
  Proof.
    intros Hw Hp Hk Hne Hfuel. unfold C18.root_hash.
    destruct key as [|s r]; [congruence|].
    assert (Hb : is_branching t = true).
    { destruct t as [|v|k c|cs]; try reflexivity.
      - discriminate.
      - exfalso. destruct (Hp []) as [Hn _]; [cbn; congruence|]. apply Hn. apply sprefix_nil. discriminate. }
    assert (Hmem : In (collapse t) (prove t (s :: r) true)).
    { destruct t as [|v|k c|cs]; try discriminate.
      - rewrite prove_short. unfold emit. destruct (strip k (s :: r)); [apply in_or_app; left|]; left; reflexivity.
      - rewrite prove_full. unfold emit. apply in_or_app; left; left; reflexivity. }
    destruct (complete_walk t (s :: r) (prove t (s :: r) true) (or_intror Hw) Hp Hk
                (prove_false_incl_true t (s :: r))) as [Hstrict _].
    destruct fuel as [|f]; [lia|]. cbn [C18.verify].
    destruct (db_get_hit _ _ Hmem) as (q & Hq & [->|Hcol]); [|right; exact Hcol].
    rewrite Hq.
    destruct (walk (collapse t) (s :: r)) as [|v0|h rest'|]; cbn [cgood] in Hstrict.
    - left. congruence.
    - left. congruence.
    - destruct Hstrict as [Hl Hf]. apply Hf. lia.
    - destruct Hstrict.
  Qed.
End Merkle.

(* C09 — lemmas about the fixed-point binary logarithm (mathutil.BinaryLog as used by common.LogBig /
   IntrinsicLogEntropy): bounds, monotonicity, exactness at powers of two, positivity of the
   entropy of an accepted seal. *)
From Coq Require Import List ZArith Bool Lia.
From GQ Require Import Generated.C09Params Model.C09.
Import ListNotations.
Local Open Scope Z_scope.

(** ** shifts are divisions / multiplications by powers of two *)
Lemma shr_div a n : 0 <= n -> Z.shiftr a n = a / 2 ^ n.
Proof. intros Hn. apply Z.shiftr_div_pow2; exact Hn. Qed.
Lemma shl_one n : Z.shiftl 1 n = 2 ^ n.
Proof. apply Z.shiftl_1_l. Qed.
Lemma shl_mul a n : 0 <= n -> Z.shiftl a n = a * 2 ^ n.
Proof. intros Hn. apply Z.shiftl_mul_pow2; exact Hn. Qed.

Lemma pow2_pos k : 0 < 2 ^ k \/ k < 0.
Proof. destruct (Z_lt_le_dec k 0) as [Hk|Hk]; [right; exact Hk|left; apply Z.pow_pos_nonneg; lia]. Qed.
Lemma pow2_gt0 k : 0 <= k -> 0 < 2 ^ k.
Proof. intros Hk. apply Z.pow_pos_nonneg; lia. Qed.

(** ** the step in arithmetic form *)
Definition step_y (mb x : Z) : Z := (x * x + 2 ^ (mb - 1)) / 2 ^ mb.

Lemma blog_step_spec mb x : 1 <= mb ->
  blog_step mb x = if 2 ^ (mb + 1) <=? step_y mb x then (true, (step_y mb x + 1) / 2) else (false, step_y mb x).
Proof.
  intros Hmb. unfold blog_step, step_y.
  rewrite !shl_one. rewrite (shr_div _ mb) by lia.
  rewrite (shr_div _ 1) by lia. change (2 ^ 1) with 2. reflexivity.
Qed.

Lemma step_y_nonneg mb x : 1 <= mb -> 0 <= step_y mb x.
Proof.
  intros Hmb. unfold step_y. apply Z.div_pos; [|apply pow2_gt0; lia].
  assert (0 <= x * x) by apply Z.square_nonneg.
  assert (0 < 2 ^ (mb - 1)) by (apply pow2_gt0; lia). lia.
Qed.

Lemma step_y_mono mb x x' : 1 <= mb -> 0 <= x <= x' -> step_y mb x <= step_y mb x'.
Proof.
  intros Hmb Hx. unfold step_y. apply Z.div_le_mono; [apply pow2_gt0; lia|].
  assert (x * x <= x' * x') by (apply Z.mul_le_mono_nonneg; lia). lia.
Qed.

Lemma blog_step_nonneg mb x : 1 <= mb -> 0 <= snd (blog_step mb x).
Proof.
  intros Hmb. rewrite blog_step_spec by exact Hmb.
  pose proof (step_y_nonneg mb x Hmb) as Hy.
  destruct (2 ^ (mb + 1) <=? step_y mb x); cbn [snd]; [apply Z.div_pos; lia|exact Hy].
Qed.

(* the decisive fact: a larger argument yields a lexicographically larger (bit, next state) *)
Lemma blog_step_mono mb x x' : 1 <= mb -> 0 <= x <= x' ->
  (fst (blog_step mb x) = false /\ fst (blog_step mb x') = true) \/
  (fst (blog_step mb x) = fst (blog_step mb x') /\ snd (blog_step mb x) <= snd (blog_step mb x')).
Proof.
  intros Hmb Hx. rewrite !blog_step_spec by exact Hmb.
  pose proof (step_y_mono mb x x' Hmb Hx) as Hy.
  destruct (2 ^ (mb + 1) <=? step_y mb x) eqn:E1; destruct (2 ^ (mb + 1) <=? step_y mb x') eqn:E2; cbn [fst snd].
  - right. split; [reflexivity|]. apply Z.div_le_mono; lia.
  - apply Z.leb_le in E1. apply Z.leb_gt in E2. lia.
  - left. split; reflexivity.
  - right. split; [reflexivity|exact Hy].
Qed.

(** ** the mantissa loop *)
Lemma blog_mant_S mb k x m :
  blog_mant mb (S k) x m = blog_mant mb k (snd (blog_step mb x)) (2 * m + Z.b2z (fst (blog_step mb x))).
Proof. cbn [blog_mant]. destruct (blog_step mb x) as [b x']. reflexivity. Qed.

Lemma blog_mant_bounds mb k : forall x m, 0 <= m ->
  m * 2 ^ Z.of_nat k <= blog_mant mb k x m < (m + 1) * 2 ^ Z.of_nat k.
Proof.
  induction k as [|k IH]; intros x m Hm.
  - cbn [blog_mant]. change (2 ^ Z.of_nat 0) with 1. lia.
  - rewrite blog_mant_S. rewrite Nat2Z.inj_succ, Z.pow_succ_r by lia.
    set (b := Z.b2z (fst (blog_step mb x))).
    assert (Hb : 0 <= b <= 1) by (subst b; destruct (fst (blog_step mb x)); cbn; lia).
    specialize (IH (snd (blog_step mb x)) (2 * m + b)).
    assert (Hp : 0 < 2 ^ Z.of_nat k) by (apply pow2_gt0; lia).
    destruct IH as [IH1 IH2]; [lia|]. split; nia.
Qed.

Lemma blog_mant_mono mb k : 1 <= mb -> forall x x' m m', 0 <= x <= x' -> 0 <= m <= m' ->
  blog_mant mb k x m <= blog_mant mb k x' m'.
Proof.
  intros Hmb. induction k as [|k IH]; intros x x' m m' Hx Hm.
  - cbn [blog_mant]. lia.
  - rewrite !blog_mant_S.
    pose proof (blog_step_nonneg mb x Hmb) as Hn.
    destruct (blog_step_mono mb x x' Hmb Hx) as [[E1 E2]|[E1 E2]].
    + rewrite E1, E2. cbn [Z.b2z].
      pose proof (blog_mant_bounds mb k (snd (blog_step mb x)) (2 * m + 0)) as B1.
      pose proof (blog_mant_bounds mb k (snd (blog_step mb x')) (2 * m' + 1)) as B2.
      assert (Hp : 0 < 2 ^ Z.of_nat k) by (apply pow2_gt0; lia).
      destruct B1 as [_ B1]; [lia|]. destruct B2 as [B2 _]; [lia|]. nia.
    + rewrite E1. apply IH; [lia|].
      destruct (fst (blog_step mb x')); cbn [Z.b2z]; lia.
Qed.

(** ** the initial normalisation *)
Lemma blog_init_spec mb n : 1 <= mb -> 0 < n ->
  blog_init mb n = if Z.log2 n <=? mb then n * 2 ^ (mb - Z.log2 n)
                   else (n + 2 ^ (Z.log2 n - mb - 1)) / 2 ^ (Z.log2 n - mb).
Proof.
  intros Hmb Hn. unfold blog_init. cbv zeta.
  destruct (Z.log2 n <=? mb) eqn:E.
  - apply Z.leb_le in E. rewrite shl_mul by lia. reflexivity.
  - apply Z.leb_gt in E. rewrite shl_one. rewrite shr_div by lia. reflexivity.
Qed.

Lemma blog_init_nonneg mb n : 1 <= mb -> 0 < n -> 0 <= blog_init mb n.
Proof.
  intros Hmb Hn. rewrite blog_init_spec by assumption.
  destruct (Z.log2 n <=? mb) eqn:E.
  - apply Z.leb_le in E. assert (0 < 2 ^ (mb - Z.log2 n)) by (apply pow2_gt0; lia). nia.
  - apply Z.leb_gt in E. apply Z.div_pos; [|apply pow2_gt0; lia].
    assert (0 < 2 ^ (Z.log2 n - mb - 1)) by (apply pow2_gt0; lia). lia.
Qed.

Lemma blog_init_mono mb n n' : 1 <= mb -> 0 < n <= n' -> Z.log2 n = Z.log2 n' ->
  blog_init mb n <= blog_init mb n'.
Proof.
  intros Hmb Hn Hl. rewrite !blog_init_spec by lia. rewrite <- Hl.
  destruct (Z.log2 n <=? mb) eqn:E.
  - apply Z.leb_le in E. assert (0 < 2 ^ (mb - Z.log2 n)) by (apply pow2_gt0; lia). nia.
  - apply Z.leb_gt in E. apply Z.div_le_mono; [apply pow2_gt0; lia|lia].
Qed.

(** ** BinaryLog: characteristic + mantissa in [0, 2^mb) *)
Definition blog_value (n mb : Z) : Z := fst (binary_log n mb) * 2 ^ mb + snd (binary_log n mb).

Lemma blog_mantissa_range n mb : 1 <= mb -> 0 <= snd (binary_log n mb) < 2 ^ mb.
Proof.
  intros Hmb. unfold binary_log. cbn [snd].
  pose proof (blog_mant_bounds mb (Z.to_nat mb) (blog_init mb n) 0) as B.
  rewrite Z2Nat.id in B by lia. lia.
Qed.

Lemma blog_value_bounds n mb : 1 <= mb ->
  Z.log2 n * 2 ^ mb <= blog_value n mb < (Z.log2 n + 1) * 2 ^ mb.
Proof.
  intros Hmb. unfold blog_value. pose proof (blog_mantissa_range n mb Hmb) as B.
  unfold binary_log in *. cbn [fst snd] in *. lia.
Qed.

Lemma blog_value_mono n n' mb : 1 <= mb -> 0 < n <= n' -> blog_value n mb <= blog_value n' mb.
Proof.
  intros Hmb Hn.
  assert (Hl : Z.log2 n <= Z.log2 n') by (apply Z.log2_le_mono; lia).
  destruct (Z.eq_dec (Z.log2 n) (Z.log2 n')) as [E|NE].
  - unfold blog_value, binary_log. cbn [fst snd]. rewrite E.
    apply Z.add_le_mono_l.
    apply blog_mant_mono; [exact Hmb| |lia].
    split; [apply blog_init_nonneg; lia|apply blog_init_mono; [exact Hmb|lia|exact E]].
  - pose proof (blog_value_bounds n mb Hmb) as B1. pose proof (blog_value_bounds n' mb Hmb) as B2.
    assert (Hp : 0 < 2 ^ mb) by (apply pow2_gt0; lia). nia.
Qed.

(** ** exactness at powers of two: the mantissa is 0 *)
Lemma step_y_at_one mb : 1 <= mb -> step_y mb (2 ^ mb) = 2 ^ mb.
Proof.
  intros Hmb. unfold step_y.
  assert (Hp : 0 < 2 ^ mb) by (apply pow2_gt0; lia).
  assert (Hh : 0 < 2 ^ (mb - 1) < 2 ^ mb).
  { split; [apply pow2_gt0; lia|apply Z.pow_lt_mono_r; lia]. }
  symmetry. apply Z.div_unique with (r := 2 ^ (mb - 1)); lia.
Qed.

Lemma step_at_one mb : 1 <= mb -> blog_step mb (2 ^ mb) = (false, 2 ^ mb).
Proof.
  intros Hmb. rewrite blog_step_spec by exact Hmb. rewrite (step_y_at_one mb Hmb).
  assert (2 ^ mb < 2 ^ (mb + 1)) by (apply Z.pow_lt_mono_r; lia).
  destruct (2 ^ (mb + 1) <=? 2 ^ mb) eqn:E; [apply Z.leb_le in E; lia|reflexivity].
Qed.

Lemma blog_mant_at_one mb k : 1 <= mb -> blog_mant mb k (2 ^ mb) 0 = 0.
Proof.
  intros Hmb. induction k as [|k IH]; [reflexivity|].
  rewrite blog_mant_S, step_at_one by exact Hmb. cbn [fst snd Z.b2z]. exact IH.
Qed.

Lemma blog_init_pow2 mb k : 1 <= mb -> 0 <= k -> blog_init mb (2 ^ k) = 2 ^ mb.
Proof.
  intros Hmb Hk. assert (Hp : 0 < 2 ^ k) by (apply pow2_gt0; lia).
  rewrite blog_init_spec by assumption. rewrite Z.log2_pow2 by lia.
  destruct (k <=? mb) eqn:E.
  - apply Z.leb_le in E. rewrite <- Z.pow_add_r by lia. f_equal. lia.
  - apply Z.leb_gt in E.
    assert (Hs : 2 ^ k = 2 ^ mb * 2 ^ (k - mb)) by (rewrite <- Z.pow_add_r by lia; f_equal; lia).
    assert (Hh : 0 < 2 ^ (k - mb - 1) < 2 ^ (k - mb)).
    { split; [apply pow2_gt0; lia|apply Z.pow_lt_mono_r; lia]. }
    symmetry. apply Z.div_unique with (r := 2 ^ (k - mb - 1)); lia.
Qed.

Lemma blog_value_pow2 mb k : 1 <= mb -> 0 <= k -> blog_value (2 ^ k) mb = k * 2 ^ mb.
Proof.
  intros Hmb Hk. unfold blog_value, binary_log. cbn [fst snd].
  rewrite Z.log2_pow2 by lia. rewrite blog_init_pow2 by assumption.
  rewrite blog_mant_at_one by exact Hmb. lia.
Qed.

(** ** common.LogBig / BitsToBigBits / IntrinsicLogEntropy *)
Lemma mant_bits_ge1 : 1 <= mant_bits.
Proof. vm_compute. discriminate. Qed.

Lemma log_big_value n : log_big n = blog_value n mant_bits.
Proof. unfold log_big, blog_value. destruct (binary_log n mant_bits) as [c m]. reflexivity. Qed.
Lemma bits_to_bigbits_value n : bits_to_bigbits n = blog_value n 64.
Proof. unfold bits_to_bigbits, blog_value. destruct (binary_log n 64) as [c m]. reflexivity. Qed.

Lemma log_big_mono x y : 0 < x <= y -> log_big x <= log_big y.
Proof. intros H. rewrite !log_big_value. apply blog_value_mono; [exact mant_bits_ge1|exact H]. Qed.

Lemma log_big_bounds x : Z.log2 x * 2 ^ mant_bits <= log_big x < (Z.log2 x + 1) * 2 ^ mant_bits.
Proof. rewrite log_big_value. apply blog_value_bounds. exact mant_bits_ge1. Qed.

Lemma log_big_lower_bound x : 2 <= x -> 2 ^ mant_bits <= log_big x.
Proof.
  intros Hx. pose proof (log_big_bounds x) as [B _].
  assert (1 <= Z.log2 x) by (change 1 with (Z.log2 2); apply Z.log2_le_mono; lia).
  assert (0 < 2 ^ mant_bits) by (apply pow2_gt0; pose proof mant_bits_ge1; lia). nia.
Qed.

Lemma log_big_nonneg x : 0 <= log_big x.
Proof.
  pose proof (log_big_bounds x) as [B _]. pose proof (Z.log2_nonneg x).
  assert (0 < 2 ^ mant_bits) by (apply pow2_gt0; pose proof mant_bits_ge1; lia). nia.
Qed.

Lemma log_big_pow2 k : 0 <= k -> log_big (2 ^ k) = k * 2 ^ mant_bits.
Proof. intros Hk. rewrite log_big_value. apply blog_value_pow2; [exact mant_bits_ge1|exact Hk]. Qed.

Lemma bits_to_bigbits_mono x y : 0 < x <= y -> bits_to_bigbits x <= bits_to_bigbits y.
Proof. intros H. rewrite !bits_to_bigbits_value. apply blog_value_mono; [lia|exact H]. Qed.

Lemma bits_to_bigbits_nonneg x : 0 <= bits_to_bigbits x.
Proof.
  rewrite bits_to_bigbits_value. pose proof (blog_value_bounds x 64) as [B _]; [lia|].
  pose proof (Z.log2_nonneg x). assert (0 < 2 ^ 64) by (apply pow2_gt0; lia). nia.
Qed.

(* BigBitsToBits(BitsToBigBits(x)) = floor(log2 x) *)
Lemma bigbits_roundtrip x : log_consts_ok = true -> bigbits_to_bits (bits_to_bigbits x) = Z.log2 x.
Proof.
  intros Hc. unfold bigbits_to_bits.
  assert (E : big2e64 = 2 ^ 64) by (revert Hc; vm_compute; intros _; reflexivity).
  rewrite E, bits_to_bigbits_value.
  pose proof (blog_value_bounds x 64) as B. assert (Hp : 0 < 2 ^ 64) by (apply pow2_gt0; lia).
  symmetry. apply Z.div_unique with (r := blog_value x 64 - Z.log2 x * 2 ^ 64); lia.
Qed.

Lemma big2e256_pos : 0 < big2e256.
Proof. vm_compute. reflexivity. Qed.

(* a hash under the target of a difficulty >= 2 has at least one bit of entropy *)
Lemma quotient_ge_difficulty hash d : 0 < hash -> 0 < d -> hash <= big2e256 / d -> d <= big2e256 / hash.
Proof.
  intros Hh Hd Hle. apply Z.div_le_lower_bound; [exact Hh|].
  pose proof (Z.mul_div_le big2e256 d Hd). nia.
Qed.

Lemma intrinsic_entropy_lower hash d :
  0 < hash -> 2 <= d -> hash <= big2e256 / d -> 2 ^ mant_bits <= intrinsic_entropy hash.
Proof.
  intros Hh Hd Hle. unfold intrinsic_entropy. apply log_big_lower_bound.
  pose proof (quotient_ge_difficulty hash d Hh ltac:(lia) Hle). lia.
Qed.

Lemma intrinsic_entropy_ge_log_difficulty hash d :
  0 < hash -> 0 < d -> hash <= big2e256 / d -> log_big d <= intrinsic_entropy hash.
Proof.
  intros Hh Hd Hle. unfold intrinsic_entropy. apply log_big_mono.
  pose proof (quotient_ge_difficulty hash d Hh Hd Hle). lia.
Qed.

(* smaller hash, more entropy *)
Lemma intrinsic_entropy_antitone h1 h2 : 0 < h1 <= h2 -> h2 <= big2e256 ->
  intrinsic_entropy h2 <= intrinsic_entropy h1.
Proof.
  intros H1 H2. unfold intrinsic_entropy. apply log_big_mono. split.
  - apply Z.div_str_pos. lia.
  - apply Z.div_le_compat_l; lia.
Qed.

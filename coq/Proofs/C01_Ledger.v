(* C01 -- properties of ProcessQiTx on the flat reference ledger: strict event semantics
   (an outpoint is consumed only when present), authorisation, conservation. *)
From Coq Require Import List NArith Bool Lia ZifyBool ZifyN.
From GQ Require Import Lib.Key Lib.SMap Generated.C01Params Model.C01 Proofs.C01_View Proofs.C01_Sim Proofs.C01_Steps.
Import ListNotations.
Local Open Scope N_scope.

(* ------------------------------------------------------------------ strict ledger events *)

Inductive event := Consume (k : key) (u : utxo) | Create (k : key) (u : utxo).

(* strict l evs l': evs applied in order lead from l to l', every Consume finding exactly the
   entry it names in the ledger at that moment *)
Inductive strict : ledger -> list event -> ledger -> Prop :=
| strict_nil l : strict l [] l
| strict_consume l k u r l' : get k l = Some u -> strict (del k l) r l' -> strict l (Consume k u :: r) l'
| strict_create l k u r l' : strict (put k u l) r l' -> strict l (Create k u :: r) l'.

Lemma strict_app l1 e1 l2 e2 l3 : strict l1 e1 l2 -> strict l2 e2 l3 -> strict l1 (e1 ++ e2) l3.
Proof. induction 1; cbn; intros; auto using strict. Qed.

Lemma strict_sorted l evs l' : strict l evs l' -> sorted l -> sorted l'.
Proof. induction 1; auto using del_sorted, put_sorted. Qed.

Definition consumes (sp : list (key * utxo)) : list event := map (fun ku => Consume (fst ku) (snd ku)) sp.
Definition creates (cs : list (key * utxo)) : list event := map (fun ku => Create (fst ku) (snd ku)) cs.
Definition tx_events (r : txres) : list event := consumes (r_spent r) ++ creates (r_created r).

(* between two consumptions of the same outpoint there is a creation of it *)
Lemma strict_absent_consume l evs l' k : strict l evs l' -> sorted l -> get k l = None ->
  forall pre u post, evs = pre ++ Consume k u :: post -> exists u', In (Create k u') pre.
Proof.
  induction 1 as [l|l k0 u0 r l' Hg Hs IH|l k0 u0 r l' Hs IH]; intros S Hn pre u post E.
  - destruct pre; discriminate.
  - destruct pre as [|e pre]; cbn in E; inversion E; subst.
    + congruence.
    + assert (get k (del k0 l) = None) as Hn'.
      { destruct (keqb k k0) eqn:Ek.
        - apply keqb_eq in Ek; subst. apply get_del_same; exact S.
        - apply keqb_neq in Ek. rewrite get_del_other; auto. }
      destruct (IH (del_sorted _ _ S) Hn' pre u post eq_refl) as (u' & Hin). exists u'. right; exact Hin.
  - destruct pre as [|e pre]; cbn in E; inversion E; subst.
    destruct (keqb k k0) eqn:Ek.
    + apply keqb_eq in Ek; subst. exists u0. left; reflexivity.
    + apply keqb_neq in Ek.
      assert (get k (put k0 u0 l) = None) as Hn' by (rewrite get_put_other; auto).
      destruct (IH (put_sorted _ _ _ S) Hn' pre u post eq_refl) as (u' & Hin). exists u'. right; exact Hin.
Qed.

Lemma strict_no_double_consume l evs l' : strict l evs l' -> sorted l ->
  forall pre k u mid u' post, evs = pre ++ Consume k u :: mid ++ Consume k u' :: post ->
  exists u'', In (Create k u'') mid.
Proof.
  induction 1 as [l|l k0 u0 r l' Hg Hs IH|l k0 u0 r l' Hs IH]; intros S pre k u mid u' post E.
  - destruct pre; discriminate.
  - destruct pre as [|e pre]; cbn in E; inversion E; subst.
    + eapply strict_absent_consume; [exact Hs|apply del_sorted; exact S|apply get_del_same; exact S|reflexivity].
    + eapply IH; [apply del_sorted; exact S|reflexivity].
  - destruct pre as [|e pre]; cbn in E; inversion E; subst.
    eapply IH; [apply put_sorted; exact S|reflexivity].
Qed.

(* an outpoint consumed by evs was in the starting ledger or was created earlier in evs *)
Lemma strict_consumed_existed l evs l' : strict l evs l' -> sorted l ->
  forall pre k u post, evs = pre ++ Consume k u :: post ->
  get k l = Some u \/ exists u', In (Create k u') pre.
Proof.
  intros H S pre k u post E. destruct (get k l) as [u0|] eqn:G.
  - revert S pre k u post E u0 G.
    induction H as [l|l k0 u0' r l' Hg Hs IH|l k0 u0' r l' Hs IH]; intros S pre k u post E u0 G.
    + destruct pre; discriminate.
    + destruct pre as [|e pre]; cbn in E; inversion E; subst.
      * left. congruence.
      * destruct (keqb k k0) eqn:Ek.
        -- apply keqb_eq in Ek; subst k0.
           assert (get k (del k l) = None) as Hn by (apply get_del_same; exact S).
           destruct (strict_absent_consume _ _ _ k Hs (del_sorted _ _ S) Hn pre u post eq_refl) as (u' & Hin).
           right. exists u'. right; exact Hin.
        -- apply keqb_neq in Ek.
           assert (get k (del k0 l) = Some u0) as G' by (rewrite get_del_other; auto).
           destruct (IH (del_sorted _ _ S) pre k u post eq_refl u0 G') as [Hl|(u' & Hin)].
           ++ left. congruence.
           ++ right. exists u'. right; exact Hin.
    + destruct pre as [|e pre]; cbn in E; inversion E; subst.
      destruct (keqb k k0) eqn:Ek.
      * apply keqb_eq in Ek; subst k0. right. exists u0'. left; reflexivity.
      * apply keqb_neq in Ek.
        assert (get k (put k0 u0' l) = Some u0) as G' by (rewrite get_put_other; auto).
        destruct (IH (put_sorted _ _ _ S) pre k u post eq_refl u0 G') as [Hl|(u' & Hin)].
        -- left. congruence.
        -- right. exists u'. right; exact Hin.
  - right. eapply strict_absent_consume; eauto.
Qed.

(* ------------------------------------------------------------------ the input loop *)

Definition in_ok (c : ctx) (cs : bool) (i : txin) (ku : key * utxo) : Prop :=
  fst ku = i_op i /\ u_owner (snd ku) = i_pkaddr i /\ is_qi (i_pkaddr i) = true
  /\ u_lock (snd ku) <= c_height c /\ u_den (snd ku) <= max_denomination
  /\ (cs = true -> i_pkparse i = true).

Lemma in_loop_spec c cs gp ins : forall (a a' : iacc (S:=ledger)),
  sorted (ia_store a) ->
  in_loop ledger_store c cs gp a ins = Ok a' ->
  exists sp, ia_spent a' = ia_spent a ++ sp
    /\ Forall2 (in_ok c cs) ins sp
    /\ strict (ia_store a) (consumes sp) (ia_store a')
    /\ ia_total a' = ia_total a + value_of sp
    /\ ia_dens a' = rev (map (fun ku => u_den (snd ku)) sp) ++ ia_dens a
    /\ ia_addrs a' = rev (map (fun ku => u_owner (snd ku)) sp) ++ ia_addrs a.
Proof.
  induction ins as [|i r IH]; intros a a' S H; cbn [in_loop] in H.
  - inversion H; subst. exists []. rewrite app_nil_r. repeat split; auto using strict.
    unfold value_of; cbn. lia.
  - destruct (in_step ledger_store c cs gp a i) as [a1|] eqn:E; [|discriminate].
    unfold in_step in E. cbn [st_get st_del ledger_store] in E.
    destruct (get (i_op i) (ia_store a)) as [u|] eqn:G; [|discriminate].
    destruct (c_height c <? u_lock u) eqn:E1; [discriminate|].
    destruct (is_qi (i_pkaddr i)) eqn:E2; cbn [negb] in E; [|discriminate].
    destruct (keqb (i_pkaddr i) (u_owner u)) eqn:E3; cbn [negb] in E; [|discriminate].
    destruct (cs && negb (i_pkparse i)) eqn:E4; [discriminate|].
    destruct (max_denomination <? u_den u) eqn:E5; [discriminate|].
    inversion E; subst a1; clear E.
    apply IH in H; [|cbn [ia_store]; apply del_sorted; exact S].
    destruct H as (sp & Hs & Hf & Hst & Ht & Hd & Ha). cbn [ia_store ia_addrs ia_total ia_dens ia_spent] in *.
    exists ((i_op i, u) :: sp). repeat split.
    + rewrite Hs, <- app_assoc. reflexivity.
    + constructor; [|exact Hf]. apply keqb_eq in E3. unfold in_ok; cbn [fst snd]. repeat split; auto; try lia.
    + cbn [consumes map fst snd]. apply strict_consume; [exact G|exact Hst].
    + rewrite Ht. unfold value_of; cbn [map sum_den fold_right snd]. fold (sum_den (map (fun kv : key * utxo => u_den (snd kv)) sp)). lia.
    + rewrite Hd. cbn [map rev snd]. rewrite <- app_assoc. reflexivity.
    + rewrite Ha. cbn [map rev snd]. rewrite <- app_assoc. reflexivity.
Qed.

(* ------------------------------------------------------------------ one accepted transaction *)

Lemma put_all_strict cs : forall l : ledger, strict l (creates cs) (put_all ledger_store l cs).
Proof.
  unfold put_all. induction cs as [|[k u] cs IH]; intros l; cbn; [constructor|].
  apply strict_create. apply IH.
Qed.

Definition double_entry (c : ctx) (t : tx) : N := dbl_sum c t (t_outs t).

Lemma etx_types_distinct :
  (etx_conversion_type =? etx_default_type) = false /\ (etx_wrapping_qi_type =? etx_default_type) = false.
Proof. split; vm_compute; reflexivity. Qed.

Lemma conv_etx_value a g : etxs_value [conv_etx a g] = oa_conv a.
Proof.
  unfold etxs_value, etx_val, conv_etx; cbn [fold_right e_type e_value].
  destruct etx_types_distinct as (Hc & Hw). destruct (oa_iswrap a); rewrite ?Hc, ?Hw; lia.
Qed.

(* everything ProcessQiTx guarantees about an accepted transaction, on the flat ledger *)
Lemma process_qi_spec c (b b' : bst (S:=ledger)) t r :
  sorted (b_store b) ->
  process_qi ledger_store c b t = Ok (b', r) ->
  Forall2 (in_ok c (t_checksig t)) (t_ins t) (r_spent r)
  /\ strict (b_store b) (tx_events r) (b_store b')
  /\ value_of (r_spent r) + double_entry c t = value_of (r_created r) + etxs_value (r_etxs r) + r_fee r
  /\ (t_checksig t = true -> t_sigok t = true)
  /\ t_ins t <> []
  /\ Forall (created_by t 0 (len (t_outs t))) (r_created r)
  /\ t_intrinsic t * c_basefee c <= c_quai_reward c * r_fee r / c_qi_reward c
  /\ (b_first b = false ->
      exists ind outd, check_denominations ind outd = true
        /\ ind = rev (map (fun ku => u_den (snd ku)) (r_spent r)))
  /\ b_first b' = false /\ b_gp b' <= b_gp b /\ b_gp b' + b_used b' = b_gp b + b_used b.
Proof.
  intros S H. unfold process_qi in H.
  destruct (sanity t) eqn:Es; [discriminate|].
  destruct (b_gp b <? t_intrinsic t) eqn:Eg; [discriminate|].
  destruct (c_gaslimit c <? b_used b + t_intrinsic t) eqn:El; [discriminate|].
  destruct (in_loop ledger_store c (t_checksig t) (b_gp b - t_intrinsic t) (mkIA (b_store b) [] 0 [] []) (t_ins t)) as [ia|] eqn:Ei;
    [|discriminate].
  destruct (post_inputs false c (b_rlim b) (b_plim b) t (b_gp b - t_intrinsic t) (b_used b + t_intrinsic t)
                        (ia_addrs ia) (ia_total ia)) as [p|] eqn:Ep; [|discriminate].
  destruct (negb (b_first b) && negb (check_denominations (ia_dens ia) (p_outdens p))) eqn:Ed; [discriminate|].
  destruct (t_checksig t && negb (t_sigok t)) eqn:Esig; [discriminate|].
  inversion H; subst b' r; clear H.
  apply in_loop_spec in Ei; [|exact S].
  destruct Ei as (sp & Hs & Hf & Hst & Ht & Hd & Ha). cbn [ia_store ia_addrs ia_total ia_dens ia_spent app] in *.
  apply post_inputs_inv in Ep.
  destruct Ep as (a & Hloop & Hle & Hfee & Hcr & Hod & Hrg & _ & _ & _ & _ & Hfloor & Hcases).
  pose proof (out_loop_measure _ _ _ _ _ _ _ _ Hloop) as (Hm & Htot & Hgp & Hgu & Hidx & Hfl).
  pose proof (out_loop_creates _ _ _ _ _ _ _ _ Hloop) as (cs & Hcs & Hcb).
  unfold oa0, measure in *. cbn [oa_idx oa_total oa_conv oa_isconv oa_iswrap oa_etxs oa_creates oa_gp oa_used app] in *.
  cbn [b_store b_gp b_used b_first r_fee r_etxs r_gas r_spent r_created fst snd].
  rewrite Hs.
  assert (value_of [] = 0 /\ etxs_value [] = 0) as (V0 & X0) by (split; reflexivity).
  repeat split.
  - exact Hf.
  - unfold tx_events; cbn [r_spent r_created]. eapply strict_app; [exact Hst|]. apply put_all_strict.
  - unfold double_entry. rewrite Hcr, Hfee.
    destruct Hcases as [(Hc1 & Hc2 & He & _)|(_ & (g & He) & _)]; rewrite He.
    + assert (oa_conv a = 0) by (apply Hfl; auto). lia.
    + rewrite etxs_value_app, conv_etx_value. lia.
  - intros Hc. rewrite Hc in Esig. cbn [andb] in Esig. destruct (t_sigok t); auto; discriminate.
  - unfold sanity in Es. intros Hn. rewrite Hn in Es. unfold len in Es; cbn in Es. discriminate.
  - rewrite Hcr, Hcs. rewrite Hidx in Hcb. replace (0 + len (t_outs t)) with (len (t_outs t)) in Hcb by lia. exact Hcb.
  - rewrite ?Hfee in *. exact Hfloor.
  - intros Hfirst. rewrite Hfirst in Ed. cbn [negb andb] in Ed.
    exists (ia_dens ia), (p_outdens p). split; [destruct (check_denominations (ia_dens ia) (p_outdens p)); auto; discriminate|].
    rewrite Hd, app_nil_r. reflexivity.
  - destruct Hcases as [(_ & _ & _ & Hg & _)|(_ & _ & _ & Hg & _)]; rewrite Hg; lia.
  - destruct Hcases as [(_ & _ & _ & Hg & Hu & _)|(_ & _ & Hge & Hg & Hu & _)]; rewrite Hg, Hu; lia.
Qed.

(* ------------------------------------------------------------------ blocks and chains *)

Definition tx_facts (c : ctx) (t : tx) (r : txres) : Prop :=
  Forall2 (in_ok c (t_checksig t)) (t_ins t) (r_spent r)
  /\ value_of (r_spent r) + double_entry c t = value_of (r_created r) + etxs_value (r_etxs r) + r_fee r
  /\ (t_checksig t = true -> t_sigok t = true)
  /\ t_ins t <> []
  /\ Forall (created_by t 0 (len (t_outs t))) (r_created r)
  /\ t_intrinsic t * c_basefee c <= c_quai_reward c * r_fee r / c_qi_reward c.

Definition block_events (rs : list txres) : list event := concat (map tx_events rs).

Lemma run_txs_spec c txs : forall (b b' : bst (S:=ledger)) rs,
  sorted (b_store b) ->
  run_txs ledger_store c b txs = (rs, Some b') ->
  strict (b_store b) (block_events rs) (b_store b') /\ Forall2 (tx_facts c) txs rs.
Proof.
  induction txs as [|t r IH]; intros b b' rs S H; cbn [run_txs] in H.
  - inversion H; subst. split; constructor.
  - destruct (process_qi ledger_store c b t) as [[b1 x]|] eqn:E; [|discriminate].
    destruct (run_txs ledger_store c b1 r) as [l o] eqn:Er. inversion H; subst rs o; clear H.
    apply process_qi_spec in E; [|exact S].
    destruct E as (F1 & F2 & F3 & F4 & F5 & F6 & F7 & _).
    assert (sorted (b_store b1)) as S1 by (eapply strict_sorted; eauto).
    destruct (IH _ _ _ S1 Er) as (G1 & G2).
    split.
    + unfold block_events; cbn [map concat]. eapply strict_app; eauto.
    + constructor; [|exact G2]. unfold tx_facts. tauto.
Qed.

(* a rejected block: run_txs says so and nothing is committed *)
Lemma run_block_ref_rejected (l : ledger) c txs rs l' : run_block_ref l c txs = (rs, false, l') -> l' = l.
Proof.
  unfold run_block_ref. destruct (run_txs ledger_store c (init_bst c l) txs) as [x [b|]]; intros H; inversion H; reflexivity.
Qed.

Lemma run_block_ref_accepted (l : ledger) c txs rs l' : sorted l -> run_block_ref l c txs = (rs, true, l') ->
  strict l (block_events rs) l' /\ Forall2 (tx_facts c) txs rs.
Proof.
  unfold run_block_ref. intros S.
  destruct (run_txs ledger_store c (init_bst c l) txs) as [x [b|]] eqn:E; intros H; inversion H; subst.
  apply run_txs_spec in E; [exact E|exact S].
Qed.

Definition outcome := (list txres * bool * ledger)%type.
Definition outcome_events (o : outcome) : list event :=
  let '(rs, ok, _) := o in if ok then block_events rs else [].
Definition chain_events (os : list outcome) : list event := concat (map outcome_events os).
Fixpoint final_ledger (l : ledger) (os : list outcome) : ledger :=
  match os with [] => l | o :: r => final_ledger (snd o) r end.

Lemma run_chain_spec blocks : forall l : ledger, sorted l ->
  strict l (chain_events (run_chain true l blocks)) (final_ledger l (run_chain true l blocks)).
Proof.
  induction blocks as [|[c txs] r IH]; intros l S; cbn [run_chain].
  - constructor.
  - rewrite (run_block_tracked_ref l c txs S).
    destruct (run_block_ref l c txs) as [[rs ok] l'] eqn:E.
    unfold chain_events; cbn [map concat outcome_events snd final_ledger].
    assert (strict l (if ok then block_events rs else []) l' /\ sorted l') as (H1 & S').
    { destruct ok.
      - apply run_block_ref_accepted in E as (H & _); [|exact S]. split; [exact H|]. eapply strict_sorted; eauto.
      - apply run_block_ref_rejected in E. subst. split; [constructor|exact S]. }
    eapply strict_app; [exact H1|]. apply IH; exact S'.
Qed.

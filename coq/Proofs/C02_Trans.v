(* C02 — lemmas about the message level: TransitionDb (gas purchase, intrinsic gas, the three
   branches, refund), Finalize, and the staging of an inbound ETX on the zero address. *)
From Coq Require Import List ZArith NArith Bool Lia.
From GQ Require Import Lib.C02_BMap Generated.C02Sites Model.C02 Proofs.C02_Exec.
Import ListNotations.
Local Open Scope Z_scope.

Ltac rent_lia e := generalize (e_rent e); intros; lia.

(* what the fee payer loses to gas *)
Definition charge (m : msg) (r : result) : Z :=
  match r with
  | RInvalid => 0
  | RDone used _ =>
      if m_isETX m then 0
      else match m_kind m with KNormal => used * m_price m | _ => m_gas m * m_price m end
  end.

(* an inbound ETX carries no gas price (types.ExternalTx.gasPrice() is the constant 0) *)
Definition wf_msg (m : msg) : Prop := m_isETX m = true -> m_price m = 0.

(* what the interpreter guarantees about its opaque outputs *)
Definition wf_opq (m : msg) (o : opaque) : Prop :=
  0 <= o_gleft o <= m_gas m /\ 0 <= o_refctr o.

Definition wf_shape (m : msg) : Prop := 0 <= m_nz m /\ 0 <= m_z m /\ 0 <= m_al m /\ 0 <= m_keys m.

Lemma params_ok_true : params_ok = true.
Proof. vm_compute. reflexivity. Qed.

Lemma intrinsic_ge m : wf_shape m -> C02Sites.tx_gas <= intrinsic m /\ 0 < C02Sites.tx_gas.
Proof.
  intros (H1 & H2 & H3 & H4). pose proof params_ok_true as P. unfold params_ok in P.
  repeat (apply andb_true_iff in P; destruct P as [P ?]).
  repeat match goal with
         | H : (_ <? _) = true |- _ => apply Z.ltb_lt in H
         | H : (_ <=? _) = true |- _ => apply Z.leb_le in H
         end.
  unfold intrinsic.
  generalize dependent C02Sites.tx_gas_contract_creation. generalize dependent C02Sites.tx_gas.
  generalize dependent C02Sites.tx_data_non_zero_gas. generalize dependent C02Sites.tx_data_zero_gas.
  generalize dependent C02Sites.tx_access_list_address_gas. generalize dependent C02Sites.tx_access_list_storage_key_gas.
  intros. destruct (m_create m); nia.
Qed.

Lemma ledger_add e a v s : ledger e (p_add a v s) = ledger e s + v.
Proof. unfold ledger. rewrite bsum_add. cbn [etx burn rent p_add]. rent_lia e. Qed.
Lemma ledger_sub e a v s : ledger e (p_sub a v s) = ledger e s - v.
Proof. unfold ledger. rewrite bsum_sub. cbn [etx burn rent p_sub]. rent_lia e. Qed.

(* ---------- ledger ---------- *)
Lemma after_buy_ledger e m o top s1 s' used failed :
  wf top = true -> after_buy e m o top s1 = (s', RDone used failed) ->
  ledger e s' = ledger e s1 + match m_kind m with KNormal => (m_gas m - used) * m_price m | _ => 0 end.
Proof.
  intros W. unfold after_buy.
  destruct (m_gas m <? intrinsic m); [discriminate|].
  destruct ((0 <? m_value m) && negb (can_transfer (m_from m) (m_value m) s1)); [discriminate|].
  destruct (m_kind m) as [|err|[ben|]]; intros H; inversion H; subst; clear H.
  - rewrite ledger_add, exec_ledger by exact W. f_equal. f_equal. lia.
  - lia.
  - destruct (e_prefork e || negb (mem (m_from m) (sui s1)));
      unfold ledger, add_rent, p_add, p_suicide; cbn [bal sui etx burn rent length];
      rewrite ?Nat2Z.inj_succ, ?Z.mul_succ_r, !bsum_bset, ?bget_bset_same; rent_lia e.
Qed.

Lemma after_buy_invalid e m o top s1 s' : after_buy e m o top s1 = (s', RInvalid) -> s' = s1.
Proof.
  unfold after_buy.
  destruct (m_gas m <? intrinsic m); [now intros [= <-]|].
  destruct ((0 <? m_value m) && negb (can_transfer (m_from m) (m_value m) s1)); [now intros [= <-]|].
  destruct (m_kind m) as [|err|[ben|]]; intros H; inversion H; reflexivity.
Qed.

Theorem transition_ledger e m o top s s' used failed :
  wf top = true -> wf_msg m ->
  transition e m o top s = (s', RDone used failed) ->
  ledger e s' = ledger e s - charge m (RDone used failed).
Proof.
  intros W WM. unfold transition, charge.
  destruct (m_isETX m) eqn:X.
  - specialize (WM X).
    destruct (e_maxetxgas e <? m_gas m).
    + destruct (e_gp e <? C02Sites.tx_gas); intros H; inversion H; subst. lia.
    + destruct (e_gp e <? m_gas m); [discriminate|]. intros H.
      rewrite (after_buy_ledger _ _ _ _ _ _ _ _ W H), WM. destruct (m_kind m); lia.
  - destruct (negb (o_pre_ok o)); [discriminate|].
    destruct (m_price m <? e_basefee e); [discriminate|].
    destruct (bget (m_from m) (bal s) <? m_gas m * m_price m + m_value m); [discriminate|].
    destruct (e_gp e <? m_gas m); [discriminate|]. intros H.
    rewrite (after_buy_ledger _ _ _ _ _ _ _ _ W H), ledger_sub. destruct (m_kind m); lia.
Qed.

(* a consensus-invalid message changes at most the payer's balance (and the caller discards the state) *)
Theorem transition_invalid e m o top s s' :
  transition e m o top s = (s', RInvalid) ->
  s' = s \/ (m_isETX m = false /\ s' = p_sub (m_from m) (m_gas m * m_price m) s).
Proof.
  unfold transition.
  destruct (m_isETX m).
  - destruct (e_maxetxgas e <? m_gas m).
    + destruct (e_gp e <? C02Sites.tx_gas); intros H; inversion H; now left.
    + destruct (e_gp e <? m_gas m); [intros [= <-]; now left|].
      intros H. left. now apply after_buy_invalid in H.
  - destruct (negb (o_pre_ok o)); [intros [= <-]; now left|].
    destruct (m_price m <? e_basefee e); [intros [= <-]; now left|].
    destruct (bget (m_from m) (bal s) <? m_gas m * m_price m + m_value m); [intros [= <-]; now left|].
    destruct (e_gp e <? m_gas m); [intros [= <-]; now left|].
    intros H. right. split; [reflexivity|]. now apply after_buy_invalid in H.
Qed.

(* ---------- gas ---------- *)
Theorem gas_bounds e m o top s s' used failed :
  m_isETX m = false -> 0 <= m_price m -> wf_opq m o -> wf_shape m ->
  transition e m o top s = (s', RDone used failed) ->
  0 <= used <= m_gas m
  /\ used * m_price m <= charge m (RDone used failed) <= m_gas m * m_price m
  /\ (m_kind m = KNormal -> charge m (RDone used failed) = used * m_price m)
  /\ bget (m_from m) (bal s) >= m_gas m * m_price m + m_value m.
Proof.
  intros X HP [[G0 G1] HR] WS. unfold transition, charge. rewrite X.
  destruct (intrinsic_ge m WS) as [IG0 IG1].
  unfold after_buy. set (ig := intrinsic m) in *. clearbody ig.
  destruct (negb (o_pre_ok o)); [discriminate|].
  destruct (m_price m <? e_basefee e); [discriminate|].
  destruct (bget (m_from m) (bal s) <? m_gas m * m_price m + m_value m) eqn:B; [discriminate|].
  apply Z.ltb_ge in B.
  destruct (e_gp e <? m_gas m); [discriminate|].
  destruct (m_gas m <? ig) eqn:I; [discriminate|]. apply Z.ltb_ge in I.
  destruct ((0 <? m_value m) && negb (can_transfer (m_from m) (m_value m) _)); [discriminate|].
  assert (RQ : C02Sites.refund_quotient = 5) by reflexivity.
  destruct (m_kind m) as [|err|[ben|]]; intros H; inversion H; subst; clear H.
  - rewrite RQ.
    assert (D : 0 <= (m_gas m - o_gleft o) / 5 <= m_gas m - o_gleft o).
    { split; [apply Z.div_pos; lia|]. apply Z.div_le_upper_bound; lia. }
    repeat split; try nia; try lia.
  - repeat split; try nia; try lia; intros; discriminate.
  - repeat split; try nia; try lia; intros; discriminate.
Qed.

(* ---------- non-negativity and growth of the ghosts ---------- *)
Lemma grows_sub a v s : 0 <= v -> v <= bget a (bal s) -> grows s (p_sub a v s).
Proof.
  intros Hv G NN. cbn [bal sui etx burn rent p_sub]. repeat split; auto; try lia.
  - now apply nonneg_sub.
  - exists []. now rewrite app_nil_r.
  - exists []. reflexivity.
Qed.
Lemma grows_add a v s : 0 <= v -> grows s (p_add a v s).
Proof.
  intros Hv NN. cbn [bal sui etx burn rent p_add]. repeat split; auto; try lia.
  - now apply nonneg_add.
  - exists []. now rewrite app_nil_r.
  - exists []. reflexivity.
Qed.

Lemma after_buy_grows e m o top s1 s' r :
  0 <= e_rent e -> wf top = true -> 0 <= m_price m -> wf_opq m o ->
  after_buy e m o top s1 = (s', r) -> grows s1 s'.
Proof.
  intros Hr W HP [[G0 G1] HR]. unfold after_buy. set (ig := intrinsic m) in *. clearbody ig.
  destruct (m_gas m <? ig) eqn:I; [intros [= <- <-]; apply grows_refl|]. apply Z.ltb_ge in I.
  destruct ((0 <? m_value m) && negb (can_transfer (m_from m) (m_value m) s1)); [intros [= <- <-]; apply grows_refl|].
  assert (RQ : C02Sites.refund_quotient = 5) by reflexivity.
  destruct (m_kind m) as [|err|[ben|]]; intros H; inversion H; subst; clear H; try apply grows_refl.
  - apply (grows_trans _ (exec e top s1)); [apply (exec_grows e top Hr W)|]. apply grows_add.
    rewrite RQ. assert (0 <= (m_gas m - o_gleft o) / 5) by (apply Z.div_pos; lia). nia.
  - intros NN. assert (Hb : 0 <= bget (m_from m) (bal s1)) by apply NN.
    assert (NN2 : nonneg (bal (p_suicide (m_from m) s1))) by (cbn; apply nonneg_bset; [exact NN|lia]).
    destruct (e_prefork e || negb (mem (m_from m) (sui s1)));
      cbn [bal sui etx burn rent add_rent p_add p_suicide]; repeat split; auto; try lia;
      try (apply nonneg_add; [exact NN2|lia]);
      try (exists []; now rewrite app_nil_r); try (exists []; reflexivity); try (eexists [_]; reflexivity);
      intros x Hx; unfold mem in *; cbn [existsb]; rewrite Hx; apply orb_true_r.
Qed.

Theorem transition_grows e m o top s s' r :
  0 <= e_rent e -> wf top = true -> 0 <= m_price m -> 0 <= m_value m -> 0 <= m_gas m -> wf_opq m o ->
  transition e m o top s = (s', r) -> grows s s'.
Proof.
  intros Hr W HP HV HG WO. unfold transition.
  destruct (m_isETX m).
  - destruct (e_maxetxgas e <? m_gas m).
    + destruct (e_gp e <? C02Sites.tx_gas); intros [= <- <-]; apply grows_refl.
    + destruct (e_gp e <? m_gas m); [intros [= <- <-]; apply grows_refl|].
      now apply after_buy_grows.
  - destruct (negb (o_pre_ok o)); [intros [= <- <-]; apply grows_refl|].
    destruct (m_price m <? e_basefee e); [intros [= <- <-]; apply grows_refl|].
    destruct (bget (m_from m) (bal s) <? m_gas m * m_price m + m_value m) eqn:B; [intros [= <- <-]; apply grows_refl|].
    apply Z.ltb_ge in B.
    destruct (e_gp e <? m_gas m); [intros [= <- <-]; apply grows_refl|].
    intros H. apply (grows_trans _ (p_sub (m_from m) (m_gas m * m_price m) s)).
    + apply grows_sub; nia.
    + exact (after_buy_grows e m o top _ s' r Hr W HP WO H).
Qed.

(* ---------- rent refund: at most once per account per transaction after the fork ---------- *)
Theorem transition_rent_once e m o top s s' r :
  e_prefork e = false -> wf top = true ->
  transition e m o top s = (s', r) -> rent_inv s -> rent_inv s'.
Proof.
  intros PF W.
  assert (AB : forall s1 s2 r2, after_buy e m o top s1 = (s2, r2) -> rent_inv s1 -> rent_inv s2).
  { intros s1 s2 r2. unfold after_buy.
    destruct (m_gas m <? intrinsic m); [now intros [= <- <-]|].
    destruct ((0 <? m_value m) && negb (can_transfer (m_from m) (m_value m) s1)); [now intros [= <- <-]|].
    destruct (m_kind m) as [|err|[ben|]]; intros H; inversion H; subst; clear H; auto.
    - intros I. apply (exec_rent_once e top PF W) in I. exact I.
    - rewrite PF. cbn [orb]. intros [ND IN].
      destruct (mem (m_from m) (sui s1)) eqn:M; cbn [negb]; split; cbn.
      + exact ND.
      + intros y Hy. fold (mem y (sui s1)). rewrite (IN y Hy). apply orb_true_r.
      + constructor; [|exact ND]. intros HI. apply IN in HI. congruence.
      + intros y [<-|Hy]; [now rewrite N.eqb_refl|]. fold (mem y (sui s1)). rewrite (IN y Hy). apply orb_true_r. }
  unfold transition.
  destruct (m_isETX m).
  - destruct (e_maxetxgas e <? m_gas m).
    + destruct (e_gp e <? C02Sites.tx_gas); now intros [= <- <-].
    + destruct (e_gp e <? m_gas m); [now intros [= <- <-]|]. apply AB.
  - destruct (negb (o_pre_ok o)); [now intros [= <- <-]|].
    destruct (m_price m <? e_basefee e); [now intros [= <- <-]|].
    destruct (bget (m_from m) (bal s) <? m_gas m * m_price m + m_value m); [now intros [= <- <-]|].
    destruct (e_gp e <? m_gas m); [now intros [= <- <-]|].
    intros H I. eapply AB; [exact H|exact I].
Qed.

(* ---------- a failed transaction ---------- *)
(* EVM.create returned ErrCodeStoreOutOfGas: the frame failed but was NOT reverted *)
Definition store_oog (a : action) : bool :=
  match a with
  | ACreate f _ v r _ out => negb (out =? 0)%N && negb (out =? 1)%N
  | _ => false
  end.

Lemma top_failed_neutral e top s o :
  is_top top = true -> store_oog top = false -> top_failed top s o = true -> core (exec e top s) = core s.
Proof.
  destruct top as [f t v r mk body rv|f v r rv|self v c r body rv|f n v r body out|a b|a v f p em|];
    cbn [is_top store_oog top_failed]; intros T SO F; try discriminate.
  - destruct (negb (v =? 0) && negb (can_transfer f v s)) eqn:G.
    + apply unentered_frame_neutral. now rewrite G.
    + cbn [orb] in F. destruct (r <? 2)%N eqn:R2.
      * apply unentered_frame_neutral. rewrite G, R2. reflexivity.
      * apply reverted_frame_neutral. exact F.
  - destruct (negb (v =? 0) && negb (can_transfer f v s)) eqn:G.
    + apply unentered_frame_neutral. now rewrite G.
    + cbn [orb] in F. destruct (r =? 0)%N eqn:R0.
      * apply unentered_frame_neutral. rewrite G. apply N.eqb_eq in R0. subst r. reflexivity.
      * apply reverted_frame_neutral. exact F.
  - destruct (negb (can_transfer f v s)) eqn:G.
    + apply unentered_frame_neutral. now rewrite G.
    + cbn [orb] in F. destruct (r <? 2)%N eqn:R2.
      * apply unentered_frame_neutral. rewrite G, R2. reflexivity.
      * cbn [orb] in F. apply reverted_frame_neutral. cbn [reverted_frame].
        destruct (out =? 0)%N; [discriminate|]. cbn in SO. now apply negb_false_iff in SO.
Qed.

Theorem failed_only_payer e m o top s s' used :
  is_top top = true -> store_oog top = false ->
  transition e m o top s = (s', RDone used true) ->
  (forall a, a <> m_from m -> bget a (bal s') = bget a (bal s))
  /\ sui s' = sui s /\ etx s' = etx s /\ burn s' = burn s /\ rent s' = rent s.
Proof.
  intros T SO.
  assert (AB : forall s1 s2, after_buy e m o top s1 = (s2, RDone used true) ->
     (forall a, a <> m_from m -> bget a (bal s2) = bget a (bal s1))
     /\ sui s2 = sui s1 /\ etx s2 = etx s1 /\ burn s2 = burn s1 /\ rent s2 = rent s1).
  { intros s1 s2. unfold after_buy.
    destruct (m_gas m <? intrinsic m); [discriminate|].
    destruct ((0 <? m_value m) && negb (can_transfer (m_from m) (m_value m) s1)); [discriminate|].
    destruct (m_kind m) as [|err|[ben|]].
    - intros [= <- _ HF].
      pose proof (top_failed_neutral e top s1 o T SO HF) as C. unfold core in C.
      injection C as Cb Cs Ce Cu Cr. cbn [bal sui etx burn rent p_add].
      rewrite Cb, Cs, Ce, Cu, Cr. repeat split; try reflexivity.
      intros a Ha. now rewrite bget_bset_other.
    - intros [= <- _ _]. repeat split; reflexivity.
    - destruct (e_prefork e || negb (mem (m_from m) (sui s1))); discriminate.
    - discriminate. }
  unfold transition.
  destruct (m_isETX m).
  - destruct (e_maxetxgas e <? m_gas m).
    + destruct (e_gp e <? C02Sites.tx_gas); intros H; inversion H; subst. repeat split; reflexivity.
    + destruct (e_gp e <? m_gas m); [discriminate|]. apply AB.
  - destruct (negb (o_pre_ok o)); [discriminate|].
    destruct (m_price m <? e_basefee e); [discriminate|].
    destruct (bget (m_from m) (bal s) <? m_gas m * m_price m + m_value m); [discriminate|].
    destruct (e_gp e <? m_gas m); [discriminate|].
    intros H. destruct (AB _ _ H) as (Hb & Hs & He & Hu & Hr). cbn [sui etx burn rent p_sub] in *.
    repeat split; try assumption.
    intros a Ha. rewrite (Hb a Ha). cbn [bal p_sub]. now rewrite bget_bset_other.
Qed.

(* ---------- Finalize ---------- *)
Definition fin_step (x : st) (a : addr) : st :=
  mkSt (bset a 0 (bal x)) (sui x) (etx x) (burn x + bget a (bal x)) (rent x) (bad x) (nsnap x) (trace x).

Lemma finalise_eq s : finalise s = fold_left fin_step (sui s) s.
Proof. reflexivity. Qed.

Lemma fin_fold l : forall s,
  let s' := fold_left fin_step l s in
  (forall e, ledger e s' = ledger e s)
  /\ sui s' = sui s /\ etx s' = etx s /\ rent s' = rent s
  /\ (forall a, In a l -> bget a (bal s') = 0)
  /\ (forall a, ~ In a l -> bget a (bal s') = bget a (bal s))
  /\ (nonneg (bal s) -> nonneg (bal s') /\ burn s <= burn s' /\ bsum (bal s') <= bsum (bal s)).
Proof.
  induction l as [|x l IH]; intros s; cbn [fold_left].
  - repeat split; auto; try lia. intros a [].
  - destruct (IH (fin_step s x)) as (L & S & E & Rn & Z0 & Oth & NN). cbn zeta in *.
    set (s' := fold_left fin_step l (fin_step s x)) in *.
    repeat split.
    + intros e. rewrite L. unfold ledger, fin_step. cbn [bal etx burn rent]. rewrite bsum_bset. rent_lia e.
    + now rewrite S.
    + now rewrite E.
    + now rewrite Rn.
    + intros a [<-|Ha]; [|now apply Z0].
      destruct (in_dec N.eq_dec x l) as [I|I]; [now apply Z0|].
      rewrite (Oth x I). cbn. apply bget_bset_same.
    + intros a Ha. rewrite Oth by (intros H; apply Ha; now right).
      cbn. apply bget_bset_other. intros ->. apply Ha. now left.
    + assert (N1 : nonneg (bal (fin_step s x))) by (cbn; apply nonneg_bset; [exact H|lia]).
      now destruct (NN N1).
    + assert (N1 : nonneg (bal (fin_step s x))) by (cbn; apply nonneg_bset; [exact H|lia]).
      destruct (NN N1) as (_ & B & _). cbn [burn fin_step] in B. specialize (H x). lia.
    + assert (N1 : nonneg (bal (fin_step s x))) by (cbn; apply nonneg_bset; [exact H|lia]).
      destruct (NN N1) as (_ & _ & B). cbn [bal fin_step] in B. rewrite bsum_bset in B. specialize (H x). lia.
Qed.

Theorem finalise_ledger e s : ledger e (finalise s) = ledger e s.
Proof. rewrite finalise_eq. destruct (fin_fold (sui s) s) as (L & _). apply L. Qed.

Theorem finalise_deletes s a : mem a (sui s) = true -> bget a (bal (finalise s)) = 0.
Proof. rewrite finalise_eq, mem_true. destruct (fin_fold (sui s) s) as (_ & _ & _ & _ & Z0 & _). apply Z0. Qed.

Theorem finalise_keeps s a : mem a (sui s) = false -> bget a (bal (finalise s)) = bget a (bal s).
Proof. rewrite finalise_eq, mem_false. destruct (fin_fold (sui s) s) as (_ & _ & _ & _ & _ & O & _). apply O. Qed.

Theorem finalise_only_burns s : nonneg (bal s) ->
  nonneg (bal (finalise s)) /\ burn s <= burn (finalise s) /\ bsum (bal (finalise s)) <= bsum (bal s).
Proof. rewrite finalise_eq. destruct (fin_fold (sui s) s) as (_ & _ & _ & _ & _ & _ & NN). exact NN. Qed.

Lemma finalise_fields s : sui (finalise s) = sui s /\ etx (finalise s) = etx s /\ rent (finalise s) = rent s.
Proof. rewrite finalise_eq. destruct (fin_fold (sui s) s) as (_ & S & E & Rn & _). auto. Qed.

Lemma finalise_grows s : grows s (finalise s).
Proof.
  intros NN. destruct (finalise_only_burns s NN) as (N1 & B & _).
  destruct (finalise_fields s) as (S & E & Rn).
  repeat split; auto.
  - exists []. now rewrite app_nil_r, E.
  - exists []. now rewrite Rn.
  - intros a. now rewrite S.
  - rewrite E. lia.
Qed.

(* ---------- a whole transaction: ApplyMessage + Finalize ---------- *)
Theorem apply_tx_ledger e m o top s s' used failed :
  wf top = true -> wf_msg m ->
  apply_tx e m o top s = (s', RDone used failed) ->
  ledger e s' = ledger e s - charge m (RDone used failed).
Proof.
  intros W WM. unfold apply_tx. destruct (transition e m o top s) as [s1 r] eqn:T.
  intros H. inversion H; subst. cbn [is_invalid]. rewrite finalise_ledger.
  now apply (transition_ledger e m o top s s1 used failed).
Qed.

Theorem apply_tx_grows e m o top s s' r :
  0 <= e_rent e -> wf top = true -> 0 <= m_price m -> 0 <= m_value m -> 0 <= m_gas m -> wf_opq m o ->
  apply_tx e m o top s = (s', r) -> grows s s'.
Proof.
  intros Hr W HP HV HG WO. unfold apply_tx. destruct (transition e m o top s) as [s1 r1] eqn:T.
  intros H. inversion H; subst. pose proof (transition_grows e m o top s s1 r Hr W HP HV HG WO T) as G.
  destruct (is_invalid r); [exact G|]. eapply grows_trans; [exact G|apply finalise_grows].
Qed.

(* ---------- an inbound ETX ---------- *)
Lemma stage_ledger e z v s : ledger e (stage z v s) = ledger e s + v - bget z (bal s).
Proof. unfold ledger, stage. cbn [bal etx burn rent]. rewrite bsum_bset. rent_lia e. Qed.
Lemma unstage_ledger e z p s : ledger e (unstage z p s) = ledger e s + p.
Proof. unfold ledger, unstage. cbn [bal etx burn rent]. rewrite bsum_bset. rent_lia e. Qed.

Theorem apply_etx_ledger e m o top s s' used failed :
  wf top = true -> m_isETX m = true -> m_price m = 0 ->
  apply_etx e m o top s = (s', RDone used failed) ->
  ledger e s' = ledger e s + m_value m.
Proof.
  intros W X P. unfold apply_etx.
  destruct (apply_tx e m o top (stage (e_zero e) (m_value m) s)) as [s1 r] eqn:T.
  intros H. inversion H; subst.
  rewrite unstage_ledger.
  rewrite (apply_tx_ledger e m o top _ s1 used failed W (fun _ => P) T), stage_ledger.
  unfold charge. rewrite X. lia.
Qed.

Theorem apply_etx_zero_restored e m o top s s' r :
  apply_etx e m o top s = (s', r) -> bget (e_zero e) (bal s') = bget (e_zero e) (bal s).
Proof.
  unfold apply_etx. destruct (apply_tx e m o top _) as [s1 r1]. intros H. inversion H; subst.
  cbn. apply bget_bset_same.
Qed.

Lemma grows_stage z v s : 0 <= v -> grows s (stage z v s).
Proof.
  intros Hv NN. cbn [bal sui etx burn rent stage]. repeat split; auto; try lia.
  - now apply nonneg_bset.
  - exists []. now rewrite app_nil_r.
  - exists []. reflexivity.
Qed.
Lemma grows_unstage z p s : 0 <= p -> grows s (unstage z p s).
Proof.
  intros Hv NN. cbn [bal sui etx burn rent unstage]. repeat split; auto.
  - now apply nonneg_bset.
  - specialize (NN z). lia.
  - exists []. now rewrite app_nil_r.
  - exists []. reflexivity.
  - lia.
Qed.

Theorem apply_etx_grows e m o top s s' r :
  0 <= e_rent e -> wf top = true -> 0 <= m_price m -> 0 <= m_value m -> 0 <= m_gas m -> wf_opq m o ->
  apply_etx e m o top s = (s', r) -> grows s s'.
Proof.
  intros Hr W HP HV HG WO. unfold apply_etx.
  destruct (apply_tx e m o top (stage (e_zero e) (m_value m) s)) as [s1 r1] eqn:T.
  intros H. inversion H; subst. intros NN.
  apply (grows_trans s (stage (e_zero e) (m_value m) s)); [now apply grows_stage| |exact NN].
  eapply grows_trans; [eapply apply_tx_grows; eassumption|].
  apply grows_unstage. apply NN.
Qed.

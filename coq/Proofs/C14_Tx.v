(* C14 — lemmas about the field-by-field model of Transaction.ProtoEncode / ProtoDecode
   (Model/C14.v section 3b): round trip, identity stability, injectivity, for all three types. *)
From Coq Require Import List Arith NArith Lia Bool ZifyBool ZifyNat ZifyN.
From GQ Require Import Lib.Key Lib.C14_Varint Lib.C14_BigEndian Lib.C14_ProtoWire Lib.C14_ProtoWireFacts
  Lib.C14_ProtoWireNF Lib.C14_RLP Generated.C14Schemas Model.C14 Proofs.C14.
Import ListNotations.
Local Open Scope N_scope.

Local Arguments N.mul : simpl never.
Local Arguments N.add : simpl never.
Local Arguments N.sub : simpl never.
Local Arguments N.div : simpl never.
Local Arguments N.modulo : simpl never.
Local Arguments N.pow : simpl never.
Local Arguments N.ltb : simpl never.
Local Arguments N.leb : simpl never.

(* ---------------- [build]: a struct with optional fields ---------------- *)

Fixpoint lookup (l : list (N * option fval)) (k : N) : option fval :=
  match l with
  | [] => None
  | (k', o) :: t => if k' =? k then match o with Some v => Some v | None => lookup t k end else lookup t k
  end.

Lemma get_field_build l k : get_field (build l) k = lookup l k.
Proof.
  induction l as [|[k' [v|]] t IH]; [reflexivity| |].
  - cbn [build get_field lookup fst snd]. destruct (k' =? k); [reflexivity|exact IH].
  - cbn [build lookup]. rewrite IH. destruct (k' =? k); reflexivity.
Qed.

Lemma has_build l k : has (build l) k = match lookup l k with Some _ => true | None => false end.
Proof. unfold has. rewrite get_field_build. reflexivity. Qed.
Lemma get_bytes_build l k : get_bytes (build l) k = match lookup l k with Some v => as_bytes v | None => [] end.
Proof. unfold get_bytes. rewrite get_field_build. reflexivity. Qed.
Lemma get_int_build l k : get_int (build l) k = match lookup l k with Some v => as_int v | None => 0 end.
Proof. unfold get_int. rewrite get_field_build. reflexivity. Qed.
Lemma get_msg_build l k : get_msg (build l) k = match lookup l k with Some v => as_msg v | None => [] end.
Proof. unfold get_msg. rewrite get_field_build. reflexivity. Qed.

Fixpoint incr (prev : N) (ks : list N) : bool :=
  match ks with [] => true | k :: t => (prev <? k) && incr k t end.

Lemma incr_weaken p q ks : p <= q -> incr q ks = true -> incr p ks = true.
Proof. destruct ks as [|k t]; [reflexivity|]. cbn [incr]. intros H E. apply andb_true_iff in E as [E1 E2]. rewrite E2. lia. Qed.

Lemma build_keys_above p l : incr p (map fst l) = true -> forall e, In e (build l) -> p < fst e.
Proof.
  revert p. induction l as [|[k [v|]] t IH]; intros p H e He.
  - destruct He.
  - cbn [map fst incr] in H. apply andb_true_iff in H as [H1 H2]. cbn [build] in He. destruct He as [<-|He].
    + cbn [fst]. lia.
    + specialize (IH k H2 e He). lia.
  - cbn [map fst incr] in H. apply andb_true_iff in H as [H1 H2]. cbn [build] in He.
    specialize (IH k H2 e He). lia.
Qed.

Lemma ordered_build desc p l : incr p (map fst l) = true -> ordered desc (build l) = true.
Proof.
  revert p. induction l as [|[k [v|]] t IH]; intros p H; [reflexivity| |].
  - cbn [map fst incr] in H. apply andb_true_iff in H as [H1 H2]. cbn [build].
    pose proof (IH k H2) as Ho. pose proof (build_keys_above k t H2) as Hk.
    destruct (build t) as [|e' r] eqn:E; [reflexivity|].
    change (ordered desc ((k, v) :: e' :: r))
      with (((k <? fst e') || ((k =? fst e') && rep_num desc k)) && ordered desc (e' :: r)).
    rewrite Ho. specialize (Hk e' (or_introl eq_refl)).
    assert (X : k <? fst e' = true) by lia. rewrite X. reflexivity.
  - cbn [map fst incr] in H. apply andb_true_iff in H as [H1 H2]. cbn [build]. exact (IH k H2).
Qed.

Definition no_oneofs (desc : msgdesc) : bool := forallb (fun fd => f_oneof fd =? 0) desc.

Lemma oneof_of_zero desc k : no_oneofs desc = true -> oneof_of desc k = 0.
Proof.
  intros H. unfold oneof_of, find_field. destruct (find (fun fd => f_num fd =? k) desc) as [fd|] eqn:E; [|reflexivity].
  apply find_some in E as [Hin _]. unfold no_oneofs in H. rewrite forallb_forall in H. specialize (H fd Hin). lia.
Qed.

Lemma oneof_ok_none desc m : no_oneofs desc = true -> oneof_ok desc m = true.
Proof.
  intros H. unfold oneof_ok. apply forallb_forall. intros e1 _. apply forallb_forall. intros e2 _.
  rewrite (oneof_of_zero desc (fst e1) H). reflexivity.
Qed.

Definition entry_ok (desc : msgdesc) (e : N * fval) : bool :=
  match find_field desc (fst e) with
  | None => false
  | Some fd => wf_val sc (f_kind fd) (snd e) && nonzero_ok fd (snd e)
  end.

Lemma wf_msg_parts id desc m : nth_error sc (N.to_nat id) = Some desc -> no_oneofs desc = true ->
  forallb (entry_ok desc) m = true -> ordered desc m = true -> wf_msg sc id m = true.
Proof.
  intros Hn Ho He Hord. unfold wf_msg. cbn [wf_val]. rewrite Hn. fold (entry_ok desc).
  rewrite He, Hord, (oneof_ok_none desc m Ho). reflexivity.
Qed.

Fixpoint entries_ok (desc : msgdesc) (l : list (N * option fval)) : bool :=
  match l with
  | [] => true
  | (k, Some v) :: t => entry_ok desc (k, v) && entries_ok desc t
  | (_, None) :: t => entries_ok desc t
  end.

Lemma forallb_build desc l : forallb (entry_ok desc) (build l) = entries_ok desc l.
Proof. induction l as [|[k [v|]] t IH]; [reflexivity| |]; cbn [build forallb entries_ok]; rewrite IH; reflexivity. Qed.

(* a message that is one repeated field *)
Lemma ordered_rep desc k (vs : list fval) : rep_num desc k = true -> ordered desc (map (fun v => (k, v)) vs) = true.
Proof.
  intros H. induction vs as [|v [|v' t] IH]; [reflexivity|reflexivity|].
  cbn [map] in *.
  change (ordered desc ((k, v) :: (k, v') :: map (fun v0 => (k, v0)) t))
    with (((k <? k) || ((k =? k) && rep_num desc k)) && ordered desc ((k, v') :: map (fun v0 => (k, v0)) t)).
  rewrite N.eqb_refl, H, IH. rewrite orb_true_r. reflexivity.
Qed.

Lemma ordered_cons_rep desc k0 v0 k (vs : list fval) : k0 < k -> rep_num desc k = true ->
  ordered desc ((k0, v0) :: map (fun v => (k, v)) vs) = true.
Proof.
  intros Hlt Hr. destruct vs as [|v t]; [reflexivity|].
  change (ordered desc ((k0, v0) :: map (fun v1 => (k, v1)) (v :: t)))
    with (((k0 <? k) || ((k0 =? k) && rep_num desc k0)) && ordered desc (map (fun v1 => (k, v1)) (v :: t))).
  rewrite ordered_rep by exact Hr. assert (X : k0 <? k = true) by lia. rewrite X. reflexivity.
Qed.

Lemma forallb_rep desc k (vs : list fval) :
  forallb (entry_ok desc) (map (fun v => (k, v)) vs) = forallb (fun v => entry_ok desc (k, v)) vs.
Proof. induction vs as [|v t IH]; [reflexivity|]. cbn [map forallb]. rewrite IH. reflexivity. Qed.

Lemma forallb_map {A B} (f : B -> bool) (g : A -> B) l : forallb f (map g l) = forallb (fun x => f (g x)) l.
Proof. induction l as [|x t IH]; [reflexivity|]. cbn [map forallb]. rewrite IH. reflexivity. Qed.

(* ---------------- access lists ---------------- *)

Definition addr_nf (a : bytes) : Prop := length a = addr_len /\ wf_bytes a.
Definition at_nf (t : acctuple) : Prop := addr_nf (at_addr t) /\ Forall hash_nf (at_keys t).

Lemma addr_roundtrip a : length a = addr_len -> addr_of_bytes a = a.
Proof. apply set_bytes_exact. Qed.

Lemma Forall_hash_len l : Forall hash_nf l -> Forall (fun h => length h = hash_len) l.
Proof. apply Forall_impl. intros h [H _]. exact H. Qed.

Lemma at_roundtrip t : at_nf t -> at_decode (at_encode t) = t.
Proof.
  intros [[Ha _] Hk]. destruct t as [a ks]. cbn [at_addr at_keys] in *.
  destruct a as [|x a]; [discriminate|]. unfold at_encode, at_decode. cbn [at_addr at_keys app].
  unfold get_bytes. cbn [get_field fst snd N.eqb Pos.eqb as_bytes].
  rewrite addr_roundtrip by exact Ha.
  change ((1, FBytes (x :: a)) :: map (fun h => (2, FMsg (hash_msg h))) ks)
    with ([(1, FBytes (x :: a))] ++ map (fun h => (2, FMsg (hash_msg h))) ks).
  rewrite get_all_app. change (get_all [(1, FBytes (x :: a))] 2) with (@nil fval). cbn [app].
  rewrite <- (map_map (fun h => FMsg (hash_msg h)) (fun v => (2, v))), get_all_same.
  rewrite map_hash_roundtrip by (apply Forall_hash_len; exact Hk). reflexivity.
Qed.

Lemma al_roundtrip al : Forall at_nf al -> al_decode (al_encode al) = al.
Proof.
  intros H. unfold al_decode, al_encode.
  rewrite <- (map_map (fun t => FMsg (at_encode t)) (fun v => (1, v))), get_all_same, map_map.
  induction H as [|t al Ht _ IH]; [reflexivity|]. cbn [map as_msg]. rewrite at_roundtrip by exact Ht. f_equal. exact IH.
Qed.

Lemma at_desc : nth_error sc (N.to_nat id_block_ProtoAccessTuple) =
  Some [mkField 1 KBytes LImp 0; mkField 2 (KMsg id_common_ProtoHash) LRep 0].
Proof. vm_compute. reflexivity. Qed.
Lemma al_desc : nth_error sc (N.to_nat id_block_ProtoAccessList) = Some [mkField 1 (KMsg id_block_ProtoAccessTuple) LRep 0].
Proof. vm_compute. reflexivity. Qed.

Lemma at_wf t : at_nf t -> wf_msg sc id_block_ProtoAccessTuple (at_encode t) = true.
Proof.
  intros [[Ha Hw] Hk]. destruct t as [a ks]. cbn [at_addr at_keys] in *.
  destruct a as [|x a]; [discriminate|]. unfold at_encode. cbn [at_addr at_keys app].
  apply (wf_msg_parts _ _ _ at_desc); [reflexivity| |].
  - cbn [forallb]. apply andb_true_iff. split.
    + unfold entry_ok. cbn [fst snd find_field find f_num N.eqb Pos.eqb f_kind wf_val nonzero_ok f_label].
      apply wf_bytesb_iff in Hw. rewrite Hw. reflexivity.
    + rewrite <- (map_map (fun h => FMsg (hash_msg h)) (fun v => (2, v))), forallb_rep, forallb_map.
      apply forallb_forall. intros h Hin. rewrite Forall_forall in Hk. specialize (Hk h Hin).
      unfold entry_ok. cbn [fst snd find_field find f_num N.eqb Pos.eqb f_kind nonzero_ok f_label].
      change (wf_val sc (KMsg id_common_ProtoHash) (FMsg (hash_msg h))) with (wf_msg sc id_common_ProtoHash (hash_msg h)).
      rewrite hash_msg_wf by exact Hk. reflexivity.
  - rewrite <- (map_map (fun h => FMsg (hash_msg h)) (fun v => (2, v))). apply ordered_cons_rep; [lia|reflexivity].
Qed.

Lemma al_wf al : Forall at_nf al -> wf_msg sc id_block_ProtoAccessList (al_encode al) = true.
Proof.
  intros H. unfold al_encode. apply (wf_msg_parts _ _ _ al_desc); [reflexivity| |].
  - rewrite <- (map_map (fun t => FMsg (at_encode t)) (fun v => (1, v))), forallb_rep, forallb_map.
    apply forallb_forall. intros t Hin. rewrite Forall_forall in H. specialize (H t Hin).
    unfold entry_ok. cbn [fst snd find_field find f_num N.eqb Pos.eqb f_kind nonzero_ok f_label].
    change (wf_val sc (KMsg id_block_ProtoAccessTuple) (FMsg (at_encode t))) with (wf_msg sc id_block_ProtoAccessTuple (at_encode t)).
    rewrite at_wf by exact H. reflexivity.
  - rewrite <- (map_map (fun t => FMsg (at_encode t)) (fun v => (1, v))). apply ordered_rep. reflexivity.
Qed.

(* C18 -- the insertion order of core/types/hashing.go:DeriveSha: every index exactly once,
   the keys rlp(i) are pairwise distinct (all i < 2^64), and they are fed in ascending byte order
   (checked by computation for every list length up to a bound). *)
From Coq Require Import List NArith Bool Arith Lia ZifyBool ZifyNat ZifyN.
From GQ Require Import Lib.Key Model.C18.
Import ListNotations.
Local Open Scope N_scope.

(* ---------- every index exactly once ---------- *)
Lemma in_nrange from cnt i : In i (nrange from cnt) <-> from <= i < from + N.of_nat cnt.
Proof.
  revert from. induction cnt as [|c IH]; intros from; cbn [nrange In].
  - lia.
  - rewrite IH. lia.
Qed.

Lemma nodup_nrange from cnt : NoDup (nrange from cnt).
Proof.
  revert from. induction cnt as [|c IH]; intros from; cbn [nrange]; constructor; auto.
  rewrite in_nrange. lia.
Qed.

Lemma derive_order_in n i : In i (derive_order n) <-> i < n.
Proof.
  unfold derive_order. rewrite !in_app_iff, !in_nrange.
  destruct (N.ltb_spec 0 n); cbn [In]; lia.
Qed.

Lemma nodup_app {A} (a b : list A) :
  NoDup a -> NoDup b -> (forall x, In x a -> In x b -> False) -> NoDup (a ++ b).
Proof.
  induction a as [|x a IH]; cbn; intros Ha Hb Hd; auto.
  inversion Ha; subst. constructor.
  - rewrite in_app_iff. intros [H|H]; auto. apply (Hd x); auto.
  - apply IH; auto. intros y Hy. apply Hd. auto.
Qed.

Lemma derive_order_nodup n : NoDup (derive_order n).
Proof.
  unfold derive_order. apply nodup_app; [apply nodup_nrange| |].
  - apply nodup_app; [|apply nodup_nrange|].
    + destruct (0 <? n); constructor; auto. constructor.
    + intros x Hx Hy. apply in_nrange in Hy. destruct (0 <? n); cbn in Hx; [|auto].
      destruct Hx as [<-|[]]. lia.
  - intros x Hx Hy. apply in_nrange in Hx. apply in_app_iff in Hy.
    destruct Hy as [Hy|Hy].
    + destruct (0 <? n); cbn in Hy; [|auto]. destruct Hy as [<-|[]]. lia.
    + apply in_nrange in Hy. lia.
Qed.

(* ---------- rlp.AppendUint64 is injective on uint64 ---------- *)
Definition of_be (l : list N) : N := fold_left (fun a d => a * 256 + d) l 0.

Lemma fold_be_acc l a : fold_left (fun a d => a * 256 + d) l a
                        = a * 256 ^ N.of_nat (length l) + fold_left (fun a d => a * 256 + d) l 0.
Proof.
  revert a. induction l as [|d l IH]; intros a.
  - cbn. lia.
  - cbn [fold_left length]. rewrite IH, (IH (0 * 256 + d)), Nat2N.inj_succ, N.pow_succ_r'. ring.
Qed.

Lemma of_be_cons d l : of_be (d :: l) = d * 256 ^ N.of_nat (length l) + of_be l.
Proof. unfold of_be. cbn [fold_left]. rewrite fold_be_acc. ring. Qed.

Lemma of_be_be_bytes fuel : forall x acc, x < 256 ^ N.of_nat fuel ->
  of_be (be_bytes fuel x acc) = x * 256 ^ N.of_nat (length acc) + of_be acc.
Proof.
  induction fuel as [|f IH]; intros x acc Hx.
  - change (N.of_nat 0) with 0 in Hx. rewrite N.pow_0_r in Hx. assert (x = 0) by lia. subst.
    cbn [be_bytes]. rewrite N.mul_0_l. reflexivity.
  - cbn [be_bytes]. destruct (N.eqb_spec x 0) as [->|Hn]; [rewrite N.mul_0_l; reflexivity|].
    rewrite IH.
    + cbn [length]. rewrite of_be_cons, Nat2N.inj_succ, N.pow_succ_r'.
      assert (Ex : x = 256 * (x / 256) + x mod 256) by (apply N.div_mod; lia).
      set (q := x / 256) in *. set (r := x mod 256) in *. clearbody q r. subst x. ring.
    + rewrite Nat2N.inj_succ, N.pow_succ_r' in Hx. apply N.div_lt_upper_bound; lia.
Qed.

Definition rlp_decode (l : list N) : N :=
  match l with
  | [b] => if b =? 128 then 0 else b
  | _ :: bs => of_be bs
  | [] => 0
  end.

Lemma rlp_decode_uint i : i < 256 ^ 8 -> rlp_decode (rlp_uint i) = i.
Proof.
  intros Hu. unfold rlp_uint. destruct (N.eqb_spec i 0) as [->|Hn]; [reflexivity|].
  destruct (N.ltb_spec i 128) as [Hs|Hs].
  - cbn [rlp_decode]. destruct (N.eqb_spec i 128); [lia|reflexivity].
  - cbn zeta. pose proof (of_be_be_bytes 8 i [] Hu) as Hv. cbn [length of_be fold_left] in Hv.
    replace (i * 256 ^ N.of_nat 0 + 0) with i in Hv by (cbn; lia).
    unfold rlp_decode. destruct (be_bytes 8 i []) as [|b bs] eqn:E.
    + cbn in Hv. lia.
    + exact Hv.
Qed.

Lemma rlp_uint_inj_lemma i j : i < 256 ^ 8 -> j < 256 ^ 8 -> rlp_uint i = rlp_uint j -> i = j.
Proof.
  intros Hi Hj He. rewrite <- (rlp_decode_uint i Hi), <- (rlp_decode_uint j Hj), He. reflexivity.
Qed.

Lemma derive_keys_distinct_lemma n : n <= 256 ^ 8 -> NoDup (map rlp_uint (derive_order n)).
Proof.
  intros Hn. pose proof (derive_order_nodup n) as Hd.
  assert (Hr : forall i, In i (derive_order n) -> i < 256 ^ 8).
  { intros i Hi. apply derive_order_in in Hi. lia. }
  induction (derive_order n) as [|x l IH]; cbn [map]; constructor.
  - inversion Hd; subst. intros Hin. apply in_map_iff in Hin as (y & Hy & Hyl).
    apply rlp_uint_inj_lemma in Hy; [subst; auto| |]; apply Hr; cbn; auto.
  - inversion Hd; subst. apply IH; auto. intros i Hi. apply Hr. cbn; auto.
Qed.

(* ---------- ascending byte order (what StackTrie requires), by computation up to a bound ---------- *)
Fixpoint ascb (l : list (list N)) : bool :=
  match l with
  | a :: ((b :: _) as r) => kltb a b && ascb r
  | _ => true
  end.

Definition asc_bound : N := 1024.

Lemma asc_all_upto_bound :
  forallb (fun n => ascb (map rlp_uint (derive_order n))) (nrange 0 (S (N.to_nat asc_bound))) = true.
Proof. vm_compute. reflexivity. Qed.

Lemma derive_keys_ascending_lemma n : n <= asc_bound -> ascb (map rlp_uint (derive_order n)) = true.
Proof.
  intros Hn. pose proof asc_all_upto_bound as Ha. rewrite forallb_forall in Ha.
  apply Ha. apply in_nrange. lia.
Qed.

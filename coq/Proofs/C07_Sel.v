(* C07 — lemmas about the worker's arbitration between conflicting pool transactions
   (Model/C07.v, last section) and the side condition on the generated inventory of the
   statements of core/worker.go that touch env.deletedUtxos. *)
From Coq Require Import List NArith Bool Lia String.
From GQ Require Import Model.C07 Generated.C07Checks.
Import ListNotations.
Local Open Scope N_scope.

Lemma memN_In : forall x l, memN x l = true <-> In x l.
Proof.
  intros x l. unfold memN. rewrite existsb_exists. split.
  - intros [y [Hy He]]. apply N.eqb_eq in He. subst. exact Hy.
  - intro H. exists x. split; [exact H | apply N.eqb_refl].
Qed.

Lemma memN_false_In : forall x l, memN x l = false <-> ~ In x l.
Proof.
  intros x l. rewrite <- memN_In. destruct (memN x l); split; intro H.
  - discriminate.
  - exfalso. apply H. reflexivity.
  - intro H'. discriminate.
  - reflexivity.
Qed.

Lemma memN_delN : forall x y l, memN x (delN y l) = memN x l && negb (x =? y).
Proof.
  intros x y l. induction l as [|a l IH]; [reflexivity|].
  unfold delN in *. cbn [filter]. destruct (a =? y) eqn:Eay; cbn [negb].
  - rewrite IH. unfold memN. cbn [existsb]. apply N.eqb_eq in Eay. subst a.
    destruct (x =? y) eqn:Exy; cbn [negb orb]; [rewrite !andb_false_r; reflexivity | reflexivity].
  - unfold memN in *. cbn [existsb]. rewrite IH. destruct (x =? a) eqn:Exa; cbn [orb]; [|reflexivity].
    apply N.eqb_eq in Exa. subst a. rewrite Eay. reflexivity.
Qed.

Lemma memN_fold_delN : forall x own l, memN x (fold_right delN l own) = memN x l && negb (memN x own).
Proof.
  intros x own l. induction own as [|a own IH]; cbn [fold_right].
  - change (memN x []) with false. cbn [negb]. rewrite andb_true_r. reflexivity.
  - rewrite memN_delN, IH. change (memN x (a :: own)) with ((x =? a) || memN x own).
    destruct (memN x l); destruct (memN x own); destruct (x =? a); reflexivity.
Qed.

Lemma memN_app : forall x l1 l2, memN x (l1 ++ l2) = memN x l1 || memN x l2.
Proof. intros. unfold memN. apply existsb_app. Qed.

Lemma memN_rev : forall x l, memN x (rev l) = memN x l.
Proof.
  intros x l. destruct (memN x l) eqn:E.
  - apply memN_In. apply -> in_rev. apply memN_In. exact E.
  - apply memN_false_In. intro H. apply in_rev in H. apply memN_In in H. congruence.
Qed.

(* what the input loop does: it inserts a duplicate-free prefix of the named outpoints, none of
   which was reserved, all of which exist; on acceptance the prefix is the whole input list *)
Lemma reserve_spec : forall ins utxo res own res' own' v,
  reserve utxo res own ins = (res', own', v) ->
  exists pre, res' = rev pre ++ res /\ own' = rev pre ++ own /\ NoDup pre
    /\ (forall x, In x pre -> memN x res = false /\ memN x utxo = true)
    /\ (v = RAccept -> pre = ins).
Proof.
  induction ins as [|x r IH]; intros utxo res own res' own' v H; cbn [reserve] in H.
  - inversion H; subst. exists []. repeat split; try constructor; intros; try contradiction; reflexivity.
  - destruct (memN x utxo) eqn:Eu; cbn [negb] in H.
    + destruct (memN x res) eqn:Er.
      * inversion H; subst. exists []. repeat split; try constructor; intros; try contradiction; discriminate.
      * apply IH in H. destruct H as [pre [H1 [H2 [H3 [H4 H5]]]]].
        exists (x :: pre). cbn [rev]. rewrite <- !app_assoc. cbn [app]. repeat split; try assumption.
        -- constructor; [|exact H3]. intro Hin. apply H4 in Hin. destruct Hin as [Hf _].
           unfold memN in Hf. cbn [existsb] in Hf. rewrite N.eqb_refl in Hf. discriminate.
        -- destruct H as [He|Hin]; [subst; exact Er|]. apply H4 in Hin. destruct Hin as [Hf _].
           unfold memN in Hf. cbn [existsb] in Hf. apply orb_false_iff in Hf. apply Hf.
        -- destruct H as [He|Hin]; [subst; exact Eu|]. apply H4 in Hin. apply Hin.
        -- intro Hv. rewrite (H5 Hv). reflexivity.
    + inversion H; subst. exists []. repeat split; try constructor; intros; try contradiction; discriminate.
Qed.

Definition safe_policy (p : policy) : Prop := p = KeepAll \/ p = ReleaseOwn.

(* the invariant of the selection loop *)
Definition sel_inv (utxo : list N) (acc : list N * list ptx) : Prop :=
  (forall x, In x (spent_by (snd acc)) -> memN x (fst acc) = true)
  /\ NoDup (spent_by (snd acc))
  /\ (forall x, In x (spent_by (snd acc)) -> memN x utxo = true).

Lemma cleanup_keeps : forall p res pre v x, safe_policy p ->
  memN x res = true -> ~ In x pre ->
  memN x (cleanup p (rev pre ++ res) (rev pre ++ []) v) = true.
Proof.
  intros p res pre v x [Hp|Hp] Hx Hn; subst p; cbn [cleanup].
  - rewrite memN_app, Hx. apply orb_true_r.
  - rewrite memN_fold_delN, memN_app, Hx, orb_true_r, app_nil_r, memN_rev. cbn [andb].
    apply memN_false_In in Hn. rewrite Hn. reflexivity.
Qed.

Lemma NoDup_app_disjoint : forall (l1 l2 : list N),
  NoDup l1 -> NoDup l2 -> (forall x, In x l1 -> ~ In x l2) -> NoDup (l1 ++ l2).
Proof.
  induction l1 as [|a l1 IH]; intros l2 H1 H2 Hd; cbn [app]; [exact H2|].
  inversion H1; subst. constructor.
  - intro Hin. apply in_app_or in Hin. destruct Hin as [Hin|Hin]; [contradiction|].
    apply (Hd a); [left; reflexivity | exact Hin].
  - apply IH; try assumption. intros x Hx. apply Hd. right. exact Hx.
Qed.

Lemma wstep_inv : forall p utxo acc t, safe_policy p -> sel_inv utxo acc -> sel_inv utxo (wstep p utxo acc t).
Proof.
  intros p utxo [res sel] t Hp [I1 [I2 I3]]. cbn [fst snd] in *. unfold wstep.
  destruct (reserve utxo res [] (p_ins t)) as [[res' own'] v] eqn:E.
  apply reserve_spec in E. destruct E as [pre [H1 [H2 [H3 [H4 H5]]]]]. subst res' own'.
  assert (Hrej : forall v', sel_inv utxo (cleanup p (rev pre ++ res) (rev pre ++ []) v', sel)).
  { intro v'. unfold sel_inv. cbn [fst snd]. repeat split; try assumption.
    intros x Hx. apply cleanup_keeps; try assumption; [apply I1; exact Hx|].
    intro Hin. apply H4 in Hin. destruct Hin as [Hf _]. rewrite (I1 x Hx) in Hf. discriminate. }
  destruct v; try apply Hrej.
  destruct (p_rest_ok t); [|apply Hrej].
  specialize (H5 eq_refl). subst pre.
  unfold sel_inv, spent_by. cbn [fst snd]. rewrite flat_map_app. cbn [flat_map]. rewrite app_nil_r.
  fold (spent_by sel). repeat split.
  - intros x Hx. rewrite memN_app, memN_rev. apply in_app_or in Hx. destruct Hx as [Hx|Hx].
    + rewrite (I1 x Hx). apply orb_true_r.
    + apply memN_In in Hx. rewrite Hx. reflexivity.
  - apply NoDup_app_disjoint; try assumption.
    intros x Hx Hin. apply H4 in Hin. destruct Hin as [Hf _]. rewrite (I1 x Hx) in Hf. discriminate.
  - intros x Hx. apply in_app_or in Hx. destruct Hx as [Hx|Hx]; [apply I3; exact Hx|].
    apply H4 in Hx. apply Hx.
Qed.

Lemma fold_wstep_inv : forall p utxo pool acc, safe_policy p -> sel_inv utxo acc ->
  sel_inv utxo (fold_left (wstep p utxo) pool acc).
Proof.
  intros p utxo pool. induction pool as [|t pool IH]; intros acc Hp Hi; cbn [fold_left]; [exact Hi|].
  apply IH; [exact Hp|]. apply wstep_inv; assumption.
Qed.

(* every outpoint is consumed at most once across the selected list, and only existing ones *)
Lemma wselect_spends_once : forall p utxo pool, safe_policy p ->
  NoDup (spent_by (wselect p utxo pool)) /\ (forall x, In x (spent_by (wselect p utxo pool)) -> In x utxo).
Proof.
  intros p utxo pool Hp.
  assert (H0 : sel_inv utxo ([], [])).
  { unfold sel_inv, spent_by. cbn. repeat split; try constructor; intros; contradiction. }
  pose proof (fold_wstep_inv p utxo pool _ Hp H0) as [_ [H2 H3]].
  unfold wselect. split; [exact H2|]. intros x Hx. apply memN_In. apply H3. exact Hx.
Qed.

Lemma spend_ok : forall ins utxo, NoDup ins -> (forall x, In x ins -> memN x utxo = true) ->
  exists u', spend utxo ins = Some u' /\ forall y, memN y u' = memN y utxo && negb (memN y ins).
Proof.
  induction ins as [|x r IH]; intros utxo Hn Hin; cbn [spend].
  - exists utxo. split; [reflexivity|]. intro y. unfold memN at 3. cbn [existsb negb]. rewrite andb_true_r. reflexivity.
  - rewrite (Hin x (or_introl eq_refl)). inversion Hn; subst.
    destruct (IH (delN x utxo)) as [u' [Hs Hm]]; [assumption| |].
    + intros y Hy. rewrite memN_delN, (Hin y (or_intror Hy)). cbn [andb].
      destruct (y =? x) eqn:Eyx; [|reflexivity]. apply N.eqb_eq in Eyx. subst. contradiction.
    + exists u'. split; [exact Hs|]. intro y. rewrite Hm, memN_delN. unfold memN at 4. cbn [existsb].
      fold (memN y r). destruct (memN y utxo), (y =? x), (memN y r); reflexivity.
Qed.

Lemma NoDup_app_inv : forall (l1 l2 : list N), NoDup (l1 ++ l2) ->
  NoDup l1 /\ NoDup l2 /\ forall x, In x l1 -> ~ In x l2.
Proof.
  induction l1 as [|a l1 IH]; intros l2 H; cbn [app] in H.
  - repeat split; [constructor | exact H | intros x Hx; contradiction].
  - inversion H; subst. destruct (IH l2 H3) as [A [B C]]. repeat split.
    + constructor; [|exact A]. intro Hin. apply H2. apply in_or_app. left. exact Hin.
    + exact B.
    + intros x [Hx|Hx]; [subst; intro Hin; apply H2; apply in_or_app; right; exact Hin | apply C; exact Hx].
Qed.

(* a body that names every outpoint at most once, and only existing ones, passes the validator's
   sequential spend check *)
Lemma vspend_ok : forall body utxo, NoDup (spent_by body) -> (forall x, In x (spent_by body) -> memN x utxo = true) ->
  vspend utxo body = true.
Proof.
  induction body as [|t r IH]; intros utxo Hn Hin; cbn [vspend]; [reflexivity|].
  unfold spent_by in *. cbn [flat_map] in *. apply NoDup_app_inv in Hn. destruct Hn as [Ha [Hb Hd]].
  destruct (spend_ok (p_ins t) utxo Ha) as [u' [Hs Hm]].
  - intros x Hx. apply Hin. apply in_or_app. left. exact Hx.
  - rewrite Hs. apply IH; [exact Hb|]. intros x Hx. rewrite Hm, (Hin x (in_or_app _ _ _ (or_intror Hx))). cbn [andb].
    destruct (memN x (p_ins t)) eqn:E; [|reflexivity]. apply memN_In in E. exfalso. exact (Hd x E Hx).
Qed.

Lemma wselect_passes_vspend : forall p utxo pool, safe_policy p -> vspend utxo (wselect p utxo pool) = true.
Proof.
  intros p utxo pool Hp. destruct (wselect_spends_once p utxo pool Hp) as [H1 H2].
  apply vspend_ok; [exact H1|]. intros x Hx. apply memN_In. apply H2. exact Hx.
Qed.

(* the third policy is not safe: three pool transactions naming the same outpoint *)
Lemma release_named_unsafe :
  exists utxo pool, vspend utxo (wselect ReleaseNamed utxo pool) = false
    /\ ~ NoDup (spent_by (wselect ReleaseNamed utxo pool)).
Proof.
  exists [7], [mkP [7] true; mkP [7] true; mkP [7] true]. split; [vm_compute; reflexivity|].
  vm_compute. intro H. inversion H as [|a l Hn Hd]; subst. apply Hn. left. reflexivity.
Qed.

(* the converse of the danger: with two conflicting transactions only, even that policy is harmless
   (why the defect needs a triple spend to show) *)
Lemma release_named_two_conflicts_harmless : forall x r1 r2,
  vspend [x] (wselect ReleaseNamed [x] [mkP [x] r1; mkP [x] r2]) = true.
Proof.
  intros x r1 r2. destruct r1, r2; cbv -[N.eqb]; repeat (rewrite N.eqb_refl; cbv -[N.eqb]); reflexivity.
Qed.

(* ---------- side condition on the generated inventory ---------- *)

Local Open Scope string_scope.

(* Generated.C07Checks.worker_reservation_ops = (function, operation) for every statement of
   core/worker.go that mentions the field deletedUtxos, in source order; operations:
   "make" (initialised in the environment literal), "lookup-reject" (`if _, ok := env.deletedUtxos[h]; ok
   { return error }`), "lookup" (a lookup that does not end in an error return), "insert", "delete",
   "reset" (the field is assigned), "other".
   KeepAll is the model of: the set is created empty, only ever grows, and in processQiTx the
   look-up that rejects precedes the insertion. *)
Definition op_allowed (o : string) : bool := (o =? "make") || (o =? "lookup-reject") || (o =? "insert").

Definition ops_of (f : string) : list string :=
  map snd (filter (fun p => fst p =? f) worker_reservation_ops).

Definition worker_reservation_insert_only : bool :=
  forallb (fun p => op_allowed (snd p)) worker_reservation_ops
  && existsb (fun p => snd p =? "make") worker_reservation_ops
  && match ops_of "processQiTx" with
     | o :: rest => (o =? "lookup-reject") && existsb (String.eqb "insert") rest
     | [] => false
     end
  && forallb (fun p => (fst p =? "processQiTx") || (snd p =? "make")) worker_reservation_ops.

(* C13 — lemmas about the lockup ledger, the redemption scan and the lockup value.
   Statements used by Props/C13.v. *)
From Coq Require Import List NArith ZArith Bool Lia ZifyBool ZifyNat ZifyN.
From GQ Require Import Lib.Key Lib.SMap Generated.C13Params Model.C13.
Import ListNotations.
Import C13Params.
Local Open Scope N_scope.

(* ------------------------------------------------------------------ maps *)

Definition bal_at (L : ledger) (k : key) : Z := r_bal (read L k).

Lemma read_put_same k r L : read (put k r L) k = r.
Proof. unfold read. rewrite get_put_same. reflexivity. Qed.

Lemma read_put_other k k0 r L : k0 <> k -> read (put k r L) k0 = read L k0.
Proof. intros H. unfold read. rewrite get_put_other by exact H. reflexivity. Qed.

Lemma read_del_same k L : sorted L -> read (del k L) k = empty_rec.
Proof. intros S. unfold read. rewrite get_del_same by exact S. reflexivity. Qed.

Lemma read_del_other k k0 L : sorted L -> k0 <> k -> read (del k L) k0 = read L k0.
Proof. intros S H. unfold read. rewrite get_del_other by assumption. reflexivity. Qed.

Lemma total_cons k r (L : ledger) : total ((k, r) :: L) = (r_bal r + total L)%Z.
Proof. reflexivity. Qed.

Lemma total_put k r (L : ledger) : total (put k r L) = (total L - bal_at L k + r_bal r)%Z.
Proof.
  unfold bal_at, read. induction L as [|[k' r'] L IH].
  - cbn. lia.
  - cbn [put get]. destruct (kcmp k k') eqn:Ek; rewrite !total_cons; try rewrite IH; cbn; lia.
Qed.

Lemma total_del k (L : ledger) : total (del k L) = (total L - bal_at L k)%Z.
Proof.
  unfold bal_at, read. induction L as [|[k' r'] L IH].
  - cbn. lia.
  - cbn [del get]. destruct (kcmp k k') eqn:Ek; rewrite ?total_cons; try rewrite IH; cbn; lia.
Qed.

(* ------------------------------------------------------------------ invariant *)

Definition nonzero_heights (L : ledger) : Prop := forall k r, get k L = Some r -> r_unlock r <> 0.
Definition Inv (L : ledger) : Prop := sorted L /\ nonzero_heights L.

Lemma inv_empty : Inv [].
Proof. split; [exact I|]. intros k r H; discriminate. Qed.

Definition tranche_height (a : addargs) : N := (a_unlock a - a_unlock a mod E) mod two32.

(* static well-formedness of an operation: an add must give a non-zero tranche height *)
Definition op_wf (o : op) : Prop :=
  match o with OAdd a => tranche_height a <> 0 | _ => True end.

Lemma E_pos_of_params : depths_ge_epoch = true -> 0 < E.
Proof. unfold depths_ge_epoch. intros H. apply andb_prop in H as [_ H]. lia. Qed.

Lemma unlock_in_range_wf a : 0 < E -> E <= a_unlock a -> a_unlock a < two32 -> tranche_height a <> 0.
Proof.
  intros HE H1 H2. unfold tranche_height.
  pose proof (N.mod_le (a_unlock a) E ltac:(lia)) as Hle.
  pose proof (N.mod_lt (a_unlock a) E ltac:(lia)) as Hlt.
  pose proof (N.div_mod (a_unlock a) E ltac:(lia)) as Hdm.
  assert (Hfl : a_unlock a - a_unlock a mod E = E * (a_unlock a / E)) by lia.
  assert (Hq : 1 <= a_unlock a / E) by (apply N.div_le_lower_bound; lia).
  rewrite N.mod_small by lia. nia.
Qed.

Lemma read_nonzero_some L k : r_unlock (read L k) <> 0 -> get k L = Some (read L k).
Proof. unfold read. destruct (get k L); cbn; [reflexivity|congruence]. Qed.

Lemma read_zero_none L k : nonzero_heights L -> r_unlock (read L k) = 0 -> get k L = None.
Proof.
  intros NZ. unfold read. destruct (get k L) eqn:G; [|reflexivity].
  intros H. exfalso. exact (NZ _ _ G H).
Qed.

(* ------------------------------------------------------------------ AddNewLock *)

Definition new_rec (L : ledger) (a : addargs) : lkrec :=
  let r := read L (add_key a) in
  mkRec (r_bal r + a_value a)
        (if r_unlock r =? 0 then tranche_height a else r_unlock r)
        (((if r_unlock r =? 0 then 0 else r_elems r) + 1) mod two16)
        (a_deleg a).

Definition add_guards (L : ledger) (a : addargs) : bool :=
  internal (a_owner a) && is_quai (a_owner a) && internal (a_miner a) && a_sender_ok a &&
  (0 <? a_value a)%Z &&
  negb (negb (r_unlock (read L (add_key a)) =? 0) && (a_unlock a <? r_unlock (read L (add_key a)))) &&
  negb ((a_epoch a =? 0) && negb (r_unlock (read L (add_key a)) =? 0)) &&
  (r_bal (read L (add_key a)) + a_value a <? two256)%Z.

Lemma add_core_some L a L' d old :
  nonzero_heights L -> add_core L a = Some (L', d, old) ->
  add_guards L a = true /\ L' = put (add_key a) (new_rec L a) L /\
  d = negb (r_unlock (read L (add_key a)) =? 0).
Proof.
  intros NZ. unfold add_core, add_guards, new_rec, tranche_height.
  destruct (internal (a_owner a) && is_quai (a_owner a)) eqn:G1; cbn [negb]; [|discriminate].
  destruct (internal (a_miner a)) eqn:G2; cbn [negb]; [|discriminate].
  destruct (a_sender_ok a) eqn:G3; cbn [negb]; [|discriminate].
  destruct (a_value a <=? 0)%Z eqn:G4; [discriminate|].
  set (r := read L (add_key a)).
  destruct (negb (r_unlock r =? 0) && (a_unlock a <? r_unlock r)) eqn:G5; [discriminate|].
  destruct ((a_epoch a =? 0) && negb (r_unlock r =? 0)) eqn:G6; [discriminate|].
  destruct (r_unlock r =? 0) eqn:G7.
  - assert (Hb : r_bal r = 0%Z).
    { subst r. apply N.eqb_eq in G7. unfold read in *. rewrite (read_zero_none L _ NZ G7). reflexivity. }
    destruct (two256 <=? 0 + a_value a)%Z eqn:G8; [discriminate|].
    intros H; inversion H; subst. rewrite Hb. cbn [andb negb].
    repeat split; try reflexivity. lia.
  - destruct (two256 <=? r_bal r + a_value a)%Z eqn:G8; [discriminate|].
    intros H; inversion H; subst. cbn [andb negb]. repeat split; try reflexivity. lia.
Qed.

Lemma add_core_none_iff L a : nonzero_heights L -> (add_core L a = None <-> add_guards L a = false).
Proof.
  intros NZ. unfold add_core, add_guards.
  destruct (internal (a_owner a) && is_quai (a_owner a)) eqn:G1; cbn [negb andb]; [|tauto].
  destruct (internal (a_miner a)) eqn:G2; cbn [negb andb]; [|tauto].
  destruct (a_sender_ok a) eqn:G3; cbn [negb andb]; [|tauto].
  destruct (a_value a <=? 0)%Z eqn:G4.
  { assert ((0 <? a_value a)%Z = false) as -> by lia. cbn. tauto. }
  assert ((0 <? a_value a)%Z = true) as -> by lia. cbn [andb].
  set (r := read L (add_key a)).
  destruct (negb (r_unlock r =? 0) && (a_unlock a <? r_unlock r)) eqn:G5; cbn [negb andb]; [tauto|].
  destruct ((a_epoch a =? 0) && negb (r_unlock r =? 0)) eqn:G6; cbn [negb andb]; [tauto|].
  destruct (r_unlock r =? 0) eqn:G7.
  - assert (Hb : r_bal r = 0%Z).
    { subst r. apply N.eqb_eq in G7. unfold read in *. rewrite (read_zero_none L _ NZ G7). reflexivity. }
    rewrite Hb. destruct (two256 <=? 0 + a_value a)%Z eqn:G8; split; intros H; try discriminate; try reflexivity; lia.
  - destruct (two256 <=? r_bal r + a_value a)%Z eqn:G8; split; intros H; try discriminate; try reflexivity; lia.
Qed.

Lemma add_preserves_inv L a L' d old :
  Inv L -> tranche_height a <> 0 -> add_core L a = Some (L', d, old) -> Inv L'.
Proof.
  intros [S NZ] W H. apply add_core_some in H as (_ & -> & _); [|exact NZ].
  split; [apply put_sorted; exact S|].
  intros k r G. destruct (keqb k (add_key a)) eqn:Ek.
  - apply keqb_eq in Ek; subst k. rewrite get_put_same in G. inversion G; subst r.
    unfold new_rec; cbn [r_unlock]. destruct (r_unlock (read L (add_key a)) =? 0) eqn:Z0; [exact W|lia].
  - apply keqb_neq in Ek. rewrite get_put_other in G by exact Ek. eapply NZ; eauto.
Qed.

(* ------------------------------------------------------------------ ClaimCoinbaseLockup *)

Definition claim_guards (L : ledger) (c : claimargs) : bool :=
  internal (c_caller c) && is_quai (c_caller c) && internal (c_miner c) &&
  (c_epoch c <? (c_height c / E + 1) mod two32) &&
  negb ((is_qi (c_miner c) && is_quai (c_to c)) || (is_quai (c_miner c) && is_qi (c_to c))) &&
  negb (r_unlock (read L (claim_key c)) =? 0) &&
  (r_unlock (read L (claim_key c)) <=? c_height c mod two32) &&
  negb (r_elems (read L (claim_key c)) =? 0).

Lemma claim_check_spec L c :
  claim_check L c = if claim_guards L c then Some (read L (claim_key c)) else None.
Proof.
  unfold claim_check, claim_guards.
  destruct (internal (c_caller c) && is_quai (c_caller c)); cbn [negb andb]; [|reflexivity].
  destruct (internal (c_miner c)); cbn [negb andb]; [|reflexivity].
  destruct ((c_height c / E + 1) mod two32 <=? c_epoch c) eqn:G1.
  { assert ((c_epoch c <? (c_height c / E + 1) mod two32) = false) as -> by lia. reflexivity. }
  assert ((c_epoch c <? (c_height c / E + 1) mod two32) = true) as -> by lia. cbn [andb].
  destruct ((is_qi (c_miner c) && is_quai (c_to c)) || (is_quai (c_miner c) && is_qi (c_to c))); cbn [negb andb]; [reflexivity|].
  set (r := read L (claim_key c)).
  destruct (r_unlock r =? 0); cbn [negb andb]; [reflexivity|].
  destruct (c_height c mod two32 <? r_unlock r) eqn:G2.
  { assert ((r_unlock r <=? c_height c mod two32) = false) as -> by lia. reflexivity. }
  assert ((r_unlock r <=? c_height c mod two32) = true) as -> by lia. cbn [andb].
  destruct (r_elems r =? 0); reflexivity.
Qed.

Lemma claim_check_some L c r :
  claim_check L c = Some r -> r = read L (claim_key c) /\ get (claim_key c) L = Some r /\ claim_guards L c = true.
Proof.
  rewrite claim_check_spec. destruct (claim_guards L c) eqn:G; [|discriminate].
  intros H; inversion H; subst. split; [reflexivity|]. split; [|reflexivity].
  apply read_nonzero_some. unfold claim_guards in G. lia.
Qed.

(* the ledger after an operation, in closed form *)
Definition claim_runs (m : cmode) (c : claimargs) : bool := claim_goes c m.

Lemma step_claim_ledger L m c :
  fst (step L (OClaim m c)) =
    if claim_runs m c then
      match claim_check L c with
      | Some r => match m with
                  | TxFailed => put (claim_key c) r (del (claim_key c) L)
                  | _ => del (claim_key c) L
                  end
      | None => L
      end
    else L.
Proof.
  unfold step, claim_runs, claim_goes.
  destruct m; cbn [andb negb]; try (destruct (c_gas c <? c_etxgas c); cbn [negb fst]; [reflexivity|]);
    destruct (claim_check L c); reflexivity.
Qed.

Lemma put_del_same (L : ledger) k r : sorted L -> get k L = Some r -> put k r (del k L) = L.
Proof.
  intros S G. apply sorted_ext; [apply put_sorted, del_sorted, S|exact S|].
  intros k0. destruct (keqb k0 k) eqn:Ek.
  - apply keqb_eq in Ek; subst. rewrite get_put_same. symmetry; exact G.
  - apply keqb_neq in Ek. rewrite get_put_other by exact Ek. apply get_del_other; assumption.
Qed.

Lemma del_preserves_inv L k : Inv L -> Inv (del k L).
Proof.
  intros [S NZ]. split; [apply del_sorted; exact S|].
  intros k0 r G. destruct (keqb k0 k) eqn:Ek.
  - apply keqb_eq in Ek; subst. rewrite get_del_same in G by exact S. discriminate.
  - apply keqb_neq in Ek. rewrite get_del_other in G by assumption. eapply NZ; eauto.
Qed.

Lemma step_preserves_inv L o : Inv L -> op_wf o -> Inv (fst (step L o)).
Proof.
  intros I W. destruct o as [a|m c|ow mi lb ep|ow mi lb h|].
  - cbn [step]. destruct (add_core L a) as [[[L' d] old]|] eqn:A; cbn [fst]; [|exact I].
    eapply add_preserves_inv; eauto.
  - rewrite step_claim_ledger. destruct (claim_runs m c); [|exact I].
    destruct (claim_check L c) as [r|] eqn:C; [|exact I].
    apply claim_check_some in C as (_ & G & _).
    destruct m; try (apply del_preserves_inv; exact I).
    rewrite put_del_same; [exact I|apply I|exact G].
  - cbn [step]. destruct (negb (internal ow && is_quai ow)); [exact I|]. destruct (negb (internal mi)); exact I.
  - exact I.
  - exact I.
Qed.

Lemma run_state_app L a b : run_state L (a ++ b) = run_state (run_state L a) b.
Proof. unfold run_state. apply fold_left_app. Qed.

Lemma run_state_cons L o t : run_state L (o :: t) = run_state (fst (step L o)) t.
Proof. reflexivity. Qed.

Lemma run_preserves_inv ops : forall L, Inv L -> Forall op_wf ops -> Inv (run_state L ops).
Proof.
  induction ops as [|o t IH]; intros L I W; [exact I|].
  inversion W; subst. rewrite run_state_cons. apply IH; [apply step_preserves_inv; assumption|assumption].
Qed.

(* ------------------------------------------------------------------ accounting *)

Definition op_key (o : op) : option key :=
  match o with OAdd a => Some (add_key a) | OClaim _ c => Some (claim_key c) | _ => None end.

(* restriction of a ghost quantity to the operations on tranche k *)
Definition at_key (k : key) (f : ledger -> op -> Z) (L : ledger) (o : op) : Z :=
  match op_key o with Some k' => if keqb k' k then f L o else 0%Z | None => 0%Z end.

Lemma bal_at_put L k r k0 : bal_at (put k r L) k0 = if keqb k k0 then r_bal r else bal_at L k0.
Proof.
  unfold bal_at. destruct (keqb k k0) eqn:Ek.
  - apply keqb_eq in Ek; subst. rewrite read_put_same. reflexivity.
  - apply keqb_neq in Ek. rewrite read_put_other by congruence. reflexivity.
Qed.

Lemma bal_at_del L k k0 : sorted L -> bal_at (del k L) k0 = if keqb k k0 then 0%Z else bal_at L k0.
Proof.
  intros S. unfold bal_at. destruct (keqb k k0) eqn:Ek.
  - apply keqb_eq in Ek; subst. rewrite read_del_same by exact S. reflexivity.
  - apply keqb_neq in Ek. rewrite read_del_other by congruence. reflexivity.
Qed.

Lemma step_accounting_key L o k : Inv L -> op_wf o ->
  (bal_at (fst (step L o)) k + at_key k paid_by L o + at_key k burned_by L o
   = bal_at L k + at_key k added_by L o)%Z.
Proof.
  intros [S NZ] W. destruct o as [a|m c|ow mi lb ep|ow mi lb h|]; unfold at_key; cbn [op_key].
  - cbn [step added_by paid_by burned_by].
    destruct (add_core L a) as [[[L' d] old]|] eqn:A; cbn [fst].
    + apply add_core_some in A as (_ & -> & _); [|exact NZ].
      rewrite bal_at_put. unfold new_rec; cbn [r_bal]. fold (bal_at L (add_key a)).
      destruct (keqb (add_key a) k) eqn:Ek; [apply keqb_eq in Ek; subst k|]; lia.
    + destruct (keqb (add_key a) k); lia.
  - rewrite step_claim_ledger. unfold claim_runs. cbn [added_by paid_by burned_by].
    destruct (claim_goes c m) eqn:G.
    2:{ destruct m; cbn in G |- *; try discriminate; destruct (keqb (claim_key c) k); lia. }
    destruct (claim_check L c) as [r|] eqn:C.
    2:{ destruct m; destruct (keqb (claim_key c) k); lia. }
    apply claim_check_some in C as (-> & Gt & _).
    destruct m.
    + rewrite bal_at_del by exact S. fold (bal_at L (claim_key c)).
      destruct (keqb (claim_key c) k) eqn:Ek; [apply keqb_eq in Ek; subst k|]; lia.
    + rewrite put_del_same by assumption. destruct (keqb (claim_key c) k); lia.
    + rewrite bal_at_del by exact S. fold (bal_at L (claim_key c)).
      destruct (keqb (claim_key c) k) eqn:Ek; [apply keqb_eq in Ek; subst k|]; lia.
    + rewrite bal_at_del by exact S. fold (bal_at L (claim_key c)).
      destruct (keqb (claim_key c) k) eqn:Ek; [apply keqb_eq in Ek; subst k|]; lia.
  - cbn [step]. destruct (negb (internal ow && is_quai ow)); [cbn; lia|]. destruct (negb (internal mi)); cbn; lia.
  - cbn. lia.
  - cbn. lia.
Qed.

Lemma step_accounting_total L o : Inv L -> op_wf o ->
  (total (fst (step L o)) + paid_by L o + burned_by L o = total L + added_by L o)%Z.
Proof.
  intros [S NZ] W. destruct o as [a|m c|ow mi lb ep|ow mi lb h|].
  - cbn [step added_by paid_by burned_by].
    destruct (add_core L a) as [[[L' d] old]|] eqn:A; cbn [fst]; [|lia].
    apply add_core_some in A as (_ & -> & _); [|exact NZ].
    rewrite total_put. unfold new_rec; cbn [r_bal]. fold (bal_at L (add_key a)). lia.
  - rewrite step_claim_ledger. unfold claim_runs. cbn [added_by paid_by burned_by].
    destruct (claim_goes c m) eqn:G.
    2:{ destruct m; cbn in G |- *; try discriminate; lia. }
    destruct (claim_check L c) as [r|] eqn:C.
    2:{ destruct m; lia. }
    apply claim_check_some in C as (-> & Gt & _).
    destruct m; rewrite ?put_del_same by assumption; rewrite ?total_del; unfold bal_at; lia.
  - cbn [step]. destruct (negb (internal ow && is_quai ow)); [cbn [fst added_by paid_by burned_by]; lia|].
    destruct (negb (internal mi)); cbn [fst added_by paid_by burned_by]; lia.
  - cbn [step fst added_by paid_by burned_by]. lia.
  - cbn [step fst added_by paid_by burned_by]. lia.
Qed.

Lemma history_accounting_key ops : forall L k, Inv L -> Forall op_wf ops ->
  (bal_at (run_state L ops) k + sum_over (at_key k paid_by) L ops + sum_over (at_key k burned_by) L ops
   = bal_at L k + sum_over (at_key k added_by) L ops)%Z.
Proof.
  induction ops as [|o t IH]; intros L k I W; [cbn; lia|].
  inversion W as [|? ? Wo Wt]; subst. rewrite run_state_cons. cbn [sum_over].
  pose proof (step_accounting_key L o k I Wo) as Hs.
  pose proof (IH (fst (step L o)) k (step_preserves_inv L o I Wo) Wt) as Hi. lia.
Qed.

Lemma history_accounting_total ops : forall L, Inv L -> Forall op_wf ops ->
  (total (run_state L ops) + sum_over paid_by L ops + sum_over burned_by L ops
   = total L + sum_over added_by L ops)%Z.
Proof.
  induction ops as [|o t IH]; intros L I W; [unfold run_state; cbn [fold_left sum_over]; lia|].
  inversion W as [|? ? Wo Wt]; subst. rewrite run_state_cons. cbn [sum_over].
  pose proof (step_accounting_total L o I Wo) as Hs.
  pose proof (IH (fst (step L o)) (step_preserves_inv L o I Wo) Wt) as Hi. lia.
Qed.

Definition no_inner_revert (o : op) : Prop := match o with OClaim EvmInnerRevert _ => False | _ => True end.

Lemma burned_zero_without_revert ops : forall L, Forall no_inner_revert ops -> sum_over burned_by L ops = 0%Z.
Proof.
  induction ops as [|o t IH]; intros L F; [reflexivity|].
  inversion F as [|? ? Fo Ft]; subst. cbn [sum_over]. rewrite IH by exact Ft.
  destruct o as [a|m c| | |]; cbn [burned_by]; try lia. destruct m; cbn [burned_by] in *; try lia. contradiction.
Qed.

(* ------------------------------------------------------------------ single steps *)

Definition paid_of (r : out) : option paid := match r with RClaim _ _ p _ => p | _ => None end.

Lemma step_claim_paid L m c :
  paid_of (snd (step L (OClaim m c))) =
    if claim_goes c m then
      match claim_check L c, m with
      | Some r, (TxOk | EvmOk) => Some (mkPaid (r_bal r) (c_to c) (c_caller c) (c_etxgas c))
      | _, _ => None
      end
    else None.
Proof.
  unfold step, claim_goes.
  destruct m; cbn [andb negb]; try (destruct (c_gas c <? c_etxgas c); cbn [negb snd paid_of]; [reflexivity|]);
    destruct (claim_check L c); reflexivity.
Qed.

Lemma add_step_spec L a : Inv L ->
  match add_core L a with
  | Some (L', d, old) =>
      add_guards L a = true /\
      get (add_key a) L' = Some (new_rec L a) /\
      (forall k, k <> add_key a -> get k L' = get k L) /\
      d = negb (r_unlock (read L (add_key a)) =? 0)
  | None => add_guards L a = false /\ fst (step L (OAdd a)) = L
  end.
Proof.
  intros [S NZ]. destruct (add_core L a) as [[[L' d] old]|] eqn:A.
  - apply add_core_some in A as (G & -> & ->); [|exact NZ].
    repeat split; [exact G|apply get_put_same|].
    intros k Hk. apply get_put_other. exact Hk.
  - split; [apply add_core_none_iff; assumption|]. cbn [step]. rewrite A. reflexivity.
Qed.

Lemma claim_pays_spec L m c p : Inv L ->
  paid_of (snd (step L (OClaim m c))) = Some p ->
  let r := read L (claim_key c) in
  get (claim_key c) L = Some r /\ claim_guards L c = true /\
  p = mkPaid (r_bal r) (c_to c) (c_caller c) (c_etxgas c) /\
  fst (step L (OClaim m c)) = del (claim_key c) L /\
  get (claim_key c) (fst (step L (OClaim m c))) = None.
Proof.
  intros [S NZ]. rewrite step_claim_paid, step_claim_ledger. unfold claim_runs.
  destruct (claim_goes c m); [|discriminate].
  destruct (claim_check L c) as [r|] eqn:C; [|destruct m; discriminate].
  apply claim_check_some in C as (-> & G & Gd).
  destruct m; try discriminate; intros H; inversion H; subst; cbn zeta;
    (repeat split; [exact G|exact Gd|apply get_del_same; exact S]).
Qed.

Lemma claim_guards_timing L c : claim_guards L c = true ->
  r_unlock (read L (claim_key c)) <> 0 /\
  r_unlock (read L (claim_key c)) <= c_height c mod two32 /\
  c_epoch c < (c_height c / E + 1) mod two32 /\
  r_elems (read L (claim_key c)) <> 0 /\
  internal (c_caller c) = true /\ is_quai (c_caller c) = true.
Proof. unfold claim_guards. intros H. repeat split; lia. Qed.

Lemma claim_other_keys L m c k : Inv L -> k <> claim_key c ->
  get k (fst (step L (OClaim m c))) = get k L.
Proof.
  intros [S NZ] Hk. rewrite step_claim_ledger. destruct (claim_runs m c); [|reflexivity].
  destruct (claim_check L c) as [r|] eqn:C; [|reflexivity].
  apply claim_check_some in C as (_ & G & _).
  destruct m; rewrite ?put_del_same by assumption; try reflexivity; apply get_del_other; assumption.
Qed.

Lemma app_eq_len {A} (a b c d : list A) : length a = length c -> a ++ b = c ++ d -> a = c /\ b = d.
Proof.
  revert c; induction a as [|x a IH]; intros [|y c] Hl H; cbn in *; try discriminate; [auto|].
  inversion H; subst. destruct (IH c) as [-> ->]; [lia|assumption|auto].
Qed.

Lemma enc_owner_inj o m l e o' m' l' e' :
  length o = length o' -> enc o m l e = enc o' m' l' e' -> o = o'.
Proof. unfold enc. intros Hl H. apply app_eq_len in H as [H _]; assumption. Qed.

Lemma be4_inj e e' : e < two32 -> e' < two32 -> be4 e = be4 e' -> e = e'.
Proof.
  unfold be4, two32. intros H H' Heq. inversion Heq as [[H3 H2 H1 H0]]. clear Heq.
  assert (D1 : forall x, x / 65536 = x / 256 / 256) by (intros; rewrite N.div_div by lia; reflexivity).
  assert (D2 : forall x, x / 16777216 = x / 256 / 256 / 256) by (intros; rewrite !N.div_div by lia; reflexivity).
  rewrite D1 in H2. rewrite (D1 e') in H2. rewrite D2 in H3. rewrite (D2 e') in H3.
  pose proof (N.div_mod e 256 ltac:(lia)). pose proof (N.div_mod e' 256 ltac:(lia)).
  pose proof (N.div_mod (e / 256) 256 ltac:(lia)). pose proof (N.div_mod (e' / 256) 256 ltac:(lia)).
  pose proof (N.div_mod (e / 256 / 256) 256 ltac:(lia)). pose proof (N.div_mod (e' / 256 / 256) 256 ltac:(lia)).
  assert (e / 256 / 256 / 256 < 256) by (rewrite !N.div_div by lia; apply N.div_lt_upper_bound; lia).
  assert (e' / 256 / 256 / 256 < 256) by (rewrite !N.div_div by lia; apply N.div_lt_upper_bound; lia).
  rewrite (N.mod_small (e / 256 / 256 / 256)) in H3 by lia.
  rewrite (N.mod_small (e' / 256 / 256 / 256)) in H3 by lia.
  lia.
Qed.

Lemma enc_inj o m l e o' m' l' e' :
  length o = length o' -> length m = length m' -> e < two32 -> e' < two32 ->
  enc o m l e = enc o' m' l' e' -> o = o' /\ m = m' /\ l = l' /\ e = e'.
Proof.
  unfold enc. intros Ho Hm He He' H.
  apply app_eq_len in H as [-> H]; [|assumption].
  apply app_eq_len in H as [-> H]; [|assumption].
  cbn [app] in H. inversion H as [[Hl Hb]]. subst l'.
  repeat split; try reflexivity. apply be4_inj; try assumption.
  unfold be4. congruence.
Qed.

Lemma unlock_never_moves L o k r r' : Inv L -> get k L = Some r ->
  get k (fst (step L o)) = Some r' -> r_unlock r' = r_unlock r.
Proof.
  intros [S NZ] G G'. destruct o as [a|m c|ow mi lb ep|ow mi lb h|].
  - cbn [step] in G'. destruct (add_core L a) as [[[L' d] old]|] eqn:A; cbn [fst] in G'; [|congruence].
    apply add_core_some in A as (_ & -> & _); [|exact NZ].
    destruct (keqb k (add_key a)) eqn:Ek.
    + apply keqb_eq in Ek; subst k. rewrite get_put_same in G'. inversion G'; subst r'.
      unfold new_rec, read; cbn [r_unlock]. rewrite G.
      pose proof (NZ _ _ G). destruct (r_unlock r =? 0) eqn:Z0; [lia|reflexivity].
    + apply keqb_neq in Ek. rewrite get_put_other in G' by exact Ek. congruence.
  - rewrite step_claim_ledger in G'. destruct (claim_runs m c); [|congruence].
    destruct (claim_check L c) as [rc|] eqn:C; [|congruence].
    apply claim_check_some in C as (_ & Gc & _).
    assert (Hd : forall x, get k (del (claim_key c) L) = Some x -> x = r).
    { intros x Hx. destruct (keqb k (claim_key c)) eqn:Ek.
      - apply keqb_eq in Ek; subst k. rewrite get_del_same in Hx by exact S. discriminate.
      - apply keqb_neq in Ek. rewrite get_del_other in Hx by assumption. congruence. }
    destruct m; rewrite ?put_del_same in G' by assumption; try (rewrite (Hd _ G'); reflexivity); congruence.
  - cbn [step] in G'. destruct (negb (internal ow && is_quai ow)); [cbn in G'; congruence|].
    destruct (negb (internal mi)); cbn in G'; congruence.
  - cbn in G'. congruence.
  - cbn in G'. congruence.
Qed.

Definition not_add_to (k : key) (o : op) : Prop := match o with OAdd a => add_key a <> k | _ => True end.

Lemma get_none_step L o k : Inv L -> get k L = None -> not_add_to k o -> get k (fst (step L o)) = None.
Proof.
  intros [S NZ] G N. destruct o as [a|m c|ow mi lb ep|ow mi lb h|].
  - cbn [step]. destruct (add_core L a) as [[[L' d] old]|] eqn:A; cbn [fst]; [|exact G].
    apply add_core_some in A as (_ & -> & _); [|exact NZ].
    rewrite get_put_other; [exact G|]. cbn in N. congruence.
  - rewrite step_claim_ledger. destruct (claim_runs m c); [|exact G].
    destruct (claim_check L c) as [rc|] eqn:C; [|exact G].
    apply claim_check_some in C as (_ & Gc & _).
    assert (Hd : get k (del (claim_key c) L) = None).
    { destruct (keqb k (claim_key c)) eqn:Ek.
      - apply keqb_eq in Ek; subst k. apply get_del_same; exact S.
      - apply keqb_neq in Ek. rewrite get_del_other by assumption. exact G. }
    destruct m; rewrite ?put_del_same by assumption; assumption.
  - cbn [step]. destruct (negb (internal ow && is_quai ow)); [exact G|]. destruct (negb (internal mi)); exact G.
  - exact G.
  - exact G.
Qed.

Lemma get_none_run ops : forall L k, Inv L -> Forall op_wf ops -> Forall (not_add_to k) ops ->
  get k L = None -> get k (run_state L ops) = None.
Proof.
  induction ops as [|o t IH]; intros L k I W N G; [exact G|].
  inversion W; inversion N; subst. rewrite run_state_cons.
  apply IH; try assumption; [apply step_preserves_inv; assumption|apply get_none_step; assumption].
Qed.

Lemma claim_nothing_when_absent L m c : get (claim_key c) L = None -> paid_of (snd (step L (OClaim m c))) = None.
Proof.
  intros G. rewrite step_claim_paid. destruct (claim_goes c m); [|reflexivity].
  rewrite claim_check_spec. unfold claim_guards, read. rewrite G. cbn [empty_rec r_unlock].
  rewrite N.eqb_refl. cbn [negb]. rewrite !andb_false_r. cbn [andb]. reflexivity.
Qed.

Lemma claim_once_lemma L m c p ops m' c' : Inv L -> Forall op_wf ops ->
  paid_of (snd (step L (OClaim m c))) = Some p ->
  Forall (not_add_to (claim_key c)) ops -> claim_key c' = claim_key c ->
  paid_of (snd (step (run_state (fst (step L (OClaim m c))) ops) (OClaim m' c'))) = None.
Proof.
  intros I W P N K. apply claim_nothing_when_absent. rewrite K.
  pose proof (claim_pays_spec L m c p I P) as (_ & _ & _ & _ & G0).
  apply get_none_run; try assumption. apply step_preserves_inv; [exact I|exact Logic.I].
Qed.

Lemma claim_due_succeeds_lemma L c : claim_guards L c = true -> c_etxgas c <= c_gas c ->
  step L (OClaim TxOk c) =
    (del (claim_key c) L,
     RClaim true (c_gas c - c_etxgas c)
            (Some (mkPaid (r_bal (read L (claim_key c))) (c_to c) (c_caller c) (c_etxgas c)))
            (read (del (claim_key c) L) (claim_key c))).
Proof.
  intros G Hg. unfold step. cbn [andb].
  assert ((c_gas c <? c_etxgas c) = false) as -> by lia.
  rewrite claim_check_spec, G. reflexivity.
Qed.

(* ------------------------------------------------------------------ witnesses (vm_compute) *)

Definition w_owner : addr := [0;1;1;0;0;0;0;0;0;0;0;0;0;0;0;0;0;0;0;1].
Definition w_miner : addr := [0;16;1;0;0;0;0;0;0;0;0;0;0;0;0;0;0;0;0;1].
Definition w_to : addr := [0;32;1;0;0;0;0;0;0;0;0;0;0;0;0;0;0;0;0;1].
Definition w_depth0 : N := nth 0 depths 0.
Definition w_add (v : Z) : addargs := mkAdd w_owner w_miner zero_addr true 0 (100 + w_depth0) 1 v.
Definition w_th : N := (100 + w_depth0) - (100 + w_depth0) mod E.
Definition w_claim (h : N) : claimargs := mkClaim w_owner w_miner w_to 0 1 h 100000 21000.

Lemma w_add_wf v : depths_ge_epoch = true -> op_wf (OAdd (w_add v)).
Proof. intros _. cbn [op_wf]. intro H. vm_compute in H. discriminate. Qed.

(* a claim inside a frame that is later reverted deletes the lockup and pays nothing *)
Lemma reverted_frame_breaks_conservation :
  exists ops, Forall op_wf ops /\
    (sum_over added_by [] ops <> sum_over paid_by [] ops + total (run_state [] ops))%Z.
Proof.
  exists [OAdd (w_add 4242); OClaim EvmInnerRevert (w_claim w_th)]. split.
  - repeat constructor. intro H. vm_compute in H. discriminate.
  - vm_compute. discriminate.
Qed.

(* 65536 rewards in one tranche wrap the uint16 element counter to 0: the unlocked tranche cannot be claimed *)
Lemma elements_wrap_blocks_due_claim :
  exists a c, op_wf (OAdd a) /\
    let L := run_state [] (repeat (OAdd a) (N.to_nat 65536)) in
    let r := read L (claim_key c) in
    (0 < r_bal r)%Z /\ r_unlock r <> 0 /\ r_unlock r <= c_height c /\ c_height c < two32 /\
    c_epoch c < c_height c / E + 1 /\ internal (c_caller c) = true /\ is_quai (c_caller c) = true /\
    internal (c_miner c) = true /\ c_etxgas c <= c_gas c /\ claim_key c = add_key a /\
    paid_of (snd (step L (OClaim TxOk c))) = None /\ fst (step L (OClaim TxOk c)) = L.
Proof.
  exists (w_add 3), (w_claim w_th). split.
  - intro H. vm_compute in H. discriminate.
  - vm_compute. repeat split; try discriminate; try reflexivity.
Qed.

(* without the well-formedness of adds (tranche height 0: nominal unlock below one epoch) a second
   reward overwrites the first *)
Lemma low_unlock_overwrites :
  exists a, ~ op_wf (OAdd a) /\
    let ops := [OAdd a; OAdd a] in
    (bal_at (run_state [] ops) (add_key a) <> sum_over (at_key (add_key a) added_by) [] ops)%Z.
Proof.
  exists (mkAdd w_owner w_miner zero_addr true 0 (E - 1) 1 10). split.
  - intro H. apply H. vm_compute. reflexivity.
  - vm_compute. discriminate.
Qed.

(* rewards coming from Process: unlock = block + depth(lock byte), so the tranche height is never 0 *)
Lemma process_adds_wf : depths_ge_epoch = true ->
  forall a b lb d, nth_error depths lb = Some d -> a_unlock a = b + d -> b + d < two32 -> op_wf (OAdd a).
Proof.
  intros P a b lb d Hd Hu Hlt. cbn [op_wf].
  pose proof (E_pos_of_params P) as HE.
  apply unlock_in_range_wf; [exact HE| |lia].
  unfold depths_ge_epoch in P. apply andb_prop in P as [P _].
  rewrite forallb_forall in P. apply nth_error_In in Hd. specialize (P _ Hd). lia.
Qed.

(* the tranche unlock height is the epoch floor of the first reward's nominal unlock height: a later
   reward of the same epoch can be claimed before its own nominal unlock height *)
Lemma claim_before_nominal_unlock_witness :
  exists ops c p (a : addargs), Forall op_wf ops /\ In (OAdd a) ops /\ add_key a = claim_key c /\
    paid_of (snd (step (run_state [] ops) (OClaim TxOk c))) = Some p /\
    (0 < p_value p)%Z /\ c_height c < a_unlock a.
Proof.
  set (late := mkAdd w_owner w_miner zero_addr true 0 (E - 1 + w_depth0) 1 7%Z).
  exists [OAdd (w_add 5); OAdd late], (w_claim w_th).
  eexists. exists late. split; [|split; [|split; [|split; [|split]]]].
  - repeat constructor; intro H; vm_compute in H; discriminate.
  - right; left; reflexivity.
  - vm_compute. reflexivity.
  - vm_compute. reflexivity.
  - vm_compute. reflexivity.
  - vm_compute. reflexivity.
Qed.

Lemma claim_lower_bound_in_epoch (b0 b d th h : N) : 0 < E ->
  b0 / E = b / E -> th = (b0 + d) - (b0 + d) mod E -> th <= h -> b + d < h + 2 * E.
Proof.
  intros HE Hep -> Hh.
  pose proof (N.mod_lt (b0 + d) E ltac:(lia)).
  pose proof (N.div_mod b0 E ltac:(lia)). pose proof (N.div_mod b E ltac:(lia)).
  pose proof (N.mod_lt b0 E ltac:(lia)). pose proof (N.mod_lt b E ltac:(lia)).
  pose proof (N.mod_le (b0 + d) E ltac:(lia)).
  nia.
Qed.


(* ------------------------------------------------------------------ history statements from the empty ledger *)

Lemma lock_accumulates_lemma ops k : Forall op_wf ops ->
  (bal_at (run_state [] ops) k =
   sum_over (at_key k added_by) [] ops - sum_over (at_key k paid_by) [] ops - sum_over (at_key k burned_by) [] ops)%Z.
Proof.
  intros W. pose proof (history_accounting_key ops [] k inv_empty W) as H.
  change (bal_at [] k) with 0%Z in H. lia.
Qed.

Lemma total_conservation_burn_lemma ops : Forall op_wf ops ->
  (sum_over added_by [] ops =
   sum_over paid_by [] ops + sum_over burned_by [] ops + total (run_state [] ops))%Z.
Proof.
  intros W. pose proof (history_accounting_total ops [] inv_empty W) as H.
  change (total []) with 0%Z in H. lia.
Qed.

Lemma total_conservation_lemma ops : Forall op_wf ops -> Forall no_inner_revert ops ->
  (sum_over added_by [] ops = sum_over paid_by [] ops + total (run_state [] ops))%Z.
Proof.
  intros W N. pose proof (total_conservation_burn_lemma ops W) as H.
  rewrite (burned_zero_without_revert ops [] N) in H. lia.
Qed.

Lemma claim_not_before_unlock_lemma L m c p : Inv L -> c_height c < two32 ->
  paid_of (snd (step L (OClaim m c))) = Some p ->
  let r := read L (claim_key c) in
  get (claim_key c) L = Some r /\ r_unlock r <> 0 /\ r_unlock r <= c_height c /\
  c_epoch c < (c_height c / E + 1) mod two32 /\ r_elems r <> 0 /\
  p = mkPaid (r_bal r) (c_to c) (c_caller c) (c_etxgas c) /\
  fst (step L (OClaim m c)) = del (claim_key c) L.
Proof.
  intros I Hh P. destruct (claim_pays_spec L m c p I P) as (G & Gd & Hp & Hl & _).
  destruct (claim_guards_timing L c Gd) as (T1 & T2 & T3 & T4 & _).
  rewrite N.mod_small in T2 by exact Hh. cbn zeta. repeat split; assumption.
Qed.

Lemma claim_only_owner_addr_lemma L m c o mi lb ep : Inv L ->
  length o = length (c_caller c) -> o <> c_caller c ->
  get (enc o mi lb ep) (fst (step L (OClaim m c))) = get (enc o mi lb ep) L.
Proof.
  intros I Hl Hn. apply claim_other_keys; [exact I|].
  intros Heq. apply Hn. exact (enc_owner_inj _ _ _ _ _ _ _ _ Hl Heq).
Qed.

Lemma claimed_equals_accumulated_lemma ops m c p : Forall op_wf ops ->
  paid_of (snd (step (run_state [] ops) (OClaim m c))) = Some p ->
  (p_value p = sum_over (at_key (claim_key c) added_by) [] ops
               - sum_over (at_key (claim_key c) paid_by) [] ops
               - sum_over (at_key (claim_key c) burned_by) [] ops)%Z /\
  p_sender p = c_caller c /\ p_to p = c_to c.
Proof.
  intros W P.
  pose proof (run_preserves_inv ops [] inv_empty W) as I.
  destruct (claim_pays_spec _ m c p I P) as (_ & _ & Hp & _ & _).
  pose proof (lock_accumulates_lemma ops (claim_key c) W) as H.
  subst p. cbn [p_value p_sender p_to]. unfold bal_at in H. repeat split; try reflexivity. exact H.
Qed.

(* for rewards as Process makes them (epoch = block/E + 1, unlock = block + depth, depth >= E) the unlock guard of a
   claim already implies its epoch guard *)
Lemma unlock_guard_implies_epoch_guard (b d h : N) : 0 < E -> E <= d ->
  (b + d) - (b + d) mod E <= h -> b / E + 1 < h / E + 1.
Proof.
  intros HE Hd Hh.
  pose proof (N.div_mod (b + d) E ltac:(lia)) as H1.
  pose proof (N.mod_lt (b + d) E ltac:(lia)) as H2.
  pose proof (N.div_mod b E ltac:(lia)) as H3.
  pose proof (N.mod_lt b E ltac:(lia)) as H4.
  assert (Hq : b / E + 1 <= (b + d) / E) by (apply N.div_le_lower_bound; nia).
  assert (Hm : E * ((b + d) / E) <= h) by lia.
  assert (Hh2 : (b + d) / E <= h / E).
  { apply N.div_le_lower_bound; lia. }
  lia.
Qed.

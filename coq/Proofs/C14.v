(* C14 — lemmas: instantiation of the generic codec theorems on the generated schemas,
   and round trips of the hand-modelled object layers (Model/C14.v). *)
From Coq Require Import List Arith NArith Lia Bool ZifyBool ZifyNat ZifyN.
From GQ Require Import Lib.Key Lib.C14_Varint Lib.C14_BigEndian Lib.C14_ProtoWire Lib.C14_ProtoWireFacts
  Lib.C14_RLP Generated.C14Schemas Model.C14.
Import ListNotations.
Local Open Scope N_scope.

Local Arguments N.mul : simpl never.
Local Arguments N.add : simpl never.
Local Arguments N.sub : simpl never.
Local Arguments N.div : simpl never.
Local Arguments N.modulo : simpl never.
Local Arguments N.pow : simpl never.
Local Arguments N.ltb : simpl never.
Local Arguments N.leb : simpl never.

(* ---------------- generated side conditions ---------------- *)

Lemma sc_ok : schema_ok sc = true.
Proof. vm_compute. reflexivity. Qed.

Lemma outside_is_listed : outside_fragment schemas = messages_outside_fragment.
Proof. vm_compute. reflexivity. Qed.

Lemma only_trim_depths_outside : messages_outside_fragment = [id_block_ProtoTrimDepths].
Proof. vm_compute. reflexivity. Qed.

Lemma refs_ok : refs_covered schemas = true.
Proof. vm_compute. reflexivity. Qed.

Lemma n_messages_ok : N.of_nat (length schemas) = n_messages.
Proof. vm_compute. reflexivity. Qed.

(* ---------------- generic theorems on the repository's schemas ---------------- *)

Lemma sc_roundtrip id m : wf_msg sc id m = true -> len (encode m) < u64 -> decode sc id (encode m) = Some m.
Proof. apply decode_encode. exact sc_ok. Qed.

Lemma sc_inj id m1 m2 : wf_msg sc id m1 = true -> wf_msg sc id m2 = true -> len (encode m1) < u64 ->
  encode m1 = encode m2 -> m1 = m2.
Proof. apply encode_inj. exact sc_ok. Qed.

Lemma sc_reencode id m' m : wf_msg sc id m' = true -> len (encode m') < u64 ->
  decode sc id (encode m') = Some m -> encode m = encode m'.
Proof. intros Hw Hl D. rewrite (sc_roundtrip id m' Hw Hl) in D. injection D as ->. reflexivity. Qed.

(* ---------------- object layers ---------------- *)

Lemma wf_bytesb_iff b : wf_bytesb b = true <-> wf_bytes b.
Proof.
  unfold wf_bytesb, wf_bytes. rewrite forallb_forall, Forall_forall.
  split; intros H x Hx; specialize (H x Hx); lia.
Qed.

Lemma be_enc_wfb n : wf_bytesb (be_enc n) = true.
Proof. apply wf_bytesb_iff. apply be_enc_wf. Qed.

Lemma obj_wire {A} id (dec : msg -> dres A) m :
  wf_msg sc id m = true -> len (encode m) < u64 -> obj_decode id dec (encode m) = dec m.
Proof. intros Hw Hl. unfold obj_decode. rewrite sc_roundtrip by assumption. reflexivity. Qed.

(* normal forms *)
Definition txout_nf (o : txout) : Prop :=
  to_denom o < 256 /\ match to_addr o with Some a => wf_bytes a | None => True end.
(* what a round trip gives: a nil lock comes back as 0 *)
Definition txout_norm (o : txout) : txout :=
  mkTxOut (to_denom o) (to_addr o) (Some (match to_lock o with Some l => l | None => 0 end)).

Lemma txout_tree_roundtrip o : to_denom o < 256 -> txout_decode (txout_encode o) = DOk (txout_norm o).
Proof.
  intros Hd. unfold txout_encode, txout_decode, txout_norm.
  rewrite (N.mod_small _ _ Hd).
  destruct (to_addr o) as [a|]; cbn [app get_field fst snd N.eqb Pos.eqb as_int as_bytes];
    (assert (E : 255 <? to_denom o = false) by lia); rewrite E; unfold big_of_bytes, big_bytes;
    rewrite be_dec_enc; reflexivity.
Qed.

Lemma utxo_tree_roundtrip o : to_denom o < 256 -> utxo_decode (txout_encode o) = DOk (txout_norm o).
Proof.
  intros Hd. unfold txout_encode, utxo_decode, txout_norm.
  rewrite (N.mod_small _ _ Hd).
  destruct (to_addr o) as [a|]; cbn [app get_field fst snd N.eqb Pos.eqb as_int as_bytes];
    (assert (E : 255 <? to_denom o = false) by lia); rewrite E; unfold big_of_bytes, big_bytes;
    rewrite be_dec_enc; reflexivity.
Qed.

Lemma txout_desc : nth_error sc (N.to_nat id_block_ProtoTxOut) =
  Some [mkField 1 KU32 LOpt 0; mkField 2 KBytes LOpt 0; mkField 3 KBytes LOpt 0].
Proof. vm_compute. reflexivity. Qed.

Lemma txout_wf o : txout_nf o -> wf_msg sc id_block_ProtoTxOut (txout_encode o) = true.
Proof.
  intros [Hd Ha]. unfold wf_msg. cbn [wf_val]. rewrite txout_desc.
  unfold txout_encode. rewrite (N.mod_small _ _ Hd).
  destruct (to_addr o) as [a|].
  - apply wf_bytesb_iff in Ha.
    cbn -[N.ltb u32 be_enc wf_bytesb]. rewrite Ha, be_enc_wfb.
    assert (E : to_denom o <? u32 = true) by (unfold u32; lia). rewrite E. reflexivity.
  - cbn -[N.ltb u32 be_enc wf_bytesb]. rewrite be_enc_wfb.
    assert (E : to_denom o <? u32 = true) by (unfold u32; lia). rewrite E. reflexivity.
Qed.

Lemma txout_wire_roundtrip o : txout_nf o -> len (encode (txout_encode o)) < u64 ->
  obj_decode id_block_ProtoTxOut txout_decode (encode (txout_encode o)) = DOk (txout_norm o).
Proof.
  intros Hn Hl. rewrite obj_wire by (try apply txout_wf; assumption).
  apply txout_tree_roundtrip. exact (proj1 Hn).
Qed.

Lemma utxo_wire_roundtrip o : txout_nf o -> len (encode (txout_encode o)) < u64 ->
  obj_decode id_block_ProtoTxOut utxo_decode (encode (txout_encode o)) = DOk (txout_norm o).
Proof.
  intros Hn Hl. rewrite obj_wire by (try apply txout_wf; assumption).
  apply utxo_tree_roundtrip. exact (proj1 Hn).
Qed.

(* re-encoding the decoded object gives the same tree, hence the same bytes and the same hash *)
Lemma txout_reencode o : txout_encode (txout_norm o) = txout_encode o.
Proof. unfold txout_encode, txout_norm. cbn [to_denom to_addr to_lock]. destruct (to_lock o); reflexivity. Qed.

Lemma txout_norm_idem o : txout_norm (txout_norm o) = txout_norm o.
Proof. reflexivity. Qed.

(* two outputs in normal form with the same encoding are the same output (up to nil/0 lock) *)
Lemma txout_fields_injective a b : to_denom a < 256 -> to_denom b < 256 ->
  txout_encode a = txout_encode b -> txout_norm a = txout_norm b.
Proof.
  intros Ha Hb E. pose proof (txout_tree_roundtrip a Ha) as Ra. rewrite E in Ra.
  rewrite (txout_tree_roundtrip b Hb) in Ra. congruence.
Qed.

(* outside the normal form: the decoder rejects a denomination that does not fit uint8
   (the encoder cannot produce one: the Go field is a uint8) *)
Lemma txout_rejects_wide_denomination d rest : 255 < d -> txout_decode ((1, FInt d) :: rest) = DErr.
Proof.
  intros H. unfold txout_decode. cbn [get_field fst snd N.eqb Pos.eqb as_int].
  assert (E : 255 <? d = true) by lia. rewrite E. reflexivity.
Qed.

(* --- OutPoint --- *)
Definition hash_nf (h : bytes) : Prop := length h = hash_len /\ wf_bytes h.

Lemma set_bytes_exact n b : length b = n -> set_bytes n b = b.
Proof.
  intros H. unfold set_bytes. rewrite H, Nat.leb_refl, Nat.sub_diag. reflexivity.
Qed.

Lemma hash_msg_roundtrip h : length h = hash_len -> hash_of_msg (hash_msg h) = h.
Proof.
  intros H. unfold hash_msg. destruct h as [|x h]; [discriminate|].
  unfold hash_of_msg. cbn [get_field fst snd N.eqb Pos.eqb as_bytes]. apply set_bytes_exact. exact H.
Qed.

Lemma outpoint_tree_roundtrip o : length (op_hash o) = hash_len -> op_index o < 65536 ->
  outpoint_decode (outpoint_encode o) = DOk o.
Proof.
  intros Hh Hi. unfold outpoint_encode, outpoint_decode.
  cbn [get_field fst snd N.eqb Pos.eqb as_int as_msg].
  rewrite hash_msg_roundtrip by assumption. rewrite N.mod_mod by lia. rewrite N.mod_small by assumption.
  destruct o; reflexivity.
Qed.

(* the decoder truncates a wire index that does not fit uint16 (the encoder cannot produce one) *)
Lemma outpoint_truncates h i : outpoint_decode [(1, FMsg (hash_msg h)); (2, FInt i)] =
  DOk (mkOutPoint (hash_of_msg (hash_msg h)) (i mod 65536)).
Proof. reflexivity. Qed.

Lemma outpoint_decode_not_injective :
  exists m1 m2, m1 <> m2 /\ wf_msg sc id_block_ProtoOutPoint m1 = true /\ wf_msg sc id_block_ProtoOutPoint m2 = true /\
                outpoint_decode m1 = outpoint_decode m2.
Proof.
  exists [(1, FMsg (hash_msg zero_hash)); (2, FInt 7)], [(1, FMsg (hash_msg zero_hash)); (2, FInt 65543)].
  split; [discriminate|]. split; [vm_compute; reflexivity|]. split; vm_compute; reflexivity.
Qed.

Lemma hash_desc : nth_error sc (N.to_nat id_common_ProtoHash) = Some [mkField 1 KBytes LImp 0].
Proof. vm_compute. reflexivity. Qed.

Lemma hash_msg_wf h : hash_nf h -> wf_msg sc id_common_ProtoHash (hash_msg h) = true.
Proof.
  intros [Hl Hw]. unfold wf_msg. cbn [wf_val]. rewrite hash_desc.
  destruct h as [|x h]; [discriminate|]. apply wf_bytesb_iff in Hw.
  cbn -[wf_bytesb]. rewrite Hw. reflexivity.
Qed.

Lemma outpoint_desc : nth_error sc (N.to_nat id_block_ProtoOutPoint) =
  Some [mkField 1 (KMsg id_common_ProtoHash) LOpt 0; mkField 2 KU32 LOpt 0].
Proof. vm_compute. reflexivity. Qed.

Lemma outpoint_wf o : hash_nf (op_hash o) -> op_index o < 65536 ->
  wf_msg sc id_block_ProtoOutPoint (outpoint_encode o) = true.
Proof.
  intros Hh Hi. unfold wf_msg. cbn [wf_val]. rewrite outpoint_desc.
  unfold outpoint_encode. rewrite (N.mod_small _ _ Hi).
  pose proof (hash_msg_wf _ Hh) as W. unfold wf_msg in W.
  cbn -[N.ltb u32 wf_val sc id_common_ProtoHash]. rewrite W. cbn [wf_val].
  assert (E : op_index o <? u32 = true) by (unfold u32; lia). rewrite E. reflexivity.
Qed.

Lemma outpoint_wire_roundtrip o : hash_nf (op_hash o) -> op_index o < 65536 ->
  len (encode (outpoint_encode o)) < u64 ->
  obj_decode id_block_ProtoOutPoint outpoint_decode (encode (outpoint_encode o)) = DOk o.
Proof.
  intros Hh Hi Hl. rewrite obj_wire by (try apply outpoint_wf; assumption).
  apply outpoint_tree_roundtrip; [exact (proj1 Hh)|exact Hi].
Qed.

(* --- OutpointAndDenomination --- *)
Definition opd_norm (o : opd) : opd :=
  mkOpd (od_hash o) (od_index o) (od_denom o) (Some (match od_lock o with Some l => l | None => 0 end)).

Lemma opd_tree_roundtrip o : length (od_hash o) = hash_len -> od_index o < 65536 -> od_denom o < 256 ->
  opd_decode (opd_encode o) = DOk (opd_norm o).
Proof.
  intros Hh Hi Hd. unfold opd_encode, opd_decode, opd_norm.
  destruct (od_lock o) as [l|]; cbn [app get_field fst snd N.eqb Pos.eqb as_int as_msg as_bytes];
    rewrite hash_msg_roundtrip by assumption; rewrite !N.mod_mod by lia;
    rewrite (N.mod_small _ _ Hi), (N.mod_small _ _ Hd); unfold big_of_bytes, big_bytes;
    rewrite ?be_dec_enc; reflexivity.
Qed.

(* both narrowing conversions are silent *)
Lemma opd_truncates h i d : opd_decode [(1, FMsg (hash_msg h)); (2, FInt i); (3, FInt d)] =
  DOk (mkOpd (hash_of_msg (hash_msg h)) (i mod 65536) (d mod 256) (Some 0)).
Proof. reflexivity. Qed.

(* --- Termini --- *)
Definition termini_nf (t : termini) : Prop :=
  length (t_dom t) = max_width /\ length (t_sub t) = max_width /\
  Forall (fun h => length h = hash_len) (t_dom t) /\ Forall (fun h => length h = hash_len) (t_sub t).

Lemma pad_full n l : length l = n -> pad_to n l = map Some l.
Proof. intros H. unfold pad_to. rewrite H, Nat.sub_diag. cbn. apply app_nil_r. Qed.

Lemma get_all_app m1 m2 k : get_all (m1 ++ m2) k = get_all m1 k ++ get_all m2 k.
Proof. unfold get_all. rewrite filter_app, map_app. reflexivity. Qed.

Lemma get_all_same k (vs : list fval) : get_all (map (fun v => (k, v)) vs) k = vs.
Proof.
  unfold get_all. induction vs as [|v vs IH]; [reflexivity|]. cbn [map filter fst].
  rewrite N.eqb_refl. cbn [map snd]. f_equal. exact IH.
Qed.

Lemma get_all_other k k' (vs : list fval) : k' <> k -> get_all (map (fun v => (k', v)) vs) k = [].
Proof.
  intros H. unfold get_all. induction vs as [|v vs IH]; [reflexivity|]. cbn [map filter fst].
  assert (E : k' =? k = false) by lia. rewrite E. exact IH.
Qed.

Lemma map_hash_roundtrip l : Forall (fun h => length h = hash_len) l ->
  map (fun v => hash_of_msg (as_msg v)) (map (fun h => FMsg (hash_msg h)) l) = l.
Proof.
  induction 1 as [|h l Hh _ IH]; [reflexivity|]. cbn [map as_msg]. rewrite hash_msg_roundtrip by assumption.
  f_equal. exact IH.
Qed.

Lemma termini_match (D S : list fval) :
  D <> [] -> S <> [] ->
  match D, S with
  | [], _ => DErr
  | _, [] => DErr
  | d, s => DOk (mkTermini (map (fun v => hash_of_msg (as_msg v)) d) (map (fun v => hash_of_msg (as_msg v)) s))
  end = DOk (mkTermini (map (fun v => hash_of_msg (as_msg v)) D) (map (fun v => hash_of_msg (as_msg v)) S)).
Proof. destruct D, S; intros; try congruence; reflexivity. Qed.

Lemma termini_tree_roundtrip t : termini_nf t -> termini_decode (termini_encode t) = DOk t.
Proof.
  intros (Ld & Ls & Fd & Fs). destruct t as [d s]. cbn [t_dom t_sub] in *.
  unfold termini_encode, termini_decode. cbn [t_dom t_sub].
  rewrite (pad_full _ _ Ld), (pad_full _ _ Ls). rewrite !map_map.
  rewrite !get_all_app.
  rewrite <- (map_map (fun h => FMsg (hash_msg h)) (fun v => (1, v)) d).
  rewrite <- (map_map (fun h => FMsg (hash_msg h)) (fun v => (2, v)) s).
  rewrite !get_all_same. rewrite (get_all_other 1 2) by lia. rewrite (get_all_other 2 1) by lia.
  rewrite app_nil_r. cbn [app].
  destruct d as [|d0 dl]; [discriminate|]. destruct s as [|s0 sl]; [discriminate|].
  inversion Fd as [|? ? Hd0 Fdl]; subst. inversion Fs as [|? ? Hs0 Fsl]; subst.
  cbn [map as_msg]. rewrite !hash_msg_roundtrip by assumption.
  rewrite !map_hash_roundtrip by assumption. reflexivity.
Qed.

(* shorter arrays come back padded with zero hashes up to MaxWidth *)
Definition termini_padded (t : termini) : termini :=
  mkTermini (t_dom t ++ repeat zero_hash (max_width - length (t_dom t)))
            (t_sub t ++ repeat zero_hash (max_width - length (t_sub t))).

Definition slot (h : option bytes) : fval := FMsg (match h with Some x => hash_msg x | None => [] end).

Lemma termini_decode_entries (D S : list fval) : D <> [] -> S <> [] ->
  termini_decode (map (fun v => (1, v)) D ++ map (fun v => (2, v)) S) =
  DOk (mkTermini (map (fun v => hash_of_msg (as_msg v)) D) (map (fun v => hash_of_msg (as_msg v)) S)).
Proof.
  intros HD HS. unfold termini_decode. rewrite !get_all_app, !get_all_same.
  rewrite (get_all_other 1 2) by lia. rewrite (get_all_other 2 1) by lia. rewrite app_nil_r. cbn [app].
  destruct D; [congruence|]. destruct S; [congruence|]. reflexivity.
Qed.

Lemma slots_decode l k : Forall (fun h => length h = hash_len) l ->
  map (fun v => hash_of_msg (as_msg v)) (map slot (map Some l ++ repeat None k)) = l ++ repeat zero_hash k.
Proof.
  intros F. rewrite !map_app, !map_map. f_equal.
  - induction F as [|h l Hh _ IH]; [reflexivity|]. cbn [map slot as_msg].
    rewrite hash_msg_roundtrip by assumption. f_equal. exact IH.
  - induction k as [|k IH]; [reflexivity|]. cbn [repeat map]. f_equal. exact IH.
Qed.

Lemma termini_pads t :
  Forall (fun h => length h = hash_len) (t_dom t) -> Forall (fun h => length h = hash_len) (t_sub t) ->
  (length (t_dom t) <= max_width)%nat -> (length (t_sub t) <= max_width)%nat ->
  termini_decode (termini_encode t) = DOk (termini_padded t).
Proof.
  intros Fd Fs Ld Ls. unfold termini_encode, termini_padded.
  rewrite <- (map_map slot (fun v => (1, v))), <- (map_map slot (fun v => (2, v))).
  rewrite termini_decode_entries.
  - unfold pad_to. rewrite !slots_decode by assumption. reflexivity.
  - unfold pad_to. intros E. apply (f_equal (@length fval)) in E.
    rewrite map_length, app_length, map_length, repeat_length in E. cbn [length] in E. unfold max_width in *. lia.
  - unfold pad_to. intros E. apply (f_equal (@length fval)) in E.
    rewrite map_length, app_length, map_length, repeat_length in E. cbn [length] in E. unfold max_width in *. lia.
Qed.

(* C14 — lemmas: instantiation of the generic codec theorems on the generated schemas,
   and round trips of the hand-modelled object layers (Model/C14.v). *)
From Coq Require Import List Arith NArith Lia Bool ZifyBool ZifyNat ZifyN.
From GQ Require Import Lib.Key Lib.C14_Varint Lib.C14_BigEndian Lib.C14_ProtoWire Lib.C14_ProtoWireFacts
  Lib.C14_ProtoWireNF Lib.C14_RLP Generated.C14Schemas Model.C14.
Import ListNotations.
Local Open Scope N_scope.

Local Arguments N.mul : simpl never.
Local Arguments N.add : simpl never.
Local Arguments N.sub : simpl never.
Local Arguments N.div : simpl never.
Local Arguments N.modulo : simpl never.
Local Arguments N.pow : simpl never.
Local Arguments N.ltb : simpl never.
Local Arguments N.leb : simpl never.

(* ---------------- generated side conditions ---------------- *)

Lemma sc_ok : schema_ok sc = true.
Proof. vm_compute. reflexivity. Qed.

Lemma outside_is_listed : outside_fragment schemas = messages_outside_fragment.
Proof. vm_compute. reflexivity. Qed.

Lemma only_trim_depths_outside : messages_outside_fragment = [id_block_ProtoTrimDepths].
Proof. vm_compute. reflexivity. Qed.

Lemma refs_ok : refs_covered schemas = true.
Proof. vm_compute. reflexivity. Qed.

Lemma n_messages_ok : N.of_nat (length schemas) = n_messages.
Proof. vm_compute. reflexivity. Qed.

(* ---------------- generic theorems on the repository's schemas ---------------- *)

Lemma sc_roundtrip id m : wf_msg sc id m = true -> len (encode m) < u64 -> decode sc id (encode m) = Some m.
Proof. apply decode_encode. exact sc_ok. Qed.

Lemma sc_inj id m1 m2 : wf_msg sc id m1 = true -> wf_msg sc id m2 = true -> len (encode m1) < u64 ->
  encode m1 = encode m2 -> m1 = m2.
Proof. apply encode_inj. exact sc_ok. Qed.

Lemma sc_reencode id m' m : wf_msg sc id m' = true -> len (encode m') < u64 ->
  decode sc id (encode m') = Some m -> encode m = encode m'.
Proof. intros Hw Hl D. rewrite (sc_roundtrip id m' Hw Hl) in D. injection D as ->. reflexivity. Qed.

Lemma sc_decode_wf id b m : wf_bytes b -> decode sc id b = Some m -> wf_msg sc id m = true.
Proof. apply decode_wf. exact sc_ok. Qed.

Lemma sc_decode_idempotent id b m : wf_bytes b -> decode sc id b = Some m -> len (encode m) < u64 ->
  decode sc id (encode m) = Some m.
Proof. apply decode_idempotent. exact sc_ok. Qed.

Lemma sc_reencode_iff id b m : wf_bytes b -> len b < u64 -> decode sc id b = Some m ->
  (encode m = b <-> exists m', wf_msg sc id m' = true /\ b = encode m').
Proof. apply decode_reencode_iff. exact sc_ok. Qed.

(* ---------------- object layers ---------------- *)

Lemma wf_bytesb_iff b : wf_bytesb b = true <-> wf_bytes b.
Proof.
  unfold wf_bytesb, wf_bytes. rewrite forallb_forall, Forall_forall.
  split; intros H x Hx; specialize (H x Hx); lia.
Qed.

Lemma be_enc_wfb n : wf_bytesb (be_enc n) = true.
Proof. apply wf_bytesb_iff. apply be_enc_wf. Qed.

Lemma obj_wire {A} id (dec : msg -> dres A) m :
  wf_msg sc id m = true -> len (encode m) < u64 -> obj_decode id dec (encode m) = dec m.
Proof. intros Hw Hl. unfold obj_decode. rewrite sc_roundtrip by assumption. reflexivity. Qed.

(* normal forms *)
Definition txout_nf (o : txout) : Prop :=
  to_denom o < 256 /\ match to_addr o with Some a => wf_bytes a | None => True end.
(* what a round trip gives: a nil lock comes back as 0 *)
Definition txout_norm (o : txout) : txout :=
  mkTxOut (to_denom o) (to_addr o) (Some (match to_lock o with Some l => l | None => 0 end)).

Lemma txout_tree_roundtrip o : to_denom o < 256 -> txout_decode (txout_encode o) = DOk (txout_norm o).
Proof.
  intros Hd. unfold txout_encode, txout_decode, txout_norm.
  rewrite (N.mod_small _ _ Hd).
  destruct (to_addr o) as [a|]; cbn [app get_field fst snd N.eqb Pos.eqb as_int as_bytes];
    (assert (E : 255 <? to_denom o = false) by lia); rewrite E; unfold big_of_bytes, big_bytes;
    rewrite be_dec_enc; reflexivity.
Qed.

Lemma utxo_tree_roundtrip o : to_denom o < 256 -> utxo_decode (txout_encode o) = DOk (txout_norm o).
Proof.
  intros Hd. unfold txout_encode, utxo_decode, txout_norm.
  rewrite (N.mod_small _ _ Hd).
  destruct (to_addr o) as [a|]; cbn [app get_field fst snd N.eqb Pos.eqb as_int as_bytes];
    (assert (E : 255 <? to_denom o = false) by lia); rewrite E; unfold big_of_bytes, big_bytes;
    rewrite be_dec_enc; reflexivity.
Qed.

Lemma txout_desc : nth_error sc (N.to_nat id_block_ProtoTxOut) =
  Some [mkField 1 KU32 LOpt 0; mkField 2 KBytes LOpt 0; mkField 3 KBytes LOpt 0].
Proof. vm_compute. reflexivity. Qed.

Lemma txout_wf o : txout_nf o -> wf_msg sc id_block_ProtoTxOut (txout_encode o) = true.
Proof.
  intros [Hd Ha]. unfold wf_msg. cbn [wf_val]. rewrite txout_desc.
  unfold txout_encode. rewrite (N.mod_small _ _ Hd).
  destruct (to_addr o) as [a|].
  - apply wf_bytesb_iff in Ha.
    cbn -[N.ltb u32 be_enc wf_bytesb]. rewrite Ha, be_enc_wfb.
    assert (E : to_denom o <? u32 = true) by (unfold u32; lia). rewrite E. reflexivity.
  - cbn -[N.ltb u32 be_enc wf_bytesb]. rewrite be_enc_wfb.
    assert (E : to_denom o <? u32 = true) by (unfold u32; lia). rewrite E. reflexivity.
Qed.

Lemma txout_wire_roundtrip o : txout_nf o -> len (encode (txout_encode o)) < u64 ->
  obj_decode id_block_ProtoTxOut txout_decode (encode (txout_encode o)) = DOk (txout_norm o).
Proof.
  intros Hn Hl. rewrite obj_wire by (try apply txout_wf; assumption).
  apply txout_tree_roundtrip. exact (proj1 Hn).
Qed.

Lemma utxo_wire_roundtrip o : txout_nf o -> len (encode (txout_encode o)) < u64 ->
  obj_decode id_block_ProtoTxOut utxo_decode (encode (txout_encode o)) = DOk (txout_norm o).
Proof.
  intros Hn Hl. rewrite obj_wire by (try apply txout_wf; assumption).
  apply utxo_tree_roundtrip. exact (proj1 Hn).
Qed.

(* re-encoding the decoded object gives the same tree, hence the same bytes and the same hash *)
Lemma txout_reencode o : txout_encode (txout_norm o) = txout_encode o.
Proof. unfold txout_encode, txout_norm. cbn [to_denom to_addr to_lock]. destruct (to_lock o); reflexivity. Qed.

Lemma txout_norm_idem o : txout_norm (txout_norm o) = txout_norm o.
Proof. reflexivity. Qed.

(* two outputs in normal form with the same encoding are the same output (up to nil/0 lock) *)
Lemma txout_fields_injective a b : to_denom a < 256 -> to_denom b < 256 ->
  txout_encode a = txout_encode b -> txout_norm a = txout_norm b.
Proof.
  intros Ha Hb E. pose proof (txout_tree_roundtrip a Ha) as Ra. rewrite E in Ra.
  rewrite (txout_tree_roundtrip b Hb) in Ra. congruence.
Qed.

(* outside the normal form: the decoder rejects a denomination that does not fit uint8
   (the encoder cannot produce one: the Go field is a uint8) *)
Lemma txout_rejects_wide_denomination d rest : 255 < d -> txout_decode ((1, FInt d) :: rest) = DErr.
Proof.
  intros H. unfold txout_decode. cbn [get_field fst snd N.eqb Pos.eqb as_int].
  assert (E : 255 <? d = true) by lia. rewrite E. reflexivity.
Qed.

(* --- OutPoint --- *)
Definition hash_nf (h : bytes) : Prop := length h = hash_len /\ wf_bytes h.

Lemma set_bytes_exact n b : length b = n -> set_bytes n b = b.
Proof.
  intros H. unfold set_bytes. rewrite H, Nat.leb_refl, Nat.sub_diag. reflexivity.
Qed.

Lemma hash_msg_roundtrip h : length h = hash_len -> hash_of_msg (hash_msg h) = h.
Proof.
  intros H. unfold hash_msg. destruct h as [|x h]; [discriminate|].
  unfold hash_of_msg. cbn [get_field fst snd N.eqb Pos.eqb as_bytes]. apply set_bytes_exact. exact H.
Qed.

Lemma outpoint_tree_roundtrip o : length (op_hash o) = hash_len -> op_index o < 65536 ->
  outpoint_decode (outpoint_encode o) = DOk o.
Proof.
  intros Hh Hi. unfold outpoint_encode, outpoint_decode.
  cbn [get_field fst snd N.eqb Pos.eqb as_int as_msg].
  rewrite hash_msg_roundtrip by assumption. rewrite N.mod_mod by lia. rewrite N.mod_small by assumption.
  destruct o; reflexivity.
Qed.

(* the decoder truncates a wire index that does not fit uint16 (the encoder cannot produce one) *)
Lemma outpoint_truncates h i : outpoint_decode [(1, FMsg (hash_msg h)); (2, FInt i)] =
  DOk (mkOutPoint (hash_of_msg (hash_msg h)) (i mod 65536)).
Proof. reflexivity. Qed.

Lemma outpoint_decode_not_injective :
  exists m1 m2, m1 <> m2 /\ wf_msg sc id_block_ProtoOutPoint m1 = true /\ wf_msg sc id_block_ProtoOutPoint m2 = true /\
                outpoint_decode m1 = outpoint_decode m2.
Proof.
  exists [(1, FMsg (hash_msg zero_hash)); (2, FInt 7)], [(1, FMsg (hash_msg zero_hash)); (2, FInt 65543)].
  split; [discriminate|]. split; [vm_compute; reflexivity|]. split; vm_compute; reflexivity.
Qed.

Lemma hash_desc : nth_error sc (N.to_nat id_common_ProtoHash) = Some [mkField 1 KBytes LImp 0].
Proof. vm_compute. reflexivity. Qed.

Lemma hash_msg_wf h : hash_nf h -> wf_msg sc id_common_ProtoHash (hash_msg h) = true.
Proof.
  intros [Hl Hw]. unfold wf_msg. cbn [wf_val]. rewrite hash_desc.
  destruct h as [|x h]; [discriminate|]. apply wf_bytesb_iff in Hw.
  cbn -[wf_bytesb]. rewrite Hw. reflexivity.
Qed.

Lemma outpoint_desc : nth_error sc (N.to_nat id_block_ProtoOutPoint) =
  Some [mkField 1 (KMsg id_common_ProtoHash) LOpt 0; mkField 2 KU32 LOpt 0].
Proof. vm_compute. reflexivity. Qed.

Lemma outpoint_wf o : hash_nf (op_hash o) -> op_index o < 65536 ->
  wf_msg sc id_block_ProtoOutPoint (outpoint_encode o) = true.
Proof.
  intros Hh Hi. unfold wf_msg. cbn [wf_val]. rewrite outpoint_desc.
  unfold outpoint_encode. rewrite (N.mod_small _ _ Hi).
  pose proof (hash_msg_wf _ Hh) as W. unfold wf_msg in W.
  cbn -[N.ltb u32 wf_val sc id_common_ProtoHash]. rewrite W. cbn [wf_val].
  assert (E : op_index o <? u32 = true) by (unfold u32; lia). rewrite E. reflexivity.
Qed.

Lemma outpoint_wire_roundtrip o : hash_nf (op_hash o) -> op_index o < 65536 ->
  len (encode (outpoint_encode o)) < u64 ->
  obj_decode id_block_ProtoOutPoint outpoint_decode (encode (outpoint_encode o)) = DOk o.
Proof.
  intros Hh Hi Hl. rewrite obj_wire by (try apply outpoint_wf; assumption).
  apply outpoint_tree_roundtrip; [exact (proj1 Hh)|exact Hi].
Qed.

(* --- OutpointAndDenomination --- *)
Definition opd_norm (o : opd) : opd :=
  mkOpd (od_hash o) (od_index o) (od_denom o) (Some (match od_lock o with Some l => l | None => 0 end)).

Lemma opd_tree_roundtrip o : length (od_hash o) = hash_len -> od_index o < 65536 -> od_denom o < 256 ->
  opd_decode (opd_encode o) = DOk (opd_norm o).
Proof.
  intros Hh Hi Hd. unfold opd_encode, opd_decode, opd_norm.
  destruct (od_lock o) as [l|]; cbn [app get_field fst snd N.eqb Pos.eqb as_int as_msg as_bytes];
    rewrite hash_msg_roundtrip by assumption; rewrite !N.mod_mod by lia;
    rewrite (N.mod_small _ _ Hi), (N.mod_small _ _ Hd); unfold big_of_bytes, big_bytes;
    rewrite ?be_dec_enc; reflexivity.
Qed.

(* both narrowing conversions are silent *)
Lemma opd_truncates h i d : opd_decode [(1, FMsg (hash_msg h)); (2, FInt i); (3, FInt d)] =
  DOk (mkOpd (hash_of_msg (hash_msg h)) (i mod 65536) (d mod 256) (Some 0)).
Proof. reflexivity. Qed.

(* --- Termini --- *)
Definition termini_nf (t : termini) : Prop :=
  length (t_dom t) = max_width /\ length (t_sub t) = max_width /\
  Forall (fun h => length h = hash_len) (t_dom t) /\ Forall (fun h => length h = hash_len) (t_sub t).

Lemma pad_full n l : length l = n -> pad_to n l = map Some l.
Proof. intros H. unfold pad_to. rewrite H, Nat.sub_diag. cbn. apply app_nil_r. Qed.

Lemma get_all_app m1 m2 k : get_all (m1 ++ m2) k = get_all m1 k ++ get_all m2 k.
Proof. unfold get_all. rewrite filter_app, map_app. reflexivity. Qed.

Lemma get_all_same k (vs : list fval) : get_all (map (fun v => (k, v)) vs) k = vs.
Proof.
  unfold get_all. induction vs as [|v vs IH]; [reflexivity|]. cbn [map filter fst].
  rewrite N.eqb_refl. cbn [map snd]. f_equal. exact IH.
Qed.

Lemma get_all_other k k' (vs : list fval) : k' <> k -> get_all (map (fun v => (k', v)) vs) k = [].
Proof.
  intros H. unfold get_all. induction vs as [|v vs IH]; [reflexivity|]. cbn [map filter fst].
  assert (E : k' =? k = false) by lia. rewrite E. exact IH.
Qed.

Lemma map_hash_roundtrip l : Forall (fun h => length h = hash_len) l ->
  map (fun v => hash_of_msg (as_msg v)) (map (fun h => FMsg (hash_msg h)) l) = l.
Proof.
  induction 1 as [|h l Hh _ IH]; [reflexivity|]. cbn [map as_msg]. rewrite hash_msg_roundtrip by assumption.
  f_equal. exact IH.
Qed.

Lemma termini_match (D S : list fval) :
  D <> [] -> S <> [] ->
  match D, S with
  | [], _ => DErr
  | _, [] => DErr
  | d, s => DOk (mkTermini (map (fun v => hash_of_msg (as_msg v)) d) (map (fun v => hash_of_msg (as_msg v)) s))
  end = DOk (mkTermini (map (fun v => hash_of_msg (as_msg v)) D) (map (fun v => hash_of_msg (as_msg v)) S)).
Proof. destruct D, S; intros; try congruence; reflexivity. Qed.

Lemma termini_tree_roundtrip t : termini_nf t -> termini_decode (termini_encode t) = DOk t.
Proof.
  intros (Ld & Ls & Fd & Fs). destruct t as [d s]. cbn [t_dom t_sub] in *.
  unfold termini_encode, termini_decode. cbn [t_dom t_sub].
  rewrite (pad_full _ _ Ld), (pad_full _ _ Ls). rewrite !map_map.
  rewrite !get_all_app.
  rewrite <- (map_map (fun h => FMsg (hash_msg h)) (fun v => (1, v)) d).
  rewrite <- (map_map (fun h => FMsg (hash_msg h)) (fun v => (2, v)) s).
  rewrite !get_all_same. rewrite (get_all_other 1 2) by lia. rewrite (get_all_other 2 1) by lia.
  rewrite app_nil_r. cbn [app].
  destruct d as [|d0 dl]; [discriminate|]. destruct s as [|s0 sl]; [discriminate|].
  inversion Fd as [|? ? Hd0 Fdl]; subst. inversion Fs as [|? ? Hs0 Fsl]; subst.
  cbn [map as_msg]. rewrite !hash_msg_roundtrip by assumption.
  rewrite !map_hash_roundtrip by assumption. reflexivity.
Qed.

(* shorter arrays come back padded with zero hashes up to MaxWidth *)
Definition termini_padded (t : termini) : termini :=
  mkTermini (t_dom t ++ repeat zero_hash (max_width - length (t_dom t)))
            (t_sub t ++ repeat zero_hash (max_width - length (t_sub t))).

Definition slot (h : option bytes) : fval := FMsg (match h with Some x => hash_msg x | None => [] end).

Lemma termini_decode_entries (D S : list fval) : D <> [] -> S <> [] ->
  termini_decode (map (fun v => (1, v)) D ++ map (fun v => (2, v)) S) =
  DOk (mkTermini (map (fun v => hash_of_msg (as_msg v)) D) (map (fun v => hash_of_msg (as_msg v)) S)).
Proof.
  intros HD HS. unfold termini_decode. rewrite !get_all_app, !get_all_same.
  rewrite (get_all_other 1 2) by lia. rewrite (get_all_other 2 1) by lia. rewrite app_nil_r. cbn [app].
  destruct D; [congruence|]. destruct S; [congruence|]. reflexivity.
Qed.

Lemma slots_decode l k : Forall (fun h => length h = hash_len) l ->
  map (fun v => hash_of_msg (as_msg v)) (map slot (map Some l ++ repeat None k)) = l ++ repeat zero_hash k.
Proof.
  intros F. rewrite !map_app, !map_map. f_equal.
  - induction F as [|h l Hh _ IH]; [reflexivity|]. cbn [map slot as_msg].
    rewrite hash_msg_roundtrip by assumption. f_equal. exact IH.
  - induction k as [|k IH]; [reflexivity|]. cbn [repeat map]. f_equal. exact IH.
Qed.

Lemma termini_pads t :
  Forall (fun h => length h = hash_len) (t_dom t) -> Forall (fun h => length h = hash_len) (t_sub t) ->
  (length (t_dom t) <= max_width)%nat -> (length (t_sub t) <= max_width)%nat ->
  termini_decode (termini_encode t) = DOk (termini_padded t).
Proof.
  intros Fd Fs Ld Ls. unfold termini_encode, termini_padded.
  rewrite <- (map_map slot (fun v => (1, v))), <- (map_map slot (fun v => (2, v))).
  rewrite termini_decode_entries.
  - unfold pad_to. rewrite !slots_decode by assumption. reflexivity.
  - unfold pad_to. intros E. apply (f_equal (@length fval)) in E.
    rewrite map_length, app_length, map_length, repeat_length in E. cbn [length] in E. unfold max_width in *. lia.
  - unfold pad_to. intros E. apply (f_equal (@length fval)) in E.
    rewrite map_length, app_length, map_length, repeat_length in E. cbn [length] in E. unfold max_width in *. lia.
Qed.

(* ---------------- rawdb keys and records ---------------- *)

Lemma set_bytes_pad n b : (length b <= n)%nat -> set_bytes n b = repeat 0 (n - length b) ++ b.
Proof. intros H. unfold set_bytes. apply Nat.leb_le in H. rewrite H. reflexivity. Qed.

Lemma set_bytes_length n b : length (set_bytes n b) = n.
Proof.
  unfold set_bytes. destruct (Nat.leb (length b) n) eqn:E.
  - apply Nat.leb_le in E. rewrite app_length, repeat_length. lia.
  - apply Nat.leb_gt in E. rewrite skipn_length. lia.
Qed.

Lemma be_dec_zeros k b : be_dec (repeat 0 k ++ b) = be_dec b.
Proof.
  unfold be_dec. rewrite fold_left_app. f_equal.
  induction k as [|k IH]; [reflexivity|]. cbn [repeat fold_left]. exact IH.
Qed.

Lemma be_fixed_dec n v : v < 256 ^ N.of_nat n -> be_dec (be_fixed n v) = v.
Proof.
  intros H. unfold be_fixed. rewrite set_bytes_pad by (apply be_enc_length; exact H).
  rewrite be_dec_zeros. apply be_dec_enc.
Qed.

Lemma be_fixed_length n v : length (be_fixed n v) = n.
Proof. apply set_bytes_length. Qed.

Lemma firstn_exact {A} n (a b : list A) : length a = n -> firstn n (a ++ b) = a.
Proof. intros <-. rewrite firstn_app, Nat.sub_diag, firstn_all. cbn. apply app_nil_r. Qed.

Lemma skipn_exact {A} n (a b : list A) : length a = n -> skipn n (a ++ b) = b.
Proof. intros <-. rewrite skipn_app, Nat.sub_diag, skipn_all. reflexivity. Qed.

Lemma utxo_key_length h i : length h = 32%nat -> length (utxo_key h i) = 36%nat.
Proof. intros H. unfold utxo_key. rewrite !app_length, be_fixed_length, H. reflexivity. Qed.

Lemma utxo_key_roundtrip h i : length h = 32%nat -> i < 65536 ->
  reverse_utxo_key (utxo_key h i) = DOk (h, i).
Proof.
  intros Hh Hi. unfold reverse_utxo_key. rewrite (utxo_key_length h i Hh). cbn [Nat.eqb].
  unfold utxo_key. rewrite (N.mod_small _ _ Hi).
  rewrite (skipn_exact 2 utxo_prefix) by reflexivity.
  rewrite (firstn_exact 32 h) by exact Hh.
  rewrite app_assoc. rewrite (skipn_exact 34 (utxo_prefix ++ h)) by (rewrite app_length, Hh; reflexivity).
  rewrite be_fixed_dec by (exact Hi). reflexivity.
Qed.

Lemma utxo_key_injective h1 i1 h2 i2 :
  length h1 = 32%nat -> length h2 = 32%nat -> i1 < 65536 -> i2 < 65536 ->
  utxo_key h1 i1 = utxo_key h2 i2 -> h1 = h2 /\ i1 = i2.
Proof.
  intros L1 L2 B1 B2 E. pose proof (utxo_key_roundtrip h1 i1 L1 B1) as R. rewrite E in R.
  rewrite (utxo_key_roundtrip h2 i2 L2 B2) in R. injection R as -> ->. split; reflexivity.
Qed.

(* the prefix is not inspected by the reverse function *)
Lemma reverse_utxo_key_ignores_prefix p1 p2 rest : length p1 = 2%nat -> length p2 = 2%nat ->
  reverse_utxo_key (p1 ++ rest) = reverse_utxo_key (p2 ++ rest).
Proof.
  intros L1 L2. unfold reverse_utxo_key. rewrite !app_length, L1, L2.
  destruct (Nat.eqb (2 + length rest) 36); [|reflexivity].
  rewrite (skipn_exact 2 p1), (skipn_exact 2 p2) by assumption.
  rewrite !skipn_app, L1, L2.
  rewrite (skipn_all2 (n:=34) p1), (skipn_all2 (n:=34) p2) by lia. reflexivity.
Qed.

Definition lockup_nf (l : lockup) : Prop :=
  lk_amount l < 256 ^ 32 /\ lk_height l < 4294967296 /\ lk_elements l < 65536 /\
  match lk_delegate l with
  | Some d => length d = 20%nat /\ is_zero_bytes d = false
  | None => True
  end.

Lemma lockup_roundtrip l : lockup_nf l ->
  exists b, lockup_encode l = DOk b /\ lockup_decode b = l /\
            length b = match lk_delegate l with Some _ => 58%nat | None => 38%nat end.
Proof.
  intros (Ha & Hh & He & Hd). unfold lockup_encode.
  assert (La : (length (be_enc (lk_amount l)) <= 32)%nat) by (apply be_enc_length; exact Ha).
  assert (E : Nat.ltb 32 (length (be_enc (lk_amount l))) = false) by (apply Nat.ltb_ge; exact La).
  rewrite E. rewrite (N.mod_small _ _ Hh), (N.mod_small _ _ He).
  set (A := set_bytes 32 (be_enc (lk_amount l))).
  set (H := be_fixed 4 (lk_height l)). set (EL := be_fixed 2 (lk_elements l)).
  assert (LA : length A = 32%nat) by apply set_bytes_length.
  assert (LH : length H = 4%nat) by apply be_fixed_length.
  assert (LE : length EL = 2%nat) by apply be_fixed_length.
  assert (DA : be_dec A = lk_amount l).
  { unfold A. rewrite set_bytes_pad by exact La. rewrite be_dec_zeros. apply be_dec_enc. }
  assert (DH : be_dec H = lk_height l) by (apply be_fixed_dec; exact Hh).
  assert (DE : be_dec EL = lk_elements l) by (apply be_fixed_dec; exact He).
  eexists. split; [reflexivity|]. unfold lockup_decode.
  rewrite (firstn_exact 32 A) by exact LA. rewrite (skipn_exact 32 A) by exact LA.
  rewrite (firstn_exact 4 H) by exact LH.
  rewrite (app_assoc A H). rewrite (skipn_exact 36 (A ++ H)) by (rewrite app_length, LA, LH; reflexivity).
  rewrite (firstn_exact 2 EL) by exact LE.
  rewrite (app_assoc (A ++ H) EL). rewrite (skipn_exact 38 ((A ++ H) ++ EL)) by (rewrite !app_length, LA, LH, LE; reflexivity).
  rewrite !app_length, LA, LH, LE. rewrite DA, DH, DE.
  destruct l as [a h e [d|]]; cbn [lk_delegate] in *.
  - destruct Hd as [Ld Zd]. rewrite Zd, Ld. cbn [Nat.add Nat.eqb]. split; reflexivity.
  - cbn [length Nat.add Nat.eqb]. split; reflexivity.
Qed.

(* an amount that does not fit 32 bytes is refused by the writer *)
Lemma lockup_rejects_wide_amount l : 256 ^ 32 <= lk_amount l -> lockup_encode l = DErr.
Proof.
  intros H. unfold lockup_encode.
  assert (E : Nat.ltb 32 (length (be_enc (lk_amount l))) = true); [|rewrite E; reflexivity].
  apply Nat.ltb_lt. destruct (le_lt_dec (length (be_enc (lk_amount l))) 32) as [L|L]; [|exact L]. exfalso.
  pose proof (be_dec_bound (be_enc (lk_amount l)) (be_enc_wf _)) as B. rewrite be_dec_enc in B.
  assert (256 ^ N.of_nat (length (be_enc (lk_amount l))) <= 256 ^ 32).
  { apply N.pow_le_mono_r; lia. }
  lia.
Qed.

(* the zero delegate is not stored: it reads back as "no delegate" *)
Lemma lockup_zero_delegate_dropped a h e d : is_zero_bytes d = true ->
  lockup_encode (mkLockup a h e (Some d)) = lockup_encode (mkLockup a h e None).
Proof. intros Z. unfold lockup_encode. cbn [lk_amount lk_height lk_elements lk_delegate]. rewrite Z. reflexivity. Qed.

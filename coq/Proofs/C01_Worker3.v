(* C01 -- the pending block the worker assembles consumes every outpoint at most once, whatever it
   rejected in between, and only records of the committed database: no hypothesis about the pool,
   the keys or the signatures (worker.go: processQiTx, the per-block set env.deletedUtxos that is
   only ever grown -- the reservation of a rejected transaction is NOT released). *)
From Coq Require Import List NArith Bool Lia ZifyBool ZifyN.
From GQ Require Import Lib.Key Lib.SMap Generated.C01Params Model.C01 Proofs.C01_Worker2 Proofs.C01.
Import ListNotations.
Local Open Scope N_scope.

Definition named (t : tx) : list key := map i_op (t_ins t).

Lemma nodup_app_disjoint {A} (a b : list A) :
  NoDup a -> NoDup b -> (forall x, In x a -> ~ In x b) -> NoDup (a ++ b).
Proof.
  induction a as [|x a IH]; intros Ha Hb Hd; cbn [app]; [exact Hb|].
  inversion Ha as [|? ? Hx Ha']; subst. constructor.
  - intros Hin. apply in_app_or in Hin as [Hin|Hin]; [exact (Hx Hin)|].
    exact (Hd x (or_introl eq_refl) Hin).
  - apply IH; [exact Ha'|exact Hb|]. intros y Hy. apply Hd. right; exact Hy.
Qed.

(* an accepting input loop: the outpoints named are pairwise distinct, none was reserved before, all are
   reserved afterwards, each is an unlocked record of the committed ledger *)
Lemma w_in_loop_ok c l gp ins : forall deleted wa deleted' wa',
  w_in_loop c l gp deleted wa ins = (deleted', Ok wa') ->
  NoDup (map i_op ins)
  /\ (forall k, In k (map i_op ins) -> ~ In k deleted)
  /\ (forall k, In k (map i_op ins) -> In k deleted')
  /\ incl deleted deleted'
  /\ Forall (fun i => exists u, get (i_op i) l = Some u /\ u_lock u <= c_height c) ins.
Proof.
  induction ins as [|i r IH]; intros deleted wa deleted' wa' H; cbn [w_in_loop] in H.
  - inversion H; subst. cbn [map]. repeat split; try constructor; try (intros k []). apply incl_refl.
  - destruct (get (i_op i) l) as [u|] eqn:Eg; [|inversion H].
    destruct (c_height c <? u_lock u) eqn:El; [inversion H|].
    destruct (max_denomination <? u_den u); [inversion H|].
    destruct (negb (is_qi (u_owner u))); [inversion H|].
    destruct (amem (i_op i) deleted) eqn:Em; [inversion H|].
    apply amem_false in Em.
    apply IH in H as (Hnd & Hnew & Hin' & Hincl & Hall).
    cbn [map]. repeat split.
    + constructor; [|exact Hnd]. intros Hin. apply (Hnew _ Hin). left; reflexivity.
    + intros k [<-|Hk]; [exact Em|]. intros Hd. apply (Hnew _ Hk). right; exact Hd.
    + intros k [<-|Hk]; [apply Hincl; left; reflexivity|apply Hin'; exact Hk].
    + intros k Hk. apply Hincl. right; exact Hk.
    + constructor; [|exact Hall]. exists u. split; [exact Eg|lia].
Qed.

(* one call of processQiTx: the reservation set only grows; when the transaction is accepted ... *)
Lemma worker_qi_reserves c l first e t e' r : worker_qi c l first e t = (e', r) ->
  incl (w_deleted e) (w_deleted e')
  /\ (forall res, r = Ok res ->
        NoDup (named t)
        /\ (forall k, In k (named t) -> ~ In k (w_deleted e))
        /\ (forall k, In k (named t) -> In k (w_deleted e'))
        /\ Forall (fun i => exists u, get (i_op i) l = Some u /\ u_lock u <= c_height c) (t_ins t)).
Proof.
  intros H. unfold worker_qi in H.
  destruct (sanity t); [inversion H; subst; split; [apply incl_refl|discriminate]|].
  destruct (w_gp e <? t_intrinsic t); [inversion H; subst; split; [apply incl_refl|discriminate]|].
  cbv zeta in H.
  destruct (w_in_loop c l (w_gp e - t_intrinsic t) (w_deleted e) (mkWI [] 0 [] []) (t_ins t)) as [deleted rr] eqn:Ei.
  pose proof (w_in_loop_incl _ _ _ _ _ _ _ _ Ei) as (Hincl & _).
  destruct rr as [wa|e1 g1]; [|inversion H; subst; cbn [w_deleted]; split; [exact Hincl|discriminate]].
  destruct (post_inputs true c (w_rlim e) (w_plim e) t (w_gp e - t_intrinsic t) (w_used e + t_intrinsic t) (wi_addrs wa) (wi_total wa))
    as [p|e2 g2]; [|inversion H; subst; cbn [w_deleted]; split; [exact Hincl|discriminate]].
  destruct (c_gaslimit c <? p_used p); [inversion H; subst; cbn [w_deleted]; split; [exact Hincl|discriminate]|].
  destruct (negb first && negb (check_denominations (wi_dens wa) (p_outdens p)));
    [inversion H; subst; cbn [w_deleted]; split; [exact Hincl|discriminate]|].
  inversion H; subst e' r; clear H. cbn [w_deleted]. split; [exact Hincl|]. intros res _.
  apply w_in_loop_ok in Ei as (Hnd & Hnew & Hin' & _ & Hall). unfold named. repeat split; assumption.
Qed.

(* the whole pending block (commitTransactions' loop), from any environment *)
Lemma worker_txs_spends_once c l txs : forall first e,
  NoDup (concat (map named (accepted_txs txs (fst (worker_txs c l first e txs)))))
  /\ (forall k, In k (concat (map named (accepted_txs txs (fst (worker_txs c l first e txs))))) -> ~ In k (w_deleted e))
  /\ Forall (fun t => Forall (fun i => exists u, get (i_op i) l = Some u /\ u_lock u <= c_height c) (t_ins t))
            (accepted_txs txs (fst (worker_txs c l first e txs))).
Proof.
  induction txs as [|t r IH]; intros first e; cbn [worker_txs].
  - cbn. repeat split; try constructor. intros k [].
  - destruct (worker_qi c l first e t) as [e' [res|err g]] eqn:E;
      pose proof (worker_qi_reserves _ _ _ _ _ _ _ E) as (Hincl & Hacc).
    + destruct (Hacc res eq_refl) as (Hnd & Hnew & Hres & Hall).
      destruct (IH false e') as (IHnd & IHnew & IHall).
      destruct (worker_txs c l false e' r) as [vs ef] eqn:Ew. cbn [fst] in *.
      cbn [accepted_txs map concat]. repeat split.
      * apply nodup_app_disjoint; [exact Hnd|exact IHnd|].
        intros k Hk Hk'. apply (IHnew _ Hk'). apply Hres. exact Hk.
      * intros k Hk. apply in_app_or in Hk as [Hk|Hk]; [apply Hnew; exact Hk|].
        intros Hd. apply (IHnew _ Hk). apply Hincl. exact Hd.
      * constructor; assumption.
    + destruct (IH (if w_retry err then first else false) e') as (IHnd & IHnew & IHall).
      destruct (worker_txs c l (if w_retry err then first else false) e' r) as [vs ef] eqn:Ew. cbn [fst] in *.
      cbn [accepted_txs]. repeat split; [exact IHnd| |exact IHall].
      intros k Hk Hd. apply (IHnew _ Hk). apply Hincl. exact Hd.
Qed.

Lemma worker_block_spends_once_lemma c (l : ledger) txs :
  NoDup (concat (map named (accepted_txs txs (fst (worker_txs c l true (init_wenv c) txs)))))
  /\ Forall (fun t => Forall (fun i => exists u, get (i_op i) l = Some u /\ u_lock u <= c_height c) (t_ins t))
            (accepted_txs txs (fst (worker_txs c l true (init_wenv c) txs))).
Proof.
  destruct (worker_txs_spends_once c l txs true (init_wenv c)) as (H1 & _ & H3). split; assumption.
Qed.

(* ------------------------------------------------------------------ concrete instances *)

(* a third spender of the outpoint x_tx1 and x_tx2 spend *)
Definition x_hash3 : list N := repeat 12 32.
Definition x_tx2b : tx :=
  mkTx x_hash3 true [mkIn w_op w_owner true] [mkOut 4 w_out1 0] [] 12800 true true.

(* two records; the holder of the key of w_owner names both and carries his key twice *)
Definition y_op2 : key := repeat 8 32 ++ [0; 0].
Definition w_out3 : list N := [0; 203; 4; 4; 4; 4; 4; 4; 4; 4; 4; 4; 4; 4; 4; 4; 4; 4; 4; 4].
Definition y_ledger_foreign : ledger := [(w_op, mkU 6 w_owner 0); (y_op2, mkU 6 w_out1 0)].
Definition y_ledger_own : ledger := [(w_op, mkU 6 w_owner 0); (y_op2, mkU 6 w_owner 0)].
Definition y_tx (checksig : bool) : tx :=
  mkTx w_hash true [mkIn w_op w_owner true; mkIn y_op2 w_owner true]
       [mkOut 6 w_out2 0; mkOut 5 w_out3 0] [] 22600 checksig true.

(* C07 — third round: lemmas about skipped pool transactions (worker.commitTransaction's
   snapshot / revert around ApplyTransaction) and about the minimum-inclusion rule of the
   inbound ETX queue (StateProcessor.Process), Model/C07.v last section; side conditions on
   the generated data worker_apply_guard / process_inclusion_rule (Generated/C07Checks.v). *)
From Coq Require Import List PeanoNat NArith Bool Lia ZifyBool ZifyNat ZifyN String.
From GQ Require Import Model.C07 Generated.C07Checks.
Import ListNotations.
Local Open Scope N_scope.

(* ---------- (a) skipped transactions ---------- *)

Section SkipLemmas.
  Variables S T : Type.
  Variable apply : S -> T -> S * bool.

  (* With the revert, the state the worker ends with is the state the validator reaches by
     re-executing only the included transactions, and none of them fails. *)
  Lemma wfill_revert_vexec : forall pool st,
    vexec S T apply st (snd (wfill S T apply Revert st pool)) = Some (fst (wfill S T apply Revert st pool)).
  Proof.
    induction pool as [| t r IH]; intro st; [reflexivity |].
    cbn [wfill]. unfold wcommit.
    destruct (apply st t) as [st' ok] eqn:Ha. destruct ok.
    - specialize (IH st'). destruct (wfill S T apply Revert st' r) as [st2 inc] eqn:Hw.
      cbn [fst snd] in *. cbn [vexec]. rewrite Ha. exact IH.
    - specialize (IH st). destruct (wfill S T apply Revert st r) as [st2 inc] eqn:Hw.
      cbn [fst snd] in *. exact IH.
  Qed.

  (* every included transaction succeeded when the worker met it, skipped ones are absent *)
  Lemma wfill_included_sublist : forall p pool st, incl (snd (wfill S T apply p st pool)) pool.
  Proof.
    induction pool as [| t r IH]; intro st; [apply incl_refl |].
    cbn [wfill]. destruct (wcommit S T apply p st t) as [st1 ok].
    specialize (IH st1). destruct (wfill S T apply p st1 r) as [st2 inc]. cbn [snd] in *.
    destruct ok.
    - intros x [Hx | Hx]; [left; exact Hx | right; apply IH; exact Hx].
    - intros x Hx. right. apply IH. exact Hx.
  Qed.

  (* a pool on which nothing is skipped: both policies agree (why ordinary traffic never shows the difference) *)
  Lemma wfill_policies_agree_without_failures : forall pool st,
    (forall st' t, In t pool -> snd (apply st' t) = true) ->
    wfill S T apply KeepEffects st pool = wfill S T apply Revert st pool.
  Proof.
    induction pool as [| t r IH]; intros st H; [reflexivity |].
    cbn [wfill]. unfold wcommit.
    pose proof (H st t (or_introl eq_refl)) as Hok.
    destruct (apply st t) as [st' ok]. cbn [snd] in Hok. subst ok.
    rewrite IH; [reflexivity |]. intros st'' t' Hin. apply H. right. exact Hin.
  Qed.
End SkipLemmas.

(* the instance used for the refutation: the state is (nonce, balance); a transaction is
   (nonce, gas cost, value); apply = nonce check, buy gas, then the value transfer fails when
   the balance no longer covers it — after the gas was bought *)
Definition toy_apply (st : N * N) (t : N * N * N) : (N * N) * bool :=
  let '(n, bal) := st in
  let '(tn, cost, v) := t in
  if negb (tn =? n) then (st, false)
  else if bal <? cost then (st, false)
  else if bal - cost <? v then ((n, bal - cost), false)
  else ((n + 1, bal - cost - v), true).

Lemma skip_without_revert_refuted_l :
  exists (pool : list (N * N * N)) (st : N * N),
    vexec _ _ toy_apply st (snd (wfill _ _ toy_apply KeepEffects st pool))
    <> Some (fst (wfill _ _ toy_apply KeepEffects st pool)).
Proof.
  exists [(0, 10, 80); (1, 10, 50)], (0, 100). vm_compute. intro H. discriminate H.
Qed.

(* ---------- (b) the minimum-inclusion rule ---------- *)

Lemma rule_gas_sound : forall q k minG maxG,
  (k <= List.length q)%nat ->
  rule_gas AfterPops q k minG maxG = true ->
  (k = List.length q \/ minG <= gas_of q k) /\ gas_of q k <= maxG.
Proof.
  intros q k minG maxG Hk H. unfold rule_gas, etx_available in H.
  apply negb_true_iff in H. apply orb_false_iff in H. destruct H as [H1 H2].
  apply N.ltb_ge in H2. split; [| exact H2].
  apply andb_false_iff in H1. destruct H1 as [H1 | H1].
  - left. apply Nat.ltb_ge in H1. lia.
  - right. apply N.ltb_ge in H1. exact H1.
Qed.

Lemma rule_gas_complete : forall q k minG maxG,
  (k = List.length q \/ minG <= gas_of q k) -> gas_of q k <= maxG ->
  rule_gas AfterPops q k minG maxG = true.
Proof.
  intros q k minG maxG H1 H2. unfold rule_gas, etx_available.
  apply negb_true_iff. apply orb_false_iff. split; [| apply N.ltb_ge; exact H2].
  apply andb_false_iff. destruct H1 as [H1 | H1].
  - left. apply Nat.ltb_ge. lia.
  - right. apply N.ltb_ge. exact H1.
Qed.

Lemma rule_count_sound : forall q k minC maxC,
  (k <= List.length q)%nat ->
  rule_count AfterPops q k minC maxC = true ->
  (k = List.length q \/ minC <= N.of_nat k) /\ N.of_nat k <= maxC.
Proof.
  intros q k minC maxC Hk H. unfold rule_count, etx_available in H.
  apply negb_true_iff in H. apply orb_false_iff in H. destruct H as [H1 H2].
  apply N.ltb_ge in H2. split; [| exact H2].
  apply andb_false_iff in H1. destruct H1 as [H1 | H1].
  - left. apply Nat.ltb_ge in H1. lia.
  - right. apply N.ltb_ge in H1. exact H1.
Qed.

(* with the index read before the pops, every block that pops at least one ETX passes the lower bound *)
Lemma hoisted_probe_accepts_any_nonempty_prefix : forall q k minG maxG minC maxC,
  (1 <= k)%nat -> gas_of q k <= maxG -> N.of_nat k <= maxC ->
  rule_gas BeforePops q k minG maxG = true /\ rule_count BeforePops q k minC maxC = true.
Proof.
  intros q k minG maxG minC maxC Hk Hg Hc. unfold rule_gas, rule_count, etx_available.
  destruct k as [| k']; [lia |]. cbn [andb orb].
  apply N.ltb_ge in Hg. apply N.ltb_ge in Hc. rewrite Hg, Hc. split; reflexivity.
Qed.

Lemma hoisted_probe_refuted_l :
  exists q k minG maxG,
    (1 <= k < List.length q)%nat /\ gas_of q k < minG
    /\ rule_gas AfterPops q k minG maxG = false /\ rule_gas BeforePops q k minG maxG = true
    /\ rule_count AfterPops q k 50 100 = false /\ rule_count BeforePops q k 50 100 = true.
Proof.
  exists [21000; 21000; 21000; 21000], 1%nat, 1000000, 2000000. vm_compute.
  repeat split; try reflexivity; lia.
Qed.

(* … while a block that ignores a non-empty queue altogether is rejected under both probes *)
Lemma empty_block_rejected_under_both_probes : forall p q minG maxG minC maxC,
  q <> [] -> 0 < minG -> 0 < minC ->
  rule_gas p q 0 minG maxG = false /\ rule_count p q 0 minC maxC = false.
Proof.
  intros p q minG maxG minC maxC Hq Hg Hc. unfold rule_gas, rule_count, etx_available, gas_of.
  destruct q as [| x q']; [contradiction |]. cbn [firstn fold_right List.length N.of_nat].
  assert (Hl : Nat.ltb 0 (Datatypes.S (List.length q')) = true) by (apply Nat.ltb_lt; lia).
  destruct p; rewrite Hl; apply N.ltb_lt in Hg; apply N.ltb_lt in Hc; rewrite Hg, Hc; split; reflexivity.
Qed.

(* ---------- side conditions on the generated source data ---------- *)
Local Open Scope string_scope.

Definition str_drop (n : nat) (s : string) : string := substring n (Nat.sub (String.length s) n) s.

(* worker_apply_guard = [snapshot:v; apply; if-err{; revert:v; return-err; }] for one variable v:
   a snapshot is taken before ApplyTransaction, and the error branch right after the call reverts to
   THAT snapshot before it returns the error *)
Definition apply_guard_ok (l : list string) : bool :=
  match l with
  | [s; a; i; r; e; c] =>
      prefix "snapshot:" s && (a =? "apply") && (i =? "if-err{") && prefix "revert:" r
      && (e =? "return-err") && (c =? "}")
      && (str_drop 9 s =? str_drop 7 r) && negb (str_drop 9 s =? "")
  | _ => false
  end.

(* process_inclusion_rule: the queue head is probed AFTER the loop that pops the block's ETXs, directly
   before the two range rules, whose conditions are the reviewed ones *)
Definition reviewed_inclusion_rule : list string := [
  "etx-loop"; "GetOldestIndex"; "ReadETX";
  "rule:block.NumberU64(common.ZONE_CTX) <= params.TimeToStartTx && (etxAvailable && etxCount < minimumEtxCount || etxCount > maximumEtxCount)";
  "rule:block.NumberU64(common.ZONE_CTX) > params.TimeToStartTx && ((etxAvailable && totalEtxGas < minimumEtxGas) || totalEtxGas > maximumEtxGas)"
].

Fixpoint strs_eqb (a b : list string) : bool :=
  match a, b with
  | [], [] => true
  | x :: a', y :: b' => (x =? y) && strs_eqb a' b'
  | _, _ => false
  end.

Definition inclusion_rule_ok (l : list string) : bool := strs_eqb l reviewed_inclusion_rule.

Definition worker_skip_reverts : bool := apply_guard_ok worker_apply_guard.
Definition queue_probed_after_pops : bool := inclusion_rule_ok process_inclusion_rule.

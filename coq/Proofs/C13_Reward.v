(* C13 - post-fork share reward amounts: the time discount of a merged-mined share
   (core/headerchain.go CalculateTimeDiscountedShareReward, model C13.time_discount).
   The elapsed time is a uint32 difference that WRAPS; after the clamp it ranges over the finite
   interval [threshold, liveness], so the shape facts about numerator / denominator are decided by
   vm_compute over that whole interval for both liveness values of the generated constants
   (discount_shape_ok) and the theorems below are derived from them for ALL pow ids, timestamps,
   signature times and rewards. *)
From Coq Require Import List NArith ZArith Lia Bool ZifyBool ZifyN.
From GQ Require Import Generated.C13Params Model.C13.
Import ListNotations C13Params.
Local Open Scope N_scope.

Definition dts (live : N) : list N := map N.of_nat (seq 0 (S (N.to_nat live))).

Definition discount_shape_ok (live : N) : bool :=
  negb (discount_den live =? 0)
  && (no_penalty_time_threshold <? live) && (live <? two32)
  && (discount_num live no_penalty_time_threshold =? discount_den live)
  && (Z.of_N (discount_num live live) =? Z.of_N unlively_share_penalty * Z.of_N (live - no_penalty_time_threshold))%Z
  && (Z.of_N (discount_den live) =? Z.of_N share_reward_penalty_divisor * Z.of_N (live - no_penalty_time_threshold))%Z
  && forallb (fun dt => (dt <? no_penalty_time_threshold)
                        || ((discount_num live live <=? discount_num live dt) && (discount_num live dt <=? discount_den live)
                            && ((dt =? no_penalty_time_threshold) || (discount_num live dt <=? discount_num live (dt - 1))))) (dts live).

Lemma in_dts : forall live x, x <= live -> In x (dts live).
Proof.
  intros live x H. unfold dts. apply in_map_iff. exists (N.to_nat x). split.
  - apply N2Nat.id.
  - apply in_seq. lia.
Qed.

Lemma shape_default : discount_shape_ok share_liveness_time = true.
Proof. vm_compute. reflexivity. Qed.
Lemma shape_sha : discount_shape_ok new_share_liveness_time_for_sha = true.
Proof. vm_compute. reflexivity. Qed.

Lemma shape_all : forall pid, discount_shape_ok (liveness_of pid) = true.
Proof.
  intro pid. unfold liveness_of. destruct ((pid =? 3) || (pid =? 2)).
  - exact shape_sha.
  - exact shape_default.
Qed.

Lemma discount_params_hold : discount_params_ok = true.
Proof. vm_compute. reflexivity. Qed.

Record shape (live : N) : Prop := mkShape {
  sh_den : discount_den live <> 0;
  sh_thr : no_penalty_time_threshold < live;
  sh_lt : live < two32;
  sh_full : discount_num live no_penalty_time_threshold = discount_den live;
  sh_min : (Z.of_N (discount_num live live) = Z.of_N unlively_share_penalty * Z.of_N (live - no_penalty_time_threshold))%Z;
  sh_dv : (Z.of_N (discount_den live) = Z.of_N share_reward_penalty_divisor * Z.of_N (live - no_penalty_time_threshold))%Z;
  sh_rng : forall dt, no_penalty_time_threshold <= dt <= live ->
      discount_num live live <= discount_num live dt <= discount_den live
      /\ (dt <> no_penalty_time_threshold -> discount_num live dt <= discount_num live (dt - 1))
}.

Lemma shape_of_ok : forall live, discount_shape_ok live = true -> shape live.
Proof.
  intros live H. unfold discount_shape_ok in H.
  repeat (apply andb_prop in H; destruct H as [H ?]).
  match goal with Hf : forallb _ _ = true |- _ => rename Hf into HF end.
  rewrite forallb_forall in HF.
  constructor; try lia.
  intros dt [Hdt0 Hdt]. specialize (HF dt (in_dts live dt Hdt)). cbv beta in HF.
  apply orb_prop in HF. destruct HF as [HF|HF]; [lia|].
  repeat (apply andb_prop in HF; destruct HF as [HF ?]).
  split; [lia|]. intro Hz.
  match goal with Ho : (_ || _) = true |- _ => apply orb_prop in Ho; destruct Ho as [Ho|Ho] end; lia.
Qed.

Lemma shape_pid : forall pid, shape (liveness_of pid).
Proof. intro pid. apply shape_of_ok, shape_all. Qed.

Lemma clamp_range : forall live dt0, no_penalty_time_threshold < live ->
  no_penalty_time_threshold <= discount_clamp live dt0 <= live.
Proof.
  intros live dt0 H. unfold discount_clamp. destruct (N.ltb_spec live dt0);
  repeat match goal with |- context [?x <? ?y] => destruct (N.ltb_spec x y) end; lia.
Qed.
Lemma clamp_fresh : forall live dt0, no_penalty_time_threshold < live -> dt0 <= no_penalty_time_threshold ->
  discount_clamp live dt0 = no_penalty_time_threshold.
Proof.
  intros live dt0 H H0. unfold discount_clamp. destruct (N.ltb_spec live dt0);
  repeat match goal with |- context [?x <? ?y] => destruct (N.ltb_spec x y) end; lia.
Qed.
Lemma clamp_stale : forall live dt0, no_penalty_time_threshold < live -> live <= dt0 ->
  discount_clamp live dt0 = live.
Proof.
  intros live dt0 H H0. unfold discount_clamp. destruct (N.ltb_spec live dt0);
  repeat match goal with |- context [?x <? ?y] => destruct (N.ltb_spec x y) end; lia.
Qed.
Lemma clamp_mid : forall live dt0, no_penalty_time_threshold <= dt0 <= live -> discount_clamp live dt0 = dt0.
Proof.
  intros live dt0 H. unfold discount_clamp. destruct (N.ltb_spec live dt0);
  repeat match goal with |- context [?x <? ?y] => destruct (N.ltb_spec x y) end; lia.
Qed.
Lemma clamp_mono : forall live a b, a <= b -> discount_clamp live a <= discount_clamp live b.
Proof.
  intros live a b H. unfold discount_clamp. destruct (N.ltb_spec live a); destruct (N.ltb_spec live b);
  repeat match goal with |- context [?x <? ?y] => destruct (N.ltb_spec x y) end; lia.
Qed.

Lemma td_unfold : forall pid ts sg reward,
  time_discount pid ts sg reward =
  Some (reward * Z.of_N (discount_num (liveness_of pid) (discount_clamp (liveness_of pid) (u32sub ts sg)))
        / Z.of_N (discount_den (liveness_of pid)))%Z.
Proof.
  intros. unfold time_discount. destruct (shape_pid pid) as [Hd _ _ _ _ _ _].
  apply N.eqb_neq in Hd. rewrite Hd. reflexivity.
Qed.

(* the function never divides by zero *)
Lemma td_total : forall pid ts sg reward, time_discount pid ts sg reward <> None.
Proof. intros. rewrite td_unfold. discriminate. Qed.

(* within the no-penalty threshold: the full reward *)
Lemma td_fresh : forall pid ts sg reward, u32sub ts sg <= no_penalty_time_threshold ->
  time_discount pid ts sg reward = Some reward.
Proof.
  intros pid ts sg reward H. rewrite td_unfold. destruct (shape_pid pid) as [Hd Ht _ Hf _ _ _].
  rewrite (clamp_fresh _ _ Ht H), Hf. f_equal. apply Z.div_mul. lia.
Qed.

(* at or beyond the liveness time (as a uint32 difference): exactly the maximum-penalty amount *)
Lemma td_stale : forall pid ts sg reward, liveness_of pid <= u32sub ts sg ->
  time_discount pid ts sg reward = Some (max_penalty_amount reward).
Proof.
  intros pid ts sg reward H. rewrite td_unfold. destruct (shape_pid pid) as [Hd Ht _ _ Hm Hv _].
  rewrite (clamp_stale _ _ Ht H), Hm, Hv. f_equal. unfold max_penalty_amount.
  rewrite Z.mul_assoc. apply Z.div_mul_cancel_r.
  - assert (share_reward_penalty_divisor <> 0) by (vm_compute; discriminate). lia.
  - lia.
Qed.

(* a signature time LATER than the share's header timestamp wraps to a huge elapsed time: maximum penalty *)
Lemma td_postdated : forall pid ts sg reward, ts < sg -> sg < two32 -> sg - ts <= two32 - liveness_of pid ->
  time_discount pid ts sg reward = Some (max_penalty_amount reward).
Proof.
  intros pid ts sg reward H1 H2 H3. apply td_stale.
  destruct (shape_pid pid) as [_ _ Hl _ _ _ _]. revert H1 H2 H3 Hl.
  generalize (liveness_of pid). intros live H1 H2 H3 Hl.
  unfold u32sub, u32, two32 in *.
  rewrite (N.mod_small ts) by lia. rewrite (N.mod_small sg) by lia.
  rewrite N.mod_small by lia. lia.
Qed.

(* for every input the amount lies between the maximum-penalty amount and the undiscounted reward *)
Lemma td_bounds : forall pid ts sg reward v, (0 <= reward)%Z -> time_discount pid ts sg reward = Some v ->
  (max_penalty_amount reward <= v <= reward)%Z.
Proof.
  intros pid ts sg reward v Hr H. rewrite td_unfold in H. inversion H as [Hv]. clear H Hv.
  destruct (shape_pid pid) as [Hd Ht _ _ Hm Hdv Hrng].
  set (live := liveness_of pid) in *.
  pose proof (clamp_range live (u32sub ts sg) Ht) as Hc.
  destruct (Hrng _ Hc) as [[Hlo Hhi] _].
  set (n := discount_num live (discount_clamp live (u32sub ts sg))) in *.
  assert (Hden : (0 < Z.of_N (discount_den live))%Z) by lia.
  split.
  - assert (E : max_penalty_amount reward = (reward * Z.of_N (discount_num live live) / Z.of_N (discount_den live))%Z).
    { unfold max_penalty_amount. rewrite Hm, Hdv, Z.mul_assoc. symmetry. apply Z.div_mul_cancel_r.
      - assert (share_reward_penalty_divisor <> 0) by (vm_compute; discriminate). lia.
      - lia. }
    rewrite E. apply Z.div_le_mono; [exact Hden|]. apply Z.mul_le_mono_nonneg_l; lia.
  - apply Z.le_trans with (reward * Z.of_N (discount_den live) / Z.of_N (discount_den live))%Z.
    + apply Z.div_le_mono; [exact Hden|]. apply Z.mul_le_mono_nonneg_l; lia.
    + rewrite Z.div_mul by lia. lia.
Qed.

(* an older share (larger elapsed uint32 time) never gets more *)
Lemma num_antitone : forall live, shape live -> forall k a, no_penalty_time_threshold <= a -> a + N.of_nat k <= live ->
  discount_num live (a + N.of_nat k) <= discount_num live a.
Proof.
  intros live S. induction k as [|k IH]; intros a Ha Hk.
  - replace (a + N.of_nat 0) with a by lia. lia.
  - assert (Hk' : a + N.of_nat k <= live) by lia. specialize (IH a Ha Hk').
    destruct S as [_ _ _ _ _ _ Hrng].
    assert (Hk2 : no_penalty_time_threshold <= a + N.of_nat (S k) <= live) by lia.
    destruct (Hrng (a + N.of_nat (S k)) Hk2) as [_ Hstep].
    replace (a + N.of_nat (S k) - 1) with (a + N.of_nat k) in Hstep by lia.
    assert (Hne : a + N.of_nat (S k) <> no_penalty_time_threshold) by lia. specialize (Hstep Hne). lia.
Qed.

Lemma td_monotone : forall pid ts sg ts' sg' reward v v', (0 <= reward)%Z ->
  u32sub ts sg <= u32sub ts' sg' ->
  time_discount pid ts sg reward = Some v -> time_discount pid ts' sg' reward = Some v' -> (v' <= v)%Z.
Proof.
  intros pid ts sg ts' sg' reward v v' Hr Hle H H'. rewrite td_unfold in H, H'.
  inversion H as [Hv]. inversion H' as [Hv']. clear H H' Hv Hv'.
  pose proof (shape_pid pid) as S. destruct S as [Hd Ht Hl Hf Hm Hdv Hrng] eqn:ES. clear ES.
  set (live := liveness_of pid) in *.
  pose proof (clamp_mono live _ _ Hle) as Hcm.
  destruct (clamp_range live (u32sub ts sg) Ht) as [Ha0 Ha].
  destruct (clamp_range live (u32sub ts' sg') Ht) as [Hb0 Hb].
  set (a := discount_clamp live (u32sub ts sg)) in *. set (b := discount_clamp live (u32sub ts' sg')) in *.
  assert (Hn : discount_num live b <= discount_num live a).
  { replace b with (a + N.of_nat (N.to_nat (b - a))) by lia.
    apply num_antitone; [exact (mkShape live Hd Ht Hl Hf Hm Hdv Hrng)|lia|lia]. }
  apply Z.div_le_mono; [lia|]. apply Z.mul_le_mono_nonneg_l; lia.
Qed.

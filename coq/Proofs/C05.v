(* C05 -- lemmas about Model/C05.v.  The property theorems in Props/C05.v are closed by
   [exact] of the lemmas proved here. *)
From Coq Require Import List Arith PeanoNat NArith Bool String Lia ZifyBool ZifyNat ZifyN.
From GQ Require Import Generated.C05Params Model.C05.
Import ListNotations.
Local Open Scope N_scope.

(* ------------------------------------------------------------------ *)
(* The statement of the property for one send operation               *)
(* ------------------------------------------------------------------ *)

(* success: status word 1, debit exactly value + fee, exactly one ETX carrying the value under
   the fresh index;  failure: status word 0, no debit, no ETX.  Exactly one status word in both. *)
Definition all_or_nothing (value fee idx : N) (r : opres) : Prop :=
  (r_push r = Some 1 /\ r_debit r = value + fee /\
     exists e, r_emit r = Some e /\ e_value e = value /\ e_index e = idx)
  \/ (r_push r = Some 0 /\ r_debit r = 0 /\ r_emit r = None).

Definition etx_fee (gl tip cap : N) : N := (tip + cap) * gl.
Definition convert_fee (c : ctx) (gl : N) : N := x_price c * gl.

(* the inputs on which opETX leaves the all-or-nothing contract (exactly, see op_etx_aon_iff) *)
Definition etx_post_debit_failure (c : ctx) (bal idx : N) (alok : bool) (addr value gl tip cap asz : N) : bool :=
  match etx_debit c bal value gl tip cap with
  | Some _ => (negb alok && negb (asz =? 0)) || (MaxUint16 <? idx) || negb (eligible c (addr mod W160))
  | None => false
  end.
Definition etx_defect (c : ctx) (self bal idx : N) (alok : bool) (addr value gl tip cap asz : N) : bool :=
  negb (in_scope (x_pfx c) (addr mod W160)) &&
  (negb (internal_quai (x_pfx c) self) || etx_post_debit_failure c bal idx alok addr value gl tip cap asz).
(* before the fork the amounts are computed modulo 2^256 *)
Definition etx_amount_wraps (c : ctx) (value gl tip cap : N) : bool :=
  negb (post_fork c) && ((W256 <=? tip + cap) || (W256 <=? (tip + cap) * gl) || (W256 <=? value + (tip + cap) * gl)).

Definition convert_guard (c : ctx) (addr value : N) : bool :=
  in_scope (x_pfx c) (addr mod W160) && is_qi (addr mod W160) && negb (value <? MinQuaiConversionAmount)
  && negb (x_ptn c <? ControllerKickInBlock) && negb (in_hold c).
Definition convert_defect (c : ctx) (self bal idx : N) (addr value gl : N) : bool :=
  convert_guard c addr value &&
  (negb (internal_quai (x_pfx c) self) ||
   match convert_debit c bal value gl with Some _ => MaxUint16 <? idx | None => false end).
Definition convert_amount_wraps (c : ctx) (value gl : N) : bool :=
  negb (post_fork c) && ((W256 <=? x_price c) || (W256 <=? x_price c * gl) || (W256 <=? value + x_price c * gl)).

(* ------------------------------------------------------------------ *)
(* Arithmetic helpers                                                  *)
(* ------------------------------------------------------------------ *)

Lemma W256_pos : 0 < W256. Proof. reflexivity. Qed.
Lemma W64_pos : 0 < W64. Proof. reflexivity. Qed.

Lemma etx_total_exact : forall c value gl tip cap t,
  etx_amount_wraps c value gl tip cap = false ->
  etx_total c value gl tip cap = Some t -> t = value + etx_fee gl tip cap.
Proof.
  intros c value gl tip cap t Hw H. unfold etx_total, etx_amount_wraps, etx_fee in *.
  destruct (post_fork c).
  - destruct (W64 <=? gl); [discriminate|]. destruct (gl <? TxGas); [discriminate|].
    destruct (W256 <=? tip + cap); [discriminate|]. destruct (W256 <=? (tip + cap) * gl); [discriminate|].
    destruct (W256 <=? value + (tip + cap) * gl); [discriminate|]. now inversion H.
  - cbn [negb andb] in Hw. apply orb_false_iff in Hw. destruct Hw as [Hw H3]. apply orb_false_iff in Hw. destruct Hw as [H1 H2].
    apply N.leb_gt in H1, H2, H3. inversion H. clear H.
    rewrite (N.mod_small (tip + cap)) by assumption.
    rewrite (N.mod_small ((tip + cap) * gl)) by assumption.
    rewrite N.mod_small by assumption. reflexivity.
Qed.

Lemma etx_debit_some : forall c bal value gl tip cap t,
  etx_debit c bal value gl tip cap = Some t ->
  etx_total c value gl tip cap = Some t /\ t <> 0 /\ t <= bal.
Proof.
  intros c bal value gl tip cap t H. unfold etx_debit in H.
  destruct (etx_total c value gl tip cap) as [t0|]; [|discriminate].
  destruct ((t0 =? 0) || (bal <? t0)) eqn:E; [discriminate|].
  destruct (negb (post_fork c) && ((W64 <=? gl) || (gl mod W64 <? TxGas))); [discriminate|].
  inversion H; subst. apply orb_false_iff in E. destruct E as [E1 E2].
  apply N.eqb_neq in E1. apply N.ltb_ge in E2. auto.
Qed.

Lemma convert_total_exact : forall c value gl t,
  convert_amount_wraps c value gl = false ->
  convert_total c value gl = Some t -> t = value + convert_fee c gl.
Proof.
  intros c value gl t Hw H. unfold convert_total, convert_amount_wraps, convert_fee in *.
  destruct (post_fork c).
  - destruct (W64 <=? gl); [discriminate|]. destruct (gl <? TxGas); [discriminate|].
    destruct (W256 <=? x_price c); [discriminate|]. destruct (W256 <=? x_price c * gl); [discriminate|].
    destruct (W256 <=? value + x_price c * gl); [discriminate|]. now inversion H.
  - cbn [negb andb] in Hw. apply orb_false_iff in Hw. destruct Hw as [Hw H3]. apply orb_false_iff in Hw. destruct Hw as [H1 H2].
    apply N.leb_gt in H1, H2, H3. inversion H. clear H.
    rewrite (N.mod_small (x_price c)) by assumption.
    rewrite (N.mod_small (x_price c * gl)) by assumption.
    rewrite N.mod_small by assumption. reflexivity.
Qed.

Lemma convert_debit_some : forall c bal value gl t,
  convert_debit c bal value gl = Some t ->
  convert_total c value gl = Some t /\ t <> 0 /\ t <= bal.
Proof.
  intros c bal value gl t H. unfold convert_debit in H.
  destruct (convert_total c value gl) as [t0|]; [|discriminate].
  destruct ((t0 =? 0) || (bal <? t0)) eqn:E; [discriminate|].
  destruct (negb (post_fork c) && (gl mod W64 <? TxGas)); [discriminate|].
  inversion H; subst. apply orb_false_iff in E. destruct E as [E1 E2].
  apply N.eqb_neq in E1. apply N.ltb_ge in E2. auto.
Qed.

(* ------------------------------------------------------------------ *)
(* opETX                                                               *)
(* ------------------------------------------------------------------ *)

Ltac aon_no :=
  let H := fresh in
  intro H; destruct H as [[H _]|[H1 [H2 H3]]]; cbn [r_push r_debit r_emit] in *; try discriminate; try congruence.

Lemma op_etx_aon_iff : forall c self bal idx alok addr value gl tip cap asz,
  etx_amount_wraps c value gl tip cap = false ->
  (all_or_nothing value (etx_fee gl tip cap) idx (op_etx c self bal idx alok addr value gl tip cap asz)
   <-> etx_defect c self bal idx alok addr value gl tip cap asz = false).
Proof.
  intros c self bal idx alok addr value gl tip cap asz Hw.
  unfold op_etx, etx_defect, etx_post_debit_failure.
  set (to := addr mod W160).
  destruct (in_scope (x_pfx c) to) eqn:Hs; cbn [negb andb].
  { split; [reflexivity|]. intros _. right. cbn. auto. }
  destruct (internal_quai (x_pfx c) self) eqn:Hi; cbn [negb orb].
  2:{ split; [|discriminate]. aon_no. }
  destruct (etx_debit c bal value gl tip cap) as [t|] eqn:D.
  2:{ split; [reflexivity|]. intros _. right. cbn. auto. }
  destruct (etx_debit_some _ _ _ _ _ _ _ D) as [T [Tnz Tle]].
  pose proof (etx_total_exact _ _ _ _ _ _ Hw T) as Tx.
  destruct (negb alok && negb (asz =? 0)) eqn:A; cbn [orb].
  { split; [|discriminate]. aon_no. }
  destruct (MaxUint16 <? idx) eqn:I; cbn [orb].
  { split; [|discriminate]. aon_no. }
  destruct (eligible c to) eqn:E; cbn [negb].
  - split; [reflexivity|]. intros _. left. cbn [r_push r_debit r_emit]. repeat split; auto.
    eexists. split; [reflexivity|]. cbn. auto.
  - split; [|discriminate]. aon_no.
Qed.

Lemma op_etx_no_status_iff : forall c self bal idx alok addr value gl tip cap asz,
  r_push (op_etx c self bal idx alok addr value gl tip cap asz) = None <->
  negb (in_scope (x_pfx c) (addr mod W160)) &&
  (negb (internal_quai (x_pfx c) self) ||
   match etx_debit c bal value gl tip cap with
   | Some _ => (alok || (asz =? 0)) && negb (MaxUint16 <? idx) && negb (eligible c (addr mod W160))
   | None => false
   end) = true.
Proof.
  intros. unfold op_etx. set (to := addr mod W160).
  destruct (in_scope (x_pfx c) to); cbn [negb andb]; [split; discriminate|].
  destruct (internal_quai (x_pfx c) self); cbn [negb orb]; [|split; reflexivity].
  destruct (etx_debit c bal value gl tip cap); [|split; discriminate].
  destruct alok, (asz =? 0), (MaxUint16 <? idx), (eligible c to); cbn; split; (reflexivity || discriminate).
Qed.

Lemma op_etx_emit_iff : forall c self bal idx alok addr value gl tip cap asz,
  r_emit (op_etx c self bal idx alok addr value gl tip cap asz) <> None <->
  r_push (op_etx c self bal idx alok addr value gl tip cap asz) = Some 1.
Proof.
  intros. unfold op_etx. set (to := addr mod W160).
  destruct (in_scope (x_pfx c) to); [cbn; split; [congruence|discriminate]|].
  destruct (negb (internal_quai (x_pfx c) self)); [cbn; split; [congruence|discriminate]|].
  destruct (etx_debit c bal value gl tip cap); [|cbn; split; [congruence|discriminate]].
  destruct (negb alok && negb (asz =? 0)); [cbn; split; [congruence|discriminate]|].
  destruct (MaxUint16 <? idx); [cbn; split; [congruence|discriminate]|].
  destruct (negb (eligible c to)); cbn; split; congruence.
Qed.

Lemma op_etx_emit_shape : forall c self bal idx alok addr value gl tip cap asz e,
  r_emit (op_etx c self bal idx alok addr value gl tip cap asz) = Some e ->
  e_index e = idx /\ e_value e = value /\ e_sender e = self /\ e_to e = addr mod W160 /\ e_type e = EtxDefaultType
  /\ idx <= MaxUint16.
Proof.
  intros c self bal idx alok addr value gl tip cap asz e. unfold op_etx. set (to := addr mod W160).
  destruct (in_scope (x_pfx c) to); [discriminate|].
  destruct (negb (internal_quai (x_pfx c) self)); [discriminate|].
  destruct (etx_debit c bal value gl tip cap); [|discriminate].
  destruct (negb alok && negb (asz =? 0)); [discriminate|].
  destruct (MaxUint16 <? idx) eqn:I; [discriminate|].
  destruct (negb (eligible c to)); [discriminate|].
  cbn. intros H. inversion H; subst; cbn. apply N.ltb_ge in I. repeat split; auto.
Qed.

(* the debit never exceeds the balance: SubBalance cannot underflow *)
Lemma op_etx_debit_le : forall c self bal idx alok addr value gl tip cap asz,
  r_debit (op_etx c self bal idx alok addr value gl tip cap asz) <= bal.
Proof.
  intros. unfold op_etx. set (to := addr mod W160).
  destruct (in_scope (x_pfx c) to); [cbn; lia|].
  destruct (negb (internal_quai (x_pfx c) self)); [cbn; lia|].
  destruct (etx_debit c bal value gl tip cap) eqn:D; [|cbn; lia].
  destruct (etx_debit_some _ _ _ _ _ _ _ D) as [_ [_ Tle]].
  destruct (negb alok && negb (asz =? 0)); [cbn; lia|].
  destruct (MaxUint16 <? idx); [cbn; lia|].
  destruct (negb (eligible c to)); cbn; lia.
Qed.

(* ------------------------------------------------------------------ *)
(* opConvert                                                           *)
(* ------------------------------------------------------------------ *)

Lemma op_convert_aon_iff : forall c self bal idx addr value gl,
  convert_amount_wraps c value gl = false ->
  (all_or_nothing value (convert_fee c gl) idx (op_convert c self bal idx addr value gl)
   <-> convert_defect c self bal idx addr value gl = false).
Proof.
  intros c self bal idx addr value gl Hw.
  unfold op_convert, convert_defect, convert_guard.
  set (to := addr mod W160).
  destruct (in_scope (x_pfx c) to); cbn [negb andb]; [|split; [reflexivity|intros _; right; cbn; auto]].
  destruct (is_qi to); cbn [negb andb]; [|split; [reflexivity|intros _; right; cbn; auto]].
  destruct (value <? MinQuaiConversionAmount); cbn [negb andb]; [split; [reflexivity|intros _; right; cbn; auto]|].
  destruct (x_ptn c <? ControllerKickInBlock); cbn [negb andb]; [split; [reflexivity|intros _; right; cbn; auto]|].
  destruct (in_hold c); cbn [negb andb]; [split; [reflexivity|intros _; right; cbn; auto]|].
  destruct (internal_quai (x_pfx c) self); cbn [negb orb].
  2:{ split; [|discriminate]. aon_no. }
  destruct (convert_debit c bal value gl) as [t|] eqn:D.
  2:{ split; [reflexivity|]. intros _. right. cbn. auto. }
  destruct (convert_debit_some _ _ _ _ _ D) as [T [Tnz Tle]].
  pose proof (convert_total_exact _ _ _ _ Hw T) as Tx.
  destruct (MaxUint16 <? idx) eqn:I.
  - split; [|discriminate]. aon_no.
  - split; [reflexivity|]. intros _. left. cbn [r_push r_debit r_emit]. repeat split; auto.
    eexists. split; [reflexivity|]. cbn. auto.
Qed.

Lemma op_convert_no_status_iff : forall c self bal idx addr value gl,
  r_push (op_convert c self bal idx addr value gl) = None <->
  convert_guard c addr value && negb (internal_quai (x_pfx c) self) = true.
Proof.
  intros. unfold op_convert, convert_guard. set (to := addr mod W160).
  destruct (in_scope (x_pfx c) to); cbn [negb andb]; [|split; discriminate].
  destruct (is_qi to); cbn [negb andb]; [|split; discriminate].
  destruct (value <? MinQuaiConversionAmount); cbn [negb andb]; [split; discriminate|].
  destruct (x_ptn c <? ControllerKickInBlock); cbn [negb andb]; [split; discriminate|].
  destruct (in_hold c); cbn [negb andb]; [split; discriminate|].
  destruct (internal_quai (x_pfx c) self); cbn [negb]; [|split; reflexivity].
  destruct (convert_debit c bal value gl); [|split; discriminate].
  destruct (MaxUint16 <? idx); cbn; split; discriminate.
Qed.

Lemma op_convert_emit_iff : forall c self bal idx addr value gl,
  r_emit (op_convert c self bal idx addr value gl) <> None <->
  r_push (op_convert c self bal idx addr value gl) = Some 1.
Proof.
  intros. unfold op_convert. set (to := addr mod W160).
  destruct (negb (in_scope (x_pfx c) to)); [cbn; split; [congruence|discriminate]|].
  destruct (negb (is_qi to)); [cbn; split; [congruence|discriminate]|].
  destruct (value <? MinQuaiConversionAmount); [cbn; split; [congruence|discriminate]|].
  destruct (x_ptn c <? ControllerKickInBlock); [cbn; split; [congruence|discriminate]|].
  destruct (in_hold c); [cbn; split; [congruence|discriminate]|].
  destruct (negb (internal_quai (x_pfx c) self)); [cbn; split; [congruence|discriminate]|].
  destruct (convert_debit c bal value gl); [|cbn; split; [congruence|discriminate]].
  destruct (MaxUint16 <? idx); cbn; split; congruence.
Qed.

Lemma op_convert_emit_shape : forall c self bal idx addr value gl e,
  r_emit (op_convert c self bal idx addr value gl) = Some e ->
  e_index e = idx /\ e_value e = value /\ e_sender e = self /\ e_to e = addr mod W160 /\ e_type e = EtxConversionType
  /\ idx <= MaxUint16.
Proof.
  intros c self bal idx addr value gl e. unfold op_convert. set (to := addr mod W160).
  destruct (negb (in_scope (x_pfx c) to)); [discriminate|].
  destruct (negb (is_qi to)); [discriminate|].
  destruct (value <? MinQuaiConversionAmount); [discriminate|].
  destruct (x_ptn c <? ControllerKickInBlock); [discriminate|].
  destruct (in_hold c); [discriminate|].
  destruct (negb (internal_quai (x_pfx c) self)); [discriminate|].
  destruct (convert_debit c bal value gl); [|discriminate].
  destruct (MaxUint16 <? idx) eqn:I; [discriminate|].
  cbn. intros H. inversion H; subst; cbn. apply N.ltb_ge in I. repeat split; auto.
Qed.

Lemma op_convert_debit_le : forall c self bal idx addr value gl,
  r_debit (op_convert c self bal idx addr value gl) <= bal.
Proof.
  intros. unfold op_convert. set (to := addr mod W160).
  destruct (negb (in_scope (x_pfx c) to)); [cbn; lia|].
  destruct (negb (is_qi to)); [cbn; lia|].
  destruct (value <? MinQuaiConversionAmount); [cbn; lia|].
  destruct (x_ptn c <? ControllerKickInBlock); [cbn; lia|].
  destruct (in_hold c); [cbn; lia|].
  destruct (negb (internal_quai (x_pfx c) self)); [cbn; lia|].
  destruct (convert_debit c bal value gl) eqn:D; [|cbn; lia].
  destruct (convert_debit_some _ _ _ _ _ D) as [_ [_ Tle]].
  destruct (MaxUint16 <? idx); cbn; lia.
Qed.

(* ------------------------------------------------------------------ *)
(* CreateETX                                                           *)
(* ------------------------------------------------------------------ *)

Lemma create_etx_ok_shape : forall c from bal idx to gas value r,
  create_etx c from bal idx to gas value = (true, r) ->
  r_debit r = value /\ value <= bal /\ r_push r = None /\
  exists e, r_emit r = Some e /\ e_value e = value /\ e_index e = idx /\ e_gas e = gas - ETXGas /\
            e_to e = to /\ e_sender e = from /\ idx <= MaxUint16 /\ ETXGas + TxGas <= gas.
Proof.
  intros c from bal idx to gas value r. unfold create_etx.
  destruct (negb (is_qi to) && in_scope (x_pfx c) to); [discriminate|].
  destruct (is_qi to && in_scope (x_pfx c) to && (x_ptn c <? ControllerKickInBlock)); [discriminate|].
  destruct (is_qi to && in_scope (x_pfx c) to && in_hold c); [discriminate|].
  destruct (is_qi to && negb (in_scope (x_pfx c) to)); [discriminate|].
  destruct (is_qi to && in_scope (x_pfx c) to && (value <? MinQuaiConversionAmount)); [discriminate|].
  destruct (gas <? ETXGas) eqn:G1; [discriminate|].
  destruct (negb (internal_quai (x_pfx c) from)); [discriminate|].
  destruct (gas - ETXGas <? TxGas) eqn:G2; [discriminate|].
  destruct (bal <? value) eqn:B; [discriminate|].
  destruct (MaxUint16 <? idx) eqn:I; [discriminate|].
  destruct (negb (is_qi to && in_scope (x_pfx c) to) && negb (eligible c to)); [discriminate|].
  intros H. inversion H; subst; cbn [r_debit r_push r_emit].
  apply N.ltb_ge in G1, G2, B, I. repeat split; auto.
  eexists. split; [reflexivity|]. cbn [e_value e_index e_gas e_to e_sender]. repeat split; auto.
  unfold ETXGas, TxGas in *. lia.
Qed.

(* ------------------------------------------------------------------ *)
(* Lists, balances                                                     *)
(* ------------------------------------------------------------------ *)

Lemma lenN_aux_spec : forall A (l : list A) acc, lenN_aux l acc = acc + N.of_nat (List.length l).
Proof. induction l as [|x l IH]; intros acc; cbn [lenN_aux List.length]; [cbn; lia|]. rewrite IH, Nat2N.inj_succ. lia. Qed.
Lemma lenN_spec : forall A (l : list A), lenN l = N.of_nat (List.length l).
Proof. intros. unfold lenN. rewrite lenN_aux_spec. lia. Qed.
Lemma lenN_app : forall A (l l' : list A), lenN (l ++ l') = lenN l + lenN l'.
Proof. intros. rewrite !lenN_spec, app_length. lia. Qed.

(* indices of a segment appended at position n *)
Definition seq_from (n : N) (l : list etx) : Prop :=
  forall j e, nth_error l j = Some e -> e_index e = n + N.of_nat j.

Lemma seq_from_nil : forall n, seq_from n []. Proof. intros n j e H. destruct j; discriminate. Qed.
Lemma seq_from_app : forall n l1 l2, seq_from n l1 -> seq_from (n + lenN l1) l2 -> seq_from n (l1 ++ l2).
Proof.
  intros n l1 l2 H1 H2 j e H. destruct (Nat.lt_ge_cases j (List.length l1)) as [L|L].
  - rewrite nth_error_app1 in H by assumption. auto.
  - rewrite nth_error_app2 in H by assumption. apply H2 in H. rewrite H, lenN_spec. lia.
Qed.
Lemma seq_from_one : forall n e, e_index e = n -> seq_from n [e].
Proof. intros n e H j x Hj. destruct j as [|j]; cbn in Hj; [inversion Hj; subst; lia|destruct j; discriminate]. Qed.

Fixpoint sumb (l : list (N * N)) : N := match l with [] => 0 | (_, v) :: l' => v + sumb l' end.

Lemma getb_le_sumb : forall a l, getb a l <= sumb l.
Proof. induction l as [|[k v] l IH]; cbn [getb sumb]; [lia|]. destruct (k =? a); lia. Qed.
Lemma sumb_setb : forall a v l, sumb (setb a v l) + getb a l = sumb l + v.
Proof.
  induction l as [|[k x] l IH]; cbn [setb getb sumb]; [lia|].
  destruct (k =? a); cbn [sumb]; lia.
Qed.
Lemma sumb_subb : forall a v l, v <= getb a l -> sumb (subb a v l) + v = sumb l.
Proof.
  intros a v l H. unfold subb. destruct (v =? 0) eqn:E; [apply N.eqb_eq in E; lia|].
  pose proof (sumb_setb a (getb a l - v) l). pose proof (getb_le_sumb a l). lia.
Qed.
Lemma sumb_addb : forall a v l, sumb (addb a v l) = sumb l + v.
Proof.
  intros a v l. unfold addb. destruct (v =? 0) eqn:E; [apply N.eqb_eq in E; lia|].
  pose proof (sumb_setb a (getb a l + v) l). pose proof (getb_le_sumb a l). lia.
Qed.
Lemma sumb_transfer : forall a b v l, v <= getb a l -> sumb (transfer a b v l) = sumb l.
Proof. intros. unfold transfer. rewrite sumb_addb. pose proof (sumb_subb a v l H). lia. Qed.

(* ------------------------------------------------------------------ *)
(* Frames                                                              *)
(* ------------------------------------------------------------------ *)

(* value that left the accounts through the operations of non-reverted frames *)
Fixpoint debited (e : ev) : N :=
  match e with
  | EvOp _ r => r_debit r
  | EvCall ok sub => if ok then fold_right (fun x acc => debited x + acc) 0 sub else 0
  end.
Definition debited_all (tr : list ev) : N := fold_right (fun x acc => debited x + acc) 0 tr.

Lemma debited_all_app : forall a b, debited_all (a ++ b) = debited_all a + debited_all b.
Proof. unfold debited_all. induction a as [|x a IH]; intros b; cbn [app fold_right]; [lia|]. rewrite IH. lia. Qed.
Lemma emitted_all_app : forall a b, emitted_all (a ++ b) = emitted_all a ++ emitted_all b.
Proof. intros. unfold emitted_all. apply flat_map_app. Qed.

(* what a frame / a call may do to the world, given where it started *)
Definition effect_ok (w w' : world) (ems : list etx) (deb : N) : Prop :=
  w_etxs w' = w_etxs w ++ ems /\ seq_from (lenN (w_etxs w)) ems /\ sumb (w_bal w') + deb = sumb (w_bal w).

(* what the result of a frame must satisfy with respect to the world w it was entered in *)
Definition res_inv (w : world) (r : cres) : Prop :=
  (kept r = false -> c_world r = w) /\
  effect_ok w (c_world r) (if kept r then emitted_all (c_tr r) else [])
                          (if kept r then debited_all (c_tr r) else 0).

(* every frame kind: CALL, CALLCODE, DELEGATECALL, STATICCALL, constructors *)
Definition call_inv (cf : fkind -> bool -> N -> N -> N -> N -> N -> world -> cres) : Prop :=
  forall k ro depth caller addr gas value w, res_inv w (cf k ro depth caller addr gas value w).

Lemma effect_ok_refl : forall w, effect_ok w w [] 0.
Proof. intros w. unfold effect_ok. rewrite app_nil_r. repeat split; [apply seq_from_nil|lia]. Qed.

Lemma effect_ok_trans : forall w1 w2 w3 e1 e2 d1 d2,
  effect_ok w1 w2 e1 d1 -> effect_ok w2 w3 e2 d2 -> effect_ok w1 w3 (e1 ++ e2) (d1 + d2).
Proof.
  intros w1 w2 w3 e1 e2 d1 d2 [A1 [B1 C1]] [A2 [B2 C2]]. unfold effect_ok. repeat split.
  - rewrite A2, A1, app_assoc. reflexivity.
  - apply seq_from_app; [assumption|]. rewrite A1, lenN_app in B2. assumption.
  - lia.
Qed.

Lemma effect_apply_res : forall r self w idx,
  idx = lenN (w_etxs w) ->
  (forall e, r_emit r = Some e -> e_index e = idx) ->
  r_debit r <= getb self (w_bal w) ->
  effect_ok w (apply_res r self w) (opt_list (r_emit r)) (r_debit r).
Proof.
  intros r self w idx Hidx Hi Hd. unfold effect_ok, apply_res. cbn [w_etxs w_bal]. repeat split.
  - destruct (r_emit r) as [e|]; cbn [opt_list]; [|apply seq_from_nil].
    apply seq_from_one. rewrite <- Hidx. auto.
  - apply sumb_subb. assumption.
Qed.

Lemma res_inv_err : forall w e g tr, e <> 0 -> e <> 6 -> res_inv w (mkC e g w tr).
Proof.
  intros w e g tr He He6. unfold res_inv, kept. cbn [c_err c_world c_tr]. split; [reflexivity|].
  apply N.eqb_neq in He, He6. rewrite He, He6. apply effect_ok_refl.
Qed.
Lemma res_inv_ok0 : forall w g w1,
  w_etxs w1 = w_etxs w -> sumb (w_bal w1) = sumb (w_bal w) -> res_inv w (mkC 0 g w1 []).
Proof.
  intros w g w1 H1 H2. unfold res_inv, kept. cbn [c_err c_world c_tr N.eqb orb]. split; [discriminate|].
  unfold effect_ok. cbn. rewrite H1, app_nil_r. repeat split; [apply seq_from_nil|lia].
Qed.
(* the result of a frame whose effects are kept: err == nil or ErrCodeStoreOutOfGas *)
Lemma res_inv_kept : forall w e g w2 tr, (e = 0 \/ e = 6) ->
  effect_ok w w2 (emitted_all tr) (debited_all tr) -> res_inv w (mkC e g w2 tr).
Proof.
  intros w e g w2 tr He H. unfold res_inv, kept. cbn [c_err c_world c_tr].
  destruct He; subst e; cbn [N.eqb orb Pos.eqb]; (split; [discriminate|exact H]).
Qed.

Section ExecProofs.
  Variable cf : fkind -> bool -> N -> N -> N -> N -> N -> world -> cres.
  Hypothesis cf_inv : call_inv cf.
  Variable c : ctx.
  Variable ro : bool.
  Variable depth self : N.

  Ltac flt FAULT := lazy beta iota; exact FAULT.

  Lemma exec_effect : forall code f w tr,
    match exec cf c ro depth self code f w tr with
    | (h, f', w', tr') =>
        exists tr2, tr' = tr ++ tr2 /\ effect_ok w w' (emitted_all tr2) (debited_all tr2)
    end.
  Proof.
    induction code as [|i rest IH]; intros f w tr.
    { cbn [exec]. exists []. rewrite app_nil_r. split; [reflexivity|apply effect_ok_refl]. }
    assert (FAULT : exists tr2, tr = tr ++ tr2 /\ effect_ok w w (emitted_all tr2) (debited_all tr2)).
    { exists []. rewrite app_nil_r. split; [reflexivity|apply effect_ok_refl]. }
    destruct i; cbn [exec]; unfold fault.
    - (* IPush *)
      destruct (stack_bad row_PUSH32 f); [flt FAULT|].
      destruct (use_gas (cgas row_PUSH32) f) as [f1|]; [|flt FAULT]. apply IH.
    - (* IPop *)
      destruct (stack_bad row_POP f); [flt FAULT|].
      destruct (use_gas (cgas row_POP) f) as [f1|]; [|flt FAULT]. apply IH.
    - (* IMstore *)
      destruct (stack_bad row_MSTORE f); [flt FAULT|].
      destruct (use_gas (cgas row_MSTORE) f) as [f1|]; [|flt FAULT].
      destruct (f_stack f1) as [|off [|v st]]; try (flt FAULT).
      destruct (if W64 <=? off then None else if W64 <=? off + 32 then None else Some (off + 32)) as [msz|]; [|flt FAULT].
      destruct (mem_size32 msz) as [ms|]; [|flt FAULT].
      destruct (mem_gas f1 ms) as [[fee last]|]; [|flt FAULT].
      destruct (use_gas fee (with_mlast f1 last)) as [f2|]; [|flt FAULT]. apply IH.
    - (* IEtx *)
      destruct (stack_bad row_ETX f); [flt FAULT|].
      destruct (ro && r_writes row_ETX); [flt FAULT|].
      destruct (use_gas (cgas row_ETX) f) as [f1|]; [|flt FAULT].
      destruct (f_stack f1) as [|t0 [|addr [|value [|gl [|tip [|cap [|ioff [|isz [|aoff [|asz st]]]]]]]]]]; try (flt FAULT).
      destruct (calc_mem ioff isz) as [x|]; [|flt FAULT].
      destruct (calc_mem aoff asz) as [y|]; [|flt FAULT].
      destruct (W64 <=? x + y); [flt FAULT|].
      destruct (mem_size32 (x + y)) as [ms|]; [|flt FAULT].
      set (r := op_etx c self (getb self (w_bal w)) (lenN (w_etxs w)) alok addr value gl tip cap asz).
      specialize (IH (with_stack (resize f1 ms) (opt_list (r_push r) ++ st)) (apply_res r self w) (tr ++ [EvOp 0 r])).
      destruct (exec cf c ro depth self rest _ _ _) as [[[h f'] w'] tr'].
      destruct IH as [tr2 [E1 E2]]. exists (EvOp 0 r :: tr2). split.
      + rewrite E1, <- app_assoc. reflexivity.
      + change (emitted_all (EvOp 0 r :: tr2)) with (opt_list (r_emit r) ++ emitted_all tr2).
        change (debited_all (EvOp 0 r :: tr2)) with (r_debit r + debited_all tr2).
        eapply effect_ok_trans; [|exact E2].
        apply effect_apply_res with (idx := lenN (w_etxs w)); [reflexivity| |apply op_etx_debit_le].
        intros e He. apply op_etx_emit_shape in He. tauto.
    - (* IConvert *)
      destruct (stack_bad row_CONVERT f); [flt FAULT|].
      destruct (ro && r_writes row_CONVERT); [flt FAULT|].
      destruct (use_gas (cgas row_CONVERT) f) as [f1|]; [|flt FAULT].
      destruct (f_stack f1) as [|t0 [|addr [|value [|gl st]]]]; try (flt FAULT).
      set (r := op_convert c self (getb self (w_bal w)) (lenN (w_etxs w)) addr value gl).
      specialize (IH (with_stack f1 (opt_list (r_push r) ++ st)) (apply_res r self w) (tr ++ [EvOp 1 r])).
      destruct (exec cf c ro depth self rest _ _ _) as [[[h f'] w'] tr'].
      destruct IH as [tr2 [E1 E2]]. exists (EvOp 1 r :: tr2). split.
      + rewrite E1, <- app_assoc. reflexivity.
      + change (emitted_all (EvOp 1 r :: tr2)) with (opt_list (r_emit r) ++ emitted_all tr2).
        change (debited_all (EvOp 1 r :: tr2)) with (r_debit r + debited_all tr2).
        eapply effect_ok_trans; [|exact E2].
        apply effect_apply_res with (idx := lenN (w_etxs w)); [reflexivity| |apply op_convert_debit_le].
        intros e He. apply op_convert_emit_shape in He. tauto.
    - (* ICallK: CALL, CALLCODE, DELEGATECALL, STATICCALL *)
      destruct (stack_bad (row_of k) f); [flt FAULT|].
      destruct (call_args k (f_stack f)) as [[[[[[[[g addr] value] ioff] isz] roff] rsz] st]|]; [|flt FAULT].
      destruct (ro && is_call k && negb (value =? 0)); [flt FAULT|].
      destruct (use_gas WarmStorageReadCost f) as [f1|]; [|flt FAULT].
      destruct (calc_mem roff rsz) as [x|]; [|flt FAULT].
      destruct (calc_mem ioff isz) as [y|]; [|flt FAULT].
      destruct (mem_size32 (N.max x y)) as [ms|]; [|flt FAULT].
      destruct (is_call k && negb (internal_quai (x_pfx c) (addr mod W160))); [flt FAULT|].
      destruct (mem_gas f1 ms) as [[mfee last]|]; [|flt FAULT].
      match goal with |- context [if f_gas f1 <? ?b then _ else _] => set (base := b) end.
      destruct (f_gas f1 <? base); [flt FAULT|].
      match goal with |- context [use_gas (base + ?t) _] => set (temp := t) end.
      destruct (use_gas (base + temp) (with_mlast f1 last)) as [f2|]; [|flt FAULT].
      match goal with |- context [cf (FK k) ro depth self ?a ?g0 value w] => set (r := cf (FK k) ro depth self a g0 value w) end.
      pose proof (cf_inv (FK k) ro depth self (addr mod W160) (temp + (if negb (value =? 0) then CallStipend else 0)) value w) as [Hrev Heff].
      fold r in Hrev, Heff.
      destruct (c_err r =? 5) eqn:E5.
      { (* common.ErrExternalAddress: the calling frame faults as well *)
        lazy beta iota. exists [EvCall false (c_tr r)]. split; [reflexivity|].
        change (emitted_all [EvCall false (c_tr r)]) with (@nil etx).
        change (debited_all [EvCall false (c_tr r)]) with (0 + 0). apply effect_ok_refl. }
      match goal with |- match exec cf c ro depth self rest ?fa ?wa ?ta with _ => _ end => specialize (IH fa wa ta) end.
      destruct (exec cf c ro depth self rest _ _ _) as [[[h f'] w'] tr'].
      destruct IH as [tr2 [E1 E2]]. exists (EvCall (kept r) (c_tr r) :: tr2). split.
      + rewrite E1, <- app_assoc. reflexivity.
      + change (emitted_all (EvCall (kept r) (c_tr r) :: tr2))
          with ((if kept r then emitted_all (c_tr r) else []) ++ emitted_all tr2).
        change (debited_all (EvCall (kept r) (c_tr r) :: tr2))
          with ((if kept r then debited_all (c_tr r) else 0) + debited_all tr2).
        eapply effect_ok_trans; [exact Heff|exact E2].
    - (* ICreate: CREATE, CREATE2 *)
      set (row := if two then row_CREATE2 else row_CREATE).
      destruct (stack_bad row f); [flt FAULT|].
      destruct (ro && r_writes row); [flt FAULT|].
      destruct (use_gas (cgas row) f) as [f1|]; [|flt FAULT].
      destruct (create_args two (f_stack f1)) as [[[[value off] size] st]|]; [|flt FAULT].
      destruct (calc_mem off size) as [msz|]; [|flt FAULT].
      destruct (mem_size32 msz) as [ms|]; [|flt FAULT].
      destruct (mem_gas f1 ms) as [[mfee last]|]; [|flt FAULT].
      match goal with |- context [use_gas (mfee + ?t) _] => set (wfee := t) end.
      destruct (use_gas (mfee + wfee) (with_mlast f1 last)) as [f2|]; [|flt FAULT].
      match goal with |- context [cf (FCreate init naddr grind) ro depth self 0 ?g0 value w] =>
        set (r := cf (FCreate init naddr grind) ro depth self 0 g0 value w);
        pose proof (cf_inv (FCreate init naddr grind) ro depth self 0 g0 value w) as [Hrev Heff] end.
      fold r in Hrev, Heff.
      match goal with |- match exec cf c ro depth self rest ?fa ?wa ?ta with _ => _ end => specialize (IH fa wa ta) end.
      destruct (exec cf c ro depth self rest _ _ _) as [[[h f'] w'] tr'].
      destruct IH as [tr2 [E1 E2]]. exists (EvCall (kept r) (c_tr r) :: tr2). split.
      + rewrite E1, <- app_assoc. reflexivity.
      + change (emitted_all (EvCall (kept r) (c_tr r) :: tr2))
          with ((if kept r then emitted_all (c_tr r) else []) ++ emitted_all tr2).
        change (debited_all (EvCall (kept r) (c_tr r) :: tr2))
          with ((if kept r then debited_all (c_tr r) else 0) + debited_all tr2).
        eapply effect_ok_trans; [exact Heff|exact E2].
    - (* IStop *)
      exists []. rewrite app_nil_r. split; [reflexivity|apply effect_ok_refl].
    - (* IReturn *)
      destruct (stack_bad row_RETURN f); [flt FAULT|].
      destruct (f_stack f) as [|off [|sz st]]; try (flt FAULT).
      destruct (calc_mem off sz) as [msz|]; [|flt FAULT].
      destruct (mem_size32 msz) as [ms|]; [|flt FAULT].
      destruct (mem_gas f ms) as [[fee last]|]; [|flt FAULT].
      destruct (use_gas fee (with_mlast f last)) as [f2|]; [|flt FAULT].
      exists []. rewrite app_nil_r. split; [reflexivity|apply effect_ok_refl].
    - (* IRevert *)
      destruct (stack_bad row_REVERT f); [flt FAULT|].
      destruct (f_stack f) as [|off [|sz st]]; try (flt FAULT).
      destruct (calc_mem off sz) as [msz|]; [|flt FAULT].
      destruct (mem_size32 msz) as [ms|]; [|flt FAULT].
      destruct (mem_gas f ms) as [[fee last]|]; [|flt FAULT].
      destruct (use_gas fee (with_mlast f last)) as [f2|]; [|flt FAULT].
      exists []. rewrite app_nil_r. split; [reflexivity|apply effect_ok_refl].
    - (* IInvalid *)
      flt FAULT.
  Qed.

  (* the common tail of every frame kind: run the code, restore the snapshot on any error *)
  Lemma run_frame_inv : forall deposit code gas w w1,
    w_etxs w1 = w_etxs w -> sumb (w_bal w1) = sumb (w_bal w) ->
    res_inv w (run_frame cf c ro depth self deposit code gas w w1).
  Proof.
    intros deposit code gas w w1 H1 H2. unfold run_frame.
    destruct code as [[|i0 code]|]; [apply res_inv_ok0; assumption| |apply res_inv_ok0; assumption].
    pose proof (exec_effect (i0 :: code) (mkF [] gas 0 0) w1 []) as EX.
    destruct (exec cf c ro depth self (i0 :: code) (mkF [] gas 0 0) w1 []) as [[[h f] w2] tr].
    destruct EX as [tr2 [E1 [A [B C]]]]. cbn [app] in E1. subst tr2.
    assert (K : effect_ok w w2 (emitted_all tr) (debited_all tr)).
    { unfold effect_ok. rewrite <- H1, <- H2. repeat split; [exact A|rewrite H1 in B; rewrite H1; exact B|lia]. }
    destruct h as [|n| | |].
    - apply res_inv_kept; auto.
    - destruct deposit; [|apply res_inv_kept; auto].
      destruct (MaxCodeSize <? n); [apply res_inv_err; discriminate|].
      destruct (f_gas f <? n * CreateDataGas); apply res_inv_kept; auto.
    - apply res_inv_err; discriminate.
    - apply res_inv_err; discriminate.
    - apply res_inv_err; discriminate.
  Qed.
End ExecProofs.

Lemma can_transfer_le : forall c w a v, can_transfer c w a v = true -> v <= getb a (w_bal w).
Proof. intros c w a v H. unfold can_transfer in H. apply andb_true_iff in H. destruct H as [_ H]. apply N.leb_le in H. exact H. Qed.

Lemma call_inv_all : forall fuel c, call_inv (call fuel c).
Proof.
  induction fuel as [|fuel IH]; intros c k ro depth caller addr gas value w.
  { cbn [call]. apply res_inv_err; discriminate. }
  cbn [call].
  destruct k as [[ | | | ]|init naddr grind].
  - (* CALL *)
    destruct (CallCreateDepth <? depth); [apply res_inv_err; discriminate|].
    destruct (negb (value =? 0) && negb (can_transfer c w caller value)) eqn:CT; [apply res_inv_err; discriminate|].
    assert (VLE : value <= getb caller (w_bal w)).
    { apply andb_false_iff in CT. destruct CT as [CT|CT].
      - apply negb_false_iff, N.eqb_eq in CT. lia.
      - apply negb_false_iff in CT. eapply can_transfer_le; eassumption. }
    destruct (reserved addr); [apply res_inv_err; discriminate|].
    destruct (negb (internal_quai (x_pfx c) addr)).
    { destruct (create_etx c caller (getb caller (w_bal w)) (lenN (w_etxs w)) addr gas value) as [ok r] eqn:CE.
      destruct ok; [|apply res_inv_err; discriminate].
      apply create_etx_ok_shape in CE. destruct CE as [D [Dle [_ [e [Em [_ [Ei _]]]]]]].
      apply res_inv_kept; [auto|].
      change (emitted_all [EvOp 2 r]) with (opt_list (r_emit r) ++ []). rewrite app_nil_r.
      change (debited_all [EvOp 2 r]) with (r_debit r + 0). rewrite N.add_0_r.
      apply effect_apply_res with (idx := lenN (w_etxs w)); [reflexivity| |lia].
      intros e' He'. rewrite Em in He'. inversion He'; subst. exact Ei. }
    destruct (negb (exists_acct c w addr)).
    { destruct (value =? 0); [apply res_inv_ok0; reflexivity|].
      destruct (CallNewAccountGas <? gas); [|apply res_inv_err; discriminate].
      destruct (negb (internal_quai (x_pfx c) caller)); [apply res_inv_err; discriminate|].
      apply res_inv_ok0; [reflexivity|]. cbn [w_bal]. apply sumb_transfer. exact VLE. }
    destruct (negb (internal_quai (x_pfx c) caller)); [apply res_inv_err; discriminate|].
    apply run_frame_inv; [apply IH|reflexivity|]. cbn [w_bal]. apply sumb_transfer. exact VLE.
  - (* CALLCODE *)
    destruct (CallCreateDepth <? depth); [apply res_inv_err; discriminate|].
    destruct (negb (can_transfer c w caller value)); [apply res_inv_err; discriminate|].
    destruct (target_err c addr) as [e|] eqn:TE.
    { unfold target_err in TE.
      destruct (reserved addr); [inversion TE; apply res_inv_err; discriminate|].
      destruct (is_qi addr); [inversion TE; apply res_inv_err; discriminate|].
      destruct (negb (in_scope (x_pfx c) addr)); [inversion TE; apply res_inv_err; discriminate|discriminate]. }
    apply run_frame_inv; [apply IH|reflexivity|reflexivity].
  - (* DELEGATECALL *)
    destruct (CallCreateDepth <? depth); [apply res_inv_err; discriminate|].
    destruct (target_err c addr) as [e|] eqn:TE.
    { unfold target_err in TE.
      destruct (reserved addr); [inversion TE; apply res_inv_err; discriminate|].
      destruct (is_qi addr); [inversion TE; apply res_inv_err; discriminate|].
      destruct (negb (in_scope (x_pfx c) addr)); [inversion TE; apply res_inv_err; discriminate|discriminate]. }
    apply run_frame_inv; [apply IH|reflexivity|reflexivity].
  - (* STATICCALL *)
    destruct (CallCreateDepth <? depth); [apply res_inv_err; discriminate|].
    destruct (target_err c addr) as [e|] eqn:TE.
    { unfold target_err in TE.
      destruct (reserved addr); [inversion TE; apply res_inv_err; discriminate|].
      destruct (is_qi addr); [inversion TE; apply res_inv_err; discriminate|].
      destruct (negb (in_scope (x_pfx c) addr)); [inversion TE; apply res_inv_err; discriminate|discriminate]. }
    apply run_frame_inv; [apply IH|reflexivity|reflexivity].
  - (* CREATE / CREATE2 *)
    destruct (negb (internal_quai (x_pfx c) caller)); [apply res_inv_err; discriminate|].
    destruct (gas <? grind); [apply res_inv_err; discriminate|].
    destruct (CallCreateDepth <? depth); [apply res_inv_err; discriminate|].
    destruct (negb (CallNewAccountGas <? gas - grind)); [apply res_inv_err; discriminate|].
    destruct (negb (can_transfer c w caller value)) eqn:CT; [apply res_inv_err; discriminate|].
    apply negb_false_iff, can_transfer_le in CT.
    destruct (negb (internal_quai (x_pfx c) naddr)); [apply res_inv_err; discriminate|].
    apply run_frame_inv; [apply IH|reflexivity|]. cbn [w_bal]. apply sumb_transfer. exact CT.
Qed.

(* ------------------------------------------------------------------ *)
(* Read-only frames (STATICCALL and everything below it)               *)
(* ------------------------------------------------------------------ *)

(* the arguments with which the interpreter can reach a frame function while interpreter.readOnly is set:
   STATICCALL itself (sets the flag), CALL only with value 0 and an in-zone Quai target (write protection,
   gasCall), CALLCODE / DELEGATECALL; CREATE / CREATE2 are write-protected *)
Definition ro_args (c : ctx) (k : fkind) (ro : bool) (addr value : N) : Prop :=
  match k with
  | FK CkStatic => True
  | FK CkCall => ro = true /\ value = 0 /\ internal_quai (x_pfx c) addr = true
  | FK _ => ro = true
  | FCreate _ _ _ => False
  end.
Definition ro_inv (c : ctx) (cf : fkind -> bool -> N -> N -> N -> N -> N -> world -> cres) : Prop :=
  forall k ro depth caller addr gas value w, ro_args c k ro addr value -> c_world (cf k ro depth caller addr gas value w) = w.

Lemma transfer_zero : forall a b l, transfer a b 0 l = l.
Proof. intros. unfold transfer, addb, subb. reflexivity. Qed.

Section ReadOnly.
  Variable cf : fkind -> bool -> N -> N -> N -> N -> N -> world -> cres.
  Variable c : ctx.
  Hypothesis cf_ro : ro_inv c cf.
  Variable depth self : N.

  Lemma exec_ro_world : forall code f w tr,
    match exec cf c true depth self code f w tr with (h, f', w', tr') => w' = w end.
  Proof.
    induction code as [|i rest IH]; intros f w tr; [reflexivity|].
    destruct i; cbn [exec]; unfold fault.
    - destruct (stack_bad row_PUSH32 f); [reflexivity|].
      destruct (use_gas (cgas row_PUSH32) f) as [f1|]; [|reflexivity]. apply IH.
    - destruct (stack_bad row_POP f); [reflexivity|].
      destruct (use_gas (cgas row_POP) f) as [f1|]; [|reflexivity]. apply IH.
    - destruct (stack_bad row_MSTORE f); [reflexivity|].
      destruct (use_gas (cgas row_MSTORE) f) as [f1|]; [|reflexivity].
      destruct (f_stack f1) as [|off [|v st]]; try reflexivity.
      destruct (if W64 <=? off then None else if W64 <=? off + 32 then None else Some (off + 32)) as [msz|]; [|reflexivity].
      destruct (mem_size32 msz) as [ms|]; [|reflexivity].
      destruct (mem_gas f1 ms) as [[fee last]|]; [|reflexivity].
      destruct (use_gas fee (with_mlast f1 last)) as [f2|]; [|reflexivity]. apply IH.
    - (* ETX: the jump-table row is marked "writes" *)
      destruct (stack_bad row_ETX f); [reflexivity|].
      change (true && r_writes row_ETX) with true. reflexivity.
    - destruct (stack_bad row_CONVERT f); [reflexivity|].
      change (true && r_writes row_CONVERT) with true. reflexivity.
    - (* call opcodes *)
      destruct (stack_bad (row_of k) f); [reflexivity|].
      destruct (call_args k (f_stack f)) as [[[[[[[[g addr] value] ioff] isz] roff] rsz] st]|]; [|reflexivity].
      destruct (true && is_call k && negb (value =? 0)) eqn:WP; [reflexivity|].
      destruct (use_gas WarmStorageReadCost f) as [f1|]; [|reflexivity].
      destruct (calc_mem roff rsz) as [x|]; [|reflexivity].
      destruct (calc_mem ioff isz) as [y|]; [|reflexivity].
      destruct (mem_size32 (N.max x y)) as [ms|]; [|reflexivity].
      destruct (is_call k && negb (internal_quai (x_pfx c) (addr mod W160))) eqn:IQ; [reflexivity|].
      destruct (mem_gas f1 ms) as [[mfee last]|]; [|reflexivity].
      match goal with |- context [if f_gas f1 <? ?b then _ else _] => set (base := b) end.
      destruct (f_gas f1 <? base); [reflexivity|].
      match goal with |- context [use_gas (base + ?t) _] => set (temp := t) end.
      destruct (use_gas (base + temp) (with_mlast f1 last)) as [f2|]; [|reflexivity].
      match goal with |- context [cf (FK k) true depth self ?a ?g0 value w] => set (r := cf (FK k) true depth self a g0 value w) end.
      assert (RW : c_world r = w).
      { apply cf_ro. destruct k; cbn [ro_args]; auto.
        cbn [is_call andb] in WP, IQ. apply negb_false_iff in WP, IQ. apply N.eqb_eq in WP. auto. }
      destruct (c_err r =? 5); [reflexivity|].
      rewrite RW. apply IH.
    - (* CREATE / CREATE2 are marked "writes" *)
      destruct two.
      + destruct (stack_bad row_CREATE2 f); [reflexivity|]. change (true && r_writes row_CREATE2) with true. reflexivity.
      + destruct (stack_bad row_CREATE f); [reflexivity|]. change (true && r_writes row_CREATE) with true. reflexivity.
    - reflexivity.
    - destruct (stack_bad row_RETURN f); [reflexivity|].
      destruct (f_stack f) as [|off [|sz st]]; try reflexivity.
      destruct (calc_mem off sz) as [msz|]; [|reflexivity].
      destruct (mem_size32 msz) as [ms|]; [|reflexivity].
      destruct (mem_gas f ms) as [[fee last]|]; [|reflexivity].
      destruct (use_gas fee (with_mlast f last)) as [f2|]; reflexivity.
    - destruct (stack_bad row_REVERT f); [reflexivity|].
      destruct (f_stack f) as [|off [|sz st]]; try reflexivity.
      destruct (calc_mem off sz) as [msz|]; [|reflexivity].
      destruct (mem_size32 msz) as [ms|]; [|reflexivity].
      destruct (mem_gas f ms) as [[fee last]|]; [|reflexivity].
      destruct (use_gas fee (with_mlast f last)) as [f2|]; reflexivity.
    - reflexivity.
  Qed.

  Lemma run_frame_ro_world : forall code gas w,
    c_world (run_frame cf c true depth self false code gas w w) = w.
  Proof.
    intros code gas w. unfold run_frame. destruct code as [[|i0 code]|]; try reflexivity.
    pose proof (exec_ro_world (i0 :: code) (mkF [] gas 0 0) w []) as EX.
    destruct (exec cf c true depth self (i0 :: code) (mkF [] gas 0 0) w []) as [[[h f] w2] tr].
    destruct h; cbn [c_world]; auto.
  Qed.
End ReadOnly.

Lemma call_ro_inv : forall fuel c, ro_inv c (call fuel c).
Proof.
  induction fuel as [|fuel IH]; intros c k ro depth caller addr gas value w RA; [reflexivity|].
  cbn [call].
  assert (TE : forall (x : cres), c_world x = w ->
            c_world (match target_err c addr with Some e => mkC e 0 w [] | None => x end) = w).
  { intros x Hx. destruct (target_err c addr); [reflexivity|exact Hx]. }
  destruct k as [[ | | | ]|init naddr grind]; cbn [ro_args] in RA.
  - destruct RA as [Hro [Hv Hi]]. subst ro value. rewrite Hi. cbn [negb N.eqb andb].
    destruct (CallCreateDepth <? depth); [reflexivity|].
    destruct (reserved addr); [reflexivity|].
    destruct (negb (exists_acct c w addr)); [reflexivity|].
    destruct (negb (internal_quai (x_pfx c) caller)); [reflexivity|].
    rewrite transfer_zero. destruct w as [bal etxs]. cbn [w_bal w_etxs].
    apply run_frame_ro_world. apply IH.
  - subst ro. destruct (CallCreateDepth <? depth); [reflexivity|].
    destruct (negb (can_transfer c w caller value)); [reflexivity|].
    apply TE. apply run_frame_ro_world. apply IH.
  - subst ro. destruct (CallCreateDepth <? depth); [reflexivity|].
    apply TE. apply run_frame_ro_world. apply IH.
  - destruct (CallCreateDepth <? depth); [reflexivity|].
    apply TE. apply run_frame_ro_world. apply IH.
  - contradiction.
Qed.

Lemma static_call_world : forall fuel c ro depth caller addr gas value w,
  c_world (call fuel c (FK CkStatic) ro depth caller addr gas value w) = w.
Proof. intros. apply call_ro_inv. exact I. Qed.

(* ------------------------------------------------------------------ *)
(* Generated data: the obligations a source edit breaks                *)
(* ------------------------------------------------------------------ *)

Fixpoint strs_eqb (a b : list string) : bool :=
  match a, b with
  | [], [] => true
  | x :: a', y :: b' => String.eqb x y && strs_eqb a' b'
  | _, _ => false
  end.
Definition oN_eqb' (a b : option N) : bool :=
  match a, b with Some x, Some y => x =? y | None, None => true | _, _ => false end.
Definition row_eqb (a b : oprow) : bool :=
  (r_min a =? r_min b) && (r_max a =? r_max b) && String.eqb (r_exec a) (r_exec b) && String.eqb (r_cgas a) (r_cgas b)
  && oN_eqb' (r_cgasv a) (r_cgasv b) && String.eqb (r_dgas a) (r_dgas b) && String.eqb (r_mem a) (r_mem b)
  && Bool.eqb (r_halts a) (r_halts b) && Bool.eqb (r_jumps a) (r_jumps b) && Bool.eqb (r_writes a) (r_writes b)
  && Bool.eqb (r_reverts a) (r_reverts b) && Bool.eqb (r_returns a) (r_returns b).

Local Open Scope string_scope.
(* the jump-table rows the model was written against: pops/pushes, which gas functions run, flags *)
Definition rows_as_modelled : bool :=
  row_eqb row_ETX (mkRow 10 (StackLimit + 10 - 1) "opETX" "gasEtx" (Some ETXGas) "" "memoryETX" false false true false false) &&
  row_eqb row_CONVERT (mkRow 4 (StackLimit + 4 - 1) "opConvert" "gasEtx" (Some ETXGas) "" "" false false true false false) &&
  row_eqb row_CALL (mkRow 7 (StackLimit + 7 - 1) "opCall" "gasWarmStorageRead" None "makeCallVariantGasCall" "memoryCall" false false false false true) &&
  row_eqb row_PUSH32 (mkRow 0 (StackLimit - 1) "makePush" "gasFastestStep" (Some 3%N) "" "" false false false false false) &&
  row_eqb row_POP (mkRow 1 (StackLimit + 1) "opPop" "gasQuickStep" (Some 2%N) "" "" false false false false false) &&
  row_eqb row_MSTORE (mkRow 2 (StackLimit + 2) "opMstore" "gasFastestStep" (Some 3%N) "pureMemoryGascost" "memoryMStore" false false false false false) &&
  row_eqb row_STOP (mkRow 0 StackLimit "opStop" "gasZero" (Some 0%N) "" "" true false false false false) &&
  row_eqb row_REVERT (mkRow 2 (StackLimit + 2) "opRevert" "gasZero" (Some 0%N) "pureMemoryGascost" "memoryRevert" false false false true true) &&
  row_eqb row_CALLCODE (mkRow 7 (StackLimit + 7 - 1) "opCallCode" "gasWarmStorageRead" None "makeCallVariantGasCall" "memoryCall" false false false false true) &&
  row_eqb row_DELEGATECALL (mkRow 6 (StackLimit + 6 - 1) "opDelegateCall" "gasWarmStorageRead" None "makeCallVariantGasCall" "memoryDelegateCall" false false false false true) &&
  row_eqb row_STATICCALL (mkRow 6 (StackLimit + 6 - 1) "opStaticCall" "gasWarmStorageRead" None "makeCallVariantGasCall" "memoryStaticCall" false false false false true) &&
  row_eqb row_CREATE (mkRow 3 (StackLimit + 3 - 1) "opCreate" "gasCreateConstant" (Some 32000%N) "pureMemoryGascost" "memoryCreate" false false true false true) &&
  row_eqb row_CREATE2 (mkRow 4 (StackLimit + 4 - 1) "opCreate2" "gasCreate2Constant" (Some 32000%N) "gasCreate2" "memoryCreate2" false false true false true) &&
  row_eqb row_RETURN (mkRow 2 (StackLimit + 2) "opReturn" "gasZero" (Some 0%N) "pureMemoryGascost" "memoryReturn" true false false false false) &&
  negb opcode_0xfe_defined.

(* the order of the relevant calls in the Go source of the mirrored functions *)
Definition sources_as_modelled : bool :=
  strs_eqb src_opETX
    ["pop"; "pop"; "pop"; "pop"; "pop"; "pop"; "pop"; "pop"; "pop"; "pop"; "IsInChainScope"; "Clear"; "push";
     "InternalAndQuaiAddress"; "CmpUint64"; "Clear"; "push"; "Clear"; "push"; "AddOverflow"; "Clear"; "push"; "MulOverflow"; "Clear"; "push";
     "AddOverflow"; "Clear"; "push"; "CanTransfer"; "Clear"; "push"; "CmpUint64"; "Clear"; "push"; "Clear"; "push";
     "SubBalance"; "DecodeBytes"; "Clear"; "push"; "lenETXCache"; "Clear"; "push"; "NewTx"; "CheckIfEtxEligible"; "appendETXCache"; "SetOne"; "push"] &&
  strs_eqb src_opConvert
    ["pop"; "pop"; "pop"; "pop"; "IsInChainScope"; "Clear"; "push"; "IsInQiLedgerScope"; "Clear"; "push"; "Clear"; "push"; "Clear"; "push";
     "Clear"; "push"; "Clear"; "push"; "InternalAndQuaiAddress"; "CmpUint64"; "Clear"; "push"; "Clear"; "push"; "FromBig"; "Clear"; "push";
     "MulOverflow"; "Clear"; "push"; "AddOverflow"; "Clear"; "push"; "FromBig"; "CanTransfer"; "Clear"; "push"; "Clear"; "push";
     "SubBalance"; "lenETXCache"; "Clear"; "push"; "NewTx"; "appendETXCache"; "SetOne"; "push"] &&
  strs_eqb src_CreateETX
    ["IsInQuaiLedgerScope"; "IsInChainScope"; "IsInQiLedgerScope"; "IsInChainScope"; "IsInQiLedgerScope"; "IsInChainScope";
     "InternalAndQuaiAddress"; "CanTransfer"; "SubBalance"; "lenETXCache"; "NewTx"; "CheckIfEtxEligible"; "appendETXCache"] &&
  strs_eqb src_Call
    ["CanTransfer"; "snapshot"; "RunLockupContract"; "revertToSnapshot"; "InternalAndQuaiAddress"; "CreateETX"; "revertToSnapshot";
     "Exist"; "CreateAccount"; "Transfer"; "Run"; "revertToSnapshot"] &&
  strs_eqb src_opCall ["pop"; "pop"; "pop"; "pop"; "pop"; "pop"; "pop"; "Clear"; "SetOne"; "push"] &&
  strs_eqb src_gasCall ["InternalAndQuaiAddress"] &&
  strs_eqb src_UnwrapQi ["InternalAndQuaiAddress"; "InternalAndQiAddress"; "InternalAndQuaiAddress"; "GetState"; "SetState";
                         "lenETXCache"; "appendETXCache"; "NewTx"] &&
  (* every frame kind takes the EVM snapshot (state revision AND length of the ETX cache) before it runs code
     and restores it on any error: [run_frame] *)
  strs_eqb src_snapshot ["Snapshot"; "lenETXCache"; "copyCoinbasesDeleted"] &&
  strs_eqb src_revertToSnapshot ["RevertToSnapshot"; "sliceETXCache"; "copyCoinbasesDeleted"] &&
  strs_eqb src_CallCode ["CanTransfer"; "snapshot"; "precompile"; "RunPrecompiledContract"; "InternalAndQuaiAddress"; "Run"; "revertToSnapshot"] &&
  strs_eqb src_DelegateCall ["snapshot"; "precompile"; "RunPrecompiledContract"; "InternalAndQuaiAddress"; "Run"; "revertToSnapshot"] &&
  strs_eqb src_StaticCall ["snapshot"; "precompile"; "RunPrecompiledContract"; "InternalAndQuaiAddress"; "Run"; "revertToSnapshot"] &&
  strs_eqb src_Create ["InternalAndQuaiAddress"; "CreateAddress"; "InternalAndQuaiAddress"; "create"; "attemptGrindContractCreation"; "create"] &&
  strs_eqb src_Create2 ["CreateAddress2"; "create"] &&
  strs_eqb src_create ["InternalAndQuaiAddress"; "CanTransfer"; "InternalAndQuaiAddress"; "snapshot"; "CreateAccount"; "Transfer"; "Run";
                       "UseGas"; "SetCode"; "revertToSnapshot"; "UseGas"] &&
  strs_eqb src_opCallCode ["pop"; "pop"; "pop"; "pop"; "pop"; "pop"; "pop"; "CallCode"; "Clear"; "SetOne"; "push"] &&
  strs_eqb src_opDelegateCall ["pop"; "pop"; "pop"; "pop"; "pop"; "pop"; "DelegateCall"; "Clear"; "SetOne"; "push"] &&
  strs_eqb src_opStaticCall ["pop"; "pop"; "pop"; "pop"; "pop"; "pop"; "StaticCall"; "Clear"; "SetOne"; "push"] &&
  strs_eqb src_opCreate ["pop"; "pop"; "pop"; "UseGas"; "Create"; "Clear"; "push"] &&
  strs_eqb src_opCreate2 ["pop"; "pop"; "pop"; "pop"; "UseGas"; "Create2"; "Clear"; "push"] &&
  strs_eqb src_gasCallCode [] && strs_eqb src_gasDelegateCall [] && strs_eqb src_gasStaticCall [].
Local Close Scope string_scope.

(* fork heights: the regimes the theorems distinguish all exist and are ordered as the model assumes *)
Definition forks_as_modelled : bool :=
  (0 <? ControllerKickInBlock) && (ControllerKickInBlock <? KawPowForkBlock) &&
  (KawPowForkBlock + KQuaiChangeHoldInterval <? ShaEquivalentDifficultyForkBlock) &&
  (ShaEquivalentDifficultyForkBlock + KQuaiChangeHoldInterval <? SelfDestructRefundForkBlock) &&
  (SelfDestructRefundForkBlock <? W64) && (TxGas <=? ETXGas + TxGas) && (0 <? TxGas) &&
  (0 <? MinQuaiConversionAmount) && (MinQuaiConversionAmount <? W256) &&
  negb (EtxDefaultType =? EtxConversionType) && negb (EtxUnwrapQiType =? EtxDefaultType) &&
  negb (EtxUnwrapQiType =? EtxConversionType) && (CallCreateDepth <? 1100).

Lemma rows_ok : rows_as_modelled = true. Proof. vm_compute. reflexivity. Qed.
Lemma sources_ok : sources_as_modelled = true. Proof. vm_compute. reflexivity. Qed.
Lemma forks_ok : forks_as_modelled = true. Proof. vm_compute. reflexivity. Qed.

(* ------------------------------------------------------------------ *)
(* Statements about EVM.Call                                           *)
(* ------------------------------------------------------------------ *)

(* every error but the constructors' ErrCodeStoreOutOfGas restores the world *)
Lemma call_failed_no_trace_partial : forall fuel c k ro depth caller addr gas value w,
  c_err (call fuel c k ro depth caller addr gas value w) <> 0 ->
  c_err (call fuel c k ro depth caller addr gas value w) <> 6 ->
  c_world (call fuel c k ro depth caller addr gas value w) = w.
Proof.
  intros fuel c k ro depth caller addr gas value w H0 H6.
  apply (call_inv_all fuel c k ro depth caller addr gas value w).
  unfold kept. apply N.eqb_neq in H0, H6. rewrite H0, H6. reflexivity.
Qed.

(* message calls never end with ErrCodeStoreOutOfGas *)
Lemma run_frame_not_6 : forall cf c ro depth self code gas w w1,
  c_err (run_frame cf c ro depth self false code gas w w1) <> 6.
Proof.
  intros. unfold run_frame. destruct code as [[|i0 code]|]; try discriminate.
  destruct (exec cf c ro depth self (i0 :: code) (mkF [] gas 0 0) w1 []) as [[[h f] w2] tr].
  destruct h; discriminate.
Qed.
Lemma call_fk_not_6 : forall fuel c k ro depth caller addr gas value w,
  c_err (call fuel c (FK k) ro depth caller addr gas value w) <> 6.
Proof.
  intros fuel c k ro depth caller addr gas value w. destruct fuel as [|fuel]; [discriminate|]. cbn [call].
  assert (TE : forall x : cres, c_err x <> 6 ->
            c_err (match target_err c addr with Some e => mkC e 0 w [] | None => x end) <> 6).
  { intros x Hx. unfold target_err. destruct (reserved addr); [discriminate|]. destruct (is_qi addr); [discriminate|].
    destruct (negb (in_scope (x_pfx c) addr)); [discriminate|exact Hx]. }
  destruct k.
  - destruct (CallCreateDepth <? depth); [discriminate|].
    destruct (negb (value =? 0) && negb (can_transfer c w caller value)); [discriminate|].
    destruct (reserved addr); [discriminate|].
    destruct (negb (internal_quai (x_pfx c) addr)).
    { destruct (create_etx c caller (getb caller (w_bal w)) (lenN (w_etxs w)) addr gas value) as [ok r]. destruct ok; discriminate. }
    destruct (negb (exists_acct c w addr)).
    { destruct (value =? 0); [discriminate|]. destruct (CallNewAccountGas <? gas); [|discriminate].
      destruct (negb (internal_quai (x_pfx c) caller)); discriminate. }
    destruct (negb (internal_quai (x_pfx c) caller)); [discriminate|]. apply run_frame_not_6.
  - destruct (CallCreateDepth <? depth); [discriminate|].
    destruct (negb (can_transfer c w caller value)); [discriminate|]. apply TE, run_frame_not_6.
  - destruct (CallCreateDepth <? depth); [discriminate|]. apply TE, run_frame_not_6.
  - destruct (CallCreateDepth <? depth); [discriminate|]. apply TE, run_frame_not_6.
Qed.

Lemma call_failed_no_trace : forall fuel c k ro depth caller addr gas value w,
  c_err (call fuel c (FK k) ro depth caller addr gas value w) <> 0 ->
  c_world (call fuel c (FK k) ro depth caller addr gas value w) = w.
Proof. intros. apply call_failed_no_trace_partial; [assumption|apply call_fk_not_6]. Qed.

Lemma call_outbound : forall fuel c k ro depth caller addr gas value w,
  let r := call fuel c k ro depth caller addr gas value w in
  w_etxs (c_world r) = w_etxs w ++ (if kept r then emitted_all (c_tr r) else []).
Proof. intros fuel c k ro depth caller addr gas value w. apply (call_inv_all fuel c k ro depth caller addr gas value w). Qed.

Definition indices_ok (l : list etx) : Prop := forall j e, nth_error l j = Some e -> e_index e = N.of_nat j.

Lemma call_indices : forall fuel c k ro depth caller addr gas value w,
  indices_ok (w_etxs w) -> indices_ok (w_etxs (c_world (call fuel c k ro depth caller addr gas value w))).
Proof.
  intros fuel c k ro depth caller addr gas value w H.
  destruct (call_inv_all fuel c k ro depth caller addr gas value w) as [_ [A [B _]]].
  rewrite A. intros j e Hj. destruct (Nat.lt_ge_cases j (List.length (w_etxs w))) as [L|L].
  - rewrite nth_error_app1 in Hj by assumption. auto.
  - rewrite nth_error_app2 in Hj by assumption. apply B in Hj. rewrite Hj, lenN_spec. lia.
Qed.

Lemma call_conservation : forall fuel c k ro depth caller addr gas value w,
  let r := call fuel c k ro depth caller addr gas value w in
  sumb (w_bal (c_world r)) + (if kept r then debited_all (c_tr r) else 0) = sumb (w_bal w).
Proof. intros fuel c k ro depth caller addr gas value w. apply (call_inv_all fuel c k ro depth caller addr gas value w). Qed.

(* a plain call to an address that is not an in-zone Quai address = EVM.CreateETX under Call's snapshot *)
Lemma create_etx_call_aon : forall fuel c ro depth caller addr gas value w,
  internal_quai (x_pfx c) addr = false ->
  let r := call (S fuel) c (FK CkCall) ro depth caller addr gas value w in
  (c_err r = 0 /\ c_gas r = 0 /\ value <= getb caller (w_bal w) /\
   w_bal (c_world r) = subb caller value (w_bal w) /\
   exists e, w_etxs (c_world r) = w_etxs w ++ [e] /\ e_value e = value /\ e_index e = lenN (w_etxs w) /\
             e_gas e = gas - ETXGas /\ e_to e = addr /\ e_sender e = caller)
  \/ (c_err r <> 0 /\ c_world r = w).
Proof.
  intros fuel c ro depth caller addr gas value w Hi. cbn zeta. cbn [call].
  destruct (CallCreateDepth <? depth); [right; cbn; split; [discriminate|reflexivity]|].
  destruct (negb (value =? 0) && negb (can_transfer c w caller value)); [right; cbn; split; [discriminate|reflexivity]|].
  destruct (reserved addr); [right; cbn; split; [discriminate|reflexivity]|].
  rewrite Hi. cbn [negb].
  destruct (create_etx c caller (getb caller (w_bal w)) (lenN (w_etxs w)) addr gas value) as [ok r] eqn:CE.
  destruct ok; [|right; cbn; split; [discriminate|reflexivity]].
  left. apply create_etx_ok_shape in CE. destruct CE as [D [Dle [_ [e [Em [E1 [E2 [E3 [E4 [E5 _]]]]]]]]]].
  cbn [c_err c_gas c_world apply_res w_bal w_etxs]. rewrite D, Em. cbn [opt_list].
  repeat split; auto. exists e. repeat split; auto.
Qed.

(* ------------------------------------------------------------------ *)
(* Witnesses of the defects (replayed on the real EVM by the harness corpus) *)
(* ------------------------------------------------------------------ *)

Definition wit_origin : N := 0x00010e0e0e0e0e0e0e0e0e0e0e0e0e0e0e0e0e0e.
Definition wit_self : N := 0x0002a1a1a1a1a1a1a1a1a1a1a1a1a1a1a1a1a1a1.
Definition wit_to : N := 0x0107555555555555555555555555555555555555.     (* foreign zone 0-1, Quai ledger *)
Definition wit_qi : N := 0x0085919191919191919191919191919191919191.     (* in-zone Qi address *)
Definition wit_post : N := SelfDestructRefundForkBlock + 5.
Definition wit_pre : N := SelfDestructRefundForkBlock - 5.
Definition wit_ctx (ptn elig : N) (codes : list (N * list instr)) : ctx := mkCtx 0 ptn elig 1000000000 codes.
Definition e21 : N := 1000000000000000000000.

Lemma aon_status0_debit : forall value fee idx r, r_push r = Some 0 -> r_debit r <> 0 -> ~ all_or_nothing value fee idx r.
Proof. intros value fee idx r H0 Hd [[H _]|[_ [H _]]]; congruence. Qed.
Lemma aon_no_status : forall value fee idx r, r_push r = None -> ~ all_or_nothing value fee idx r.
Proof. intros value fee idx r H0 [[H _]|[H _]]; congruence. Qed.

(* F2: malformed access-list blob: status 0, the debit stays, no ETX *)
Lemma etx_bad_access_list_witness :
  let r := op_etx (wit_ctx wit_post 2 []) wit_self e21 0 false wit_to 12345 21000 1 2 3 in
  r_push r = Some 0 /\ r_debit r = 12345 + (1 + 2) * 21000 /\ r_emit r = None.
Proof. vm_compute. auto. Qed.
(* F2: index overflow after the debit *)
Lemma etx_index_overflow_witness :
  let r := op_etx (wit_ctx wit_post 2 []) wit_self e21 65536 true wit_to 12345 21000 1 2 0 in
  r_push r = Some 0 /\ r_debit r = 12345 + (1 + 2) * 21000 /\ r_emit r = None.
Proof. vm_compute. auto. Qed.
(* F2: ineligible destination: no status word at all, the debit stays *)
Lemma etx_ineligible_witness :
  let r := op_etx (wit_ctx wit_post 0 []) wit_self e21 0 true wit_to 12345 21000 1 2 0 in
  r_push r = None /\ r_debit r = 12345 + (1 + 2) * 21000 /\ r_emit r = None.
Proof. vm_compute. auto. Qed.
(* before the overflow-check fork: value 2^256-1 is carried by the ETX, 62999 is debited *)
Lemma etx_prefork_wrap_witness :
  let r := op_etx (wit_ctx wit_pre 2 []) wit_self e21 0 true wit_to (W256 - 1) 21000 1 2 0 in
  r_push r = Some 1 /\ r_debit r = 62999 /\ exists e, r_emit r = Some e /\ e_value e = W256 - 1.
Proof. vm_compute. split; [reflexivity|]. split; [reflexivity|]. eexists. split; reflexivity. Qed.

Lemma etx_aon_refuted :
  exists c self bal idx alok addr value gl tip cap asz,
    ~ all_or_nothing value (etx_fee gl tip cap) idx (op_etx c self bal idx alok addr value gl tip cap asz).
Proof.
  exists (wit_ctx wit_post 2 []), wit_self, e21, 0, false, wit_to, 12345, 21000, 1, 2, 3.
  destruct etx_bad_access_list_witness as [A [B _]]. apply aon_status0_debit; [exact A|]. rewrite B. discriminate.
Qed.

(* F3: opConvert, index overflow after the debit *)
Lemma convert_index_overflow_witness :
  let r := op_convert (wit_ctx wit_post 0 []) wit_self e21 65536 wit_qi MinQuaiConversionAmount 30000 in
  r_push r = Some 0 /\ r_debit r = MinQuaiConversionAmount + 1000000000 * 30000 /\ r_emit r = None.
Proof. vm_compute. auto. Qed.
Lemma convert_prefork_wrap_witness :
  let r := op_convert (wit_ctx wit_pre 0 []) wit_self e21 0 wit_qi (W256 - 1) 21000 in
  r_push r = Some 1 /\ r_debit r = 20999999999999 /\ exists e, r_emit r = Some e /\ e_value e = W256 - 1.
Proof. vm_compute. split; [reflexivity|]. split; [reflexivity|]. eexists. split; reflexivity. Qed.

Lemma convert_aon_refuted :
  exists c self bal idx addr value gl,
    ~ all_or_nothing value (convert_fee c gl) idx (op_convert c self bal idx addr value gl).
Proof.
  exists (wit_ctx wit_post 0 []), wit_self, e21, 65536, wit_qi, MinQuaiConversionAmount, 30000.
  destruct convert_index_overflow_witness as [A [B _]]. apply aon_status0_debit; [exact A|]. rewrite B. discriminate.
Qed.

(* the loss is visible at transaction level: the frame does not fail, the debit stays, nothing is recorded *)
Definition wit_prog_bad_al : list instr :=
  [IPush 0xc101020000000000000000000000000000000000000000000000000000000000; IPush 0; IMstore;
   IPush 3; IPush 0; IPush 0; IPush 0; IPush 2; IPush 1; IPush 21000; IPush 12345; IPush wit_to; IPush 0; IEtx false; IPop; IStop].
Definition wit_prog_inelig (pad : bool) : list instr :=
  (if pad then [IPush 7] else []) ++
  [IPush 0; IPush 0; IPush 0; IPush 0; IPush 2; IPush 1; IPush 21000; IPush 12345; IPush wit_to; IPush 0; IEtx false; IPop; IStop].
Definition wit_world : world := mkW [(wit_origin, e21); (wit_self, e21)] [].

Lemma tx_loss_witness :
  let r := call 5 (wit_ctx wit_post 2 [(wit_self, wit_prog_bad_al)]) (FK CkCall) false 0 wit_origin wit_self 10000000 0 wit_world in
  c_err r = 0 /\ w_etxs (c_world r) = [] /\ sumb (w_bal (c_world r)) + 75345 = sumb (w_bal wit_world).
Proof. vm_compute. auto. Qed.
Lemma tx_loss_witness_no_status :
  let r := call 5 (wit_ctx wit_post 0 [(wit_self, wit_prog_inelig true)]) (FK CkCall) false 0 wit_origin wit_self 10000000 0 wit_world in
  c_err r = 0 /\ w_etxs (c_world r) = [] /\ sumb (w_bal (c_world r)) + 75345 = sumb (w_bal wit_world).
Proof. vm_compute. auto. Qed.

Lemma tx_aon_refuted :
  exists fuel c caller addr gas value w,
    let r := call fuel c (FK CkCall) false 0 caller addr gas value w in
    c_err r = 0 /\ emitted_all (c_tr r) = [] /\ sumb (w_bal (c_world r)) < sumb (w_bal w).
Proof.
  exists 5%nat, (wit_ctx wit_post 2 [(wit_self, wit_prog_bad_al)]), wit_origin, wit_self, 10000000, 0, wit_world.
  vm_compute. auto.
Qed.

(* a constructor that sends and then returns code it cannot pay for: CREATE reports failure (err class 6 =
   ErrCodeStoreOutOfGas, status word 0) but create() does not restore its snapshot: the endowment stays in the
   code-less new account, the send's debit and ETX stay (evm.go:create "err != nil && err != ErrCodeStoreOutOfGas") *)
Definition wit_new : N := 0x0009c9c9c9c9c9c9c9c9c9c9c9c9c9c9c9c9c9c9.
Definition wit_send : list instr :=
  [IPush 0; IPush 0; IPush 0; IPush 0; IPush 2; IPush 1; IPush 21000; IPush 12345; IPush wit_to; IPush 0; IEtx false; IPop].
Definition wit_ctor_big_code : list instr := wit_send ++ [IPush 20000; IPush 0; IReturn].

Lemma ctor_code_store_witness :
  let r := call 5 (wit_ctx wit_post 2 []) (FCreate wit_ctor_big_code wit_new 0) false 0 wit_self 0 2000000 1000000 wit_world in
  c_err r = 6 /\
  w_etxs (c_world r) = [mkEtx wit_to wit_new 12345 0 EtxDefaultType 21000] /\
  getb wit_new (w_bal (c_world r)) = 1000000 - 75345 /\ getb wit_self (w_bal (c_world r)) = e21 - 1000000.
Proof. vm_compute. repeat split; reflexivity. Qed.

Lemma failed_frame_no_trace_refuted :
  exists fuel c k ro depth caller addr gas value w,
    c_err (call fuel c k ro depth caller addr gas value w) <> 0 /\
    c_world (call fuel c k ro depth caller addr gas value w) <> w.
Proof.
  exists 5%nat, (wit_ctx wit_post 2 []), (FCreate wit_ctor_big_code wit_new 0), false, 0, wit_self, 0, 2000000, 1000000, wit_world.
  vm_compute. split; intros H; discriminate H.
Qed.

Lemma post_fork_no_wrap_etx : forall c value gl tip cap, post_fork c = true -> etx_amount_wraps c value gl tip cap = false.
Proof. intros c value gl tip cap H. unfold etx_amount_wraps. rewrite H. reflexivity. Qed.
Lemma post_fork_no_wrap_convert : forall c value gl, post_fork c = true -> convert_amount_wraps c value gl = false.
Proof. intros c value gl H. unfold convert_amount_wraps. rewrite H. reflexivity. Qed.

(* ------------------------------------------------------------------ *)
(* Lockup precompile: UnwrapQi under EVM.Call                          *)
(* ------------------------------------------------------------------ *)

Definition unwrap_aon (owner gas wrapped : N) (etxs : list etx) (benef value gl : N) (res : bool * N * N * list etx) : Prop :=
  match res with
  | (ok, g, wr, etxs') =>
      (ok = true /\ value <= wrapped /\ wr = wrapped - value /\ g = gas - gl /\
       exists e, etxs' = etxs ++ [e] /\ e_value e = value /\ e_index e = lenN etxs /\ e_gas e = gl /\
                 e_to e = benef /\ e_sender e = owner /\ e_type e = EtxUnwrapQiType)
      \/ (ok = false /\ wr = wrapped /\ etxs' = etxs)
  end.

Lemma unwrap_call_aon_general : forall c owner gas wrapped etxs benef value gl,
  (ShaEquivalentDifficultyForkBlock <=? x_ptn c) || (lenN etxs <=? MaxUint16) = true ->
  unwrap_aon owner gas wrapped etxs benef value gl (call_unwrap c owner gas wrapped etxs benef value gl).
Proof.
  intros c owner gas wrapped etxs benef value gl H. unfold call_unwrap, unwrap_qi, unwrap_aon.
  destruct (gas <? gl); cbn [u_ok u_gas u_wrapped u_emit].
  { destruct (ShaEquivalentDifficultyForkBlock <=? x_ptn c); right; cbn [opt_list]; rewrite ?app_nil_r; auto. }
  destruct (negb (in_scope (x_pfx c) benef && is_qi benef)); cbn [u_ok u_gas u_wrapped u_emit].
  { destruct (ShaEquivalentDifficultyForkBlock <=? x_ptn c); right; cbn [opt_list]; rewrite ?app_nil_r; auto. }
  destruct (negb (internal_quai (x_pfx c) owner)); cbn [u_ok u_gas u_wrapped u_emit].
  { destruct (ShaEquivalentDifficultyForkBlock <=? x_ptn c); right; cbn [opt_list]; rewrite ?app_nil_r; auto. }
  destruct (wrapped =? 0); cbn [u_ok u_gas u_wrapped u_emit].
  { destruct (ShaEquivalentDifficultyForkBlock <=? x_ptn c); right; cbn [opt_list]; rewrite ?app_nil_r; auto. }
  destruct (wrapped <? value) eqn:V; cbn [u_ok u_gas u_wrapped u_emit].
  { destruct (ShaEquivalentDifficultyForkBlock <=? x_ptn c); right; cbn [opt_list]; rewrite ?app_nil_r; auto. }
  apply N.ltb_ge in V.
  destruct (MaxUint16 <? lenN etxs) eqn:I; cbn [u_ok u_gas u_wrapped u_emit].
  - destruct (ShaEquivalentDifficultyForkBlock <=? x_ptn c); [right; auto|].
    cbn [orb] in H. apply N.leb_le in H. apply N.ltb_lt in I. lia.
  - left. cbn [opt_list]. repeat split; auto. eexists. split; [reflexivity|]. cbn. repeat split; auto.
Qed.

Definition prefilled (n : N) : list etx := repeatN dummy_etx (N.to_nat n) [].

(* before ShaEquivalentDifficultyForkBlock a failing lockup call is not reverted: the slot stays debited *)
Lemma unwrap_pre_sha_witness :
  let c := wit_ctx (ShaEquivalentDifficultyForkBlock - 1) 0 [] in
  let res := call_unwrap c wit_self 100000 5000 (prefilled 65536) wit_qi 1200 30000 in
  x_ptn c < ShaEquivalentDifficultyForkBlock /\
  fst (fst (fst res)) = false /\ snd (fst res) = 3800 /\ lenN (snd res) = 65536.
Proof. vm_compute. repeat split; reflexivity. Qed.

Lemma unwrap_aon_refuted :
  exists c owner gas wrapped etxs benef value gl,
    ~ unwrap_aon owner gas wrapped etxs benef value gl (call_unwrap c owner gas wrapped etxs benef value gl).
Proof.
  exists (wit_ctx (ShaEquivalentDifficultyForkBlock - 1) 0 []), wit_self, 100000, 5000, (prefilled 65536), wit_qi, 1200, 30000.
  pose proof unwrap_pre_sha_witness as W. cbv zeta in W. destruct W as [_ [A [B _]]].
  destruct (call_unwrap (wit_ctx (ShaEquivalentDifficultyForkBlock - 1) 0 []) wit_self 100000 5000 (prefilled 65536) wit_qi 1200 30000) as [[[ok g] wr] e].
  cbn [fst snd] in A, B. subst. unfold unwrap_aon.
  intros [[H _]|[_ [H _]]]; discriminate.
Qed.
